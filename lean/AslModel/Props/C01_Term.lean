import AslModel.Lemmas.Pass2Chain
/-!
# C01 — termination of the pass loop and symbols defined by expressions (`name EQU expr`)

Model: `Model/Pass2.lean` (extension of `Model/Pass.lean`), SPEC: `Spec/Pass2.lean` (from the manual).
Every theorem is for *every* program of the statement language (any length, any nesting of expressions, any
chain of `EQU`s), every size function unless a hypothesis says otherwise.

What the code really does with a forward `EQU` (asmallg.c `CodeSETEQU`, asmpars.c `LookupSymbol`), and what the
manual says it does: an `EQU` whose expression mentions a symbol that is still unknown in pass 1 is *not entered at
all* in pass 1; from pass 2 on an unknown symbol is the error "symbol undefined".  Consequences proved below:

* with value-independent statement sizes the pass loop always ends after one or two passes (`C01_term_const_sizes`):
  there is no "one pass per link" – a chain of forward `EQU`s of depth ≥ 2 is *rejected* in pass 2, not resolved
  (`C01_chain_needs_passes`), the same chain written in the other order is assembled in two passes
  (`C01_chain_reordered_two_passes`);
* rejection follows the purely textual rule of the manual (`C01_second_pass_rejects_iff`);
* without forward references one pass suffices, whatever the sizes (`C01_term_backward`);
* with value-dependent sizes termination is **false**: `C01_oscillation_example` (a three-line 6502 program on which
  the real assembler never leaves the pass loop either – finding `size-oscillation`).
-/
namespace AslModel.C01
open AslModel.Pass (Sym Tab upd emptyTab)
open AslModel.Pass2
open AslModel.Generated.PassConsts (maxSymPass firstPassNo)
open AslModel.Spec.Pass2 (value Holds holdsDef holdsUse known stmtKnown defAfter firstPassDefs backward accepted noForward)

/-- the constants regenerated from asmdef.c are the ones the proofs below are about: unknown symbols are
tolerated in pass 1 only -/
theorem C01_maxSymPass_is_first_pass : maxSymPass = firstPassNo ∧ isFirst 0 = true ∧ ∀ k, isFirst (k + 1) = false :=
  ⟨by decide, isFirst_zero, isFirst_succ⟩

/-! ## the fixpoint theorems for the extended statement set -/

/-- the definitions a pass executed, as the SPEC sees them -/
def defsOf (s : PS) : List AslModel.Spec.Pass2.Def := s.eqs.map fun x => (x.1, x.2.1, x.2.2.1)

/-- **Every use encodes the final value (labels, `EQU` symbols, expressions)**: a pass that ends without error and
without a repass request left a symbol table that satisfies every defining equation (a label is its address, an
`EQU` symbol is the mathematical value of its expression at its place), holds for every definition the value that was
entered, and every use encoded the mathematical value of its operand expression under that final table. -/
theorem C01_refs_final_equ (first : Bool) (T : Tab) (p : List Stmt)
    (h : (pass first T p).repass = false) (he : (pass first T p).err = false) :
    Holds (pass first T p).tab (defsOf (pass first T p)) (pass first T p).out ∧
    ∀ a n e v, (a, n, e, v) ∈ (pass first T p).eqs → (pass first T p).tab n = some v := by
  have hA : (∀ a e v, (a, e, v) ∈ (pass first T p).out → eval false (pass first T p).tab a e = some (v, false)) ∧
      (∀ a n e v, (a, n, e, v) ∈ (pass first T p).eqs →
        (pass first T p).tab n = some v ∧ eval false (pass first T p).tab a e = some (v, false)) :=
    run_agree first p { tab := T } (agree_init T) h he
  refine ⟨⟨?_, ?_⟩, fun a n e v hm => (hA.2 a n e v hm).1⟩
  · intro d hd
    simp only [defsOf, List.mem_map] at hd
    obtain ⟨⟨a, n, e, v⟩, hm, rfl⟩ := hd
    have := hA.2 a n e v hm
    simp [holdsDef, this.1, eval_value _ _ _ _ this.2]
  · intro ⟨a, e, v⟩ hu
    simp [holdsUse, eval_value _ _ _ _ (hA.1 a e v hu)]

/-- **One further pass changes nothing**: after a pass that ended without error and without Repass, another pass
(first or not) from the resulting table reproduces addresses, uses, definitions and the table, again without Repass
and without error. -/
theorem C01_extra_pass_equ (first first' : Bool) (T : Tab) (p : List Stmt)
    (h : (pass first T p).repass = false) (he : (pass first T p).err = false) :
    (pass first' (pass first T p).tab p).pc = (pass first T p).pc ∧
    (pass first' (pass first T p).tab p).out = (pass first T p).out ∧
    (pass first' (pass first T p).tab p).eqs = (pass first T p).eqs ∧
    (pass first' (pass first T p).tab p).tab = (pass first T p).tab ∧
    (pass first' (pass first T p).tab p).repass = false ∧ (pass first' (pass first T p).tab p).err = false := by
  have hr := lockstep first first' (pass first T p).tab p { tab := T } { tab := (pass first T p).tab }
    ⟨rfl, rfl, rfl, rfl, rfl, rfl, agree_init T⟩ h he rfl
  exact ⟨hr.pc, hr.out, hr.eqs, hr.tab, hr.rep, hr.err⟩

/-- **Fixpoint at loop exit**: whenever the pass loop leaves without error – after any number of passes – the
final table satisfies all defining equations, every use holds the final value of its expression, and a further pass
would reproduce code, definitions and table. -/
theorem C01_fixpoint_at_exit_equ (p : List Stmt) (fuel : Nat) (T : Tab) (n : Nat) (s : PS)
    (h : assemble p fuel T 0 = some (n, s)) (he : s.err = false) :
    Holds s.tab (defsOf s) s.out ∧ (pass false s.tab p).out = s.out ∧ (pass false s.tab p).tab = s.tab ∧
    (pass false s.tab p).repass = false ∧ (pass false s.tab p).err = false ∧ 1 ≤ n := by
  obtain ⟨T', rfl, hrep, hk⟩ := assemble2_some p fuel T 0 n s h
  have hrep' : (pass (isFirst (n - 1)) T' p).repass = false := by
    rcases hrep with h1 | h1
    · rw [he] at h1; cases h1
    · exact h1
  have h1 := C01_refs_final_equ _ T' p hrep' he
  have h2 := C01_extra_pass_equ _ false T' p hrep' he
  exact ⟨h1.1, h2.2.1, h2.2.2.2.1, h2.2.2.2.2.1, h2.2.2.2.2.2, by omega⟩

/-! ## termination -/

/-- **Rejection follows the textual rule of the manual**: the second pass reports "symbol undefined" exactly
when some statement mentions a symbol that neither got a value in the first pass (label, or `EQU` without forward
reference) nor is defined textually before the statement.  No hypothesis on sizes or values. -/
theorem C01_second_pass_rejects_iff (p : List Stmt) :
    (pass false (pass true emptyTab p).tab p).err = !accepted p := by
  have h1 := run_true_dom p { tab := emptyTab } [] domIs_empty
  exact run_false_err p { tab := (pass true emptyTab p).tab } _ h1 rfl

/-- **Termination with value-independent sizes, exact pass count**: if no statement's length depends on an operand
value and no symbol is defined twice, the pass loop ends after exactly one pass when the program has no forward
reference and after exactly two passes otherwise – never more, whatever the length of the `EQU` chains; the result
is an error ("symbol undefined" in pass 2) exactly when the manual's textual rule rejects the program. -/
theorem C01_term_const_sizes (p : List Stmt) (hc : ConstSizes p) (hnd : (defs p).Nodup) :
    ∃ s, assemble p 2 emptyTab 0 = some (if noForward p then 1 else 2, s) ∧ s.err = !accepted p := by
  have he1 : (pass true emptyTab p).err = false := run_true_err p { tab := emptyTab } rfl
  have hr1 := first_pass_repass p hnd
  have hrej := C01_second_pass_rejects_iff p
  cases hb : noForward p with
  | true =>
    rw [hb] at hr1
    refine ⟨pass true emptyTab p, ?_, ?_⟩
    · simp [assemble, isFirst_zero, he1, hr1]
    · -- one further pass finds every symbol, so the rule accepts
      have hx := (C01_extra_pass_equ true false emptyTab p (by simpa using hr1) he1).2.2.2.2.2
      rw [hrej] at hx
      rw [he1]; simpa using hx
  | false =>
    rw [hb] at hr1
    refine ⟨pass false (pass true emptyTab p).tab p, ?_, hrej⟩
    have h2 := lock12 p { tab := emptyTab } { tab := (pass true emptyTab p).tab } hc hnd
      (by intro m _; rfl) (by intro m _; rfl) (by intro m x hm; simp [emptyTab] at hm) rfl rfl
    have hf1 : isFirst (0 + 1) = false := isFirst_succ 0
    simp only [assemble, isFirst_zero, he1, hr1, Bool.not_false, if_true, Bool.false_eq_true, if_false, hf1]
    cases he2 : (pass false (pass true emptyTab p).tab p).err with
    | true => simp
    | false =>
      have : (pass false (pass true emptyTab p).tab p).repass = false := by
        rcases h2 with h | h
        · have : (pass false (pass true emptyTab p).tab p).err = true := h
          rw [he2] at this; cases this
        · exact h
      simp [this]

/-- **No forward reference: one pass**, whatever the size functions: the loop ends after the first pass, without
error (the model needs no confirming pass: `Repass` is only set by an unknown symbol or a changed value). -/
theorem C01_term_backward (p : List Stmt) (hb : noForward p = true) (hnd : (defs p).Nodup) :
    ∃ s, assemble p 1 emptyTab 0 = some (1, s) ∧ s.err = false ∧ s.repass = false := by
  have := run_backward true p { tab := emptyTab } [] domIs_empty (by simp) hnd hb rfl rfl
  refine ⟨pass true emptyTab p, ?_, this.2, this.1⟩
  have h1 : (pass true emptyTab p).err = false := this.2
  have h2 : (pass true emptyTab p).repass = false := this.1
  simp [assemble, isFirst_zero, h1, h2]

/-! ## the forward chain `s0 equ s1 / s1 equ s2 / … / sn equ 5` -/

/-- **What a forward `EQU` chain really costs**: `chain n` (n forward links, then the constant) is assembled in
one pass for n = 0, in two passes for n = 1, and for every n ≥ 2 the loop ends after two passes with the error
"symbol undefined" – the bound of two passes of `C01_term_const_sizes` is attained, and no number of passes resolves
a forward chain of depth ≥ 2. -/
theorem C01_chain_needs_passes (n : Nat) :
    ∃ s, assemble (chain n) 2 emptyTab 0 = some (if n = 0 then 1 else 2, s) ∧ s.err = decide (2 ≤ n) := by
  obtain ⟨s, h1, h2⟩ := C01_term_const_sizes (chain n) (links_constSizes 0 n) (links_nodup 0 n)
  refine ⟨s, ?_, ?_⟩
  · rw [h1, chain_noForward]; simp
  · rw [h2, chain_accepted]
    by_cases h : n ≤ 1
    · simp [h]; omega
    · simp [h]; omega

/-- **The order decides, not the depth**: the reordered chain of any length n ≥ 1 is assembled without error in
exactly two passes (one forward reference: the first link to the constant at the end). -/
theorem C01_chain_reordered_two_passes (n : Nat) (hn : 1 ≤ n) :
    ∃ s, assemble (stair n) 2 emptyTab 0 = some (2, s) ∧ s.err = false := by
  obtain ⟨s, h1, h2⟩ := C01_term_const_sizes (stair n) (stair_constSizes n) (stair_nodup n)
  have hnf : noForward (stair n) = false := by
    obtain ⟨k, rfl⟩ : ∃ k, n = k + 1 := ⟨n - 1, by omega⟩
    simp [noForward, stair, down, backward, stmtKnown, known]
  have hacc : accepted (stair n) = true := by
    simp only [accepted, stair]
    rw [down_firstPassDefs n _ [] (by simp)]
    simp only [firstPassDefs, known, if_true]
    exact down_backward n _ (by intro D; simp [backward, stmtKnown, known]) [n] (Or.inr (by simp))
  refine ⟨s, ?_, ?_⟩
  · rw [h1, hnf]; simp
  · rw [h2, hacc]; rfl

/-! ## value-dependent sizes: the pass loop need not end -/

/-- **Counterexample to termination (finding `size-oscillation`)**: the three-line program `lda 258-lab / lab:`
never leaves the pass loop, whatever number of passes is allowed: with `lab = 3` the operand is 255 (zero-page form,
2 bytes, so `lab = 2`), with `lab = 2` it is 256 (absolute form, 3 bytes, so `lab = 3`).  The real assembler
behaves the same way (replayed by the check on every run). -/
theorem C01_oscillation_example (fuel : Nat) : assemble oscProg fuel emptyTab 0 = none := by
  cases fuel with
  | zero => rfl
  | succ f =>
    have h1 : (pass true emptyTab oscProg).repass = true ∧ (pass true emptyTab oscProg).err = false ∧
        (pass true emptyTab oscProg).tab 1 = some 3 := by
      simp [pass, run, step, oscProg, eval, emptyTab, zpSize, upd, mismatch]
    simp only [assemble, isFirst_zero, h1.1, h1.2.1, Bool.false_eq_true, if_false, if_true]
    exact osc_loop f _ 0 (Or.inr h1.2.2)

theorem C01_finding_size_oscillation : ∀ fuel, assemble oscProg fuel emptyTab 0 = none :=
  C01_oscillation_example

/-- the oscillating program has no forward `EQU`, no double definition, and is accepted by the textual rule: only the
value-dependent size makes the difference to `C01_term_const_sizes` -/
theorem C01_oscillation_only_by_size : accepted oscProg = true ∧ (defs oscProg).Nodup ∧ ¬ ConstSizes oscProg := by
  refine ⟨by decide, by decide, ?_⟩
  intro h
  obtain ⟨c, hc, _⟩ := h (.ref (.sub (.const 258) (.sym 1)) zpSize none) (by simp [oscProg])
  have h0 := hc 0
  have h1 := hc 256
  simp [zpSize] at h0 h1
  omega

/-! ## the extended model contains the audited one -/

/-- **The extended model agrees with the audited model `Model/Pass.lean`** on its label/reference/filler fragment:
a first pass produces the same addresses, table, Repass request and encoded references. -/
theorem C01_equ_model_extends_pass (p : List AslModel.Pass.Stmt) (q : List Stmt) (T : Tab)
    (hq : liftProg p = some q) :
    (pass true T q).pc = (AslModel.Pass.pass T p).pc ∧ (pass true T q).tab = (AslModel.Pass.pass T p).tab ∧
    (pass true T q).repass = (AslModel.Pass.pass T p).repass ∧
    (pass true T q).out = (AslModel.Pass.pass T p).out.map fun x => (x.1, Expr.sym x.2.1, x.2.2) := by
  have := sim_run p q { tab := T } { tab := T } hq ⟨rfl, rfl, rfl, rfl, rfl⟩
  exact ⟨this.pc, this.tab, this.rep, this.out⟩

/-! ## Non-vacuity -/

/-- a program with a two-link `EQU` dependency (one forward link), `*`, offsets and a value-dependent size that
converges after four passes without error -/
def exEqu : List Stmt :=
  [.equ 2 (.add (.sym 1) (.const 1)), .ref (.sym 2) zpSize none, .skip 252, .equ 1 (.add .pc (.const 2)), .label 3]

example : (assemble exEqu 5 emptyTab 0).map (fun r => (r.1, r.2.err, r.2.tab 2, r.2.out.map (·.2.2))) =
    some (4, false, some 258, [258]) := by decide

/-- hypotheses of `C01_term_const_sizes` on a program with a forward `EQU`, an expression use and a label -/
def exConst : List Stmt :=
  [.ref (.add (.sym 2) (.const 1)) (fun _ => 2) none, .equ 2 (.sub (.sym 1) .pc), .skip 7, .label 1]
example : ConstSizes exConst ∧ (defs exConst).Nodup ∧ accepted exConst = false := by
  refine ⟨?_, by decide, by decide⟩
  intro st hst
  simp only [exConst, List.mem_cons, List.mem_nil_iff, or_false] at hst
  rcases hst with rfl | rfl | rfl | rfl
  · exact ⟨2, fun _ => rfl, Or.inl rfl⟩
  · trivial
  · trivial
  · trivial

/-- hypotheses of `C01_term_backward` with a value-dependent size -/
def exBack : List Stmt := [.skip 300, .label 1, .equ 2 (.sub (.sym 1) (.const 50)), .ref (.sym 2) zpSize none]
example : noForward exBack = true ∧ (defs exBack).Nodup := by decide

example : liftProg [.label 1, .ref 2 (fun v => if v < 256 then 2 else 3) none, .skip 4, .label 2] =
    some [.label 1, .ref (.sym 2) (fun v => if v < 256 then 2 else 3) none, .skip 4, .label 2] := rfl

end AslModel.C01
