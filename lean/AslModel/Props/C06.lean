import AslModel.Lemmas.Hex
/-! # C06 — property theorems (see DESIGN.md 4.6) -/
namespace AslModel.C06
open AslModel.Hex AslModel.P2Hex AslModel.HexLemmas
open AslModel.PFile (b b_toNat)

/-- every byte string printed as `%02X…` parses back (the lemma all line formats rest on) -/
theorem C06_hex_roundtrip (bs : List Byte) : parseHex (bytesHex bs) = some bs := parseHex_bytesHex bs

/-- the text of newline-free lines splits back into exactly these lines -/
theorem C06_split_unlines (ls : List (List Char)) (h : ∀ l ∈ ls, '\n' ∉ l) : splitLines (unlines ls) = some ls :=
  splitLines_unlines ls h

/-- Motorola S1/S2/S3 data line exactly as `ProcessFile` prints it (byte-addressed target, `-m 0`): the public
S-record reader accepts it (count and checksum right) and returns the address and the data.
`t` = `MotRecType`; the guards are the address width of the record type and the one-byte count field. -/
theorem C06_moto_line (g t a : Nat) (buf : List Byte) (ht : t ≤ 2) (ha : a < 65536 * 256 ^ t)
    (hl : buf.length + 3 + t ≤ 255) :
    srecLine (motoLine 0 g t a buf) = some (.data (t + 1) a buf) := by
  have hmod : ∀ x : Nat, x % 65536 % 256 = x % 256 := by intro x; omega
  rcases (by omega : t = 0 ∨ t = 1 ∨ t = 2) with rfl | rfl | rfl
  · have key := srecLine_mk '1' 2 [b (a / 256), b a] buf (by decide) rfl (by omega) _ rfl
    have e : buf.length + 3 + 0 = 2 + buf.length + 1 := by omega
    simp only [motoLine, outBytes_plain, motoAddrBytes, sumN_eq, hex2_eq, lo_xor_ff, hmod, e, ← bytesHex_append]
    simp only [ge_iff_le, Nat.not_succ_le_zero, if_false, List.nil_append, List.cons_append, List.append_assoc, Nat.reduceAdd, Nat.le_refl, Nat.reduceLeDiff] at key ⊢
    have hc : Char.ofNat 49 = '1' := by decide
    rw [hc, key]
    have ha' : a < 65536 := by simpa using ha
    simp only [srecMk, be2, b_toNat]
    have : a / 256 % 256 * 256 + a % 256 = a := by omega
    simp [this]
  · have key := srecLine_mk '2' 3 [b (a / 65536), b (a / 256), b a] buf (by decide) rfl (by omega) _ rfl
    have e : buf.length + 3 + 1 = 3 + buf.length + 1 := by omega
    simp only [motoLine, outBytes_plain, motoAddrBytes, sumN_eq, hex2_eq, lo_xor_ff, hmod, e, ← bytesHex_append]
    simp only [ge_iff_le, if_false, if_true, List.nil_append, List.cons_append, List.append_assoc, Nat.reduceAdd, Nat.le_refl, Nat.reduceLeDiff] at key ⊢
    have hc : Char.ofNat 50 = '2' := by decide
    rw [hc, key]
    have ha' : a < 16777216 := by simpa using ha
    simp only [srecMk, be3, b_toNat]
    have : (a / 65536 % 256 * 256 + a / 256 % 256) * 256 + a % 256 = a := by omega
    simp [this]
  · have key := srecLine_mk '3' 4 [b (a / 16777216), b (a / 65536), b (a / 256), b a] buf (by decide) rfl (by omega) _ rfl
    have e : buf.length + 3 + 2 = 4 + buf.length + 1 := by omega
    simp only [motoLine, outBytes_plain, motoAddrBytes, sumN_eq, hex2_eq, lo_xor_ff, hmod, e, ← bytesHex_append]
    simp only [ge_iff_le, if_false, if_true, List.nil_append, List.cons_append, List.append_assoc, Nat.reduceAdd, Nat.le_refl, Nat.reduceLeDiff] at key ⊢
    have hc : Char.ofNat 51 = '3' := by decide
    rw [hc, key]
    have ha' : a < 4294967296 := by simpa using ha
    simp only [srecMk, be4, b_toNat]
    have : ((a / 16777216 % 256 * 256 + a / 65536 % 256) * 256 + a / 256 % 256) * 256 + a % 256 = a := by omega
    simp [this]


example : srecLine (motoLine 0 1 1 0x12345 [0xde, 0xad]) = some (.data 2 0x12345 [0xde, 0xad]) :=
  C06_moto_line 1 1 0x12345 _ (by decide) (by decide) (by decide)

/-- **Line-splitting induction (Motorola).**  The data-line loop of one group (`while (ErgLen > 0)`, fuel ≥ `ErgLen`),
for any line length `ll ≥ 1` whose count still fits one byte: every line is accepted by the public reader, all records are
data records, there are as many as lines, and whatever follows, the reader's image is the group's bytes at consecutive
addresses from `ErgStart`, followed by the image of the rest. -/
theorem C06_moto_group (t ll : Nat) (ht : t ≤ 2) (hll : 1 ≤ ll) (hl : ll + 3 + t ≤ 255) :
    ∀ (fuel a : Nat) (data : List Byte), data.length ≤ fuel → a + data.length ≤ 65536 * 256 ^ t →
      a + data.length < 4294967296 →
      ∃ rs, (motoLoop 0 1 t ll fuel a data).mapM srecLine = some rs ∧ (∀ r ∈ rs, r.isData = true) ∧
        rs.length = (motoLoop 0 1 t ll fuel a data).length ∧
        ∀ rest, srecRun true (rs ++ rest) = addCells (cellsFrom a data) (srecRun true rest) := by
  intro fuel
  induction fuel with
  | zero =>
    intro a data hf _ _
    have : data = [] := by cases data <;> simp_all
    subst this
    exact ⟨[], by simp [motoLoop], by simp, by simp [motoLoop], by intro rest; simp [cellsFrom, addCells_nil]⟩
  | succ f ih =>
    intro a data hf ha h32
    by_cases hd : data = []
    · subst hd
      exact ⟨[], by simp [motoLoop], by simp, by simp [motoLoop], by intro rest; simp [cellsFrom, addCells_nil]⟩
    · have hpos : 0 < data.length := List.length_pos_iff.mpr hd
      have hn1 : 1 ≤ min ll data.length := by omega
      have hn2 : min ll data.length ≤ data.length := Nat.min_le_right _ _
      have htl : (data.take (min ll data.length)).length = min ll data.length := by simp
      have hdl : (data.drop (min ll data.length)).length = data.length - min ll data.length := by simp
      have hpow : 65536 * 256 ^ t ≤ 4294967296 := by
        rcases (by omega : t = 0 ∨ t = 1 ∨ t = 2) with rfl | rfl | rfl <;> decide
      have hline := C06_moto_line 1 t a (data.take (min ll data.length)) ht (by omega) (by rw [htl]; omega)
      have hmod : (a + min ll data.length / 1) % two32 = a + min ll data.length := by
        rw [Nat.div_one]; apply Nat.mod_eq_of_lt; unfold two32; omega
      obtain ⟨rs, h1, h2, h3, h4⟩ := ih (a + min ll data.length) (data.drop (min ll data.length))
        (by rw [hdl]; omega) (by rw [hdl]; omega) (by rw [hdl]; omega)
      refine ⟨.data (t + 1) a (data.take (min ll data.length)) :: rs, ?_, ?_, ?_, ?_⟩
      · simp only [motoLoop, hd, if_false, hmod, List.mapM_cons, hline, h1]; rfl
      · intro r hr
        rcases List.mem_cons.mp hr with rfl | hr
        · rfl
        · exact h2 r hr
      · simp only [motoLoop, hd, if_false, hmod, List.length_cons, h3]
      · intro rest
        rw [List.cons_append, srecRun_data, h4, addCells_addCells]
        congr 1
        have := cellsFrom_append a (data.take (min ll data.length)) (data.drop (min ll data.length))
        rw [List.take_append_drop, htl] at this
        exact this.symm

/-- S9/S8/S7 termination record of `main` with the entry address -/
theorem C06_moto_term (t e : Nat) (ht : t ≤ 2) (he : e < 65536 * 256 ^ t) :
    srecLine (motoTerm t e) = some (.term (9 - t) e) := by
  rcases (by omega : t = 0 ∨ t = 1 ∨ t = 2) with rfl | rfl | rfl
  · have key := srecLine_mk '9' 2 [b (e / 256), b e] [] (by decide) rfl (by decide) _ rfl
    simp only [motoTerm, motoAddrBytes, sumN_eq, hex2_eq, ← bytesHex_append] at key ⊢
    simp only [ge_iff_le, Nat.not_succ_le_zero, Nat.reduceLeDiff, if_false, List.nil_append, List.cons_append, List.append_nil, List.length_nil, Nat.reduceAdd, Nat.reduceSub, sum8_nil, Nat.add_zero] at key ⊢
    have hc : Char.ofNat 57 = '9' := by decide
    rw [hc, key]
    have he' : e < 65536 := by simpa using he
    simp only [srecMk, be2, b_toNat]
    have : e / 256 % 256 * 256 + e % 256 = e := by omega
    simp [this]
  · have key := srecLine_mk '8' 3 [b (e / 65536), b (e / 256), b e] [] (by decide) rfl (by decide) _ rfl
    simp only [motoTerm, motoAddrBytes, sumN_eq, hex2_eq, ← bytesHex_append] at key ⊢
    simp only [ge_iff_le, if_false, if_true, List.nil_append, List.cons_append, List.append_nil, List.length_nil, Nat.reduceAdd, Nat.reduceSub, sum8_nil, Nat.add_zero, Nat.le_refl, Nat.reduceLeDiff] at key ⊢
    have hc : Char.ofNat 56 = '8' := by decide
    rw [hc, key]
    have he' : e < 16777216 := by simpa using he
    simp only [srecMk, be3, b_toNat]
    have : (e / 65536 % 256 * 256 + e / 256 % 256) * 256 + e % 256 = e := by omega
    simp [this]
  · have key := srecLine_mk '7' 4 [b (e / 16777216), b (e / 65536), b (e / 256), b e] [] (by decide) rfl (by decide) _ rfl
    simp only [motoTerm, motoAddrBytes, sumN_eq, hex2_eq, ← bytesHex_append] at key ⊢
    simp only [ge_iff_le, if_false, if_true, List.nil_append, List.cons_append, List.append_nil, List.length_nil, Nat.reduceAdd, Nat.reduceSub, sum8_nil, Nat.add_zero, Nat.le_refl, Nat.reduceLeDiff] at key ⊢
    have hc : Char.ofNat 55 = '7' := by decide
    rw [hc, key]
    have he' : e < 4294967296 := by simpa using he
    simp only [srecMk, be4, b_toNat]
    have : ((e / 16777216 % 256 * 256 + e / 65536 % 256) * 256 + e / 256 % 256) * 256 + e % 256 = e := by omega
    simp [this]

/-- **Motorola S, whole file** (one selected record, `+5`, no `-s`, byte-addressed target, `-m 0`): what
`ProcessFile` + the tail of `main` write — `S0`, the data lines for any line length, `S9/S8/S7` with the entry address —
is accepted by the public S-record reader and decodes to exactly the record's bytes at `ErgStart…` and the entry address.
Guards: the relocated addresses fit the record type chosen from `ErgStop` (this is what fails in the known finding
`range-check-ignores-relocation`), and the count byte fits (`-l` ≤ 250..252, known finding `moto-count-byte-overflow…`). -/
theorem C06_moto_file (t ll a e : Nat) (data : List Byte) (ht : t ≤ 2) (hll : 1 ≤ ll) (hl : ll + 3 + t ≤ 255)
    (ha : a + data.length ≤ 65536 * 256 ^ t) (h32 : a + data.length < 4294967296) (he : e < 65536 * 256 ^ t) :
    decodeSrecLines (s0Line :: (motoLoop 0 1 t ll data.length a data ++ [motoTerm t e])) =
      some ⟨cellsFrom a data, [e], 0⟩ := by
  obtain ⟨rs, h1, _, _, h4⟩ := C06_moto_group t ll ht hll hl data.length a data (Nat.le_refl _) ha h32
  have hterm : [motoTerm t e].mapM srecLine = some [.term (9 - t) e] := by
    simp [List.mapM_cons, C06_moto_term t e ht he]
  have hbody := mapM_append_some srecLine _ _ _ _ h1 hterm
  unfold decodeSrecLines
  simp only [List.mapM_cons, s0_line, hbody]
  simp only [bind, Option.bind, pure, srecRun, Bool.false_eq_true, if_false, h4, addCells]
  simp

/-- the same statement about the model's `emitGroups` + `terminators` (what `p2hex` returns for one selected record), for EVERY
line length `-l` since the repair 55ce03a (the data bytes per record are cut to what the count byte can express; before it the
theorem needed `lineLen + 3 + type ≤ 255`, and longer lines printed a truncated count - finding `moto-count-byte-overflow-linelen-over-252`) -/
theorem C06_moto (o : Opts) (g : Group) (e : Option Nat) (hf : g.fmt = .moto) (hg : g.gran = 1) (hmm : o.multiMode = 0)
    (h5 : o.rec5 = false) (hs : o.sepMoto = false) (hc : o.destFormat = some .moto) (hm : o.minMoto ≤ 3)
    (hll : 1 ≤ o.lineLen)
    (ha : g.ergStart + g.data.length ≤ 65536 * 256 ^ motoRecType o.minMoto g.ergStop)
    (h32 : g.ergStart + g.data.length < 4294967296) (he : e.getD 0 < 65536 * 256 ^ motoRecType o.minMoto g.ergStop) :
    ∃ st ls, emitGroups o {} [g] = .ok (st, ls) ∧
      decodeSrecLines (ls ++ terminators o st e) = some ⟨cellsFrom g.ergStart g.data, [e.getD 0], 0⟩ := by
  have ht : motoRecType o.minMoto g.ergStop ≤ 2 := by
    have aux : ∀ t0 : Nat, t0 ≤ 2 → (if t0 < o.minMoto - 1 then o.minMoto - 1 else t0) ≤ 2 := by
      intro t0 h
      by_cases h' : t0 < o.minMoto - 1
      · rw [if_pos h']; omega
      · rw [if_neg h']; omega
    have t0le : (if g.ergStop / 16777216 ≠ 0 then 2 else if g.ergStop / 65536 ≠ 0 then 1 else 0) ≤ 2 := by
      by_cases h1 : g.ergStop / 16777216 ≠ 0
      · rw [if_pos h1]; omega
      · rw [if_neg h1]
        by_cases h2 : g.ergStop / 65536 ≠ 0
        · rw [if_pos h2]; omega
        · rw [if_neg h2]; omega
    exact aux _ t0le
  obtain ⟨fmt, seg, gran, ergStart, ergStop, data⟩ := g
  simp only at hf hg ha h32 he ht
  subst hf hg
  -- the line length ProcessFile really uses: cut to what the count byte can express (repair 55ce03a)
  let ll := if 255 < o.lineLen + 3 + motoRecType o.minMoto ergStop then 252 - motoRecType o.minMoto ergStop else o.lineLen
  have hll' : 1 ≤ ll := by
    show 1 ≤ (if 255 < o.lineLen + 3 + motoRecType o.minMoto ergStop then 252 - motoRecType o.minMoto ergStop else o.lineLen)
    split <;> omega
  have hl : ll + 3 + motoRecType o.minMoto ergStop ≤ 255 := by
    show (if 255 < o.lineLen + 3 + motoRecType o.minMoto ergStop then 252 - motoRecType o.minMoto ergStop else o.lineLen) + 3 +
      motoRecType o.minMoto ergStop ≤ 255
    split <;> omega
  refine ⟨{ ({} : St) with motoOcc := true, maxMoto := max 0 (motoRecType o.minMoto ergStop) },
    s0Line :: motoLoop 0 1 (motoRecType o.minMoto ergStop) ll data.length ergStart data, ?_, ?_⟩
  · simp [emitGroups, emitGroup, hs, h5, hmm, bind, Except.bind, pure, Except.pure, ll, Nat.mod_one]
  · have := C06_moto_file _ ll ergStart (e.getD 0) data ht hll' hl ha h32 he
    simp only [terminators, hs, hc, Bool.not_false, Bool.and_true, if_true,
      Bool.false_eq_true, if_false, List.append_nil, List.nil_append, Nat.zero_max, reduceCtorEq, List.cons_append]
    simpa using this


/-- non-vacuity: a concrete option set / group satisfies every hypothesis of `C06_moto` -/
example : ∃ st ls, emitGroups { destFormat := some .moto, rec5 := false } {} [⟨.moto, 1, 1, 0xfff0, 0xfff2, [1, 2, 3]⟩] = .ok (st, ls) ∧
    decodeSrecLines (ls ++ terminators { destFormat := some .moto, rec5 := false } st (some 0x1234)) =
      some ⟨cellsFrom 0xfff0 [1, 2, 3], [0x1234], 0⟩ :=
  C06_moto { destFormat := some .moto, rec5 := false } ⟨.moto, 1, 1, 0xfff0, 0xfff2, [1, 2, 3]⟩ (some 0x1234) rfl rfl rfl rfl rfl rfl
    (by decide) (by decide) (by decide) (by decide) (by decide)

/-! ## Intel HEX -/

/-- Intel data record exactly as `ProcessFile` prints it (8-bit format: `IntOffset = 0`; byte-addressed, `-m 0`):
accepted by the public reader (count and two's-complement checksum right), decodes to offset and data. -/
theorem C06_intel_line (g a : Nat) (buf : List Byte) (hg : g = 1) (ha : a < 65536) (hl : buf.length ≤ 255) :
    ihexLine (intelLine 0 g 0 a buf) = some (.data a buf) := by
  subst hg
  have hw : ((a + two32 - 0) % two32 * 1) % two32 = a := by unfold two32; omega
  have hlen : buf.length % 65536 = buf.length := by omega
  have hmod : ∀ x : Nat, x % 65536 % 256 = x % 256 := by intro x; omega
  unfold intelLine ihexLine
  simp only [outBytes_plain, Nat.lt_irrefl, Nat.zero_lt_succ, if_true, hw, hlen, hex2_eq, lo_neg, hmod, sumN_eq,
    ← bytesHex_append, parseHex_bytesHex, List.cons_append, List.nil_append]
  have hcnt : (b buf.length).toNat = buf.length := by rw [b_toNat]; omega
  have hsum : sum8 (b buf.length :: b (a / 256) :: b a :: b 0 ::
      (buf ++ [b ((256 - (lo buf.length + lo (a / 256) + lo a + sum8 buf) % 256) % 256)])) % 256 = 0 := by
    simp only [sum8_cons, sum8_append, sum8_nil, b_toNat, lo]
    omega
  simp only [hcnt, List.length_append, List.length_cons, List.length_nil, hsum, and_self, if_true, b_toNat,
    List.dropLast_concat, Nat.zero_add, Nat.zero_mod]
  have : a / 256 % 256 * 256 + a % 256 = a := by omega
  simp [ihexMk, this]


example : ihexLine (intelLine 0 1 0 0x1000 [1, 2, 3]) = some (.data 0x1000 [1, 2, 3]) :=
  C06_intel_line 1 0x1000 _ rfl (by decide) (by decide)

/-- **Line-splitting induction (Intel, 8-bit format).** -/
theorem C06_intel_group (ll : Nat) (hll : 1 ≤ ll) (hl : ll ≤ 255) (fb : Bool) :
    ∀ (fuel a : Nat) (data : List Byte), data.length ≤ fuel → a + data.length ≤ 65536 →
      ∃ rs, (intelLoop 0 1 ll false fuel a data 0 fb).mapM ihexLine = some rs ∧
        ∀ rest, ihexRun false 0 (rs ++ rest) = addCellsD (cellsFrom a data) (ihexRun false 0 rest) := by
  intro fuel
  induction fuel with
  | zero =>
    intro a data hf _
    have : data = [] := by cases data <;> simp_all
    subst this
    exact ⟨[], by simp [intelLoop], by intro rest; simp [cellsFrom, addCellsD_nil]⟩
  | succ f ih =>
    intro a data hf ha
    by_cases hd : data = []
    · subst hd
      exact ⟨[], by simp [intelLoop], by intro rest; simp [cellsFrom, addCellsD_nil]⟩
    · have hpos : 0 < data.length := List.length_pos_iff.mpr hd
      have hn1 : 1 ≤ min ll data.length := by omega
      have hn2 : min ll data.length ≤ data.length := Nat.min_le_right _ _
      have htl : (data.take (min ll data.length)).length = min ll data.length := by simp
      have hdl : (data.drop (min ll data.length)).length = data.length - min ll data.length := by simp
      have hline := C06_intel_line 1 a (data.take (min ll data.length)) rfl (by omega) (by rw [htl]; omega)
      have hmod : (a + min ll data.length / 1) % two32 = a + min ll data.length := by
        rw [Nat.div_one]; apply Nat.mod_eq_of_lt; unfold two32; omega
      obtain ⟨rs, h1, h4⟩ := ih (a + min ll data.length) (data.drop (min ll data.length))
        (by rw [hdl]; omega) (by rw [hdl]; omega)
      refine ⟨.data a (data.take (min ll data.length)) :: rs, ?_, ?_⟩
      · simp only [intelLoop, hd, if_false, Bool.false_and, Bool.false_eq_true, List.nil_append, hmod,
          List.mapM_cons, hline, h1]; rfl
      · intro rest
        rw [List.cons_append, ihexRun_data, h4, addCellsD_addCellsD,
          ihexCells_plain a _ (by rw [htl]; omega)]
        congr 1
        have := cellsFrom_append a (data.take (min ll data.length)) (data.drop (min ll data.length))
        rw [List.take_append_drop, htl] at this
        exact this.symm

/-- **Intel HEX (8-bit), whole file** (one selected record, no entry address, `-i 0`): data lines for any line
length + `:00000001FF` are accepted by the public reader and decode to exactly the record's bytes at `ErgStart…`.
Guard: the (relocated) addresses fit 16 bits. -/
theorem C06_intel_file (ll a : Nat) (data : List Byte) (hll : 1 ≤ ll) (hl : ll ≤ 255) (ha : a + data.length ≤ 65536) :
    decodeIhexLines 0 (intelLoop 0 1 ll false data.length a data 0 false ++ intelTerm 0 0 none) =
      some ⟨cellsFrom a data, [], 0⟩ := by
  obtain ⟨rs, h1, h4⟩ := C06_intel_group ll hll hl false data.length a data (Nat.le_refl _) ha
  have h1' : (intelLoop 0 1 ll false data.length a data 0 false).mapM (ihexLineV 0) = some rs := by
    have : ihexLineV 0 = ihexLine := funext ihexLineV_zero
    rw [this]; exact h1
  have hbody := mapM_append_some (ihexLineV 0) _ _ _ _ h1' intel_eof
  unfold decodeIhexLines
  simp only [hbody, h4, ihexRun, addCellsD]
  simp


example : decodeIhexLines 0 (intelLoop 0 1 2 false 3 0xfffd [7, 8, 9] 0 false ++ intelTerm 0 0 none) =
    some ⟨cellsFrom 0xfffd [7, 8, 9], [], 0⟩ :=
  C06_intel_file 2 0xfffd [7, 8, 9] (by decide) (by decide) (by decide)

/-! ## MOS Technology -/

theorem C06_mos_line_partial (q : Quirks) (g a chkIn : Nat) (buf : List Byte)
    (h0 : q.mosCarry = false ∨ chkIn = 0) (ha : a < 65536) (h1 : 1 ≤ buf.length) (hl : buf.length ≤ 255) :
    Hex.mosLine (P2Hex.mosLine q 0 g chkIn a buf).1 = some (.data a buf) := by
  have hchk0 : (if q.mosCarry = true then chkIn else 0) = 0 := by
    rcases h0 with h | h
    · simp [h]
    · simp [h]
  unfold P2Hex.mosLine Hex.mosLine
  simp only [outBytes_plain, hchk0, hex4, sumN_eq, ← bytesHex_append, parseHex_bytesHex, List.cons_append,
    List.nil_append, Nat.zero_add]
  have hcnt : (b buf.length).toNat = buf.length := by rw [b_toNat]; omega
  simp only [hcnt, List.length_append, List.length_cons, List.length_nil, List.drop_left', List.take_left',
    true_and, be2, b_toNat, sum8_cons, lo]
  have hne : buf.length ≠ 0 := by omega
  have : a / 256 % 256 * 256 + a % 256 = a := by omega
  simp [hne, this]
  have hxy : buf.length + a % 256 + a / 256 % 256 + sum8 buf = buf.length + (a / 256 % 256 + (a % 256 + sum8 buf)) := by omega
  rw [← hxy]
  generalize buf.length + a % 256 + a / 256 % 256 + sum8 buf = x
  have hz : x % 65536 < 65536 := Nat.mod_lt _ (by decide)
  have h256 : x % 256 = x % 65536 % 256 := by omega
  rw [h256]
  exact split16 _ hz

example : Hex.mosLine (P2Hex.mosLine {} 0 1 0 0x1000 [1, 2, 3]).1 = some (.data 0x1000 [1, 2, 3]) :=
  C06_mos_line_partial {} 1 0x1000 0 _ (Or.inr rfl) (by decide) (by decide) (by decide)

/-- **Finding `mos-checksum-after-first-line`** (model of the unchanged tree, `mosCarry = true`): for the record
`01 02 … 14` at `$1000` the second data line is rejected by the MOS reader (its checksum field holds the running sum). -/
theorem C06_finding_mos_running_sum :
    (P2Hex.mosLoop {} 0 1 16 20 0x1000 [1, 2, 3, 4, 5, 6, 7, 8, 9, 10, 11, 12, 13, 14, 15, 16, 17, 18, 19, 20] 0).1.map Hex.mosLine
      = [some (.data 0x1000 [1, 2, 3, 4, 5, 6, 7, 8, 9, 10, 11, 12, 13, 14, 15, 16]), none] := by decide

/-- with the prologue assigning (`mosCarry = false`) the same two lines are accepted -/
theorem C06_mos_two_lines_intended :
    (P2Hex.mosLoop { mosCarry := false } 0 1 16 20 0x1000 [1, 2, 3, 4, 5, 6, 7, 8, 9, 10, 11, 12, 13, 14, 15, 16, 17, 18, 19, 20] 0).1.map Hex.mosLine
      = [some (.data 0x1000 [1, 2, 3, 4, 5, 6, 7, 8, 9, 10, 11, 12, 13, 14, 15, 16]), some (.data 0x1010 [17, 18, 19, 20])] := by decide

/-- **Finding `mos-terminator-count-constant-4`**: one data line followed by the constant last record `;0000040004`
is rejected (the record count says 4); with the count written (`mosConst4 = false`) the file decodes. -/
theorem C06_finding_mos_last_record :
    decodeMosLines ((P2Hex.mosLoop {} 0 1 16 3 0x1000 [1, 2, 3] 0).1 ++ [mosTerm {} 1]) = none ∧
    decodeMosLines ((P2Hex.mosLoop {} 0 1 16 3 0x1000 [1, 2, 3] 0).1 ++ [mosTerm { mosConst4 := false } 1]) =
      some ⟨[(0x1000, 1), (0x1001, 2), (0x1002, 3)], [], 0⟩ := by decide

/-! ## Tektronix -/

/-- **Finding `tek-checksums-byte-sums`**: the line the unchanged tree writes for byte `$10` at `$1000` is rejected by a
reader that sums hex digit values (header `10 00 01`: byte sum `$11`, digit sum `$02`); with digit sums it is accepted. -/
theorem C06_finding_tek_byte_sums :
    Hex.tekLine (P2Hex.tekLine {} 0 1 0x1000 [0x10]) = none ∧
    Hex.tekLine (P2Hex.tekLine { tekByteSums := false } 0 1 0x1000 [0x10]) = some (.data 0x1000 [0x10]) := by decide

/-! ## Motorola: the count byte -/

/-- **Finding `moto-count-byte-overflow-linelen-over-252`**: a 254-byte S1 line (`-l 254`) is rejected: the count field is `$01`. -/
theorem C06_finding_moto_count_overflow :
    srecLine (motoLine 0 1 0 0x1000 (List.replicate 254 0)) = none := by decide +kernel

end AslModel.C06
