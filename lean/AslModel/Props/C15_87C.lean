import AslModel.Lemmas.Dis87C
import AslModel.Lemmas.Dis87CJump
import AslModel.Lemmas.Dis6800
import AslModel.Props.C15
/-! C15 for the TLCS-870 (dasl `-cpu 87C00`; deco87c800.c).

Model: `Model/Dis/M87C.lean` = `Disassemble_87C800` with `RegPrefix`/`MemPrefix`, `MakeSymbolic`, `ZeroHexString`, `RetrieveData`,
the three `switch` statements as case tables (`form1`, `formMem`, `formReg`); name arrays regenerated from deco87c800.c.

Proved here:
* `C15_87c_tables`   – operand counts of all cases of the three tables (decided over the complete tables);
* `C15_87c_length`   – decoded length = bytes consumed (the C counter `nData`), at most 4, fixed by the two opcode bytes;
* `C15_87c_no_hang`  – every decode reports a positive length or writes an error message (no case loops, none reports length 0
                       silently); `C15_87c_inv16_is_unknown`: the byte pairs that used to loop are listed as data;
* `C15_87c_honest`   – `Honest` (every byte of a reported instruction lies in the image) for EVERY image (no hypothesis left: the
                       one about whole instructions went with the repair of `RetrieveCodeFromChunkList`, the one about address 0 /
                       the end of the address space with the repair of `RetrieveData` in deco87c800.c), `C15_87c_honest_at` and
                       `C15_87c_areas_inside`/`_C` unconditionally and with `x < 0x10000`; `C15_87c_inside_address_space`;
                       `C15_87c_cut_instruction_not_reported`, `C15_87c_no_wrap_instruction`;
* `C15_87c_jump_roundtrip_partial` / `C15_87c_jump_text_roundtrip` – jumps and calls against code87c800.c, on evaluated operands
                       and on the printed text; `C15_87c_callp_forward_label` – the first pass of `callp <label printed by dasl>`;
* `C15_87c_numbers_have_suffix`, `C15_87c_symbol_is_last`, `C15_87c_reg16_names`, `C15_87c_returns_end_trace`,
  `C15_87c_dw_starts_with_digit` – the five repaired defects as positive facts about the model of the repaired code;
* `C15_finding_87c_*` – the remaining oddities of deco87c800.c the model transcribes (`% 0xffff` fall-through, `ld (hl),<mem>`).
Not proved (tested against the real tools every run): the text of the non-jump instructions against asl's parser. -/
namespace AslModel.Dis
open M87C
open AslModel.Generated

/-- the complete case tables: a first-level case fetches at most 3 operand bytes (`callv` none), a memory prefix has at most one
data byte and its cases fetch at most one operand byte, the register index of a register prefix is below 8 and its cases fetch
at most two operand bytes -/
theorem C15_87c_tables :
    (∀ op, op < 256 → form1Ok op = true) ∧ (∀ op, op < 256 → formMemOk op = true) ∧
    (∀ src, src < 8 → ∀ op, op < 256 → formRegOk src op = true) :=
  ⟨form1_ok, formMem_ok, formReg_ok⟩

/-- Decoded length of an instruction line: the callback reports what `raw` computed; that is 0 (nothing decoded: a failed fetch) or `lenOf op op2 ≤ 4` for the opcode byte fetched at `a` and the second opcode byte fetched behind the prefix
(any value if `op` is no prefix), never 0 without a message (`C15_87c_no_hang`); and when the callback wrote no message (no failed fetch, no `unknown … opcode`), the C counter
of retrieved bytes `nData` equals the reported length – so no `; ouch` is appended. -/
theorem C15_87c_length (img : Image) (lower : Bool) (syms : Syms) (a : Nat) :
    (M87C.disassemble img lower syms a false (-1)).1.len = (M87C.raw img lower syms a false (-1)).info.len ∧
    (M87C.disassemble img lower syms a false (-1)).1.len ≤ 4 ∧
    ((M87C.disassemble img lower syms a false (-1)).1.len = 0 ∨
      ∃ op op2, op < 256 ∧ op2 < 256 ∧ (M87C.disassemble img lower syms a false (-1)).1.len = lenOf op op2) ∧
    ((M87C.raw img lower syms a false (-1)).info.len ≠ 0 → (M87C.raw img lower syms a false (-1)).msgs = [] →
      (M87C.raw img lower syms a false (-1)).nData = (M87C.disassemble img lower syms a false (-1)).1.len ∧
      (M87C.disassemble img lower syms a false (-1)).1.src = (M87C.raw img lower syms a false (-1)).info.src) := by
  have hlen : (M87C.disassemble img lower syms a false (-1)).1.len = (M87C.raw img lower syms a false (-1)).info.len := by
    unfold M87C.disassemble
    simp only
    split <;> rfl
  rw [hlen]
  rcases raw_spec img lower syms a with ⟨h0, _⟩ | ⟨ops, e, op, h1, hop, ⟨op2, hop2, _, hl⟩, hnd⟩
  · refine ⟨rfl, by omega, Or.inl h0, fun h => absurd h0 h⟩
  · have hop' : op < 256 := by rw [hop]; exact getD_lt ops (retrieveData_lt img lower a 1 ops e h1) 0
    refine ⟨rfl, by rw [hl]; exact lenOf_le op op2 hop' hop2, Or.inr ⟨op, op2, hop', hop2, hl⟩, ?_⟩
    intro hne hm
    have hn := hnd hne hm
    refine ⟨hn, ?_⟩
    unfold M87C.disassemble
    simp only
    split
    · rfl
    · simp [ouch, hn]

/-- non-vacuity: `ld wa,1234h` (14 34 12) at 1000h: three bytes, no message, counter = length -/
example : (M87C.raw [⟨0x1000, [0x14, 0x34, 0x12, 0x05]⟩] false {} 0x1000 false (-1)).info.len = 3 ∧
    (M87C.raw [⟨0x1000, [0x14, 0x34, 0x12, 0x05]⟩] false {} 0x1000 false (-1)).msgs = [] ∧
    (M87C.raw [⟨0x1000, [0x14, 0x34, 0x12, 0x05]⟩] false {} 0x1000 false (-1)).nData = 3 := by decide +kernel

/-- …and a prefixed one: `cmp (12h),55h` (E0 12 77 55): four bytes -/
example : (M87C.raw [⟨0x1000, [0xe0, 0x12, 0x77, 0x55]⟩] false {} 0x1000 false (-1)).info.len = 4 ∧ lenOf 0xe0 0x77 = 4 := by
  decide +kernel

/-! ### the reported areas lie inside the image -/

/-- `Disassemble_87C800` at `a` reports only bytes of the image, and only addresses of the 64K address space - for every image,
every address and every inverse symbol table: every byte of the reported length lies in a request `RetrieveData` answered
(`raw_covered`), `RetrieveData` answers no request that reaches beyond 0FFFFh, and `RetrieveCodeFromChunkList` answers a request only
with bytes of the image (`retrieve_some`).  Before the repair of deco87c800.c (29b7faa) this needed "the
instruction ends at or below 0x10000, or address 0 is not loaded". -/
theorem C15_87c_honest_at (img : Image) (lower : Bool) (syms : Syms) (a : Nat) :
    ∀ x, a ≤ x → x < a + (M87C.disassemble img lower syms a false (-1)).1.len → inImage img x ∧ x < 0x10000 := by
  intro x hx1 hx2
  rw [(C15_87c_length img lower syms a).1] at hx2
  obtain ⟨y, n, ds, e, hr, hy1, hy2⟩ := raw_covered img lower syms a x hx1 hx2
  have := retrieveData_inImage img lower y n ds e hr (x - y) (by omega)
  have he : y + (x - y) = x := by omega
  rw [he] at this; exact this

/-- non-vacuity of `C15_87c_honest_at`: `ld wa,1234h` at 1000h is reported with length 3 -/
example : (M87C.disassemble [⟨0x1000, [0x14, 0x34, 0x12]⟩] false {} 0x1000 false (-1)).1.len = 3 := by decide +kernel

/-- a reported instruction ends inside the 64K address space: `Address + CodeLen ≤ 0x10000` -/
theorem C15_87c_inside_address_space (img : Image) (lower : Bool) (syms : Syms) (a : Nat)
    (h : (M87C.disassemble img lower syms a false (-1)).1.len ≠ 0) :
    a + (M87C.disassemble img lower syms a false (-1)).1.len ≤ 0x10000 := by
  have := (C15_87c_honest_at img lower syms a (a + (M87C.disassemble img lower syms a false (-1)).1.len - 1) (by omega) (by omega)).2
  omega

/-- the `Honest` predicate of the generic trace-loop theorems holds for the TLCS-870 callback on EVERY image (before the repair:
only for images in which address 0 is not loaded) -/
theorem C15_87c_honest (img : Image) (lower : Bool) : Honest M87C.disassemble img lower := by
  intro syms a x hx1 hx2
  exact (C15_87c_honest_at img lower syms a x hx1 hx2).1

/-- for the TLCS-870 the reported code areas lie inside the loaded image (and inside the 64K address space) - for every image, every
set of entry addresses already queued in `s0`, every number of rounds -/
theorem C15_87c_areas_inside (img : Image) (lower : Bool) (fuel : Nat) (s0 : TState) (h0 : s0.code = []) (h1 : s0.traced = []) :
    ∀ x, area (traceLoop M87C.disassemble img lower fuel s0).1.code x → inImage img x ∧ x < 0x10000 := by
  intro x hx
  have hA := (C15_areas M87C.disassemble img lower fuel s0 h0 h1).2.2 x
  have hF := traceLoop_from M87C.disassemble img lower fuel s0 (by rw [h1]; intro e he; cases he)
  obtain ⟨e, he, hx1, hx2⟩ := hA.mp hx
  obtain ⟨syms, hlen, _⟩ := hF e he
  exact C15_87c_honest_at img lower syms e.1 x hx1 (by rw [hlen]; exact hx2)

/-- …the same for the array `UsedCodeChunks` as chunks.c keeps it (the list the machine carries; `C15_areas_C`) -/
theorem C15_87c_areas_inside_C (img : Image) (lower : Bool) (fuel : Nat) (s0 : TState) (h0 : s0.codeC = []) (h1 : s0.traced = []) :
    ∀ x, area (traceLoop M87C.disassemble img lower fuel s0).1.codeC x → inImage img x ∧ x < 0x10000 := by
  intro x hx
  have hA := (C15_areas_C M87C.disassemble img lower fuel s0 h0 h1).2.2.1 x
  have hF := traceLoop_from M87C.disassemble img lower fuel s0 (by rw [h1]; intro e he; cases he)
  obtain ⟨e, he, hx1, hx2⟩ := hA.mp hx
  obtain ⟨syms, hlen, _⟩ := hF e he
  exact C15_87c_honest_at img lower syms e.1 x hx1 (by rw [hlen]; exact hx2)

/-- non-vacuity of the two area theorems: tracing the image `14 34 | 12` at 0FFFEh / 0 plus `00 05` (`nop`, `ret`) at 1000h from the
entries 1000h and 0FFFEh gives a non-empty code area at 1000h, and nothing at 0FFFEh -/
example : ((traceLoop M87C.disassemble [⟨0, [0x12]⟩, ⟨0x1000, [0x00, 0x05]⟩, ⟨0xfffe, [0x14, 0x34]⟩] false 10
      { queue := [0x1000, 0xfffe] }).1.codeC) = [⟨0x1000, 2⟩] := by decide +kernel

/-! ### round trip of the jump and call instructions against code87c800.c (partial) -/

open A87C in
/-- Round trip of the jumps and calls with a program address as operand (`jrs`, `jr`, `jp nn`, `call nn`, `callp`, `callv`), at the
level of evaluated operands: for every address `a` below 64K, every first byte `op` whose case of `Disassemble_87C800` is a jump
form and all operand bytes `data`, the statement the disassembler prints – mnemonic and condition of the format string, target
address handed to `MakeSymbolic` (`jumpStmt`) – is encoded by the model of `DecodeJRS`/`DecodeJR`/`DecodeJP_CALL`/`DecodeCALLV`/
`DecodeCALLP` at program counter `a` to exactly `op :: data`.  Excluded: `FC lo FF` (`call` into page FF: code87c800.c chooses
the two-byte `callp` form, see `C15_87c_call_page_ff_not_canonical`).

What is covered: the distance arithmetic (5-bit and 8-bit, wrap at 64K), the condition names against the assembler's condition
table (generated from InitFields()), the accepted ranges (generated from the comparisons in the decoders), opcode composition,
page rule of `callp`, and (`shape_ok`) that the printed line is `<mnemonic/condition><symbol>` for every jump form.
Not covered (hence `_partial`): all non-jump instructions.  The printed text through asl's statement parser is
`C15_87c_jump_text_roundtrip` below. -/
theorem C15_87c_jump_roundtrip_partial (a op : Nat) (data : List Nat) (f : M87C.Form) (js : JStmt)
    (hop : op < 256) (hf : M87C.form1 op = .plain f) (hlen : data.length = f.n) (hd : ∀ d ∈ data, d < 256)
    (ha : a < 0x10000) (hjs : jumpStmt a op data = some js)
    (hcall : ¬ (op = 0xfc ∧ data.getD 1 0 = 0xff)) :
    A87C.encode a js = some (op :: data) := by
  have hok := shape_ok op hop
  have hlim := limits_ok
  unfold shapeOk at hok
  unfold jumpStmt at hjs
  cases hs : shape op with
  | none => simp [hs] at hjs
  | some p =>
    obtain ⟨sh, j⟩ := p
    simp only [hs, hf, Bool.and_eq_true, beq_iff_eq] at hok
    obtain ⟨⟨hj, _⟩, hrest⟩ := hok
    cases sh with
    | jrs c =>
      cases j <;> simp only [Bool.and_eq_true, beq_iff_eq, decide_eq_true_eq, Bool.false_eq_true] at hrest
      obtain ⟨⟨⟨h1, h2⟩, h3⟩, h4⟩ := hrest
      have hdat : data = [] := List.eq_nil_of_length_eq_zero (by rw [hlen, h3])
      subst hdat
      simp only [hs, target, Option.map_some, Option.some.injEq] at hjs
      subst hjs
      have hx : op % 32 < 32 := Nat.mod_lt _ (by omega)
      simp only [mk, encode]
      rw [adrInt_rel5 a (op % 32) ha hx]
      have hc : ¬ (decodeCondition c Deco87C.jrsCondStart ≥ Deco87C.conditions.length ∨
          (a + 2 + op % 32 + if op % 32 ≥ 16 then 65536 - 32 else 0) % 65536 ≥ 65536) := by
        intro h; rcases h with h | h <;> omega
      simp only [hc, if_false, hlim.1, hlim.2.1]
      obtain ⟨v, hv⟩ : ∃ v : Int, v = (if op % 32 ≥ 16 then ((op % 32 : Nat) : Int) - 32 else ((op % 32 : Nat) : Int)) := ⟨_, rfl⟩
      have key : ¬ (v < -16 ∨ v > 15) ∧ v % 32 = ((op % 32 : Nat) : Int) := by
        split at hv <;> omega
      rw [← hv]
      simp only [key.1, if_false, Option.some.injEq, List.cons.injEq, and_true]
      rw [h2, key.2]
      omega
    | jr c =>
      have rel8 : ∀ d0 : Nat, d0 < 256 → ∀ opb : Nat,
          (if (if d0 ≥ 128 then ((d0 : Nat) : Int) - 256 else ((d0 : Nat) : Int)) < -128 ∨
              (if d0 ≥ 128 then ((d0 : Nat) : Int) - 256 else ((d0 : Nat) : Int)) > 127 then (none : Option (List Nat))
            else some [opb, ((if d0 ≥ 128 then ((d0 : Nat) : Int) - 256 else ((d0 : Nat) : Int)) % 256).toNat]) = some [opb, d0] := by
        intro d0 hd0 opb
        obtain ⟨v, hv⟩ : ∃ v : Int, v = (if d0 ≥ 128 then ((d0 : Nat) : Int) - 256 else ((d0 : Nat) : Int)) := ⟨_, rfl⟩
        have key : ¬ (v < -128 ∨ v > 127) ∧ (v % 256).toNat = d0 := by
          split at hv <;> omega
        rw [← hv]
        simp only [key.1, if_false, key.2]
      cases c with
      | none =>
        cases j <;> simp only [Bool.and_eq_true, beq_iff_eq, Bool.false_eq_true] at hrest
        obtain ⟨h1, h2⟩ := hrest
        obtain ⟨d0, rfl⟩ := List.length_eq_one_iff.mp (by rw [hlen, h2])
        have hd0 : d0 < 256 := hd d0 (by simp)
        simp only [hs, target, List.getD_cons_zero, Option.map_some, Option.some.injEq] at hjs
        subst hjs
        simp only [mk, encode]
        rw [adrInt_rel8 a d0 ha hd0]
        have ht : ¬ ((a + 2 + d0 + if d0 ≥ 128 then 65536 - 256 else 0) % 65536 ≥ 65536) := by omega
        simp only [ht, if_false, hlim.2.2.1, hlim.2.2.2]
        rw [rel8 d0 hd0, h1]
      | some cn =>
        cases j <;> simp only [Bool.and_eq_true, beq_iff_eq, decide_eq_true_eq, Bool.false_eq_true] at hrest
        obtain ⟨⟨h1, h2⟩, h3⟩ := hrest
        obtain ⟨d0, rfl⟩ := List.length_eq_one_iff.mp (by rw [hlen, h3])
        have hd0 : d0 < 256 := hd d0 (by simp)
        simp only [hs, target, List.getD_cons_zero, Option.map_some, Option.some.injEq] at hjs
        subst hjs
        simp only [mk, encode]
        rw [adrInt_rel8 a d0 ha hd0]
        have hc : ¬ (decodeCondition cn 0 ≥ Deco87C.conditions.length) := by omega
        have ht : ¬ ((a + 2 + d0 + if d0 ≥ 128 then 65536 - 256 else 0) % 65536 ≥ 65536) := by omega
        simp only [hc, if_false, ht, hlim.2.2.1, hlim.2.2.2, h2]
        rw [rel8 d0 hd0]
    | jp =>
      cases j <;> simp only [Bool.and_eq_true, beq_iff_eq, Bool.false_eq_true] at hrest
      obtain ⟨h1, h2⟩ := hrest
      obtain ⟨d0, d1, rfl⟩ := A6800.length_two data (by rw [hlen, h2])
      have hd0 : d0 < 256 := hd d0 (by simp)
      have hd1 : d1 < 256 := hd d1 (by simp)
      simp only [hs, target, List.getD_cons_zero, List.getD_cons_succ, Option.map_some, Option.some.injEq] at hjs
      subst hjs
      have ht : ¬ (d1 * 256 + d0 ≥ 65536) := by omega
      have hq : (d1 * 256 + d0) / 256 = d1 := by omega
      have hm : (d1 * 256 + d0) % 256 = d0 := by omega
      simp only [mk, encode, ht, if_false, hq, hm, h1]
    | call =>
      cases j <;> simp only [Bool.and_eq_true, beq_iff_eq, Bool.false_eq_true] at hrest
      obtain ⟨h1, h2⟩ := hrest
      obtain ⟨d0, d1, rfl⟩ := A6800.length_two data (by rw [hlen, h2])
      have hd0 : d0 < 256 := hd d0 (by simp)
      have hd1 : d1 < 256 := hd d1 (by simp)
      simp only [hs, target, List.getD_cons_zero, List.getD_cons_succ, Option.map_some, Option.some.injEq] at hjs
      subst hjs
      have ht : ¬ (d1 * 256 + d0 ≥ 65536) := by omega
      have hq : (d1 * 256 + d0) / 256 = d1 := by omega
      have hm : (d1 * 256 + d0) % 256 = d0 := by omega
      have hne : ¬ (d1 = 0xff) := by
        intro h; exact hcall ⟨h1, by simpa using h⟩
      simp only [mk, encode, ht, if_false, hq, hm, hne, h1]
    | callp =>
      cases j <;> simp only [Bool.and_eq_true, beq_iff_eq, Bool.false_eq_true] at hrest
      obtain ⟨h1, h2⟩ := hrest
      obtain ⟨d0, rfl⟩ := List.length_eq_one_iff.mp (by rw [hlen, h2])
      have hd0 : d0 < 256 := hd d0 (by simp)
      simp only [hs, target, List.getD_cons_zero, Option.map_some, Option.some.injEq] at hjs
      subst hjs
      have ht : ¬ (0xff00 + d0 ≥ 65536) := by omega
      have hq : (0xff00 + d0) / 256 = 0xff := by omega
      have hm : (0xff00 + d0) % 256 = d0 := by omega
      simp only [mk, encode, callp, ht, if_false, hq, hm, h1]
      simp
    | callv k =>
      cases j <;> simp only [Bool.and_eq_true, beq_iff_eq, decide_eq_true_eq, Bool.false_eq_true] at hrest
      obtain ⟨⟨⟨h1, h2⟩, h3⟩, h4⟩ := hrest
      have hdat : data = [] := List.eq_nil_of_length_eq_zero (by rw [hlen, h4])
      subst hdat
      simp only [hs, Option.some.injEq] at hjs
      subst hjs
      have : ¬ (k ≥ 16) := by omega
      simp only [mk, encode, this, if_false, h2]

open A87C in
/-- Round trip of the jumps and calls on the printed TEXT: for every address, jump form and operand bytes as in
`C15_87c_jump_roundtrip_partial`, the line `Disassemble_87C800` writes into `SrcLine` (the format of the case rendered with the
symbol `sym` that `MakeSymbolic` returned) is read back by the model of asl's statement parser and code87c800.c
(`A87C.assembleText`: comment stripping, op part / arguments, `InstTable` of `InitFields()`, argument counts, symbol lookup,
the decoders) to exactly `op :: data` – provided the symbol is a plain label (not a 16-bit register name) whose value in the
assembler's symbol table is the target address; for `callv` nothing is required of the symbol (it stands in a comment).
dasl defines the labels it invents by the framing lines `lab_XXXX:`; that part (label definition) is tested, not proved. -/
theorem C15_87c_jump_text_roundtrip (env : A6800.Env) (lower : Bool) (a op : Nat) (data : List Nat) (f : M87C.Form) (js : JStmt)
    (sym : String) (hop : op < 256) (hf : M87C.form1 op = .plain f) (hlen : data.length = f.n) (hd : ∀ d ∈ data, d < 256)
    (ha : a + 1 + f.n ≤ 0x10000) (hjs : jumpStmt a op data = some js)
    (hcall : ¬ (op = 0xfc ∧ data.getD 1 0 = 0xff))
    (hsym : (∃ n, js = .callv n) ∨
      (A6800.plainLabel sym.toList = true ∧ isReg16Name sym.toList = false ∧ env sym.toList = some (targetOf js))) :
    assembleText env a (M87C.render lower data "" sym f.pieces).toList = some (op :: data) := by
  have henc := C15_87c_jump_roundtrip_partial a op data f js hop hf hlen hd (by omega) hjs hcall
  have hok := shape_ok op hop
  have htx := shapeText_ok op hop
  unfold shapeOk at hok
  unfold shapeTextOk at htx
  have hjs' := hjs
  unfold jumpStmt at hjs'
  cases hs : shape op with
  | none => simp [hs] at hjs'
  | some p =>
    obtain ⟨sh, j⟩ := p
    simp only [hs, hf, Bool.and_eq_true, beq_iff_eq] at hok
    simp only [hs] at htx
    obtain ⟨⟨_, hpieces⟩, hrest⟩ := hok
    have htext : (M87C.render lower data "" sym f.pieces).toList = (head sh).toList ++ sym.toList := by
      rw [hpieces]
      simp [M87C.render, M87C.renderPiece, String.join, String.toList_append]
    have hparse : parseStmt env ((head sh).toList ++ sym.toList) = some js := by
      cases sh with
      | callv k =>
        cases j <;> simp only [Bool.and_eq_true, beq_iff_eq, decide_eq_true_eq, Bool.false_eq_true] at hrest
        simp only [hs, Option.some.injEq] at hjs'
        rw [← hjs']
        exact parse_printed_callv env k hrest.1.2 _
      | jrs c =>
        rcases hsym with ⟨n, hn⟩ | ⟨h1, h2, h3⟩
        · cases j <;> simp [hs, mk, hn] at hjs'
        · cases j <;> simp only [Bool.false_eq_true] at hrest
          simp only [hs] at hjs'
          obtain ⟨t, _, ht⟩ := Option.map_eq_some_iff.mp hjs'
          rw [← ht] at h3 ⊢
          exact parse_printed env (.jrs c) _ t (by intro n h; cases h) (fun c' hc' => by
            simp only [condL, Option.some.injEq] at hc'; subst hc'; simpa [condL] using htx) h1 h2 (by simpa [mk, targetOf] using h3)
      | jr c =>
        rcases hsym with ⟨n, hn⟩ | ⟨h1, h2, h3⟩
        · cases j <;> simp [hs, mk, hn] at hjs'
        · cases c with
          | none =>
            cases j <;> simp only [Bool.false_eq_true] at hrest
            simp only [hs] at hjs'
            obtain ⟨t, _, ht⟩ := Option.map_eq_some_iff.mp hjs'
            rw [← ht] at h3 ⊢
            exact parse_printed env (.jr none) _ t (by intro n h; cases h) (fun c' hc' => by simp [condL] at hc') h1 h2
              (by simpa [mk, targetOf] using h3)
          | some cn =>
            cases j <;> simp only [Bool.false_eq_true] at hrest
            simp only [hs] at hjs'
            obtain ⟨t, _, ht⟩ := Option.map_eq_some_iff.mp hjs'
            rw [← ht] at h3 ⊢
            exact parse_printed env (.jr (some cn)) _ t (by intro n h; cases h) (fun c' hc' => by
              simp only [condL, Option.some.injEq] at hc'; subst hc'; simpa [condL] using htx) h1 h2 (by simpa [mk, targetOf] using h3)
      | jp =>
        rcases hsym with ⟨n, hn⟩ | ⟨h1, h2, h3⟩
        · cases j <;> simp [hs, mk, hn] at hjs'
        · cases j <;> simp only [Bool.false_eq_true] at hrest
          simp only [hs] at hjs'
          obtain ⟨t, _, ht⟩ := Option.map_eq_some_iff.mp hjs'
          rw [← ht] at h3 ⊢
          exact parse_printed env .jp _ t (by intro n h; cases h) (fun c' hc' => by simp [condL] at hc') h1 h2
            (by simpa [mk, targetOf] using h3)
      | call =>
        rcases hsym with ⟨n, hn⟩ | ⟨h1, h2, h3⟩
        · cases j <;> simp [hs, mk, hn] at hjs'
        · cases j <;> simp only [Bool.false_eq_true] at hrest
          simp only [hs] at hjs'
          obtain ⟨t, _, ht⟩ := Option.map_eq_some_iff.mp hjs'
          rw [← ht] at h3 ⊢
          exact parse_printed env .call _ t (by intro n h; cases h) (fun c' hc' => by simp [condL] at hc') h1 h2
            (by simpa [mk, targetOf] using h3)
      | callp =>
        rcases hsym with ⟨n, hn⟩ | ⟨h1, h2, h3⟩
        · cases j <;> simp [hs, mk, hn] at hjs'
        · cases j <;> simp only [Bool.false_eq_true] at hrest
          simp only [hs] at hjs'
          obtain ⟨t, _, ht⟩ := Option.map_eq_some_iff.mp hjs'
          rw [← ht] at h3 ⊢
          exact parse_printed env .callp _ t (by intro n h; cases h) (fun c' hc' => by simp [condL] at hc') h1 h2
            (by simpa [mk, targetOf] using h3)
    unfold assembleText
    rw [htext, hparse]
    simp only [henc, List.length_cons, hlen]
    have : a + (f.n + 1) ≤ 0x10000 := by omega
    simp [this]

/-- non-vacuity: `jr cs,lab_1012` printed for D2 10 at 1000h is read back to D2 10 when `lab_1012` has the value 1012h -/
example : M87C.render false [0x10] "" "lab_1012" [.s "jr\tcs,", .sym] = "jr\tcs,lab_1012" ∧
    A87C.assembleText (fun s => if s = "lab_1012".toList then some 0x1012 else none) 0x1000 "jr\tcs,lab_1012".toList = some [0xd2, 0x10] ∧
    A87C.assembleText (fun _ => none) 0x1000 "callv\t3\t ; subv_1234".toList = some [0xc3] ∧
    A6800.plainLabel "lab_1012".toList = true ∧ A87C.isReg16Name "lab_1012".toList = false := by decide +kernel

/-- the hypotheses on the symbol are needed: a label that is spelled like a 16-bit register selects the register form -/
example : A87C.isReg16Name "hl".toList = true ∧ A6800.plainLabel "hl".toList = true := by decide +kernel

/-- non-vacuity: `jr cs,<1012h>` (D2 10) at 1000h and `jrs f,<0FFFh>` (BD) at 1000h -/
example : M87C.form1 0xd2 = .plain ⟨1, true, .rel8, [.s "jr\tcs,", .sym], none⟩ ∧
    A87C.jumpStmt 0x1000 0xd2 [0x10] = some (.jr (some "cs") 0x1012) ∧ A87C.encode 0x1000 (.jr (some "cs") 0x1012) = some [0xd2, 0x10] ∧
    A87C.jumpStmt 0x1000 0xbd [] = some (.jrs "f" 0x0fff) ∧ A87C.encode 0x1000 (.jrs "f" 0x0fff) = some [0xbd] := by decide +kernel

/-- the exclusion is real: `FC 54 FF` is listed as `call <0FF54h>`, which code87c800.c assembles to the two bytes `FD 54` -/
theorem C15_87c_call_page_ff_not_canonical :
    A87C.jumpStmt 0x1000 0xfc [0x54, 0xff] = some (.call 0xff54) ∧ A87C.encode 0x1000 (.call 0xff54) = some [0xfd, 0x54] := by
  decide +kernel

/-- the ranges are sharp: one step beyond the 5-bit / 8-bit distance is rejected by the assembler side -/
theorem C15_87c_jump_ranges_sharp :
    A87C.encode 0x1000 (.jrs "t" (0x1002 + 15)) = some [0x8f] ∧ A87C.encode 0x1000 (.jrs "t" (0x1002 + 16)) = none ∧
    A87C.encode 0x1000 (.jrs "t" (0x1002 - 16)) = some [0x90] ∧ A87C.encode 0x1000 (.jrs "t" (0x1002 - 17)) = none ∧
    A87C.encode 0x1000 (.jr none (0x1002 + 127)) = some [0xfb, 0x7f] ∧ A87C.encode 0x1000 (.jr none (0x1002 + 128)) = none ∧
    A87C.encode 0x1000 (.jr none (0x1002 - 128)) = some [0xfb, 0x80] ∧ A87C.encode 0x1000 (.jr none (0x1002 - 129)) = none ∧
    A87C.encode 0x1000 (.callp 0xfe12) = none ∧ A87C.encode 0x1000 (.callp 0x0012) = some [0xfd, 0x12] := by decide +kernel

/-- `callp <label>` where the label is defined further down (dasl prints the target of every `callp` as a label, `sub_FFxx`, which is
a forward reference whenever the call lies below page FF): in the first pass the label has the value of the program counter and the
first-pass-unknown flag; `DecodeCALLP` does not judge the page of such a value (repair of the known finding
`callp-forward-label-87c`), so the first pass lays two bytes whatever the placeholder is, and the final pass – target in page FF –
lays `FD lo`.  Without the flag a placeholder outside the pages 00/FF is rejected. -/
theorem C15_87c_callp_forward_label (pc p lo : Nat) (hp : p < 0x10000) (hlo : lo < 256) :
    A87C.encodeF true pc (.callp p) = some [0xfd, p % 256] ∧
    A87C.encode pc (.callp (0xff00 + lo)) = some [0xfd, lo] ∧
    (p / 256 ≠ 0xff → p / 256 ≠ 0 → A87C.encodeF false pc (.callp p) = none) := by
  have ht : ¬ (0xff00 + lo ≥ 0x10000) := by omega
  have hq : (0xff00 + lo) / 256 = 0xff := by omega
  have hm : (0xff00 + lo) % 256 = lo := by omega
  have hp' : ¬ (p ≥ 0x10000) := by omega
  refine ⟨?_, ?_, ?_⟩
  · simp [A87C.encodeF, A87C.callp, hp']
  · simp [A87C.encode, A87C.callp, ht, hq, hm]
  · intro h1 h2
    simp [A87C.encodeF, A87C.callp, hp', h1, h2]

/-- non-vacuity (the witness of the former finding): `callp sub` at 0FE00h with `sub` at 0FF40h -/
example : A87C.encodeF true 0xfe00 (.callp 0xfe00) = some [0xfd, 0x00] ∧ A87C.encode 0xfe00 (.callp 0xff40) = some [0xfd, 0x40] ∧
    A87C.encodeF false 0xfe00 (.callp 0xfe00) = none := by decide +kernel

/-! ### the five repaired defects, as positive facts about the model of the repaired deco87c800.c -/

/-- no case of `Disassemble_87C800`, `MemPrefix`, `RegPrefix` loops or reports length 0 silently: an instruction line has a
positive length or the callback wrote a message (a failed `RetrieveData`) -/
theorem C15_87c_no_hang (img : Image) (lower : Bool) (syms : Syms) (a : Nat) :
    0 < (M87C.disassemble img lower syms a false (-1)).1.len ∨ (M87C.disassemble img lower syms a false (-1)).2.2 ≠ [] := by
  have hmsg : (M87C.disassemble img lower syms a false (-1)).2.2 = (M87C.raw img lower syms a false (-1)).msgs := by
    unfold M87C.disassemble
    simp only
    split <;> rfl
  rw [(C15_87c_length img lower syms a).1, hmsg]
  rcases raw_spec img lower syms a with ⟨_, hm⟩ | ⟨ops, e, op, h1, hop, ⟨op2, _, _, hl⟩, _⟩
  · exact Or.inr hm
  · left
    rw [hl]
    unfold lenOf
    cases form1 op with
    | unknown => simp
    | plain f => simp; omega
    | mem n k => cases hm : formMem op2 <;> simp <;> omega
    | reg src =>
      simp only []
      cases hr : formReg src op2 with
      | ok f => simp only []; omega
      | unknown => simp only []; omega

/-- `goto inv16` (a 16-bit register operation behind a prefix EC…EF, and E9…EF 04) ends in the `default:` branch: the bytes are
reported as an unknown register-prefix opcode and listed as data of length 2 -/
theorem C15_87c_inv16_is_unknown :
    (∀ src, src < 8 → 3 < src → ∀ op2, op2 ∈ [0x02, 0x03, 0x04, 0x06, 0x07, 0x10, 0x13, 0x14, 0x17, 0x30, 0x37, 0x38, 0x3f, 0xfa, 0xfb, 0xfc, 0xfe] →
      formReg src op2 = .unknown) ∧
    (∀ src, src < 8 → 0 < src → formReg src 0x04 = .unknown) ∧
    (M87C.disassemble [⟨0x1000, [0xec, 0x02, 0x05]⟩] false {} 0x1000 false (-1)).1.len = 2 := by
  refine ⟨by decide +kernel, by decide +kernel, by decide +kernel⟩

/-- `ret`, `reti` and `retn` end the trace: no successor address -/
theorem C15_87c_returns_end_trace :
    (match form1 0x05 with | .plain f => f.simple || f.jump != .none | _ => true) = false ∧
    (match form1 0x04 with | .plain f => f.simple || f.jump != .none | _ => true) = false ∧
    (match formReg 0 0x04 with | .ok f => f.simple || f.jump != .none | _ => true) = false ∧
    (M87C.disassemble [⟨0x1000, [0x05, 0xec, 0x02]⟩] false {} 0x1000 false (-1)).1.nexts = [] := by decide +kernel

/-- every number a case prints (`ZeroHexString` of operand bytes) is followed by the hex suffix `h` -/
def suffixed : List Piece → Bool
  | .h8 _ :: .s t :: rest => t.startsWith "h" && suffixed (.s t :: rest)
  | .h16 _ :: .s t :: rest => t.startsWith "h" && suffixed (.s t :: rest)
  | .h8 _ :: _ => false
  | .h16 _ :: _ => false
  | _ :: rest => suffixed rest
  | [] => true

theorem C15_87c_numbers_have_suffix :
    (∀ op, op < 256 → (match form1 op with | .plain f => suffixed f.pieces | _ => true) = true) ∧
    (∀ op, op < 256 → (match formMem op with | some f => suffixed f.pieces | none => true) = true) ∧
    (∀ src, src < 8 → ∀ op, op < 256 → (match formReg src op with | .ok f => suffixed f.pieces | _ => true) = true) := by
  refine ⟨by decide +kernel, by decide +kernel, by decide +kernel⟩

/-- the symbol `MakeSymbolic` returns is the last thing a case prints: nothing (in particular no `h`) follows a label -/
theorem C15_87c_symbol_is_last :
    ∀ op, op < 256 → (match form1 op with | .plain f => !(f.pieces.dropLast.contains .sym) | _ => true) = true := by decide +kernel

/-- `ld sp,rr`, `ld rr,sp`, `call rr`, `jp rr` print the register the prefix byte selects -/
theorem C15_87c_reg16_names : ∀ src, src < 4 →
    formReg src 0xfa = .ok (P 0 [.s ("ld\tsp," ++ r16 src)]) ∧ formReg src 0xfb = .ok (P 0 [.s ("ld\t" ++ r16 src ++ ",sp")]) ∧
    formReg src 0xfc = .ok ⟨0, true, .none, [.s ("call\t" ++ r16 src)], some "indirect jump, investigate here"⟩ ∧
    formReg src 0xfe = .ok ⟨0, false, .none, [.s ("jp\t" ++ r16 src)], some "indirect jump, investigate here"⟩ := by decide +kernel

/-- the number of a `dw` line starts with a decimal digit, whatever the value (so the assembler reads a number, not a symbol) -/
theorem C15_87c_dw_starts_with_digit (lower : Bool) (a addrLen : Nat) :
    ∃ c rest, symbolicHex lower a addrLen = c :: rest ∧ c.isDigit = true := by
  unfold symbolicHex
  cases hh : hexChars lower a (addrLen * 2) with
  | nil => exact ⟨'0', [], rfl, by decide⟩
  | cons c t =>
    by_cases h : c.isDigit = true
    · exact ⟨c, t, by simp [h], h⟩
    · exact ⟨'0', c :: t, by simp [h], by decide⟩

/-- …for instance F800h (used to be printed as `F800H`) -/
example : (makeSymbolic false {} 0xf800 2 none).1 = "0F800H" ∧ (makeSymbolic false {} 0x1234 2 none).1 = "1234H" := by decide +kernel

/-! ### remaining oddities of deco87c800.c the model transcribes -/

/-- `ld (hl),<mem>` (memory prefix, 27) is given none, although it is no jump -/
theorem C15_finding_87c_ld_hl_mem_no_successor :
    (match formMem 0x27 with | some f => f.simple | none => true) = false ∧
    (match formMem 0x26 with | some f => f.simple | none => false) = true := by decide +kernel

/-- the fall-through address is reduced with `% 0xffff` (not `& 0xffff`): an instruction ending at 0xFFFE continues at 0 -/
theorem C15_finding_87c_fallthrough_wrap : (0xfffe + 1) % 0xffff = 0 ∧ (0xfffe + 1 : Nat) ≠ 0 := by decide

/-- an instruction cut off by the end of the image is not reported: image `00 14 34` at 1000h, the `ld wa,nn` at 1001h asks for two
operand bytes of which only one exists; the callback writes `cannot retrieve code` and reports length 0 (formerly `CodeLen` = 3 and a
code area ending at 1003h, same mechanism as `dasl-instruction-cut-at-image-end` of the 6800) -/
theorem C15_87c_cut_instruction_not_reported :
    (M87C.disassemble [⟨0x1000, [0x00, 0x14, 0x34]⟩] false {} 0x1001 false (-1)).1.len = 0 ∧
    (M87C.disassemble [⟨0x1000, [0x00, 0x14, 0x34]⟩] false {} 0x1001 false (-1)).2.2 = ["cannot retrieve code @ 0x1002"] ∧
    ¬ inImage [⟨0x1000, [0x00, 0x14, 0x34]⟩] 0x1003 := by
  refine ⟨by decide +kernel, by decide +kernel, by simp [inImage]⟩

/-- an instruction that would need bytes behind 0FFFFh is not reported (repair of deco87c800.c, 29b7faa; formerly
`RetrieveData` continued at address 0: `14 34` at 0FFFEh with a byte at 0 gave a 3-byte `ld wa,nn` and the code area `FFFE...10000`
outside the image - finding `dasl-instruction-wraps-64k`).  Now: no instruction at 0FFFEh (length 0), the message
`cannot retrieve code @ 0xFFFF`, nothing traced, no code area; an opcode asked for at 10000h is not fetched from address 0; a
one-byte instruction AT 0FFFFh is still reported. -/
theorem C15_87c_no_wrap_instruction :
    (M87C.disassemble [⟨0, [0x12]⟩, ⟨0xfffe, [0x14, 0x34]⟩] false {} 0xfffe false (-1)).1.len = 0 ∧
    (M87C.disassemble [⟨0, [0x12]⟩, ⟨0xfffe, [0x14, 0x34]⟩] false {} 0xfffe false (-1)).2.2 = ["cannot retrieve code @ 0xFFFF"] ∧
    (traceLoop M87C.disassemble [⟨0, [0x12]⟩, ⟨0xfffe, [0x14, 0x34]⟩] false 10 { queue := [0xfffe] }).1.codeC = [] ∧
    (traceLoop M87C.disassemble [⟨0, [0x12]⟩, ⟨0xfffe, [0x14, 0x34]⟩] false 10 { queue := [0xfffe] }).1.traced = [] ∧
    (M87C.disassemble [⟨0, [0x12]⟩, ⟨0xfffe, [0x14, 0x34]⟩] false {} 0x10000 false (-1)).1.len = 0 ∧
    (M87C.disassemble [⟨0, [0x00]⟩, ⟨0xffff, [0x00]⟩] false {} 0xffff false (-1)).1.len = 1 := by
  decide +kernel

end AslModel.Dis
