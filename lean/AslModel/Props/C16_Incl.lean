import AslModel.Lemmas.InclPad
/-! C16, "into an INCLUDE file" clause, for the label memory of `asmlabel.c` (labels in front of padded objects).

* `C16_include_immaterial` : for EVERY source tree (lines, INCLUDE statements with or without a label on the INCLUDE line,
  parameterless macro calls, nested to any depth) and every machine state, running the model of `Produce_Code` over the tree
  gives the same state (location counter, label memory, symbol table, code) as running it over the flat text "as if inserted
  with an editor".  This is the property itself on the model; it needs `ResetLastLabel = False` in the INCLUDE / macro-call
  branch of `Produce_Code` - `C16_include_as_statement_differs` shows what happens when the INCLUDE line resets the label memory.
* `C16_padding_labels` : for EVERY flat text the model's location counter, symbol table and code are those of the SPEC layout
  (the most recently defined label - the one on the padded line, else the one alone on the line immediately before - names the
  object behind the pad byte); `C16_include_image_is_spec` : hence for every tree the model image is the SPEC image of the flat text.
  `C16_most_recent_label_only` : `l1:` / `l2: nop` at an odd address - `l1` keeps the pad-byte address, in model and SPEC. -/
namespace AslModel.InclPad
open AslModel.InclSpec

/-- moving lines into INCLUDE files / parameterless macros (any nesting, label on the INCLUDE line or not) does not change
location counter, label memory, symbols or code -/
theorem C16_include_immaterial (st : St) (p : Srcs) : runSrcs st p = runFlat st (flattenSrcs p) :=
  runSrcs_flat st p

theorem C16_include_image (t : Tgt) (org : Nat) (p : Srcs) :
    image t org p = (let s := runFlat (St.init org) (flattenSrcs p); render t s.syms s.out) := by
  simp [image, C16_include_immaterial]

/-- every flat text: location counter, symbol table and code of the model are those of the SPEC layout -/
theorem C16_padding_labels (org : Nat) (ls : List Line) :
    let m := runFlat (St.init org) ls
    let s := layout org ls
    m.pc = s.pc ∧ m.syms = s.syms ∧ m.out = s.out := by
  have := run_ofLay ls (Lay.init org)
  have e : ofLay (Lay.init org) = St.init org := rfl
  rw [e] at this
  simp only [layout]
  rw [this]
  exact ⟨rfl, rfl, rfl⟩

/-- hence the images agree, for every tree -/
theorem C16_include_image_is_spec (t : Tgt) (org : Nat) (p : Srcs) :
    image t org p = InclSpec.image t org (flattenSrcs p) := by
  rw [C16_include_image]
  obtain ⟨_, h2, h3⟩ := C16_padding_labels org (flattenSrcs p)
  simp only [InclSpec.image]
  rw [h2, h3]

/-! concrete instances -/

/-- the demo of seeded change C16-i: `dc.b 1` / `entry:` / `include "body.inc"` with `nop` / `jmp entry` in the file -/
def demoTree : Srcs :=
  .cons (.line (.stmt none (.bytes [1]))) (.cons (.line (.label 0))
    (.cons (.incl false none (.cons (.line (.stmt none .insn)) (.cons (.line (.stmt none (.jump 0))) .nil))) .nil))

example : image .m68k 0x1000 demoTree = some [0x01, 0x00, 0x4e, 0x71, 0x4e, 0xf8, 0x10, 0x02] := by decide

/-- a `Produce_Code` whose INCLUDE branch falls into `LabelReset()` like an ordinary statement -/
def runInclAsStmt (st : St) (lab : Option Nat) (body : List Line) : St :=
  runFlat (labelReset (labelHandleOpt st lab)) body

/-- ... is observable: the label in front of the INCLUDE stays on the pad byte ($1001 instead of $1002) -/
theorem C16_include_as_statement_differs :
    let st := runFlat (St.init 0x1000) [.stmt none (.bytes [1]), .label 0]
    let good := runFlat st [.stmt none .insn]
    let bad := runInclAsStmt st none [.stmt none .insn]
    good.syms 0 = some 0x1002 ∧ bad.syms 0 = some 0x1001 := by
  decide

/-- only the most recently defined label is moved (tests/t_padding: `label7:` / `label8: nop`): `dc.b 1` / `l1:` / `l2: nop` at
$1000 - `l1` keeps the address of the pad byte, `l2` names the NOP, in the model and in the SPEC layout; likewise for two
label-only lines `l1:` / `l2:` / `nop` -/
theorem C16_most_recent_label_only :
    let ls : List Line := [.stmt none (.bytes [1]), .label 1, .stmt (some 2) .insn]
    let ls' : List Line := [.stmt none (.bytes [1]), .label 1, .label 2, .stmt none .insn]
    (runFlat (St.init 0x1000) ls).syms 1 = some 0x1001 ∧ (layout 0x1000 ls).syms 1 = some 0x1001 ∧
    (runFlat (St.init 0x1000) ls).syms 2 = some 0x1002 ∧ (layout 0x1000 ls).syms 2 = some 0x1002 ∧
    (runFlat (St.init 0x1000) ls').syms 1 = some 0x1001 ∧ (layout 0x1000 ls').syms 1 = some 0x1001 ∧
    (runFlat (St.init 0x1000) ls').syms 2 = some 0x1002 ∧ (layout 0x1000 ls').syms 2 = some 0x1002 := by
  decide

end AslModel.InclPad
