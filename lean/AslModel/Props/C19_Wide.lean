import AslModel.Lemmas.ListingWide
import AslModel.Generated.ListParams
/-!
# C19 (wide part) — listings of word-listed and word-addressed targets

Property theorems only.  SPEC: `Spec/Listing.lean`, section "Word-listed and word-addressed targets"
(`parseListingW`: a numeral of the code field stands for 1, 2 or 4 bytes according to its width; a
value wider than a byte is held by the code file in the target's byte order; a listed value of `n`
bytes covers `n / g` address units).  MODEL: `Model/Listing.lean`, section "`MakeList` for general
(Granularity, ListGran)" (`makeListW` = `asmlist.c MakeList`, `fileBytes` = what `asmcode.c WriteBytes`
stores for the same buffer, `Drehe.dreheCodes` = `DreheCodes`).

`C19_wide_roundtrip` is the render/parse half of the property for every combination
(`Granularity()`, `ActListGran`) the code generators use (`C19_wide_table_admissible`: complete
generated table): whatever buffer `MakeList` and `WriteBytes` are handed for a source line, the
documented reading of the printed lines gives the line's start address and exactly the bytes
`WriteBytes` stores, in order, and every continuation line starts at
`start + (bytes listed so far) / g`.  That the buffer handed to both is the same and ends up at that
address of the code file is the differential part (vlib/props/c19_wide.py).
-/
namespace AslModel.C19
open AslModel.Listing

/-- facts about the three column widths for every admissible list radix (complete finite table):
`asmlist_init`'s `SystemListLen8/16/32` are the digit counts the SPEC uses, they are pairwise
different (so a numeral's width tells its size), a value of 1/2/4 bytes fits its column, and a byte
or 16-bit column never fills the 20 character code field -/
theorem C19_wide_width_table : ∀ r, r < 37 → 2 ≤ r → wok r := by decide

/-- a 32-bit column leaves room for padding in every radix from 4 on (radix 2 and 3 need 32 and 21
digits: there the source text follows the numeral's blank directly) -/
theorem C19_wide_width32_room : ∀ r, r < 37 → 4 ≤ r → unitDigits r 4 + 1 < LISTLINESPACE := by decide

/-- **Every (Grans, ListGrans) pair of every CPU of the current source tree** (generated table
`Generated/ListParams.lean`, all valid segments of all CPU definitions) is one the round trip theorem
covers: `ListGrans ∈ {1, 2, 4}` and the segment is byte-addressed or listed in its address unit. -/
theorem C19_wide_table_admissible :
    ∀ p ∈ Generated.listParams, ∀ s ∈ p.segs, LG s.2.2 ∧ (s.2.1 = 1 ∨ s.2.1 = s.2.2) := by
  decide

/-- the table is not empty and contains word-listed, word-addressed and big-endian rows -/
example : Generated.listParams.length > 50 ∧
    (Generated.listParams.any fun p => p.turn && p.segs.any fun s => s.2.1 == 1 && s.2.2 == 2) = true ∧
    (Generated.listParams.any fun p => !p.turn && p.segs.any fun s => s.2.1 == 2 && s.2.2 == 2) = true ∧
    (Generated.listParams.any fun p => p.segs.any fun s => s.2.1 == 4 && s.2.2 == 4) = true := by
  decide

/-- **Address advance per printed unit.**  In every state of the dump loop that satisfies the loop
invariant (word mode while a complete unit is left, byte mode for a shorter remainder; whole address
units on a word-addressed target) and has code left, the cell lists `n ≥ 1` bytes, removes exactly
them from the buffer, and advances `ListPC` by `n / g` address units. -/
theorem C19_wide_units (g lg w8 wl : Nat) (hlg : LG lg) (s : StW) (h : Inv g lg w8 wl s) (hd : s.d ≠ []) :
    (stepW w8 g s).d.length < s.d.length ∧
    (stepW w8 g s).pc * g = s.pc * g + (s.d.length - (stepW w8 g s).d.length) := by
  obtain ⟨e_d, e_le, e_pos, _, _, _, _, _, _, e_pc, _⟩ := stepW_unit g lg w8 wl hlg s h hd
  rw [e_pc, e_d, List.length_drop]
  omega

/-- the start state of `MakeList` satisfies that invariant (so `C19_wide_units` is not vacuous) -/
example :
    let i : ListInW := { incDepth := 0, currLine := 5, listPC := 0x1004, gran := 1, listGran := 2, turnWords := true,
                         code := [0x12, 0x34, 0x56], src := [] }
    Inv 1 2 (unitW 16 1) (unitW 16 2) (startW i) ∧ (startW i).d ≠ [] := by
  refine ⟨(startW_inv 16 (C19_wide_width_table 16 (by omega) (by omega)) 1 2 _ rfl rfl (Or.inl rfl)).1, by decide⟩

/-- **Listing round trip for word-listed / word-addressed targets.**  For every list radix 2..36
(honoured for numerals and widths), every `ActListGran ∈ {1,2,4}`, every `Granularity()` that is 1 or
equal to `ActListGran`, `TurnWords` on or off, every address and every buffer length that is a whole
number of address units (also lengths that are not a multiple of `ActListGran`: the remainder is
dumped as bytes), any number of continuation lines: the documented reading of the lines `MakeList`
prints is (start address, the bytes `WriteBytes` stores for that buffer, in address order), and every
continuation line starts at `start + (bytes listed before it) / g` (checked by `parseContsW`).
`hsrc`: the code field leaves room for at least one blank of padding, or the source text does not
begin with a digit of the list radix (only radix 2 and 3 with 32-bit listing need the second
alternative, see `C19_wide_roundtrip_room`). -/
theorem C19_wide_roundtrip (r : Nat) (h2 : 2 ≤ r) (h36 : r ≤ 36) (i : ListInW)
    (hlg : LG i.listGran) (hg : i.gran = 1 ∨ i.gran = i.listGran) (hlen : i.code.length % i.gran = 0)
    (hw : i.widthRadix = r) (hn : i.numRadix = r) (hdp : i.dontPrint = false)
    (hsrc : unitW r i.listGran + 1 < LISTLINESPACE ∨ TailW r i.src) :
    parseListingW r i.gran i.turnWords (makeListW i)
      = some (i.listPC, (fileBytes i.turnWords i.listGran i.code).map (fun b => b.toNat)) := by
  have hwok := C19_wide_width_table r (by omega) h2
  have h8 : systemListLen8 r = unitW r 1 := by
    obtain ⟨h8, _⟩ := hwok
    simp [unitW, h8]
  have hadm : i.gran = 1 ∨ (i.gran = i.listGran ∧ i.code.length % i.listGran = 0) := by
    rcases hg with h | h
    · exact Or.inl h
    · exact Or.inr ⟨h, by rw [← h]; exact hlen⟩
  obtain ⟨hinv, hd, hpc, hsl⟩ := startW_inv r hwok i.gran i.listGran i hw rfl hadm
  have hsrc' : (startW i).sl + 1 < LISTLINESPACE ∨ TailW r i.src := by
    rcases hsl with h | h
    · rcases hsrc with hs | hs
      · left; rw [h]; exact hs
      · right; exact hs
    · left; exact h
  have := outerW_first r h2 h36 hwok i.gran i.listGran hlg i.turnWords i hn hdp rfl (startW i) hinv hsrc'
  rw [hd, hpc] at this
  unfold makeListW
  rw [hw, h8, fileBytes_eq]
  exact this

/-- the same without a condition on the source text: byte and 16-bit listing in every radix, 32-bit
listing in every radix from 4 on -/
theorem C19_wide_roundtrip_room (r : Nat) (h2 : 2 ≤ r) (h36 : r ≤ 36) (i : ListInW)
    (hlg : LG i.listGran) (hroom : i.listGran ≠ 4 ∨ 4 ≤ r)
    (hg : i.gran = 1 ∨ i.gran = i.listGran) (hlen : i.code.length % i.gran = 0)
    (hw : i.widthRadix = r) (hn : i.numRadix = r) (hdp : i.dontPrint = false) :
    parseListingW r i.gran i.turnWords (makeListW i)
      = some (i.listPC, (fileBytes i.turnWords i.listGran i.code).map (fun b => b.toNat)) := by
  apply C19_wide_roundtrip r h2 h36 i hlg hg hlen hw hn hdp
  left
  obtain ⟨_, _, _, _, _, _, _, _, _, r1, r2⟩ := C19_wide_width_table r (by omega) h2
  rcases hlg with h | h | h
  · rw [h]; simpa [unitW] using r1
  · rw [h]; simpa [unitW] using r2
  · rcases hroom with h' | h'
    · exact absurd h h'
    · rw [h]; simpa [unitW] using C19_wide_width32_room r (by omega) h'

/-- **what the code file holds is the target's byte order**: with `TurnWords` the bytes of every
complete unit are stored most significant first, without it least significant first (host view of
the buffer = value of the unit); a remainder shorter than a unit is stored as it is -/
theorem C19_wide_file_order (tw : Bool) (lg : Nat) (hlg : LG lg) (d : List UInt8) :
    (lg ≤ d.length → (fileBytes tw lg d).map (fun b => b.toNat)
        = unitBytes tw lg (leVal (d.take lg)) ++ (fileBytes tw lg (d.drop lg)).map (fun b => b.toNat)) ∧
    (d.length < lg → fileBytes tw lg d = d) := by
  constructor
  · intro h
    rw [fileBytes_eq, fileBytes_eq, fileB_unit tw lg hlg d h]
    have hu := unitBytes_leVal tw (d.take lg)
    rw [List.length_take, Nat.min_eq_left h] at hu
    rw [hu]
    cases tw <;> simp
  · intro h
    rw [fileBytes_eq, fileB_short tw lg d h]

/-! ## `WriteBytes` → `MakeList`: the listed buffer is the stored buffer, for statements of every size

`as.c` calls `WriteCode()` (→ `asmcode.c WriteBytes`) and then `MakeList()` on the same line buffer.  `WriteBytes` has
three ways of storing a statement – append to `CodeBuffer`, flush and start the buffer anew, flush and write through when
the statement alone has `CodeBufferSize` = 512 bytes or more – and turns the buffer to file order before and back
afterwards (`writeBytesLine`, Model/Listing.lean). -/

/-- **`MakeList` finds the line buffer as the code generator left it**, whichever of the three ways `WriteBytes` took
(statement smaller than the room left in the buffer, smaller than the buffer, as large as the buffer or larger),
for every `TurnWords`, `ActListGran` and buffer fill -/
theorem C19_wide_buffer_restored (tw : Bool) (lg : Nat) (s : Store) (code : List UInt8) :
    (writeBytesLine tw lg s code).2 = code := by
  rw [writeBytesLine_eq]

/-- **what `WriteBytes` adds to the open record** (file + buffer, in this order) is `fileBytes` of the statement, in all
three cases -/
theorem C19_wide_stored (tw : Bool) (lg : Nat) (s : Store) (code : List UInt8) :
    (writeBytesLine tw lg s code).1.disk ++ (writeBytesLine tw lg s code).1.buf
      = (s.disk ++ s.buf) ++ fileBytes tw lg code := by
  rw [writeBytesLine_eq, fileBytes_eq]
  simp only []
  by_cases h0 : code.length = 0
  · have : code = [] := List.length_eq_zero_iff.mp h0
    subst this
    simp [fileB_nil]
  · simp only [h0, if_false]
    split
    · simp
    · split <;> simp

/-- a statement of at least `CodeBufferSize` bytes takes the write-through way: everything is on disk afterwards, the
buffer is empty (the case the short data lines of a test suite never reach) -/
theorem C19_wide_write_through (tw : Bool) (lg : Nat) (s : Store) (code : List UInt8) (h : codeBufferSize ≤ code.length) :
    (writeBytesLine tw lg s code).1 = ⟨s.disk ++ s.buf ++ fileBytes tw lg code, []⟩ := by
  rw [writeBytesLine_eq, fileBytes_eq]
  have h0 : code.length ≠ 0 := by unfold codeBufferSize at h; omega
  have h1 : ¬ s.buf.length + code.length < codeBufferSize := by omega
  have h2 : ¬ code.length < codeBufferSize := by omega
  simp only [h0, h1, h2, if_false]

/-- … and a statement that does not fit behind the buffered bytes but is smaller than the buffer flushes first -/
theorem C19_wide_flush_then_buffer (tw : Bool) (lg : Nat) (s : Store) (code : List UInt8) (h0 : code.length ≠ 0)
    (h1 : codeBufferSize ≤ s.buf.length + code.length) (h2 : code.length < codeBufferSize) :
    (writeBytesLine tw lg s code).1 = ⟨s.disk ++ s.buf, fileBytes tw lg code⟩ := by
  rw [writeBytesLine_eq, fileBytes_eq]
  have h1' : ¬ s.buf.length + code.length < codeBufferSize := by omega
  simp only [h0, h1', h2, if_false, if_true]

/-- the three ways are really taken: 600 bytes behind 100 buffered ones, 300 behind 300, 10 behind 100 -/
example : codeBufferSize ≤ (List.replicate 600 (1 : UInt8)).length ∧
    (300 + (List.replicate 300 (1 : UInt8)).length ≥ codeBufferSize ∧ (List.replicate 300 (1 : UInt8)).length < codeBufferSize) ∧
    100 + (List.replicate 10 (1 : UInt8)).length < codeBufferSize := by
  simp only [List.length_replicate, codeBufferSize]
  omega

/-- **a whole sequence of statements**: every line buffer reaches `MakeList` unchanged, and the record holds the
statements' file-order bytes one after the other -/
theorem C19_wide_sequence (tw : Bool) (lg : Nat) : ∀ (codes : List (List UInt8)) (s : Store),
    (writeBytesSeq tw lg s codes).2 = codes ∧
    (writeBytesSeq tw lg s codes).1.disk ++ (writeBytesSeq tw lg s codes).1.buf
      = (s.disk ++ s.buf) ++ (codes.map (fileBytes tw lg)).flatten := by
  intro codes
  induction codes with
  | nil => intro s; simp [writeBytesSeq]
  | cons c cs ih =>
    intro s
    obtain ⟨ih1, ih2⟩ := ih (writeBytesLine tw lg s c).1
    refine ⟨?_, ?_⟩
    · simp only [writeBytesSeq, ih1, C19_wide_buffer_restored]
    · simp only [writeBytesSeq, ih2, C19_wide_stored, List.map_cons, List.flatten_cons, List.append_assoc]

/-- **Listing of a statement = what the code file received for it** (`WriteBytes` followed by `MakeList`, any statement
size, any buffer fill): the record grows by `bs`, and the documented reading of the lines `MakeList` prints from the
buffer `WriteBytes` left behind is (start address, `bs`).  Hypotheses as in `C19_wide_roundtrip`. -/
theorem C19_wide_statement (r : Nat) (h2 : 2 ≤ r) (h36 : r ≤ 36) (i : ListInW) (s : Store)
    (hlg : LG i.listGran) (hg : i.gran = 1 ∨ i.gran = i.listGran) (hlen : i.code.length % i.gran = 0)
    (hw : i.widthRadix = r) (hn : i.numRadix = r) (hdp : i.dontPrint = false)
    (hsrc : unitW r i.listGran + 1 < LISTLINESPACE ∨ TailW r i.src) :
    ∃ bs : List UInt8,
      (writeBytesLine i.turnWords i.listGran s i.code).1.disk ++ (writeBytesLine i.turnWords i.listGran s i.code).1.buf
        = (s.disk ++ s.buf) ++ bs ∧
      parseListingW r i.gran i.turnWords (makeListW { i with code := (writeBytesLine i.turnWords i.listGran s i.code).2 })
        = some (i.listPC, bs.map (fun b => b.toNat)) := by
  refine ⟨fileBytes i.turnWords i.listGran i.code, C19_wide_stored _ _ _ _, ?_⟩
  rw [C19_wide_buffer_restored]
  have e : ({ i with code := i.code } : ListInW) = i := by cases i; rfl
  rw [e]
  exact C19_wide_roundtrip r h2 h36 i hlg hg hlen hw hn hdp hsrc

/-- the hypotheses are satisfiable with a statement that is written through: 68000, any buffer of 512 bytes or more
(such buffers exist: `List.replicate 516 0x4d`) -/
example (code : List UInt8) (h : codeBufferSize ≤ code.length) :
    let i : ListInW := { incDepth := 0, currLine := 8, listPC := 0x2000, gran := 1, listGran := 2, turnWords := true,
                         code := code, src := "\tdc.b [516]$4d".toList }
    LG i.listGran ∧ (i.gran = 1 ∨ i.gran = i.listGran) ∧ i.code.length % i.gran = 0 ∧ codeBufferSize ≤ i.code.length ∧
      (unitW 16 i.listGran + 1 < LISTLINESPACE) :=
  ⟨Or.inr (Or.inl rfl), Or.inl rfl, Nat.mod_one _, h, (by decide : unitW 16 2 + 1 < LISTLINESPACE)⟩

example : codeBufferSize ≤ (List.replicate 516 (0x4d : UInt8)).length := by
  simp only [List.length_replicate, codeBufferSize]
  omega

/-! ## non-vacuity: concrete lines of the four kinds of target -/

/-- (g, lg) = (1, 2), `TurnWords` [68000]: 13 bytes at $1017 – two lines, the second one ends with a
byte-dumped remainder; the code file holds the words most significant byte first -/
example :
    let i : ListInW := { incDepth := 0, currLine := 8, listPC := 0x1017, gran := 1, listGran := 2, turnWords := true,
                         code := [2, 1, 4, 3, 6, 5, 8, 7, 10, 9, 12, 11, 13], src := "\tdc.b 1,2,3,4,5,6,7,8,9,10,11,12,13".toList }
    (makeListW i).map String.ofList =
        ["       8/    1017 : 0102 0304 0506      \tdc.b 1,2,3,4,5,6,7,8,9,10,11,12,13", "             101D : 0708 090A 0B0C 0D "] ∧
      parseListingW 16 1 true (makeListW i) = some (0x1017, [1, 2, 3, 4, 5, 6, 7, 8, 9, 10, 11, 12, 13]) := by
  decide

/-- the hypotheses of `C19_wide_roundtrip_room` are satisfiable: the 68000 line above, instantiated -/
example :
    let i : ListInW := { incDepth := 0, currLine := 8, listPC := 0x1017, gran := 1, listGran := 2, turnWords := true,
                         code := [2, 1, 4, 3, 6, 5, 8, 7, 10, 9, 12, 11, 13], src := "\tdc.b 1".toList }
    parseListingW 16 1 true (makeListW i) = some (0x1017, (fileBytes true 2 i.code).map (fun b => b.toNat)) := by
  intro i
  exact C19_wide_roundtrip_room 16 (by omega) (by omega) i (Or.inr (Or.inl rfl)) (Or.inl (by decide)) (Or.inl rfl) (by decide) rfl rfl rfl

/-- … and those of `C19_wide_roundtrip` with the source-text alternative: 32-bit listing in radix 2
(a unit takes 32 digits, the source follows its blank directly), source text starting with a TAB -/
example :
    let i : ListInW := { incDepth := 0, currLine := 15, listPC := 0x200, gran := 4, listGran := 4, turnWords := false,
                         widthRadix := 2, numRadix := 2, code := [0x44, 0x33, 0x22, 0x11, 1, 0, 0, 0], src := "\tword 1".toList }
    parseListingW 2 4 false (makeListW i) = some (0x200, (fileBytes false 4 i.code).map (fun b => b.toNat)) := by
  intro i
  refine C19_wide_roundtrip 2 (by omega) (by omega) i (Or.inr (Or.inr rfl)) (Or.inr rfl) (by decide) rfl rfl rfl (Or.inr ?_)
  intro c t h d hd
  have e : i.src = ['\t', 'w', 'o', 'r', 'd', ' ', '1'] := by decide
  rw [e] at h
  injection h with h1 _
  subst h1
  have hn : digitVal '\t' = none := by decide
  rw [hn] at hd
  cases hd

/-- (g, lg) = (2, 2) [TMS320C25, PIC, AVR code]: 7 words at $100 – three lines, one address per word,
least significant byte first in the code file -/
example :
    let i : ListInW := { incDepth := 0, currLine := 3, listPC := 0x100, gran := 2, listGran := 2, turnWords := false,
                         code := [0x34, 0x12, 0x78, 0x56, 0xbc, 0x9a, 0xf0, 0xde, 0x22, 0x11, 3, 0, 4, 0], src := "l1:\tword 1".toList }
    (makeListW i).map String.ofList =
        ["       3/     100 : 1234 5678 9ABC      l1:\tword 1", "              103 : DEF0 1122 0003 ", "              106 : 0004             "] ∧
      parseListingW 16 2 false (makeListW i) = some (0x100, [0x34, 0x12, 0x78, 0x56, 0xbc, 0x9a, 0xf0, 0xde, 0x22, 0x11, 3, 0, 4, 0]) := by
  decide

/-- (g, lg) = (4, 4) [TMS320C30]: 5 units at $200 in radix 7 (12 digits per unit, one unit per line) -/
example :
    let i : ListInW := { incDepth := 1, currLine := 15, listPC := 0x200, gran := 4, listGran := 4, turnWords := false,
                         widthRadix := 7, numRadix := 7,
                         code := [0x44, 0x33, 0x22, 0x11, 0x88, 0x77, 0x66, 0x55, 0xcc, 0xbb, 0xaa, 0x99, 1, 0, 0, 0, 2, 0, 0, 0], src := "\tword 1".toList }
    (makeListW i).length = 5 ∧
      parseListingW 7 4 false (makeListW i) = some (0x200, [0x44, 0x33, 0x22, 0x11, 0x88, 0x77, 0x66, 0x55, 0xcc, 0xbb, 0xaa, 0x99, 1, 0, 0, 0, 2, 0, 0, 0]) := by
  decide

/-- (g, lg) = (1, 1): the general model prints what the byte model of `C19_listing_roundtrip` prints -/
example :
    let code : List UInt8 := (List.range 20).map (fun n => UInt8.ofNat (13 * n + 200))
    makeListW { incDepth := 2, currLine := 31, listPC := 4096, widthRadix := 7, numRadix := 7, gran := 1, listGran := 1,
                turnWords := false, code := code, src := "lab:\tdb 1".toList }
      = makeList { incDepth := 2, currLine := 31, listPC := 4096, widthRadix := 7, numRadix := 7, code := code, src := "lab:\tdb 1".toList } := by
  decide

/-- (g, lg) = (2, 1) is *not* covered (`hg`), and for a reason: `ListPC += (Gran == CurrListGran) ? 1 :
CurrListGran` advances one address per listed byte, so the continuation line of a byte-listed
segment with 16-bit address units would claim an address 3 units too high.  No CPU of the current
tree has such a segment (`C19_wide_table_admissible`). -/
example :
    let i : ListInW := { incDepth := 0, currLine := 3, listPC := 0x100, gran := 2, listGran := 1, turnWords := false,
                         code := [1, 2, 3, 4, 5, 6, 7, 8], src := [] }
    parseListingW 16 2 false (makeListW i) = none ∧ (makeListW i).map String.ofList =
      ["       3/     100 : 01 02 03 04 05 06   ", "              106 : 07 08             "] := by
  decide

end AslModel.C19
