import AslModel.Lemmas.CodeOrder
import AslModel.Props.C04_Ctl
import AslModel.Generated.TargetDesc
/-!
# C04 — the byte order in which 16-bit data reach the code file (`TurnWords`, `ListGrans[]`, `DreheCodes`)

Property theorems only.  Model: `Model/CodeOrder.lean` (`enterWords`: the word buffer of a word-listed back end resp. the
byte-wise order of a byte-listed one; `writeOrder`: `WriteBytes()` turning the buffer when `TurnWords` is set;
`lowerM`: statement lists in terms of `Model/CodeCtl.lean`).  Spec: `specWordBytes` / `lowerS` - a 16-bit datum of a
big-endian processor is stored high byte first, of a little-endian one low byte first, whatever was selected before.
-/
namespace AslModel.C04
open AslModel.PFile AslModel.CodeFile

/-- **Every `SwitchTo_*` establishes the byte order itself** (generated obligation, translate/targetdesc.py: clang AST of
every code*.c plus the poisoning dumper): `TurnWords` is assigned on every path of every switch function, and no processor
inherits it at run time.  This is what allows `Model/CodeOrder.lean` to read the flag from the processor in effect
(`s.cpu.turn`) instead of from the history of the run. -/
theorem C04_switch_sets_byte_order :
    Generated.TargetDesc.scalarNames[6]? = some "TurnWords" ∧
    Generated.TargetDesc.funcRows.all (fun f => f.scalars.getD 6 false && f.dynOk) = true := by
  constructor
  · decide
  · decide +kernel

/-- **The bytes of a 16-bit data statement are in the documented order of the processor in effect**: the word buffer of
the back end, turned by `WriteBytes()` under the processor's `TurnWords`, is `d / 256, d % 256` per datum for a big-endian
processor and `d % 256, d / 256` for a little-endian one - for every coherent processor description (byte-listed, or
word-listed with `TurnWords` = big-endian), every address space and every list of data. -/
theorem C04_order_word_bytes (s : CS) (vals : List Nat) (h : s.cpu.Coherent s.actPC) :
    modelWordBytes s vals = specWordBytes s.cpu.big vals := modelWordBytes_spec s vals h

/-- **... whatever was selected before**: two runs that arrive at the same processor and address space by different
histories (other counters, other `SAVE` stacks, other processors before) lay down the same bytes. -/
theorem C04_order_history_free (s1 s2 : CS) (vals : List Nat) (hc : s1.cpu = s2.cpu) (ha : s1.actPC = s2.actPC) :
    modelWordBytes s1 vals = modelWordBytes s2 vals := by
  unfold modelWordBytes
  rw [hc, ha]

/-- the statement list the model hands to the record layer is the one the manual's reading gives -/
theorem C04_order_lower (s : CS) (l : List WStmt) (h : OrderWF s l) : lowerM s l = lowerS s l := lower_eq l s h

/-- **Nothing lost, duplicated, shifted, filed under the wrong processor or byte-swapped**: the data records of the
finished file hold exactly the cells the source specifies, for every list of byte data / 16-bit data / reservation / `ORG`
/ `SEGMENT` / `CPU` / `SAVE` / `RESTORE` statements over coherent processor descriptions, in every order of big- and
little-endian, word- and byte-listed processors. -/
theorem C04_order_cells (s : CS) (l : List WStmt) (entry : Option Nat) (ho : OrderWF s l) (hwf : CtlsWF s (lowerS s l)) :
    cellsOf (finishItems (run (init s.ctx s.pc) (ctlEvs s (lowerM s l))) entry) = specCellsC s (lowerS s l) := by
  rw [C04_order_lower s l ho]
  exact C04_ctl_cells s _ entry hwf

/-- **The flag matters** (why a processor switch has to establish it): handing a word-listed back end's buffer to the file
under the opposite `TurnWords` - e.g. one left behind by the processor selected before - stores every datum whose two bytes
differ in the wrong order. -/
theorem C04_order_inherited_flag_wrong (big : Bool) (v : Nat) (hv : hiB v ≠ loB v) :
    writeOrder (!big) 2 (enterWords 2 big [v]) ≠ specWordBytes big [v] := by
  cases big
  · simp only [Bool.not_false, writeOrder, if_true, drehe_two, drehe2_enter, specWordBytes, Bool.false_eq_true, if_false, List.append_nil]
    intro h
    injection h with h1 _
    exact hv h1
  · simp only [Bool.not_true, writeOrder, Bool.false_eq_true, if_false, enter_host, specWordBytes, if_true, List.append_nil]
    intro h
    injection h with h1 _
    exact hv h1.symm

/-! Non-vacuity: Z80 (little-endian, byte-listed), then the H8/300 (big-endian, word-listed, `TurnWords`), `DC.W $1234`
directly behind the switch; `SAVE` / MSP430 (little-endian, word-listed) / `RESTORE`; 6809 (big-endian, byte-listed). -/
def exoZ80 : Cpu := { id := 1, hdr := 0x51, grans := [(1, 1)], lgrans := [(1, 1)], turn := false, big := false }
def exoH8 : Cpu := { id := 2, hdr := 0x68, grans := [(1, 1)], lgrans := [(1, 2)], turn := true, big := true }
def exoMsp : Cpu := { id := 3, hdr := 0x4a, grans := [(1, 1)], lgrans := [(1, 2)], turn := false, big := false }
def exo09 : Cpu := { id := 4, hdr := 0x63, grans := [(1, 1)], lgrans := [(1, 1)], turn := false, big := true }
def exOrder : List WStmt :=
  [.ctl (.cpu exoZ80), .ctl (.org 0), .words [0x2211], .ctl (.cpu exoH8), .ctl (.org 0x100), .words [0x1234, 0x89ab],
   .ctl .save, .ctl (.cpu exoMsp), .words [0x1234], .ctl .restore, .words [0xcdef], .ctl (.cpu exo09), .words [0x1234]]
example : OrderWF (csInit exCtx 0) exOrder := by
  simp [OrderWF, exOrder, specWordBytes, specStepC, csInit, exCtx, exoZ80, exoH8, exoMsp, exo09, Cpu.Coherent, Cpu.lgran, Cpu.gran,
    CS.setPC, CS.pc, PFile.segCode, List.lookup]
example : CtlsWF (csInit exCtx 0) (lowerS (csInit exCtx 0) exOrder) := by
  simp [CtlsWF, exOrder, lowerS, specWordBytes, specStepC, csInit, exCtx, exoZ80, exoH8, exoMsp, exo09, Cpu.gran, CS.setPC, CS.pc,
    PFile.segCode, List.lookup]
example : specCellsC (csInit exCtx 0) (lowerM (csInit exCtx 0) exOrder) =
    [(0x51, 1, 1, 0, 0x11), (0x51, 1, 1, 1, 0x22),
     (0x68, 1, 1, 0x100, 0x12), (0x68, 1, 1, 0x101, 0x34), (0x68, 1, 1, 0x102, 0x89), (0x68, 1, 1, 0x103, 0xab),
     (0x4a, 1, 1, 0x104, 0x34), (0x4a, 1, 1, 0x105, 0x12),
     (0x68, 1, 1, 0x106, 0xcd), (0x68, 1, 1, 0x107, 0xef),
     (0x63, 1, 1, 0x108, 0x12), (0x63, 1, 1, 0x109, 0x34)] := by decide
example : hiB 0x1234 ≠ loB 0x1234 := by decide

end AslModel.C04
