import AslModel.Lemmas.PFile
import AslModel.Lemmas.CodeFile
import AslModel.Lemmas.CodeFileRefine
/-!
# C04 — the code file contains exactly the program's bytes at the program's addresses

Property theorems only (helper lemmas live in `Lemmas/`).  All statements quantify over *every*
statement list `evs` — any interleaving of emissions with ORG/reservation/SEGMENT/CPU jumps, any
run lengths relative to the 64 KiB record limit.

Model: `Model/CodeFile.lean` (L2 record machine of `NewRecord`/`WriteBytes`/`CloseFile`).
Spec: `Spec/PFile.lean` (reader from doc/file-formats.md, `cellsOf`) and `specCells`.
-/
namespace AslModel.C04
open AslModel.PFile AslModel.CodeFile

/-- Table obligations: the constants the spec reader hard-wires from the documentation are the
ones the current `fileformat.h` defines. -/
theorem C04_format_constants :
    Generated.fileMagic = 0x1489 ∧ Generated.fileHeaderEnd = 0x00 ∧
    Generated.fileHeaderStartAdr = 0x80 ∧ Generated.fileHeaderDataRec = 0x81 := by decide

/-- Reader ∘ writer = identity on every well-formed item list (any number of records, any
payload up to 65535 bytes, entry records anywhere). -/
theorem C04_roundtrip (items : List Item) (creator : List Byte) (hwf : ∀ i ∈ items, i.WF) :
    parseFile (serFileLong items creator) = some (items, creator) :=
  parseFile_serFileLong items creator hwf

/-- **Nothing lost, duplicated, reordered or shifted**: the data records of the finished file
hold exactly the (family, segment, granularity, address, byte) cells the statements specify, in
order, for every statement list. -/
theorem C04_cells (c : Ctx) (pc0 : Nat) (evs : List Ev) (entry : Option Nat) (hwf : EvsWF c evs) :
    cellsOf (finishItems (run (init c pc0) evs) entry) = specCells c pc0 evs := by
  have h := run_ok evs (init c pc0) (init_inv c pc0) hwf
  have hk := closed_eq_held (run (init c pc0) evs) (run (init c pc0) evs).pc
  have hd : ∀ (rs : List Rec) (tl : List Item), (∀ i ∈ tl, ∃ a, i = Item.entry a) →
      dataRecs (rs.map Item.data ++ tl) = rs := by
    intro rs tl htl
    induction rs with
    | nil =>
      induction tl with
      | nil => rfl
      | cons t ts ih =>
        obtain ⟨a, ha⟩ := htl t (by simp)
        subst ha
        simpa [dataRecs] using ih (fun i hi => htl i (by simp [hi]))
    | cons r rs ih => simp [dataRecs]; simpa using ih
  unfold cellsOf finishItems
  rw [hd]
  · show recsCells (finish (run (init c pc0) evs)) = _
    unfold finish
    rw [hk, h.2, held_init]
    simp [init]
  · intro i hi
    cases entry with
    | none => simp at hi
    | some a => simp at hi; exact ⟨a, hi⟩

/-- Every data record of the finished file is non-empty (empty-record elision), respects the
16-bit length field, and is a whole number of granules — for all statement lists whose single
statements stay below the per-line limit (`EvsFit`, discharged from `SetMaxCodeLen`). -/
theorem C04_records_consistent (c : Ctx) (pc0 : Nat) (evs : List Ev) (hfit : EvsFit c evs) :
    ∀ r ∈ finish (run (init c pc0) evs), RecOK r := by
  have h := run_inv2 evs (init c pc0) (init_inv2 c pc0) rfl hfit
  exact (newRecord_inv2 _ _ h).closed

/-- The finished file, written in the long form `asl` uses, is read back by the documented
reader as exactly the records of the machine plus the entry record, and the creator string. -/
theorem C04_file_wellformed (c : Ctx) (pc0 : Nat) (evs : List Ev) (entry : Option Nat) (creator : List Byte)
    (hfit : EvsFit c evs) (hstart : ∀ r ∈ finish (run (init c pc0) evs), r.start < 4294967296)
    (hentry : ∀ a, entry = some a → a < 4294967296) :
    parseFile (serFileLong (finishItems (run (init c pc0) evs) entry) creator)
      = some (finishItems (run (init c pc0) evs) entry, creator) := by
  apply parseFile_serFileLong
  intro i hi
  unfold finishItems at hi
  simp only [List.mem_append, List.mem_map] at hi
  rcases hi with ⟨r, hr, rfl⟩ | hi
  · have := C04_records_consistent c pc0 evs hfit r hr
    exact ⟨hstart r hr, by have := this.len; omega⟩
  · cases entry with
    | none => simp at hi
    | some a => simp at hi; subst hi; exact hentry a rfl

/-- **Byte machine refines record machine** (`asmcode.c` as written – `fseek` back-patching of the
length field, overwriting of empty records, the 512-byte `CodeBuffer`, the final overwrite by entry
and creator record – versus the abstract record list): for every statement list whose single
statements stay within the per-line limit, the bytes `asl` leaves on disk are exactly the long
serialisation of the record machine's result.  (`10 ≤ …`: the creator string – "AS x.yy/…" – is long
enough to cover the empty record header it overwrites; no truncation happens in `CloseFile`.) -/
theorem C04_refine (c : Ctx) (pc0 : Nat) (evs : List Ev) (entry : Option Nat) (creator : List Byte)
    (hs : EvsSmall evs)
    (hlen : 10 ≤ (match entry with | some _ => 5 | none => 0) + 1 + creator.length) :
    writeCodeFile c pc0 evs entry creator
      = serFileLong (finishItems (run (init c pc0) evs) entry) creator := by
  unfold writeCodeFile
  exact close_rel _ _ entry creator (run_rel evs _ _ (open_rel c pc0) hs) hlen

/-- Corollary: what the documented reader sees in the file written by the byte machine is the cell
list the statements specify (C04_refine ∘ C04_file_wellformed ∘ C04_cells). -/
theorem C04_end_to_end (c : Ctx) (pc0 : Nat) (evs : List Ev) (entry : Option Nat) (creator : List Byte)
    (hwf : EvsWF c evs) (hfit : EvsFit c evs) (hs : EvsSmall evs)
    (hlen : 10 ≤ (match entry with | some _ => 5 | none => 0) + 1 + creator.length)
    (hstart : ∀ r ∈ finish (run (init c pc0) evs), r.start < 4294967296)
    (hentry : ∀ a, entry = some a → a < 4294967296) :
    ∃ items, parseFile (writeCodeFile c pc0 evs entry creator) = some (items, creator) ∧
      cellsOf items = specCells c pc0 evs := by
  refine ⟨finishItems (run (init c pc0) evs) entry, ?_, C04_cells c pc0 evs entry hwf⟩
  rw [C04_refine c pc0 evs entry creator hs hlen]
  exact C04_file_wellformed c pc0 evs entry creator hfit hstart hentry

/-! Non-vacuity: a concrete non-trivial statement list meets the hypotheses. -/
def exCtx : Ctx := ⟨0x11, 1, 1⟩
def exEvs : List Ev := [.emit [1, 2, 3], .jump exCtx 0x100, .emit [4], .jump ⟨0x70, 1, 2⟩ 0, .emit [5, 6]]
example : EvsWF exCtx exEvs ∧ EvsFit exCtx exEvs ∧ EvsSmall exEvs := by
  simp [EvsWF, EvsFit, EvsSmall, exEvs, exCtx]
example : (finish (run (init exCtx 0) exEvs)).length = 3 := by decide

end AslModel.C04
