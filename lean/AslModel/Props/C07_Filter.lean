import AslModel.Lemmas.FilterList
import AslModel.Props.C07
/-!
# C07 — the `-f` / `+f` options: the C array of `CMD_FilterList` computes the documented set

Property theorems only.  Model: `Model/FilterList.lean` (toolutils.c `FilterBytes[]`, `FilterCnt`,
`CMD_FilterList` element by element with the swap-with-last removal and the unchecked append, `FilterOK`
loop).  Spec: `Spec/FilterSet.lean` (an id is selected iff some `-f` named it and no later `+f` did; an
empty set filters nothing).

Full statements, all proved below:
* for every option sequence whose stores stay inside `FilterBytes[]`, membership below `FilterCnt` =
  membership in the documented set, and no id is stored twice (the invariant the code keeps by
  searching before it appends) — `C07_filter_refines`, `C07_filter_refines_ids`;
* `FilterOK`'s loop = the list-level filter the PBIND model uses — `C07_filterOK_array`;
* the stores stay inside the array whenever the `-f` options name at most `capacity` DISTINCT ids
  — `C07_filter_within_capacity_distinct` (and `C07_filter_within_capacity`: at most `capacity` elements altogether);
* conservation of PBIND stated for option SEQUENCES — `C07_conserve_options`.

Two hypotheses are needed, both shown necessary on the model and reproduced on the real binaries:
`IdsInRange` (`-f 337` selects family `$51`: `ConstLongInt`'s result is narrowed to `Byte`) and the
capacity (`FilterBytes[FilterCnt++]` has no bound check; the 101st distinct id is stored into
`FilterCnt` itself on the pinned build — known finding `filter-list-overflow`).
-/
namespace AslModel.C07
open AslModel.PFile AslModel.Tools

/-- **The array refines the set** (header ids as stored, i.e. after narrowing to `Byte`): for every
capacity and every sequence of `-f`/`+f` options (any values, duplicates, removals of absent ids, in
any order) during which no store leaves the array, a byte is stored below `FilterCnt` iff it was named
by some `-f` element and by no later `+f` element; the live cells hold no id twice; `FilterCnt` is the
number of live cells and stays within the capacity. -/
theorem C07_filter_refines (cap : Nat) (ops : List (Bool × List Nat)) (a : FilterArr)
    (h : filterOfOptions cap ops = some a) :
    (∀ x : Byte, x ∈ a.live ↔ InSet (narrowed (filterEvents ops)) x) ∧
    a.live.Nodup ∧ a.live.length = a.cnt ∧ a.cnt ≤ cap ∧ a.bytes.length = cap := by
  rw [filterOfOptions, cmdLine_eq] at h
  obtain ⟨hi, hl, hm⟩ := run_refines _ _ a (inv_init cap) h
  have hlen : a.bytes.length = cap := by simpa [FilterArr.init] using hl
  refine ⟨?_, nodup_live a hi, live_length a hi.1, by have := hi.1; omega, hlen⟩
  intro x
  rw [mem_live a hi.1, hm x false (by simp [not_memA_init]), ← inSet_iff]
  rfl

/-- The same in terms of the numbers written on the command line, when each is a header id (< 256). -/
theorem C07_filter_refines_ids (cap : Nat) (ops : List (Bool × List Nat)) (a : FilterArr)
    (h : filterOfOptions cap ops = some a) (hr : IdsInRange (filterEvents ops)) (x : Byte) :
    x ∈ a.live ↔ InSet (filterEvents ops) x.toNat := by
  rw [filterOfOptions, cmdLine_eq] at h
  obtain ⟨hi, _, hm⟩ := run_refines _ _ a (inv_init cap) h
  rw [mem_live a hi.1, hm x false (by simp [not_memA_init]), inSetFrom_narrowed _ hr, ← inSet_iff]
  rfl

/-- `IdsInRange` is needed: `-f 337` stores `$51`, so family `$51` is selected although no option names
it (real pbind: `pbind all.p out.p -f 337` copies the `$51` record). -/
theorem C07_filter_refines_ids_hypothesis_needed :
    (filterOfOptions 100 [(false, [337])]).map (·.live) = some [0x51] ∧
    inSet (filterEvents [(false, [337])]) 0x51 = false ∧ ¬ IdsInRange (filterEvents [(false, [337])]) := by
  decide +kernel

/-- `FilterOK`'s loop over `FilterBytes[0..FilterCnt)` with `DoFilter = (FilterCnt != 0)` is the
list-level filter the PBIND/P2BIN/P2HEX models use, for every array state the options can produce. -/
theorem C07_filterOK_array (cap : Nat) (ops : List (Bool × List Nat)) (a : FilterArr)
    (h : filterOfOptions cap ops = some a) (hdr : Byte) : filterOKArr a hdr = filterOK a.live hdr := by
  rw [filterOfOptions, cmdLine_eq] at h
  obtain ⟨hi, _, _⟩ := run_refines _ _ a (inv_init cap) h
  exact filterOKArr_eq a hi.1 hdr

/-- **Within the capacity nothing leaves the array**: if the `-f` options carry at most `cap` list
elements altogether (duplicates counted, `+f` elements not), every store stays inside `FilterBytes[]`. -/
theorem C07_filter_within_capacity (cap : Nat) (ops : List (Bool × List Nat))
    (h : addCount (filterEvents ops) ≤ cap) : (filterOfOptions cap ops).isSome = true := by
  rw [filterOfOptions, cmdLine_eq]
  exact run_isSome _ _ (inv_init cap) (by simpa [FilterArr.init] using h)

/-- **Sharp form**: only DISTINCT ids count.  If the `-f` options name at most `cap` distinct ids (as stored;
repetitions, re-adds after a removal and `+f` elements do not count), every store stays inside
`FilterBytes[]` - for every order of the options and every interleaving with removals. -/
theorem C07_filter_within_capacity_distinct (cap : Nat) (ops : List (Bool × List Nat))
    (h : distinctCount (addedIds (filterEvents ops)) ≤ cap) : (filterOfOptions cap ops).isSome = true := by
  rw [filterOfOptions, cmdLine_eq]
  exact run_isSome_distinct (addedIds (filterEvents ops)) _ _ (inv_init cap)
    (fun x hx => absurd hx (not_memA_init cap x)) (fun x hx => hx) (by simpa [FilterArr.init] using h)

/-- The capacity is needed: the first new id after `capacity` distinct ones is stored to
`FilterBytes[capacity]`, outside the array (shown for capacity 4 to keep the kernel evaluation small; on the
real binaries with capacity 100: known finding `filter-list-overflow`).  With one more cell the set is complete. -/
theorem C07_filter_capacity_hypothesis_needed :
    filterOfOptions 4 [(false, [1, 2, 3]), (false, [4, 5])] = none ∧
    (filterOfOptions 5 [(false, [1, 2, 3]), (false, [4, 5])]).map (·.live) = some [1, 2, 3, 4, 5] ∧
    ¬ distinctCount (addedIds (filterEvents [(false, [1, 2, 3]), (false, [4, 5])])) ≤ 4 := by
  decide +kernel

/-- **Conservation for option sequences.**  For every sequence of `-f`/`+f` options naming header ids
(< 256) whose stores stay inside `FilterBytes[]`, every list of source files (as in `C07_conserve`),
quiet or not: pbind run with the array these options leave ends with status 0, its target is the
serialisation of exactly those items of the sources, in order, that the DOCUMENTED SET keeps (every
entry record; every data record if no id is selected, else the data records whose header id was named
by a `-f` and by no later `+f`), the documented reader reads the target back to exactly those items,
and the byte count per source is the sum of the kept record lengths. -/
theorem C07_conserve_options (cap : Nat) (ops : List (Bool × List Nat)) (a : FilterArr)
    (hopt : filterOfOptions cap ops = some a) (hr : IdsInRange (filterEvents ops))
    (env : Env) (henv : env.flt = a.live) (creatorB : List Byte) (quiet : Bool) (errno0 : Nat)
    (inputs : List (List (Item × Bool) × List Byte)) (hb : 0 < env.bufSize)
    (hc : ChkHarmless env.cfg (effErrno quiet errno0)) (hin : ∀ f ∈ inputs, SrcOK env.lenSlack f) :
    pbindMain env 0x1489 creatorB quiet errno0 (inputs.map (fun f => serFileForm f.1 f.2)) =
      some ⟨0, serFileAuto (expectedByOptions (filterEvents ops) inputs) creatorB,
            inputs.map (fun f => sumLen (keptByOptions (filterEvents ops) f.1))⟩
    ∧ parseFile (serFileAuto (expectedByOptions (filterEvents ops) inputs) creatorB) =
        some (expectedByOptions (filterEvents ops) inputs, creatorB) := by
  rw [filterOfOptions, cmdLine_eq] at hopt
  have hk : keepItem (filterSpec env.flt) = keepByOptions (filterEvents ops) := by
    funext it
    rw [henv]
    exact keep_eq _ hr cap a hopt it
  have := C07_conserve env creatorB quiet errno0 inputs hb hc hin
  simpa only [expected, keptItems, hk, expectedByOptions, keptByOptions] using this

/-- The same for the program as extracted from the current tree (generated capacity, `ChkIO` flags, buffer
size, FileID, creator), non-quiet run. -/
theorem C07_conserve_options_generated (ops : List (Bool × List Nat)) (a : FilterArr)
    (hopt : filterOfOptions Generated.filterBytesCap ops = some a) (hr : IdsInRange (filterEvents ops)) (errno0 : Nat)
    (inputs : List (List (Item × Bool) × List Byte)) (hin : ∀ f ∈ inputs, SrcOK Generated.pbindLenSlack f) :
    pbindMain (genEnv a.live) Generated.toolFileID genCreator false errno0 (inputs.map (fun f => serFileForm f.1 f.2)) =
      some ⟨0, serFileAuto (expectedByOptions (filterEvents ops) inputs) genCreator,
            inputs.map (fun f => sumLen (keptByOptions (filterEvents ops) f.1))⟩ := by
  have hid : Generated.toolFileID = 0x1489 := by decide
  rw [hid]
  exact (C07_conserve_options _ ops a hopt hr (genEnv a.live) rfl genCreator false errno0 inputs
    (show 0 < Generated.pbindBufferSize by decide) (Or.inl rfl) hin).1

/-! Non-vacuity: a concrete option sequence with a duplicate, a removal of the first entry (swap with
the last), a removal of an absent id and a re-add; it stays inside the array, names header ids only,
and selects `$31` and `$70` of the example source of `Props/C07.lean`. -/
def exOps : List (Bool × List Nat) := [(false, [0x51, 0x31, 0x51, 0x70]), (true, [0x51, 0x99]), (false, [0x31])]

example : (filterOfOptions Generated.filterBytesCap exOps).map (fun a => (a.live, a.cnt)) = some ([0x70, 0x31], 2) := by
  decide +kernel
example : IdsInRange (filterEvents exOps) := by decide
example : addCount (filterEvents exOps) ≤ Generated.filterBytesCap := by decide
example : distinctCount (addedIds (filterEvents exOps)) = 3 ∧ addCount (filterEvents exOps) = 5 := by decide
example : InSet (filterEvents exOps) 0x31 := (inSet_iff _ _).mp (by decide)
example : ¬ InSet (filterEvents exOps) 0x51 := fun h => absurd ((inSet_iff _ _).mpr h) (by decide)
example : (expectedByOptions (filterEvents exOps) [exSrc, exSrc]).length = 6 := by decide
example : (expectedByOptions (filterEvents [(false, [0x51])]) [exSrc, exSrc]).length = 4 := by decide
/-- the cells at and above `FilterCnt` keep stale ids (here the old copy of `$70` at index 2 after it was
moved into the hole at index 0): only the cells below the counter are the set -/
example : (filterOfOptions 4 exOps).map (·.bytes) = some [0x70, 0x31, 0x70, 0x00] := by decide +kernel

end AslModel.C07
