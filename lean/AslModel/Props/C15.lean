import AslModel.Lemmas.Dis4004
import AslModel.Lemmas.DisChunks
import AslModel.Lemmas.DisChunksRefine
/-! C15 – disassembling and re-assembling reproduces the original bytes.

What is proved here (models: `Model/Dis/Core.lean` = das.c/chunks.c/entryaddress.c/codechunks.c, `Model/Dis/I4004.lean` =
deco4004.c + an encoder from code4004.c; both opcode tables regenerated from the C sources):
* `C15_4004_roundtrip` – every byte pair the 4004 disassembler decodes as an instruction is reproduced by the assembler-side
  decoder registered for the printed mnemonic, applied to the printed operands (structured: register, pair, number, label value).
* `C15_4004_length`, `C15_4004_fallthrough` – length = number of image bytes, successor computation.
* `C15_areas` – for *any* CPU callback: the code areas the tracing loop ends with are sorted, pairwise separated and cover exactly
  the extents of the traced instructions; `C15_areas_disjoint` – code and data areas share no address iff no traced
  instruction touches a vector cell; `C15_areas_inside` – inside the image for callbacks that only report bytes they fetched.
* `C15_chunks_refine` – chunks.c `AddChunk` as written (`addChunkC`: unsorted array, first-fit, merge scan from index 1, hole
  filled with the last element) against the interval-set insertion `ins`, for every insertion history: `SortChunks` of the array
  is the `ins` list (`C15_chunks_refine_step`: one call from any reachable array; `C15_chunks_array`: the array's own invariant
  and `AddressInChunk`).  `C15_run_refine`: a whole `runDasl` – the arrays it ends with and the areas it prints are the ghost
  interval-set lists (the driver's `l1` comparison, now a theorem; it keeps running as a test).  `C15_areas_C`,
  `C15_data_exact_C`, `C15_areas_inside_C`, `C15_trace_refine`: `C15_areas` & co. for the arrays `codeC`/`dataC` the machine
  carries.  The model has unbounded addresses (`Nat`); the 64-bit wrap of `Start + Len` in `Overlap`/`SetChunk` is outside it.
Not proved here (tested against the real tools every run): text parsing and label resolution by asl for the 4004.
The 6800/6802 theorems (round trip on the printed text without excluded inputs, length, `Honest`, table facts) are in `Props/C15_6800.lean`.

`C15_4004_roundtrip` is the full-strength statement: since the repair of `DecodeISZ` (page of PC+2, as deco4004.c computes it) no
address is excluded; `C15_4004_isz_page_end` is the former counterexample.  `C15_4004_jcn_forward_label`: the first pass, in which
the label dasl printed as JCN target is still a forward reference, emits the same two bytes' worth of code (repair of `DecodeJCN`). -/
namespace AslModel.Dis
open AslModel.Generated

/-- bytes the instruction occupies in the image: opcode, then the operand byte for the two-byte forms -/
def I4004.imageBytes (dec : I4004.Dec) (op d : Nat) : List Nat := if dec.len = 1 then [op] else [op, d]

theorem C15_4004_roundtrip (a op d : Nat) (dec : I4004.Dec) (hop : op < 256) (hd : d < 256) (ha : a + 2 < 4096)
    (h : I4004.decode a op d = some dec) :
    I4004.encode 1 a dec.memo dec.args = some (I4004.imageBytes dec op d) := by
  have ht := I4004.table_ok op hop
  unfold I4004.tableOK at ht
  unfold I4004.decode at h
  generalize hr : I4004.row op = r at *
  cases hty : r.typ <;> simp only [hty] at h ht
  case eUnknown => simp at h
  all_goals
    cases hx : I4004.asmRow r.memo with
    | none => simp [hx] at ht
    | some x =>
      simp only [hx] at ht
      simp only [Option.some.injEq] at h
      subst h
      simp only [I4004.encode, I4004.encodeF, hx, I4004.imageBytes]
      simp only [Bool.and_eq_true, Bool.or_eq_true, beq_iff_eq, decide_eq_true_eq] at ht
      first
        | (obtain ⟨⟨hk, h1⟩, h2⟩ := ht
           simp only [hk]
           simp
           omega)
        | (obtain ⟨hk | hk, h1⟩ := ht <;>
           (simp only [hk]
            simp
            omega))
        | (obtain ⟨hk, h1⟩ := ht
           simp only [hk, I4004.hi]
           simp
           omega)

/-- non-vacuity: `jcn tz,lab_0105` at 0x1FD (bytes 15 05, PC+2 in page 1) satisfies the hypotheses and is a two-byte instruction -/
example : ∃ dec, I4004.decode 0x0fd 0x15 0x05 = some dec ∧ dec.len = 2 ∧ dec.args = [.cond 5, .addr 0x005] := ⟨_, rfl, rfl, rfl⟩
example : ∃ dec, I4004.decode 0x0fe 0x15 0x05 = some dec ∧ dec.args = [.cond 5, .addr 0x105] := ⟨_, rfl, rfl⟩
example : I4004.encode 1 0x0fe ['j', 'c', 'n'] [.cond 5, .addr 0x105] = some [0x15, 0x05] := by decide +kernel

/-- the former exclusion (ISZ at xFE, known finding `isz-page-boundary-4004`, repaired): `isz r5,…` at 0x1FE with operand byte F0
decodes to the target 0x2F0 (page of Address+2) and the assembler-side decoder, which now judges the page of PC+2 as well, gives
the two bytes back; the target in the page of PC+1 is the one that is rejected -/
theorem C15_4004_isz_page_end :
    ∃ dec, I4004.decode 0x1fe 0x75 0xf0 = some dec ∧ dec.args = [.reg 5, .addr 0x2f0] ∧
      I4004.encode 1 0x1fe dec.memo dec.args = some [0x75, 0xf0] ∧
      I4004.encode 1 0x1fe dec.memo [.reg 5, .addr 0x1f0] = none :=
  ⟨_, rfl, rfl, by decide +kernel, by decide +kernel⟩

/-- A JCN whose target dasl prints as a label defined further down (a forward reference for asl): in the first pass the label has the
value of the program counter and the first-pass-unknown flag; `DecodeJCN` does not judge the page of such a value (repair of the known
finding `jcn-forward-label-page-end-4004`: at xFE/xFF the program counter lies in the page before the valid targets), so the first pass
lays two bytes whatever the placeholder is, and the final pass – target `v` in the page of PC+2 – lays `1c vv`.  Without the flag
the placeholder value is rejected exactly at the page end. -/
theorem C15_4004_jcn_forward_label (pc m v p : Nat) (hm : m < 16) (hv : v < 4096) (hp : p < 4096)
    (hpage : (pc + 2) / 256 % 256 = v / 256 % 256) :
    I4004.encodeF true 1 pc ['j', 'c', 'n'] [.cond m, .addr p] = some [16 + m, p % 256] ∧
    I4004.encode 1 pc ['j', 'c', 'n'] [.cond m, .addr v] = some [16 + m, v % 256] ∧
    (pc < 4094 → 254 ≤ pc % 256 → I4004.encodeF false 1 pc ['j', 'c', 'n'] [.cond m, .addr pc] = none) := by
  have hr : I4004.asmRow ['j', 'c', 'n'] = some ⟨['J', 'C', 'N'], 0, 0, .jcn⟩ := by decide +kernel
  refine ⟨?_, ?_, ?_⟩
  · simp [I4004.encodeF, hr, hm, hp]
  · simp [I4004.encode, I4004.encodeF, hr, hm, hv, I4004.hi, hpage]
  · intro h1 h2
    have : ¬ ((pc + 2) / 256 % 256 = pc / 256 % 256) := by omega
    simp [I4004.encodeF, hr, I4004.hi, this]

/-- non-vacuity: `jcn tz,L0300` at 0x2FE (the witness of the former finding): pass 1 with the placeholder 0x2FE, final pass 15 00 -/
example : I4004.encodeF true 1 0x2fe ['j', 'c', 'n'] [.cond 5, .addr 0x2fe] = some [0x15, 0xfe] ∧
    I4004.encode 1 0x2fe ['j', 'c', 'n'] [.cond 5, .addr 0x300] = some [0x15, 0x00] := by decide +kernel

/-- length of a decoded instruction = number of image bytes it stands for = 1 or 2, two exactly for the operand forms;
the successors are the operand address and the fall-through address -/
theorem C15_4004_length (a op d : Nat) (dec : I4004.Dec) (h : I4004.decode a op d = some dec) :
    dec.len = (I4004.imageBytes dec op d).length ∧ (dec.len = 2 ↔ I4004.needsData (I4004.row op).typ = true) ∧
    dec.next = (I4004.row op).next ∧
    ∀ n ∈ I4004.nexts dec.next dec.opAddr a dec.len, n = dec.opAddr ∨ n = (a + dec.len) % 0xfff := by
  unfold I4004.decode at h
  generalize I4004.row op = r at *
  refine ⟨?_, ?_, ?_, ?_⟩
  · cases hty : r.typ <;> simp only [hty] at h <;> first | (simp only [Option.some.injEq] at h; subst h; simp [I4004.imageBytes]) | (simp at h)
  · cases hty : r.typ <;> simp only [hty] at h <;> first | (simp only [Option.some.injEq] at h; subst h; simp [I4004.needsData]) | (simp at h)
  · cases hty : r.typ <;> simp only [hty] at h <;> first | (simp only [Option.some.injEq] at h; subst h; rfl) | (simp at h)
  · intro n hn
    unfold I4004.nexts at hn
    rcases List.mem_append.mp hn with h1 | h1
    · split at h1
      · exact Or.inl (List.mem_singleton.mp h1)
      · cases h1
    · split at h1
      · exact Or.inr (List.mem_singleton.mp h1)
      · cases h1

/-- the C code reduces the fall-through address with `% 0xfff`; below that bound it is the next address -/
theorem C15_4004_fallthrough (a len : Nat) (h : a + len < 0xfff) : (a + len) % 0xfff = a + len := Nat.mod_eq_of_lt h

/-- …and at the top of the address space it is not (the byte at 0xFFF is never reached by falling through) -/
theorem C15_finding_4004_fallthrough_wrap : (0xffe + 1) % 0xfff = 0 ∧ (0xffe + 1 : Nat) ≠ 0 := by decide

/-- chunk-list invariant of the tracing loop, for any CPU callback, any image, any entry queue, any number of rounds:
the code list stays sorted with a gap between neighbours, no two of its ranges share an address, and an address is
reported as code iff it lies in the extent `[Address, Address+CodeLen)` of a traced instruction (nothing lost, nothing invented) -/
theorem C15_areas (dis : Disasm) (img : Image) (lower : Bool) (fuel : Nat) (s0 : TState)
    (h0 : s0.code = []) (h1 : s0.traced = []) :
    let s := (traceLoop dis img lower fuel s0).1
    Sep s.code ∧
    (∀ c ∈ s.code, ∀ d ∈ s.code, ∀ x, covers c x → covers d x → c = d) ∧
    (∀ x, area s.code x ↔ inExtents s.traced x) := by
  have hinv : TraceInv s0 := ⟨by rw [h0]; trivial, by
    intro x; rw [h0, h1]
    constructor
    · intro h; exact absurd h (area_nil x)
    · rintro ⟨e, he, _⟩; cases he⟩
  have h := traceLoop_inv dis img lower fuel s0 hinv
  exact ⟨h.sep, sep_disjoint _ h.sep, h.exact⟩

/-- code and data areas: the data list is built by the same insertion from the vector cells, so it covers exactly those;
hence a reported code address is a reported data address iff a traced instruction overlaps a vector cell -/
theorem C15_areas_disjoint (code data : List Chunk) (traced vectors : List (Nat × Nat))
    (hc : ∀ x, area code x ↔ inExtents traced x) (hd : ∀ x, area data x ↔ inExtents vectors x) :
    (∀ x, ¬ (area code x ∧ area data x)) ↔ (∀ x, ¬ (inExtents traced x ∧ inExtents vectors x)) := by
  constructor
  · intro h x hx; exact h x ⟨(hc x).mpr hx.1, (hd x).mpr hx.2⟩
  · intro h x hx; exact h x ⟨(hc x).mp hx.1, (hd x).mp hx.2⟩

/-- the data list after `k` vector insertions covers exactly the inserted cells -/
theorem C15_data_exact (cells : List (Nat × Nat)) :
    ∀ x, area (cells.foldr (fun e l => addChunk l e.1 e.2) []) x ↔ ∃ e ∈ cells, e.1 ≤ x ∧ x < e.1 + e.2 := by
  induction cells with
  | nil => intro x; constructor
           · intro h; exact absurd h (area_nil x)
           · rintro ⟨e, he, _⟩; cases he
  | cons e es ih =>
    intro x
    simp only [List.foldr_cons]
    rw [area_addChunk, ih x]
    constructor
    · rintro (⟨e', he', hx⟩ | h)
      · exact ⟨e', List.mem_cons_of_mem _ he', hx⟩
      · exact ⟨e, List.mem_cons_self, h⟩
    · rintro ⟨e', he', hx⟩
      rcases List.mem_cons.mp he' with rfl | he'
      · exact Or.inr hx
      · exact Or.inl ⟨e', he', hx⟩

/-- a callback is honest on an image if every byte of an instruction it reports lies in the image -/
def Honest (dis : Disasm) (img : Image) (lower : Bool) : Prop :=
  ∀ syms a x, a ≤ x → x < a + (dis img lower syms a false (-1)).1.len → inImage img x

/-- the reported code areas lie inside the loaded image, for an honest callback -/
theorem C15_areas_inside (dis : Disasm) (img : Image) (lower : Bool) (fuel : Nat) (s0 : TState)
    (h0 : s0.code = []) (h1 : s0.traced = []) (hh : Honest dis img lower) :
    ∀ x, area (traceLoop dis img lower fuel s0).1.code x → inImage img x := by
  intro x hx
  have hA := (C15_areas dis img lower fuel s0 h0 h1).2.2 x
  have hF := traceLoop_from dis img lower fuel s0 (by rw [h1]; intro e he; cases he)
  obtain ⟨e, he, hx1, hx2⟩ := hA.mp hx
  obtain ⟨syms, hlen, _⟩ := hF e he
  exact hh syms e.1 x hx1 (by rw [hlen]; exact hx2)

/-! ## chunks.c `AddChunk` as written (unsorted array) against the interval-set insertion

`addChunkC` is the transcription of chunks.c: first-fit search from index 0, `SetChunk` into the slot found, then the
`do … while (Found)` scan **from index 1** that fuses every further element overlapping or touching `Chunks[f1]` and fills the
hole with the **last** element.  The normal form in which the array is compared is the one das.c itself uses before it prints:
`SortChunks` (`sortChunks`, ascending start address).  dasl (`UsedCodeChunks`, `UsedDataChunks`), p2bin/p2hex (`UsedList`, only
the overlap warning) and asl (`SegChunks`, section usage) all call this one function. -/

/-- **chunks.c refines the interval-set insertion**, for every insertion history (zero-length pieces, adjacent pieces, pieces
that bridge several ranges, any array order the swap-with-last removal has produced): `SortChunks` of the array `AddChunk` has
built is the sorted list of maximal ranges that `ins` builds from the same calls. -/
theorem C15_chunks_refine (xs : List (Nat × Nat)) :
    sortChunks (xs.foldl (fun l e => addChunkC l e.1 e.2) []) = xs.foldl (fun l e => addChunk l e.1 e.2) [] :=
  (refines_foldl xs [] [] Refines.nil).sort_eq

/-- one call, from any array that is in the state `AddChunk` leaves behind (`SepU`: non-empty ranges, no two overlapping or
touching, any order) and any sorted list describing the same set: the relation holds again afterwards -/
theorem C15_chunks_refine_step (lC lS : List Chunk) (s n : Nat) (h : Refines lC lS) :
    Refines (addChunkC lC s n) (addChunk lS s n) ∧ sortChunks (addChunkC lC s n) = addChunk lS s n :=
  ⟨h.add s n, (h.add s n).sort_eq⟩

/-- the array itself, without reference to `ins`: after any insertion history its ranges are non-empty, no two of them overlap
or touch (chunks.c `Overlap`), two of them that share an address are the same element, an address lies in one of them iff it
lies in an inserted piece, and `AddressInChunk` answers as on the interval-set list -/
theorem C15_chunks_array (xs : List (Nat × Nat)) :
    let l := xs.foldl (fun l e => addChunkC l e.1 e.2) []
    (∀ c ∈ l, 0 < c.len) ∧ l.Pairwise (fun c d => overlap c.start c.len d.start d.len = false) ∧
    (∀ c ∈ l, ∀ d ∈ l, ∀ x, covers c x → covers d x → c = d) ∧
    (∀ x, area l x ↔ inExtents xs x) ∧
    (∀ a, inChunks l a = inChunks (xs.foldl (fun l e => addChunk l e.1 e.2) []) a) := by
  intro l
  obtain ⟨h1, h2⟩ := foldl_addChunkC_spec xs [] sepU_nil
  refine ⟨h1.1, h1.2, h1.disjoint, fun x => ?_, (refines_foldl xs [] [] Refines.nil).inChunks_eq⟩
  rw [h2 x]
  exact ⟨fun h => h.elim (fun h => absurd h (area_nil x)) id, Or.inr⟩

/-- non-vacuity / the order effects: `(12,8)` is adjacent to `(10,2)` in slot 1, the scan then finds `(20,2)` in slot 2 and the
last element `(50,1)` moves into the hole – the array is *not* sorted, its `SortChunks` is the interval-set list; a zero-length
piece changes nothing; `(22,9)` bridges `[10,22)` and `[30,32)` -/
example : [(30, 2), (10, 2), (20, 2), (50, 1), (12, 8)].foldl (fun l e => addChunkC l e.1 e.2) [] =
    [⟨30, 2⟩, ⟨10, 12⟩, ⟨50, 1⟩] := by decide
example : [(30, 2), (10, 2), (20, 2), (50, 1), (12, 8)].foldl (fun l e => addChunk l e.1 e.2) [] =
    [⟨10, 12⟩, ⟨30, 2⟩, ⟨50, 1⟩] := by decide
example : [(30, 2), (10, 2), (20, 2), (50, 1), (12, 8), (16, 0), (22, 9)].foldl (fun l e => addChunkC l e.1 e.2) [] =
    [⟨10, 22⟩, ⟨50, 1⟩] := by decide
example : Refines [⟨30, 2⟩, ⟨10, 12⟩, ⟨50, 1⟩] [⟨10, 12⟩, ⟨30, 2⟩, ⟨50, 1⟩] :=
  refines_foldl [(30, 2), (10, 2), (20, 2), (50, 1), (12, 8)] [] [] Refines.nil

/-- **the machine**: a whole dasl run (any CPU callback, image, option list, number of rounds).  The arrays the run ends with,
put through `SortChunks`, are the interval-set lists built from the same calls, and the areas handed to the output iterator are
exactly these lists, code and data – this is the comparison the driver reports as `l1` on every run. -/
theorem C15_run_refine (dis : Disasm) (img : Image) (lower : Bool) (entries : List Entry) (fuel : Nat) :
    let r := runDasl dis img lower entries fuel
    sortChunks r.codeC = r.codeS ∧ sortChunks r.dataC = r.dataS ∧
    (r.areas.filter (fun p => !p.2)).map (·.1) = r.codeS ∧ (r.areas.filter (fun p => p.2)).map (·.1) = r.dataS := by
  intro r
  cases h0 : cmdEntries img lower {} entries with
  | none =>
    have hr : r = ⟨false, "", [], [], [], [], [], [], [], [], false⟩ := by
      show runDasl dis img lower entries fuel = _
      simp only [runDasl, h0]
    rw [hr]
    exact ⟨rfl, rfl, rfl, rfl⟩
  | some s0 =>
    have hinv := traceLoop_ref dis img lower fuel s0 (cmdEntries_ref img lower entries {} s0 refInv_init h0)
    generalize hs : (traceLoop dis img lower fuel s0).1 = s at hinv
    have e1 : r.codeC = s.codeC := by
      show (runDasl dis img lower entries fuel).codeC = _
      simp only [runDasl, h0, ← hs]
    have e2 : r.dataC = s.dataC := by
      show (runDasl dis img lower entries fuel).dataC = _
      simp only [runDasl, h0, ← hs]
    have e3 : r.codeS = s.code := by
      show (runDasl dis img lower entries fuel).codeS = _
      simp only [runDasl, h0, ← hs]
    have e4 : r.dataS = s.data := by
      show (runDasl dis img lower entries fuel).dataS = _
      simp only [runDasl, h0, ← hs]
    have e5 : r.areas = iterateChunks ((sortChunks s.codeC).length + (sortChunks s.dataC).length + 1)
        (sortChunks s.codeC) (sortChunks s.dataC) := by
      show (runDasl dis img lower entries fuel).areas = _
      simp only [runDasl, h0, ← hs]
    obtain ⟨p1, p2⟩ := iterateChunks_parts _ (sortChunks s.codeC) (sortChunks s.dataC) (Nat.lt_succ_self _)
    rw [e1, e2, e3, e4, e5, p1, p2]
    exact ⟨hinv.code.sort_eq, hinv.data.sort_eq, hinv.code.sort_eq, hinv.data.sort_eq⟩

/-- non-vacuity: a run of the 4004 callback on a four-byte image with a direct entry and a vector cell is accepted and ends
with one code range and one data range -/
example : let r := runDasl I4004.disassemble [⟨0, [0x40, 0x02, 0x00, 0x00]⟩] false [.vector 2 2 true none, .direct 0] 100
    r.ok = true ∧ r.codeC ≠ [] ∧ r.dataC = [⟨2, 2⟩] := by decide +kernel

/-- `C15_areas` for the array the machine carries (`UsedCodeChunks` as chunks.c keeps it, no ghost list involved): after any
number of rounds its ranges are non-empty and pairwise neither overlapping nor touching, no address lies in two of them, an
address is in the array iff it lies in the extent of a traced instruction, and what `SortChunks` hands to the output is the
sorted/separated list with the same property -/
theorem C15_areas_C (dis : Disasm) (img : Image) (lower : Bool) (fuel : Nat) (s0 : TState)
    (h0 : s0.codeC = []) (h1 : s0.traced = []) :
    let s := (traceLoop dis img lower fuel s0).1
    SepU s.codeC ∧
    (∀ c ∈ s.codeC, ∀ d ∈ s.codeC, ∀ x, covers c x → covers d x → c = d) ∧
    (∀ x, area s.codeC x ↔ inExtents s.traced x) ∧
    Sep (sortChunks s.codeC) ∧
    (∀ x, area (sortChunks s.codeC) x ↔ inExtents s.traced x) := by
  have hinv : TraceInvC s0 := ⟨by rw [h0]; exact sepU_nil, by
    intro x; rw [h0, h1]
    constructor
    · intro h; exact absurd h (area_nil x)
    · rintro ⟨e, he, _⟩; cases he⟩
  have h := traceLoop_invC dis img lower fuel s0 hinv
  obtain ⟨q1, _, q3⟩ := sortChunks_sep _ h.sep
  exact ⟨h.sep, h.sep.disjoint, h.exact, q1, fun x => (q3 x).trans (h.exact x)⟩

/-- non-vacuity: the initial state of `runDasl` satisfies the hypotheses, and three rounds of the 4004 callback from entry 0 over
`jun 4 / nop nop / jun 0` leave two separate ranges in the array (first-fit: the later range is appended) -/
example : ({} : TState).codeC = [] ∧ ({} : TState).code = [] ∧ ({} : TState).traced = [] := ⟨rfl, rfl, rfl⟩
example : (traceLoop I4004.disassemble [⟨0, [0x40, 0x04, 0x00, 0x00, 0x40, 0x00]⟩] false 3 { queue := [0] }).1.codeC =
    [⟨0, 2⟩, ⟨4, 2⟩] := by decide +kernel

/-- …and the array is, up to `SortChunks`, the interval-set list of `C15_areas`; `AddressInChunk` (which decides what enters the
entry queue) answers the same on both -/
theorem C15_trace_refine (dis : Disasm) (img : Image) (lower : Bool) (fuel : Nat) (s0 : TState)
    (h0 : s0.code = []) (h0c : s0.codeC = []) :
    let s := (traceLoop dis img lower fuel s0).1
    sortChunks s.codeC = s.code ∧ (∀ x, area s.codeC x ↔ area s.code x) ∧ (∀ a, inChunks s.codeC a = inChunks s.code a) ∧
    sortChunks s.dataC = sortChunks s0.dataC ∧ s.data = s0.data := by
  intro s
  -- the data lists are not touched by the loop
  have hd : ∀ (fuel : Nat) (t : TState), (traceLoop dis img lower fuel t).1.dataC = t.dataC ∧
      (traceLoop dis img lower fuel t).1.data = t.data := by
    intro fuel
    induction fuel with
    | zero => intro t; exact ⟨rfl, rfl⟩
    | succ n ih =>
      intro t
      unfold traceLoop
      split
      · exact ⟨rfl, rfl⟩
      · rename_i a q _
        exact ⟨(ih _).1.trans rfl, (ih _).2.trans rfl⟩
  -- the code part of the relation
  have hc : ∀ (fuel : Nat) (t : TState), Refines t.codeC t.code → Refines (traceLoop dis img lower fuel t).1.codeC
      (traceLoop dis img lower fuel t).1.code := by
    intro fuel
    induction fuel with
    | zero => intro t h; exact h
    | succ n ih =>
      intro t h
      unfold traceLoop
      split
      · exact h
      · exact ih _ (h.add _ _)
  have h := hc fuel s0 (by rw [h0, h0c]; exact Refines.nil)
  exact ⟨h.sort_eq, h.same, h.inChunks_eq, by rw [(hd fuel s0).1], (hd fuel s0).2⟩

/-- the data array after the vector options (`CMD_EntryAddress` calls `AddChunk(&UsedDataChunks, …)` once per vector, last option
first in this fold): separated, covers exactly the vector cells, and `SortChunks` of it is the list of `C15_data_exact` -/
theorem C15_data_exact_C (cells : List (Nat × Nat)) :
    let l := cells.foldr (fun e l => addChunkC l e.1 e.2) []
    SepU l ∧ (∀ x, area l x ↔ ∃ e ∈ cells, e.1 ≤ x ∧ x < e.1 + e.2) ∧
    sortChunks l = cells.foldr (fun e l => addChunk l e.1 e.2) [] := by
  intro l
  have h := refines_foldr cells
  refine ⟨h.sepC, fun x => ?_, h.sort_eq⟩
  exact (h.same x).trans (C15_data_exact cells x)

example : [(0x20, 2), (0x10, 2), (0x22, 2)].foldr (fun e l => addChunkC l e.1 e.2) [] = [⟨0x20, 4⟩, ⟨0x10, 2⟩] := by decide

/-- the code ranges of the array lie inside the loaded image, for an honest callback -/
theorem C15_areas_inside_C (dis : Disasm) (img : Image) (lower : Bool) (fuel : Nat) (s0 : TState)
    (h0 : s0.codeC = []) (h1 : s0.traced = []) (hh : Honest dis img lower) :
    ∀ x, area (traceLoop dis img lower fuel s0).1.codeC x → inImage img x := by
  intro x hx
  have hA := (C15_areas_C dis img lower fuel s0 h0 h1).2.2.1 x
  have hF := traceLoop_from dis img lower fuel s0 (by rw [h1]; intro e he; cases he)
  obtain ⟨e, he, hx1, hx2⟩ := hA.mp hx
  obtain ⟨syms, hlen, _⟩ := hF e he
  exact hh syms e.1 x hx1 (by rw [hlen]; exact hx2)

/-- a decoded 4004 instruction is one or two bytes long, one unless the table type takes an operand byte -/
theorem C15_4004_len_le (a op d : Nat) (dec : I4004.Dec) (h : I4004.decode a op d = some dec) :
    (dec.len = 1 ∨ dec.len = 2) ∧ (I4004.needsData (I4004.row op).typ = false → dec.len = 1) := by
  have h1 := (C15_4004_length a op d dec h).1
  have h2 := (C15_4004_length a op d dec h).2.1
  unfold I4004.imageBytes at h1
  constructor
  · split at h1 <;> simp at h1 <;> omega
  · intro hn
    split at h1
    · assumption
    · simp at h1
      have := h2.mp h1
      rw [hn] at this; cases this

/-- `Disassemble_4004` reports only bytes it fetched from the image (every `RetrieveData` call is for one byte) -/
theorem C15_4004_honest (img : Image) (lower : Bool) : Honest I4004.disassemble img lower := by
  intro syms a x hx1 hx2
  unfold I4004.disassemble at hx2
  simp only [Bool.false_eq_true, ↓reduceIte] at hx2
  cases hf : I4004.fetch img lower a with
  | mk o e =>
    cases o with
    | none => simp [hf] at hx2; omega
    | some op =>
      have ha := fetch_inImage img lower a op e hf
      simp only [hf] at hx2
      split at hx2
      · -- unknown opcode: data line of length 1 (DataSize = -1)
        simp at hx2
        have : x = a := by omega
        rw [this]; exact ha
      · split at hx2
        · cases hf2 : I4004.fetch img lower (a + 1) with
          | mk o2 e2 =>
            cases o2 with
            | none => simp [hf2] at hx2; omega
            | some d =>
              have hb := fetch_inImage img lower (a + 1) d e2 hf2
              simp only [hf2] at hx2
              split at hx2
              · simp at hx2; omega
              · rename_i dec hdec
                have hl := (C15_4004_len_le a op d dec hdec).1
                simp at hx2
                have : x = a ∨ x = a + 1 := by omega
                rcases this with rfl | rfl
                · exact ha
                · exact hb
        · rename_i hnd
          split at hx2
          · simp at hx2; omega
          · rename_i dec hdec
            have hl := (C15_4004_len_le a op 0 dec hdec).2 (by simpa using hnd)
            simp at hx2
            have : x = a := by omega
            rw [this]; exact ha


/-- for the 4004 the reported code areas lie inside the loaded image – no side condition -/
theorem C15_4004_areas_inside (img : Image) (lower : Bool) (fuel : Nat) (s0 : TState) (h0 : s0.code = []) (h1 : s0.traced = []) :
    ∀ x, area (traceLoop I4004.disassemble img lower fuel s0).1.code x → inImage img x :=
  C15_areas_inside I4004.disassemble img lower fuel s0 h0 h1 (C15_4004_honest img lower)

/-- …the same for the array `UsedCodeChunks` the machine carries -/
theorem C15_4004_areas_inside_C (img : Image) (lower : Bool) (fuel : Nat) (s0 : TState) (h0 : s0.codeC = []) (h1 : s0.traced = []) :
    ∀ x, area (traceLoop I4004.disassemble img lower fuel s0).1.codeC x → inImage img x :=
  C15_areas_inside_C I4004.disassemble img lower fuel s0 h0 h1 (C15_4004_honest img lower)

/-- non-vacuity of `Sep`/`area`: inserting a piece that touches two ranges fuses all three -/
example : ins 12 4 [⟨10, 2⟩, ⟨16, 3⟩, ⟨40, 1⟩] = [⟨10, 9⟩, ⟨40, 1⟩] := by decide
example : Sep [⟨10, 9⟩, ⟨40, 1⟩] := by simp [Sep]

end AslModel.Dis
