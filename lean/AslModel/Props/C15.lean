import AslModel.Lemmas.Dis4004
import AslModel.Lemmas.DisChunks
/-! C15 – disassembling and re-assembling reproduces the original bytes.

What is proved here (models: `Model/Dis/Core.lean` = das.c/chunks.c/entryaddress.c/codechunks.c, `Model/Dis/I4004.lean` =
deco4004.c + an encoder from code4004.c; both opcode tables regenerated from the C sources):
* `C15_4004_roundtrip` – every byte pair the 4004 disassembler decodes as an instruction is reproduced by the assembler-side
  decoder registered for the printed mnemonic, applied to the printed operands (structured: register, pair, number, label value).
* `C15_4004_length`, `C15_4004_fallthrough` – length = number of image bytes, successor computation.
* `C15_areas` – for *any* CPU callback: the code areas the tracing loop ends with are sorted, pairwise separated and cover exactly
  the extents of the traced instructions; `C15_areas_disjoint` – code and data areas share no address iff no traced
  instruction touches a vector cell; `C15_areas_inside` – inside the image for callbacks that only report bytes they fetched.
Not proved here (tested against the real tools every run): text parsing and label resolution by asl for the 4004.
The 6800/6802 theorems (round trip on the printed text without excluded inputs, length, `Honest`, table facts) are in `Props/C15_6800.lean`.

`C15_4004_roundtrip` is the full-strength statement: since the repair of `DecodeISZ` (page of PC+2, as deco4004.c computes it) no
address is excluded; `C15_4004_isz_page_end` is the former counterexample.  `C15_4004_jcn_forward_label`: the first pass, in which
the label dasl printed as JCN target is still a forward reference, emits the same two bytes' worth of code (repair of `DecodeJCN`). -/
namespace AslModel.Dis
open AslModel.Generated

/-- bytes the instruction occupies in the image: opcode, then the operand byte for the two-byte forms -/
def I4004.imageBytes (dec : I4004.Dec) (op d : Nat) : List Nat := if dec.len = 1 then [op] else [op, d]

theorem C15_4004_roundtrip (a op d : Nat) (dec : I4004.Dec) (hop : op < 256) (hd : d < 256) (ha : a + 2 < 4096)
    (h : I4004.decode a op d = some dec) :
    I4004.encode 1 a dec.memo dec.args = some (I4004.imageBytes dec op d) := by
  have ht := I4004.table_ok op hop
  unfold I4004.tableOK at ht
  unfold I4004.decode at h
  generalize hr : I4004.row op = r at *
  cases hty : r.typ <;> simp only [hty] at h ht
  case eUnknown => simp at h
  all_goals
    cases hx : I4004.asmRow r.memo with
    | none => simp [hx] at ht
    | some x =>
      simp only [hx] at ht
      simp only [Option.some.injEq] at h
      subst h
      simp only [I4004.encode, I4004.encodeF, hx, I4004.imageBytes]
      simp only [Bool.and_eq_true, Bool.or_eq_true, beq_iff_eq, decide_eq_true_eq] at ht
      first
        | (obtain ⟨⟨hk, h1⟩, h2⟩ := ht
           simp only [hk]
           simp
           omega)
        | (obtain ⟨hk | hk, h1⟩ := ht <;>
           (simp only [hk]
            simp
            omega))
        | (obtain ⟨hk, h1⟩ := ht
           simp only [hk, I4004.hi]
           simp
           omega)

/-- non-vacuity: `jcn tz,lab_0105` at 0x1FD (bytes 15 05, PC+2 in page 1) satisfies the hypotheses and is a two-byte instruction -/
example : ∃ dec, I4004.decode 0x0fd 0x15 0x05 = some dec ∧ dec.len = 2 ∧ dec.args = [.cond 5, .addr 0x005] := ⟨_, rfl, rfl, rfl⟩
example : ∃ dec, I4004.decode 0x0fe 0x15 0x05 = some dec ∧ dec.args = [.cond 5, .addr 0x105] := ⟨_, rfl, rfl⟩
example : I4004.encode 1 0x0fe ['j', 'c', 'n'] [.cond 5, .addr 0x105] = some [0x15, 0x05] := by decide +kernel

/-- the former exclusion (ISZ at xFE, known finding `isz-page-boundary-4004`, repaired): `isz r5,…` at 0x1FE with operand byte F0
decodes to the target 0x2F0 (page of Address+2) and the assembler-side decoder, which now judges the page of PC+2 as well, gives
the two bytes back; the target in the page of PC+1 is the one that is rejected -/
theorem C15_4004_isz_page_end :
    ∃ dec, I4004.decode 0x1fe 0x75 0xf0 = some dec ∧ dec.args = [.reg 5, .addr 0x2f0] ∧
      I4004.encode 1 0x1fe dec.memo dec.args = some [0x75, 0xf0] ∧
      I4004.encode 1 0x1fe dec.memo [.reg 5, .addr 0x1f0] = none :=
  ⟨_, rfl, rfl, by decide +kernel, by decide +kernel⟩

/-- A JCN whose target dasl prints as a label defined further down (a forward reference for asl): in the first pass the label has the
value of the program counter and the first-pass-unknown flag; `DecodeJCN` does not judge the page of such a value (repair of the known
finding `jcn-forward-label-page-end-4004`: at xFE/xFF the program counter lies in the page before the valid targets), so the first pass
lays two bytes whatever the placeholder is, and the final pass – target `v` in the page of PC+2 – lays `1c vv`.  Without the flag
the placeholder value is rejected exactly at the page end. -/
theorem C15_4004_jcn_forward_label (pc m v p : Nat) (hm : m < 16) (hv : v < 4096) (hp : p < 4096)
    (hpage : (pc + 2) / 256 % 256 = v / 256 % 256) :
    I4004.encodeF true 1 pc ['j', 'c', 'n'] [.cond m, .addr p] = some [16 + m, p % 256] ∧
    I4004.encode 1 pc ['j', 'c', 'n'] [.cond m, .addr v] = some [16 + m, v % 256] ∧
    (pc < 4094 → 254 ≤ pc % 256 → I4004.encodeF false 1 pc ['j', 'c', 'n'] [.cond m, .addr pc] = none) := by
  have hr : I4004.asmRow ['j', 'c', 'n'] = some ⟨['J', 'C', 'N'], 0, 0, .jcn⟩ := by decide +kernel
  refine ⟨?_, ?_, ?_⟩
  · simp [I4004.encodeF, hr, hm, hp]
  · simp [I4004.encode, I4004.encodeF, hr, hm, hv, I4004.hi, hpage]
  · intro h1 h2
    have : ¬ ((pc + 2) / 256 % 256 = pc / 256 % 256) := by omega
    simp [I4004.encodeF, hr, I4004.hi, this]

/-- non-vacuity: `jcn tz,L0300` at 0x2FE (the witness of the former finding): pass 1 with the placeholder 0x2FE, final pass 15 00 -/
example : I4004.encodeF true 1 0x2fe ['j', 'c', 'n'] [.cond 5, .addr 0x2fe] = some [0x15, 0xfe] ∧
    I4004.encode 1 0x2fe ['j', 'c', 'n'] [.cond 5, .addr 0x300] = some [0x15, 0x00] := by decide +kernel

/-- length of a decoded instruction = number of image bytes it stands for = 1 or 2, two exactly for the operand forms;
the successors are the operand address and the fall-through address -/
theorem C15_4004_length (a op d : Nat) (dec : I4004.Dec) (h : I4004.decode a op d = some dec) :
    dec.len = (I4004.imageBytes dec op d).length ∧ (dec.len = 2 ↔ I4004.needsData (I4004.row op).typ = true) ∧
    dec.next = (I4004.row op).next ∧
    ∀ n ∈ I4004.nexts dec.next dec.opAddr a dec.len, n = dec.opAddr ∨ n = (a + dec.len) % 0xfff := by
  unfold I4004.decode at h
  generalize I4004.row op = r at *
  refine ⟨?_, ?_, ?_, ?_⟩
  · cases hty : r.typ <;> simp only [hty] at h <;> first | (simp only [Option.some.injEq] at h; subst h; simp [I4004.imageBytes]) | (simp at h)
  · cases hty : r.typ <;> simp only [hty] at h <;> first | (simp only [Option.some.injEq] at h; subst h; simp [I4004.needsData]) | (simp at h)
  · cases hty : r.typ <;> simp only [hty] at h <;> first | (simp only [Option.some.injEq] at h; subst h; rfl) | (simp at h)
  · intro n hn
    unfold I4004.nexts at hn
    rcases List.mem_append.mp hn with h1 | h1
    · split at h1
      · exact Or.inl (List.mem_singleton.mp h1)
      · cases h1
    · split at h1
      · exact Or.inr (List.mem_singleton.mp h1)
      · cases h1

/-- the C code reduces the fall-through address with `% 0xfff`; below that bound it is the next address -/
theorem C15_4004_fallthrough (a len : Nat) (h : a + len < 0xfff) : (a + len) % 0xfff = a + len := Nat.mod_eq_of_lt h

/-- …and at the top of the address space it is not (the byte at 0xFFF is never reached by falling through) -/
theorem C15_finding_4004_fallthrough_wrap : (0xffe + 1) % 0xfff = 0 ∧ (0xffe + 1 : Nat) ≠ 0 := by decide

/-- chunk-list invariant of the tracing loop, for any CPU callback, any image, any entry queue, any number of rounds:
the code list stays sorted with a gap between neighbours, no two of its ranges share an address, and an address is
reported as code iff it lies in the extent `[Address, Address+CodeLen)` of a traced instruction (nothing lost, nothing invented) -/
theorem C15_areas (dis : Disasm) (img : Image) (lower : Bool) (fuel : Nat) (s0 : TState)
    (h0 : s0.code = []) (h1 : s0.traced = []) :
    let s := (traceLoop dis img lower fuel s0).1
    Sep s.code ∧
    (∀ c ∈ s.code, ∀ d ∈ s.code, ∀ x, covers c x → covers d x → c = d) ∧
    (∀ x, area s.code x ↔ inExtents s.traced x) := by
  have hinv : TraceInv s0 := ⟨by rw [h0]; trivial, by
    intro x; rw [h0, h1]
    constructor
    · intro h; exact absurd h (area_nil x)
    · rintro ⟨e, he, _⟩; cases he⟩
  have h := traceLoop_inv dis img lower fuel s0 hinv
  exact ⟨h.sep, sep_disjoint _ h.sep, h.exact⟩

/-- code and data areas: the data list is built by the same insertion from the vector cells, so it covers exactly those;
hence a reported code address is a reported data address iff a traced instruction overlaps a vector cell -/
theorem C15_areas_disjoint (code data : List Chunk) (traced vectors : List (Nat × Nat))
    (hc : ∀ x, area code x ↔ inExtents traced x) (hd : ∀ x, area data x ↔ inExtents vectors x) :
    (∀ x, ¬ (area code x ∧ area data x)) ↔ (∀ x, ¬ (inExtents traced x ∧ inExtents vectors x)) := by
  constructor
  · intro h x hx; exact h x ⟨(hc x).mpr hx.1, (hd x).mpr hx.2⟩
  · intro h x hx; exact h x ⟨(hc x).mp hx.1, (hd x).mp hx.2⟩

/-- the data list after `k` vector insertions covers exactly the inserted cells -/
theorem C15_data_exact (cells : List (Nat × Nat)) :
    ∀ x, area (cells.foldr (fun e l => addChunk l e.1 e.2) []) x ↔ ∃ e ∈ cells, e.1 ≤ x ∧ x < e.1 + e.2 := by
  induction cells with
  | nil => intro x; constructor
           · intro h; exact absurd h (area_nil x)
           · rintro ⟨e, he, _⟩; cases he
  | cons e es ih =>
    intro x
    simp only [List.foldr_cons]
    rw [area_addChunk, ih x]
    constructor
    · rintro (⟨e', he', hx⟩ | h)
      · exact ⟨e', List.mem_cons_of_mem _ he', hx⟩
      · exact ⟨e, List.mem_cons_self, h⟩
    · rintro ⟨e', he', hx⟩
      rcases List.mem_cons.mp he' with rfl | he'
      · exact Or.inr hx
      · exact Or.inl ⟨e', he', hx⟩

/-- a callback is honest on an image if every byte of an instruction it reports lies in the image -/
def Honest (dis : Disasm) (img : Image) (lower : Bool) : Prop :=
  ∀ syms a x, a ≤ x → x < a + (dis img lower syms a false (-1)).1.len → inImage img x

/-- the reported code areas lie inside the loaded image, for an honest callback -/
theorem C15_areas_inside (dis : Disasm) (img : Image) (lower : Bool) (fuel : Nat) (s0 : TState)
    (h0 : s0.code = []) (h1 : s0.traced = []) (hh : Honest dis img lower) :
    ∀ x, area (traceLoop dis img lower fuel s0).1.code x → inImage img x := by
  intro x hx
  have hA := (C15_areas dis img lower fuel s0 h0 h1).2.2 x
  have hF := traceLoop_from dis img lower fuel s0 (by rw [h1]; intro e he; cases he)
  obtain ⟨e, he, hx1, hx2⟩ := hA.mp hx
  obtain ⟨syms, hlen, _⟩ := hF e he
  exact hh syms e.1 x hx1 (by rw [hlen]; exact hx2)

/-- a decoded 4004 instruction is one or two bytes long, one unless the table type takes an operand byte -/
theorem C15_4004_len_le (a op d : Nat) (dec : I4004.Dec) (h : I4004.decode a op d = some dec) :
    (dec.len = 1 ∨ dec.len = 2) ∧ (I4004.needsData (I4004.row op).typ = false → dec.len = 1) := by
  have h1 := (C15_4004_length a op d dec h).1
  have h2 := (C15_4004_length a op d dec h).2.1
  unfold I4004.imageBytes at h1
  constructor
  · split at h1 <;> simp at h1 <;> omega
  · intro hn
    split at h1
    · assumption
    · simp at h1
      have := h2.mp h1
      rw [hn] at this; cases this

/-- `Disassemble_4004` reports only bytes it fetched from the image (every `RetrieveData` call is for one byte) -/
theorem C15_4004_honest (img : Image) (lower : Bool) : Honest I4004.disassemble img lower := by
  intro syms a x hx1 hx2
  unfold I4004.disassemble at hx2
  simp only [Bool.false_eq_true, ↓reduceIte] at hx2
  cases hf : I4004.fetch img lower a with
  | mk o e =>
    cases o with
    | none => simp [hf] at hx2; omega
    | some op =>
      have ha := fetch_inImage img lower a op e hf
      simp only [hf] at hx2
      split at hx2
      · -- unknown opcode: data line of length 1 (DataSize = -1)
        simp at hx2
        have : x = a := by omega
        rw [this]; exact ha
      · split at hx2
        · cases hf2 : I4004.fetch img lower (a + 1) with
          | mk o2 e2 =>
            cases o2 with
            | none => simp [hf2] at hx2; omega
            | some d =>
              have hb := fetch_inImage img lower (a + 1) d e2 hf2
              simp only [hf2] at hx2
              split at hx2
              · simp at hx2; omega
              · rename_i dec hdec
                have hl := (C15_4004_len_le a op d dec hdec).1
                simp at hx2
                have : x = a ∨ x = a + 1 := by omega
                rcases this with rfl | rfl
                · exact ha
                · exact hb
        · rename_i hnd
          split at hx2
          · simp at hx2; omega
          · rename_i dec hdec
            have hl := (C15_4004_len_le a op 0 dec hdec).2 (by simpa using hnd)
            simp at hx2
            have : x = a := by omega
            rw [this]; exact ha


/-- for the 4004 the reported code areas lie inside the loaded image – no side condition -/
theorem C15_4004_areas_inside (img : Image) (lower : Bool) (fuel : Nat) (s0 : TState) (h0 : s0.code = []) (h1 : s0.traced = []) :
    ∀ x, area (traceLoop I4004.disassemble img lower fuel s0).1.code x → inImage img x :=
  C15_areas_inside I4004.disassemble img lower fuel s0 h0 h1 (C15_4004_honest img lower)

/-- non-vacuity of `Sep`/`area`: inserting a piece that touches two ranges fuses all three -/
example : ins 12 4 [⟨10, 2⟩, ⟨16, 3⟩, ⟨40, 1⟩] = [⟨10, 9⟩, ⟨40, 1⟩] := by decide
example : Sep [⟨10, 9⟩, ⟨40, 1⟩] := by simp [Sep]

end AslModel.Dis
