import AslModel.Lemmas.IsaAvr
/-!
# C14 — machine instructions encode as the target's instruction set defines: Atmel AVR

MODEL = the decode handlers of codeavr.c (`Model/Isa/IAvr.lean`) over the `InstTable`, `CPUProps[]`, register masks,
operand types and core gates regenerated from the current build (`Generated/Isa_Avr.lean`); default `CODESEGSIZE=1`.
SPEC = Atmel's opcode map as a decoder plus the legality predicate of source statements (`Spec/Isa/IAvr.lean`).

The theorems quantify over **all** mnemonics of the SPEC, all operand values (`Int`), every program counter of the
device, `WRAPMODE` on and off, and every pair (row of `CPUProps[]`, SPEC device) that `compat` relates - in particular
the seven devices the check assembles for (`C14_avr_table`).

Two deviations of the real code are recorded as findings and excluded by hypotheses:
* `pbitTrunc` - `CBI/SBI/SBIC/SBIS` with an address ≥ 65536 inside the data space (assembled modulo 65536; no device has one),
* the instructions the manual marks "not available in all devices" (`JMP/CALL/ELPM/EIJMP/EICALL`), which codeavr.c gates
  by core class only: `C14_avr_range` asks for the two gates to agree (`hsize`), which they do on five of the seven devices.
-/
namespace AslModel.C14
open AslModel.PFile (Byte b b_toNat)
open AslModel.Isa AslModel.Isa.IAvr
open AslModel.Spec.IAvr AslModel.Generated.IsaAvr

/-- the `CPUProps[]` row and the SPEC device of CPU index `i` (device + 8·WRAPMODE) -/
def avrDevice (i : Nat) : Option (Props × Cpu) :=
  match (devices[i % 8]?).bind (fun d => propsOf d.1), cpuOf i with
  | some p, some c => some (p, c)
  | _, _ => none

/-- **Table obligations.**  (1) Every mnemonic of the SPEC has an entry in the `InstTable` of the current InitFields()
whose handler has the operand scheme of the mnemonic's form (register masks = the manual's register classes, `IntType`
ranges = the manual's constant ranges), whose core gate is the SPEC's availability on every core, and whose opcode
word the SPEC's opcode map decodes back to the canonical mnemonic and the operand values - for **every** tuple of
register numbers / constants / displacement fields the handler can compose.  (2) For each device of the check the
`CPUProps[]` row of that name describes the SPEC device: core, program memory size = `2^pcBits` words, and the types
`SwitchTo_AVR` derives for code and data addresses cover exactly these sizes. -/
theorem C14_avr_table :
    (∀ m : Mn, ∃ h, IAvr.lookup m = some h ∧ IAvr.Good m h = true) ∧
    ((List.range 7).all fun i => [i, i + 8].all fun j =>
      match avrDevice j with
      | some (p, c) => compat p c && (c.wrap == decide (j ≥ 8))
      | none => false) = true :=
  ⟨IAvr.lookup_good, by decide⟩

example : (avrDevice 1).map (fun pc => (pc.1.name, pc.2)) = some ("AT90S8515", ⟨1, 12, false⟩) := by decide
example : (avrDevice 14).map (fun pc => (pc.1.name, pc.2)) = some ("ATMEGA2560", ⟨3, 17, true⟩) := by decide

/-- **Soundness.**  Whenever the code generator emits bytes for a statement, Atmel's opcode map decodes exactly these
bytes - and all of them - to the instruction the statement denotes: canonical mnemonic (aliases resolved), register
numbers, constants as stored (two's complement), pointer modes, displacements of `LDD/STD`, the 16/22-bit address of the
two-word instructions, and for the relative branches the *target address* the hardware computes from the displacement
field (`PC ← PC + k + 1` in a program counter of the device's width). -/
theorem C14_avr_sound (x : Ctx) (c : Cpu) (hc : compat x.p c = true) (hw : x.wrap = c.wrap) (s : Src) (bs : List Byte)
    (hside : ¬ pbitTrunc x.p s) (h : IAvr.encode x s = .ok bs) : decode c x.pc bs = some (meaning s, bs.length) := by
  obtain ⟨hd, hl, hg⟩ := IAvr.lookup_good s.mn
  unfold IAvr.encode at h
  rw [hl] at h
  simp only at h
  have hs : s = ⟨s.mn, s.args⟩ := rfl
  rw [hs]
  cases hd with
  | rel code => exact rel_sound s.mn code hg x c hc hw s.args bs h
  | brbsbc idx => exact brb_sound s.mn idx hg x c hc hw s.args bs h
  | rjmpcall idx => exact rjmp_sound s.mn idx hg x c hc hw s.args bs h
  | jmpcall idx => exact jmp_sound s.mn idx hg x c hc s.args bs h
  | ldssts idx => exact lds_sound s.mn idx hg x c hc s.args bs h
  | pbit code => exact pbit_sound s.mn code hg x c hc s.args hside bs h
  | _ => refine plain_sound s.mn _ ?_ x c hc s.args bs h; exact hg

/-- **Range.**  A statement is assembled iff the SPEC calls it legal: operand count, every register inside its class
(`r16..r31` for the immediates, `r24/26/28/30` for `ADIW/SBIW`, `r16..r23` for the fractional multiplications, even
registers for `MOVW`), constants inside their fields (`-128..255`, `0..63`, `0..31`, `0..7`, `0..65535`), pointer modes
the instruction has (`Z` only on the AT90S1200, `Z`/`Z+` for `LPM/ELPM`), the instruction exists on the device's core, code
addresses inside the program memory, and the relative branches reach their target (`±64` / `±2048` words, plain distance
or - `WRAPMODE ON` - around the program memory).  One past any limit is rejected, never truncated. -/
theorem C14_avr_range (x : Ctx) (c : Cpu) (hc : compat x.p c = true) (hw : x.wrap = c.wrap) (hpc : (x.pc : Int) < 2 ^ c.pcBits)
    (s : Src) (hside : ¬ pbitTrunc x.p s) (hsize : minPcBits s.mn ≠ 0 → avail c s.mn s.args = sizeGateModel x.p s.mn) :
    legal c x.pc s = true ↔ isOk (IAvr.encode x s) = true := by
  obtain ⟨hd, hl, hg⟩ := IAvr.lookup_good s.mn
  unfold IAvr.encode
  rw [hl]
  simp only
  have hs : s = ⟨s.mn, s.args⟩ := rfl
  rw [hs]
  suffices hh : isOk (dispatch x hd s.args) = legal c x.pc ⟨s.mn, s.args⟩ by rw [hh]
  cases hd with
  | rel code => exact rel_ok s.mn code hg x c hc hw hpc s.args
  | brbsbc idx => exact brb_ok s.mn idx hg x c hc hw hpc s.args
  | rjmpcall idx => exact rjmp_ok s.mn idx hg x c hc hw hpc s.args
  | jmpcall idx =>
    have hne : minPcBits s.mn ≠ 0 := by
      simp only [Good, goodJmp, Bool.and_eq_true, Bool.or_eq_true, beq_iff_eq] at hg
      rcases hg.1.2 with h | h <;> rw [h] <;> decide
    exact jmp_ok s.mn idx hl hg x c hc s.args (hsize hne)
  | ldssts idx => exact lds_ok s.mn idx hg x c hc s.args
  | pbit code => exact pbit_ok s.mn code hg x c hc s.args hside
  | ldst idx => refine ldst_ok s.mn idx ?_ x c hc s.args; exact hg
  | lpm idx =>
    have hm : s.mn = .LPM := by
      simp only [Good, goodPlain, handlerMn, Bool.and_eq_true, beq_iff_eq] at hg
      exact hg.1.1
    refine lpm_ok s.mn _ hl (Or.inl ⟨hm, idx, rfl⟩) ?_ x c hc s.args hsize; exact hg
  | elpm idx =>
    have hm : s.mn = .ELPM := by
      simp only [Good, goodPlain, handlerMn, Bool.and_eq_true, beq_iff_eq] at hg
      exact hg.1.1
    refine lpm_ok s.mn _ hl (Or.inr ⟨hm, idx, rfl⟩) ?_ x c hc s.args hsize; exact hg
  | _ => refine plain_ok s.mn _ hl rfl ?_ x c hc s.args hsize; exact hg

/-- **PC-relative fields.**  For the conditional branches and `RJMP/RCALL` an accepted statement's target operand `t` is a word
address of the program memory that the branch reaches, and the opcode map - which forms the target from the stored
displacement as `(pc + 1 + k) mod 2^pcBits` - gives back exactly `t` as the branch target. -/
theorem C14_avr_rel (x : Ctx) (c : Cpu) (hc : compat x.p c = true) (hw : x.wrap = c.wrap) (hpc : (x.pc : Int) < 2 ^ c.pcBits)
    (s : Src) (bits : Nat) (hrel : (form s.mn).opds = [.rel bits] ∨ (form s.mn).opds = [.imm 0 7 3, .rel bits])
    (bs : List Byte) (h : IAvr.encode x s = .ok bs) :
    ∃ t, s.args.getLast? = some t ∧ 0 ≤ t ∧ t < 2 ^ c.pcBits ∧ reach c x.pc bits t = true ∧
      ∃ i n, decode c x.pc bs = some (i, n) ∧ i.args.getLast? = some t.toNat := by
  have hside : ¬ pbitTrunc x.p s := by
    intro hp
    rcases hrel with hr | hr <;> rw [hp.1] at hr <;> simp at hr
  obtain ⟨mn, args⟩ := s
  simp only at hrel hside h ⊢
  have hsnd := C14_avr_sound x c hc hw ⟨mn, args⟩ bs hside h
  have hsize : minPcBits mn ≠ 0 → avail c mn args = sizeGateModel x.p mn := by
    intro hne; exfalso; apply hne
    cases mn <;> simp [form, fNone, fReg, fRegHi, fRR, fRRHi, fRRMid, fRREven, fImm8, fAdiw, fLd, fSt, fLdd, fStd, fLds, fSts, fIn, fOut,
      fLpm, fBit3, fRegBit, fIoBit, fAbs] at hrel <;> rfl
  have hleg : legal c x.pc ⟨mn, args⟩ = true := by
    rw [C14_avr_range x c hc hw hpc ⟨mn, args⟩ hside hsize, h]; rfl
  refine ?_
  rcases hrel with hr | hr
  · -- one operand: the target
    have hbare : (form mn).bare = false := by
      cases mn <;> simp [form, fNone, fReg, fRegHi, fRR, fRRHi, fRRMid, fRREven, fImm8, fAdiw, fLd, fSt, fLdd, fStd, fLds, fSts, fIn, fOut,
        fLpm, fBit3, fRegBit, fIoBit, fAbs, fBrb] at hr <;> rfl
    simp only [legal, hr, hbare, Bool.false_and, Bool.false_or, List.isEmpty_cons, Bool.not_false, Bool.true_and, Bool.and_eq_true] at hleg
    rcases args with _ | ⟨t, _ | ⟨t2, r⟩⟩
    · simp [acceptsAll] at hleg
    · simp only [acceptsAll, Bool.and_true, Opd.accepts, Bool.and_eq_true, decide_eq_true_eq] at hleg
      refine ⟨t, rfl, hleg.2.1.1, hleg.2.1.2, hleg.2.2, meaning ⟨mn, [t]⟩, _, hsnd, ?_⟩
      simp only [meaning, hr, values, Opd.value, canon]
      cases hfa : flagAlias mn with
      | some cs => rfl
      | none =>
        cases mn <;> simp [flagAlias] at hfa <;>
          simp [form, fNone, fReg, fRegHi, fRR, fRRHi, fRRMid, fRREven, fImm8, fAdiw, fLd, fSt, fLdd, fStd, fLds, fSts, fIn, fOut,
            fLpm, fBit3, fRegBit, fIoBit, fAbs, fBrb, fRel7, fRel12] at hr <;> rfl
    · simp [acceptsAll] at hleg
  · have hbare : (form mn).bare = false := by
      cases mn <;> simp [form, fNone, fReg, fRegHi, fRR, fRRHi, fRRMid, fRREven, fImm8, fAdiw, fLd, fSt, fLdd, fStd, fLds, fSts, fIn, fOut,
        fLpm, fBit3, fRegBit, fIoBit, fAbs, fRel7, fRel12] at hr <;> rfl
    simp only [legal, hr, hbare, Bool.false_and, Bool.false_or, List.isEmpty_cons, Bool.not_false, Bool.true_and, Bool.and_eq_true] at hleg
    rcases args with _ | ⟨sv, _ | ⟨t, _ | ⟨t3, r⟩⟩⟩
    · simp [acceptsAll] at hleg
    · simp [acceptsAll] at hleg
    · simp only [acceptsAll, Bool.and_true, Opd.accepts, Bool.and_eq_true, decide_eq_true_eq] at hleg
      refine ⟨t, rfl, hleg.2.2.1.1, hleg.2.2.1.2, hleg.2.2.2, meaning ⟨mn, [sv, t]⟩, _, hsnd, ?_⟩
      simp only [meaning, hr, values, Opd.value, canon]
      cases mn <;>
        simp [form, fNone, fReg, fRegHi, fRR, fRRHi, fRRMid, fRREven, fImm8, fAdiw, fLd, fSt, fLdd, fStd, fLds, fSts, fIn, fOut,
          fLpm, fBit3, fRegBit, fIoBit, fAbs, fBrb, fRel7, fRel12] at hr <;> rfl
    · simp [acceptsAll] at hleg

/-! ### non-vacuity -/

-- the hypotheses of the theorems hold for the devices of the check (`compat`: second half of `C14_avr_table`) ...
example : ∃ p c, avrDevice 1 = some (p, c) ∧ compat p c = true ∧ ¬ pbitTrunc p ⟨.LDI, [16, -1]⟩ ∧
    okBytes (IAvr.encode ⟨p, c.wrap, 0x100⟩ ⟨.LDI, [16, -1]⟩) = some [b 0x0f, b 0xef] :=
  ⟨_, _, rfl, by decide, fun h => by simp [pbitTrunc, form, fImm8] at h, by decide⟩
-- ... a conditional branch over the end of the program memory is accepted under `WRAPMODE ON` only
example : ∃ p c, avrDevice 9 = some (p, c) ∧ okBytes (IAvr.encode ⟨p, c.wrap, 4090⟩ ⟨.BRNE, [3]⟩) = some [b 0x41, b 0xf4] ∧
    legal c 4090 ⟨.BRNE, [3]⟩ = true ∧ decode c 4090 [b 0x41, b 0xf4] = some (⟨.BRBC, [1, 3]⟩, 2) :=
  ⟨_, _, rfl, by decide, by decide, by decide⟩
example : ∃ p c, avrDevice 1 = some (p, c) ∧ isOk (IAvr.encode ⟨p, c.wrap, 4090⟩ ⟨.BRNE, [3]⟩) = false ∧ legal c 4090 ⟨.BRNE, [3]⟩ = false :=
  ⟨_, _, rfl, by decide, by decide⟩
-- ... the size gate of the SPEC and the core gate of codeavr.c agree on the AT90S8515 and the ATmega2560 (`hsize` of `C14_avr_range`)
example : ∃ p c, avrDevice 1 = some (p, c) ∧ ∀ m ∈ [Mn.JMP, .CALL, .ELPM, .EIJMP, .EICALL], avail c m [] = sizeGateModel p m :=
  ⟨_, _, rfl, by decide⟩
example : ∃ p c, avrDevice 6 = some (p, c) ∧ ∀ m ∈ [Mn.JMP, .CALL, .ELPM, .EIJMP, .EICALL], avail c m [] = sizeGateModel p m :=
  ⟨_, _, rfl, by decide⟩
example : legal ⟨1, 12, false⟩ 0 ⟨.LDI, [16, 255]⟩ = true ∧ legal ⟨1, 12, false⟩ 0 ⟨.LDI, [16, 256]⟩ = false ∧
    legal ⟨1, 12, false⟩ 0 ⟨.LDI, [15, 0]⟩ = false ∧ legal ⟨1, 12, false⟩ 0 ⟨.ADIW, [24, 63]⟩ = true ∧
    legal ⟨1, 12, false⟩ 0 ⟨.ADIW, [24, 64]⟩ = false ∧ legal ⟨0, 9, false⟩ 0 ⟨.ADIW, [24, 1]⟩ = false ∧
    legal ⟨0, 9, false⟩ 0 ⟨.LD, [3, 6]⟩ = true ∧ legal ⟨0, 9, false⟩ 0 ⟨.LD, [3, 7]⟩ = false := by decide

/-! ### findings -/

/-- **Repaired finding** (`avr-pbit-address-truncated-modulo-512`, repair 99afd52): on the AT90S8515 (data space up to 0x25F)
`SBI 512,3` used to pass `ChkRange(Addr, 0, SegLimits[SegData])`, be cut to nine bits and be assembled as `SBI 0,3`; the address
now keeps sixteen bits and the statement is refused like `SBI 32,3`, as the opcode map demands.  (The side condition
`pbitTrunc` of the theorems above now only excludes addresses of 65536 and more inside the data space, which no device of
the table has.) -/
theorem C14_avr_pbit_not_truncated :
    ∃ p c, avrDevice 1 = some (p, c) ∧
      isOk (IAvr.encode ⟨p, false, 0⟩ ⟨.SBI, [512, 3]⟩) = false ∧ legal c 0 ⟨.SBI, [512, 3]⟩ = false ∧
      isOk (IAvr.encode ⟨p, false, 0⟩ ⟨.SBI, [32, 3]⟩) = false ∧
      okBytes (IAvr.encode ⟨p, false, 0⟩ ⟨.SBI, [31, 3]⟩) = some [b 0xfb, b 0x9a] :=
  ⟨_, _, rfl, by decide, by decide, by decide, by decide⟩

/-- **Known finding** (`avr-size-gated-instruction-accepted-on-small-device`): the ATmega8 (8K bytes of flash, 12-bit program
counter) is given `JMP`, `CALL`, `ELPM`, `EIJMP`, `EICALL`, and the ATmega128 `EIJMP/EICALL`, because codeavr.c gates them by
core class only; the AT90S8515 (same program memory as the ATmega8) is refused `JMP`. -/
theorem C14_finding_avr_size_gated :
    (∃ p c, avrDevice 4 = some (p, c) ∧ ∀ m ∈ [Mn.JMP, .CALL], isOk (IAvr.encode ⟨p, false, 0⟩ ⟨m, [0]⟩) = true ∧ legal c 0 ⟨m, [0]⟩ = false) ∧
    (∃ p c, avrDevice 4 = some (p, c) ∧ ∀ m ∈ [Mn.ELPM, .EIJMP, .EICALL], isOk (IAvr.encode ⟨p, false, 0⟩ ⟨m, []⟩) = true ∧ legal c 0 ⟨m, []⟩ = false) ∧
    (∃ p c, avrDevice 5 = some (p, c) ∧ ∀ m ∈ [Mn.EIJMP, .EICALL], isOk (IAvr.encode ⟨p, false, 0⟩ ⟨m, []⟩) = true ∧ legal c 0 ⟨m, []⟩ = false) ∧
    (∃ p c, avrDevice 1 = some (p, c) ∧ isOk (IAvr.encode ⟨p, false, 0⟩ ⟨.JMP, [0]⟩) = false ∧ legal c 0 ⟨.JMP, [0]⟩ = false) :=
  ⟨⟨_, _, rfl, by decide⟩, ⟨_, _, rfl, by decide⟩, ⟨_, _, rfl, by decide⟩, ⟨_, _, rfl, by decide, by decide⟩⟩

end AslModel.C14
