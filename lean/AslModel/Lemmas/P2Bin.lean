import AslModel.Model.P2Bin
/-! Helper lemmas for C05 (P2BIN). -/
namespace AslModel.P2Bin
open AslModel.PFile

theorem M32_eq : M32 = 4294967296 := by decide

/-! ### `writeAt` pointwise -/

theorem writeAt_length (f bs : List Byte) (pos : Nat) (h : pos + bs.length ≤ f.length) :
    (writeAt f pos bs).length = f.length := by
  unfold writeAt
  split
  · rfl
  · have : ¬ f.length < pos := by omega
    simp only [this, if_false, List.length_append, List.length_take, List.length_drop]
    omega

theorem writeAt_getElem? (f bs : List Byte) (pos i : Nat) (h : pos + bs.length ≤ f.length) :
    (writeAt f pos bs)[i]? = if pos ≤ i ∧ i < pos + bs.length then bs[i - pos]? else f[i]? := by
  unfold writeAt
  split
  · rename_i he
    have : bs.length = 0 := by simpa using he
    have h2 : ¬ (pos ≤ i ∧ i < pos + bs.length) := by omega
    simp [h2]
  · have hp : ¬ f.length < pos := by omega
    simp only [hp, if_false]
    by_cases h1 : i < pos
    · have h2 : ¬ (pos ≤ i ∧ i < pos + bs.length) := by omega
      rw [if_neg h2, List.append_assoc, List.getElem?_append_left (by simp; omega)]
      simp [h1]
    · by_cases h3 : i < pos + bs.length
      · rw [if_pos ⟨by omega, h3⟩, List.append_assoc, List.getElem?_append_right (by simp; omega)]
        have hl : (List.take pos f).length = pos := by simp; omega
        rw [hl, List.getElem?_append_left (by omega)]
      · have h2 : ¬ (pos ≤ i ∧ i < pos + bs.length) := by omega
        rw [if_neg h2, List.getElem?_append_right (by simp; omega)]
        have hl : (List.take pos f ++ bs).length = pos + bs.length := by simp; omega
        rw [hl, List.getElem?_drop]
        congr 1
        omega

/-! ### one record laid over an image (byte space), pointwise -/

def overlayAt (h ws we : Nat) (img : List Byte) (r : Sel) : List Byte :=
  let lo := max (ws * r.gran) (r.start * r.gran)
  let hi := min ((we + 1) * r.gran) (r.start * r.gran + r.data.length)
  if lo < hi then writeAt img (h + (lo - ws * r.gran)) ((r.data.drop (lo - r.start * r.gran)).take (hi - lo)) else img

theorem overlay_eq (ws we : Nat) (img : List Byte) (r : Sel) : Sel.overlay ws we img r = overlayAt 0 ws we img r := by
  simp [Sel.overlay, overlayAt]

theorem getD_ite_none (c : Prop) [Decidable c] (x : Option Byte) (d : Byte) (h : c → x = none) :
    (if c then x else none).getD d = d := by
  by_cases hc : c
  · simp [hc, h hc]
  · simp [hc]

theorem overlay_core (img data : List Byte) (h n A Bq rs p : Nat) (F : Nat → Byte)
    (hlen : img.length = h + n) (hA : A ≤ Bq) (hN : Bq - A ≤ n)
    (himg : img[h + p]? = some (F p)) :
    (if max A rs < min Bq (rs + data.length)
      then writeAt img (h + (max A rs - A)) ((data.drop (max A rs - rs)).take (min Bq (rs + data.length) - max A rs))
      else img)[h + p]?
      = some ((if rs ≤ A + p ∧ A + p < Bq then data[A + p - rs]? else none).getD (F p)) := by
  by_cases hlt : max A rs < min Bq (rs + data.length)
  · rw [if_pos hlt]
    have hbl : ((data.drop (max A rs - rs)).take (min Bq (rs + data.length) - max A rs)).length
        = min Bq (rs + data.length) - max A rs := by
      simp only [List.length_take, List.length_drop]; omega
    rw [writeAt_getElem? _ _ _ _ (by rw [hbl]; omega), hbl]
    by_cases hin : h + (max A rs - A) ≤ h + p ∧ h + p < h + (max A rs - A) + (min Bq (rs + data.length) - max A rs)
    · rw [if_pos hin, List.getElem?_take, if_pos (by omega), List.getElem?_drop]
      have hc : rs ≤ A + p ∧ A + p < Bq := by omega
      have hi : A + p - rs < data.length := by omega
      rw [if_pos hc]
      have e : max A rs - rs + (h + p - (h + (max A rs - A))) = A + p - rs := by omega
      rw [e, List.getElem?_eq_getElem hi]
      simp
    · rw [if_neg hin, himg, getD_ite_none]
      intro hc
      apply List.getElem?_eq_none
      omega
  · rw [if_neg hlt, himg, getD_ite_none]
    intro hc
    apply List.getElem?_eq_none
    omega

theorem overlay_core_length (img data : List Byte) (h n A Bq rs : Nat)
    (hlen : img.length = h + n) (hA : A ≤ Bq) (hN : Bq - A ≤ n) :
    (if max A rs < min Bq (rs + data.length)
      then writeAt img (h + (max A rs - A)) ((data.drop (max A rs - rs)).take (min Bq (rs + data.length) - max A rs))
      else img).length = h + n := by
  split
  · rw [writeAt_length _ _ _ (by simp only [List.length_take, List.length_drop]; omega)]; exact hlen
  · exact hlen

/-- bytes in front of the image (the header) are not touched -/
theorem overlay_core_head (img data : List Byte) (h n A Bq rs i : Nat)
    (hlen : img.length = h + n) (hA : A ≤ Bq) (hN : Bq - A ≤ n) (hi : i < h) :
    (if max A rs < min Bq (rs + data.length)
      then writeAt img (h + (max A rs - A)) ((data.drop (max A rs - rs)).take (min Bq (rs + data.length) - max A rs))
      else img)[i]? = img[i]? := by
  split
  · rw [writeAt_getElem? _ _ _ _ (by simp only [List.length_take, List.length_drop]; omega), if_neg (by omega)]
  · rfl

theorem win_bytes (ws we g G : Nat) (hw : ws ≤ we) (hg : g ≤ G) :
    ws * g ≤ (we + 1) * g ∧ (we + 1) * g - ws * g ≤ (we - ws + 1) * G := by
  have e : we + 1 = ws + (we - ws + 1) := by omega
  rw [e, Nat.add_mul]
  have := Nat.mul_le_mul_left (we - ws + 1) hg
  constructor <;> omega

/-- `l` is a file whose part after `h` header bytes is the `n`-byte image `F` -/
structure Img (h n : Nat) (F : Nat → Byte) (l : List Byte) : Prop where
  len : l.length = h + n
  body : ∀ p, p < n → l[h + p]? = some (F p)

theorem overlayAt_img (h ws we G : Nat) (r : Sel) (img : List Byte) (F : Nat → Byte) (hw : ws ≤ we)
    (hg : r.gran ≤ G) (hi : Img h ((we - ws + 1) * G) F img) :
    Img h ((we - ws + 1) * G) (fun p => (r.at ws we p).getD (F p)) (overlayAt h ws we img r) := by
  obtain ⟨h1, h2⟩ := win_bytes ws we r.gran G hw hg
  constructor
  · exact overlay_core_length img r.data h _ (ws * r.gran) ((we + 1) * r.gran) (r.start * r.gran) hi.len h1 h2
  · intro p hp
    exact overlay_core img r.data h _ (ws * r.gran) ((we + 1) * r.gran) (r.start * r.gran) p F hi.len h1 h2 (hi.body p hp)

theorem overlayAt_head (h ws we G : Nat) (r : Sel) (img : List Byte) (F : Nat → Byte) (hw : ws ≤ we)
    (hg : r.gran ≤ G) (hi : Img h ((we - ws + 1) * G) F img) (i : Nat) (hih : i < h) :
    (overlayAt h ws we img r)[i]? = img[i]? := by
  obtain ⟨h1, h2⟩ := win_bytes ws we r.gran G hw hg
  exact overlay_core_head img r.data h _ (ws * r.gran) ((we + 1) * r.gran) (r.start * r.gran) i hi.len h1 h2 hih

theorem foldl_overlayAt_img (h ws we G : Nat) (hw : ws ≤ we) (rs : List Sel) :
    ∀ (img : List Byte) (F : Nat → Byte), Img h ((we - ws + 1) * G) F img → (∀ r ∈ rs, r.gran ≤ G) →
      Img h ((we - ws + 1) * G) (fun p => rs.foldl (fun acc r => (r.at ws we p).getD acc) (F p))
        (rs.foldl (overlayAt h ws we) img) ∧
      ∀ i, i < h → (rs.foldl (overlayAt h ws we) img)[i]? = img[i]? := by
  induction rs with
  | nil => intro img F hi _; exact ⟨hi, fun _ _ => rfl⟩
  | cons r rs ih =>
    intro img F hi hg
    have hr := hg r (by simp)
    have h1 := overlayAt_img h ws we G r img F hw hr hi
    have h2 := ih (overlayAt h ws we img r) _ h1 (fun r' hr' => hg r' (by simp [hr']))
    simp only [List.foldl_cons]
    refine ⟨h2.1, fun i hi' => ?_⟩
    rw [h2.2 i hi', overlayAt_head h ws we G r img F hw hr hi i hi']

theorem img_replicate (h n : Nat) (fill : Byte) :
    Img h n (fun _ => fill) (List.replicate h 0 ++ List.replicate n fill) := by
  constructor
  · simp
  · intro p hp
    rw [List.getElem?_append_right (by simp)]
    simp [hp]

/-- the executable image of the SPEC is the pointwise one -/
theorem imageFast_eq_imageAll (ws we g : Nat) (fill : Byte) (rs : List Sel) (hw : ws ≤ we)
    (hg : ∀ r ∈ rs, r.gran ≤ g) : imageFast ws we g fill rs = imageAll ws we g fill rs := by
  have h0 := img_replicate 0 ((we - ws + 1) * g) fill
  simp only [List.replicate_zero, List.nil_append] at h0
  have h := (foldl_overlayAt_img 0 ws we g hw rs _ _ h0 hg).1
  have he : (fun img r => Sel.overlay ws we img r) = overlayAt 0 ws we := by
    funext img r; exact overlay_eq ws we img r
  apply List.ext_getElem?
  intro p
  unfold imageFast imageAll
  have he' : Sel.overlay ws we = overlayAt 0 ws we := he
  rw [he']
  by_cases hp : p < (we - ws + 1) * g
  · have := h.body p hp
    simp only [Nat.zero_add] at this
    rw [this]
    simp [hp, imageByte]
  · have hl := h.len
    rw [List.getElem?_eq_none (by omega), List.getElem?_eq_none (by simp; omega)]

/-! ### `ProcessFile`'s clipping in address units is the byte-space overlay -/

theorem max_mul (a c g : Nat) : max (a * g) (c * g) = max a c * g := by
  rcases Nat.le_total a c with h | h
  · rw [Nat.max_eq_right h, Nat.max_eq_right (Nat.mul_le_mul_right g h)]
  · rw [Nat.max_eq_left h, Nat.max_eq_left (Nat.mul_le_mul_right g h)]

theorem min_mul (a c g : Nat) : min (a * g) (c * g) = min a c * g := by
  rcases Nat.le_total a c with h | h
  · rw [Nat.min_eq_left h, Nat.min_eq_left (Nat.mul_le_mul_right g h)]
  · rw [Nat.min_eq_right h, Nat.min_eq_right (Nat.mul_le_mul_right g h)]

theorem Sel.len_eq (r : Sel) (hwf : r.WF) : r.data.length = r.data.length / r.gran * r.gran :=
  (Nat.div_mul_cancel (Nat.dvd_of_mod_eq_zero hwf.2.1)).symm

theorem Sel.units_pos (r : Sel) (hwf : r.WF) : 0 < r.data.length / r.gran :=
  Nat.div_pos (Nat.le_of_dvd hwf.2.2.1 (Nat.dvd_of_mod_eq_zero hwf.2.1)) hwf.1

theorem endAdr_eq (r : Sel) (hwf : r.WF) : endAdr r = r.start + r.data.length / r.gran - 1 := by
  have hu := r.units_pos hwf
  have hb := hwf.2.2.2.2
  unfold endAdr
  rw [M32_eq]
  omega

theorem procRec_file (q : Quirks) (o : Opts) (w : Win) (s : St) (r : Sel)
    (hq : q.laneExact = false) (hd : o.sizeDiv = 1) (hwf : r.WF) (hw : w.start ≤ w.stop)
    (hfit : (w.stop - w.start + 1) * w.maxGran < 4294967296) (hg : r.gran ≤ w.maxGran) :
    (procRec q o w s r).file = overlayAt (absHeader o) w.start w.stop s.file r := by
  have hu := r.units_pos hwf
  have hlen := r.len_eq hwf
  have hl16 := hwf.2.2.2.1
  have hgp := hwf.1
  generalize hU : r.data.length / r.gran = units at hu hlen
  have hhi : min ((w.stop + 1) * r.gran) (r.start * r.gran + r.data.length)
      = (min w.stop (r.start + units - 1) + 1) * r.gran := by
    have e1 : r.start * r.gran + r.data.length = (r.start + units) * r.gran := by rw [Nat.add_mul, ← hlen]
    rw [e1, min_mul]
    congr 1
    omega
  unfold procRec overlayAt
  rw [endAdr_eq r hwf, hU, max_mul, hhi]
  simp only []
  by_cases hlt : min w.stop (r.start + units - 1) < max w.start r.start
  · rw [if_pos hlt]
    have : ¬ max w.start r.start * r.gran < (min w.stop (r.start + units - 1) + 1) * r.gran := by
      intro hc
      have := Nat.lt_of_mul_lt_mul_right hc
      omega
    rw [if_neg this]
  · rw [if_neg hlt]
    have hlt' : max w.start r.start * r.gran < (min w.stop (r.start + units - 1) + 1) * r.gran :=
      Nat.mul_lt_mul_of_lt_of_le (by omega) (Nat.le_refl _) hgp
    rw [if_pos hlt']
    simp only [targetPos, hq, laneKeep, hd, if_true, Nat.div_one]
    have e1 : (max w.start r.start - w.start) * r.gran = max w.start r.start * r.gran - w.start * r.gran := Nat.sub_mul _ _ _
    have e2 : (max w.start r.start - r.start) * r.gran = max w.start r.start * r.gran - r.start * r.gran := Nat.sub_mul _ _ _
    have e3 : (min w.stop (r.start + units - 1) + 1 - max w.start r.start) * r.gran
        = (min w.stop (r.start + units - 1) + 1) * r.gran - max w.start r.start * r.gran := Nat.sub_mul _ _ _
    have b1 : (max w.start r.start - w.start) * r.gran ≤ (w.stop - w.start + 1) * w.maxGran :=
      Nat.mul_le_mul (by omega) hg
    have b3 : (min w.stop (r.start + units - 1) + 1 - max w.start r.start) * r.gran ≤ units * r.gran :=
      Nat.mul_le_mul_right _ (by omega)
    rw [M32_eq, Nat.mod_eq_of_lt (by omega), Nat.mod_eq_of_lt (by omega), e1, e2, e3, Nat.add_comm]
    simp

theorem foldl_procRec_file (q : Quirks) (o : Opts) (w : Win) (hq : q.laneExact = false) (hd : o.sizeDiv = 1)
    (hw : w.start ≤ w.stop) (hfit : (w.stop - w.start + 1) * w.maxGran < 4294967296) (sel : List Sel) :
    ∀ s : St, (∀ r ∈ sel, r.WF) → (∀ r ∈ sel, r.gran ≤ w.maxGran) →
      (sel.foldl (procRec q o w) s).file = sel.foldl (overlayAt (absHeader o) w.start w.stop) s.file := by
  induction sel with
  | nil => intro s _ _; rfl
  | cons r rs ih =>
    intro s hwf hg
    simp only [List.foldl_cons]
    rw [ih _ (fun r' h => hwf r' (by simp [h])) (fun r' h => hg r' (by simp [h])),
      procRec_file q o w s r hq hd (hwf r (by simp)) hw hfit (hg r (by simp))]

theorem lenBits_eq : 2 ^ Generated.p2binLenBits = 4294967296 := by decide

theorem prefill_eq (q : Quirks) (o : Opts) (w : Win) (hq : q.laneExact = false) (hd : o.sizeDiv = 1)
    (hfit : (w.stop - w.start + 1) * w.maxGran < 4294967296) :
    prefill q o w = List.replicate (absHeader o) 0 ++ List.replicate ((w.stop - w.start + 1) * w.maxGran) o.fill := by
  simp only [prefill, realFileLen, hq, hd, lenBits_eq, Nat.div_one, Nat.mod_eq_of_lt hfit]
  simp

/-! ### MeasureFile -/

theorem step_maxGran (o : Opts) (w : Win) (r : Sel) : (measureStep o w r).maxGran = max w.maxGran r.gran := by
  simp only [measureStep]; split <;> omega

theorem step_start (o : Opts) (w : Win) (r : Sel) :
    (measureStep o w r).start = if o.startAuto = true then min w.start r.start else w.start := by
  simp only [measureStep]
  cases o.startAuto <;> simp
  split <;> omega

theorem step_stop (o : Opts) (w : Win) (r : Sel) (hwf : r.WF) :
    (measureStep o w r).stop = if o.stopAuto = true then max w.stop r.last else w.stop := by
  have he : endAdr r = r.last := by rw [endAdr_eq r hwf]; rfl
  simp only [measureStep, he]
  cases o.stopAuto <;> simp
  split <;> omega

theorem fold_maxGran (o : Opts) (sel : List Sel) : ∀ w0 : Win,
    w0.maxGran ≤ (sel.foldl (measureStep o) w0).maxGran ∧ (∀ r ∈ sel, r.gran ≤ (sel.foldl (measureStep o) w0).maxGran) ∧
    ((sel.foldl (measureStep o) w0).maxGran = w0.maxGran ∨ ∃ r ∈ sel, (sel.foldl (measureStep o) w0).maxGran = r.gran) := by
  induction sel with
  | nil => intro w0; simp
  | cons r rs ih =>
    intro w0
    obtain ⟨a1, a2, a3⟩ := ih (measureStep o w0 r)
    simp only [List.foldl_cons]
    rw [step_maxGran] at a1 a3
    generalize (List.foldl (measureStep o) (measureStep o w0 r) rs).maxGran = W at *
    refine ⟨by omega, ?_, ?_⟩
    · intro r' hr'
      simp only [List.mem_cons] at hr'
      rcases hr' with rfl | hr'
      · omega
      · exact a2 r' hr'
    · rcases a3 with a3 | ⟨r', hr', a3⟩
      · rcases Nat.le_total w0.maxGran r.gran with h | h
        · right; exact ⟨r, by simp, by omega⟩
        · left; omega
      · right; exact ⟨r', by simp [hr'], a3⟩

theorem fold_start_auto (o : Opts) (ha : o.startAuto = true) (sel : List Sel) : ∀ w0 : Win,
    (sel.foldl (measureStep o) w0).start ≤ w0.start ∧ (∀ r ∈ sel, (sel.foldl (measureStep o) w0).start ≤ r.start) ∧
    ((sel.foldl (measureStep o) w0).start = w0.start ∨ ∃ r ∈ sel, (sel.foldl (measureStep o) w0).start = r.start) := by
  induction sel with
  | nil => intro w0; simp
  | cons r rs ih =>
    intro w0
    obtain ⟨a1, a2, a3⟩ := ih (measureStep o w0 r)
    simp only [List.foldl_cons]
    rw [step_start, if_pos ha] at a1 a3
    generalize (List.foldl (measureStep o) (measureStep o w0 r) rs).start = W at *
    refine ⟨by omega, ?_, ?_⟩
    · intro r' hr'
      simp only [List.mem_cons] at hr'
      rcases hr' with rfl | hr'
      · omega
      · exact a2 r' hr'
    · rcases a3 with a3 | ⟨r', hr', a3⟩
      · rcases Nat.le_total w0.start r.start with h | h
        · left; omega
        · right; exact ⟨r, by simp, by omega⟩
      · right; exact ⟨r', by simp [hr'], a3⟩

theorem fold_stop_auto (o : Opts) (ha : o.stopAuto = true) (sel : List Sel) : ∀ w0 : Win, (∀ r ∈ sel, r.WF) →
    w0.stop ≤ (sel.foldl (measureStep o) w0).stop ∧ (∀ r ∈ sel, r.last ≤ (sel.foldl (measureStep o) w0).stop) ∧
    ((sel.foldl (measureStep o) w0).stop = w0.stop ∨ ∃ r ∈ sel, (sel.foldl (measureStep o) w0).stop = r.last) := by
  induction sel with
  | nil => intro w0 _; simp
  | cons r rs ih =>
    intro w0 hwf
    obtain ⟨a1, a2, a3⟩ := ih (measureStep o w0 r) (fun r' h => hwf r' (by simp [h]))
    simp only [List.foldl_cons]
    rw [step_stop o w0 r (hwf r (by simp)), if_pos ha] at a1 a3
    generalize (List.foldl (measureStep o) (measureStep o w0 r) rs).stop = W at *
    refine ⟨by omega, ?_, ?_⟩
    · intro r' hr'
      simp only [List.mem_cons] at hr'
      rcases hr' with rfl | hr'
      · omega
      · exact a2 r' hr'
    · rcases a3 with a3 | ⟨r', hr', a3⟩
      · rcases Nat.le_total w0.stop r.last with h | h
        · right; exact ⟨r, by simp, by omega⟩
        · left; omega
      · right; exact ⟨r', by simp [hr'], a3⟩

theorem fold_start_fixed (o : Opts) (ha : o.startAuto = false) (sel : List Sel) : ∀ w0 : Win,
    (sel.foldl (measureStep o) w0).start = w0.start := by
  induction sel with
  | nil => intro w0; rfl
  | cons r rs ih => intro w0; simp only [List.foldl_cons]; rw [ih, step_start]; simp [ha]

theorem fold_stop_fixed (o : Opts) (ha : o.stopAuto = false) (sel : List Sel) : ∀ w0 : Win, (∀ r ∈ sel, r.WF) →
    (sel.foldl (measureStep o) w0).stop = w0.stop := by
  induction sel with
  | nil => intro w0 _; rfl
  | cons r rs ih =>
    intro w0 hwf; simp only [List.foldl_cons]
    rw [ih _ (fun r' h => hwf r' (by simp [h])), step_stop o w0 r (hwf r (by simp))]; simp [ha]

/-! ### lane predicate: mask test = documented address class -/

theorem and_small (a m : Nat) (hm : m < 4) : a &&& m = (a % 4) &&& m := by
  have h1 : (a &&& m) % 2 ^ 2 = a % 2 ^ 2 &&& m % 2 ^ 2 := Nat.and_mod_two_pow
  have h2 : a &&& m ≤ m := Nat.and_le_right
  have h3 : (a &&& m) % 4 = a &&& m := Nat.mod_eq_of_lt (by omega)
  have h4 : m % 4 = m := Nat.mod_eq_of_lt hm
  simp only [show (2 : Nat) ^ 2 = 4 from rfl, h3, h4] at h1
  exact h1

theorem hit_mod4 (a m e : Nat) (hm : m < 4) (lane : Lane)
    (h : ∀ x, x < 4 → ((x &&& m) == e) = lane.ok x) (hp : ∀ a, lane.ok a = lane.ok (a % 4)) :
    ((a &&& m) == e) = lane.ok a := by
  rw [and_small a m hm, hp a]
  exact h (a % 4) (Nat.mod_lt _ (by decide))

theorem Lane.ok_mod4 (lane : Lane) (a : Nat) : lane.ok a = lane.ok (a % 4) := by
  cases lane <;> simp only [Lane.ok, Nat.mod_mod_of_dvd a (by decide : 2 ∣ 4), Nat.mod_mod]

theorem below4 (P : Nat → Prop) (h0 : P 0) (h1 : P 1) (h2 : P 2) (h3 : P 3) : ∀ x, x < 4 → P x := by
  intro x hx
  match x, hx with
  | 0, _ => exact h0
  | 1, _ => exact h1
  | 2, _ => exact h2
  | 3, _ => exact h3

/-! ### checksum and header -/

theorem byteSum_foldl (bs : List Byte) : ∀ s : Nat, bs.foldl (fun s x => s + x.toNat) s = s + byteSum bs := by
  induction bs with
  | nil => intro s; simp [byteSum]
  | cons x xs ih => intro s; simp only [byteSum, List.foldl_cons]; rw [ih, ih (0 + x.toNat)]; omega

theorem byteSum_append (x y : List Byte) : byteSum (x ++ y) = byteSum x + byteSum y := by
  simp only [byteSum, List.foldl_append]
  rw [byteSum_foldl y]; rfl

theorem leBytes_snoc (n : Nat) : ∀ v, leBytes (n + 1) v = leBytes n v ++ [b (v / 256 ^ n)] := by
  induction n with
  | zero => intro v; simp [leBytes]
  | succ n ih =>
    intro v
    rw [leBytes, ih (v / 256), leBytes]
    simp only [List.cons_append, Nat.div_div_eq_div_mul, Nat.pow_succ]
    rw [Nat.mul_comm]

theorem b_mod (n : Nat) : b (n % 256) = b n := by simp [b]

theorem headerLoop_up (e : Nat) (n : Nat) : ∀ k, headerLoop e true n (8 * k) = leBytes n (e / 256 ^ k) := by
  induction n with
  | zero => intro k; rfl
  | succ n ih =>
    intro k
    simp only [headerLoop, leBytes, if_true]
    rw [show 8 * k + 8 = 8 * (k + 1) by omega, ih (k + 1), b_mod, Nat.shiftRight_eq_div_pow,
      show (2 : Nat) ^ (8 * k) = 256 ^ k by rw [Nat.pow_mul], Nat.div_div_eq_div_mul, Nat.pow_succ]

theorem headerLoop_down (e : Nat) (n : Nat) : headerLoop e false n ((n - 1) * 8) = (leBytes n e).reverse := by
  induction n with
  | zero => rfl
  | succ n ih =>
    rw [leBytes_snoc, List.reverse_append]
    simp only [headerLoop, Bool.false_eq_true, if_false, List.reverse_cons, List.reverse_nil, List.nil_append,
      List.cons_append, Nat.add_sub_cancel]
    rw [b_mod, Nat.shiftRight_eq_div_pow, show (2 : Nat) ^ (n * 8) = 256 ^ n by rw [Nat.mul_comm, Nat.pow_mul]]
    congr 1
    cases n with
    | zero => rfl
    | succ m =>
      have : (m + 1) * 8 - 8 = (m + 1 - 1) * 8 := by omega
      rw [this]; exact ih

theorem leVal_leBytes (n : Nat) : ∀ v, leVal (leBytes n v) = v % 256 ^ n := by
  induction n with
  | zero => intro v; simp [leBytes, leVal, Nat.mod_one]
  | succ n ih =>
    intro v
    simp only [leBytes, leVal, ih, b_toNat, Nat.pow_succ]
    rw [Nat.mul_comm (256 ^ n) 256, Nat.mod_mul]

end AslModel.P2Bin
