import AslModel.Model.PosChan
/-! Helper lemmas of C20, part "channels" (`Props/C20_Chan.lean`): one planted line in the channel model = one step of the spec. -/
namespace AslModel.C20Chan
open AslModel.ErrChan AslModel.PosChan

/-- the spec state a state of the channel model stands for -/
def abs (m : M) : SState := { on := m.listOn != 0, stack := m.saved.map (· != 0) }

/-- the streams a message raised with "listing on = `on`" goes to -/
def route (c : Cfg) (on : Bool) : List Dest :=
  (if c.listMode == .console && on then [.con] else []) ++ (if c.listMode == .file && on then [.lst] else []) ++
  (if c.listMode != .console || !on then [.chan] else [])

theorem cnt_add_bne (x : Cnt) (w : Bool) : (x.add w != x) = true := by
  cases x with
  | mk e wn =>
    cases w <;> simp [Cnt.add, bne, BEq.beq] <;> decide

/-- `WrErrorString` for a non-fatal message without `-maxerrors`: the streams written, nothing else of interest changes -/
theorem wr_route (c : Cfg) (hmax : c.maxErrors = 0) (m : M) (w : Bool) :
    dests m (wrErrorString c m w false) = route c (m.listOn != 0) ∧
    abs (wrErrorString c m w false) = abs m ∧ (wrErrorString c m w false).fatal = false := by
  refine ⟨?_, ?_, ?_⟩
  · unfold dests wrErrorString route
    cases hl : c.listMode <;> by_cases h0 : m.listOn = 0 <;> simp [h0, cnt_add_bne]
  · unfold abs wrErrorString; simp
  · unfold wrErrorString; simp [hmax]

/-- one planted line: the model step is the spec step -/
theorem step_route (c : Cfg) (hmax : c.maxErrors = 0) (m : M) (hf : m.fatal = false) (r : Role) :
    dests m (step c m r.stmt) = (match (sstep (abs m) r).2 with | some on => route c on | none => []) ∧
    abs (step c m r.stmt) = (sstep (abs m) r).1 ∧ (step c m r.stmt).fatal = false := by
  cases r with
  | diag w =>
    have h := wr_route c hmax m w
    cases w <;> simpa [step, hf, Role.stmt, wrDiag, sstep, abs] using h
  | listing v => simp [step, hf, Role.stmt, sstep, abs, dests]
  | save => simp [step, hf, Role.stmt, sstep, abs, dests]
  | restore =>
    cases hs : m.saved with
    | nil =>
      have h := wr_route c hmax m false
      simpa [step, hf, Role.stmt, sstep, abs, hs] using h
    | cons v rest => simp [step, hf, Role.stmt, sstep, abs, hs, dests]

theorem route_shown {α : Type} (c : Cfg) (on : Bool) (a : α) :
    ((((route c on).map fun d => (d, a)).filter (·.1 != Dest.lst)).map (·.2)) = [a] := by
  unfold route
  cases c.listMode <;> cases on <;> simp <;> decide

theorem route_lst (c : Cfg) (on : Bool) :
    (route c on).filter (· == .lst) = if c.listMode == .file && on then [.lst] else [] := by
  unfold route
  cases c.listMode <;> cases on <;> decide

theorem named_map {α β : Type} (f : α → β) (evs : List (Role × α)) :
    ∀ s : SState, named s (evs.map fun e => (e.1, f e.2)) = (named s evs).map fun x => (f x.1, x.2) := by
  induction evs with
  | nil => intro s; simp [named]
  | cons e es ih =>
    intro s
    obtain ⟨r, a⟩ := e
    simp only [List.map_cons, named]
    cases h : (sstep s r).2 <;> simp [ih]

end AslModel.C20Chan
