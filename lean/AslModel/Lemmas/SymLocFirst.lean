import Std.Data.String.ToNat
import AslModel.Lemmas.SymLocCor
/-! helper lemmas for `C13_loc_refines_first_pass` (`Props/C13_Loc.lean`): the simulation for a pass that starts with an
empty local table.  The table then holds a key exactly when the SPEC's accumulator lists the unique name as defined;
a reference the SPEC does not flag as "precedes its label" therefore finds the SPEC's binding. -/
namespace AslModel.SymLoc
open AslModel.Sym AslModel.Generated.Sym
open AslModel.LocScope hiding Name

/-! ### `name##number` is injective -/

theorem digits_inj (i j : Nat) (h : digits i = digits j) : i = j := by
  unfold digits at h
  have h1 := (List.map_inj_right (f := Char.toNat) (fun x y hxy => Char.toNat_inj.mp hxy)).mp h
  exact Nat.repr_injective (String.toList_injective h1)

theorem uniqName_inj : ∀ (k k' : LocScope.Name) (i i' : Nat), 35 ∉ k → 35 ∉ k' → uniqName k i = uniqName k' i' →
    k = k' ∧ i = i'
  | [], [], i, i', _, _, h => by
    simp only [uniqName, List.nil_append, List.cons_append, List.cons.injEq, true_and] at h
    exact ⟨rfl, digits_inj _ _ h⟩
  | [], c :: r, i, i', _, h2, h => by
    simp only [uniqName, List.nil_append, List.cons_append, List.cons.injEq] at h
    exact absurd (by rw [← h.1]; simp) h2
  | c :: r, [], i, i', h1, _, h => by
    simp only [uniqName, List.nil_append, List.cons_append, List.cons.injEq] at h
    exact absurd (by rw [h.1]; simp) h1
  | c :: r, c' :: r', i, i', h1, h2, h => by
    simp only [uniqName, List.cons_append, List.cons.injEq] at h
    have := uniqName_inj r r' i i' (fun hm => h1 (List.mem_cons_of_mem _ hm)) (fun hm => h2 (List.mem_cons_of_mem _ hm))
      (by simpa [uniqName] using h.2)
    exact ⟨by rw [h.1, this.1], this.2⟩

theorem upn_ne_hash (c : Nat) : upn c = 35 ↔ c = 35 := by
  unfold upn
  split <;> omega

theorem fold_nohash (cs : Bool) (n : Name) : 35 ∈ fold cs n ↔ 35 ∈ n := by
  unfold fold
  split
  · rfl
  · unfold upper
    simp only [List.mem_map]
    constructor
    · rintro ⟨c, hc, h⟩
      rw [(upn_ne_hash c).mp h] at hc
      exact hc
    · intro h
      exact ⟨35, h, by decide⟩

/-! ### the first matching frame -/

theorem find?_and {α : Type} (p q d : α → Bool) (l : List α) (h : ∀ a ∈ l, p a = (q a && d a))
    (hd : ∀ g, l.find? q = some g → d g = true) : l.find? p = l.find? q := by
  induction l with
  | nil => rfl
  | cons a r ih =>
    simp only [List.find?_cons]
    cases hq : q a with
    | true =>
      have : d a = true := hd a (by simp [hq])
      rw [h a (by simp), hq, this]
      rfl
    | false =>
      rw [h a (by simp), hq]
      simp only [Bool.false_and]
      apply ih (fun b hb => h b (by simp [hb]))
      intro g hg
      exact hd g (by simp [hq, hg])

/-! ### the invariant of a first pass -/

structure InsideF (cs : Bool) (st : LSt) (fr : List Fr) (defined : List LocScope.Name) (next : Nat) : Prop where
  cs : st.g.cs = cs
  hpos : ∀ f ∈ fr, f.h ≠ -1
  nobr : ∀ f ∈ fr, ∀ k ∈ f.ns, k.getLast? ≠ some 93
  nohash : ∀ f ∈ fr, ∀ k ∈ f.ns, 35 ∉ k
  tab : ∀ f ∈ fr, ∀ k, hasKey st.ltab (k, f.h) = (f.ns.contains k && defined.contains (uniqName k f.id))
  dist : fr.Pairwise (fun f g => f.h ≠ g.h ∧ f.id ≠ g.id)
  below : ∀ f ∈ fr, f.h < (st.cnt : Int) ∧ f.id < next
  tfresh : ∀ key, hasKey st.ltab key = true → key.2 < (st.cnt : Int)
  dfresh : ∀ u ∈ defined, ∃ k i, u = uniqName k i ∧ i < next ∧ 35 ∉ k

theorem InsideF.of_eq {cs : Bool} {st st' : LSt} {fr : List Fr} {d : List LocScope.Name} {nx : Nat} (h : InsideF cs st fr d nx)
    (hcs : st'.g.cs = st.g.cs) (hl : st'.ltab = st.ltab) (hc : st.cnt ≤ st'.cnt) : InsideF cs st' fr d nx :=
  ⟨hcs.trans h.cs, h.hpos, h.nobr, h.nohash, fun f hf k => by rw [hl]; exact h.tab f hf k, h.dist,
    fun f hf => ⟨by have := (h.below f hf).1; omega, (h.below f hf).2⟩,
    fun key hk => by rw [hl] at hk; have := h.tfresh key hk; omega, h.dfresh⟩

/-- two frames of the stack with the same handle, or with the same number, are the same frame -/
theorem InsideF.same {cs : Bool} {st : LSt} {fr : List Fr} {d : List LocScope.Name} {nx : Nat} (h : InsideF cs st fr d nx)
    {f g : Fr} (hf : f ∈ fr) (hg : g ∈ fr) : (f.h = g.h ↔ f.id = g.id) := by
  have key : ∀ (l : List Fr), l.Pairwise (fun f g => f.h ≠ g.h ∧ f.id ≠ g.id) → ∀ f g, f ∈ l → g ∈ l →
      (f.h = g.h ↔ f.id = g.id) := by
    intro l hl
    induction hl with
    | nil => intro f g hf; simp at hf
    | cons hx _ ih =>
      intro f g hf hg
      cases List.mem_cons.mp hf with
      | inl h1 =>
        cases List.mem_cons.mp hg with
        | inl h2 => subst h1; subst h2; simp
        | inr h2 => subst h1; have := hx g h2; exact ⟨fun e => absurd e this.1, fun e => absurd e this.2⟩
      | inr h1 =>
        cases List.mem_cons.mp hg with
        | inl h2 => subst h2; have := hx f h1; exact ⟨fun e => absurd e.symm this.1, fun e => absurd e.symm this.2⟩
        | inr h2 => exact ih f g h1 h2
  exact key fr h.dist f g hf hg

theorem InsideF.head_eq {cs : Bool} {st : LSt} {f : Fr} {r : List Fr} {d : List LocScope.Name} {nx : Nat}
    (h : InsideF cs st (f :: r) d nx) {g : Fr} (hg : g ∈ f :: r) (he : f.h = g.h ∨ f.id = g.id) : g = f := by
  cases List.mem_cons.mp hg with
  | inl h1 => exact h1
  | inr h1 =>
    have := (List.pairwise_cons.mp h.dist).1 g h1
    cases he with
    | inl e => exact absurd e this.1
    | inr e => exact absurd e this.2

/-! ### one statement -/

theorem defKey_insideF (cs : Bool) (st : LSt) (f : Fr) (fr : List Fr) (n : Name) (d : List LocScope.Name) (nx : Nat)
    (hs : StackIs st (f :: fr)) (hi : InsideF cs st (f :: fr) d nx) (hord : isTmpName n = false) :
    defKey st n = if n.getLast? = some 93 then none else some (fold cs n, f.h) := by
  have hm : st.mom ≠ -1 := by rw [hs.cons]; exact hi.hpos f (by simp)
  rw [defKey_mom st n hm hord, hi.cs, hs.cons]

theorem label_agreeF (cs : Bool) (no : Int → Nat) (st : LSt) (fr : List Fr) (n : Name) (d : List LocScope.Name) (nx : Nat)
    (hs : StackIs st fr) (hi : InsideF cs st fr d nx) (hno : ∀ f ∈ fr, no f.h = f.id) (hfit : LabFits cs fr n) :
    rname no (defKey st n) (unqual n) = specLabel (fold cs) (envOf fr) (unqual n) := by
  cases fr with
  | nil =>
    rw [defKey_outside st n hs]
    unfold specLabel rname
    cases unqual n <;> simp [envOf, resolveLabel]
  | cons f r =>
    obtain ⟨hord, hin⟩ := hfit
    rw [defKey_insideF cs st f r n d nx hs hi hord]
    unfold specLabel
    rcases unqual_eq_some n with hq | ⟨hq, hl⟩
    · have hl := (unqual_some hq).2
      have hf := frFind_head _ f r (hin hl)
      simp only [hl, if_false, hq, rname, resolveLabel_envOf, hf, Option.map_some, hno f (by simp)]
    · simp [hl, hq, rname]

/-- what the SPEC's accumulator lists as defined after the label of the statement -/
def definedAfter (cs : Bool) (fr : List Fr) (lab : Option LocScope.Name) (d : List LocScope.Name) : List LocScope.Name :=
  defAfter (labLocOf (fold cs) (envOf fr) lab) d

theorem definedAfter_none (cs : Bool) (fr : List Fr) (d : List LocScope.Name) : definedAfter cs fr none d = d := rfl

theorem frFind_none_of_rbrF (cs : Bool) (st : LSt) (fr : List Fr) (r : Name) (d : List LocScope.Name) (nx : Nat)
    (hi : InsideF cs st fr d nx) (hl : r.getLast? = some 93) : frFind (fold cs r) fr = none := by
  unfold frFind
  rw [List.find?_eq_none]
  intro f hf
  have := hi.nobr f hf (fold cs r)
  cases hc : f.ns.contains (fold cs r) with
  | false => simp
  | true =>
    exfalso
    exact this (by simpa using hc) ((fold_getLast cs r).mpr hl)

theorem refKey_insideF (cs : Bool) (st : LSt) (fr : List Fr) (r : Name) (d : List LocScope.Name) (nx : Nat)
    (hs : StackIs st fr) (hi : InsideF cs st fr d nx) (hord : isTmpName r = false)
    (hknown : ∀ g, frFind (fold cs r) fr = some g → d.contains (uniqName (fold cs r) g.id) = true) :
    refKey st r = (frFind (fold cs r) fr).map (fun f => (fold cs r, f.h)) := by
  unfold refKey
  rw [refSpace_eq_walk, hs, walkSpace_frames _ _ _ hi.hpos, refName_ordinary st r hord, hi.cs]
  rw [find?_and (fun f : Fr => hasKey st.ltab (fold cs r, f.h)) (fun f : Fr => f.ns.contains (fold cs r))
    (fun f : Fr => d.contains (uniqName (fold cs r) f.id)) fr (fun f hf => hi.tab f hf _) hknown]
  simp [frFind, Function.comp_def]

theorem ref_agreeF (cs : Bool) (no : Int → Nat) (st : LSt) (fr : List Fr) (r : Name) (d : List LocScope.Name) (nx : Nat)
    (hs : StackIs st fr) (hi : InsideF cs st fr d nx) (hno : ∀ f ∈ fr, no f.h = f.id) (hord : fr ≠ [] → isTmpName r = false)
    (hknown : ∀ g, frFind (fold cs r) fr = some g → r.getLast? ≠ some 93 → d.contains (uniqName (fold cs r) g.id) = true) :
    rname no (refKey st r) (unqual r) = specRef (fold cs) (envOf fr) (unqual r) := by
  cases fr with
  | nil =>
    rw [refKey_outside st r hs]
    unfold specRef rname
    cases unqual r <;> simp [envOf, resolve]
  | cons f fr' =>
    rcases unqual_eq_some r with hq | ⟨hq, hl⟩
    · have hl := (unqual_some hq).2
      rw [refKey_insideF cs st _ r d nx hs hi (hord (by simp)) (fun g hg => hknown g hg hl)]
      unfold specRef
      simp only [hq, resolve_envOf]
      cases hf : frFind (fold cs r) (f :: fr') with
      | none => simp [rname]
      | some g => simp [rname, hno g (frFind_mem hf)]
    · have hn := frFind_none_of_rbrF cs st _ r d nx hi hl
      rw [refKey_insideF cs st _ r d nx hs hi (hord (by simp)) (fun g hg => by rw [hn] at hg; cases hg)]
      unfold specRef
      simp [hq, hn, rname]

/-- the label of a statement: the table gains the key, the SPEC's accumulator the unique name -/
theorem defineLabelL_insideF (cs : Bool) (st : LSt) (fr : List Fr) (n : Name) (v : Int) (d : List LocScope.Name) (nx : Nat)
    (hs : StackIs st fr) (hi : InsideF cs st fr d nx) (hfit : LabFits cs fr n) :
    InsideF cs (defineLabelL st n v) fr (definedAfter cs fr (unqual n) d) nx := by
  have hcnt := defineLabelL_cnt st n v
  cases fr with
  | nil =>
    have hd : definedAfter cs [] (unqual n) d = d := by
      unfold definedAfter labLocOf defAfter
      cases unqual n <;> simp [envOf, resolveLabel]
    rw [hd]
    refine ⟨(defineLabelL_cs st n v).trans hi.cs, hi.hpos, hi.nobr, hi.nohash, fun f hf => by simp at hf, hi.dist,
      fun f hf => by simp at hf, ?_, hi.dfresh⟩
    intro key hk
    rw [defineLabelL_hasKey, defKey_outside st n hs] at hk
    rw [hcnt]
    exact hi.tfresh key (by simpa using hk)
  | cons f r =>
    obtain ⟨hord, hin⟩ := hfit
    have hdk := defKey_insideF cs st f r n d nx hs hi hord
    rcases unqual_eq_some n with hq | ⟨hq, hl⟩
    · have hl := (unqual_some hq).2
      have hk : fold cs n ∈ f.ns := hin hl
      have hnh : 35 ∉ fold cs n := hi.nohash f (by simp) _ hk
      have hd : definedAfter cs (f :: r) (unqual n) d = uniqName (fold cs n) f.id :: d := by
        unfold definedAfter labLocOf defAfter
        simp [hq, resolveLabel_envOf, frFind_head _ f r hk]
      rw [hd]
      simp only [hl, if_false] at hdk
      refine ⟨(defineLabelL_cs st n v).trans hi.cs, hi.hpos, hi.nobr, hi.nohash, ?_, hi.dist,
        fun g hg => by rw [hcnt]; exact hi.below g hg, ?_, ?_⟩
      · intro g hg k
        rw [defineLabelL_hasKey, hdk, hi.tab g hg k]
        by_cases hkey : (fold cs n, f.h) = (k, g.h)
        · have e1 : fold cs n = k := congrArg Prod.fst hkey
          have e2 : f.h = g.h := congrArg Prod.snd hkey
          have e3 : g = f := hi.head_eq hg (Or.inl e2)
          rw [e3, ← e1]
          simp [hk]
        · have hne : ((some (fold cs n, f.h) : Option Key) == some (k, g.h)) = false := by simpa using hkey
          rw [hne, Bool.or_false]
          cases hgk : g.ns.contains k with
          | false => simp
          | true =>
            have hkm : k ∈ g.ns := by simpa using hgk
            have hun : (uniqName k g.id == uniqName (fold cs n) f.id) = false := by
              apply Bool.eq_false_iff.mpr
              intro he
              have := uniqName_inj _ _ _ _ (hi.nohash g hg k hkm) hnh (by simpa using he)
              have e3 : g = f := hi.head_eq hg (Or.inr this.2.symm)
              apply hkey
              rw [this.1, e3]
            simp only [Bool.true_and, List.contains_cons, hun, Bool.false_or]
      · intro key hkk
        rw [defineLabelL_hasKey, hdk] at hkk
        rw [hcnt]
        cases hh : hasKey st.ltab key with
        | true => exact hi.tfresh key hh
        | false =>
          rw [hh] at hkk
          have : (fold cs n, f.h) = key := by simpa using hkk
          rw [← this]
          exact (hi.below f (by simp)).1
      · intro u hu
        cases List.mem_cons.mp hu with
        | inl h1 => exact ⟨fold cs n, f.id, h1, (hi.below f (by simp)).2, hnh⟩
        | inr h1 => exact hi.dfresh u h1
    · have hd : definedAfter cs (f :: r) (unqual n) d = d := by unfold definedAfter labLocOf defAfter; simp [hq]
      rw [hd]
      simp only [hl, if_true] at hdk
      refine ⟨(defineLabelL_cs st n v).trans hi.cs, hi.hpos, hi.nobr, hi.nohash, ?_, hi.dist,
        fun g hg => by rw [hcnt]; exact hi.below g hg, ?_, hi.dfresh⟩
      · intro g hg k
        rw [defineLabelL_hasKey, hdk, hi.tab g hg k]
        simp
      · intro key hkk
        rw [defineLabelL_hasKey, hdk] at hkk
        rw [hcnt]
        exact hi.tfresh key (by simpa using hkk)

/-! ### the SPEC's accumulator -/

theorem expStmt_defined (cs : Bool) (fr : List Fr) (s : Stmt Op) (a : Acc Op) :
    (expStmt (fold cs) (envOf fr) s a).defined = definedAfter cs fr s.label a.defined := rfl

/-- a reference the SPEC does not flag: the unique name it resolves to is listed as defined -/
theorem flag_known (cs : Bool) (fr : List Fr) (s : Stmt Op) (a : Acc Op)
    (h : ∀ x ∈ (expStmt (fold cs) (envOf fr) s a).out, x.2 = false) (x : LocScope.Name) (hx : s.ref = some x) :
    ∀ g, frFind (fold cs x) fr = some g →
      (definedAfter cs fr s.label a.defined).contains (uniqName (fold cs x) g.id) = true := by
  intro g hg
  have h0 := h _ (by rw [expStmt_core]; exact List.mem_cons_self)
  simp only [hx, refResOf, resolve_envOf, hg, fwdFlag] at h0
  simpa [definedAfter] using h0

theorem openSpace_out (key : LocScope.Name → LocScope.Name) (im glob : Bool) (body : LocScope.Items Op) (env : List Bind)
    (a : Acc Op) : (openSpace key im glob body env a).2.out = a.out := by
  unfold openSpace
  cases glob <;> cases im <;> rfl

theorem repeatN_out_mono {F : Acc Op → Acc Op} (hF : ∀ a x, x ∈ a.out → x ∈ (F a).out) :
    ∀ (n : Nat) (a : Acc Op) x, x ∈ a.out → x ∈ (repeatN F n a).out := by
  intro n
  induction n with
  | zero => intro a x h; exact h
  | succ k ih => intro a x h; exact ih _ x (hF a x h)

mutual
theorem expItem_out_mono (key : LocScope.Name → LocScope.Name) : ∀ (i : LocScope.Item Op) (env : List Bind) (a : Acc Op) x,
    x ∈ a.out → x ∈ (expItem key env i a).out
  | .stmt s, env, a, x, h => by
    simp only [expItem, expStmt_core, expStmtCore]
    exact List.mem_cons_of_mem _ h
  | .con im glob n body, env, a, x, h => by
    simp only [expItem]
    exact repeatN_out_mono (fun a' x' h' => expItems_out_mono key body _ _ x' (by rw [openSpace_out]; exact h')) n a x h
theorem expItems_out_mono (key : LocScope.Name → LocScope.Name) : ∀ (q : LocScope.Items Op) (env : List Bind) (a : Acc Op) x,
    x ∈ a.out → x ∈ (expItems key env q a).out
  | .nil, _, a, x, h => by simpa [expItems] using h
  | .cons i r, env, a, x, h => by
    simp only [expItems]
    exact expItems_out_mono key r env _ x (expItem_out_mono key i env a x h)
end

/-! ### one statement -/

theorem bumpLine_insideF {cs : Bool} {st : LSt} {fr : List Fr} {d : List LocScope.Name} {nx : Nat} (h : InsideF cs st fr d nx) :
    InsideF cs (bumpLine st) fr d nx := h.of_eq rfl rfl (Nat.le_refl _)

theorem stmt_agreeF (cs : Bool) (no : Int → Nat) (st : LSt) (fr : List Fr) (o : Op) (a : Acc Op) (hs : StackIs st fr)
    (hi : InsideF cs st fr a.defined a.next) (hno : ∀ f ∈ fr, no f.h = f.id) (hfit : OpFits cs fr o)
    (hnf : ∀ x ∈ (expStmt (fold cs) (envOf fr) (toStmt o) a).out, x.2 = false) :
    renderWith no (evOf st o) = specStmt (fold cs) (envOf fr) (toStmt o) ∧
      InsideF cs (stepL st o) fr (expStmt (fold cs) (envOf fr) (toStmt o) a).defined
        (expStmt (fold cs) (envOf fr) (toStmt o) a).next := by
  have hsb := bumpLine_stack st fr hs
  have hib := bumpLine_insideF hi
  rw [expStmt_defined, expStmt_next]
  cases o
  case label n =>
    have hf := fits_label cs fr (.label n) n hfit rfl (by simp [opOrdinary])
    refine ⟨?_, ?_⟩
    · simp only [renderWith, evOf, specStmt, toStmt, specRef_none, rname_none]
      rw [label_agreeF cs no (bumpLine st) fr n _ _ hsb hib hno hf]
    · simp only [stepL, toStmt]
      exact (defineLabelL_insideF cs _ fr n _ _ _ hsb hib hf).of_eq rfl rfl (Nat.le_refl _)
  case labelOnly n =>
    have hf := fits_label cs fr (.labelOnly n) n hfit rfl (by simp [opOrdinary])
    refine ⟨?_, ?_⟩
    · simp only [renderWith, evOf, specStmt, toStmt, specRef_none, rname_none]
      rw [label_agreeF cs no (bumpLine st) fr n _ _ hsb hib hno hf]
    · simp only [stepL, toStmt]
      exact defineLabelL_insideF cs _ fr n _ _ _ hsb hib hf
  case labelWord n r =>
    have hf := fits_label cs fr (.labelWord n r) n hfit rfl (by simp [opOrdinary]; intro h _; exact h)
    have hs2 := defineLabelL_stack (bumpLine st) fr n (bumpLine st).g.pc hsb
    have hi2 := defineLabelL_insideF cs _ fr n (bumpLine st).g.pc _ _ hsb hib hf
    have hr : fr ≠ [] → isTmpName r = false := by
      intro hne
      cases fr with
      | nil => exact absurd rfl hne
      | cons f fr' => have := hfit.1; simp [opOrdinary] at this; exact this.2
    have hkn : ∀ g, frFind (fold cs r) fr = some g → r.getLast? ≠ some 93 →
        (definedAfter cs fr (unqual n) a.defined).contains (uniqName (fold cs r) g.id) = true := by
      intro g hg hl
      have hq : unqual r = some r := by unfold unqual; simp [hl]
      exact flag_known cs fr (toStmt (.labelWord n r)) a hnf r hq g hg
    refine ⟨?_, ?_⟩
    · simp only [renderWith, evOf, specStmt, toStmt]
      rw [label_agreeF cs no (bumpLine st) fr n _ _ hsb hib hno hf, ref_agreeF cs no _ fr r _ _ hs2 hi2 hno hr hkn]
    · simp only [stepL, toStmt]
      exact hi2.of_eq (by simp [emitWord_cs, lookupL_cs]) (by simp [lookupL_ltab]) (by simp [lookupL_cnt])
  case use r =>
    have hr : fr ≠ [] → isTmpName r = false := by
      intro hne
      cases fr with
      | nil => exact absurd rfl hne
      | cons f fr' => have := hfit.1; simpa [opOrdinary] using this
    have hkn : ∀ g, frFind (fold cs r) fr = some g → r.getLast? ≠ some 93 →
        a.defined.contains (uniqName (fold cs r) g.id) = true := by
      intro g hg hl
      have hq : unqual r = some r := by unfold unqual; simp [hl]
      exact flag_known cs fr (toStmt (.use r)) a hnf r hq g hg
    refine ⟨?_, ?_⟩
    · simp only [renderWith, evOf, specStmt, toStmt, specLabel_none, rname_none]
      rw [ref_agreeF cs no _ fr r _ _ hsb hib hno hr hkn]
    · simp only [stepL, toStmt, definedAfter_none]
      exact hib.of_eq (by simp [emitWord_cs, lookupL_cs]) (by simp [lookupL_ltab]) (by simp [lookupL_cnt])
  all_goals
    refine ⟨?_, ?_⟩
    · simp only [renderWith, evOf, specStmt, toStmt, specLabel_none, specRef_none, rname_none]
    · simp only [stepL, toStmt, definedAfter_none]
      exact hi.of_eq (step_cs _ _) rfl (Nat.le_refl _)

/-! ### labels carry no `#` -/

theorem toStmt_label_nohash (cs : Bool) (o : Op) (l : Name) (hn : opNoHash o = true) (h : (toStmt o).label = some l) :
    35 ∉ fold cs l := by
  have key : ∀ n, (!n.contains 35) = true → unqual n = some l → 35 ∉ fold cs l := by
    intro n hc hq
    rw [fold_nohash, (unqual_some hq).1]
    simpa using hc
  cases o <;> simp only [toStmt] at h
  case label n => exact key n hn h
  case labelOnly n => exact key n hn h
  case labelWord n r => exact key n hn h
  all_goals cases h

mutual
theorem labelsOf_nohash_item (cs : Bool) : ∀ (i : PItem), i.noHash = true → ∀ (k : LocScope.Name),
    k ∈ labelsOf (fold cs) (.cons (i.toSpec false) .nil) → 35 ∉ k
  | .op o, hn, k, h => by
    simp only [PItem.toSpec, labelsOf, List.append_nil] at h
    cases hl : (toStmt o).label with
    | none => simp [hl] at h
    | some l =>
      simp only [hl, Option.map_some, Option.toList_some, List.mem_singleton] at h
      subst h
      exact toStmt_label_nohash cs o l (by simpa [PItem.noHash] using hn) hl
  | .con _ _ glob n body, hn, k, h => by
    simp only [PItem.toSpec, labelsOf, List.append_nil] at h
    split at h
    · exact labelsOf_nohash cs body (by simpa [PItem.noHash] using hn) k h
    · simp at h
theorem labelsOf_nohash (cs : Bool) : ∀ (q : PItems), q.noHash = true → ∀ (k : LocScope.Name),
    k ∈ labelsOf (fold cs) (q.toSpec false) → 35 ∉ k
  | .nil, _, k, h => by simp [PItems.toSpec, labelsOf] at h
  | .cons i r, hn, k, h => by
    simp only [PItems.noHash, Bool.and_eq_true] at hn
    rw [labelsOf_cons_split] at h
    cases List.mem_append.mp h with
    | inl h1 => exact labelsOf_nohash_item cs i hn.1 k h1
    | inr h1 => exact labelsOf_nohash cs r hn.2 k h1
end

/-! ### constructs and statement lists -/

structure SimF (cs : Bool) (no : Int → Nat) (st' : LSt) (fr : List Fr) (a a' : Acc Op) (tr : List Ev) (os : List Int) :
    Prop where
  out : a'.out.map (·.1) = (tr.map (renderWith no)).reverse ++ a.out.map (·.1)
  next : a'.next = a.next + os.length
  inside : InsideF cs st' fr a'.defined a'.next

def ItemsOKF (cs : Bool) (no : Int → Nat) (q : PItems) : Prop :=
  ∀ (st : LSt) (fr : List Fr) (a : Acc Op), StackIs st fr → InsideF cs st fr a.defined a.next → (∀ f ∈ fr, no f.h = f.id) →
    q.ordinary (!fr.isEmpty) = true → LabsIn cs fr (q.toSpec false) →
    NumOK no (openedItems q.toModel st) a.next →
    (∀ x ∈ (expItems (fold cs) (envOf fr) (q.toSpec false) a).out, x.2 = false) →
    SimF cs no (execItems q.toModel st) fr a (expItems (fold cs) (envOf fr) (q.toSpec false) a)
      (traceItems q.toModel st) (openedItems q.toModel st)

def ItemOKF (cs : Bool) (no : Int → Nat) (i : PItem) : Prop :=
  ∀ (st : LSt) (fr : List Fr) (a : Acc Op), StackIs st fr → InsideF cs st fr a.defined a.next → (∀ f ∈ fr, no f.h = f.id) →
    i.ordinary (!fr.isEmpty) = true → LabsIn cs fr (.cons (i.toSpec false) .nil) →
    NumOK no (openedItem i.toModel st) a.next →
    (∀ x ∈ (expItem (fold cs) (envOf fr) (i.toSpec false) a).out, x.2 = false) →
    SimF cs no (execItem i.toModel st) fr a (expItem (fold cs) (envOf fr) (i.toSpec false) a)
      (traceItem i.toModel st) (openedItem i.toModel st)

theorem InsideF.tail {cs : Bool} {st : LSt} {f : Fr} {fr : List Fr} {d : List LocScope.Name} {nx : Nat}
    (h : InsideF cs st (f :: fr) d nx) : InsideF cs st fr d nx :=
  ⟨h.cs, fun g hg => h.hpos g (List.mem_cons_of_mem _ hg), fun g hg => h.nobr g (List.mem_cons_of_mem _ hg),
    fun g hg => h.nohash g (List.mem_cons_of_mem _ hg), fun g hg => h.tab g (List.mem_cons_of_mem _ hg),
    (List.pairwise_cons.mp h.dist).2, fun g hg => h.below g (List.mem_cons_of_mem _ hg), h.tfresh, h.dfresh⟩

theorem loop_okF (cs : Bool) (no : Int → Nat) (glob : Bool) (body : PItems) (hb : ItemsOKF cs no body) (fr : List Fr)
    (hno : ∀ f ∈ fr, no f.h = f.id) (hord : body.ordinary true = true) (hnh : body.noHash = true)
    (hlab : glob = true → LabsIn cs fr (body.toSpec false)) :
    ∀ (n : Nat) (first : Bool) (st : LSt) (a : Acc Op), LoopStack glob first st fr → InsideF cs st fr a.defined a.next →
      NumOK no (obsLoop glob (execItems body.toModel) (openedItems body.toModel)
        (fun s => if glob then [] else [s.mom]) n first st) a.next →
      (∀ x ∈ (repeatN (fun a => expItems (fold cs) (openSpace (fold cs) false glob (body.toSpec false) (envOf fr) a).1
          (body.toSpec false) (openSpace (fold cs) false glob (body.toSpec false) (envOf fr) a).2) n a).out, x.2 = false) →
      SimF cs no (loop glob (execItems body.toModel) n first st).1 fr a
        (repeatN (fun a => expItems (fold cs) (openSpace (fold cs) false glob (body.toSpec false) (envOf fr) a).1
          (body.toSpec false) (openSpace (fold cs) false glob (body.toSpec false) (envOf fr) a).2) n a)
        (obsLoop glob (execItems body.toModel) (traceItems body.toModel) (fun _ => []) n first st)
        (obsLoop glob (execItems body.toModel) (openedItems body.toModel) (fun s => if glob then [] else [s.mom]) n first st) := by
  intro n
  induction n with
  | zero =>
    intro first st a _ hi _ _
    exact ⟨by simp [obsLoop, repeatN], by simp [obsLoop, repeatN], by simpa [loop, repeatN] using hi⟩
  | succ k ih =>
    intro first st a hst hi hnum hnf
    simp only [obsLoop, loop, repeatN] at hnum hnf ⊢
    have hmono : ∀ (a' : Acc Op) x, x ∈ a'.out →
        x ∈ (repeatN (fun a => expItems (fold cs) (openSpace (fold cs) false glob (body.toSpec false) (envOf fr) a).1
          (body.toSpec false) (openSpace (fold cs) false glob (body.toSpec false) (envOf fr) a).2) k a').out :=
      fun a' x hx => repeatN_out_mono (fun a'' x' h' => expItems_out_mono _ _ _ _ x' (by rw [openSpace_out]; exact h')) k a' x hx
    cases glob with
    | true =>
      simp only [iterOpen_stack_glob] at hnum ⊢
      have hs : StackIs st fr := by simpa [LoopStack] using hst
      simp only [if_true, List.nil_append, NumOK_append] at hnum
      have hordb : body.ordinary (!fr.isEmpty) = true := ordinary_mono body hord _
      have e1 : (openSpace (fold cs) false true (body.toSpec false) (envOf fr) a) = (envOf fr, a) := by
        simp [openSpace]
      simp only [e1] at hnf ⊢
      have h1 := hb st fr a hs hi hno hordb (hlab rfl) hnum.1 (fun x hx => hnf x (hmono _ x hx))
      have hs' : LoopStack true false (execItems body.toModel st) fr := by
        simpa [LoopStack] using hs.of_frame (execItems_frame _ _)
      have h2 := ih false (execItems body.toModel st) _ hs' h1.inside (by rw [h1.next]; exact hnum.2) hnf
      refine ⟨?_, ?_, h2.inside⟩
      · rw [h2.out, h1.out]
        simp
      · rw [h2.next, h1.next]
        simp only [if_true, List.nil_append, List.length_append]
        omega
    | false =>
      obtain ⟨hm, hc⟩ := iterOpen_stack first st fr hst
      let f : Fr := ⟨(st.cnt : Int), a.next, dedup (labelsOf (fold cs) (body.toSpec false))⟩
      have hs : StackIs (iterOpen false first st) (f :: fr) := by
        unfold StackIs
        rw [hm, hc]
        rfl
      simp only [Bool.false_eq_true, if_false, List.cons_append, List.nil_append, NumOK, NumOK_append, hm] at hnum
      have hcnt : (iterOpen false first st).cnt = st.cnt + 1 := by simp [iterOpen_cnt]
      have hfns : ∀ k, k ∈ f.ns → 35 ∉ k := fun k hk => labelsOf_nohash cs body hnh k ((dedup_mem k _).mp hk)
      have hi1 : InsideF cs (iterOpen false first st) (f :: fr) a.defined (a.next + 1) := by
        refine ⟨by rw [iterOpen_g]; exact hi.cs, ?_, ?_, ?_, ?_, ?_, ?_, ?_, ?_⟩
        · intro g hg
          cases List.mem_cons.mp hg with
          | inl h => subst h; show (st.cnt : Int) ≠ -1; omega
          | inr h => exact hi.hpos g h
        · intro g hg k hk
          cases List.mem_cons.mp hg with
          | inl h => subst h; exact labelsOf_nobr cs body k ((dedup_mem k _).mp hk)
          | inr h => exact hi.nobr g h k hk
        · intro g hg k hk
          cases List.mem_cons.mp hg with
          | inl h => subst h; exact hfns k hk
          | inr h => exact hi.nohash g h k hk
        · intro g hg k
          rw [iterOpen_ltab]
          cases List.mem_cons.mp hg with
          | inl h =>
            subst h
            have h1 : hasKey st.ltab (k, (st.cnt : Int)) = false := by
              cases hh : hasKey st.ltab (k, (st.cnt : Int)) with
              | false => rfl
              | true => have := hi.tfresh _ hh; simp only [] at this; omega
            have h2 : (f.ns.contains k && a.defined.contains (uniqName k a.next)) = false := by
              cases hc1 : f.ns.contains k with
              | false => rfl
              | true =>
                simp only [Bool.true_and]
                apply Bool.eq_false_iff.mpr
                intro hd
                obtain ⟨k', i', he, hlt, hnh'⟩ := hi.dfresh _ (by simpa using hd)
                have := uniqName_inj _ _ _ _ (hfns k (by simpa using hc1)) hnh' he
                omega
            show hasKey st.ltab (k, (st.cnt : Int)) = (f.ns.contains k && a.defined.contains (uniqName k a.next))
            rw [h1, h2]
          | inr h => exact hi.tab g h k
        · refine List.pairwise_cons.mpr ⟨?_, hi.dist⟩
          intro g hg
          have := hi.below g hg
          constructor
          · show (st.cnt : Int) ≠ g.h; omega
          · show a.next ≠ g.id; omega
        · intro g hg
          rw [hcnt]
          cases List.mem_cons.mp hg with
          | inl h => subst h; exact ⟨by show (st.cnt : Int) < _; omega, by show a.next < _; omega⟩
          | inr h => have := hi.below g h; exact ⟨by omega, by omega⟩
        · intro key hk
          rw [iterOpen_ltab] at hk
          rw [hcnt]
          have := hi.tfresh key hk
          omega
        · intro u hu
          obtain ⟨k', i', he, hlt, hnh'⟩ := hi.dfresh u hu
          exact ⟨k', i', he, by omega, hnh'⟩
      have hno1 : ∀ g ∈ f :: fr, no g.h = g.id := by
        intro g hg
        cases List.mem_cons.mp hg with
        | inl h => subst h; exact hnum.1
        | inr h => exact hno g h
      have hlab1 : LabsIn cs (f :: fr) (body.toSpec false) := fun k hk => (dedup_mem k _).mpr hk
      have e1 : openSpace (fold cs) false false (body.toSpec false) (envOf fr) a =
          (envOf (f :: fr), { a with next := a.next + 1 }) := by
        simp [openSpace, envOf, frBinds, f]
      simp only [e1] at hnf ⊢
      have h1 := hb (iterOpen false first st) (f :: fr) { a with next := a.next + 1 } hs hi1 hno1
        (by simpa using hord) hlab1 hnum.2.1 (fun x hx => hnf x (hmono _ x hx))
      have hi2 := h1.inside.tail
      have hs' : LoopStack false false (execItems body.toModel (iterOpen false first st)) fr := by
        simp only [LoopStack, Bool.false_eq_true, or_self, if_false]
        rw [(execItems_frame _ _).conts, hc]
      have h2 := ih false (execItems body.toModel (iterOpen false first st))
        (expItems (fold cs) (envOf (f :: fr)) (body.toSpec false) { a with next := a.next + 1 }) hs' hi2
        (by rw [h1.next]; exact hnum.2.2) hnf
      refine ⟨?_, ?_, h2.inside⟩
      · rw [h2.out, h1.out]
        simp
      · rw [h2.next, h1.next]
        simp only [Bool.false_eq_true, if_false, List.cons_append, List.nil_append, List.length_cons, List.length_append]
        omega

mutual
theorem item_okF (cs : Bool) (no : Int → Nat) : ∀ (i : PItem), i.noHash = true → ItemOKF cs no i
  | .op o, _ => by
    intro st fr a hs hi hno hord hlab _ hnf
    obtain ⟨h1, h2⟩ := stmt_agreeF cs no st fr o a hs hi hno (opFits_of cs fr o hord hlab)
      (by simpa [PItem.toSpec, expItem] using hnf)
    refine ⟨?_, ?_, ?_⟩
    · simp only [PItem.toSpec, PItem.toModel, expItem, traceItem, expStmt_out, List.map_cons, List.map_nil,
        List.reverse_cons, List.reverse_nil, List.nil_append, List.singleton_append, h1]
    · simp [PItem.toSpec, PItem.toModel, expItem, openedItem, expStmt_next]
    · simpa [PItem.toModel, PItem.toSpec, execItem, expItem] using h2
  | .con m wh glob 0 body, _ => by
    intro st fr a hs hi hno hord hlab _ _
    refine ⟨?_, ?_, ?_⟩
    · simp [PItem.toSpec, PItem.toModel, expItem, traceItem, obsLoop, repeatN]
    · simp [PItem.toSpec, PItem.toModel, expItem, openedItem, obsLoop, repeatN]
    · simp only [PItem.toModel, PItem.toSpec, execItem, loop, expItem, repeatN]
      exact hi.of_eq (by rw [finish_g]) (by rw [finish_ltab]) (finish_cnt_ge wh glob (st, true))
  | .con m wh glob (n + 1) body, hn => by
    intro st fr a hs hi hno hord hlab hnum hnf
    have hnb : body.noHash = true := by simpa [PItem.noHash] using hn
    have hb := items_okF cs no body hnb
    have hlab' : glob = true → LabsIn cs fr (body.toSpec false) := by
      intro hg
      subst hg
      cases fr with
      | nil => trivial
      | cons f fr' =>
        intro k hk
        apply hlab
        simp [PItem.toSpec, labelsOf, hk]
    have hl := loop_okF cs no glob body hb fr hno (by simpa [PItem.ordinary] using hord) hnb hlab' (n + 1) true st a
      (by simp [LoopStack, hs]) hi (by simpa [PItem.toModel, openedItem] using hnum)
      (by simpa [PItem.toSpec, expItem] using hnf)
    refine ⟨?_, ?_, ?_⟩
    · simpa [PItem.toSpec, PItem.toModel, expItem, traceItem] using hl.out
    · simpa [PItem.toSpec, PItem.toModel, expItem, openedItem] using hl.next
    · simp only [PItem.toModel, PItem.toSpec, execItem, expItem, Bool.false_and]
      exact hl.inside.of_eq (by rw [finish_g]) (by rw [finish_ltab]) (finish_cnt_ge _ _ _)
theorem items_okF (cs : Bool) (no : Int → Nat) : ∀ (q : PItems), q.noHash = true → ItemsOKF cs no q
  | .nil, _ => by
    intro st fr a _ hi _ _ _ _ _
    exact ⟨by simp [PItems.toSpec, PItems.toModel, expItems, traceItems], by simp [PItems.toSpec, PItems.toModel, expItems, openedItems],
      by simpa [PItems.toModel, PItems.toSpec, execItems, expItems] using hi⟩
  | .cons i r, hn => by
    intro st fr a hs hi hno hord hlab hnum hnf
    simp only [PItems.noHash, Bool.and_eq_true] at hn
    simp only [PItems.ordinary, Bool.and_eq_true] at hord
    simp only [PItems.toModel, openedItems, NumOK_append] at hnum
    simp only [PItems.toSpec, expItems] at hnf
    have h1 := item_okF cs no i hn.1 st fr a hs hi hno hord.1 hlab.split.1 hnum.1
      (fun x hx => hnf x (expItems_out_mono _ _ _ _ x hx))
    have hs1 : StackIs (execItem i.toModel st) fr := hs.of_frame (execItem_frame _ _)
    have h2 := items_okF cs no r hn.2 (execItem i.toModel st) fr _ hs1 h1.inside hno hord.2 hlab.split.2
      (by rw [h1.next]; exact hnum.2) hnf
    refine ⟨?_, ?_, ?_⟩
    · simp only [PItems.toSpec, PItems.toModel, expItems, traceItems, h2.out, h1.out]
      simp
    · simp only [PItems.toSpec, PItems.toModel, expItems, openedItems, h2.next, h1.next, List.length_append]
      omega
    · simpa [PItems.toModel, PItems.toSpec, execItems, expItems] using h2.inside
end

/-- **the refinement in a pass that starts with an empty local table**, macro expansions read as loops of one iteration -/
theorem refines_first (p : PItems) (st : LSt) (hm : st.mom = -1) (hc : st.conts = []) (ht : st.ltab = [])
    (hord : p.ordinary false = true) (hnh : p.noHash = true)
    (hnf : ∀ x ∈ (expand (fold st.g.cs) (p.toSpec false)).1, x.2 = false) :
    (traceItems p.toModel st).map (render (openedItems p.toModel st)) =
      (expand (fold st.g.cs) (p.toSpec false)).1.map (·.1) := by
  have h := items_okF st.g.cs (spaceNo (openedItems p.toModel st)) p hnh st [] {}
    (by simp [StackIs, hm, hc])
    ⟨rfl, by simp, by simp, by simp, by simp, List.Pairwise.nil, by simp, by simp [ht, hasKey, tfind], by simp⟩
    (by simp) (by simpa using hord) trivial (NumOK_spaceNo _ (openedItems_nodup _ _))
    (by simpa [expand, envOf] using hnf)
  have := h.out
  simp only [envOf, List.map_nil, List.append_nil] at this
  simp only [expand, List.map_reverse, this, List.reverse_reverse]
  rfl

end AslModel.SymLoc
