import AslModel.Model.TagsCtx
/-! Lemmas for Props/C11_Ctx.lean: the tag machine of Model/TagsCtx.lean against the structural expansion of
Spec/MacroCtx.lean (big-step lemma for every item / body, under every input tag), the file-name invariant, and the
label memory of `Produce_Code` across lines that open a construct. -/
namespace AslModel.Ctx
open AslModel.CtxSpec

/-! ## bodies -/

def bapp : Body → Body → Body
  | .nil, r => r
  | .cons i b, r => .cons i (bapp b r)

theorem bapp_nil : ∀ b : Body, bapp b .nil = b
  | .nil => rfl
  | .cons i r => by simp [bapp, bapp_nil r]

@[simp] theorem setCur_cur (t : Tag) (b : Body) : (t.setCur b).cur = b := by cases t <;> rfl

@[simp] theorem setCur_setCur (t : Tag) (a b : Body) : (t.setCur a).setCur b = t.setCur b := by cases t <;> rfl

/-! ## runs -/

inductive Steps (fs : FS) : St → St → Prop
  | refl (s : St) : Steps fs s s
  | cons {s s1 s2 : St} : step fs s = some s1 → Steps fs s1 s2 → Steps fs s s2

theorem Steps.trans {fs : FS} {a b c : St} (h1 : Steps fs a b) (h2 : Steps fs b c) : Steps fs a c := by
  induction h1 with
  | refl => exact h2
  | cons hs _ ih => exact .cons hs (ih h2)

theorem Steps.one {fs : FS} {a b : St} (h : step fs a = some b) : Steps fs a b := .cons h (.refl b)

theorem run_halt (fs : FS) (s : St) (h : step fs s = none) : ∀ n, run fs n s = s
  | 0 => rfl
  | n + 1 => by simp [run, h]

/-- a run of the relation is a run of the fuel-driven machine; once it has halted more fuel changes nothing -/
theorem run_of_steps {fs : FS} {a b : St} (h : Steps fs a b) (hb : step fs b = none) : ∃ k, ∀ fuel, k ≤ fuel → run fs fuel a = b := by
  induction h with
  | refl s => exact ⟨0, fun n _ => run_halt fs s hb n⟩
  | cons hs _ ih =>
    obtain ⟨k, hk⟩ := ih hb
    refine ⟨k + 1, fun fuel hf => ?_⟩
    obtain ⟨m, rfl⟩ : ∃ m, fuel = m + 1 := ⟨fuel - 1, by omega⟩
    simp only [run, hs]
    exact hk m (by omega)

/-- the step on a tag that still has a statement -/
theorem step_cons (fs : FS) (c : Path) (t : Tag) (i : Item) (x : Body) (rest : List Tag) (evs : List Ev) :
    step fs ⟨c, t.setCur (.cons i x) :: rest, evs, false⟩ = some (exec fs ⟨c, t.setCur x :: rest, evs, false⟩ i) := by
  cases t <;> rfl

/-! ## the file search: what the manual's rule finds, `FSearch` finds -/

theorem find_cons_some {α : Type} (p : α → Bool) (a : α) (l l' : List α) (x : α)
    (h : (a :: l).find? p = some x) (hl : p a = false → l.find? p = some x → l'.find? p = some x) :
    (a :: l').find? p = some x := by
  by_cases ha : p a = true
  · simp [List.find?, ha] at h ⊢
    exact h
  · have ha' : p a = false := by simpa using ha
    simp [List.find?, ha'] at h ⊢
    exact hl ha' h

theorem search_fsearch (fs : FS) (file : Path) (f : FName) (p : Path) (h : search fs file f = some p) :
    fsearch fs file f = some p := by
  unfold search places at h
  unfold fsearch candidates
  by_cases ha : f.abs = true
  · simp only [ha, if_true] at h ⊢
    exact find_cons_some _ _ _ _ _ h (fun _ h' => by simp at h')
  · have ha' : f.abs = false := by simpa using ha
    simp only [ha', Bool.false_eq_true, if_false] at h ⊢
    apply find_cons_some _ _ _ _ _ h
    intro _ h'
    by_cases hl : f.comps.length > 1
    · simp [hl] at h'
    · simp only [hl, if_false] at h'
      unfold inclEntries
      by_cases he : fs.incl.isEmpty = true
      · have : fs.incl = [] := by simpa using he
        simp [this] at h'
      · have he' : fs.incl.isEmpty = false := by simpa using he
        simp only [he', Bool.false_eq_true, if_false]
        exact h'

/-! ## big-step lemma -/

/-- the expansion of included files is carried out by the machine, under whatever tag -/
def IncOK (fs : FS) (inc : Path → Body → Option (List Flat)) : Prop :=
  ∀ p b o, inc p b = some o → ∀ (t : Tag) (r : Body) (rest : List Tag) (evs : List Ev),
    ∃ evs', Steps fs ⟨p, t.setCur (bapp b r) :: rest, evs, false⟩ ⟨p, t.setCur r :: rest, evs ++ evs', false⟩ ∧
      evs'.flatMap hand = o

/-- the deliveries of a body tag -/
theorem loop_iter (fs : FS) (file : Path) (body : Body) (ob : List Flat)
    (hb : ∀ (t : Tag) (r : Body) (rest : List Tag) (evs : List Ev),
      ∃ evs', Steps fs ⟨file, t.setCur (bapp body r) :: rest, evs, false⟩ ⟨file, t.setCur r :: rest, evs ++ evs', false⟩ ∧
        evs'.flatMap hand = ob) :
    ∀ (m : Nat) (stack : List Tag) (evs : List Ev),
      ∃ evs', Steps fs ⟨file, .body body m body :: stack, evs, false⟩ ⟨file, stack, evs ++ evs', false⟩ ∧
        evs'.flatMap hand = (List.replicate (m + 1) ob).flatten := by
  intro m
  induction m with
  | zero =>
    intro stack evs
    obtain ⟨e1, h1, ho⟩ := hb (.body body 0 body) .nil stack evs
    simp only [Tag.setCur, bapp_nil] at h1
    refine ⟨e1, h1.trans (Steps.one rfl), ?_⟩
    simp [ho]
  | succ m ih =>
    intro stack evs
    obtain ⟨e1, h1, ho⟩ := hb (.body body (m + 1) body) .nil stack evs
    simp only [Tag.setCur, bapp_nil] at h1
    obtain ⟨e2, h2, ho2⟩ := ih stack (evs ++ e1)
    have hs : step fs ⟨file, .body body (m + 1) .nil :: stack, evs ++ e1, false⟩ =
        some ⟨file, .body body m body :: stack, evs ++ e1, false⟩ := rfl
    refine ⟨e1 ++ e2, ?_, ?_⟩
    · rw [← List.append_assoc]
      exact h1.trans ((Steps.one hs).trans h2)
    · rw [List.flatMap_append, ho, ho2, List.replicate_succ (n := m + 1)]
      simp

mutual
theorem exec_item (fs : FS) (inc : Path → Body → Option (List Flat)) (hinc : IncOK fs inc) :
    ∀ (i : Item) (file : Path) (o : List Flat), expItem inc fs file i = some o →
    ∀ (stack : List Tag) (evs : List Ev),
      ∃ evs', Steps fs (exec fs ⟨file, stack, evs, false⟩ i) ⟨file, stack, evs ++ evs', false⟩ ∧ evs'.flatMap hand = o
  | .stmt id lab op, file, o, h, stack, evs => by
    simp only [expItem, Option.some.injEq] at h
    exact ⟨[.line id lab op], .refl _, by simp [hand, h]⟩
  | .bincl lab f, file, o, h, stack, evs => by
    simp only [expItem] at h
    split at h
    · cases h
    · rename_i p hp
      have hf := search_fsearch fs file f p hp
      split at h
      · rename_i d hd
        simp only [Option.some.injEq] at h
        refine ⟨[.bin lab d], ?_, by simp [hand, h]⟩
        simp only [exec, hf, hd]
        exact .refl _
      · cases h
  | .incl lab f, file, o, h, stack, evs => by
    simp only [expItem] at h
    split at h
    · cases h
    · rename_i p hp
      have hf := search_fsearch fs file f p hp
      split at h
      · rename_i b hb
        cases hi : inc p b with
        | none => simp [hi] at h
        | some o' =>
          simp only [hi, Option.map_some, Option.some.injEq] at h
          obtain ⟨e, he, ho⟩ := hinc p b o' hi (.file p file b) .nil stack (evs ++ [.included lab])
          simp only [Tag.setCur, bapp_nil] at he
          have hs : step fs ⟨p, .file p file .nil :: stack, evs ++ [.included lab] ++ e, false⟩ =
              some ⟨file, stack, evs ++ [.included lab] ++ e, false⟩ := rfl
          refine ⟨[.included lab] ++ e, ?_, ?_⟩
          · simp only [exec, hf, hb]
            rw [← List.append_assoc]
            exact he.trans (Steps.one hs)
          · rw [List.flatMap_append, ho, ← h]
            simp [hand]
      · cases h
  | .loop k lab n body, file, o, h, stack, evs => by
    simp only [expItem] at h
    cases hb : expBody inc fs file body with
    | none => simp [hb] at h
    | some ob =>
      simp only [hb, Option.map_some, Option.some.injEq] at h
      cases n with
      | zero =>
        refine ⟨[.opened k lab], ?_, ?_⟩
        · simp only [exec, if_true]
          exact .refl _
        · simp [hand, ← h]
      | succ m =>
        obtain ⟨e, he, ho⟩ := loop_iter fs file body ob
          (fun t r rest evs => exec_body fs inc hinc body file ob hb t r rest evs) m stack (evs ++ [.opened k lab])
        refine ⟨[.opened k lab] ++ e, ?_, ?_⟩
        · have : exec fs ⟨file, stack, evs, false⟩ (.loop k lab (m + 1) body) =
              ⟨file, .body body m body :: stack, evs ++ [.opened k lab], false⟩ := by
            simp [exec]
          rw [this, ← List.append_assoc]
          exact he
        · rw [List.flatMap_append, ho, ← h]
          simp [hand]
theorem exec_body (fs : FS) (inc : Path → Body → Option (List Flat)) (hinc : IncOK fs inc) :
    ∀ (b : Body) (file : Path) (o : List Flat), expBody inc fs file b = some o →
    ∀ (t : Tag) (r : Body) (rest : List Tag) (evs : List Ev),
      ∃ evs', Steps fs ⟨file, t.setCur (bapp b r) :: rest, evs, false⟩ ⟨file, t.setCur r :: rest, evs ++ evs', false⟩ ∧
        evs'.flatMap hand = o
  | .nil, file, o, h, t, r, rest, evs => by
    simp only [expBody, Option.some.injEq] at h
    exact ⟨[], by simpa [bapp] using Steps.refl _, by simp [h]⟩
  | .cons i b, file, o, h, t, r, rest, evs => by
    simp only [expBody] at h
    cases hi : expItem inc fs file i with
    | none => simp [hi] at h
    | some oa =>
      cases hb : expBody inc fs file b with
      | none => simp [hi, hb] at h
      | some ob =>
        simp only [hi, hb, Option.some.injEq] at h
        obtain ⟨e1, h1, ho1⟩ := exec_item fs inc hinc i file oa hi (t.setCur (bapp b r) :: rest) evs
        obtain ⟨e2, h2, ho2⟩ := exec_body fs inc hinc b file ob hb t r rest (evs ++ e1)
        refine ⟨e1 ++ e2, ?_, ?_⟩
        · rw [← List.append_assoc]
          simp only [bapp]
          exact (Steps.one (step_cons fs file t i (bapp b r) rest evs)).trans (h1.trans h2)
        · rw [List.flatMap_append, ho1, ho2, h]
end

theorem incOK_expand (fs : FS) : ∀ d, IncOK fs (fun p b => expand fs d p b)
  | 0 => by
    intro p b o h
    simp [expand] at h
  | d + 1 => by
    intro p b o h t r rest evs
    simp only [expand] at h
    exact exec_body fs _ (incOK_expand fs d) b p o h t r rest evs

/-! ## the file-name invariant -/

/-- `SpecName` of the innermost INCLUDE tag of a chain -/
def innerFile : List Tag → Path
  | [] => []
  | .file name _ _ :: _ => name
  | .body _ _ _ :: r => innerFile r

/-- every INCLUDE tag has saved the name of the file below it -/
def ChainOK : List Tag → Prop
  | [] => True
  | .file _ save _ :: r => save = innerFile r ∧ ChainOK r
  | .body _ _ _ :: r => ChainOK r

def Inv (s : St) : Prop := s.curr = innerFile s.stack ∧ ChainOK s.stack

theorem innerFile_setCur (t : Tag) (b : Body) (r : List Tag) : innerFile (t.setCur b :: r) = innerFile (t :: r) := by
  cases t <;> rfl

theorem chainOK_setCur (t : Tag) (b : Body) (r : List Tag) : ChainOK (t.setCur b :: r) ↔ ChainOK (t :: r) := by
  cases t <;> exact Iff.rfl

theorem exec_inv (fs : FS) (s : St) (i : Item) (h : Inv s) : Inv (exec fs s i) := by
  cases i with
  | stmt id lab op => exact h
  | bincl lab f =>
    simp only [exec]
    split
    · exact h
    · split <;> exact h
  | incl lab f =>
    simp only [exec]
    split
    · exact h
    · split
      · exact ⟨rfl, h.1, h.2⟩
      · exact h
  | loop k lab n body =>
    simp only [exec]
    split
    · exact h
    · exact h

theorem step_inv (fs : FS) (s s' : St) (h : Inv s) (hs : step fs s = some s') : Inv s' := by
  unfold step at hs
  split at hs
  · cases hs
  · split at hs
    · cases hs
    · rename_i t rest hst
      split at hs
      · rename_i i r hc
        cases hs
        apply exec_inv
        have h1 := h.1
        have h2 := h.2
        rw [hst] at h1 h2
        exact ⟨by rw [innerFile_setCur]; exact h1, (chainOK_setCur t r rest).2 h2⟩
      · have h1 := h.1
        have h2 := h.2
        rw [hst] at h1 h2
        split at hs
        · cases hs
          exact ⟨h2.1, h2.2⟩
        · cases hs
          exact ⟨h1, h2⟩
        · cases hs
          exact ⟨h1, h2⟩

/-! ## the label of a line that opens a construct -/

theorem produce_opened (q : Quirks) (pad : Bool) (c : Core) (k : LKind) (lab : Option Nat) :
    produce q pad c (.opened k lab) = ((labelLine lab).map Flat.toEv).foldl (produce q pad) c := by
  cases k <;> cases lab <;> rfl

theorem produce_included (q : Quirks) (pad : Bool) (c : Core) (lab : Option Nat) (hq : q.inclResetsLabel = false) :
    produce q pad c (.included lab) = ((labelLine lab).map Flat.toEv).foldl (produce q pad) c := by
  cases lab <;> simp [produce, resetLastLabel, hq, evHasOp, evLabel, evOp, emit, labelLine, Flat.toEv, hasOp, labelHandle]

/-- an INCLUDE line the quirk cannot show on -/
def Harmless (q : Quirks) (e : Ev) : Prop := q.inclResetsLabel = false ∨ ∀ lab, e ≠ .included lab

theorem foldl_hand (q : Quirks) (pad : Bool) : ∀ (evs : List Ev) (c : Core), (∀ e ∈ evs, Harmless q e) →
    evs.foldl (produce q pad) c = ((evs.flatMap hand).map Flat.toEv).foldl (produce q pad) c
  | [], _, _ => rfl
  | e :: evs, c, h => by
    have ih := fun c => foldl_hand q pad evs c (fun e he => h e (List.mem_cons_of_mem _ he))
    simp only [List.foldl_cons, List.flatMap_cons, List.map_append, List.foldl_append]
    rw [ih]
    congr 1
    cases e with
    | line id lab op => rfl
    | bin lab d => rfl
    | opened k lab => exact produce_opened q pad c k lab
    | included lab =>
      rcases h _ (List.mem_cons_self ..) with hq | hn
      · exact produce_included q pad c lab hq
      · exact absurd rfl (hn lab)

/-! ## without padding the label memory is never read -/

/-- the same code and the same symbol table -/
def Same (a b : Core) : Prop := a.mem = b.mem ∧ a.syms = b.syms

theorem same_handle (a b : Core) (h : Same a b) (lab : Option Nat) : Same (labelHandle a lab) (labelHandle b lab) := by
  cases lab with
  | none => exact h
  | some l => exact ⟨h.1, by simp [labelHandle, Core.pc, h.1, h.2]⟩

theorem same_emit (a b : Core) (h : Same a b) (op : Op) : Same (emit false a op) (emit false b op) := by
  cases op with
  | none => exact h
  | other => exact h
  | code al bytes => exact ⟨by simp [emit, align, h.1], by simp [emit, align, h.2]⟩
  | ref al big size l => exact ⟨by simp [emit, align, h.1, lookupSym, h.2], by simp [emit, align, h.2]⟩

theorem same_reset (a b : Core) (h : Same a b) (x y : Bool) :
    Same (if x then labelReset a else a) (if y then labelReset b else b) := by
  cases x <;> cases y <;> exact h

theorem same_produce (q q' : Quirks) (a b : Core) (h : Same a b) (e : Ev) : Same (produce q false a e) (produce q' false b e) := by
  unfold produce
  exact same_reset _ _ (same_emit _ _ (same_handle a b h _) _) _ _

theorem same_included (q : Quirks) (a b : Core) (h : Same a b) (lab : Option Nat) :
    Same (produce q false a (.included lab)) (((labelLine lab).map Flat.toEv).foldl (produce q false) b) := by
  have h1 : Same (produce q false a (.included lab)) (produce ⟨false⟩ false b (.included lab)) := same_produce q ⟨false⟩ a b h _
  rw [produce_included ⟨false⟩ false b lab rfl] at h1
  cases lab with
  | none => exact h1
  | some l =>
    refine ⟨h1.1.trans ?_, h1.2.trans ?_⟩ <;> rfl

theorem same_foldl_hand (q : Quirks) : ∀ (evs : List Ev) (a b : Core), Same a b →
    Same (evs.foldl (produce q false) a) (((evs.flatMap hand).map Flat.toEv).foldl (produce q false) b)
  | [], _, _, h => h
  | e :: evs, a, b, h => by
    simp only [List.foldl_cons, List.flatMap_cons, List.map_append, List.foldl_append]
    apply same_foldl_hand q evs
    cases e with
    | line id lab op => exact same_produce q q a b h _
    | bin lab d => exact same_produce q q a b h _
    | opened k lab =>
      show Same _ (List.foldl (produce q false) b (List.map Flat.toEv (labelLine lab)))
      rw [← produce_opened q false b k lab]
      exact same_produce q q a b h _
    | included lab => exact same_included q a b h lab

theorem run_inv (fs : FS) : ∀ (n : Nat) (s : St), Inv s → Inv (run fs n s)
  | 0, _, h => h
  | n + 1, s, h => by
    simp only [run]
    split
    · exact h
    · rename_i s' hs
      exact run_inv fs n s' (step_inv fs s s' h hs)

/-- the events of `dc.b 1 / l1 include "w.inc" / dc.l l1` with `dc.w 7` in the file -/
def findingEvs : List Ev :=
  [.line 1 none (.code false [1]), .included (some 1), .line 3 none (.code true [0, 7]), .line 2 none (.ref true true 4 1)]

end AslModel.Ctx
