import AslModel.Lemmas.AddrLab
import AslModel.Model.AddrLabPre
/-!
# Helper lemmas for the whole-program refinement of `Props/C10_Lab.lean` (`C10_lab_refine`)

The executable definitions (`erase`, `preLine`, `runPre`, `Pre`) are in `Model/AddrLabPre.lean`.  Here:

* `erase (flatM i p) = expandS i p` for source programs (`erase_flatM`);
* `SymsRel`, `Rel`: the simulation relation between the MODEL state and the SPEC state (same symbols in the same order with the
  SPEC's values where the text determines them; counters, frame, label memory, cells, error lines);
* the SPEC's `place` and the MODEL's label part / `InsertPadding` / `WriteCode`, field by field (`place_out`, `syms_place`, `place_C`);
* `sim_place`: one line that places an object.
The other lines, the run and the reservation corollary are in `Lemmas/AddrLabSim.lean`.
-/
namespace AslModel.AddrLabRefine
open AslModel.PFile (Byte b)
open AslModel.Data AslModel.DataModel AslModel.AddrLab AslModel.AddrLabModel AslModel.AddrLabLemmas

/-! ## the two line lists -/

theorem erase_append : ∀ (a c : List Line), erase (a ++ c) = erase a ++ erase c
  | [], _ => rfl
  | x :: a, c => by simp [erase, erase_append a c]

theorem eraseLine_subst (v : Nat) (l : Line) : eraseLine (substLine v l) = (eraseLine l).map (substLine v) := by
  obtain ⟨src, lab, op⟩ := l
  cases op <;> cases lab <;> simp [eraseLine, substLine, substOp]

theorem erase_map_subst (v : Nat) : ∀ (ls : List Line), erase (ls.map (substLine v)) = (erase ls).map (substLine v)
  | [] => rfl
  | l :: ls => by simp [erase, eraseLine_subst, erase_map_subst v ls]

theorem erase_iterLines (body : List Line) : ∀ (args : List Nat), erase (iterLines body args) = iterLines (erase body) args
  | [] => rfl
  | a :: as => by simp [iterLines, erase_append, erase_map_subst, erase_iterLines body as]

theorem eraseLine_plain (src : Nat) (l : Option Nat) (op : Op) (h : isOpener op = false) : eraseLine ⟨src, l, op⟩ = [⟨src, l, op⟩] := by
  cases op <;> simp_all [eraseLine, isOpener]

mutual
theorem erase_flatNode (src : Nat) : ∀ (n : Node), srcNode n = true → erase (flatNode src n) = expandNode src n
  | .line l op, h => by
    have h' : isOpener op = false := by simpa [srcNode] using h
    simp [flatNode, expandNode, erase, eraseLine_plain src l op h']
  | .rep l args body, h => by
    have h' : srcNodes body = true := by simpa [srcNode] using h
    simp only [flatNode, expandNode, erase, erase_iterLines, erase_flatNodes src body h']
    cases l <;> simp [eraseLine]
theorem erase_flatNodes (src : Nat) : ∀ (ns : Nodes), srcNodes ns = true → erase (flatNodes src ns) = expandNodes src ns
  | .nil, _ => rfl
  | .cons n ns, h => by
    have h' : srcNode n = true ∧ srcNodes ns = true := by simpa [srcNodes] using h
    simp [flatNodes, expandNodes, erase_append, erase_flatNode src n h'.1, erase_flatNodes src ns h'.2]
end

/-- **the SPEC's lines are the MODEL's lines with the opening lines taken out** -/
theorem erase_flatM : ∀ (i : Nat) (p : Nodes), srcNodes p = true → erase (flatM i p) = expandS i p
  | _, .nil, _ => rfl
  | i, .cons n ns, h => by
    have h' : srcNode n = true ∧ srcNodes ns = true := by simpa [srcNodes] using h
    simp [flatM, expandS, erase_append, erase_flatNode i n h'.1, erase_flatM (i + 1) ns h'.2]

/-! ## symbol tables -/

/-- one entry: the same symbol; where the text determines the value, it is the MODEL's -/
def SymRel (e : Sym × Int) (f : Sym × Option Int) : Prop := e.1 = f.1 ∧ ∀ v, f.2 = some v → e.2 = v

/-- the two symbol tables hold the same symbols in the same order of definition, with `SymRel` values -/
def SymsRel : List (Sym × Int) → List (Sym × Option Int) → Prop
  | [], [] => True
  | e :: ms, f :: ss => SymRel e f ∧ SymsRel ms ss
  | _, _ => False

theorem SymsRel_append : ∀ (ms : List (Sym × Int)) (ss : List (Sym × Option Int)) (e : Sym × Int) (f : Sym × Option Int),
    SymsRel ms ss → SymRel e f → SymsRel (ms ++ [e]) (ss ++ [f])
  | [], [], _, _, _, h => ⟨h, trivial⟩
  | [], _ :: _, _, _, h, _ => h.elim
  | _ :: _, [], _, _, h, _ => h.elim
  | _ :: ms, _ :: ss, e, f, h, he => ⟨h.1, SymsRel_append ms ss e f h.2 he⟩

theorem SymsRel_any (k : Sym) : ∀ (ms : List (Sym × Int)) (ss : List (Sym × Option Int)), SymsRel ms ss →
    ms.any (fun e => decide (e.1 = k)) = ss.any (fun e => decide (e.1 = k))
  | [], [], _ => rfl
  | [], _ :: _, h => h.elim
  | _ :: _, [], h => h.elim
  | e :: ms, f :: ss, h => by
    simp only [List.any_cons, SymsRel_any k ms ss h.2, h.1.1]

/-- `LabelModify` on the symbol table against the SPEC's `move` -/
theorem SymsRel_move (k : Sym) (v : Int) (w : Option Int) (hw : ∀ x, w = some x → v = x) :
    ∀ (ms : List (Sym × Int)) (ss : List (Sym × Option Int)), SymsRel ms ss →
    SymsRel (ms.map fun e => if e.1 = k then (k, v) else e) (move ss k w)
  | [], [], _ => trivial
  | [], _ :: _, h => h.elim
  | _ :: _, [], h => h.elim
  | e :: ms, f :: ss, h => by
    refine ⟨?_, SymsRel_move k v w hw ms ss h.2⟩
    have h1 := h.1
    unfold SymRel at h1 ⊢
    by_cases hk : e.1 = k
    · have hk' : f.1 = k := h1.1 ▸ hk
      simp only [hk, hk', if_true]
      exact ⟨by simp, fun x hx => hw x (by simpa using hx)⟩
    · have hk' : ¬ f.1 = k := fun hh => hk (h1.1.trans hh)
      simp only [hk, hk', if_false]
      exact h1

/-- labels the text does not cover any more -/
theorem SymsRel_moveAll_none (ks : List Sym) : ∀ (ms : List (Sym × Int)) (ss : List (Sym × Option Int)), SymsRel ms ss →
    SymsRel ms (moveAll ss ks none)
  | [], [], _ => trivial
  | [], _ :: _, h => h.elim
  | _ :: _, [], h => h.elim
  | e :: ms, f :: ss, h => by
    refine ⟨?_, SymsRel_moveAll_none ks ms ss h.2⟩
    have h1 := h.1
    unfold SymRel at h1 ⊢
    by_cases hc : ks.contains f.1 = true
    · simp only [hc, if_true]
      exact ⟨h1.1, fun v hv => by cases hv⟩
    · simp only [hc]
      exact h1

theorem setSym_fresh (ms : List (Sym × Int)) (k : Sym) (v : Int) (h : ms.any (fun e => decide (e.1 = k)) = false) :
    setSym ms k v = ms ++ [(k, v)] := by
  simp [setSym, h]

theorem setSym_present (ms : List (Sym × Int)) (k : Sym) (v : Int) (h : ms.any (fun e => decide (e.1 = k)) = true) :
    setSym ms k v = ms.map fun e => if e.1 = k then (k, v) else e := by
  simp [setSym, h]

theorem any_append_self (ms : List (Sym × Int)) (k : Sym) (v : Int) : (ms ++ [(k, v)]).any (fun e => decide (e.1 = k)) = true := by
  simp

theorem map_fresh (ms : List (Sym × Int)) (k : Sym) (v : Int) (h : ms.any (fun e => decide (e.1 = k)) = false) :
    (ms.map fun e => if e.1 = k then (k, v) else e) = ms := by
  induction ms with
  | nil => rfl
  | cons e t ih =>
    have h' : ¬ e.1 = k ∧ t.any (fun e => decide (e.1 = k)) = false := by simpa using h
    simp [h'.1, ih h'.2]

/-- a fresh label defined at `v0` and moved to `v` -/
theorem setSym_setSym_fresh (ms : List (Sym × Int)) (k : Sym) (v0 v : Int) (h : ms.any (fun e => decide (e.1 = k)) = false) :
    setSym (setSym ms k v0) k v = ms ++ [(k, v)] := by
  rw [setSym_fresh ms k v0 h, setSym_present _ k v (any_append_self ms k v0)]
  simp [map_fresh ms k v h]

theorem fresh_model (ms : List (Sym × Int)) (ss : List (Sym × Option Int)) (k : Sym) (h : SymsRel ms ss) (hf : fresh ss k = true) :
    ms.any (fun e => decide (e.1 = k)) = false := by
  rw [SymsRel_any k ms ss h]
  simpa [fresh] using hf

/-! ## the simulation relation -/

structure FrameRel (fm fs : Frame) (pc : Int) : Prop where
  name : fm.name = fs.name
  isUnion : fm.isUnion = fs.isUnion
  savePc : fm.savePc = fs.savePc
  saveNonneg : 0 ≤ fs.savePc
  /-- UNION: the counter stays 0, the recorded length is the SPEC's -/
  union : fs.isUnion = true → fm.maxLen = fs.maxLen ∧ 0 ≤ fs.maxLen ∧ pc = 0
  /-- STRUCT: `TotLen` (bumped by `AddStructElem` to the offsets of the labels) never exceeds the counter -/
  struct : fs.isUnion = false → fm.maxLen ≤ pc

def FrameOptRel : Option Frame → Option Frame → Int → Prop
  | none, none, _ => True
  | some fm, some fs, pc => FrameRel fm fs pc
  | _, _, _ => False

/-- `pLabelElement` / `pLabelEntry` against "the label of the line immediately before": the same label; `LabelValue` is the
address labels read now (nothing was placed since); the symbol is in the table -/
def LastRel (m : M) (s : S) : Prop :=
  match m.last, s.pending with
  | none, none => True
  | some la, some k => la.sym = k ∧ la.value = AddrLabModel.epc m ∧ la.isElem = m.frame.isSome ∧
      m.syms.any (fun e => decide (e.1 = k)) = true
  | _, _ => False

structure Rel (m : M) (s : S) : Prop where
  pc : m.pc = s.pc
  pcNonneg : 0 ≤ s.pc
  ph : m.ph = s.ph
  pstack : m.pstack = s.pstack
  padding : m.padding = s.padding
  frame : FrameOptRel m.frame s.frame s.pc
  last : LastRel m s
  syms : SymsRel m.syms s.syms
  cells : m.cells = s.cells
  errs : m.errs = s.errs

theorem Rel.frameSome {m : M} {s : S} (h : Rel m s) : m.frame.isSome = s.frame.isSome := by
  have := h.frame
  cases hm : m.frame <;> cases hs : s.frame <;> simp_all [FrameOptRel]

theorem Rel.epc {m : M} {s : S} (h : Rel m s) : AddrLabModel.epc m = AddrLab.epc s := by
  simp [AddrLabModel.epc, AddrLab.epc, h.frameSome, h.pc, h.ph]

theorem Rel_init (p : Bool) : Rel { padding := p } { padding := p } :=
  ⟨rfl, Int.le_refl _, rfl, rfl, rfl, trivial, trivial, trivial, rfl, rfl⟩

/-! ## the SPEC's `place`, field by field -/

def placeSyms (s : S) (ln : Line) (pad : Nat) : List (Sym × Option Int) :=
  let a : Int := AddrLab.epc s + pad
  let syms1 := match ln.label.map (symOf s) with | some k => define s.syms k (some a) | none => s.syms
  if pad != 0 && (ln.label.map (symOf s)).isNone then
    (match s.pending with | some k => moveAll (move syms1 k (some a)) s.older none | none => syms1)
  else syms1

def placeCells (s : S) (pad : Nat) (wr : Bool) (bytes : List Byte) : List (Nat × Byte) :=
  if !wr || s.frame.isSome then s.cells
  else s.cells ++ cellsAt s.pc.toNat (List.replicate pad 0) ++ cellsAt (s.pc.toNat + pad) bytes

structure PlaceOut (s : S) (ln : Line) (pad n : Nat) (wr : Bool) (bytes : List Byte) (s' : S) : Prop where
  ph : s'.ph = s.ph
  pstack : s'.pstack = s.pstack
  padding : s'.padding = s.padding
  errs : s'.errs = s.errs
  pending : s'.pending = none
  syms : s'.syms = placeSyms s ln pad
  cells : s'.cells = placeCells s pad wr bytes
  inFrame : s.frame.isSome = true → bytes = []
  none : s.frame = none → s'.pc = s.pc + pad + n ∧ s'.frame = none
  struct : ∀ f, s.frame = some f → f.isUnion = false → s'.pc = s.pc + pad + n ∧ s'.frame = some f
  union : ∀ f, s.frame = some f → f.isUnion = true → pad = 0 ∧ s'.pc = s.pc ∧ s'.frame = some { f with maxLen := max f.maxLen n }

theorem place_out (s : S) (ln : Line) (pad n : Nat) (wr : Bool) (bytes : List Byte) (s' : S) (hs : place s ln pad n wr bytes = .ok s') :
    PlaceOut s ln pad n wr bytes s' := by
  unfold place at hs
  cases hf : s.frame with
  | none =>
    simp only [hf, Bool.false_and, Option.isSome_none, Bool.false_eq_true, if_false, Step.ok.injEq] at hs
    subst hs
    refine ⟨rfl, rfl, rfl, rfl, rfl, rfl, by simp [placeCells, hf], by simp [hf], fun _ => ⟨rfl, rfl⟩, by simp [hf], by simp [hf]⟩
  | some f =>
    simp only [hf, Option.isSome_some, Bool.true_and] at hs
    split at hs
    · cases hs
    · split at hs
      · cases hs
      · rename_i h1 h2
        have hb : bytes = [] := by cases bytes <;> simp_all
        cases hu : f.isUnion with
        | false =>
          simp only [hu, Bool.false_eq_true, if_false, Step.ok.injEq] at hs
          subst hs
          refine ⟨rfl, rfl, rfl, rfl, rfl, rfl, by simp [placeCells, hf], fun _ => hb, by simp [hf], ?_, ?_⟩
          · intro g hg _; rw [hf] at hg; cases hg; exact ⟨rfl, rfl⟩
          · intro g hg hgu; rw [hf] at hg; cases hg; simp [hu] at hgu
        | true =>
          simp only [hu, if_true, Step.ok.injEq] at hs
          subst hs
          have hp : pad = 0 := by simpa [hu] using h1
          refine ⟨rfl, rfl, rfl, rfl, rfl, rfl, by simp [placeCells, hf], fun _ => hb, by simp [hf], ?_, ?_⟩
          · intro g hg hgu; rw [hf] at hg; cases hg; simp [hu] at hgu
          · intro g hg _; rw [hf] at hg; cases hg; exact ⟨hp, rfl, by simp [hu]⟩

/-! ## the MODEL's placing step, field by field -/

/-- the label part of `Produce_Code` -/
def labelStep (m : M) (ln : Line) : M :=
  match ln.label with
  | some l => if labelPresent ln then labelHandle m l else m
  | none => m

def padStep (c : Cfg) (m : M) : Option Bool → M
  | some r => insertPadding c m r
  | none => m

/-- `LabelReset()` at the end of `Produce_Code` -/
def finish (m : M) : M := { m with last := none }

def placeM (c : Cfg) (m : M) (ln : Line) (padM : Option Bool) (n : Nat) (bytes : List Byte) : M :=
  finish (writeCode (padStep c (labelStep m ln) padM) n bytes)

@[simp] theorem writeCode_syms (m : M) (n : Nat) (bs : List Byte) : (writeCode m n bs).syms = m.syms := by
  unfold writeCode; split <;> (try split) <;> rfl
@[simp] theorem writeCode_last (m : M) (n : Nat) (bs : List Byte) : (writeCode m n bs).last = m.last := by
  unfold writeCode; split <;> (try split) <;> rfl
@[simp] theorem writeCode_ph (m : M) (n : Nat) (bs : List Byte) : (writeCode m n bs).ph = m.ph := by
  unfold writeCode; split <;> (try split) <;> rfl
@[simp] theorem writeCode_pstack (m : M) (n : Nat) (bs : List Byte) : (writeCode m n bs).pstack = m.pstack := by
  unfold writeCode; split <;> (try split) <;> rfl
@[simp] theorem writeCode_padding (m : M) (n : Nat) (bs : List Byte) : (writeCode m n bs).padding = m.padding := by
  unfold writeCode; split <;> (try split) <;> rfl
@[simp] theorem writeCode_errs (m : M) (n : Nat) (bs : List Byte) : (writeCode m n bs).errs = m.errs := by
  unfold writeCode; split <;> (try split) <;> rfl
@[simp] theorem writeCode_frameSome (m : M) (n : Nat) (bs : List Byte) : (writeCode m n bs).frame.isSome = m.frame.isSome := by
  unfold writeCode; split <;> (try split) <;> simp_all

@[simp] theorem labelModify_pc (c : Cfg) (m : M) (o n : Int) : (labelModify c m o n).pc = m.pc := by
  unfold labelModify; split <;> (try split) <;> rfl
@[simp] theorem labelModify_ph (c : Cfg) (m : M) (o n : Int) : (labelModify c m o n).ph = m.ph := by
  unfold labelModify; split <;> (try split) <;> rfl
@[simp] theorem labelModify_pstack (c : Cfg) (m : M) (o n : Int) : (labelModify c m o n).pstack = m.pstack := by
  unfold labelModify; split <;> (try split) <;> rfl
@[simp] theorem labelModify_padding (c : Cfg) (m : M) (o n : Int) : (labelModify c m o n).padding = m.padding := by
  unfold labelModify; split <;> (try split) <;> rfl
@[simp] theorem labelModify_frame (c : Cfg) (m : M) (o n : Int) : (labelModify c m o n).frame = m.frame := by
  unfold labelModify; split <;> (try split) <;> rfl
@[simp] theorem labelModify_cells (c : Cfg) (m : M) (o n : Int) : (labelModify c m o n).cells = m.cells := by
  unfold labelModify; split <;> (try split) <;> rfl
@[simp] theorem labelModify_errs (c : Cfg) (m : M) (o n : Int) : (labelModify c m o n).errs = m.errs := by
  unfold labelModify; split <;> (try split) <;> rfl

/-- the byte `InsertPadding` hands to `WriteCode` -/
def padBytes (r : Bool) : List Byte := if r then [] else [0]

theorem insertPadding_eq (c : Cfg) (m : M) (r : Bool) :
    insertPadding c m r = labelModify c (writeCode m 1 (padBytes r)) (AddrLabModel.epc m) (AddrLabModel.epc (writeCode m 1 (padBytes r))) := rfl

/-- the symbol table after `InsertPadding` -/
theorem insertPadding_syms (c : Cfg) (m : M) (r : Bool) :
    (insertPadding c m r).syms =
      match m.last with
      | some la =>
        if AddrLabModel.epc m = la.value then
          (if la.isElem && !c.fixStruct then m.syms else setSym m.syms la.sym (AddrLabModel.epc (writeCode m 1 (padBytes r))))
        else m.syms
      | none => m.syms := by
  cases hl : m.last with
  | none => simp [insertPadding_eq, labelModify, hl]
  | some la =>
    simp only [insertPadding_eq, labelModify, writeCode_last, hl]
    split <;> simp

theorem epc_writeCode (m : M) (n : Nat) (bs : List Byte) (h : ∀ f, m.frame = some f → f.isUnion = false) :
    AddrLabModel.epc (writeCode m n bs) = AddrLabModel.epc m + n := by
  unfold writeCode AddrLabModel.epc
  cases hf : m.frame with
  | none => simp; omega
  | some f => simp [h f hf]

theorem writeCode_struct (m : M) (f : Frame) (hf : m.frame = some f) (hu : f.isUnion = false) (n : Nat) (bs : List Byte) :
    writeCode m n bs = { m with pc := m.pc + n } := by
  simp [writeCode, hf, hu]

theorem writeCode_union (m : M) (f : Frame) (hf : m.frame = some f) (hu : f.isUnion = true) (n : Nat) (bs : List Byte) :
    writeCode m n bs = { m with frame := some { f with maxLen := max f.maxLen n } } := by
  simp [writeCode, hf, hu]

/-- shape of the MODEL state right behind the label part of `Produce_Code`, seen from the SPEC state in front of the line -/
inductive LabShape (m1 : M) (s : S) (ln : Line) : Prop where
  | own (k : Sym) (ms : List (Sym × Int)) (hk : ln.label.map (symOf s) = some k)
        (hlast : m1.last = some ⟨k, m1.frame.isSome, AddrLabModel.epc m1⟩)
        (hsyms : m1.syms = ms ++ [(k, AddrLabModel.epc m1)]) (hrel : SymsRel ms s.syms)
        (hfresh : ms.any (fun e => decide (e.1 = k)) = false)
  | noown (hl : ln.label = none) (hlast : LastRel m1 s) (hsyms : SymsRel m1.syms s.syms)

theorem setSym_append_self (ms : List (Sym × Int)) (k : Sym) (v0 v : Int) (h : ms.any (fun e => decide (e.1 = k)) = false) :
    setSym (ms ++ [(k, v0)]) k v = ms ++ [(k, v)] := by
  rw [setSym_present _ k v (any_append_self ms k v0)]
  simp [map_fresh ms k v h]

/-- **the symbol tables after the pad byte** -/
theorem syms_place (c : Cfg) (m1 : M) (s : S) (ln : Line) (padM : Option Bool) (pad : Nat)
    (hpad : pad = match padM with | some _ => 1 | none => 0)
    (hepc : AddrLabModel.epc m1 = AddrLab.epc s) (hfr : m1.frame.isSome = s.frame.isSome)
    (hnu : pad ≠ 0 → ∀ f, m1.frame = some f → f.isUnion = false)
    (hsh : LabShape m1 s ln)
    (hK1 : pad ≠ 0 → s.frame.isSome = true → (ln.label ≠ none ∨ s.pending ≠ none) → c.fixStruct = true) :
    SymsRel (padStep c m1 padM).syms (placeSyms s ln pad) := by
  cases padM with
  | none =>
    subst hpad
    simp only [padStep, placeSyms, bne_self_eq_false, Bool.false_and, Bool.false_eq_true, if_false]
    cases hsh with
    | own k ms hk hlast hsyms hrel hfresh =>
      rw [hk, hsyms]
      exact SymsRel_append _ _ _ _ hrel ⟨rfl, fun v hv => by simp at hv; omega⟩
    | noown hl hlast hsyms =>
      simpa [hl] using hsyms
  | some r =>
    subst hpad
    have hnu' := hnu (by simp)
    have hK1' := hK1 (by simp)
    have he1 : AddrLabModel.epc (writeCode m1 1 (padBytes r)) = AddrLab.epc s + 1 := by
      rw [epc_writeCode m1 1 _ hnu', hepc]; rfl
    simp only [padStep, insertPadding_syms, placeSyms]
    cases hsh with
    | own k ms hk hlast hsyms hrel hfresh =>
      have hlab : ln.label ≠ none := by
        intro h; rw [h] at hk; simp at hk
      have hfix : (m1.frame.isSome && !c.fixStruct) = false := by
        cases hfs : m1.frame.isSome with
        | false => rfl
        | true => rw [hK1' (by rw [← hfr]; exact hfs) (Or.inl hlab)]; rfl
      rw [hlast, hk]
      simp only [if_true, hfix, Bool.false_eq_true, if_false, he1, hsyms]
      rw [setSym_append_self ms k _ _ hfresh]
      simp only [Option.isNone_some, Bool.and_false, Bool.false_eq_true, if_false]
      exact SymsRel_append _ _ _ _ hrel ⟨rfl, fun v hv => by simp at hv; omega⟩
    | noown hl hlast hsyms =>
      simp only [hl, Option.map_none, Option.isNone_none, Bool.and_true, show ((1 : Nat) != 0) = true from rfl, if_true]
      unfold LastRel at hlast
      cases hml : m1.last with
      | none =>
        rw [hml] at hlast
        cases hsp : s.pending with
        | none => simpa using hsyms
        | some k => rw [hsp] at hlast; exact hlast.elim
      | some la =>
        rw [hml] at hlast
        cases hsp : s.pending with
        | none => rw [hsp] at hlast; exact hlast.elim
        | some k =>
          rw [hsp] at hlast
          obtain ⟨h1, h2, h3, h4⟩ := hlast
          have hfix : (la.isElem && !c.fixStruct) = false := by
            rw [h3]
            cases hfs : m1.frame.isSome with
            | false => rfl
            | true => rw [hK1' (by rw [← hfr]; exact hfs) (Or.inr (by rw [hsp]; simp))]; rfl
          simp only [h2, if_true, hfix, Bool.false_eq_true, if_false, he1, h1]
          rw [setSym_present _ k _ h4]
          exact SymsRel_moveAll_none _ _ _ (SymsRel_move k _ _ (fun x hx => by cases hx; rfl) _ _ hsyms)

/-! ## counters, frame, cells -/

/-- the part of `Rel` that does not concern labels -/
structure RelC (m : M) (s : S) : Prop where
  pc : m.pc = s.pc
  pcNonneg : 0 ≤ s.pc
  ph : m.ph = s.ph
  pstack : m.pstack = s.pstack
  padding : m.padding = s.padding
  frame : FrameOptRel m.frame s.frame s.pc
  cells : m.cells = s.cells
  errs : m.errs = s.errs

theorem Rel.toC {m : M} {s : S} (h : Rel m s) : RelC m s := ⟨h.pc, h.pcNonneg, h.ph, h.pstack, h.padding, h.frame, h.cells, h.errs⟩

theorem RelC.frameSome {m : M} {s : S} (h : RelC m s) : m.frame.isSome = s.frame.isSome := by
  have := h.frame
  cases hm : m.frame <;> cases hs : s.frame <;> simp_all [FrameOptRel]

theorem RelC.epc {m : M} {s : S} (h : RelC m s) : AddrLabModel.epc m = AddrLab.epc s := by
  simp [AddrLabModel.epc, AddrLab.epc, h.frameSome, h.pc, h.ph]

theorem Rel.ofC {m : M} {s : S} (h : RelC m s) (hl : LastRel m s) (hs : SymsRel m.syms s.syms) : Rel m s :=
  ⟨h.pc, h.pcNonneg, h.ph, h.pstack, h.padding, h.frame, hl, hs, h.cells, h.errs⟩

theorem symOf_model (m : M) (s : S) (h : RelC m s) (l : Nat) : (⟨m.frame.map (·.name), some l⟩ : Sym) = symOf s l := by
  have := h.frame
  unfold symOf
  cases hm : m.frame <;> cases hs : s.frame <;> simp_all [FrameOptRel]
  exact this.name

theorem labelHandle_C (m : M) (s : S) (h : RelC m s) (l : Nat) : RelC (labelHandle m l) s := by
  have hf := h.frame
  unfold labelHandle
  cases hm : m.frame with
  | none => exact ⟨h.pc, h.pcNonneg, h.ph, h.pstack, h.padding, by simpa [hm] using hf, h.cells, h.errs⟩
  | some fm =>
    cases hs : s.frame with
    | none => rw [hm, hs] at hf; exact hf.elim
    | some fs =>
      rw [hm, hs] at hf
      have he : AddrLabModel.epc m = s.pc := by simp [AddrLabModel.epc, hm, h.pc]
      refine ⟨h.pc, h.pcNonneg, h.ph, h.pstack, h.padding, ?_, h.cells, h.errs⟩
      simp only [hs, he]
      refine ⟨hf.name, hf.isUnion, hf.savePc, hf.saveNonneg, ?_, ?_⟩
      · intro hu
        obtain ⟨h1, h2, h3⟩ := hf.union hu
        refine ⟨?_, h2, h3⟩
        simp only [h1, h3]
        omega
      · intro hu
        have := hf.struct hu
        simp only
        omega

theorem labelHandle_epc (m : M) (l : Nat) : AddrLabModel.epc (labelHandle m l) = AddrLabModel.epc m := by
  unfold labelHandle AddrLabModel.epc
  cases hm : m.frame <;> simp

theorem labelHandle_shape (m : M) (s : S) (h : Rel m s) (ln : Line) (l : Nat) (hl : ln.label = some l)
    (hfresh : fresh s.syms (symOf s l) = true) : LabShape (labelHandle m l) s ln := by
  have hk := symOf_model m s h.toC l
  have hfm := fresh_model m.syms s.syms _ h.syms hfresh
  refine .own (symOf s l) m.syms (by simp [hl]) ?_ ?_ h.syms hfm
  · rw [labelHandle_epc, ← hk]
    unfold labelHandle
    cases hm : m.frame <;> simp [AddrLabModel.epc, hm]
  · rw [labelHandle_epc, ← hk]
    rw [← hk] at hfm
    unfold labelHandle
    cases hm : m.frame with
    | none =>
      simp only [hm, Option.map_none] at hfm ⊢
      exact setSym_fresh _ _ _ hfm
    | some f =>
      simp only [hm, Option.map_some] at hfm ⊢
      exact setSym_fresh _ _ _ hfm

theorem padStep_keeps (c : Cfg) (m : M) (padM : Option Bool) :
    (padStep c m padM).ph = m.ph ∧ (padStep c m padM).pstack = m.pstack ∧ (padStep c m padM).padding = m.padding ∧
    (padStep c m padM).errs = m.errs := by
  cases padM <;> simp [padStep, insertPadding_eq]

theorem padStep_none (c : Cfg) (m : M) (padM : Option Bool) (hf : m.frame = none) :
    (padStep c m padM).frame = none ∧
    (padStep c m padM).pc = m.pc + (match padM with | some _ => 1 | none => 0 : Nat) ∧
    (padStep c m padM).cells = m.cells ++ (match padM with | some r => cellsAt m.pc.toNat (padBytes r) | none => []) := by
  cases padM with
  | none => simp [padStep, hf]
  | some r => simp [padStep, insertPadding_eq, writeCode_none _ hf, hf]

theorem padStep_struct (c : Cfg) (m : M) (padM : Option Bool) (f : Frame) (hf : m.frame = some f) (hu : f.isUnion = false) :
    (padStep c m padM).frame = some f ∧
    (padStep c m padM).pc = m.pc + (match padM with | some _ => 1 | none => 0 : Nat) ∧
    (padStep c m padM).cells = m.cells := by
  cases padM with
  | none => simp [padStep, hf]
  | some r => simp [padStep, insertPadding_eq, writeCode_struct _ f hf hu, hf]

theorem cellsAt_nil (a : Nat) : cellsAt a [] = [] := rfl

/-- **counters, frame and cells after the line** -/
theorem place_C (c : Cfg) (m1 : M) (s : S) (ln : Line) (padM : Option Bool) (pad n : Nat) (wr : Bool) (bytes : List Byte) (s' : S)
    (h : RelC m1 s) (hpad : pad = match padM with | some _ => 1 | none => 0)
    (hb : (padM = some false → wr = true) ∧ (padM = some true → wr = false)) (hwb : wr = false → bytes = [])
    (po : PlaceOut s ln pad n wr bytes s') :
    RelC (writeCode (padStep c m1 padM) n bytes) s' := by
  have hf := h.frame
  obtain ⟨k1, k2, k3, k4⟩ := padStep_keeps c m1 padM
  cases hm : m1.frame with
  | none =>
    cases hs : s.frame with
    | some fs => rw [hm, hs] at hf; exact hf.elim
    | none =>
      obtain ⟨q1, q2, q3⟩ := padStep_none c m1 padM hm
      obtain ⟨p1, p2⟩ := po.none hs
      have hb' := hb
      rw [writeCode_none _ q1]
      refine ⟨?_, ?_, by simp [k1, po.ph, h.ph], by simp [k2, po.pstack, h.pstack], by simp [k3, po.padding, h.padding], ?_, ?_,
        by simp [k4, po.errs, h.errs]⟩
      · simp only [q2, p1, h.pc, hpad]
      · rw [p1]; have := h.pcNonneg; omega
      · simp only [q1, p2]; trivial
      · simp only [q2, q3, po.cells, placeCells, h.cells, h.pc, hs]
        have hnn := h.pcNonneg
        cases padM with
        | none =>
          subst hpad
          cases wr with
          | false => simp [hwb rfl, cellsAt_nil]
          | true => simp [cellsAt_nil]
        | some r =>
          subst hpad
          cases r with
          | false =>
            have hw := hb'.1 rfl
            subst hw
            simp [padBytes, toNat_succ s.pc hnn, cellsAt]
          | true =>
            have hw := hb'.2 rfl
            subst hw
            simp [hwb rfl, padBytes, cellsAt_nil]
  | some fm =>
    cases hs : s.frame with
    | none => rw [hm, hs] at hf; exact hf.elim
    | some fs =>
      rw [hm, hs] at hf
      have hbe : bytes = [] := po.inFrame (by simp [hs])
      cases hu : fs.isUnion with
      | false =>
        have hum : fm.isUnion = false := hf.isUnion.trans hu
        obtain ⟨q1, q2, q3⟩ := padStep_struct c m1 padM fm hm hum
        obtain ⟨p1, p2⟩ := po.struct fs hs hu
        rw [writeCode_struct _ fm q1 hum]
        refine ⟨?_, ?_, by simp [k1, po.ph, h.ph], by simp [k2, po.pstack, h.pstack], by simp [k3, po.padding, h.padding], ?_, ?_,
          by simp [k4, po.errs, h.errs]⟩
        · simp only [q2, p1, h.pc, hpad]
        · rw [p1]; have := h.pcNonneg; omega
        · simp only [q1, p2]
          refine ⟨hf.name, hf.isUnion, hf.savePc, hf.saveNonneg, fun hh => by simp [hu] at hh, fun _ => ?_⟩
          have := hf.struct hu
          rw [p1]; omega
        · simp only [q3, po.cells, placeCells, hbe, h.cells, hs]
          simp
      | true =>
        have hum : fm.isUnion = true := hf.isUnion.trans hu
        obtain ⟨p0, p1, p2⟩ := po.union fs hs hu
        have hpn : padM = none := by
          cases padM with
          | none => rfl
          | some r => rw [p0] at hpad; simp at hpad
        subst hpn
        simp only [padStep]
        rw [writeCode_union _ fm hm hum]
        obtain ⟨u1, u2, u3⟩ := hf.union hu
        refine ⟨by simp [p1, h.pc], by rw [p1]; exact h.pcNonneg, by simp [po.ph, h.ph], by simp [po.pstack, h.pstack],
          by simp [po.padding, h.padding], ?_, ?_, by simp [po.errs, h.errs]⟩
        · simp only [p2, p1]
          refine ⟨hf.name, hf.isUnion, hf.savePc, hf.saveNonneg, fun _ => ⟨by simp only [u1], by simp only; omega, u3⟩,
            fun hh => by simp [hu] at hh⟩
        · simp only [po.cells, placeCells, hbe, h.cells, hs]
          simp

theorem RelC_finish {m : M} {s : S} (h : RelC m s) : RelC (finish m) s :=
  ⟨h.pc, h.pcNonneg, h.ph, h.pstack, h.padding, h.frame, h.cells, h.errs⟩

theorem labelStep_C (m : M) (s : S) (h : RelC m s) (ln : Line) : RelC (labelStep m ln) s := by
  unfold labelStep
  cases ln.label with
  | none => exact h
  | some l =>
    simp only
    split
    · exact labelHandle_C m s h l
    · exact h

theorem labelStep_shape (m : M) (s : S) (h : Rel m s) (ln : Line)
    (hlp : ∀ l, ln.label = some l → labelPresent ln = true)
    (hfresh : ∀ l, ln.label = some l → fresh s.syms (symOf s l) = true) : LabShape (labelStep m ln) s ln := by
  unfold labelStep
  cases hl : ln.label with
  | none => exact .noown hl h.last h.syms
  | some l =>
    simp only [hlp l hl, if_true]
    exact labelHandle_shape m s h ln l hl (hfresh l hl)

/-- **a line that places an object** (`bytes`, `n` units, behind an optional pad byte): MODEL and SPEC stay related -/
theorem sim_place (c : Cfg) (m : M) (s : S) (h : Rel m s) (ln : Line) (padM : Option Bool) (pad n : Nat) (wr : Bool) (bytes : List Byte) (s' : S)
    (hlp : ∀ l, ln.label = some l → labelPresent ln = true)
    (hfresh : ∀ l, ln.label = some l → fresh s.syms (symOf s l) = true)
    (hpad : pad = match padM with | some _ => 1 | none => 0)
    (hb : (padM = some false → wr = true) ∧ (padM = some true → wr = false)) (hwb : wr = false → bytes = [])
    (hK1 : pad ≠ 0 → s.frame.isSome = true → (ln.label ≠ none ∨ s.pending ≠ none) → c.fixStruct = true)
    (hs : place s ln pad n wr bytes = .ok s') :
    Rel (placeM c m ln padM n bytes) s' := by
  have po := place_out s ln pad n wr bytes s' hs
  have hc1 := labelStep_C m s h.toC ln
  have hsh := labelStep_shape m s h ln hlp hfresh
  have hnu : pad ≠ 0 → ∀ f, (labelStep m ln).frame = some f → f.isUnion = false := by
    intro hp f hf
    have hfr := hc1.frame
    rw [hf] at hfr
    cases hsf : s.frame with
    | none => rw [hsf] at hfr; exact hfr.elim
    | some fs =>
      rw [hsf] at hfr
      cases hu : fs.isUnion with
      | false => exact hfr.isUnion.trans hu
      | true => exact absurd (po.union fs hsf hu).1 hp
  have hc2 := place_C c (labelStep m ln) s ln padM pad n wr bytes s' hc1 hpad hb hwb po
  have hsy := syms_place c (labelStep m ln) s ln padM pad hpad hc1.epc hc1.frameSome hnu hsh hK1
  unfold placeM
  refine Rel.ofC (RelC_finish hc2) ?_ ?_
  · simp [LastRel, finish, po.pending]
  · simpa [finish, po.syms] using hsy

/-! ## the side conditions (`Model/AddrLabPre.lean`) -/

theorem outUnits_eq (o : Out) : outUnits o = outAdv o := by cases o <;> rfl

theorem preFresh_label (s : S) (ln : Line) (h : preFresh s ln = true) : ∀ l, ln.label = some l → fresh s.syms (symOf s l) = true := by
  intro l hl
  simp only [preFresh, hl, Bool.and_eq_true] at h
  exact h.1

theorem preKnown_K (c : Cfg) (big : Bool) (s : S) (ln : Line) (h : preKnown c big s ln = true) :
    padOfLine big s ln ≠ 0 → s.frame.isSome = true → (ln.label ≠ none ∨ s.pending ≠ none) → c.fixStruct = true := by
  unfold preKnown at h
  intro hp hf hx
  cases hlab : ln.label <;> cases hpe : s.pending <;> cases hfr : s.frame <;> simp_all

/-! ## lines that place nothing -/

theorem step_eq (c : Cfg) (m : M) (ln : Line) : AddrLabModel.step c m ln =
    match decode c (labelStep m ln) ln with
    | none => none
    | some m2 => some (if !opEmpty ln.op && resetLast ln.op then finish m2 else m2) := rfl

/-- the symbol tables behind the label part, when the SPEC gives the label of the line the value `w` -/
theorem nolay_syms (m : M) (s : S) (h : Rel m s) (ln : Line)
    (hlp : ∀ l, ln.label = some l → labelPresent ln = true)
    (hfresh : ∀ l, ln.label = some l → fresh s.syms (symOf s l) = true)
    (w : Option Int) (hw : ∀ x, w = some x → x = AddrLab.epc s) :
    SymsRel (labelStep m ln).syms (match ln.label with | some l => define s.syms (symOf s l) w | none => s.syms) := by
  have hc1 := labelStep_C m s h.toC ln
  cases labelStep_shape m s h ln hlp hfresh with
  | own k ms hk hlast hsyms hrel hfr =>
    cases hl : ln.label with
    | none => rw [hl] at hk; simp at hk
    | some l =>
      rw [hl] at hk
      simp only [Option.map_some, Option.some.injEq] at hk
      rw [hsyms, ← hk]
      exact SymsRel_append _ _ _ _ hrel ⟨rfl, fun x hx => by rw [hc1.epc]; exact (hw x hx).symm⟩
  | noown hl _ hsyms => simpa [hl] using hsyms

theorem labelStep_last_some (m : M) (s : S) (h : Rel m s) (ln : Line) (l : Nat) (hl : ln.label = some l)
    (hlp : labelPresent ln = true) (hfresh : fresh s.syms (symOf s l) = true) :
    LastRel (labelStep m ln) { s with syms := define s.syms (symOf s l) (some (AddrLab.epc s)), pending := some (symOf s l),
                                      older := s.older ++ s.pending.toList } := by
  cases labelStep_shape m s h ln (fun _ _ => hlp) (fun l' hl' => by rw [hl] at hl'; cases hl'; exact hfresh) with
  | own k ms hk hlast hsyms hrel hfr =>
    rw [hl] at hk
    simp only [Option.map_some, Option.some.injEq] at hk
    unfold LastRel
    rw [hlast]
    simp only
    refine ⟨hk.symm, trivial, trivial, ?_⟩
    rw [hsyms, hk]
    simp
  | noown hl' _ _ => rw [hl] at hl'; cases hl'

end AslModel.AddrLabRefine
