import AslModel.Model.PFileRead
/-! Helper lemmas for C03: fuel bound, exact re-serialisation, relation to the SPEC reader. -/
namespace AslModel.PFileRead
open AslModel.PFile

theorem preCheck_err (cfg : Cfg) (c g : Byte) (e : ToolErr) (h : preCheck cfg c g = .error e) :
    e = .badFamily ∨ e = .badGran := by
  unfold preCheck at h
  split at h
  · injection h with h; exact Or.inl h.symm
  · split at h
    · injection h with h; exact Or.inr h.symm
    · cases h

theorem preCheck_nofuel (cfg : Cfg) (c g : Byte) (h : preCheck cfg c g = .error .fuel) : False := by
  rcases preCheck_err _ _ _ _ h with h1 | h1 <;> cases h1

theorem readRecs_fuel (cfg : Cfg) : ∀ (f : Nat) (rest : List Byte), rest.length < f →
    readRecs cfg f rest ≠ .error .fuel := by
  intro f
  induction f with
  | zero => intro rest h; omega
  | succ f ih =>
    intro rest h
    have key : ∀ r : List Byte, r.length < f → ∀ e, readRecs cfg f r = .error e → e ≠ .fuel :=
      fun r hr e he hf => ih r hr (hf ▸ he)
    cases rest with
    | nil => simp [readRecs]
    | cons x xs =>
      simp only [List.length_cons] at h
      unfold readRecs
      repeat' split
      all_goals (try (simp; done))
      all_goals first
        | (rename_i heq; intro hh; injection hh with hh; subst hh
           exact preCheck_nofuel _ _ _ heq)
        | (rename_i heq; intro hh; injection hh with hh
           refine key _ ?_ _ heq hh
           simp only [List.length_cons, List.length_drop] at *; omega)

theorem b_eq (n : Nat) (x : Byte) (h : n % 256 = x.toNat) : b n = x := by
  apply UInt8.toNat_inj.mp
  simp [h]

theorem le16_rd16 (x y : Byte) : le16 (rd16 x y) = [x, y] := by
  have hx := x.toNat_lt
  have hy := y.toNat_lt
  simp only [le16, rd16]
  rw [b_eq _ x (by omega), b_eq _ y (by omega)]

theorem le32_rd32 (x y z w : Byte) : le32 (rd32 x y z w) = [x, y, z, w] := by
  have hx := x.toNat_lt
  have hy := y.toNat_lt
  have hz := z.toNat_lt
  have hw := w.toNat_lt
  simp only [le32, rd32]
  rw [b_eq _ x (by omega), b_eq _ y (by omega), b_eq _ z (by omega), b_eq _ w (by omega)]

theorem u8_const (x : Byte) (n : Nat) (h : x.toNat = n) : x = UInt8.ofNat n := by
  apply UInt8.toNat_inj.mp
  have := x.toNat_lt
  simp only [UInt8.toNat_ofNat']
  omega

theorem take_len {α} (n : Nat) (l : List α) (h : ¬ l.length < n) : (l.take n).length = n := by
  simp only [List.length_take]; omega

/-- the accepted record list re-serialises to exactly the bytes that were read: nothing skipped,
nothing read twice, nothing beyond the end -/
theorem readRecs_exact (cfg : Cfg) : ∀ (f : Nat) (rest : List Byte) (rs : List Record),
    readRecs cfg f rest = .ok rs → (rs.map Record.bytes).flatten = rest := by
  intro f
  induction f with
  | zero => intro rest rs h; simp [readRecs] at h
  | succ f ih =>
    intro rest rs h
    cases rest with
    | nil => simp [readRecs] at h
    | cons x xs =>
      unfold readRecs at h
      repeat' split at h
      all_goals (try (cases h; done))
      all_goals (injection h with h; subst h)
      all_goals first
        | (rename_i hx; have hx' : x = 0 := UInt8.toNat_inj.mp hx; subst hx'; simp [Record.bytes]; done)
        | (rename_i heq; have ihh := ih _ _ heq
           simp only [List.map_cons, List.flatten_cons, Record.bytes, List.cons_append, List.nil_append,
             List.append_assoc, le32_rd32, le16_rd16, List.length_take, ihh]
           try simp (disch := omega) only [Nat.min_eq_left, le16_rd16, List.take_append_drop, List.cons_append,
             List.nil_append]
           try (congr 1; first
             | exact (u8_const x 128 (by assumption)).symm
             | exact (u8_const x 133 (by assumption)).symm))


theorem parseItems_len : ∀ (f : Nat) (rest : List Byte) (is : List Item) (cr : List Byte),
    parseItems f rest = some (is, cr) → cr.length + 1 ≤ rest.length := by
  intro f
  induction f with
  | zero => intro rest is cr h; simp [parseItems] at h
  | succ f ih =>
    intro rest is cr h
    cases rest with
    | nil => simp [parseItems] at h
    | cons x xs =>
      simp only [parseItems] at h
      repeat' split at h
      all_goals (try (cases h; done))
      all_goals (injection h with h; injection h with h1 h2; subst h2)
      all_goals first
        | (simp; done)
        | (rename_i heq; have := ih _ _ _ heq
           simp only [List.length_cons, List.length_drop] at *; omega)

/-- an accepted record list that consists of documented kinds only is what the SPEC reader sees -/
theorem readRecs_sound (cfg : Cfg) : ∀ (f : Nat) (rest : List Byte) (rs : List Record) (x : List Item × List Byte),
    readRecs cfg f rest = .ok rs → toItems rs = some x → parseItems f rest = some x := by
  intro f
  induction f with
  | zero => intro rest rs x h; simp [readRecs] at h
  | succ f ih =>
    intro rest rs x h ht
    cases rest with
    | nil => simp [readRecs] at h
    | cons y ys =>
      unfold readRecs at h
      repeat' split at h
      all_goals (try (cases h; done))
      all_goals (injection h with h; subst h)
      all_goals (
        have e0 : (y = 0) = (y.toNat = 0) := by rw [← UInt8.toNat_inj]; rfl
        have e80 : (y = 0x80) = (y.toNat = 128) := by rw [← UInt8.toNat_inj]; rfl
        have e81 : (y = 0x81) = (y.toNat = 129) := by rw [← UInt8.toNat_inj]; rfl
        simp only [toItems] at ht)
      all_goals (repeat' split at ht)
      all_goals (try (cases ht; done))
      all_goals (injection ht with ht; subst ht)
      all_goals first
        | (simp only [parseItems, e0]; simp [*]; done)
        | (have hp := ih _ _ _ (by assumption) (by assumption)
           simp only [parseItems, e0, e80, e81]
           have hn0 : ¬ y.toNat = 0 := by omega
           first
             | (have h80 : y.toNat = 128 := by omega
                rw [if_neg hn0, if_pos h80, hp])
             | (have h81 : y.toNat = 129 := by omega
                have hn80 : ¬ y.toNat = 128 := by omega
                rw [if_neg hn0, if_neg hn80, if_pos h81]
                split
                · exfalso; omega
                · rw [hp])
             | (have hlt : y.toNat < 128 := by omega
                have hn81 : ¬ y.toNat = 129 := by omega
                have hn80 : ¬ y.toNat = 128 := by omega
                rw [if_neg hn0, if_neg hn80, if_neg hn81, if_pos hlt]
                split
                · exfalso; omega
                · rw [hp]))


/-- every file the SPEC reader accepts is accepted by the tool's loop with the same content, provided
enough bytes follow the last data record for the tool's length test and the tool's pre-checks pass -/
theorem readRecs_complete (cfg : Cfg) (hd : 0x81 ≤ cfg.dataUpTo) :
    ∀ (f : Nat) (rest : List Byte) (is : List Item) (cr : List Byte),
    parseItems f rest = some (is, cr) → cfg.slack ≤ cr.length + 1 →
    (∀ r ∈ dataRecs is, preCheck cfg r.cpu r.gran = .ok ()) →
    ∃ rs, readRecs cfg f rest = .ok rs ∧ toItems rs = some (is, cr) := by
  intro f
  induction f with
  | zero => intro rest is cr h; simp [parseItems] at h
  | succ f ih =>
    intro rest is cr h hs hpre
    cases rest with
    | nil => simp [parseItems] at h
    | cons y ys =>
      have e0 : (y = 0) = (y.toNat = 0) := by rw [← UInt8.toNat_inj]; rfl
      have e80 : (y = 0x80) = (y.toNat = 128) := by rw [← UInt8.toNat_inj]; rfl
      have e81 : (y = 0x81) = (y.toNat = 129) := by rw [← UInt8.toNat_inj]; rfl
      simp only [parseItems, e0, e80, e81] at h
      repeat' split at h
      all_goals (try (cases h; done))
      all_goals (injection h with h; injection h with h1 h2; subst h1; subst h2)
      · -- $00
        rename_i h0
        exact ⟨[.fin ys], by simp only [readRecs]; rw [if_pos h0], rfl⟩
      · -- $80
        rename_i hn0 h80 _ a0 a1 a2 a3 rest' _ is' cr' heq
        obtain ⟨rs, hr, ht⟩ := ih _ _ _ heq hs (fun r hr => hpre r (by simpa [dataRecs] using hr))
        refine ⟨.entry a0 a1 a2 a3 :: rs, ?_, by simp [toItems, ht]⟩
        simp only [readRecs]; rw [if_neg hn0, if_pos h80]; simp only [hr]
      · -- $81
        rename_i hn0 hn80 h81 _ cpu seg gran a0 a1 a2 a3 l0 l1 rest' hlt _ is' cr' heq
        have hlen := parseItems_len _ _ _ _ heq
        obtain ⟨rs, hr, ht⟩ := ih _ _ _ heq hs (fun r hr => hpre r (by simp [dataRecs, hr]))
        have hp := hpre _ (List.Mem.head _)
        refine ⟨.data false y cpu seg gran (rd32 a0 a1 a2 a3) (rest'.take (rd16 l0 l1)) :: rs, ?_, ?_⟩
        · simp only [readRecs]
          rw [if_neg hn0, if_neg hn80, if_neg (by omega : ¬ y.toNat < 128), if_pos (by omega : y.toNat ≤ 132),
            if_pos (by omega : y.toNat ≤ cfg.dataUpTo)]
          simp only [hp]
          rw [if_neg (by simp only [List.length_drop] at hlen; omega)]
          simp only [hr]
        · simp [toItems, ht, h81]
      · -- $01..$7f
        rename_i hn0 hn80 hn81 hlt7 _ a0 a1 a2 a3 l0 l1 rest' hlt _ is' cr' heq
        have hlen := parseItems_len _ _ _ _ heq
        obtain ⟨rs, hr, ht⟩ := ih _ _ _ heq hs (fun r hr => hpre r (by simp [dataRecs, hr]))
        have hp := hpre _ (List.Mem.head _)
        refine ⟨.data true 0x81 y segCode (granOf y segCode) (rd32 a0 a1 a2 a3) (rest'.take (rd16 l0 l1)) :: rs, ?_, ?_⟩
        · simp only [readRecs]
          rw [if_neg hn0, if_neg hn80, if_pos hlt7]
          simp only [hp]
          rw [if_neg (by simp only [List.length_drop] at hlen; omega)]
          simp only [hr]
        · simp [toItems, ht]


/-- with the intended guard, no record the tool divides for has granularity 0 -/
def GranOK (cfg : Cfg) : Record → Prop
  | .data _ hdr _ _ g _ _ => hdr.toNat ≤ cfg.dataUpTo → g.toNat ≠ 0
  | _ => True

theorem preCheck_gran (cfg : Cfg) (hg : cfg.granCheck = true) (c g : Byte) (u : Unit)
    (h : preCheck cfg c g = .ok u) : g.toNat ≠ 0 := by
  unfold preCheck at h
  split at h
  · cases h
  · split at h
    · cases h
    · rename_i h2; intro h0; exact h2 ⟨hg, h0⟩

theorem readRecs_granOK (cfg : Cfg) (hg : cfg.granCheck = true) (hd : 0x81 ≤ cfg.dataUpTo) :
    ∀ (f : Nat) (rest : List Byte) (rs : List Record),
    readRecs cfg f rest = .ok rs → ∀ r ∈ rs, GranOK cfg r := by
  intro f
  induction f with
  | zero => intro rest rs h; simp [readRecs] at h
  | succ f ih =>
    intro rest rs h
    cases rest with
    | nil => simp [readRecs] at h
    | cons x xs =>
      unfold readRecs at h
      repeat' split at h
      all_goals (try (cases h; done))
      all_goals (injection h with h; subst h)
      all_goals (
        intro r hr
        simp only [List.mem_cons, List.mem_singleton, List.not_mem_nil, or_false] at hr)
      all_goals first
        | (subst hr; simp [GranOK]; done)
        | (rcases hr with hr | hr
           · subst hr
             simp only [GranOK] <;> first
               | trivial
               | (intro _; exact preCheck_gran cfg hg _ _ _ (by assumption))
               | (intro hle; exfalso; omega)
           · exact ih _ _ (by assumption) r hr)

theorem useAll_ok (cfg : Cfg) (ps : Bool) : ∀ rs : List Record, (∀ r ∈ rs, GranOK cfg r) →
    ∃ vs, useAll cfg ps rs = .ok vs := by
  intro rs
  induction rs with
  | nil => intro _; exact ⟨[], rfl⟩
  | cons r rs ih =>
    intro h
    obtain ⟨vs, hvs⟩ := ih (fun r' hr' => h r' (by simp [hr']))
    have hr := h r (by simp)
    have : ∃ v, useRecord cfg ps r = .ok v := by
      cases r with
      | data sh hdr c s g st p =>
        simp only [GranOK] at hr
        simp only [useRecord]
        split
        · exact ⟨_, rfl⟩
        · split
          · split
            · exact ⟨_, rfl⟩
            · simp only [cdiv, if_neg (hr (by assumption))]; exact ⟨_, rfl⟩
          · exact ⟨_, rfl⟩
      | _ => exact ⟨0, rfl⟩
    obtain ⟨v, hv⟩ := this
    exact ⟨v :: vs, by simp only [useAll, hv, hvs]⟩

theorem magic_iff (m0 m1 : Byte) : rd16 m0 m1 = Generated.fileMagic ↔ (m0 = 0x89 ∧ m1 = 0x14) := by
  have h0 := m0.toNat_lt
  have h1 := m1.toNat_lt
  simp only [rd16, Generated.fileMagic]
  constructor
  · intro h
    constructor
    · apply UInt8.toNat_inj.mp; show m0.toNat = 137; omega
    · apply UInt8.toNat_inj.mp; show m1.toNat = 20; omega
  · rintro ⟨rfl, rfl⟩; rfl


/-! decidable views for concrete witnesses -/

def okAnd (r : Except ToolErr (List Record)) (p : List Record → Bool) : Bool :=
  match r with
  | .ok rs => p rs
  | .error _ => false

theorem okAnd_elim (r : Except ToolErr (List Record)) (p : List Record → Bool) (h : okAnd r p = true) :
    ∃ rs, r = .ok rs ∧ p rs = true := by
  cases r with
  | ok rs => exact ⟨rs, rfl, h⟩
  | error e => cases h

def errOf {α : Type} : Except ToolErr α → Option ToolErr
  | .ok _ => none
  | .error e => some e

theorem errOf_elim {α : Type} (r : Except ToolErr α) (e : ToolErr) (h : errOf r = some e) : r = .error e := by
  cases r with
  | ok _ => cases h
  | error e' => simp only [errOf, Option.some.injEq] at h; rw [h]

def isDivZero : Except Fault (List Nat) → Bool
  | .error .divZero => true
  | _ => false

theorem isDivZero_elim (r : Except Fault (List Nat)) (h : isDivZero r = true) : r = .error .divZero := by
  cases r with
  | ok _ => cases h
  | error e => cases e; rfl

end AslModel.PFileRead
