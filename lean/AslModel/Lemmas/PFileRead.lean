import AslModel.Model.PFileRead
/-! Helper lemmas for C03: one pass of the record loop (`step`) - inversion, length, exact re-serialisation,
extension of the input, relation to the SPEC reader - and their lifts to the loop (`readRecs`). -/
namespace AslModel.PFileRead
open AslModel.PFile

theorem preCheck_err (cfg : Cfg) (c s g : Byte) (e : ToolErr) (h : preCheck cfg c s g = .error e) :
    e = .badGran ∨ e = .badSeg ∨ e = .badFamily := by
  unfold preCheck at h
  repeat' split at h
  all_goals first
    | (injection h with h; subst h; simp; done)
    | cases h

theorem preCheck_nofuel (cfg : Cfg) (c s g : Byte) (h : preCheck cfg c s g = .error .fuel) : False := by
  rcases preCheck_err _ _ _ _ _ h with h1 | h1 | h1 <;> cases h1

/-! ## inversion of the three field readers -/

theorem dataFields_inv (cfg : Cfg) (mk : Nat → List Byte → Record) (l : List Byte) (r : Record) (rest : List Byte)
    (h : dataFields cfg mk l = .more r rest) :
    ∃ a0 a1 a2 a3 l0 l1 rest', l = a0 :: a1 :: a2 :: a3 :: l0 :: l1 :: rest' ∧
      ¬ rest'.length < rd16 l0 l1 + cfg.slack ∧
      r = mk (rd32 a0 a1 a2 a3) (rest'.take (rd16 l0 l1)) ∧ rest = rest'.drop (rd16 l0 l1) := by
  unfold dataFields at h
  split at h
  · rename_i a0 a1 a2 a3 l0 l1 rest'
    split at h
    · cases h
    · rename_i hl
      injection h with h1 h2
      exact ⟨a0, a1, a2, a3, l0, l1, rest', rfl, hl, h1.symm, h2.symm⟩
  · cases h

theorem dataFields_nofin (cfg : Cfg) (mk : Nat → List Byte → Record) (l : List Byte) (cr : List Byte) :
    dataFields cfg mk l ≠ .fin cr := by
  unfold dataFields
  split
  · split <;> simp
  · simp

theorem onShort_cases (cfg : Cfg) (e : ToolErr) :
    (cfg.errnoLoop = true ∧ onShort cfg e = .io) ∨ onShort cfg e = e := by
  unfold onShort
  split
  · rename_i h; exact Or.inl ⟨h, rfl⟩
  · exact Or.inr rfl

theorem dataFields_err (cfg : Cfg) (mk : Nat → List Byte → Record) (l : List Byte) (e : ToolErr)
    (h : dataFields cfg mk l = .err e) : e = .badLength ∨ e = .eof ∨ (cfg.errnoLoop = true ∧ e = .io) := by
  unfold dataFields at h
  split at h
  · split at h
    · injection h with h; exact Or.inl h.symm
    · cases h
  · injection h with h; subst h
    rcases onShort_cases cfg (if 0 < partialLen _ + cfg.slack then .badLength else .eof) with ⟨h1, h2⟩ | h2
    · exact Or.inr (Or.inr ⟨h1, h2⟩)
    · rw [h2]; split <;> simp

theorem skipFields_inv (cfg : Cfg) (mk : Byte → Byte → Byte → Byte → List Byte → Record) (l : List Byte) (r : Record)
    (rest : List Byte) (h : skipFields cfg mk l = .more r rest) :
    ∃ a0 a1 a2 a3 l0 l1 rest', l = a0 :: a1 :: a2 :: a3 :: l0 :: l1 :: rest' ∧
      ¬ rest'.length < rd16 l0 l1 ∧
      r = mk a0 a1 a2 a3 (rest'.take (rd16 l0 l1)) ∧ rest = rest'.drop (rd16 l0 l1) := by
  unfold skipFields at h
  split at h
  · rename_i a0 a1 a2 a3 l0 l1 rest'
    split at h
    · cases h
    · rename_i hl
      injection h with h1 h2
      exact ⟨a0, a1, a2, a3, l0, l1, rest', rfl, hl, h1.symm, h2.symm⟩
  · cases h

theorem skipFields_nofin (cfg : Cfg) (mk : Byte → Byte → Byte → Byte → List Byte → Record) (l : List Byte) (cr : List Byte) :
    skipFields cfg mk l ≠ .fin cr := by
  unfold skipFields
  split
  · split <;> simp
  · simp

theorem onShort_eof (cfg : Cfg) (e : ToolErr) (h : onShort cfg .eof = e) :
    e = .eof ∨ (cfg.errnoLoop = true ∧ e = .io) := by
  subst h
  rcases onShort_cases cfg .eof with ⟨h1, h2⟩ | h2
  · exact Or.inr ⟨h1, h2⟩
  · exact Or.inl h2

theorem skipFields_err (cfg : Cfg) (mk : Byte → Byte → Byte → Byte → List Byte → Record) (l : List Byte) (e : ToolErr)
    (h : skipFields cfg mk l = .err e) : e = .eof ∨ (cfg.errnoLoop = true ∧ e = .io) := by
  unfold skipFields at h
  split at h
  · split at h
    · injection h with h; exact onShort_eof _ _ h
    · cases h
  · injection h with h; exact onShort_eof _ _ h

theorem relocFields_inv (cfg : Cfg) (l : List Byte) (r : Record) (rest : List Byte)
    (h : relocFields cfg l = .more r rest) :
    ∃ r0 r1 r2 r3 e0 e1 e2 e3 s0 s1 s2 s3 rest',
      l = r0 :: r1 :: r2 :: r3 :: e0 :: e1 :: e2 :: e3 :: s0 :: s1 :: s2 :: s3 :: rest' ∧
      ¬ rest'.length < relocFull (rd32 r0 r1 r2 r3) (rd32 e0 e1 e2 e3) (rd32 s0 s1 s2 s3) ∧
      ¬ (cfg.parseReloc = true ∧ relocValid (rd32 r0 r1 r2 r3) (rd32 e0 e1 e2 e3) (rd32 s0 s1 s2 s3)
          (rest'.take (relocFull (rd32 r0 r1 r2 r3) (rd32 e0 e1 e2 e3) (rd32 s0 s1 s2 s3))) = false) ∧
      r = .reloc [r0, r1, r2, r3, e0, e1, e2, e3, s0, s1, s2, s3]
            (rest'.take (relocFull (rd32 r0 r1 r2 r3) (rd32 e0 e1 e2 e3) (rd32 s0 s1 s2 s3))) ∧
      rest = rest'.drop (relocFull (rd32 r0 r1 r2 r3) (rd32 e0 e1 e2 e3) (rd32 s0 s1 s2 s3)) := by
  unfold relocFields at h
  split at h
  · rename_i r0 r1 r2 r3 e0 e1 e2 e3 s0 s1 s2 s3 rest'
    split at h
    · cases h
    · rename_i hl
      split at h
      · cases h
      · rename_i hv
        injection h with h1 h2
        exact ⟨r0, r1, r2, r3, e0, e1, e2, e3, s0, s1, s2, s3, rest', rfl, hl, hv, h1.symm, h2.symm⟩
  · cases h

theorem relocFields_nofin (cfg : Cfg) (l : List Byte) (cr : List Byte) : relocFields cfg l ≠ .fin cr := by
  unfold relocFields
  split
  · split
    · simp
    · split <;> simp
  · simp

theorem relocFields_err (cfg : Cfg) (l : List Byte) (e : ToolErr) (h : relocFields cfg l = .err e) :
    e = .badReloc ∨ e = .eof ∨ (cfg.errnoLoop = true ∧ e = .io) := by
  unfold relocFields at h
  split at h
  · split at h
    · injection h with h; subst h
      split
      · exact Or.inl rfl
      · exact Or.inr (onShort_eof _ _ rfl)
    · split at h
      · injection h with h; exact Or.inl h.symm
      · cases h
  · injection h with h; subst h
    split
    · exact Or.inl rfl
    · exact Or.inr (onShort_eof _ _ rfl)

/-! ## one pass of the loop -/

/-- the shapes of a pass that yields a record -/
inductive StepShape (cfg : Cfg) : List Byte → Record → List Byte → Prop where
  | entry (a0 a1 a2 a3 : Byte) (rest : List Byte) :
      StepShape cfg (0x80 :: a0 :: a1 :: a2 :: a3 :: rest) (.entry a0 a1 a2 a3) rest
  | short (h a0 a1 a2 a3 l0 l1 : Byte) (rest' : List Byte) (hh : h.toNat ≠ 0 ∧ h.toNat < 0x80)
      (hp : preCheck cfg h segCode (granOf h segCode) = .ok ())
      (hl : ¬ rest'.length < rd16 l0 l1 + cfg.slack) :
      StepShape cfg (h :: a0 :: a1 :: a2 :: a3 :: l0 :: l1 :: rest')
        (.data true 0x81 h segCode (granOf h segCode) (rd32 a0 a1 a2 a3) (rest'.take (rd16 l0 l1)))
        (rest'.drop (rd16 l0 l1))
  | long (h c s g a0 a1 a2 a3 l0 l1 : Byte) (rest' : List Byte) (hh : 0x81 ≤ h.toNat ∧ h.toNat ≤ 0x84)
      (hd : h.toNat ≤ cfg.dataUpTo) (hp : preCheck cfg c s g = .ok ())
      (hl : ¬ rest'.length < rd16 l0 l1 + cfg.slack) :
      StepShape cfg (h :: c :: s :: g :: a0 :: a1 :: a2 :: a3 :: l0 :: l1 :: rest')
        (.data false h c s g (rd32 a0 a1 a2 a3) (rest'.take (rd16 l0 l1))) (rest'.drop (rd16 l0 l1))
  | skipLong (h c s g a0 a1 a2 a3 l0 l1 : Byte) (rest' : List Byte) (hh : 0x81 ≤ h.toNat ∧ h.toNat ≤ 0x84)
      (hd : ¬ h.toNat ≤ cfg.dataUpTo) (hl : ¬ rest'.length < rd16 l0 l1) :
      StepShape cfg (h :: c :: s :: g :: a0 :: a1 :: a2 :: a3 :: l0 :: l1 :: rest')
        (.data false h c s g (rd32 a0 a1 a2 a3) (rest'.take (rd16 l0 l1))) (rest'.drop (rd16 l0 l1))
  | reloc (h r0 r1 r2 r3 e0 e1 e2 e3 s0 s1 s2 s3 : Byte) (rest' : List Byte) (hh : h.toNat = 0x85)
      (hl : ¬ rest'.length < relocFull (rd32 r0 r1 r2 r3) (rd32 e0 e1 e2 e3) (rd32 s0 s1 s2 s3))
      (hv : ¬ (cfg.parseReloc = true ∧ relocValid (rd32 r0 r1 r2 r3) (rd32 e0 e1 e2 e3) (rd32 s0 s1 s2 s3)
          (rest'.take (relocFull (rd32 r0 r1 r2 r3) (rd32 e0 e1 e2 e3) (rd32 s0 s1 s2 s3))) = false)) :
      StepShape cfg (h :: r0 :: r1 :: r2 :: r3 :: e0 :: e1 :: e2 :: e3 :: s0 :: s1 :: s2 :: s3 :: rest')
        (.reloc [r0, r1, r2, r3, e0, e1, e2, e3, s0, s1, s2, s3]
            (rest'.take (relocFull (rd32 r0 r1 r2 r3) (rd32 e0 e1 e2 e3) (rd32 s0 s1 s2 s3))))
        (rest'.drop (relocFull (rd32 r0 r1 r2 r3) (rd32 e0 e1 e2 e3) (rd32 s0 s1 s2 s3)))
  | other (h a0 a1 a2 a3 l0 l1 : Byte) (rest' : List Byte) (hh : 0x86 ≤ h.toNat)
      (hl : ¬ rest'.length < rd16 l0 l1) :
      StepShape cfg (h :: a0 :: a1 :: a2 :: a3 :: l0 :: l1 :: rest')
        (.other h [a0, a1, a2, a3] (rest'.take (rd16 l0 l1))) (rest'.drop (rd16 l0 l1))

theorem u8_const (x : Byte) (n : Nat) (h : x.toNat = n) : x = UInt8.ofNat n := by
  apply UInt8.toNat_inj.mp
  have := x.toNat_lt
  simp only [UInt8.toNat_ofNat']
  omega

theorem step_more (cfg : Cfg) (l : List Byte) (r : Record) (rest : List Byte)
    (h : step cfg l = .more r rest) : StepShape cfg l r rest := by
  unfold step at h
  split at h
  · cases h
  · rename_i x xs
    split at h
    · cases h
    · rename_i hn0
      split at h
      · rename_i h80
        split at h
        · injection h with h1 h2
          subst h1; subst h2
          rw [u8_const x 0x80 h80]
          exact StepShape.entry _ _ _ _ _
        · cases h
      · rename_i hn80
        split at h
        · rename_i hlt
          split at h
          · cases h
          · rename_i u hp
            obtain ⟨a0, a1, a2, a3, l0, l1, rest', rfl, hl, rfl, rfl⟩ := dataFields_inv _ _ _ _ _ h
            exact StepShape.short x a0 a1 a2 a3 l0 l1 rest' ⟨hn0, hlt⟩ hp hl
        · rename_i hge
          split at h
          · rename_i hle
            split at h
            · rename_i c s g rest0
              split at h
              · rename_i hd
                split at h
                · cases h
                · rename_i u hp
                  obtain ⟨a0, a1, a2, a3, l0, l1, rest', rfl, hl, rfl, rfl⟩ := dataFields_inv _ _ _ _ _ h
                  exact StepShape.long x c s g a0 a1 a2 a3 l0 l1 rest' ⟨by omega, hle⟩ hd hp hl
              · rename_i hd
                obtain ⟨a0, a1, a2, a3, l0, l1, rest', rfl, hl, rfl, rfl⟩ := skipFields_inv _ _ _ _ _ h
                exact StepShape.skipLong x c s g a0 a1 a2 a3 l0 l1 rest' ⟨by omega, hle⟩ hd hl
            · cases h
          · rename_i hgt
            split at h
            · rename_i h85
              obtain ⟨r0, r1, r2, r3, e0, e1, e2, e3, s0, s1, s2, s3, rest', rfl, hl, hv, rfl, rfl⟩ :=
                relocFields_inv _ _ _ _ h
              exact StepShape.reloc x r0 r1 r2 r3 e0 e1 e2 e3 s0 s1 s2 s3 rest' h85 hl hv
            · rename_i hn85
              obtain ⟨a0, a1, a2, a3, l0, l1, rest', rfl, hl, rfl, rfl⟩ := skipFields_inv _ _ _ _ _ h
              exact StepShape.other x a0 a1 a2 a3 l0 l1 rest' (by omega) hl

theorem step_fin (cfg : Cfg) (l : List Byte) (cr : List Byte) (h : step cfg l = .fin cr) : l = 0x00 :: cr := by
  unfold step at h
  split at h
  · cases h
  · rename_i x xs
    split at h
    · rename_i h0
      injection h with h; subst h
      rw [u8_const x 0 h0]; rfl
    · split at h
      · split at h <;> cases h
      · split at h
        · split at h
          · cases h
          · exact absurd h (dataFields_nofin _ _ _ _)
        · split at h
          · split at h
            · split at h
              · split at h
                · cases h
                · exact absurd h (dataFields_nofin _ _ _ _)
              · exact absurd h (skipFields_nofin _ _ _ _)
            · cases h
          · split at h
            · exact absurd h (relocFields_nofin _ _ _)
            · exact absurd h (skipFields_nofin _ _ _ _)

/-- the error of a pass is never the fuel class, and `io` only under a stale `errno` -/
theorem step_err (cfg : Cfg) (l : List Byte) (e : ToolErr) (h : step cfg l = .err e) :
    e ≠ .fuel ∧ (e = .io → cfg.errnoLoop = true) := by
  have sh : ∀ e0 : ToolErr, e0 ≠ .fuel → e0 ≠ .io → onShort cfg e0 = e → e ≠ .fuel ∧ (e = .io → cfg.errnoLoop = true) := by
    intro e0 h1 h2 h3
    subst h3
    rcases onShort_cases cfg e0 with ⟨h4, h5⟩ | h5
    · rw [h5]; exact ⟨by simp, fun _ => h4⟩
    · rw [h5]; exact ⟨h1, fun hh => absurd hh h2⟩
  have pc : ∀ c s g, preCheck cfg c s g = .error e → e ≠ .fuel ∧ (e = .io → cfg.errnoLoop = true) := by
    intro c s g hp
    rcases preCheck_err _ _ _ _ _ hp with h1 | h1 | h1 <;> subst h1 <;> simp
  have df : ∀ mk l', dataFields cfg mk l' = .err e → e ≠ .fuel ∧ (e = .io → cfg.errnoLoop = true) := by
    intro mk l' hd
    rcases dataFields_err _ _ _ _ hd with h1 | h1 | ⟨h0, h1⟩ <;> subst h1 <;> first | (simp; done) | exact ⟨by simp, fun _ => h0⟩
  have sf : ∀ mk l', skipFields cfg mk l' = .err e → e ≠ .fuel ∧ (e = .io → cfg.errnoLoop = true) := by
    intro mk l' hd
    rcases skipFields_err _ _ _ _ hd with h1 | ⟨h0, h1⟩ <;> subst h1 <;> first | (simp; done) | exact ⟨by simp, fun _ => h0⟩
  unfold step at h
  split at h
  · injection h with h; exact sh .eof (by simp) (by simp) h
  · split at h
    · cases h
    · split at h
      · split at h
        · cases h
        · injection h with h; exact sh .eof (by simp) (by simp) h
      · split at h
        · split at h
          · rename_i hp; injection h with h; subst h; exact pc _ _ _ hp
          · exact df _ _ h
        · split at h
          · split at h
            · split at h
              · split at h
                · rename_i hp; injection h with h; subst h; exact pc _ _ _ hp
                · exact df _ _ h
              · exact sf _ _ h
            · injection h with h
              refine sh _ ?_ ?_ h <;> split <;> simp
          · split at h
            · rcases relocFields_err _ _ _ h with h1 | h1 | ⟨h0, h1⟩ <;> subst h1 <;> first | (simp; done) | exact ⟨by simp, fun _ => h0⟩
            · exact sf _ _ h

theorem step_nofuel (cfg : Cfg) (l : List Byte) : step cfg l ≠ .err .fuel :=
  fun h => (step_err cfg l _ h).1 rfl

theorem StepShape.len {cfg : Cfg} {l : List Byte} {r : Record} {rest : List Byte} (h : StepShape cfg l r rest) :
    rest.length < l.length := by
  cases h <;> simp only [List.length_cons, List.length_drop] <;> omega

theorem b_eq (n : Nat) (x : Byte) (h : n % 256 = x.toNat) : b n = x := by
  apply UInt8.toNat_inj.mp
  simp [h]

theorem le16_rd16 (x y : Byte) : le16 (rd16 x y) = [x, y] := by
  have hx := x.toNat_lt
  have hy := y.toNat_lt
  simp only [le16, rd16]
  rw [b_eq _ x (by omega), b_eq _ y (by omega)]

theorem le32_rd32 (x y z w : Byte) : le32 (rd32 x y z w) = [x, y, z, w] := by
  have hx := x.toNat_lt
  have hy := y.toNat_lt
  have hz := z.toNat_lt
  have hw := w.toNat_lt
  simp only [le32, rd32]
  rw [b_eq _ x (by omega), b_eq _ y (by omega), b_eq _ z (by omega), b_eq _ w (by omega)]

theorem take_len {α} (n : Nat) (l : List α) (h : ¬ l.length < n) : (l.take n).length = n := by
  simp only [List.length_take]; omega

/-- the record of a pass followed by the rest is the input of the pass -/
theorem StepShape.exact {cfg : Cfg} {l : List Byte} {r : Record} {rest : List Byte} (h : StepShape cfg l r rest) :
    r.bytes ++ rest = l := by
  cases h with
  | entry => rfl
  | short h a0 a1 a2 a3 l0 l1 rest' hh hp hl =>
    have : ¬ rest'.length < rd16 l0 l1 := by omega
    simp [Record.bytes, le32_rd32, take_len _ _ this, le16_rd16]
  | long h c s g a0 a1 a2 a3 l0 l1 rest' hh hd hp hl =>
    have : ¬ rest'.length < rd16 l0 l1 := by omega
    simp [Record.bytes, le32_rd32, take_len _ _ this, le16_rd16]
  | skipLong h c s g a0 a1 a2 a3 l0 l1 rest' hh hd hl =>
    simp [Record.bytes, le32_rd32, take_len _ _ hl, le16_rd16]
  | reloc h r0 r1 r2 r3 e0 e1 e2 e3 s0 s1 s2 s3 rest' hh hl hv =>
    simp [Record.bytes, (u8_const h 0x85 hh)]
  | other h a0 a1 a2 a3 l0 l1 rest' hh hl =>
    simp [Record.bytes, take_len _ _ hl, le16_rd16]

/-! ## the loop -/

theorem readRecs_fuel (cfg : Cfg) : ∀ (f : Nat) (l : List Byte), l.length < f →
    readRecs cfg f l ≠ .error .fuel := by
  intro f
  induction f with
  | zero => intro l h; omega
  | succ f ih =>
    intro l h
    unfold readRecs
    split
    · simp
    · rename_i e he
      intro hh; injection hh with hh; subst hh
      exact step_nofuel _ _ he
    · rename_i r rest hs
      have hlen := (step_more _ _ _ _ hs).len
      split
      · simp
      · rename_i e he
        intro hh; injection hh with hh; subst hh
        exact ih rest (by omega) he

/-- the loop ends with the I/O class only under a stale `errno` -/
theorem readRecs_io (cfg : Cfg) : ∀ (f : Nat) (l : List Byte), readRecs cfg f l = .error .io → cfg.errnoLoop = true := by
  intro f
  induction f with
  | zero => intro l h; simp [readRecs] at h
  | succ f ih =>
    intro l h
    unfold readRecs at h
    split at h
    · cases h
    · rename_i e he
      injection h with h; subst h
      exact (step_err _ _ _ he).2 rfl
    · split at h
      · cases h
      · rename_i e he
        injection h with h; subst h
        exact ih _ he

/-- the accepted record list re-serialises to exactly the bytes that were read: nothing skipped,
nothing read twice, nothing beyond the end -/
theorem readRecs_exact (cfg : Cfg) : ∀ (f : Nat) (l : List Byte) (rs : List Record),
    readRecs cfg f l = .ok rs → (rs.map Record.bytes).flatten = l := by
  intro f
  induction f with
  | zero => intro l rs h; simp [readRecs] at h
  | succ f ih =>
    intro l rs h
    unfold readRecs at h
    split at h
    · rename_i cr hs
      injection h with h; subst h
      rw [step_fin _ _ _ hs]; simp [Record.bytes]
    · cases h
    · rename_i r rest hs
      split at h
      · rename_i rs' hr
        injection h with h; subst h
        have := ih _ _ hr
        simp only [List.map_cons, List.flatten_cons, this]
        exact (step_more _ _ _ _ hs).exact
      · cases h

theorem StepShape.notFin {cfg : Cfg} {l : List Byte} {r : Record} {rest : List Byte} (h : StepShape cfg l r rest) :
    ∀ cr, r ≠ .fin cr := by
  cases h <;> intro cr hh <;> cases hh

/-! ## from a shape back to the pass; extension of the input -/

theorem step_of_shape {cfg : Cfg} {l : List Byte} {r : Record} {rest : List Byte} (h : StepShape cfg l r rest) :
    step cfg l = .more r rest := by
  cases h with
  | entry a0 a1 a2 a3 rest => simp [step]
  | short h a0 a1 a2 a3 l0 l1 rest' hh hp hl =>
    simp only [step]
    rw [if_neg hh.1, if_neg (by omega), if_pos hh.2]
    simp only [hp, dataFields]
    rw [if_neg hl]
  | long h c s g a0 a1 a2 a3 l0 l1 rest' hh hd hp hl =>
    simp only [step]
    rw [if_neg (by omega), if_neg (by omega), if_neg (by omega), if_pos hh.2, if_pos hd]
    simp only [hp, dataFields]
    rw [if_neg hl]
  | skipLong h c s g a0 a1 a2 a3 l0 l1 rest' hh hd hl =>
    simp only [step]
    rw [if_neg (by omega), if_neg (by omega), if_neg (by omega), if_pos hh.2, if_neg hd]
    simp only [skipFields]
    rw [if_neg hl]
  | reloc h r0 r1 r2 r3 e0 e1 e2 e3 s0 s1 s2 s3 rest' hh hl hv =>
    simp only [step]
    rw [if_neg (by omega), if_neg (by omega), if_neg (by omega), if_neg (by omega), if_pos hh]
    simp only [relocFields]
    rw [if_neg hl, if_neg hv]
  | other h a0 a1 a2 a3 l0 l1 rest' hh hl =>
    simp only [step]
    rw [if_neg (by omega), if_neg (by omega), if_neg (by omega), if_neg (by omega), if_neg (by omega)]
    simp only [skipFields]
    rw [if_neg hl]

theorem step_zero (cfg : Cfg) (cr : List Byte) : step cfg (0x00 :: cr) = .fin cr := by
  simp [step]

theorem take_app {α} (n : Nat) (l s : List α) (h : ¬ l.length < n) : (l ++ s).take n = l.take n :=
  List.take_append_of_le_length (by omega)

theorem drop_app {α} (n : Nat) (l s : List α) (h : ¬ l.length < n) : (l ++ s).drop n = l.drop n ++ s :=
  List.drop_append_of_le_length (by omega)

/-- a pass that yields a record yields the same record when bytes are appended to the input -/
theorem StepShape.extend {cfg : Cfg} {l : List Byte} {r : Record} {rest : List Byte} (h : StepShape cfg l r rest)
    (t : List Byte) : StepShape cfg (l ++ t) r (rest ++ t) := by
  cases h with
  | entry a0 a1 a2 a3 rest => exact StepShape.entry a0 a1 a2 a3 (rest ++ t)
  | short h a0 a1 a2 a3 l0 l1 rest' hh hp hl =>
    have hl0 : ¬ rest'.length < rd16 l0 l1 := by omega
    have := StepShape.short (cfg := cfg) h a0 a1 a2 a3 l0 l1 (rest' ++ t) hh hp (by simp only [List.length_append]; omega)
    rw [take_app _ _ _ hl0, drop_app _ _ _ hl0] at this
    exact this
  | long h c s g a0 a1 a2 a3 l0 l1 rest' hh hd hp hl =>
    have hl0 : ¬ rest'.length < rd16 l0 l1 := by omega
    have := StepShape.long (cfg := cfg) h c s g a0 a1 a2 a3 l0 l1 (rest' ++ t) hh hd hp (by simp only [List.length_append]; omega)
    rw [take_app _ _ _ hl0, drop_app _ _ _ hl0] at this
    exact this
  | skipLong h c s g a0 a1 a2 a3 l0 l1 rest' hh hd hl =>
    have := StepShape.skipLong (cfg := cfg) h c s g a0 a1 a2 a3 l0 l1 (rest' ++ t) hh hd (by simp only [List.length_append]; omega)
    rw [take_app _ _ _ hl, drop_app _ _ _ hl] at this
    exact this
  | reloc h r0 r1 r2 r3 e0 e1 e2 e3 s0 s1 s2 s3 rest' hh hl hv =>
    have := StepShape.reloc (cfg := cfg) h r0 r1 r2 r3 e0 e1 e2 e3 s0 s1 s2 s3 (rest' ++ t) hh
      (by simp only [List.length_append]; omega) (by rw [take_app _ _ _ hl]; exact hv)
    rw [take_app _ _ _ hl, drop_app _ _ _ hl] at this
    exact this
  | other h a0 a1 a2 a3 l0 l1 rest' hh hl =>
    have := StepShape.other (cfg := cfg) h a0 a1 a2 a3 l0 l1 (rest' ++ t) hh (by simp only [List.length_append]; omega)
    rw [take_app _ _ _ hl, drop_app _ _ _ hl] at this
    exact this

/-- acceptance is monotone under extension of the input (and of the fuel): what was the creator string grows,
everything in front of it is read as before -/
theorem readRecs_extend (cfg : Cfg) (t : List Byte) : ∀ (f : Nat) (l : List Byte) (rs : List Record),
    readRecs cfg f l = .ok rs → ∀ f', f ≤ f' →
    ∃ recs cr, rs = recs ++ [.fin cr] ∧ readRecs cfg f' (l ++ t) = .ok (recs ++ [.fin (cr ++ t)]) := by
  intro f
  induction f with
  | zero => intro l rs h; simp [readRecs] at h
  | succ f ih =>
    intro l rs h f' hf
    obtain ⟨f'', rfl⟩ : ∃ f'', f' = f'' + 1 := ⟨f' - 1, by omega⟩
    unfold readRecs at h
    split at h
    · rename_i cr hs
      injection h with h; subst h
      refine ⟨[], cr, rfl, ?_⟩
      rw [step_fin _ _ _ hs]
      simp only [readRecs, List.cons_append, step_zero, List.nil_append]
    · cases h
    · rename_i r rest hs
      split at h
      · rename_i rs' hr
        injection h with h; subst h
        obtain ⟨recs, cr, rfl, hx⟩ := ih _ _ hr f'' (by omega)
        refine ⟨r :: recs, cr, rfl, ?_⟩
        have := step_of_shape ((step_more _ _ _ _ hs).extend t)
        simp only [readRecs, this, hx, List.cons_append]
      · cases h

/-- an accepted list is `recs ++ [fin cr]` -/
theorem readRecs_last (cfg : Cfg) (f : Nat) (l : List Byte) (rs : List Record) (h : readRecs cfg f l = .ok rs) :
    ∃ recs cr, rs = recs ++ [.fin cr] := by
  obtain ⟨recs, cr, h1, _⟩ := readRecs_extend cfg [] f l rs h f (Nat.le_refl _)
  exact ⟨recs, cr, h1⟩

/-! ## relation to the SPEC reader -/

theorem parseItems_len : ∀ (f : Nat) (rest : List Byte) (is : List Item) (cr : List Byte),
    parseItems f rest = some (is, cr) → cr.length + 1 ≤ rest.length := by
  intro f
  induction f with
  | zero => intro rest is cr h; simp [parseItems] at h
  | succ f ih =>
    intro rest is cr h
    cases rest with
    | nil => simp [parseItems] at h
    | cons x xs =>
      simp only [parseItems] at h
      repeat' split at h
      all_goals (try (cases h; done))
      all_goals (injection h with h; injection h with h1 h2; subst h2)
      all_goals first
        | (simp; done)
        | (rename_i heq; have := ih _ _ _ heq
           simp only [List.length_cons, List.length_drop] at *; omega)

theorem ne_of_toNat {x y : Byte} (h : x.toNat ≠ y.toNat) : x ≠ y := fun e => h (e ▸ rfl)

theorem u8_lit (x y : Byte) (h : x.toNat = y.toNat) : x = y := UInt8.toNat_inj.mp h

/-- an accepted record list that consists of documented kinds only is what the SPEC reader sees -/
theorem readRecs_sound (cfg : Cfg) : ∀ (f : Nat) (l : List Byte) (rs : List Record) (x : List Item × List Byte),
    readRecs cfg f l = .ok rs → toItems rs = some x → parseItems f l = some x := by
  intro f
  induction f with
  | zero => intro l rs x h; simp [readRecs] at h
  | succ f ih =>
    intro l rs x h ht
    unfold readRecs at h
    split at h
    · rename_i cr hs
      injection h with h; subst h
      rw [step_fin _ _ _ hs]
      simp only [toItems, Option.some.injEq] at ht
      subst ht
      simp [parseItems]
    · cases h
    · rename_i r rest hs
      split at h
      · rename_i rs' hr
        injection h with h; subst h
        have sh := step_more _ _ _ _ hs
        cases sh with
        | entry a0 a1 a2 a3 rest =>
          simp only [toItems] at ht
          split at ht
          · rename_i is cr hti
            injection ht with ht; subst ht
            have := ih _ _ _ hr hti
            simp [parseItems, this]
          · cases ht
        | short h a0 a1 a2 a3 l0 l1 rest' hh hp hl =>
          simp only [toItems] at ht
          split at ht
          · split at ht
            · rename_i is cr hti
              injection ht with ht; subst ht
              have := ih _ _ _ hr hti
              have h0 : h ≠ 0 := ne_of_toNat (by show h.toNat ≠ 0; exact hh.1)
              have h80 : h ≠ 0x80 := ne_of_toNat (by show h.toNat ≠ 128; omega)
              have h81 : h ≠ 0x81 := ne_of_toNat (by show h.toNat ≠ 129; omega)
              simp only [parseItems, if_neg h0, if_neg h80, if_neg h81, if_pos hh.2]
              rw [if_neg (by omega), this]
            · cases ht
          · cases ht
        | long h c s g a0 a1 a2 a3 l0 l1 rest' hh hd hp hl =>
          simp only [toItems] at ht
          split at ht
          · rename_i h81
            split at ht
            · rename_i is cr hti
              injection ht with ht; subst ht
              have := ih _ _ _ hr hti
              have hy : h = 0x81 := u8_lit _ _ h81
              subst hy
              simp only [parseItems]
              rw [if_neg (by decide), if_neg (by decide), if_pos (by decide)]
              rw [if_neg (by omega), this]
            · cases ht
          · cases ht
        | skipLong h c s g a0 a1 a2 a3 l0 l1 rest' hh hd hl =>
          simp only [toItems] at ht
          split at ht
          · rename_i h81
            split at ht
            · rename_i is cr hti
              injection ht with ht; subst ht
              have := ih _ _ _ hr hti
              have hy : h = 0x81 := u8_lit _ _ h81
              subst hy
              simp only [parseItems]
              rw [if_neg (by decide), if_neg (by decide), if_pos (by decide)]
              rw [if_neg (by omega), this]
            · cases ht
          · cases ht
        | reloc => simp [toItems] at ht
        | other => simp [toItems] at ht
      · cases h

/-- every file the SPEC reader accepts is accepted by the tool's loop with the same content, provided
enough bytes follow the last data record for the tool's length test and the tool's header tests pass -/
theorem readRecs_complete (cfg : Cfg) (hd : 0x81 ≤ cfg.dataUpTo) :
    ∀ (f : Nat) (rest : List Byte) (is : List Item) (cr : List Byte),
    parseItems f rest = some (is, cr) → cfg.slack ≤ cr.length + 1 →
    (∀ r ∈ dataRecs is, preCheck cfg r.cpu r.seg r.gran = .ok ()) →
    ∃ rs, readRecs cfg f rest = .ok rs ∧ toItems rs = some (is, cr) := by
  intro f
  induction f with
  | zero => intro rest is cr h; simp [parseItems] at h
  | succ f ih =>
    intro rest is cr h hs hpre
    cases rest with
    | nil => simp [parseItems] at h
    | cons y ys =>
      have e0 : (y = 0) = (y.toNat = 0) := by rw [← UInt8.toNat_inj]; rfl
      have e80 : (y = 0x80) = (y.toNat = 128) := by rw [← UInt8.toNat_inj]; rfl
      have e81 : (y = 0x81) = (y.toNat = 129) := by rw [← UInt8.toNat_inj]; rfl
      simp only [parseItems, e0, e80, e81] at h
      repeat' split at h
      all_goals (try (cases h; done))
      all_goals (injection h with h; injection h with h1 h2; subst h1; subst h2)
      · -- $00
        rename_i h0
        refine ⟨[.fin ys], ?_, rfl⟩
        have hy : y = 0x00 := u8_lit _ _ h0
        subst hy
        simp only [readRecs, step_zero]
      · -- $80
        rename_i hn0 h80 _ a0 a1 a2 a3 rest' _ is' cr' heq
        obtain ⟨rs, hr, ht⟩ := ih _ _ _ heq hs (fun r hr => hpre r (by simpa [dataRecs] using hr))
        refine ⟨.entry a0 a1 a2 a3 :: rs, ?_, by simp [toItems, ht]⟩
        have hy : y = 0x80 := u8_lit _ _ h80
        subst hy
        simp only [readRecs, step_of_shape (StepShape.entry (cfg := cfg) a0 a1 a2 a3 rest'), hr]
      · -- $81
        rename_i hn0 hn80 h81 _ cpu seg gran a0 a1 a2 a3 l0 l1 rest' hlt _ is' cr' heq
        have hlen := parseItems_len _ _ _ _ heq
        obtain ⟨rs, hr, ht⟩ := ih _ _ _ heq hs (fun r hr => hpre r (by simp [dataRecs, hr]))
        have hp := hpre _ (List.Mem.head _)
        refine ⟨.data false y cpu seg gran (rd32 a0 a1 a2 a3) (rest'.take (rd16 l0 l1)) :: rs, ?_, ?_⟩
        · have sh := StepShape.long (cfg := cfg) y cpu seg gran a0 a1 a2 a3 l0 l1 rest' (by omega) (by omega) hp
            (by simp only [List.length_drop] at hlen; omega)
          simp only [readRecs, step_of_shape sh, hr]
        · simp [toItems, ht, h81]
      · -- $01..$7f
        rename_i hn0 hn80 hn81 hlt7 _ a0 a1 a2 a3 l0 l1 rest' hlt _ is' cr' heq
        have hlen := parseItems_len _ _ _ _ heq
        obtain ⟨rs, hr, ht⟩ := ih _ _ _ heq hs (fun r hr => hpre r (by simp [dataRecs, hr]))
        have hp := hpre _ (List.Mem.head _)
        refine ⟨.data true 0x81 y segCode (granOf y segCode) (rd32 a0 a1 a2 a3) (rest'.take (rd16 l0 l1)) :: rs, ?_, ?_⟩
        · have sh := StepShape.short (cfg := cfg) y a0 a1 a2 a3 l0 l1 rest' ⟨hn0, hlt7⟩ hp
            (by simp only [List.length_drop] at hlen; omega)
          simp only [readRecs, step_of_shape sh, hr]
        · simp [toItems, ht]

/-- tool and SPEC reader agree about the creator string of a file both accept -/
theorem readRecs_creator (cfg : Cfg) : ∀ (f : Nat) (l : List Byte) (rs : List Record) (is : List Item) (cr : List Byte),
    readRecs cfg f l = .ok rs → parseItems f l = some (is, cr) → ∃ recs, rs = recs ++ [.fin cr] := by
  intro f
  induction f with
  | zero => intro l rs is cr h; simp [readRecs] at h
  | succ f ih =>
    intro l rs is cr h hp
    unfold readRecs at h
    split at h
    · rename_i cr' hs
      injection h with h; subst h
      rw [step_fin _ _ _ hs] at hp
      simp only [parseItems, if_pos, Option.some.injEq, Prod.mk.injEq] at hp
      exact ⟨[], by rw [hp.2]; rfl⟩
    · cases h
    · rename_i r rest hs
      split at h
      · rename_i rs' hr
        injection h with h; subst h
        have sh := step_more _ _ _ _ hs
        have key : ∀ is', parseItems f rest = some (is', cr) → ∃ recs, r :: rs' = recs ++ [.fin cr] := by
          intro is' hq
          obtain ⟨recs, hrecs⟩ := ih _ _ _ _ hr hq
          exact ⟨r :: recs, by rw [hrecs]; rfl⟩
        cases sh with
        | entry a0 a1 a2 a3 rest =>
          simp only [parseItems] at hp
          rw [if_neg (by decide), if_pos (by decide)] at hp
          split at hp
          · rename_i is' cr' hq
            injection hp with hp; injection hp with hp1 hp2; subst hp2
            exact key _ hq
          · cases hp
        | short h a0 a1 a2 a3 l0 l1 rest' hh hpc hl =>
          have h0 : h ≠ 0 := ne_of_toNat (by show h.toNat ≠ 0; exact hh.1)
          have h80 : h ≠ 0x80 := ne_of_toNat (by show h.toNat ≠ 128; omega)
          have h81 : h ≠ 0x81 := ne_of_toNat (by show h.toNat ≠ 129; omega)
          simp only [parseItems, if_neg h0, if_neg h80, if_neg h81, if_pos hh.2] at hp
          rw [if_neg (by omega)] at hp
          split at hp
          · rename_i is' cr' hq
            injection hp with hp; injection hp with hp1 hp2; subst hp2
            exact key _ hq
          · cases hp
        | long h c s g a0 a1 a2 a3 l0 l1 rest' hh hd hpc hl =>
          by_cases h81 : h.toNat = 0x81
          · have hy : h = 0x81 := u8_lit _ _ h81
            subst hy
            simp only [parseItems] at hp
            rw [if_neg (by decide), if_neg (by decide), if_pos (by decide)] at hp
            rw [if_neg (by omega)] at hp
            split at hp
            · rename_i is' cr' hq
              injection hp with hp; injection hp with hp1 hp2; subst hp2
              exact key _ hq
            · cases hp
          · have h0 : h ≠ 0 := ne_of_toNat (by show h.toNat ≠ 0; omega)
            have h80 : h ≠ 0x80 := ne_of_toNat (by show h.toNat ≠ 128; omega)
            have h81' : h ≠ 0x81 := ne_of_toNat (by show h.toNat ≠ 129; omega)
            simp only [parseItems, if_neg h0, if_neg h80, if_neg h81', if_neg (by omega : ¬ h.toNat < 0x80)] at hp
            cases hp
        | skipLong h c s g a0 a1 a2 a3 l0 l1 rest' hh hd hl =>
          by_cases h81 : h.toNat = 0x81
          · have hy : h = 0x81 := u8_lit _ _ h81
            subst hy
            simp only [parseItems] at hp
            rw [if_neg (by decide), if_neg (by decide), if_pos (by decide)] at hp
            rw [if_neg (by omega)] at hp
            split at hp
            · rename_i is' cr' hq
              injection hp with hp; injection hp with hp1 hp2; subst hp2
              exact key _ hq
            · cases hp
          · have h0 : h ≠ 0 := ne_of_toNat (by show h.toNat ≠ 0; omega)
            have h80 : h ≠ 0x80 := ne_of_toNat (by show h.toNat ≠ 128; omega)
            have h81' : h ≠ 0x81 := ne_of_toNat (by show h.toNat ≠ 129; omega)
            simp only [parseItems, if_neg h0, if_neg h80, if_neg h81', if_neg (by omega : ¬ h.toNat < 0x80)] at hp
            cases hp
        | reloc h r0 r1 r2 r3 e0 e1 e2 e3 s0 s1 s2 s3 rest' hh hl hv =>
          have h0 : h ≠ 0 := ne_of_toNat (by show h.toNat ≠ 0; omega)
          have h80 : h ≠ 0x80 := ne_of_toNat (by show h.toNat ≠ 128; omega)
          have h81' : h ≠ 0x81 := ne_of_toNat (by show h.toNat ≠ 129; omega)
          simp only [parseItems, if_neg h0, if_neg h80, if_neg h81', if_neg (by omega : ¬ h.toNat < 0x80)] at hp
          cases hp
        | other h a0 a1 a2 a3 l0 l1 rest' hh hl =>
          have h0 : h ≠ 0 := ne_of_toNat (by show h.toNat ≠ 0; omega)
          have h80 : h ≠ 0x80 := ne_of_toNat (by show h.toNat ≠ 128; omega)
          have h81' : h ≠ 0x81 := ne_of_toNat (by show h.toNat ≠ 129; omega)
          simp only [parseItems, if_neg h0, if_neg h80, if_neg h81', if_neg (by omega : ¬ h.toNat < 0x80)] at hp
          cases hp
      · cases h

/-- the data records of an accepted documented content passed the tool's header tests -/
theorem readRecs_prechecked (cfg : Cfg) (hd : 0x81 ≤ cfg.dataUpTo) :
    ∀ (f : Nat) (l : List Byte) (rs : List Record) (is : List Item) (cr : List Byte),
    readRecs cfg f l = .ok rs → toItems rs = some (is, cr) →
    ∀ r ∈ dataRecs is, preCheck cfg r.cpu r.seg r.gran = .ok () := by
  intro f
  induction f with
  | zero => intro l rs is cr h; simp [readRecs] at h
  | succ f ih =>
    intro l rs is cr h ht
    unfold readRecs at h
    split at h
    · injection h with h; subst h
      simp only [toItems, Option.some.injEq, Prod.mk.injEq] at ht
      rw [← ht.1]; intro r hr; simp [dataRecs] at hr
    · cases h
    · rename_i r rest hs
      split at h
      · rename_i rs' hr
        injection h with h; subst h
        have sh := step_more _ _ _ _ hs
        cases sh with
        | entry a0 a1 a2 a3 rest =>
          simp only [toItems] at ht
          split at ht
          · rename_i is' cr' hti
            injection ht with ht; injection ht with ht1 ht2; subst ht1
            intro r hr'
            exact ih _ _ _ _ hr hti r (by simpa [dataRecs] using hr')
          · cases ht
        | short h a0 a1 a2 a3 l0 l1 rest' hh hp hl =>
          simp only [toItems] at ht
          split at ht
          · split at ht
            · rename_i is' cr' hti
              injection ht with ht; injection ht with ht1 ht2; subst ht1
              intro r hr'
              simp only [dataRecs, List.mem_cons] at hr'
              rcases hr' with rfl | hr'
              · exact hp
              · exact ih _ _ _ _ hr hti r hr'
            · cases ht
          · cases ht
        | long h c s g a0 a1 a2 a3 l0 l1 rest' hh hd' hp hl =>
          simp only [toItems] at ht
          split at ht
          · split at ht
            · rename_i is' cr' hti
              injection ht with ht; injection ht with ht1 ht2; subst ht1
              intro r hr'
              simp only [dataRecs, List.mem_cons] at hr'
              rcases hr' with rfl | hr'
              · exact hp
              · exact ih _ _ _ _ hr hti r hr'
            · cases ht
          · cases ht
        | skipLong h c s g a0 a1 a2 a3 l0 l1 rest' hh hd' hl =>
          simp only [toItems] at ht
          split at ht
          · rename_i h81; exfalso; omega
          · cases ht
        | reloc => simp [toItems] at ht
        | other => simp [toItems] at ht
      · cases h

/-! ## reserved kinds -/

/-- record kinds outside the documented grammar, which the tools skip (or plist lists) -/
def Record.reserved : Record → Bool
  | .data _ hdr _ _ _ _ _ => hdr.toNat != 0x81
  | .reloc _ _ => true
  | .other _ _ _ => true
  | _ => false

/-- an accepted list either is a documented content or contains a reserved kind -/
theorem readRecs_reserved (cfg : Cfg) : ∀ (f : Nat) (l : List Byte) (rs : List Record),
    readRecs cfg f l = .ok rs → toItems rs = none → ∃ r ∈ rs, r.reserved = true := by
  intro f
  induction f with
  | zero => intro l rs h; simp [readRecs] at h
  | succ f ih =>
    intro l rs h ht
    unfold readRecs at h
    split at h
    · injection h with h; subst h; simp [toItems] at ht
    · cases h
    · rename_i r rest hs
      split at h
      · rename_i rs' hr
        injection h with h; subst h
        cases r with
        | data sh hdr c s g st p =>
          by_cases h81 : hdr.toNat = 0x81
          · simp only [toItems, if_pos h81] at ht
            split at ht
            · cases ht
            · rename_i hn
              obtain ⟨r, hr1, hr2⟩ := ih _ _ hr hn
              exact ⟨r, List.mem_cons_of_mem _ hr1, hr2⟩
          · exact ⟨_, List.Mem.head _, by simp [Record.reserved, h81]⟩
        | entry a0 a1 a2 a3 =>
          simp only [toItems] at ht
          split at ht
          · cases ht
          · rename_i hn
            obtain ⟨r, hr1, hr2⟩ := ih _ _ hr hn
            exact ⟨r, List.mem_cons_of_mem _ hr1, hr2⟩
        | reloc c b => exact ⟨_, List.Mem.head _, rfl⟩
        | other h a p => exact ⟨_, List.Mem.head _, rfl⟩
        | fin cr => exact absurd rfl ((step_more _ _ _ _ hs).notFin cr)
      · cases h

/-! ## granularity guard -/

/-- with the guard, no record the tool divides for has granularity 0 -/
def GranOK (cfg : Cfg) : Record → Prop
  | .data _ hdr _ _ g _ _ => hdr.toNat ≤ cfg.dataUpTo → g.toNat ≠ 0
  | _ => True

theorem preCheck_gran (cfg : Cfg) (hg : cfg.granCheck = true) (c s g : Byte) (u : Unit)
    (h : preCheck cfg c s g = .ok u) : g.toNat ≠ 0 := by
  unfold preCheck at h
  split at h
  · cases h
  · rename_i h2; intro h0; exact h2 ⟨hg, h0⟩

theorem StepShape.granOK {cfg : Cfg} {l : List Byte} {r : Record} {rest : List Byte} (h : StepShape cfg l r rest)
    (hg : cfg.granCheck = true) : GranOK cfg r := by
  cases h with
  | entry => trivial
  | short h a0 a1 a2 a3 l0 l1 rest' hh hp hl => intro _; exact preCheck_gran cfg hg _ _ _ _ hp
  | long h c s g a0 a1 a2 a3 l0 l1 rest' hh hd' hp hl => intro _; exact preCheck_gran cfg hg _ _ _ _ hp
  | skipLong h c s g a0 a1 a2 a3 l0 l1 rest' hh hd' hl => intro hle; exact absurd hle hd'
  | reloc => trivial
  | other => trivial

theorem readRecs_granOK (cfg : Cfg) (hg : cfg.granCheck = true) :
    ∀ (f : Nat) (l : List Byte) (rs : List Record),
    readRecs cfg f l = .ok rs → ∀ r ∈ rs, GranOK cfg r := by
  intro f
  induction f with
  | zero => intro l rs h; simp [readRecs] at h
  | succ f ih =>
    intro l rs h
    unfold readRecs at h
    split at h
    · injection h with h; subst h
      intro r hr
      simp only [List.mem_singleton] at hr
      subst hr; trivial
    · cases h
    · rename_i r rest hs
      split at h
      · rename_i rs' hr
        injection h with h; subst h
        intro r' hr'
        rcases List.mem_cons.mp hr' with h1 | h1
        · subst h1; exact (step_more _ _ _ _ hs).granOK hg
        · exact ih _ _ hr r' h1
      · cases h

theorem useAll_ok (cfg : Cfg) (ps : Bool) : ∀ rs : List Record, (∀ r ∈ rs, GranOK cfg r) →
    ∃ vs, useAll cfg ps rs = .ok vs := by
  intro rs
  induction rs with
  | nil => intro _; exact ⟨[], rfl⟩
  | cons r rs ih =>
    intro h
    obtain ⟨vs, hvs⟩ := ih (fun r' hr' => h r' (by simp [hr']))
    have hr := h r (by simp)
    have : ∃ v, useRecord cfg ps r = .ok v := by
      cases r with
      | data sh hdr c s g st p =>
        simp only [GranOK] at hr
        simp only [useRecord]
        split
        · exact ⟨_, rfl⟩
        · split
          · split
            · exact ⟨_, rfl⟩
            · simp only [cdiv, if_neg (hr (by assumption))]; exact ⟨_, rfl⟩
          · exact ⟨_, rfl⟩
      | _ => exact ⟨0, rfl⟩
    obtain ⟨v, hv⟩ := this
    exact ⟨v :: vs, by simp only [useAll, hv, hvs]⟩

theorem magic_iff (m0 m1 : Byte) : rd16 m0 m1 = Generated.fileMagic ↔ (m0 = 0x89 ∧ m1 = 0x14) := by
  have h0 := m0.toNat_lt
  have h1 := m1.toNat_lt
  simp only [rd16, Generated.fileMagic]
  constructor
  · intro h
    constructor
    · apply UInt8.toNat_inj.mp; show m0.toNat = 137; omega
    · apply UInt8.toNat_inj.mp; show m1.toNat = 20; omega
  · rintro ⟨rfl, rfl⟩; rfl


/-! ## file level -/

/-- rejected: format error (3), or the I/O error exit (2) that only a stale `errno` can produce -/
def Rejected (cfg : Cfg) (r : Except ToolErr (List Record)) : Prop :=
  exitStatus r = 3 ∨ (exitStatus r = 2 ∧ (cfg.errnoMagic = true ∨ cfg.errnoLoop = true))

theorem Rejected.clean {cfg : Cfg} {r : Except ToolErr (List Record)} (h : Rejected cfg r)
    (hm : cfg.errnoMagic = false) (hl : cfg.errnoLoop = false) : exitStatus r = 3 := by
  rcases h with h | ⟨_, h | h⟩
  · exact h
  · rw [hm] at h; cases h
  · rw [hl] at h; cases h

theorem readFile_io (cfg : Cfg) (bs : List Byte) (h : readFile cfg bs = .error .io) :
    cfg.errnoMagic = true ∨ cfg.errnoLoop = true := by
  unfold readFile at h
  split at h
  · split at h
    · exact Or.inr (readRecs_io cfg _ _ h)
    · cases h
  · split at h
    · rename_i hm; exact Or.inl hm
    · cases h

/-- extension of an accepted file: the appended bytes become part of the creator string -/
theorem readFile_extend (cfg : Cfg) (p t : List Byte) (rs : List Record) (h : readFile cfg p = .ok rs) :
    ∃ recs cr, rs = recs ++ [.fin cr] ∧ readFile cfg (p ++ t) = .ok (recs ++ [.fin (cr ++ t)]) := by
  unfold readFile at h
  split at h
  · rename_i m0 m1 rest
    split at h
    · rename_i hm
      obtain ⟨recs, cr, h1, h2⟩ := readRecs_extend cfg t _ _ _ h ((rest ++ t).length + 1)
        (by simp only [List.length_append]; omega)
      exact ⟨recs, cr, h1, by simp only [readFile, List.cons_append, hm, if_true, h2]⟩
    · cases h
  · cases h

/-! decidable views for concrete witnesses -/

def okAnd (r : Except ToolErr (List Record)) (p : List Record → Bool) : Bool :=
  match r with
  | .ok rs => p rs
  | .error _ => false

theorem okAnd_elim (r : Except ToolErr (List Record)) (p : List Record → Bool) (h : okAnd r p = true) :
    ∃ rs, r = .ok rs ∧ p rs = true := by
  cases r with
  | ok rs => exact ⟨rs, rfl, h⟩
  | error e => cases h

def errOf {α : Type} : Except ToolErr α → Option ToolErr
  | .ok _ => none
  | .error e => some e

theorem errOf_elim {α : Type} (r : Except ToolErr α) (e : ToolErr) (h : errOf r = some e) : r = .error e := by
  cases r with
  | ok _ => cases h
  | error e' => simp only [errOf, Option.some.injEq] at h; rw [h]

def isDivZero : Except Fault (List Nat) → Bool
  | .error .divZero => true
  | _ => false

theorem isDivZero_elim (r : Except Fault (List Nat)) (h : isDivZero r = true) : r = .error .divZero := by
  cases r with
  | ok _ => cases h
  | error e => cases e; rfl

end AslModel.PFileRead
