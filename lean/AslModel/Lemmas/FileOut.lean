import AslModel.Model.FileOut
/-! Helper lemmas for C18 (per-file outputs): the per-pass initialisation makes the counters of the carry irrelevant; the
delivery of the messages through a handle that starts closed touches the source's own log only; delivery through a handle
that is already open on the same name differs by the `openW` event only; frame lemmas for `content` and `written`. -/
namespace AslModel.FileOut

/-! ## the carried counters are irrelevant -/

theorem initPass_eq_of (o : Opts) (hj : o.resetJmpPerPass = true) (s s' : PSt)
    (h1 : s.syms = s'.syms) (h3 : s.msgs = s'.msgs) (h4 : s.stopped = s'.stopped) :
    initPass o s = initPass o s' := by
  cases s; cases s'
  simp only [initPass, hj] at *
  subst h1 h3 h4
  rfl

theorem passLoop_congr (o : Opts) (idx : Nat) (ops : List Op) (fuel n : Nat) (s s' : PSt)
    (h : initPass o s = initPass o s') : passLoop o idx ops fuel n s = passLoop o idx ops fuel n s' := by
  cases fuel <;> simp [passLoop, runPass, h]

/-- the pass loop of a source does not see the counters its predecessors left -/
theorem passLoop_start (o : Opts) (hj : o.resetJmpPerPass = true) (c1 c2 : Carry) (idx : Nat) (ops : List Op) :
    passLoop o idx ops 16 0 (startState c1) = passLoop o idx ops 16 0 (startState c2) := by
  apply passLoop_congr
  apply initPass_eq_of o hj <;> rfl

theorem assembleFile_carry (o : Opts) (hj : o.resetJmpPerPass = true) (c1 c2 : Carry)
    (he : c1.errFile = c2.errFile) (hd1 : c1.dead = false) (hd2 : c2.dead = false) (src : Source) :
    assembleFile o c1 src = assembleFile o c2 src := by
  unfold assembleFile
  simp only [hd1, hd2, Bool.false_eq_true, if_false]
  rw [passLoop_start o hj c1 c2, he]

/-! ## reset point: the per-source log is closed before the next source -/

theorem finish_errFile (o : Opts) (hd : o.dest = .perFile) (hc : o.closePerFile = true) (idx : Nat) (h : Option Chan)
    (r : Nat × PSt) : (finish o idx h r).2.errFile = none := by
  unfold finish
  simp only []
  split <;> simp [hd, hc]

theorem assembleFile_errFile (o : Opts) (hd : o.dest = .perFile) (hc : o.closePerFile = true) (c : Carry)
    (h : c.errFile = none) (src : Source) : (assembleFile o c src).2.errFile = none := by
  unfold assembleFile
  split
  · exact h
  · exact finish_errFile o hd hc _ _ _

theorem finish_dead (o : Opts) (idx : Nat) (h : Option Chan) (r : Nat × PSt) :
    (finish o idx h r).2.dead = true ↔ (finish o idx h r).1.status = 3 := by
  unfold finish
  simp only []
  split
  · simp
  · simp only [Bool.false_eq_true, false_iff]
    split <;> simp

theorem assembleFile_dead (o : Opts) (c : Carry) (hd : c.dead = false) (src : Source)
    (h : (assembleFile o c src).1.status ≠ 3) : (assembleFile o c src).2.dead = false := by
  unfold assembleFile at h ⊢
  simp only [hd, Bool.false_eq_true, if_false] at h ⊢
  cases hx : (finish o src.1 c.errFile (passLoop o src.1 src.2 16 0 (startState c))).2.dead with
  | false => rfl
  | true => exact absurd ((finish_dead o _ _ _).mp hx) h

/-! ## delivery -/

/-- through a handle that is closed or open on `name`, every event is on `name` -/
theorem deliver_chan (name : Chan) (h : Option Chan) (hh : h = none ∨ h = some name) (msgs : List Msg) :
    ∀ e ∈ (deliver name h msgs).2, e.chan = name := by
  induction msgs generalizing h with
  | nil => intro e he; cases h <;> simp [deliver] at he
  | cons m r ih =>
    intro e he
    rcases hh with hh | hh
    · subst hh
      simp only [deliver, List.mem_cons] at he
      rcases he with he | he | he
      · subst he; rfl
      · subst he; rfl
      · exact ih (some name) (Or.inr rfl) e he
    · subst hh
      simp only [deliver, List.mem_cons] at he
      rcases he with he | he
      · subst he; rfl
      · exact ih (some name) (Or.inr rfl) e he

/-- … and the handle is closed or open on `name` afterwards -/
theorem deliver_handle (name : Chan) (h : Option Chan) (hh : h = none ∨ h = some name) (msgs : List Msg) :
    (deliver name h msgs).1 = none ∨ (deliver name h msgs).1 = some name := by
  induction msgs generalizing h with
  | nil => cases h <;> simpa [deliver] using hh
  | cons m r ih =>
    rcases hh with hh | hh <;> subst hh <;> simp only [deliver] <;> exact ih (some name) (Or.inr rfl)

def Ev.isOpen : Ev → Bool
  | .openW _ => true
  | _ => false

/-- the events without the `openW`s -/
def strip (evs : List Ev) : List Ev := evs.filter (fun e => !e.isOpen)

theorem strip_append (a b : List Ev) : strip (a ++ b) = strip a ++ strip b := by simp [strip]

/-- delivery through the handle already open on `name` and through the closed handle differ in the `openW` event only -/
theorem deliver_strip (name : Chan) (h : Option Chan) (hh : h = none ∨ h = some name) (msgs : List Msg) :
    strip (deliver name h msgs).2 = msgs.map (fun m => Ev.write name m) := by
  induction msgs generalizing h with
  | nil => cases h <;> simp [deliver, strip]
  | cons m r ih =>
    have ih' := ih (some name) (Or.inr rfl)
    rcases hh with hh | hh <;> subst hh <;> simp only [deliver, List.map_cons]
    · simp only [strip, List.filter_cons, Ev.isOpen] at ih' ⊢
      simpa using ih'
    · simp only [strip, List.filter_cons, Ev.isOpen] at ih' ⊢
      simpa using ih'

theorem finish_evs (o : Opts) (idx : Nat) (h : Option Chan) (r : Nat × PSt) :
    (finish o idx h r).1.evs = headEvs o idx ++ (deliver (errName o idx) h r.2.msgs).2 := by
  unfold finish
  simp only []
  split <;> rfl

theorem errName_perFile (o : Opts) (hd : o.dest = .perFile) (idx : Nat) : errName o idx = .log idx := by
  simp [errName, hd]

/-- every event of a source that starts with the handle closed is on its own log -/
theorem assembleFile_evs_chan (o : Opts) (hd : o.dest = .perFile) (c : Carry) (hc : c.errFile = none) (src : Source) :
    ∀ e ∈ (assembleFile o c src).1.evs, e.chan = .log src.1 := by
  unfold assembleFile
  split
  · intro e he
    simp [notRun] at he
  · rw [finish_evs, hc, errName_perFile o hd]
    intro e he
    rcases List.mem_append.mp he with he | he
    · simp [headEvs, hd] at he
      subst he
      rfl
    · exact deliver_chan (.log src.1) none (Or.inl rfl) _ e he

/-! ## shared destinations: the handle stays open on the one name -/

/-- `ErrorName` of a run with one destination for all sources -/
theorem errName_shared (o : Opts) (hd : o.dest ≠ .perFile) (i j : Nat) : errName o i = errName o j := by
  unfold errName
  cases hx : o.dest <;> simp_all

/-- a result without its `openW` events -/
def Result.noOpen (r : Result) : Result := { r with evs := strip r.evs }

theorem finish_noOpen (o : Opts) (hd : o.dest ≠ .perFile) (idx : Nat) (h1 h2 : Option Chan)
    (hh1 : h1 = none ∨ h1 = some (errName o idx)) (hh2 : h2 = none ∨ h2 = some (errName o idx)) (r : Nat × PSt) :
    (finish o idx h1 r).1.noOpen = (finish o idx h2 r).1.noOpen := by
  have e1 := deliver_strip (errName o idx) h1 hh1 r.2.msgs
  have e2 := deliver_strip (errName o idx) h2 hh2 r.2.msgs
  unfold finish Result.noOpen
  simp only []
  split <;> simp only [strip_append, e1, e2]

theorem finish_handle_shared (o : Opts) (hd : o.dest ≠ .perFile) (idx : Nat) (h : Option Chan)
    (hh : h = none ∨ h = some (errName o idx)) (r : Nat × PSt) :
    (finish o idx h r).2.errFile = none ∨ (finish o idx h r).2.errFile = some (errName o idx) := by
  unfold finish
  simp only []
  split
  · exact Or.inl rfl
  · have hb : (o.dest == ErrDest.perFile) = false := by simpa using hd
    simp only [hb, Bool.false_and, Bool.false_eq_true, if_false]
    exact deliver_handle _ h hh _

/-- with one destination for all sources, a source gives the same result – up to the `openW` event – whether the handle is
still closed or already open on that destination, whatever counters its predecessors left -/
theorem assembleFile_noOpen (o : Opts) (hd : o.dest ≠ .perFile) (hj : o.resetJmpPerPass = true) (c1 c2 : Carry)
    (h1 : c1.errFile = none ∨ c1.errFile = some (errName o 0)) (h2 : c2.errFile = none ∨ c2.errFile = some (errName o 0))
    (hd1 : c1.dead = false) (hd2 : c2.dead = false) (src : Source) :
    (assembleFile o c1 src).1.noOpen = (assembleFile o c2 src).1.noOpen := by
  unfold assembleFile
  simp only [hd1, hd2, Bool.false_eq_true, if_false]
  rw [passLoop_start o hj c1 c2]
  rw [errName_shared o hd 0 src.1] at h1 h2
  exact finish_noOpen o hd src.1 _ _ h1 h2 _

theorem assembleFile_handle_shared (o : Opts) (hd : o.dest ≠ .perFile) (c : Carry)
    (h : c.errFile = none ∨ c.errFile = some (errName o 0)) (src : Source) :
    (assembleFile o c src).2.errFile = none ∨ (assembleFile o c src).2.errFile = some (errName o 0) := by
  unfold assembleFile
  split
  · exact h
  · rw [errName_shared o hd 0 src.1] at h ⊢
    exact finish_handle_shared o hd src.1 _ h _

/-! ## frame lemmas for the file system -/

theorem content_append (c : Chan) (st : Option (List Msg)) (a b : List Ev) :
    content c st (a ++ b) = content c (content c st a) b := by
  induction a generalizing st with
  | nil => rfl
  | cons e r ih => cases e <;> simp only [List.cons_append, content] <;> exact ih _

theorem content_untouched (c : Chan) (st : Option (List Msg)) (a : List Ev) (h : ∀ e ∈ a, e.chan ≠ c) :
    content c st a = st := by
  induction a generalizing st with
  | nil => rfl
  | cons e r ih =>
    have he : e.chan ≠ c := h e (by simp)
    have hr : ∀ e ∈ r, e.chan ≠ c := fun e' h' => h e' (by simp [h'])
    cases e <;> simp only [content] <;> simp only [Ev.chan] at he <;> simp only [he, if_false] <;> exact ih _ hr

/-- among event blocks that each touch only the log of their own key (keys pairwise distinct), the content of the log of one
key is what its own block leaves -/
theorem content_flatMap {α : Type} (key : α → Nat) (evs : α → List Ev) (L : List α)
    (hown : ∀ x ∈ L, ∀ e ∈ evs x, e.chan = .log (key x)) (hnd : (L.map key).Nodup) (x : α) (hx : x ∈ L) :
    content (.log (key x)) none (L.flatMap evs) = content (.log (key x)) none (evs x) := by
  induction L with
  | nil => simp at hx
  | cons t r ih =>
    simp only [List.map_cons, List.nodup_cons] at hnd
    simp only [List.flatMap_cons, content_append]
    have hrest : ∀ y ∈ r, key y ≠ key x → ∀ e ∈ evs y, e.chan ≠ .log (key x) := by
      intro y hy hne e he
      rw [hown y (by simp [hy]) e he]
      intro h
      exact hne (Chan.log.inj h)
    rcases List.mem_cons.mp hx with hxt | hxr
    · subst hxt
      apply content_untouched
      intro e he
      obtain ⟨y, hy, hey⟩ := List.mem_flatMap.mp he
      apply hrest y hy _ e hey
      intro hk
      exact hnd.1 (by rw [← hk]; exact List.mem_map_of_mem hy)
    · have hne : key t ≠ key x := by
        intro hk
        exact hnd.1 (by rw [hk]; exact List.mem_map_of_mem hxr)
      rw [content_untouched (.log (key x)) none (evs t)]
      · exact ih (fun y hy => hown y (by simp [hy])) hnd.2 hxr
      · intro e he
        rw [hown t (by simp) e he]
        intro h
        exact hne (Chan.log.inj h)

/-- what is written to a channel does not depend on the `openW` events -/
theorem written_strip (c : Chan) (evs : List Ev) : written c (strip evs) = written c evs := by
  induction evs with
  | nil => rfl
  | cons e r ih =>
    unfold written strip at ih ⊢
    cases e with
    | unlink c' => simpa [Ev.isOpen] using ih
    | openW c' => simpa [Ev.isOpen] using ih
    | write c' m =>
      simp only [List.filter_cons, Ev.isOpen, Bool.not_false, if_true, List.filterMap_cons]
      split <;> first | exact ih | exact congrArg _ ih

theorem written_allEvs (c : Chan) (rs : List Result) : written c (allEvs rs) = rs.flatMap (fun r => written c r.evs) := by
  induction rs with
  | nil => rfl
  | cons r t ih =>
    simp only [allEvs, List.flatMap_cons] at ih ⊢
    simp only [written, List.filterMap_append] at ih ⊢
    rw [ih]

theorem written_noOpen (c : Chan) (r : Result) : written c r.noOpen.evs = written c r.evs := written_strip c r.evs

end AslModel.FileOut
