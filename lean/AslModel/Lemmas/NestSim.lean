import AslModel.Lemmas.NestOps
/-! The simulation behind `C11_nest_refines` (Props/C11_Nest.lean): every part of the SPEC's structural expansion
(`NestSpec.lines`: a list of lines, a call, a repetition) is carried out by a counted run of the machine
(Model/MacroNest.lean) that leaves the input stack as it found it and keeps the relation `Data` / `CtxRel`. -/
namespace AslModel.NestModel
open AslModel.NestSpec

/-! ### the Restorer -/

theorem restorer_deq (q : Quirks) (f : Frame) (s : St) : DEq (restorer q f s) s := by
  unfold restorer restorerUse restorerLoc popLoc
  split <;> split <;> (try split) <;> exact ⟨rfl, rfl, rfl, rfl, rfl, rfl, rfl, rfl, rfl⟩

theorem restorer_cnt (q : Quirks) (f : Frame) (s : St) : (restorer q f s).cnt = s.cnt := by
  unfold restorer restorerUse restorerLoc popLoc
  split <;> split <;> (try split) <;> rfl

theorem restorer_stack (q : Quirks) (f : Frame) (s : St) : (restorer q f s).stack = s.stack := by
  unfold restorer; rw [restorerUse_stack, restorerLoc_stack]

theorem restorer_use (q : Quirks) (f : Frame) (s : St) (x : Nat) :
    (restorer q f s).use x = if f.kind = .macroExp ∧ x = f.mac then s.use x - 1 else s.use x := by
  unfold restorer; rw [restorerUse_use, restorerLoc_use]

theorem restorerUse_mom (f : Frame) (s : St) : (restorerUse f s).mom = s.mom := by
  unfold restorerUse; split <;> rfl

theorem restorer_nopop (q : Quirks) (f : Frame) (s : St)
    (h : (f.kind != .srcFile && !f.gs && (q.emptyPops || f.pushed)) = false) :
    (restorer q f s).mom = s.mom ∧ (restorer q f s).hstack = s.hstack := by
  unfold restorer
  rw [restorerUse_mom, restorerUse_hstack]
  unfold restorerLoc
  rw [h]; exact ⟨rfl, rfl⟩

theorem restorer_pop (q : Quirks) (f : Frame) (s : St) (c : Int) (rest : List Int)
    (h : (f.kind != .srcFile && !f.gs && (q.emptyPops || f.pushed)) = true) (hh : s.hstack = c :: rest) :
    (restorer q f s).mom = c ∧ (restorer q f s).hstack = rest := by
  unfold restorer
  rw [restorerUse_mom, restorerUse_hstack]
  unfold restorerLoc
  rw [h]
  unfold popLoc
  rw [hh]; exact ⟨rfl, rfl⟩

/-! ### `ExpandMacro`, loops -/

def macroFrame (p : Prog) (m a : Nat) : Frame :=
  { kind := .macroExp, mac := m, gs := (getDef p m).gs, arg := a, body := (getDef p m).body, rest := (getDef p m).body,
    isEmpty := (getDef p m).body.isEmpty }

/-- the state after `ExpandMacro` has counted the expansion, with input stack `st` -/
def entered (s : St) (m : Nat) (st : List Frame) : St :=
  { s with use := setUse s.use m (s.use m + 1), stack := st, maxUse := max s.maxUse (s.use m + 1) }

theorem expandMacro_ok (p : Prog) (s : St) (m a : Nat) (h : ¬ (p.nestMax > 0 ∧ s.use m > p.nestMax)) :
    expandMacro p s m a = entered s m (macroFrame p m a :: s.stack) := by
  unfold expandMacro; rw [if_neg h]; rfl

/-- the SPEC state after a call has been counted -/
def bumped (s : SSt) (n : Nat) : SSt := { s with maxOpen := max s.maxOpen n }

theorem entered_data {ρ : Int → Nat} {s : SSt} {ms : St} (hd : Data ρ s ms) (m n : Nat) (hu : ms.use m = n) (st : List Frame) :
    Data ρ (bumped s (n + 1)) (entered ms m st) :=
  ⟨hd.pc, hd.out, hd.dbl, hd.pass, hd.undef1, hd.undef2, hd.repass, hd.syms, hd.symsOK, hd.refused, by
    show max ms.maxUse (ms.use m + 1) = max s.maxOpen (n + 1)
    rw [hd.maxUse, hu]⟩

theorem enter_bumped (s : SSt) (c : Ctx) (gs : Bool) (n : Nat) :
    ({ (enter s c gs).1 with maxOpen := max (enter s c gs).1.maxOpen n } : SSt) = (enter (bumped s n) c gs).1 ∧
      (enter s c gs).2 = (enter (bumped s n) c gs).2 := by
  cases gs <;> exact ⟨rfl, rfl⟩

/-- the scope numbers the machine's handles stand for are those of the log -/
def Agree (ρ : Int → Nat) (log : List Nat) : Prop := ∀ i sc, log[i]? = some sc → ρ (Int.ofNat i) = sc

theorem Agree.of_prefix {ρ : Int → Nat} {l1 l2 : List Nat} (h : l1 <+: l2) (a : Agree ρ l2) : Agree ρ l1 := by
  intro i sc hi
  obtain ⟨t, rfl⟩ := h
  apply a i sc
  have hlt : i < l1.length := by
    rcases List.getElem?_eq_some_iff.1 hi with ⟨h, _⟩
    exact h
  rw [List.getElem?_append_left hlt]; exact hi

/-- what a part of the expansion leaves behind: `k` rounds, the stack `st`, handles as in `ms0` -/
structure Out (ρ : Int → Nat) (c : Ctx) (s' : SSt) (w w' : Walk) (ms0 : St) (st : List Frame) (k : Nat) (ms' : St) : Prop where
  steps : w.steps + k ≤ w'.steps
  stack : ms'.stack = st
  data : Data ρ s' ms'
  ctx : CtxRel ρ c ms'
  mom : ms'.mom = ms0.mom
  hstack : ms'.hstack = ms0.hstack
  cnt : ms'.cnt = w'.log.length
  ns : s'.nextScope = w'.ns

/-- the lines a tag still has to deliver (`ls`, not empty) are carried out like `NestSpec.lines` does -/
def RunStmt (p : Prog) (q : Quirks) (ρ : Int → Nat) (F : Nat) : Prop :=
  ∀ (c : Ctx) (ls : List BLine) (s : SSt) (w : Walk) (f : Frame) (below : List Frame) (ms : St),
    Good p (lines p F c ls s) → Agree ρ (walk p F c.arg ls w).log →
    ls ≠ [] → f.rest = ls → f.isEmpty = false → f.arg = c.arg → ms.stack = f :: below →
    Data ρ s (handleOps f ms) → CtxRel ρ c (handleOps f ms) →
    (handleOps f ms).cnt = w.log.length → s.nextScope = w.ns →
    ∃ k ms', Steps p q k ms ms' ∧
      Out ρ c (lines p F c ls s) w (walk p F c.arg ls w) (handleOps f ms) (nextFrame f [] :: below) k ms'

theorem walk_nil (p : Prog) (F a : Nat) (w : Walk) : walk p F a [] w = w := by
  cases F <;> rfl

theorem enter_steps (w : Walk) (gs : Bool) (b : List BLine) : (w.enter gs b).steps = w.steps := by
  unfold Walk.enter; split
  · rfl
  · split <;> rfl

theorem countOpen_cons (c : Ctx) (m x : Nat) (ch : List Nat) (a : Nat) :
    countOpen { chain := ch, arg := a, opened := m :: c.opened } x = (if m = x then 1 else 0) + countOpen c x := by
  unfold countOpen
  by_cases h : m = x
  · subst h; simp; omega
  · have : (m == x) = false := beq_eq_false_iff_ne.2 h
    simp [this, h]


theorem good_not_refused {p : Prog} {F : Nat} {c : Ctx} {s : SSt} {m a : Nat} {ms : St}
    (hg : Good p (callM p F c s m a)) (hu : ms.use m = countOpen c m) : ¬ (p.nestMax > 0 ∧ ms.use m > p.nestMax) := by
  have h1 := (lines_mono p F { chain := (enter s c (getDef p m).gs).2, arg := a, opened := m :: c.opened } (getDef p m).body
    { (enter s c (getDef p m).gs).1 with maxOpen := max (enter s c (getDef p m).gs).1.maxOpen (countOpen c m + 1) }).2
  have h2 : countOpen c m + 1 ≤ (callM p F c s m a).maxOpen := Nat.le_trans (Nat.le_max_right _ _) h1
  rcases hg.2 with h0 | hle
  · omega
  · omega

theorem enter_ns (s : SSt) (c : Ctx) (gs : Bool) :
    (enter s c gs).1.nextScope = if gs then s.nextScope else s.nextScope + 1 := by
  unfold enter; split <;> rfl

theorem enter_chain (s : SSt) (c : Ctx) (gs : Bool) :
    (enter s c gs).2 = if gs then c.chain else s.nextScope :: c.chain := by
  unfold enter; split <;> rfl

theorem wenter_ns (w : Walk) (gs : Bool) (b : List BLine) : (w.enter gs b).ns = if gs then w.ns else w.ns + 1 := by
  unfold Walk.enter; split
  · rfl
  · split <;> rfl

theorem wenter_log_nil (w : Walk) (gs : Bool) : (w.enter gs []).log = w.log := by
  unfold Walk.enter; split
  · rfl
  · rfl

/-- the state in which the first line of an expansion / a repetition is delivered -/
def opened (gs : Bool) (x : St) : St := if gs then x else pushLoc x

theorem opened_deq (gs : Bool) (x : St) : DEq x (opened gs x) := by
  unfold opened; split <;> exact ⟨rfl, rfl, rfl, rfl, rfl, rfl, rfl, rfl, rfl⟩

theorem opened_use (gs : Bool) (x : St) : (opened gs x).use = x.use := by
  unfold opened; split <;> rfl

theorem opened_stack (gs : Bool) (x : St) : (opened gs x).stack = x.stack := by
  unfold opened; split <;> rfl

/-- a call / a repetition with a body that delivers lines begins: scope and handle -/
theorem enter_rel {ρ : Int → Nat} {c : Ctx} {s : SSt} {x : St} {w : Walk} (gs : Bool) (body : List BLine)
    (hb : body ≠ []) (hd : Data ρ s x) (hch : c.chain = (x.mom :: x.hstack).map ρ) (hok : HOK x.mom x.hstack)
    (hcnt : x.cnt = w.log.length) (hns : s.nextScope = w.ns) (hag : Agree ρ (w.enter gs body).log) :
    Data ρ (enter s c gs).1 (opened gs x) ∧ (enter s c gs).2 = ((opened gs x).mom :: (opened gs x).hstack).map ρ ∧
      HOK (opened gs x).mom (opened gs x).hstack ∧ (opened gs x).cnt = (w.enter gs body).log.length ∧
      (enter s c gs).1.nextScope = (w.enter gs body).ns ∧
      (gs = true → (opened gs x).mom = x.mom ∧ (opened gs x).hstack = x.hstack) ∧
      (gs = false → (opened gs x).hstack = x.mom :: x.hstack) := by
  have hd' := Data.of_deq (opened_deq gs x) (Data.of_seq (seq_enter s c gs) hd)
  refine ⟨hd', ?_⟩
  have hbe : body.isEmpty = false := by cases body <;> simp_all
  cases gs with
  | true => exact ⟨hch, hok, hcnt, hns, fun _ => ⟨rfl, rfl⟩, fun h => Bool.noConfusion h⟩
  | false =>
    have hlog : (w.enter false body).log = w.log ++ [w.ns] := by simp [Walk.enter, hbe]
    have hρc : ρ (Int.ofNat x.cnt) = s.nextScope := by
      rw [hns]
      apply hag x.cnt w.ns
      rw [hlog, hcnt]; simp
    refine ⟨?_, hok.push x.cnt, ?_, ?_, fun h => Bool.noConfusion h, fun _ => rfl⟩
    · show s.nextScope :: c.chain = ρ (Int.ofNat x.cnt) :: (x.mom :: x.hstack).map ρ
      rw [hρc, hch]
    · show x.cnt + 1 = _
      rw [hlog, hcnt]; simp
    · show s.nextScope + 1 = _
      rw [hns]; simp [Walk.enter, hbe]

theorem handleOps_macroFrame (p : Prog) (m a : Nat) (x : St) :
    handleOps (macroFrame p m a) x = opened (getDef p m).gs x := by
  unfold handleOps opened macroFrame
  cases (getDef p m).gs <;> simp

theorem lines_nil_good {p : Prog} {F : Nat} {c : Ctx} {s : SSt} (hg : Good p (lines p F c [] s)) : lines p F c [] s = s := by
  cases F with
  | zero => rw [lines_zero] at hg; cases hg.1
  | succ F => rfl

theorem SEq.trans {a b c : SSt} (h1 : SEq a b) (h2 : SEq b c) : SEq a c :=
  ⟨h1.pc.trans h2.pc, h1.out.trans h2.out, h1.dbl.trans h2.dbl, h1.pass.trans h2.pass, h1.undef.trans h2.undef,
   h1.syms.trans h2.syms, h1.maxOpen.trans h2.maxOpen⟩

/-- a macro call: `ExpandMacro`, the rounds of the body, the Restorer -/
theorem call_sim {p : Prog} {q : Quirks} {ρ : Int → Nat} (hq : q.emptyPops = false) (_hρ : RhoOK ρ) (F : Nat)
    (ih : RunStmt p q ρ F) (c : Ctx) (s : SSt) (w : Walk) (st : List Frame) (mh : St) (m a : Nat)
    (hg : Good p (callM p F c s m a)) (hag : Agree ρ (callW p F w m a).log) (hst : mh.stack = st)
    (hd : Data ρ s mh) (hc : CtxRel ρ c mh) (hcnt : mh.cnt = w.log.length) (hns : s.nextScope = w.ns) :
    ∃ k ms', Steps p q k (expandMacro p mh m a) ms' ∧
      Out ρ c (callM p F c s m a) w.tick (callW p F w m a) mh st k ms' := by
  have hnr := good_not_refused hg (hc.use m)
  rw [expandMacro_ok p mh m a hnr]
  by_cases hb : (getDef p m).body = []
  · -- the tag is empty from the start: one round, the Restorer
    have hfe : (macroFrame p m a).isEmpty = true := by simp [macroFrame, hb]
    have hstep : step p q (entered mh m (macroFrame p m a :: mh.stack)) = some (restorer q (macroFrame p m a) (entered mh m st)) :=
      step_pop (f := macroFrame p m a) (below := st) (by rw [← hst]; rfl) hfe
    refine ⟨1, _, Steps.one hstep, ?_⟩
    have hcall : callM p F c s m a =
        { (enter s c (getDef p m).gs).1 with maxOpen := max (enter s c (getDef p m).gs).1.maxOpen (countOpen c m + 1) } := by
      have hg' := hg
      unfold callM at hg' ⊢
      rw [hb] at hg' ⊢
      exact lines_nil_good hg'
    have hnp : ((macroFrame p m a).kind != .srcFile && !(macroFrame p m a).gs && (q.emptyPops || (macroFrame p m a).pushed)) = false := by
      simp [macroFrame, hq]
    have hh := restorer_nopop q (macroFrame p m a) (entered mh m st) hnp
    refine ⟨?_, ?_, ?_, ?_, hh.1, hh.2, ?_, ?_⟩
    · unfold callW; rw [hb, walk_nil]
      show w.tick.steps + 1 ≤ (w.tick.enter _ _).steps + 1
      rw [enter_steps]; exact Nat.le_refl _
    · rw [restorer_stack]; rfl
    · rw [hcall]
      rw [(enter_bumped s c (getDef p m).gs (countOpen c m + 1)).1]
      exact Data.of_deq (restorer_deq q _ _).symm
        (Data.of_seq (seq_enter _ c _) (entered_data hd m (countOpen c m) (hc.use m) st))
    · refine CtxRel.of_eq (a := mh) (hh.1.trans rfl).symm (hh.2.trans rfl).symm (fun x => ?_) hc
      rw [restorer_use]
      show mh.use x = if (macroFrame p m a).kind = .macroExp ∧ x = m then setUse mh.use m (mh.use m + 1) x - 1 else setUse mh.use m (mh.use m + 1) x
      unfold setUse
      by_cases hx : x = m
      · subst hx; simp [macroFrame]
      · simp [hx]
    · rw [restorer_cnt]
      unfold callW; rw [hb, walk_nil]
      show mh.cnt = (w.tick.enter _ []).log.length
      rw [wenter_log_nil]; exact hcnt
    · rw [hcall]
      unfold callW; rw [hb, walk_nil]
      show (enter s c _).1.nextScope = (w.tick.enter _ []).ns
      rw [enter_ns, wenter_ns, hns]; rfl
  · -- the body delivers lines
    have hfe : (macroFrame p m a).isEmpty = false := by
      cases hbb : (getDef p m).body with
      | nil => exact absurd hbb hb
      | cons _ _ => simp [macroFrame, hbb]
    have hme : (entered mh m (macroFrame p m a :: mh.stack)).stack = macroFrame p m a :: st := by rw [← hst]; rfl
    have eb := enter_bumped s c (getDef p m).gs (countOpen c m + 1)
    obtain ⟨hd2, hch2, hok2, hcnt2, hns2, hgs1, hgs2⟩ := enter_rel (c := c) (s := bumped s (countOpen c m + 1))
      (x := entered mh m (macroFrame p m a :: mh.stack))
      (w := w.tick) (getDef p m).gs (getDef p m).body hb (entered_data hd m (countOpen c m) (hc.use m) _) hc.chain hc.hok hcnt hns
      (Agree.of_prefix (walk_ext p F a _ _).1 hag)
    rw [← eb.1] at hd2 hns2
    rw [← eb.2] at hch2
    have hcx : CtxRel ρ { chain := (enter s c (getDef p m).gs).2, arg := a, opened := m :: c.opened }
        (handleOps (macroFrame p m a) (entered mh m (macroFrame p m a :: mh.stack))) := by
      rw [handleOps_macroFrame]
      refine ⟨hch2, hok2, fun x => ?_⟩
      rw [opened_use, countOpen_cons, ← hc.use x]
      show setUse mh.use m (mh.use m + 1) x = _
      unfold setUse
      by_cases hx : x = m
      · subst hx; simp; omega
      · have : ¬ m = x := fun h => hx h.symm
        simp [hx, this]
    obtain ⟨k, ms2, hsteps, ho⟩ := ih { chain := (enter s c (getDef p m).gs).2, arg := a, opened := m :: c.opened }
      (getDef p m).body
      { (enter s c (getDef p m).gs).1 with maxOpen := max (enter s c (getDef p m).gs).1.maxOpen (countOpen c m + 1) }
      (w.tick.enter (getDef p m).gs (getDef p m).body) (macroFrame p m a) st (entered mh m (macroFrame p m a :: mh.stack))
      hg hag hb rfl hfe rfl hme
      (by rw [handleOps_macroFrame]; exact hd2) hcx
      (by rw [handleOps_macroFrame]; exact hcnt2) hns2
    have hf2e : (nextFrame (macroFrame p m a) []).isEmpty = true := by simp [nextFrame, macroFrame]
    have hstep : step p q ms2 = some (restorer q (nextFrame (macroFrame p m a) []) { ms2 with stack := st }) :=
      step_pop ho.stack hf2e
    have hhand : (restorer q (nextFrame (macroFrame p m a) []) { ms2 with stack := st }).mom = mh.mom ∧
        (restorer q (nextFrame (macroFrame p m a) []) { ms2 with stack := st }).hstack = mh.hstack := by
      have hm2 := ho.mom
      have hh2 := ho.hstack
      rw [handleOps_macroFrame] at hm2 hh2
      cases hgs : (getDef p m).gs with
      | true =>
        have hnp : ((nextFrame (macroFrame p m a) []).kind != .srcFile && !(nextFrame (macroFrame p m a) []).gs &&
            (q.emptyPops || (nextFrame (macroFrame p m a) []).pushed)) = false := by
          simp [nextFrame, macroFrame, hgs]
        have := restorer_nopop q _ { ms2 with stack := st } hnp
        have h1 := hgs1 hgs
        exact ⟨this.1.trans (hm2.trans h1.1), this.2.trans (hh2.trans h1.2)⟩
      | false =>
        have hp : ((nextFrame (macroFrame p m a) []).kind != .srcFile && !(nextFrame (macroFrame p m a) []).gs &&
            (q.emptyPops || (nextFrame (macroFrame p m a) []).pushed)) = true := by
          simp [nextFrame, macroFrame, hgs]
        have h1 := hgs2 hgs
        exact restorer_pop q _ { ms2 with stack := st } mh.mom mh.hstack hp (hh2.trans h1)
    refine ⟨k + 1, _, Steps.trans hsteps (Steps.one hstep), ?_, ?_, ?_, ?_, hhand.1, hhand.2, ?_, ho.ns⟩
    · have : (w.tick.enter (getDef p m).gs (getDef p m).body).steps + k ≤
          (walk p F a (getDef p m).body (w.tick.enter (getDef p m).gs (getDef p m).body)).steps := ho.steps
      rw [enter_steps] at this
      show w.tick.steps + (k + 1) ≤ (walk p F a _ _).steps + 1
      omega
    · rw [restorer_stack]
    · have hdat : Data ρ (callM p F c s m a) ms2 := ho.data
      exact Data.of_deq (DEq.trans (a := ms2) (b := { ms2 with stack := st }) ⟨rfl, rfl, rfl, rfl, rfl, rfl, rfl, rfl, rfl⟩
        (restorer_deq q _ _).symm) hdat
    · refine CtxRel.of_eq (a := mh) hhand.1.symm hhand.2.symm (fun x => ?_) hc
      rw [restorer_use]
      show mh.use x = if (nextFrame (macroFrame p m a) []).kind = .macroExp ∧ x = (nextFrame (macroFrame p m a) []).mac
        then ms2.use x - 1 else ms2.use x
      rw [ho.ctx.use x, countOpen_cons, hc.use x]
      have hk : (nextFrame (macroFrame p m a) []).kind = .macroExp := by simp [macroFrame]
      have hm : (nextFrame (macroFrame p m a) []).mac = m := by simp [macroFrame]
      rw [hm]
      simp only [hk, true_and]
      by_cases hx : x = m
      · rw [if_pos hx, if_pos hx.symm]; omega
      · have : ¬ m = x := fun h => hx h.symm
        rw [if_neg hx, if_neg this]; omega
    · rw [restorer_cnt]; exact ho.cnt

end AslModel.NestModel
