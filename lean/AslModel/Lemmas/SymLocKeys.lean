import AslModel.Lemmas.SymLocRefine3
/-! helper lemmas for `C13_loc_refines`: which keys a run enters labels under (`labelKeys`) - the labels of a body text
under the handle of its iteration, everything else under handles that did not exist before - and that a table which
holds exactly these keys is settled iteration by iteration (`SettledItems`). -/
namespace AslModel.SymLoc
open AslModel.Sym AslModel.Generated.Sym
open AslModel.LocScope hiding Name

/-! ### properties every operation of a run preserves -/

theorem loop_preserves (P : LSt → Prop) (glob : Bool) (body : LSt → LSt) (hb : ∀ s, P s → P (body s))
    (hopen : ∀ f st, P st → P (iterOpen glob f st)) :
    ∀ (n : Nat) (first : Bool) (st : LSt), P st → P (loop glob body n first st).1 := by
  intro n
  induction n with
  | zero => intro first st h; simpa [loop] using h
  | succ k ih => intro first st h; simp only [loop]; exact ih false _ (hb _ (hopen first st h))

theorem finish_preserves (P : LSt → Prop) (hopen : ∀ g f st, P st → P (iterOpen g f st))
    (hrest : ∀ g f st, P st → P (restorer g f st)) (wh glob : Bool) (r : LSt × Bool) (h : P r.1) : P (finish wh glob r) := by
  unfold finish
  split
  · exact hrest _ _ _ (hopen _ _ _ h)
  · exact hrest _ _ _ h

mutual
theorem execItem_preserves (P : LSt → Prop) (hstep : ∀ st o, P st → P (stepL st o))
    (hopen : ∀ g f st, P st → P (iterOpen g f st)) (hrest : ∀ g f st, P st → P (restorer g f st)) :
    ∀ (i : Item) (st : LSt), P st → P (execItem i st)
  | .op o, st, h => by simpa [execItem] using hstep st o h
  | .con wh glob n body, st, h => by
    simp only [execItem]
    exact finish_preserves P hopen hrest wh glob _
      (loop_preserves P glob (execItems body) (fun s hs => execItems_preserves P hstep hopen hrest body s hs)
        (hopen glob) n true st h)
theorem execItems_preserves (P : LSt → Prop) (hstep : ∀ st o, P st → P (stepL st o))
    (hopen : ∀ g f st, P st → P (iterOpen g f st)) (hrest : ∀ g f st, P st → P (restorer g f st)) :
    ∀ (q : Items) (st : LSt), P st → P (execItems q st)
  | .nil, st, h => by simpa [execItems] using h
  | .cons i r, st, h => by
    simp only [execItems]
    exact execItems_preserves P hstep hopen hrest r _ (execItem_preserves P hstep hopen hrest i st h)
end

theorem execItems_cs (q : Items) (st : LSt) : (execItems q st).g.cs = st.g.cs :=
  execItems_preserves (fun s => s.g.cs = st.g.cs) (fun s o h => (stepL_cs s o).trans h)
    (fun g f s h => by rw [iterOpen_g]; exact h) (fun g f s h => by rw [restorer_g]; exact h) q st rfl

theorem execItem_cs (i : Item) (st : LSt) : (execItem i st).g.cs = st.g.cs :=
  execItem_preserves (fun s => s.g.cs = st.g.cs) (fun s o h => (stepL_cs s o).trans h)
    (fun g f s h => by rw [iterOpen_g]; exact h) (fun g f s h => by rw [restorer_g]; exact h) i st rfl

/-! ### the keys of a run, piece by piece -/

theorem obsLoop_filterMap {β γ : Type} (f : β → Option γ) (glob : Bool) (body : LSt → LSt) (t hd : LSt → List β) :
    ∀ (n : Nat) (first : Bool) (st : LSt),
      (obsLoop glob body t hd n first st).filterMap f =
        obsLoop glob body (fun s => (t s).filterMap f) (fun s => (hd s).filterMap f) n first st := by
  intro n
  induction n with
  | zero => intro first st; rfl
  | succ k ih => intro first st; simp only [obsLoop, List.filterMap_append, ih]

def keysItem (i : Item) (st : LSt) : List Key := (traceItem i st).filterMap (·.dkey)

theorem labelKeys_nil (st : LSt) : labelKeys .nil st = [] := rfl

theorem labelKeys_cons (i : Item) (r : Items) (st : LSt) :
    labelKeys (.cons i r) st = keysItem i st ++ labelKeys r (execItem i st) := by
  simp [labelKeys, keysItem, traceItems, List.filterMap_append]

theorem keysItem_op (o : Op) (st : LSt) : keysItem (.op o) st = (evOf st o).dkey.toList := by
  simp only [keysItem, traceItem, List.filterMap_cons, List.filterMap_nil]
  cases (evOf st o).dkey <;> rfl

theorem keysItem_con (wh glob : Bool) (n : Nat) (body : Items) (st : LSt) :
    keysItem (.con wh glob n body) st = obsLoop glob (execItems body) (labelKeys body) (fun _ => []) n true st := by
  simp only [keysItem, traceItem, obsLoop_filterMap]
  rfl

/-- the handle stack is well formed as far as the keys are concerned: the current space is an old one -/
def WF (st : LSt) : Prop := st.mom < (st.cnt : Int)

theorem defKey_top (st : LSt) (n : Name) (hm : st.mom = -1) : defKey st n = none := by
  unfold defKey
  split
  · simp [hm]
  · rfl

theorem defKey_mom (st : LSt) (n : Name) (hm : st.mom ≠ -1) (hord : isTmpName n = false) :
    defKey st n = if n.getLast? = some 93 then none else some (fold st.g.cs n, st.mom) := by
  by_cases hl : n.getLast? = some 93
  · simp [hl, defKey_of_rbr]
  · unfold defKey
    rw [getSymSection_of_not_rbr _ _ hl]
    simp only [hl, if_false, hm, chkTmpDef_ordinary _ _ _ hord]

/-- the keys of a piece of program that runs from `st` to `st'`: the labels `labs` of the text under the handle of the
current space, everything else under handles opened meanwhile -/
structure KeysCh (st st' : LSt) (ks : List Key) (labs : List LocScope.Name) : Prop where
  sound : ∀ key ∈ ks, (key.2 = st.mom ∧ key.1 ∈ labs) ∨ ((st.cnt : Int) ≤ key.2 ∧ key.2 < (st'.cnt : Int))
  complete : st.mom ≠ -1 → ∀ k ∈ labs, (k, st.mom) ∈ ks

theorem keys_op (cs : Bool) (o : Op) (st : LSt) (hcs : st.g.cs = cs) (hord : st.mom ≠ -1 → opOrdinary o = true) :
    KeysCh st (stepL st o) (evOf st o).dkey.toList (((toStmt o).label.map (fold cs)).toList) := by
  have key : ∀ n, (st.mom ≠ -1 → isTmpName n = false) →
      KeysCh st (stepL st o) (defKey (bumpLine st) n).toList (((unqual n).map (fold cs)).toList) := by
    intro n hn
    by_cases hm : st.mom = -1
    · rw [defKey_top _ _ (by simpa [bumpLine] using hm)]
      exact ⟨by simp, fun h => absurd hm h⟩
    · rw [defKey_mom (bumpLine st) n (by simpa [bumpLine] using hm) (hn hm)]
      rcases unqual_eq_some n with hq | ⟨hq, hl⟩
      · have hl := (unqual_some hq).2
        simp only [hl, if_false, hq, Option.map_some, Option.toList_some]
        refine ⟨?_, ?_⟩
        · intro k hk
          simp only [List.mem_singleton] at hk
          subst hk
          left
          exact ⟨rfl, by simp [bumpLine, hcs]⟩
        · intro _ k hk
          simp only [List.mem_singleton] at hk
          subst hk
          simp [bumpLine, hcs]
      · simp only [hl, if_true, hq, Option.map_none, Option.toList_none]
        exact ⟨by simp, by simp⟩
  cases o
  case label n => exact key n (fun h => by simpa [opOrdinary] using hord h)
  case labelOnly n => exact key n (fun h => by simpa [opOrdinary] using hord h)
  case labelWord n r => exact key n (fun h => by have := hord h; simp [opOrdinary] at this; exact this.1)
  all_goals exact ⟨by simp [evOf], by simp [toStmt]⟩

theorem KeysCh.widen {st st' st'' : LSt} {ks : List Key} {labs : List LocScope.Name} (h : KeysCh st st' ks labs)
    (hc : st'.cnt ≤ st''.cnt) : KeysCh st st'' ks labs :=
  ⟨fun key hk => by
    cases h.sound key hk with
    | inl h1 => exact Or.inl h1
    | inr h1 => right; have := h1.2; exact ⟨h1.1, by omega⟩, h.complete⟩

theorem KeysCh.append {st st1 st2 : LSt} {k1 k2 : List Key} {l1 l2 : List LocScope.Name} (h1 : KeysCh st st1 k1 l1)
    (h2 : KeysCh st1 st2 k2 l2) (hm : st1.mom = st.mom) (hc1 : st.cnt ≤ st1.cnt) (hc2 : st1.cnt ≤ st2.cnt) :
    KeysCh st st2 (k1 ++ k2) (l1 ++ l2) := by
  refine ⟨?_, ?_⟩
  · intro key hk
    cases List.mem_append.mp hk with
    | inl h =>
      cases h1.sound key h with
      | inl h' => exact Or.inl ⟨h'.1, List.mem_append_left _ h'.2⟩
      | inr h' => right; have := h'.2; exact ⟨h'.1, by omega⟩
    | inr h =>
      cases h2.sound key h with
      | inl h' => exact Or.inl ⟨h'.1.trans hm, List.mem_append_right _ h'.2⟩
      | inr h' => right; have := h'.1; exact ⟨by omega, h'.2⟩
  · intro hne k hk
    cases List.mem_append.mp hk with
    | inl h => exact List.mem_append_left _ (h1.complete hne k h)
    | inr h =>
      have := h2.complete (by rw [hm]; exact hne) k h
      rw [hm] at this
      exact List.mem_append_right _ this

def ItemsKeys (cs : Bool) (q : PItems) : Prop :=
  ∀ (st : LSt), WF st → st.g.cs = cs → q.ordinary (st.mom != -1) = true →
    KeysCh st (execItems q.toModel st) (labelKeys q.toModel st) (labelsOf (fold cs) (q.toSpec false))

def ItemKeys (cs : Bool) (i : PItem) : Prop :=
  ∀ (st : LSt), WF st → st.g.cs = cs → i.ordinary (st.mom != -1) = true →
    KeysCh st (execItem i.toModel st) (keysItem i.toModel st) (labelsOf (fold cs) (.cons (i.toSpec false) .nil))

theorem execItems_cnt_ge (q : Items) (st : LSt) : st.cnt ≤ (execItems q st).cnt := (openedItems_ok q st).1
theorem execItem_cnt_ge (i : Item) (st : LSt) : st.cnt ≤ (execItem i st).cnt := (openedItem_ok i st).1

theorem loop_cnt_ge (glob : Bool) (body : Items) (n : Nat) (first : Bool) (st : LSt) :
    st.cnt ≤ (loop glob (execItems body) n first st).1.cnt :=
  (loop_opened glob (execItems body) (openedItems body) (fun s => openedItems_ok body s) n first st).1

theorem WF_iterOpen (first : Bool) (st : LSt) : WF (iterOpen false first st) := by
  unfold WF
  rw [iterOpen_mom, iterOpen_cnt]
  simp only [Bool.false_eq_true, if_false]
  omega

theorem iterOpen_mom_ne (first : Bool) (st : LSt) : (iterOpen false first st).mom ≠ -1 := by
  rw [iterOpen_mom]; omega

/-- a construct without GLOBALSYMBOLS: all its keys lie under handles opened by it -/
theorem loop_keys_fresh (cs : Bool) (body : PItems) (hb : ItemsKeys cs body) (hord : body.ordinary true = true) :
    ∀ (n : Nat) (first : Bool) (st : LSt), st.g.cs = cs →
      ∀ key ∈ obsLoop false (execItems body.toModel) (labelKeys body.toModel) (fun _ => []) n first st,
        (st.cnt : Int) ≤ key.2 ∧ key.2 < ((loop false (execItems body.toModel) n first st).1.cnt : Int) := by
  intro n
  induction n with
  | zero => intro first st _ key hk; simp [obsLoop] at hk
  | succ k ih =>
    intro first st hcs key hk
    simp only [obsLoop, List.nil_append, List.mem_append, loop] at hk ⊢
    have hs := hb (iterOpen false first st) (WF_iterOpen first st) (by rw [iterOpen_g]; exact hcs)
      (by
        have hb' : ((iterOpen false first st).mom != -1) = true := by simpa using iterOpen_mom_ne first st
        rw [hb']; exact hord)
    have hc1 : (iterOpen false first st).cnt = st.cnt + 1 := by simp [iterOpen_cnt]
    have hc2 := execItems_cnt_ge body.toModel (iterOpen false first st)
    have hc3 := loop_cnt_ge false body.toModel k false (execItems body.toModel (iterOpen false first st))
    cases hk with
    | inl h =>
      cases hs.sound key h with
      | inl h' => rw [h'.1, iterOpen_mom]; omega
      | inr h' => omega
    | inr h =>
      have := ih false _ (by rw [execItems_cs, iterOpen_g]; exact hcs) key h
      omega

/-- a construct with GLOBALSYMBOLS: the labels of its body are labels of the enclosing text -/
theorem loop_keys_glob (cs : Bool) (body : PItems) (hb : ItemsKeys cs body) :
    ∀ (n : Nat) (first : Bool) (st : LSt), WF st → st.g.cs = cs → body.ordinary (st.mom != -1) = true →
      KeysCh st (loop true (execItems body.toModel) n first st).1
        (obsLoop true (execItems body.toModel) (labelKeys body.toModel) (fun _ => []) n first st)
        (if n > 0 then labelsOf (fold cs) (body.toSpec false) else []) := by
  intro n
  induction n with
  | zero => intro first st _ _ _; exact ⟨by simp [obsLoop], by simp⟩
  | succ k ih =>
    intro first st hwf hcs hord
    simp only [obsLoop, List.nil_append, loop, iterOpen_stack_glob, Nat.zero_lt_succ, if_true]
    have h1 := hb st hwf hcs hord
    have hfr := execItems_frame body.toModel st
    have hc1 := execItems_cnt_ge body.toModel st
    have hwf1 : WF (execItems body.toModel st) := by unfold WF at *; rw [hfr.mom]; omega
    have h2 := ih false (execItems body.toModel st) hwf1 (by rw [execItems_cs]; exact hcs) (by rw [hfr.mom]; exact hord)
    have hc2 := loop_cnt_ge true body.toModel k false (execItems body.toModel st)
    have := h1.append h2 hfr.mom hc1 hc2
    refine ⟨?_, ?_⟩
    · exact fun key hk => by
        cases this.sound key hk with
        | inl h' =>
          left
          refine ⟨h'.1, ?_⟩
          cases List.mem_append.mp h'.2 with
          | inl m => exact m
          | inr m => split at m <;> simp_all
        | inr h' => exact Or.inr h'
    · intro hne k' hk'
      exact this.complete hne k' (List.mem_append_left _ hk')

mutual
theorem item_keys (cs : Bool) : ∀ (i : PItem), ItemKeys cs i
  | .op o => by
    intro st _ hcs hord
    have h := keys_op cs o st hcs (fun hm => by
      have hb' : (st.mom != -1) = true := by simpa using hm
      rw [hb'] at hord
      simpa [PItem.ordinary] using hord)
    simpa [PItem.toModel, PItem.toSpec, keysItem_op, execItem, labelsOf] using h
  | .con m wh true n body => by
    intro st hwf hcs hord
    have hb := items_keys cs body
    have h := loop_keys_glob cs body hb n true st hwf hcs
      (ordinary_mono body (by simpa [PItem.ordinary] using hord) _)
    have h' := h.widen (finish_cnt_ge wh true (loop true (execItems body.toModel) n true st))
    simpa [PItem.toModel, PItem.toSpec, keysItem_con, execItem, labelsOf] using h'
  | .con m wh false n body => by
    intro st hwf hcs hord
    have hb := items_keys cs body
    have h := loop_keys_fresh cs body hb (by simpa [PItem.ordinary] using hord) n true st hcs
    have hf := finish_cnt_ge wh false (loop false (execItems body.toModel) n true st)
    refine ⟨?_, ?_⟩
    · intro key hk
      right
      have := h key (by simpa [PItem.toModel, keysItem_con] using hk)
      simp only [PItem.toModel, execItem]
      omega
    · intro _ k hk
      simp [PItem.toSpec, labelsOf] at hk
theorem items_keys (cs : Bool) : ∀ (q : PItems), ItemsKeys cs q
  | .nil => by
    intro st _ _ _
    exact ⟨by simp [PItems.toModel, labelKeys_nil], by simp [PItems.toSpec, labelsOf]⟩
  | .cons i r => by
    intro st hwf hcs hord
    simp only [PItems.ordinary, Bool.and_eq_true] at hord
    have h1 := item_keys cs i st hwf hcs hord.1
    have hfr := execItem_frame i.toModel st
    have hc1 := execItem_cnt_ge i.toModel st
    have hwf1 : WF (execItem i.toModel st) := by unfold WF at *; rw [hfr.mom]; omega
    have h2 := items_keys cs r (execItem i.toModel st) hwf1 (by rw [execItem_cs]; exact hcs)
      (by rw [hfr.mom]; exact hord.2)
    have hc2 := execItems_cnt_ge r.toModel (execItem i.toModel st)
    have := h1.append h2 hfr.mom hc1 hc2
    simpa [PItems.toModel, labelKeys_cons, execItems, labelsOf_cons_split] using this
end

/-! ### the table after a run: what it held, and the keys of the run -/

theorem loop_hasKey (glob : Bool) (body : LSt → LSt) (kb : LSt → List Key) (key : Key)
    (hb : ∀ s, hasKey (body s).ltab key = (hasKey s.ltab key || (kb s).contains key)) :
    ∀ (n : Nat) (first : Bool) (st : LSt),
      hasKey (loop glob body n first st).1.ltab key =
        (hasKey st.ltab key || (obsLoop glob body kb (fun _ => []) n first st).contains key) := by
  intro n
  induction n with
  | zero => intro first st; simp [loop, obsLoop]
  | succ k ih =>
    intro first st
    simp only [loop, obsLoop, List.nil_append, ih, hb, iterOpen_ltab, List.contains_eq_mem, List.mem_append,
      Bool.decide_or, Bool.or_assoc]

mutual
theorem execItem_hasKey : ∀ (i : Item) (st : LSt) (key : Key),
    hasKey (execItem i st).ltab key = (hasKey st.ltab key || (keysItem i st).contains key)
  | .op o, st, key => by
    rw [keysItem_op]
    simp only [execItem, stepL_hasKey]
    cases (evOf st o).dkey with
    | none => simp
    | some k =>
      have : (k == key) = decide (key = k) := by
        by_cases h : key = k
        · subst h; simp
        · have h' : ¬ k = key := fun e => h e.symm
          simp [h, h']
      simp [this]
  | .con wh glob n body, st, key => by
    simp only [execItem, finish_ltab, keysItem_con]
    exact loop_hasKey glob (execItems body) (labelKeys body) key (fun s => execItems_hasKey body s key) n true st
theorem execItems_hasKey : ∀ (q : Items) (st : LSt) (key : Key),
    hasKey (execItems q st).ltab key = (hasKey st.ltab key || (labelKeys q st).contains key)
  | .nil, st, key => by simp [execItems, labelKeys_nil]
  | .cons i r, st, key => by
    simp only [execItems, labelKeys_cons, execItems_hasKey r, execItem_hasKey i, List.contains_eq_mem, List.mem_append,
      Bool.decide_or, Bool.or_assoc]
end

end AslModel.SymLoc
