import AslModel.Model.AddrRes
import AslModel.Lemmas.DataExt
/-! Helper lemmas for the reservation part of C10 (`Props/C10_Res.lean`): the `tCurrCodeFill` walk of
`DecodeIntelPseudo_LayoutMult` over *every* pure reservation tree, for elements smaller than the address
unit (`Adv`, lemmas of `Lemmas/DataExt.lean`) and for elements of one or more whole units (`AdvW`). -/
namespace AslModel.AddrResLemmas
open AslModel.PFile (Byte b)
open AslModel.Data AslModel.DataModel AslModel.DataX AslModel.DataXModel AslModel.DataXLemmas
open AslModel.AddrRes AslModel.AddrResModel

/-! ## elements smaller than the unit (`k = ElemsPerFullWord > 1`) -/

theorem adv_refl (k : Nat) (st : XSt) (hlw : st.lw < k) (hds : st.ds = .space) : Adv k st st 0 :=
  ⟨by omega, hlw, hds, rfl⟩

mutual
theorem pure_arg_run (c : MCfg) (p : XP) (cx : XCtx) (t : List Byte) (hk : 1 < cx.k) :
    ∀ (a : XArg) (st : XSt), pureArg a = true → st.lw < cx.k → st.ds ≠ .const →
      ∃ st', layoutMultX c p cx t a st = .ok st' ∧ Adv cx.k st st' (elemsArg a) ∧ 0 < elemsArg a
  | .q, st, _, hlw, hds => by
    obtain ⟨st', h, hadv⟩ := q_step c p cx t st hk hlw hds
    exact ⟨st', h, by simpa [elemsArg] using hadv, by simp [elemsArg]⟩
  | .dup n as, st, hp, hlw, hds => by
    simp only [pureArg, Bool.and_eq_true, decide_eq_true_eq] at hp
    obtain ⟨st1, h1, hadv1, hpos⟩ := pure_args_run c p cx t hk as st hp.2 hlw hds
    obtain ⟨st2, h2, hadv2⟩ := dup_step c p cx t n as st st1 (elemsArgs as) hk hp.1 hlw h1 hadv1
    refine ⟨st2, h2, by simpa [elemsArg] using hadv2, ?_⟩
    simp only [elemsArg]
    have : 1 ≤ n.toNat := by omega
    exact Nat.mul_pos this hpos
  | .int _, _, hp, _, _ => by simp [pureArg] at hp
  | .str _, _, hp, _, _ => by simp [pureArg] at hp
  | .chr _, _, hp, _, _ => by simp [pureArg] at hp
  | .flt _, _, hp, _, _ => by simp [pureArg] at hp
  | .rep _ _, _, hp, _, _ => by simp [pureArg] at hp
theorem pure_args_run (c : MCfg) (p : XP) (cx : XCtx) (t : List Byte) (hk : 1 < cx.k) :
    ∀ (as : XArgs) (st : XSt), pureArgs as = true → st.lw < cx.k → st.ds ≠ .const →
      ∃ st', layoutMultLX c p cx t as st = .ok st' ∧ Adv cx.k st st' (elemsArgs as) ∧ 0 < elemsArgs as
  | .nil, _, hp, _, _ => by simp [pureArgs] at hp
  | .cons a as, st, hp, hlw, hds => by
    simp only [pureArgs, Bool.and_eq_true] at hp
    obtain ⟨st1, h1, hadv1, hpos⟩ := pure_arg_run c p cx t hk a st hp.1 hlw hds
    obtain ⟨st2, h2, hadv2⟩ := pure_tail_run c p cx t hk as st1 hp.2 hadv1.lw hadv1.ds
    refine ⟨st2, ?_, ?_, ?_⟩
    · rw [cons_run c p cx t a as st st1 h1]; exact h2
    · simpa [elemsArgs] using adv_trans cx.k st st1 st2 _ _ hadv1 hadv2
    · simp only [elemsArgs]; omega
theorem pure_tail_run (c : MCfg) (p : XP) (cx : XCtx) (t : List Byte) (hk : 1 < cx.k) :
    ∀ (as : XArgs) (st : XSt), pureTail as = true → st.lw < cx.k → st.ds = .space →
      ∃ st', layoutMultLX c p cx t as st = .ok st' ∧ Adv cx.k st st' (elemsArgs as)
  | .nil, st, _, hlw, hds => ⟨st, nil_run c p cx t st, by simpa [elemsArgs] using adv_refl cx.k st hlw hds⟩
  | .cons a as, st, hp, hlw, hds => by
    simp only [pureTail, Bool.and_eq_true] at hp
    obtain ⟨st1, h1, hadv1, _⟩ := pure_arg_run c p cx t hk a st hp.1 hlw (by rw [hds]; decide)
    obtain ⟨st2, h2, hadv2⟩ := pure_tail_run c p cx t hk as st1 hp.2 hadv1.lw hadv1.ds
    refine ⟨st2, ?_, ?_⟩
    · rw [cons_run c p cx t a as st st1 h1]; exact h2
    · simpa [elemsArgs] using adv_trans cx.k st st1 st2 _ _ hadv1 hadv2
end

/-! ## elements of `m ≥ 1` whole units (`ElemsPerFullWord ≤ 1`) -/

/-- `st'` is `st` advanced by `e` elements of `m` whole units each, memory untouched -/
structure AdvW (m : Nat) (st st' : XSt) (e : Nat) : Prop where
  fw : st'.fw = st.fw + e * m
  lw : st'.lw = 0
  ds : st'.ds = .space
  mem : st'.mem = st.mem

theorem advW_trans (m : Nat) (a bb cc : XSt) (e1 e2 : Nat) (h1 : AdvW m a bb e1) (h2 : AdvW m bb cc e2) : AdvW m a cc (e1 + e2) :=
  ⟨by rw [h2.fw, h1.fw, Nat.add_mul]; omega, h2.lw, h2.ds, by rw [h2.mem, h1.mem]⟩

theorem q_stepW (c : MCfg) (p : XP) (cx : XCtx) (t : List Byte) (st : XSt)
    (hk : ¬ 1 < cx.k) (hlw : st.lw = 0) (hds : st.ds ≠ .const) :
    ∃ st', layoutMultX c p cx t .q st = .ok st' ∧ AdvW (cx.bits / (8 * cx.g)) st st' 1 := by
  unfold layoutMultX
  have hset : setDSX st .space = some { st with ds := .space } := by
    unfold setDSX
    cases h : st.ds <;> simp_all
  simp only [hset]
  refine ⟨_, rfl, ?_⟩
  have hinc : fillIncPerElem cx = ⟨((cx.bits / (8 * cx.g) : Nat) : Int), 0⟩ := by simp [fillIncPerElem, hk]
  rw [hinc]
  have hk' : ¬ ((cx.k : Nat) > 1) := hk
  refine ⟨?_, ?_, rfl, rfl⟩
  · simp only [XSt.withFill, incCodeFillBy, XSt.fill, hk', false_and, if_false]
    omega
  · simp only [XSt.withFill, incCodeFillBy, XSt.fill, hk', false_and, if_false, hlw]
    rfl

theorem dup_stepW (c : MCfg) (p : XP) (cx : XCtx) (t : List Byte) (n : Int) (as : XArgs) (st st' : XSt) (d : Nat)
    (hk : ¬ 1 < cx.k) (hn : 1 ≤ n) (hlw : st.lw = 0)
    (hrun : layoutMultLX c p cx t as st = .ok st') (hadv : AdvW (cx.bits / (8 * cx.g)) st st' d) :
    ∃ st'', layoutMultX c p cx t (.dup n as) st = .ok st'' ∧ AdvW (cx.bits / (8 * cx.g)) st st'' (n.toNat * d) := by
  unfold layoutMultX
  have h0 : ¬ (n ≤ 0) := by omega
  simp only [h0, if_false, hrun, hadv.ds]
  refine ⟨_, rfl, ?_⟩
  obtain ⟨j, hj⟩ : ∃ j, n.toNat = j + 1 := ⟨n.toNat - 1, by omega⟩
  have hj' : n.toNat - 1 = j := by omega
  rw [hj', hj]
  have hk' : ¬ ((cx.k : Nat) > 1) := hk
  have hsub : subCodeFill cx.k st'.fill st.fill = ⟨((d * (cx.bits / (8 * cx.g)) : Nat) : Int), 0⟩ := by
    simp only [subCodeFill, XSt.fill, hadv.lw, hlw, hadv.fw]
    simp
    generalize (d : Int) * ((cx.bits : Int) / (8 * (cx.g : Int))) = z
    omega
  rw [hsub]
  refine ⟨?_, ?_, hadv.ds, hadv.mem⟩
  · simp only [XSt.withFill, incCodeFillBy, multCodeFill, XSt.fill, hk', false_and, if_false, hadv.fw]
    have : ((st.fw + d * (cx.bits / (8 * cx.g)) : Nat) : Int) + ((d * (cx.bits / (8 * cx.g)) : Nat) : Int) * (j : Int)
        = ((st.fw + (j + 1) * d * (cx.bits / (8 * cx.g)) : Nat) : Int) := by
      push_cast
      grind
    rw [this, Int.toNat_natCast]
  · simp only [XSt.withFill, incCodeFillBy, multCodeFill, XSt.fill, hk', false_and, if_false, hadv.lw]
    simp

theorem advW_refl (m : Nat) (st : XSt) (hlw : st.lw = 0) (hds : st.ds = .space) : AdvW m st st 0 :=
  ⟨by omega, hlw, hds, rfl⟩

mutual
theorem pure_arg_runW (c : MCfg) (p : XP) (cx : XCtx) (t : List Byte) (hk : ¬ 1 < cx.k) :
    ∀ (a : XArg) (st : XSt), pureArg a = true → st.lw = 0 → st.ds ≠ .const →
      ∃ st', layoutMultX c p cx t a st = .ok st' ∧ AdvW (cx.bits / (8 * cx.g)) st st' (elemsArg a) ∧ 0 < elemsArg a
  | .q, st, _, hlw, hds => by
    obtain ⟨st', h, hadv⟩ := q_stepW c p cx t st hk hlw hds
    exact ⟨st', h, by simpa [elemsArg] using hadv, by simp [elemsArg]⟩
  | .dup n as, st, hp, hlw, hds => by
    simp only [pureArg, Bool.and_eq_true, decide_eq_true_eq] at hp
    obtain ⟨st1, h1, hadv1, hpos⟩ := pure_args_runW c p cx t hk as st hp.2 hlw hds
    obtain ⟨st2, h2, hadv2⟩ := dup_stepW c p cx t n as st st1 (elemsArgs as) hk hp.1 hlw h1 hadv1
    refine ⟨st2, h2, by simpa [elemsArg] using hadv2, ?_⟩
    simp only [elemsArg]
    have : 1 ≤ n.toNat := by omega
    exact Nat.mul_pos this hpos
  | .int _, _, hp, _, _ => by simp [pureArg] at hp
  | .str _, _, hp, _, _ => by simp [pureArg] at hp
  | .chr _, _, hp, _, _ => by simp [pureArg] at hp
  | .flt _, _, hp, _, _ => by simp [pureArg] at hp
  | .rep _ _, _, hp, _, _ => by simp [pureArg] at hp
theorem pure_args_runW (c : MCfg) (p : XP) (cx : XCtx) (t : List Byte) (hk : ¬ 1 < cx.k) :
    ∀ (as : XArgs) (st : XSt), pureArgs as = true → st.lw = 0 → st.ds ≠ .const →
      ∃ st', layoutMultLX c p cx t as st = .ok st' ∧ AdvW (cx.bits / (8 * cx.g)) st st' (elemsArgs as) ∧ 0 < elemsArgs as
  | .nil, _, hp, _, _ => by simp [pureArgs] at hp
  | .cons a as, st, hp, hlw, hds => by
    simp only [pureArgs, Bool.and_eq_true] at hp
    obtain ⟨st1, h1, hadv1, hpos⟩ := pure_arg_runW c p cx t hk a st hp.1 hlw hds
    obtain ⟨st2, h2, hadv2⟩ := pure_tail_runW c p cx t hk as st1 hp.2 hadv1.lw hadv1.ds
    refine ⟨st2, ?_, ?_, ?_⟩
    · rw [cons_run c p cx t a as st st1 h1]; exact h2
    · simpa [elemsArgs] using advW_trans _ st st1 st2 _ _ hadv1 hadv2
    · simp only [elemsArgs]; omega
theorem pure_tail_runW (c : MCfg) (p : XP) (cx : XCtx) (t : List Byte) (hk : ¬ 1 < cx.k) :
    ∀ (as : XArgs) (st : XSt), pureTail as = true → st.lw = 0 → st.ds = .space →
      ∃ st', layoutMultLX c p cx t as st = .ok st' ∧ AdvW (cx.bits / (8 * cx.g)) st st' (elemsArgs as)
  | .nil, st, _, hlw, hds => ⟨st, nil_run c p cx t st, by simpa [elemsArgs] using advW_refl _ st hlw hds⟩
  | .cons a as, st, hp, hlw, hds => by
    simp only [pureTail, Bool.and_eq_true] at hp
    obtain ⟨st1, h1, hadv1, _⟩ := pure_arg_runW c p cx t hk a st hp.1 hlw (by rw [hds]; decide)
    obtain ⟨st2, h2, hadv2⟩ := pure_tail_runW c p cx t hk as st1 hp.2 hadv1.lw hadv1.ds
    refine ⟨st2, ?_, ?_⟩
    · rw [cons_run c p cx t a as st st1 h1]; exact h2
    · simpa [elemsArgs] using advW_trans _ st st1 st2 _ _ hadv1 hadv2
end

/-! ## the unit count of the manual's rule -/

/-- `bits · k` = one unit: `⌈e·bits / unit⌉ = ⌈e / k⌉` -/
theorem resUnits_packed (g bits k e : Nat) (hb : 0 < bits) (hk : 0 < k) (h : 8 * g = k * bits) :
    resUnits g bits e = ceilDiv e k := by
  unfold resUnits ceilDiv
  rw [h]
  apply Nat.div_eq_of_lt_le
  · -- q·(k·bits) ≤ e·bits + k·bits − 1
    have h1 : (e + k - 1) / k * k ≤ e + k - 1 := Nat.div_mul_le_self _ _
    have h2 := Nat.mul_le_mul_right bits h1
    have h3 : (e + k - 1) * bits + bits = e * bits + k * bits := by
      have : e + k - 1 + 1 = e + k := by omega
      calc (e + k - 1) * bits + bits = (e + k - 1 + 1) * bits := by rw [Nat.add_mul, Nat.one_mul]
        _ = (e + k) * bits := by rw [this]
        _ = e * bits + k * bits := Nat.add_mul _ _ _
    have h4 : (e + k - 1) / k * (k * bits) = (e + k - 1) / k * k * bits := by rw [Nat.mul_assoc]
    rw [h4]
    omega
  · -- e·bits + k·bits − 1 < (q+1)·(k·bits)
    have h1 : e + k - 1 < ((e + k - 1) / k + 1) * k := by
      have := Nat.lt_div_mul_add (a := e + k - 1) hk
      rw [Nat.add_mul, Nat.one_mul]
      exact this
    have h2 : e + k ≤ ((e + k - 1) / k + 1) * k := by omega
    have h3 := Nat.mul_le_mul_right bits h2
    have h4 : ((e + k - 1) / k + 1) * (k * bits) = ((e + k - 1) / k + 1) * k * bits := by rw [Nat.mul_assoc]
    have h5 : (e + k) * bits = e * bits + k * bits := Nat.add_mul _ _ _
    have h6 : 0 < k * bits := Nat.mul_pos hk hb
    rw [h4]
    omega

/-- an element is `m` whole units: `⌈e·bits / unit⌉ = e·m` -/
theorem resUnits_whole (g bits m e : Nat) (hg : 0 < g) (h : bits = m * (8 * g)) :
    resUnits g bits e = e * m := by
  unfold resUnits ceilDiv
  rw [h]
  apply Nat.div_eq_of_lt_le
  · have : e * (m * (8 * g)) = e * m * (8 * g) := by rw [Nat.mul_assoc]
    omega
  · have : e * (m * (8 * g)) = e * m * (8 * g) := by rw [Nat.mul_assoc]
    rw [Nat.add_mul, Nat.one_mul]
    omega

/-! ## `DecodeIntelDx` on a pure reservation -/

theorem reserve_stmtW (c : MCfg) (p : XP) (g bits : Nat) (t : List Byte) (as : XArgs) (st' : XSt) (e : Nat)
    (hpos : 0 < e * (bits / (8 * g)))
    (hrun : layoutMultLX c p ⟨g, bits, loHiMapOf bits g c.ibig⟩ t as {} = .ok st')
    (hadv : AdvW (bits / (8 * g)) {} st' e) :
    decodeIntelDxX c p g bits t as = .ok ⟨none, .space (e * (bits / (8 * g))), []⟩ := by
  unfold decodeIntelDxX
  simp only [hrun, hadv.ds]
  have hfw : st'.fw = e * (bits / (8 * g)) := by simpa using hadv.fw
  have hne : e * (bits / (8 * g)) ≠ 0 := by omega
  simp [hadv.lw, hfw, hne]

/-- a pure reservation of any shape: `CodeLen` is the manual's unit count -/
theorem pure_stmt_units (c : MCfg) (p : XP) (g bits : Nat) (t : List Byte) (as : XArgs)
    (hp : pureArgs as = true) (hg : 0 < g) (hb : 0 < bits)
    (hdiv : (8 * g) % bits = 0 ∨ bits % (8 * g) = 0) :
    decodeIntelDxX c p g bits t as = .ok ⟨none, .space (resUnits g bits (elemsArgs as)), []⟩ := by
  by_cases hk : 1 < 8 * g / bits
  · -- packed
    have hdvd : (8 * g) % bits = 0 := by
      rcases hdiv with h | h
      · exact h
      · -- bits is a multiple of 8g and smaller than 8g/1 …: impossible unless bits ≥ 8g
        exfalso
        have hle : 8 * g ≤ bits := Nat.le_of_dvd hb (Nat.dvd_of_mod_eq_zero h)
        have : 8 * g / bits ≤ 1 := by
          apply Nat.div_le_of_le_mul
          omega
        exact absurd hk (Nat.not_lt.mpr this)
    have hkb : 8 * g = 8 * g / bits * bits := (Nat.div_mul_cancel (Nat.dvd_of_mod_eq_zero hdvd)).symm
    obtain ⟨st', hrun, hadv, hpos⟩ := pure_args_run c p ⟨g, bits, loHiMapOf bits g c.ibig⟩ t hk as {} hp
      (by show 0 < 8 * g / bits; omega) (by decide)
    rw [resUnits_packed g bits (8 * g / bits) _ hb (by omega) hkb]
    exact reserve_stmt c p g bits t as st' _ hk hpos hrun hadv
  · -- whole units
    have hdvd : bits % (8 * g) = 0 := by
      rcases hdiv with h | h
      · -- 8g is a multiple of bits with quotient ≤ 1: bits = 8g
        have hd := Nat.dvd_of_mod_eq_zero h
        have hq : 8 * g / bits * bits = 8 * g := Nat.div_mul_cancel hd
        have hq1 : 8 * g / bits = 1 := by
          have : 8 * g / bits ≠ 0 := by
            intro h0
            rw [h0] at hq
            omega
          exact Nat.le_antisymm (Nat.not_lt.mp hk) (Nat.pos_of_ne_zero this)
        rw [hq1, Nat.one_mul] at hq
        rw [hq]
        exact Nat.mod_self _
      · exact h
    have hmb : bits = bits / (8 * g) * (8 * g) := (Nat.div_mul_cancel (Nat.dvd_of_mod_eq_zero hdvd)).symm
    have hm : 0 < bits / (8 * g) := by
      apply Nat.pos_of_ne_zero
      intro h0
      rw [h0] at hmb
      omega
    obtain ⟨st', hrun, hadv, hpos⟩ := pure_args_runW c p ⟨g, bits, loHiMapOf bits g c.ibig⟩ t hk as {} hp rfl (by decide)
    rw [resUnits_whole g bits (bits / (8 * g)) _ hg hmb]
    exact reserve_stmtW c p g bits t as st' _ (Nat.mul_pos hpos hm) hrun hadv

/-! ## the classification of the specification on pure reservations -/

mutual
theorem pure_arg_class : ∀ (a : XArg), pureArg a = true → plainArg a = true ∧ hasQ a = true ∧ hasC a = false
  | .q, _ => by simp [plainArg, hasQ, hasC]
  | .dup n as, hp => by
    simp only [pureArg, Bool.and_eq_true, decide_eq_true_eq] at hp
    have h := pure_args_class as hp.2
    refine ⟨?_, ?_, ?_⟩
    · simp only [plainArg, Bool.and_eq_true, decide_eq_true_eq]
      exact ⟨by omega, h.1⟩
    · have : 0 < n := by omega
      simp [hasQ, this, h.2.1]
    · simp [hasC, h.2.2]
  | .int _, hp => by simp [pureArg] at hp
  | .str _, hp => by simp [pureArg] at hp
  | .chr _, hp => by simp [pureArg] at hp
  | .flt _, hp => by simp [pureArg] at hp
  | .rep _ _, hp => by simp [pureArg] at hp
theorem pure_args_class : ∀ (as : XArgs), pureArgs as = true → plainArgs as = true ∧ hasQs as = true ∧ hasCs as = false
  | .nil, hp => by simp [pureArgs] at hp
  | .cons a as, hp => by
    simp only [pureArgs, Bool.and_eq_true] at hp
    have h1 := pure_arg_class a hp.1
    have h2 := pure_tail_class as hp.2
    refine ⟨?_, ?_, ?_⟩
    · simp [plainArgs, h1.1, h2.1]
    · simp [hasQs, h1.2.1]
    · simp [hasCs, h1.2.2, h2.2]
theorem pure_tail_class : ∀ (as : XArgs), pureTail as = true → plainArgs as = true ∧ hasCs as = false
  | .nil, _ => by simp [plainArgs, hasCs]
  | .cons a as, hp => by
    simp only [pureTail, Bool.and_eq_true] at hp
    have h1 := pure_arg_class a hp.1
    have h2 := pure_tail_class as hp.2
    exact ⟨by simp [plainArgs, h1.1, h2.1], by simp [hasCs, h1.2.2, h2.2]⟩
end

/-! ## the family `?,…,?, n DUP (?,…,?)` is a pure reservation -/

theorem pure_prefixQ : ∀ (a : Nat) (tl : XArgs), pureTail tl = true → pureTail (prefixQ a tl) = true
  | 0, _, h => h
  | a + 1, tl, h => by simp [prefixQ, pureTail, pureArg, pure_prefixQ a tl h]

theorem pure_qs_tail : ∀ (bb : Nat), pureTail (qs bb) = true
  | 0 => by simp [qs, pureTail, pureArg]
  | bb + 1 => by simp [qs, pureTail, pureArg, pure_qs_tail bb]

theorem pure_qs : ∀ (bb : Nat), pureArgs (qs bb) = true
  | 0 => by simp [qs, pureArgs, pureTail, pureArg]
  | bb + 1 => by simp [qs, pureArgs, pureArg, pure_qs_tail bb]

theorem elems_qs : ∀ (bb : Nat), elemsArgs (qs bb) = bb + 1
  | 0 => by simp [qs, elemsArgs, elemsArg]
  | bb + 1 => by simp [qs, elemsArgs, elemsArg, elems_qs bb]; omega

theorem elems_prefixQ : ∀ (a : Nat) (tl : XArgs), elemsArgs (prefixQ a tl) = a + elemsArgs tl
  | 0, _ => by simp [prefixQ]
  | a + 1, tl => by simp [prefixQ, elemsArgs, elemsArg, elems_prefixQ a tl]; omega

theorem pure_family (a : Nat) (n : Int) (hn : 1 ≤ n) (bb : Nat) : pureArgs (family a n bb) = true := by
  have hd : pureArg (.dup n (qs bb)) = true := by simp [pureArg, hn, pure_qs]
  cases a with
  | zero => simp [family, prefixQ, pureArgs, pureTail, hd]
  | succ j =>
    have : pureTail (prefixQ j (.cons (.dup n (qs bb)) .nil)) = true := pure_prefixQ j _ (by simp [pureTail, hd])
    simp [family, prefixQ, pureArgs, pureArg, this]

theorem elems_family (a : Nat) (n : Int) (bb : Nat) : elemsArgs (family a n bb) = a + n.toNat * (bb + 1) := by
  simp [family, elems_prefixQ, elemsArgs, elemsArg, elems_qs]

/-! ## model = spec, statement and step -/

theorem lay_model_eq_spec (c : MCfg) (p : XP) (big : Bool) (g bits : Nat) (as : XArgs)
    (hp : pureArgs as = true) (hg : 0 < g) (hb : 0 < bits)
    (hdiv : (8 * g) % bits = 0 ∨ bits % (8 * g) = 0) :
    modelLay c p g bits as = specLay big g bits as := by
  have hm := pure_stmt_units c p g bits tableInit as hp hg hb hdiv
  have hc := pure_args_class as hp
  unfold modelLay specLay
  rw [hm]
  have hb' : ¬ bits = 0 := by omega
  have hg' : ¬ g = 0 := by omega
  simp [hc.1, hc.2.1, hc.2.2, hb', hg']

/-- the data statements of a program are pure reservations of sizes that divide / are divided by every unit size -/
def PureStmt (gran : Nat → Nat) (st : AddrRes.Stmt) : Prop :=
  match st.op with
  | .dx bits as => pureArgs as = true ∧ 0 < bits ∧ ∀ s, 0 < gran s ∧ ((8 * gran s) % bits = 0 ∨ bits % (8 * gran s) = 0)
  | _ => True

theorem step_model_eq_spec (gran : Nat → Nat) (c : MCfg) (p : XP) (big : Bool) (a : A) (st : AddrRes.Stmt) (h : PureStmt gran st) :
    step gran (modelLay c p) a st = step gran (specLay big) a st := by
  obtain ⟨l, op⟩ := st
  cases op with
  | dx bits as =>
    simp only [PureStmt] at h
    have hl := lay_model_eq_spec c p big (gran a.seg) bits as h.1 (h.2.2 a.seg).1 h.2.1 (h.2.2 a.seg).2
    simp only [step, hl]
  | org v => rfl
  | rorg d => rfl
  | seg s => rfl
  | nop => rfl

end AslModel.AddrResLemmas
