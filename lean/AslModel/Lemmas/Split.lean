import AslModel.Model.Split
/-! helper lemmas for C16: blanks, the quote scanner with QualifyQuote = NULL, the stages of SplitLine -/
namespace AslModel.Split
open AslModel.SrcLine

def allBlank (ws : List Char) : Prop := ∀ c ∈ ws, isSpace c = true

instance (ws : List Char) : Decidable (allBlank ws) := by unfold allBlank; infer_instance

theorem allBlank_nil : allBlank [] := by intro c h; cases h
theorem allBlank_tail {c : Char} {cs : List Char} (h : allBlank (c :: cs)) : allBlank cs :=
  fun d hd => h d (List.mem_cons_of_mem _ hd)
theorem allBlank_head {c : Char} {cs : List Char} (h : allBlank (c :: cs)) : isSpace c = true :=
  h c (List.mem_cons_self)

/-! ### trimRight (KillPostBlanks) -/

theorem trimRight_blank (ws : List Char) (h : allBlank ws) : trimRight ws = [] := by
  induction ws with
  | nil => rfl
  | cons c cs ih =>
    have h1 : isSpace c = true := allBlank_head h
    have h2 : trimRight cs = [] := ih (allBlank_tail h)
    simp [trimRight, h1, h2]

theorem trimRight_append_blank (l ws : List Char) (h : allBlank ws) : trimRight (l ++ ws) = trimRight l := by
  induction l with
  | nil => simpa [trimRight] using trimRight_blank ws h
  | cons c cs ih => simp [trimRight, ih]

/-- a text that ends in a non-blank character -/
def endsNonBlank (t : List Char) : Prop := ∃ t0 c, t = t0 ++ [c] ∧ isSpace c = false

theorem trimRight_ne_nil_of_ends (t : List Char) (h : endsNonBlank t) : trimRight t ≠ [] ∧ trimRight t = t := by
  obtain ⟨t0, c, rfl, hc⟩ := h
  induction t0 with
  | nil => simp [trimRight, hc]
  | cons d ds ih =>
    obtain ⟨h1, h2⟩ := ih
    have h3 : trimRight (ds ++ [c]) ≠ [] := h1
    constructor
    · simp [trimRight]
      intro h4; exact absurd h4 h3
    · simp only [List.cons_append, trimRight]
      rw [h2]
      simp

theorem trimRight_ends (t : List Char) (h : endsNonBlank t) : trimRight t = t := (trimRight_ne_nil_of_ends t h).2

theorem trimRight_pre_ends (x t : List Char) (h : endsNonBlank t) : trimRight (x ++ t) = x ++ t := by
  apply trimRight_ends
  obtain ⟨t0, c, rfl, hc⟩ := h
  exact ⟨x ++ t0, c, by simp, hc⟩

/-! ### dropWhile / takeWhile over a prefix -/

/-- `X` is empty or starts with a character on which `q` is false -/
def stopsAt (q : Char → Bool) (X : List Char) : Prop := X = [] ∨ ∃ d r, X = d :: r ∧ q d = false

theorem dropWhile_prefix (q : Char → Bool) (ws X : List Char) (h : ∀ c ∈ ws, q c = true) (hx : stopsAt q X) :
    (ws ++ X).dropWhile q = X := by
  induction ws with
  | nil =>
    rcases hx with rfl | ⟨d, r, rfl, hd⟩
    · rfl
    · simp [hd]
  | cons c cs ih =>
    have hc : q c = true := h c List.mem_cons_self
    simp only [List.cons_append, List.dropWhile, hc]
    exact ih (fun d hd => h d (List.mem_cons_of_mem _ hd))

theorem takeWhile_prefix (q : Char → Bool) (a X : List Char) (h : ∀ c ∈ a, q c = true) (hx : stopsAt q X) :
    (a ++ X).takeWhile q = a := by
  induction a with
  | nil =>
    rcases hx with rfl | ⟨d, r, rfl, hd⟩
    · rfl
    · simp [hd]
  | cons c cs ih =>
    have hc : q c = true := h c List.mem_cons_self
    simp only [List.cons_append, List.takeWhile, hc]
    rw [ih (fun d hd => h d (List.mem_cons_of_mem _ hd))]

/-! ### the scanner with QualifyQuote = NULL -/

/-- one step of QuotPosCore when no QualifyQuote callback is installed -/
def step (st : QState) (c : Char) : QState := stepQ .none st [] c []

theorem stepQ_none (st : QState) (rp : List Char) (c : Char) (after : List Char) :
    stepQ .none st rp c after = step st c := by
  simp [step, stepQ, qualify]

def scanEnd (st : QState) (t : List Char) : QState := t.foldl step st

/-- QuotPosCore for a search function that looks at one character -/
def qfind (f : Char → Bool) : QState → List Char → Nat → Option Nat
  | _, [], _ => none
  | st, c :: rest, i => if f c && st.neutral then some i else qfind f (step st c) rest (i + 1)

def headPred (m : List Char → Bool) (f : Char → Bool) : Prop :=
  ∀ s, m s = (match s with | c :: _ => f c | [] => false)

theorem quotPosAux_eq_qfind (m : List Char → Bool) (f : Char → Bool) (hm : headPred m f)
    (st : QState) (rp s : List Char) (i : Nat) : quotPosAux .none m st rp s i = qfind f st s i := by
  induction s generalizing st rp i with
  | nil => rfl
  | cons c rest ih =>
    simp only [quotPosAux, qfind, hm (c :: rest), stepQ_none]
    split
    · rfl
    · exact ih _ _ _

theorem headPred_matchChar (ch : Char) : headPred (matchChar ch) (fun c => c == ch) := by
  intro s; cases s <;> rfl

theorem headPred_semicolon : headPred (matchLeadIn [[';']]) (fun c => c == ';') := by
  intro s
  cases s with
  | nil => simp [matchLeadIn, List.isPrefixOf]
  | cons c r =>
    simp [matchLeadIn, List.isPrefixOf]
    exact Bool.beq_comm

/-- `s` can be skipped by the scan for `f`: from the initial state the scan passes over it without a hit and is in the
initial state again afterwards (balanced quotes and brackets, no `f`-character outside them) -/
def Clean (f : Char → Bool) (s : List Char) : Prop :=
  ∀ b i, qfind f {} (s ++ b) i = qfind f {} b (i + s.length)

theorem Clean_nil (f : Char → Bool) : Clean f [] := by intro b i; simp

theorem Clean_append {f : Char → Bool} {a b : List Char} (ha : Clean f a) (hb : Clean f b) : Clean f (a ++ b) := by
  intro x i
  rw [List.append_assoc, ha, hb]
  simp [Nat.add_assoc]

/-- characters the scanner does not react to -/
def inert (c : Char) : Bool :=
  !(c == '"' || c == '\'' || c == '\\' || c == '(' || c == ')' || c == '[' || c == ']')

theorem step_inert (c : Char) (h : inert c = true) : step {} c = {} := by
  simp [inert] at h
  obtain ⟨h1, h2, h3, h4, h5, h6, h7⟩ : c ≠ '"' ∧ c ≠ '\'' ∧ c ≠ '\\' ∧ c ≠ '(' ∧ c ≠ ')' ∧ c ≠ '[' ∧ c ≠ ']' := by
    refine ⟨?_, ?_, ?_, ?_, ?_, ?_, ?_⟩ <;> (intro hh; simp [hh] at h)
  simp [step, stepQ, h1, h2, h3, h4, h5, h6, h7]

theorem Clean_inert (f : Char → Bool) (s : List Char) (h : ∀ c ∈ s, inert c = true ∧ f c = false) : Clean f s := by
  induction s with
  | nil => exact Clean_nil f
  | cons c cs ih =>
    intro b i
    have hc := h c List.mem_cons_self
    simp only [List.cons_append, qfind, hc.2, Bool.false_and, step_inert c hc.1]
    rw [ih (fun d hd => h d (List.mem_cons_of_mem _ hd))]
    simp [Nat.add_assoc, Nat.add_comm 1]

theorem qfind_clean_hit (f : Char → Bool) (s : List Char) (hs : Clean f s) (c : Char) (r : List Char) (hc : f c = true) :
    qfind f {} (s ++ c :: r) 0 = some s.length := by
  rw [hs]
  simp [qfind, hc, QState.neutral]

theorem qfind_clean_none (f : Char → Bool) (s : List Char) (hs : Clean f s) : qfind f {} s 0 = none := by
  have := hs [] 0
  simpa [qfind] using this

/-! ### space / blank facts -/

theorem isSpace_inert (c : Char) (h : isSpace c = true) : inert c = true := by
  simp [isSpace] at h
  rcases h with ((((h | h) | h) | h) | h) | h <;> subst h <;> decide

theorem Clean_blank (f : Char → Bool) (ws : List Char) (h : allBlank ws) (hf : ∀ c, isSpace c = true → f c = false) :
    Clean f ws :=
  Clean_inert f ws (fun c hc => ⟨isSpace_inert c (h c hc), hf c (h c hc)⟩)


/-! ### well-formed structured lines (the hypotheses of C16_split_render) -/

/-- characters of labels, mnemonics and attributes: no blank, nothing the scanner reacts to, no `; : ,` -/
def nameChar (c : Char) : Bool := !isSpace c && inert c && !(c == ';') && !(c == ':') && !(c == ',')

theorem nameChar_facts (c : Char) (h : nameChar c = true) :
    isSpace c = false ∧ inert c = true ∧ c ≠ ';' ∧ c ≠ ':' ∧ c ≠ ',' := by
  simp [nameChar] at h
  obtain ⟨⟨⟨⟨h1, h2⟩, h3⟩, h4⟩, h5⟩ := h
  exact ⟨by simpa using h1, h2, h3, h4, h5⟩

/-- the standard splitting parameters: DivideChars ",", comment lead-in ";", QualifyQuote NULL, AttrChars "." -/
structure PStd (p : Params) : Prop where
  dc : p.divideChars = [',']
  li : p.leadIns = [[';']]
  qk : p.qk = .none
  ac : p.attrChars = ['.']

structure ArgOK (a : Arg) : Prop where
  pre : allBlank a.pre
  post : allBlank a.post
  startNB : ∃ d r, a.text = d :: r ∧ isSpace d = false
  ends : endsNonBlank a.text
  cleanComma : Clean (fun c => c == ',') a.text
  cleanSemi : Clean (fun c => c == ';') a.text

structure WF (p : Params) (l : Line) : Prop where
  labelChars : ∀ c ∈ l.label, nameChar c = true
  opChars : ∀ c ∈ l.op, nameChar c = true ∧ (p.hasAttrs = true → c ≠ '.')
  attrOK : ∀ a, l.attr = some a → (∀ c ∈ a, nameChar c = true) ∧ p.hasAttrs = true ∧ l.op ≠ []
  gap1 : allBlank l.gap1
  gap2 : allBlank l.gap2
  colon : l.colon = true → l.label ≠ []
  opGap : l.op ≠ [] → l.colon = false → l.gap1 ≠ []
  noOp : l.op = [] → l.attr = none ∧ l.args = [] ∧ l.gap2 = []
  argGap : l.args ≠ [] → l.gap2 ≠ []
  args : ∀ a ∈ l.args, ArgOK a

/-- the argument field as KillPostBlanks leaves it -/
def renderT : List Arg → List Char
  | [] => []
  | [a] => a.pre ++ a.text
  | a :: b :: r => a.pre ++ a.text ++ a.post ++ ',' :: renderT (b :: r)

theorem trimRight_renderArgs (args : List Arg) (h : ∀ a ∈ args, ArgOK a) (hne : args ≠ []) (x : List Char) :
    trimRight (x ++ renderArgs args) = x ++ renderT args := by
  induction args generalizing x with
  | nil => exact absurd rfl hne
  | cons a rest ih =>
    have ha := h a List.mem_cons_self
    cases rest with
    | nil =>
      simp only [renderArgs, renderT]
      rw [show x ++ (a.pre ++ a.text ++ a.post) = (x ++ a.pre ++ a.text) ++ a.post by simp]
      rw [trimRight_append_blank _ _ ha.post]
      rw [show x ++ a.pre ++ a.text = (x ++ a.pre) ++ a.text by simp]
      rw [trimRight_pre_ends _ _ ha.ends]
      simp
    | cons b r =>
      simp only [renderArgs, renderT]
      have := ih (fun c hc => h c (List.mem_cons_of_mem _ hc)) (by simp) (x ++ a.pre ++ a.text ++ a.post ++ [','])
      simpa using this

theorem renderT_length (args : List Arg) (h : ∀ a ∈ args, ArgOK a) : args.length ≤ (renderT args).length := by
  induction args with
  | nil => simp
  | cons a rest ih =>
    have ha := h a List.mem_cons_self
    obtain ⟨d, r, ht, _⟩ := ha.startNB
    have ih' := ih (fun c hc => h c (List.mem_cons_of_mem _ hc))
    cases rest with
    | nil => simp [renderT, ht]; omega
    | cons b r2 =>
      simp only [renderT, List.length_append, List.length_cons] at ih' ⊢
      simp [ht]; omega

/-! ### the argument loop -/

theorem divPos_std (p : Params) (hp : PStd p) (r : List Char) :
    divPos p r = (match qfind (fun c => c == ',') {} r 0 with
                  | some i => (min r.length i, true)
                  | none => (r.length, false)) := by
  simp only [divPos, hp.dc, hp.qk, List.foldl, quotPos]
  rw [quotPosAux_eq_qfind _ _ (headPred_matchChar ',')]
  cases qfind (fun c => c == ',') {} r 0 <;> rfl

theorem splitArgs_stage (p : Params) (hp : PStd p) (args : List Arg) (h : ∀ a ∈ args, ArgOK a) (hne : args ≠ [])
    (ws : List Char) (hws : allBlank ws) (fuel : Nat) (hf : args.length ≤ fuel) (forced : Bool) :
    splitArgsAux p fuel (ws ++ renderT args) forced = args.map Arg.text := by
  induction args generalizing ws fuel forced with
  | nil => exact absurd rfl hne
  | cons a rest ih =>
    have ha := h a List.mem_cons_self
    obtain ⟨d, r, ht, hd⟩ := ha.startNB
    cases fuel with
    | zero => simp at hf
    | succ n =>
      cases rest with
      | nil =>
        -- last argument
        have hrun : ws ++ renderT [a] = (ws ++ a.pre) ++ a.text := by simp [renderT]
        have hdw : ((ws ++ a.pre) ++ a.text).dropWhile isSpace = a.text := by
          apply dropWhile_prefix
          · intro c hc
            rcases List.mem_append.mp hc with hc | hc
            · exact hws c hc
            · exact ha.pre c hc
          · exact Or.inr ⟨d, r, ht, hd⟩
        have hq : qfind (fun c => c == ',') {} a.text 0 = none := qfind_clean_none _ _ ha.cleanComma
        simp only [splitArgsAux]
        rw [hrun, hdw, divPos_std p hp, hq]
        have hne2 : ((ws ++ a.pre) ++ a.text).isEmpty = false := by simp [ht]
        simp only [hne2, Bool.false_and]
        simp [trimRight_ends _ ha.ends]
        cases n <;> simp [splitArgsAux]
      | cons b r2 =>
        have hrun : ws ++ renderT (a :: b :: r2) = (ws ++ a.pre) ++ (a.text ++ a.post ++ ',' :: renderT (b :: r2)) := by
          simp [renderT]
        have hdw : ((ws ++ a.pre) ++ (a.text ++ a.post ++ ',' :: renderT (b :: r2))).dropWhile isSpace
            = a.text ++ a.post ++ ',' :: renderT (b :: r2) := by
          apply dropWhile_prefix
          · intro c hc
            rcases List.mem_append.mp hc with hc | hc
            · exact hws c hc
            · exact ha.pre c hc
          · exact Or.inr ⟨d, r ++ a.post ++ ',' :: renderT (b :: r2), by simp [ht], hd⟩
        have hclean : Clean (fun c => c == ',') (a.text ++ a.post) :=
          Clean_append ha.cleanComma (Clean_blank _ _ ha.post (by
            intro c hc; simp [isSpace] at hc
            rcases hc with ((((hc | hc) | hc) | hc) | hc) | hc <;> subst hc <;> decide))
        have hq : qfind (fun c => c == ',') {} (a.text ++ a.post ++ ',' :: renderT (b :: r2)) 0
            = some (a.text ++ a.post).length := qfind_clean_hit _ _ hclean ',' _ (by decide)
        simp only [splitArgsAux]
        rw [hrun, hdw, divPos_std p hp, hq]
        have hne2 : ((ws ++ a.pre) ++ (a.text ++ a.post ++ ',' :: renderT (b :: r2))).isEmpty = false := by simp [ht]
        simp only [hne2, Bool.false_and]
        have hmin : min (a.text ++ a.post ++ ',' :: renderT (b :: r2)).length (a.text ++ a.post).length
            = (a.text ++ a.post).length := by
          simp only [List.length_append, List.length_cons]; omega
        simp only [hmin]
        have htake : (a.text ++ a.post ++ ',' :: renderT (b :: r2)).take (a.text ++ a.post).length = a.text ++ a.post := by
          rw [List.take_left']
          rfl
        have hdrop : (a.text ++ a.post ++ ',' :: renderT (b :: r2)).drop ((a.text ++ a.post).length + 1) = renderT (b :: r2) := by
          rw [show a.text ++ a.post ++ ',' :: renderT (b :: r2) = (a.text ++ a.post ++ [',']) ++ renderT (b :: r2) by simp]
          rw [List.drop_left']
          simp only [List.length_append, List.length_cons, List.length_nil]
        rw [htake, hdrop, trimRight_append_blank _ _ ha.post, trimRight_ends _ ha.ends]
        have ih' := ih (fun c hc => h c (List.mem_cons_of_mem _ hc)) (by simp) [] allBlank_nil n
          (by simp at hf ⊢; omega) true
        simp only [List.nil_append] at ih'
        simp only [if_neg (by simp : ¬ (false = true)), ih', List.map]

/-! ### comment cut -/

def semi : Char → Bool := fun c => c == ';'

theorem Clean_names (s : List Char) (h : ∀ c ∈ s, nameChar c = true) : Clean semi s :=
  Clean_inert _ s (fun c hc => by
    obtain ⟨_, h2, h3, _, _⟩ := nameChar_facts c (h c hc)
    exact ⟨h2, by simp [semi, h3]⟩)

theorem Clean_semi_blank (ws : List Char) (h : allBlank ws) : Clean semi ws :=
  Clean_blank _ _ h (by
    intro c hc; simp [isSpace] at hc
    rcases hc with ((((hc | hc) | hc) | hc) | hc) | hc <;> subst hc <;> decide)

theorem Clean_semi_char (c : Char) (h1 : inert c = true) (h2 : c ≠ ';') : Clean semi [c] :=
  Clean_inert _ [c] (fun d hd => by
    have : d = c := by simpa using hd
    subst this; exact ⟨h1, by simp [semi, h2]⟩)

theorem Clean_renderArgs (args : List Arg) (h : ∀ a ∈ args, ArgOK a) : Clean semi (renderArgs args) := by
  induction args with
  | nil => exact Clean_nil _
  | cons a rest ih =>
    have ha := h a List.mem_cons_self
    have ih' := ih (fun c hc => h c (List.mem_cons_of_mem _ hc))
    have h1 : Clean semi (a.pre ++ a.text ++ a.post) :=
      Clean_append (Clean_append (Clean_semi_blank _ ha.pre) ha.cleanSemi) (Clean_semi_blank _ ha.post)
    cases rest with
    | nil => simpa [renderArgs] using h1
    | cons b r =>
      simp only [renderArgs]
      have h2 : Clean semi ([','] ++ renderArgs (b :: r)) :=
        Clean_append (Clean_semi_char ',' (by decide) (by decide)) ih'
      have := Clean_append h1 h2
      simpa using this

/-- the line from the mnemonic field on -/
def tailOf (l : Line) : List Char := l.opText ++ (l.gap2 ++ renderArgs l.args)

theorem body_eq (l : Line) : l.body = l.label ++ ((if l.colon then [':'] else []) ++ (l.gap1 ++ tailOf l)) := by
  simp [Line.body, tailOf]

theorem Clean_opText (p : Params) (l : Line) (h : WF p l) : Clean semi l.opText := by
  have h1 : Clean semi l.op := Clean_names _ (fun c hc => (h.opChars c hc).1)
  unfold Line.opText
  cases ha : l.attr with
  | none => simpa using h1
  | some a =>
    have h2 : Clean semi a := Clean_names _ (h.attrOK a ha).1
    have h3 : Clean semi (['.'] ++ a) := Clean_append (Clean_semi_char '.' (by decide) (by decide)) h2
    exact Clean_append h1 h3

theorem Clean_body (p : Params) (l : Line) (h : WF p l) : Clean semi l.body := by
  rw [body_eq]
  refine Clean_append (Clean_names _ h.labelChars) (Clean_append ?_ (Clean_append (Clean_semi_blank _ h.gap1) ?_))
  · cases l.colon
    · exact Clean_nil _
    · exact Clean_semi_char ':' (by decide) (by decide)
  · exact Clean_append (Clean_opText p l h) (Clean_append (Clean_semi_blank _ h.gap2) (Clean_renderArgs _ h.args))

theorem cut_render (p : Params) (hp : PStd p) (l : Line) (h : WF p l) : (cutComment p (render l)).1 = l.body := by
  have hc := Clean_body p l h
  simp only [cutComment, quotPos, hp.qk, hp.li]
  rw [quotPosAux_eq_qfind _ _ headPred_semicolon]
  unfold render
  cases l.comment with
  | none =>
    simp only [List.append_nil]
    rw [show (fun c => c == ';') = semi from rfl, qfind_clean_none _ _ hc]
  | some c =>
    rw [show (fun c => c == ';') = semi from rfl, qfind_clean_hit _ _ hc ';' c (by decide)]
    simp

/-! ### label, mnemonic, attribute -/

theorem names_nonblank (s : List Char) (h : ∀ c ∈ s, nameChar c = true) : ∀ c ∈ s, isSpace c = false :=
  fun c hc => (nameChar_facts c (h c hc)).1

theorem drop_len_succ (a X : List Char) : (a ++ X).drop (a.length + 1) = X.drop 1 := by
  induction a with
  | nil => simp
  | cons c cs ih => simpa using ih

theorem splitLabel_cons (c : Char) (cs X : List Char) (hc : isSpace c = false)
    (hl : ∀ d ∈ c :: cs, isLabEnd d = false) (hX : stopsAt (fun c => !isLabEnd c) X) :
    splitLabel ((c :: cs) ++ X) = (c :: cs, X.drop 1) := by
  have htw : ((c :: cs) ++ X).takeWhile (fun c => !isLabEnd c) = c :: cs :=
    takeWhile_prefix _ _ _ (fun d hd => by simp [hl d hd]) hX
  have hd := drop_len_succ (c :: cs) X
  simp only [List.cons_append] at htw hd ⊢
  simp only [splitLabel, hc, Bool.false_eq_true, if_false]
  rw [htw]
  exact Prod.ext rfl hd

/-- after the label stage: the label and some blanks followed by the mnemonic field -/
theorem label_stage (p : Params) (l : Line) (h : WF p l) :
    ∃ ws, allBlank ws ∧ splitLabel l.body = (l.label, ws ++ tailOf l) := by
  rw [body_eq]
  cases hl : l.label with
  | nil =>
    have hcol : l.colon = false := by
      cases hc : l.colon
      · rfl
      · exact absurd hl (h.colon hc)
    simp only [hcol, List.nil_append]
    refine ⟨l.gap1, h.gap1, ?_⟩
    cases hg : l.gap1 with
    | nil =>
      have hop : l.op = [] := by
        cases ho : l.op with
        | nil => rfl
        | cons c cs => exact absurd hg (h.opGap (by simp [ho]) hcol)
      obtain ⟨ha, hargs, hg2⟩ := h.noOp hop
      simp [tailOf, Line.opText, hop, ha, hargs, hg2, renderArgs, splitLabel]
    | cons g gs =>
      have hgs : isSpace g = true := by
        have := h.gap1; rw [hg] at this; exact allBlank_head this
      simp [splitLabel, hgs]
  | cons c cs =>
    have hlc : ∀ d ∈ c :: cs, nameChar d = true := by rw [← hl]; exact h.labelChars
    have hc1 := nameChar_facts c (hlc c List.mem_cons_self)
    have hle : ∀ d ∈ c :: cs, isLabEnd d = false := by
      intro d hd
      obtain ⟨h1, _, _, h4, _⟩ := nameChar_facts d (hlc d hd)
      simp [isLabEnd, h1, h4]
    cases hcol : l.colon with
    | true =>
      refine ⟨l.gap1, h.gap1, ?_⟩
      have := splitLabel_cons c cs ([':'] ++ (l.gap1 ++ tailOf l)) hc1.1 hle
        (Or.inr ⟨':', _, rfl, by simp [isLabEnd]⟩)
      simpa using this
    | false =>
      simp only [Bool.false_eq_true, if_false, List.nil_append]
      cases hg : l.gap1 with
      | nil =>
        have hop : l.op = [] := by
          cases ho : l.op with
          | nil => rfl
          | cons c cs => exact absurd hg (h.opGap (by simp [ho]) hcol)
        obtain ⟨ha, hargs, hg2⟩ := h.noOp hop
        refine ⟨[], allBlank_nil, ?_⟩
        have := splitLabel_cons c cs [] hc1.1 hle (Or.inl rfl)
        simpa [tailOf, Line.opText, hop, ha, hargs, hg2, renderArgs] using this
      | cons g gs =>
        have hgb : allBlank (g :: gs) := by rw [← hg]; exact h.gap1
        refine ⟨gs, allBlank_tail hgb, ?_⟩
        have := splitLabel_cons c cs ((g :: gs) ++ tailOf l) hc1.1 hle
          (Or.inr ⟨g, _, rfl, by simp [isLabEnd, allBlank_head hgb]⟩)
        simpa using this

theorem getLast_mem (s : List Char) (x : Char) (h : s.getLast? = some x) : x ∈ s := by
  induction s with
  | nil => simp at h
  | cons c cs ih =>
    cases cs with
    | nil => simp at h; simp [h]
    | cons d ds =>
      rw [List.getLast?_cons_cons] at h
      exact List.mem_cons_of_mem _ (ih h)

theorem splitOp_empty (lab ws : List Char) (n : Nat) (hws : allBlank ws) :
    splitOpAux [','] (n + 1) lab (ws ++ []) = (lab, [], []) := by
  have hdw : (ws ++ []).dropWhile isSpace = [] := dropWhile_prefix isSpace ws [] hws (Or.inl rfl)
  simp only [splitOpAux, hdw]

theorem splitOp_stage (lab ws rest : List Char) (n : Nat) (c : Char) (t : List Char)
    (hws : allBlank ws) (hnb : ∀ d ∈ c :: t, isSpace d = false) (hc : c ≠ ',')
    (hlast : (c :: t).getLast? ≠ some ':') (hrest : stopsAt (fun c => !isSpace c) rest) :
    splitOpAux [','] (n + 1) lab (ws ++ ((c :: t) ++ rest)) = (lab, c :: t, rest.drop 1) := by
  have hdw : (ws ++ ((c :: t) ++ rest)).dropWhile isSpace = c :: (t ++ rest) :=
    dropWhile_prefix isSpace ws _ hws (Or.inr ⟨c, t ++ rest, rfl, hnb c List.mem_cons_self⟩)
  have htw : (c :: (t ++ rest)).takeWhile (fun c => !isSpace c) = c :: t :=
    takeWhile_prefix _ (c :: t) rest (fun d hd => by simp [hnb d hd]) hrest
  have hd : (c :: (t ++ rest)).drop ((c :: t).length + 1) = rest.drop 1 := drop_len_succ (c :: t) rest
  have hcont : [','].contains c = false := by simp [hc]
  have hl : ((c :: t).getLast? == some ':') = false := by
    cases hh : ((c :: t).getLast? == some ':')
    · rfl
    · exact absurd (by simpa using hh) hlast
  simp only [splitOpAux, hdw, hcont, Bool.false_eq_true, if_false, htw, hd, hl, Bool.and_false]

theorem splitAttr1_none (ac s : List Char) (h : ∀ c ∈ s, ac.contains c = false) : splitAttr1 ac s = none := by
  induction s with
  | nil => rfl
  | cons c cs ih =>
    simp only [splitAttr1, h c List.mem_cons_self, Bool.false_eq_true, if_false,
      ih (fun d hd => h d (List.mem_cons_of_mem _ hd)), Option.map]

theorem splitAttr1_at (ac a : List Char) (d : Char) (r : List Char) (h : ∀ c ∈ a, ac.contains c = false)
    (hd : ac.contains d = true) : splitAttr1 ac (a ++ d :: r) = some (a, r) := by
  induction a with
  | nil => simp only [List.nil_append, splitAttr1, hd, if_true]
  | cons c cs ih =>
    simp only [List.cons_append, splitAttr1, h c List.mem_cons_self, Bool.false_eq_true, if_false,
      ih (fun e he => h e (List.mem_cons_of_mem _ he)), Option.map]

theorem splitAttr_stage (p : Params) (hp : PStd p) (l : Line) (h : WF p l) (hop : l.op ≠ []) :
    splitAttr p l.opText = (l.op, l.attr.getD []) := by
  unfold splitAttr Line.opText
  cases hh : p.hasAttrs with
  | false =>
    cases ha : l.attr with
    | none => simp
    | some a => exact absurd (h.attrOK a ha).2.1 (by simp [hh])
  | true =>
    have hnd : ∀ c ∈ l.op, p.attrChars.contains c = false := by
      intro c hc
      have := (h.opChars c hc).2 hh
      simp [hp.ac, this]
    cases ha : l.attr with
    | none =>
      simp [splitAttr1_none _ _ hnd]
    | some a =>
      have := splitAttr1_at p.attrChars l.op '.' a hnd (by simp [hp.ac])
      simp only [Bool.not_true, Bool.false_eq_true, if_false, this, Option.getD_some]
      have hne : l.op.isEmpty = false := by cases hl : l.op <;> simp_all
      simp [hne]

theorem opText_chars (p : Params) (l : Line) (h : WF p l) :
    ∀ c ∈ l.opText, isSpace c = false ∧ c ≠ ',' ∧ c ≠ ':' := by
  intro c hc
  unfold Line.opText at hc
  rcases List.mem_append.mp hc with hc | hc
  · obtain ⟨h1, _, _, h4, h5⟩ := nameChar_facts c (h.opChars c hc).1
    exact ⟨h1, h5, h4⟩
  · cases ha : l.attr with
    | none => simp [ha] at hc
    | some a =>
      simp only [ha, List.mem_cons] at hc
      rcases hc with rfl | hc
      · exact ⟨by decide, by decide, by decide⟩
      · obtain ⟨h1, _, _, h4, h5⟩ := nameChar_facts c ((h.attrOK a ha).1 c hc)
        exact ⟨h1, h5, h4⟩

theorem readGo_line (buf cur : List Char) (cnt : Nat) (l rest : List Char) (h : ∀ c ∈ l, c ≠ '\n') :
    readGo buf cur cnt (l ++ rest) = readGo buf (cur ++ l) cnt rest := by
  induction l generalizing cur with
  | nil => simp
  | cons c cs ih =>
    have hc : (c == '\n') = false := by simpa using h c List.mem_cons_self
    simp only [List.cons_append, readGo, hc, Bool.false_eq_true, if_false]
    rw [ih _ (fun d hd => h d (List.mem_cons_of_mem _ hd))]
    simp

theorem stripLast_snoc (c : Char) (l : List Char) : stripLast c (l ++ [c]) = l := by
  simp [stripLast]

theorem stripLast_id (c : Char) (l : List Char) (h : l.getLast? ≠ some c) : stripLast c l = l := by
  unfold stripLast
  cases hh : (l.getLast? == some c)
  · simp
  · exact absurd (by simpa using hh) h

theorem clean_concrete (f : Char → Bool) (s : List Char) (h : ∀ b i, qfind f {} (s ++ b) i = qfind f {} b (i + s.length)) :
    Clean f s := h


end AslModel.Split
