import AslModel.Model.Pass2
import AslModel.Spec.Pass2
import AslModel.Lemmas.Pass
/-! Helper lemmas for the multipass model with `EQU` expressions. -/
namespace AslModel.Pass2
open AslModel.Pass (Sym Tab upd emptyTab upd_same)
open AslModel.Generated.PassConsts (maxSymPass firstPassNo)
open AslModel.Spec.Pass2 (value known stmtKnown defAfter firstPassDefs backward accepted noForward)

/-! ## the generated constants the proofs depend on -/

/-- the pass that follows no completed pass is the only one in which unknown symbols are tolerated -/
theorem isFirst_zero : isFirst 0 = true := by decide
theorem isFirst_succ (k : Nat) : isFirst (k + 1) = false := by
  show decide (firstPassNo + (k + 1) ≤ maxSymPass) = false
  exact decide_eq_false (by simp only [maxSymPass, firstPassNo]; omega)

/-! ## expression evaluation -/

/-- table extension: `T'` has every entry of `T` -/
def Ext (T T' : Tab) : Prop := ∀ m x, T m = some x → T' m = some x

theorem Ext.refl (T : Tab) : Ext T T := fun _ _ h => h
theorem Ext.trans {A B C : Tab} (h1 : Ext A B) (h2 : Ext B C) : Ext A C := fun m x h => h2 m x (h1 m x h)

theorem ext_upd (T : Tab) (n : Sym) (v : Int) (h : mismatch T n v = false) : Ext T (upd T n v) := by
  intro m x hm
  simp only [upd]
  split
  · rename_i hmn
    subst hmn
    simp [mismatch, hm] at h
    rw [h]
  · exact hm

/-- without a FirstPassUnknown flag the value does not depend on the pass number -/
theorem eval_noflag (first first' : Bool) (T : Tab) (pc : Nat) (e : Expr) (v : Int)
    (h : eval first T pc e = some (v, false)) : eval first' T pc e = some (v, false) := by
  induction e generalizing v with
  | const c => simpa [eval] using h
  | pc => simpa [eval] using h
  | sym n =>
    simp only [eval] at h ⊢
    cases hT : T n with
    | some x => simpa [hT] using h
    | none => cases first <;> simp [hT] at h
  | add a b iha ihb =>
    simp only [eval] at h ⊢
    cases ha : eval first T pc a with
    | none => simp [ha] at h
    | some ra =>
      obtain ⟨x, f⟩ := ra
      cases hb : eval first T pc b with
      | none => simp [ha, hb] at h
      | some rb =>
        obtain ⟨y, g⟩ := rb
        simp only [ha, hb, Option.some.injEq, Prod.mk.injEq, Bool.or_eq_false_iff] at h
        obtain ⟨hv, hf, hg⟩ := h
        subst hf hg
        rw [iha x ha, ihb y hb]; simp [hv]
  | sub a b iha ihb =>
    simp only [eval] at h ⊢
    cases ha : eval first T pc a with
    | none => simp [ha] at h
    | some ra =>
      obtain ⟨x, f⟩ := ra
      cases hb : eval first T pc b with
      | none => simp [ha, hb] at h
      | some rb =>
        obtain ⟨y, g⟩ := rb
        simp only [ha, hb, Option.some.injEq, Prod.mk.injEq, Bool.or_eq_false_iff] at h
        obtain ⟨hv, hf, hg⟩ := h
        subst hf hg
        rw [iha x ha, ihb y hb]; simp [hv]

/-- a value computed without flag survives every extension of the table -/
theorem eval_mono (first : Bool) (T T' : Tab) (hx : Ext T T') (pc : Nat) (e : Expr) (v : Int)
    (h : eval first T pc e = some (v, false)) : eval first T' pc e = some (v, false) := by
  induction e generalizing v with
  | const c => simpa [eval] using h
  | pc => simpa [eval] using h
  | sym n =>
    simp only [eval] at h ⊢
    cases hT : T n with
    | some x => rw [hx n x hT]; simpa [hT] using h
    | none => cases first <;> simp [hT] at h
  | add a b iha ihb =>
    simp only [eval] at h ⊢
    cases ha : eval first T pc a with
    | none => simp [ha] at h
    | some ra =>
      obtain ⟨x, f⟩ := ra
      cases hb : eval first T pc b with
      | none => simp [ha, hb] at h
      | some rb =>
        obtain ⟨y, g⟩ := rb
        simp only [ha, hb, Option.some.injEq, Prod.mk.injEq, Bool.or_eq_false_iff] at h
        obtain ⟨hv, hf, hg⟩ := h
        subst hf hg
        rw [iha x ha, ihb y hb]; simp [hv]
  | sub a b iha ihb =>
    simp only [eval] at h ⊢
    cases ha : eval first T pc a with
    | none => simp [ha] at h
    | some ra =>
      obtain ⟨x, f⟩ := ra
      cases hb : eval first T pc b with
      | none => simp [ha, hb] at h
      | some rb =>
        obtain ⟨y, g⟩ := rb
        simp only [ha, hb, Option.some.injEq, Prod.mk.injEq, Bool.or_eq_false_iff] at h
        obtain ⟨hv, hf, hg⟩ := h
        subst hf hg
        rw [iha x ha, ihb y hb]; simp [hv]

/-- after the first pass no FirstPassUnknown flag is ever produced -/
theorem eval_false_flag (T : Tab) (pc : Nat) (e : Expr) (v : Int) (f : Bool)
    (h : eval false T pc e = some (v, f)) : f = false := by
  induction e generalizing v f with
  | const c => simp [eval] at h; exact h.2
  | pc => simp [eval] at h; exact h.2
  | sym n =>
    simp only [eval] at h
    cases hT : T n with
    | some x => simp [hT] at h; exact h.2
    | none => simp [hT] at h
  | add a b iha ihb =>
    simp only [eval] at h
    cases ha : eval false T pc a with
    | none => simp [ha] at h
    | some ra =>
      obtain ⟨x, f1⟩ := ra
      cases hb : eval false T pc b with
      | none => simp [ha, hb] at h
      | some rb =>
        obtain ⟨y, g⟩ := rb
        simp only [ha, hb, Option.some.injEq, Prod.mk.injEq] at h
        rw [← h.2, iha x f1 ha, ihb y g hb]; rfl
  | sub a b iha ihb =>
    simp only [eval] at h
    cases ha : eval false T pc a with
    | none => simp [ha] at h
    | some ra =>
      obtain ⟨x, f1⟩ := ra
      cases hb : eval false T pc b with
      | none => simp [ha, hb] at h
      | some rb =>
        obtain ⟨y, g⟩ := rb
        simp only [ha, hb, Option.some.injEq, Prod.mk.injEq] at h
        rw [← h.2, iha x f1 ha, ihb y g hb]; rfl

/-- in the first pass every expression has a value -/
theorem eval_true_some (T : Tab) (pc : Nat) (e : Expr) : ∃ v f, eval true T pc e = some (v, f) := by
  induction e with
  | const c => exact ⟨_, _, rfl⟩
  | pc => exact ⟨_, _, rfl⟩
  | sym n =>
    simp only [eval]
    cases T n with
    | some x => exact ⟨_, _, rfl⟩
    | none => exact ⟨_, _, rfl⟩
  | add a b iha ihb =>
    obtain ⟨x, f, ha⟩ := iha
    obtain ⟨y, g, hb⟩ := ihb
    exact ⟨x + y, f || g, by simp only [eval, ha, hb]⟩
  | sub a b iha ihb =>
    obtain ⟨x, f, ha⟩ := iha
    obtain ⟨y, g, hb⟩ := ihb
    exact ⟨x - y, f || g, by simp only [eval, ha, hb]⟩

/-- the model's flag-free evaluation is the SPEC's mathematical value -/
theorem eval_value (T : Tab) (pc : Nat) (e : Expr) (v : Int)
    (h : eval false T pc e = some (v, false)) : value T (pc : Int) e = some v := by
  induction e generalizing v with
  | const c => simpa [eval, value] using h
  | pc => simpa [eval, value] using h
  | sym n =>
    simp only [eval] at h
    simp only [value]
    cases hT : T n with
    | some x => simpa [hT] using h
    | none => simp [hT] at h
  | add a b iha ihb =>
    simp only [eval] at h
    simp only [value]
    cases ha : eval false T pc a with
    | none => simp [ha] at h
    | some ra =>
      obtain ⟨x, f⟩ := ra
      cases hb : eval false T pc b with
      | none => simp [ha, hb] at h
      | some rb =>
        obtain ⟨y, g⟩ := rb
        simp only [ha, hb, Option.some.injEq, Prod.mk.injEq, Bool.or_eq_false_iff] at h
        obtain ⟨hv, hf, hg⟩ := h
        subst hf hg
        rw [iha x ha, ihb y hb]; simp [hv]
  | sub a b iha ihb =>
    simp only [eval] at h
    simp only [value]
    cases ha : eval false T pc a with
    | none => simp [ha] at h
    | some ra =>
      obtain ⟨x, f⟩ := ra
      cases hb : eval false T pc b with
      | none => simp [ha, hb] at h
      | some rb =>
        obtain ⟨y, g⟩ := rb
        simp only [ha, hb, Option.some.injEq, Prod.mk.injEq, Bool.or_eq_false_iff] at h
        obtain ⟨hv, hf, hg⟩ := h
        subst hf hg
        rw [iha x ha, ihb y hb]; simp [hv]

/-! ## monotone flags, log prefixes -/

theorem step_repass_mono (first : Bool) (s : PS) (st : Stmt) (h : s.repass = true) :
    (step first s st).repass = true := by
  cases st with
  | label n => simp [step, h]
  | equ n e =>
    simp only [step]
    split
    · exact h
    · rfl
    · simp [h]
  | ref e size sizeU =>
    simp only [step]
    split
    · exact h
    · simp [h]
  | skip k => simp [step, h]

theorem run_repass_mono (first : Bool) (p : List Stmt) (s : PS) (h : s.repass = true) :
    (run first s p).repass = true := by
  induction p generalizing s with
  | nil => simpa [run]
  | cons st p ih => exact ih _ (step_repass_mono first s st h)

theorem step_err_mono (first : Bool) (s : PS) (st : Stmt) (h : s.err = true) :
    (step first s st).err = true := by
  cases st with
  | label n => simp [step, h]
  | equ n e => simp only [step]; split <;> simp [h]
  | ref e size sizeU => simp only [step]; split <;> simp [h]
  | skip k => simp [step, h]

theorem run_err_mono (first : Bool) (p : List Stmt) (s : PS) (h : s.err = true) :
    (run first s p).err = true := by
  induction p generalizing s with
  | nil => simpa [run]
  | cons st p ih => exact ih _ (step_err_mono first s st h)

theorem step_out_prefix (first : Bool) (s : PS) (st : Stmt) : ∃ ext, (step first s st).out = s.out ++ ext := by
  cases st with
  | label n => exact ⟨[], by simp [step]⟩
  | equ n e => simp only [step]; split <;> exact ⟨[], by simp⟩
  | ref e size sizeU =>
    simp only [step]
    split
    · exact ⟨[], by simp⟩
    · exact ⟨_, rfl⟩
  | skip k => exact ⟨[], by simp [step]⟩

theorem run_out_prefix (first : Bool) (p : List Stmt) (s : PS) : ∃ ext, (run first s p).out = s.out ++ ext := by
  induction p generalizing s with
  | nil => exact ⟨[], by simp [run]⟩
  | cons st p ih =>
    obtain ⟨e1, h1⟩ := step_out_prefix first s st
    obtain ⟨e2, h2⟩ := ih (step first s st)
    exact ⟨e1 ++ e2, by show (run first (step first s st) p).out = _; rw [h2, h1, List.append_assoc]⟩

theorem step_eqs_prefix (first : Bool) (s : PS) (st : Stmt) : ∃ ext, (step first s st).eqs = s.eqs ++ ext := by
  cases st with
  | label n => exact ⟨_, rfl⟩
  | equ n e =>
    simp only [step]
    split
    · exact ⟨[], by simp⟩
    · exact ⟨[], by simp⟩
    · exact ⟨_, rfl⟩
  | ref e size sizeU => simp only [step]; split <;> exact ⟨[], by simp⟩
  | skip k => exact ⟨[], by simp [step]⟩

theorem run_eqs_prefix (first : Bool) (p : List Stmt) (s : PS) : ∃ ext, (run first s p).eqs = s.eqs ++ ext := by
  induction p generalizing s with
  | nil => exact ⟨[], by simp [run]⟩
  | cons st p ih =>
    obtain ⟨e1, h1⟩ := step_eqs_prefix first s st
    obtain ⟨e2, h2⟩ := ih (step first s st)
    exact ⟨e1 ++ e2, by show (run first (step first s st) p).eqs = _; rw [h2, h1, List.append_assoc]⟩

/-- in the first pass no "symbol undefined" error is possible -/
theorem step_true_err (s : PS) (st : Stmt) (h : s.err = false) : (step true s st).err = false := by
  cases st with
  | label n => simp [step, h]
  | equ n e =>
    obtain ⟨v, f, hv⟩ := eval_true_some s.tab s.pc e
    simp only [step, hv]
    cases f <;> simp [h]
  | ref e size sizeU =>
    obtain ⟨v, f, hv⟩ := eval_true_some s.tab s.pc e
    simp [step, hv, h]
  | skip k => simp [step, h]

theorem run_true_err (p : List Stmt) (s : PS) (h : s.err = false) : (run true s p).err = false := by
  induction p generalizing s with
  | nil => simpa [run]
  | cons st p ih => exact ih _ (step_true_err s st h)

/-! ## the agreement invariant -/

/-- while neither Repass nor an error has occurred, every recorded use holds the value its expression has under the
*current* table, and every executed definition is in the table with the value of its expression -/
def Agree (s : PS) : Prop := s.repass = false → s.err = false →
  (∀ a e v, (a, e, v) ∈ s.out → eval false s.tab a e = some (v, false)) ∧
  (∀ a n e v, (a, n, e, v) ∈ s.eqs → s.tab n = some v ∧ eval false s.tab a e = some (v, false))

theorem agree_init (T : Tab) : Agree { tab := T } := by
  intro _ _
  exact ⟨by intro a e v hm; simp at hm, by intro a n e v hm; simp at hm⟩

theorem agree_ext (s : PS) (T' : Tab) (hx : Ext s.tab T')
    (h : (∀ a e v, (a, e, v) ∈ s.out → eval false s.tab a e = some (v, false)) ∧
      (∀ a n e v, (a, n, e, v) ∈ s.eqs → s.tab n = some v ∧ eval false s.tab a e = some (v, false))) :
    (∀ a e v, (a, e, v) ∈ s.out → eval false T' a e = some (v, false)) ∧
      (∀ a n e v, (a, n, e, v) ∈ s.eqs → T' n = some v ∧ eval false T' a e = some (v, false)) :=
  ⟨fun a e v hm => eval_mono false s.tab T' hx a e v (h.1 a e v hm),
   fun a n e v hm => ⟨hx n v (h.2 a n e v hm).1, eval_mono false s.tab T' hx a e v (h.2 a n e v hm).2⟩⟩

theorem repass_false_of_step (first : Bool) (s : PS) (st : Stmt) (h : (step first s st).repass = false) :
    s.repass = false := by
  cases hs : s.repass with
  | false => rfl
  | true => rw [step_repass_mono first s st hs] at h; cases h

theorem err_false_of_step (first : Bool) (s : PS) (st : Stmt) (h : (step first s st).err = false) :
    s.err = false := by
  cases hs : s.err with
  | false => rfl
  | true => rw [step_err_mono first s st hs] at h; cases h

theorem repass_false_of_run (first : Bool) (p : List Stmt) (s : PS) (h : (run first s p).repass = false) :
    s.repass = false := by
  cases hs : s.repass with
  | false => rfl
  | true => rw [run_repass_mono first p s hs] at h; cases h

theorem err_false_of_run (first : Bool) (p : List Stmt) (s : PS) (h : (run first s p).err = false) :
    s.err = false := by
  cases hs : s.err with
  | false => rfl
  | true => rw [run_err_mono first p s hs] at h; cases h

theorem upd_self (T : Tab) (n : Sym) (v : Int) : upd T n v n = some v := by simp [upd]

theorem step_agree (first : Bool) (s : PS) (st : Stmt) (h : Agree s) : Agree (step first s st) := by
  intro hr he
  have hs := repass_false_of_step first s st hr
  have hes := err_false_of_step first s st he
  have hold := h hs hes
  cases st with
  | skip k => exact hold
  | label n =>
    simp only [step] at hr ⊢
    have hmm : mismatch s.tab n s.pc = false := by simpa [hs] using hr
    have hx := ext_upd s.tab n s.pc hmm
    have hnew := agree_ext s _ hx hold
    refine ⟨hnew.1, ?_⟩
    intro a m e v hm
    simp only [List.mem_append, List.mem_singleton, Prod.mk.injEq] at hm
    rcases hm with hm | ⟨rfl, rfl, rfl, rfl⟩
    · exact hnew.2 a m e v hm
    · exact ⟨upd_self _ _ _, by simp [eval]⟩
  | equ n e =>
    simp only [step] at hr he ⊢
    cases hev : eval first s.tab s.pc e with
    | none => simp [hev] at he
    | some r =>
      obtain ⟨v, f⟩ := r
      cases f with
      | true => simp [hev] at hr
      | false =>
        simp only [hev] at hr ⊢
        have hmm : mismatch s.tab n v = false := by simpa [hs] using hr
        have hx := ext_upd s.tab n v hmm
        have hnew := agree_ext s _ hx hold
        refine ⟨hnew.1, ?_⟩
        intro a m e' v' hm
        simp only [List.mem_append, List.mem_singleton, Prod.mk.injEq] at hm
        rcases hm with hm | ⟨rfl, rfl, rfl, rfl⟩
        · exact hnew.2 a m e' v' hm
        · exact ⟨upd_self _ _ _, eval_mono false _ _ hx _ _ _ (eval_noflag first false _ _ _ _ hev)⟩
  | ref e size sizeU =>
    simp only [step] at hr he ⊢
    cases hev : eval first s.tab s.pc e with
    | none => simp [hev] at he
    | some r =>
      obtain ⟨v, f⟩ := r
      simp only [hev] at hr ⊢
      have hf : f = false := by simpa [hs] using hr
      subst hf
      refine ⟨?_, hold.2⟩
      intro a e' v' hm
      simp only [List.mem_append, List.mem_singleton, Prod.mk.injEq] at hm
      rcases hm with hm | ⟨rfl, rfl, rfl⟩
      · exact hold.1 a e' v' hm
      · exact eval_noflag first false _ _ _ _ hev

theorem run_agree (first : Bool) (p : List Stmt) (s : PS) (h : Agree s) : Agree (run first s p) := by
  induction p generalizing s with
  | nil => simpa [run]
  | cons st p ih => exact ih _ (step_agree first s st h)

/-! ## lockstep of a converged pass with one further pass -/

/-- state after an executed `EQU` -/
def equEntered (s : PS) (n : Sym) (e : Expr) (v : Int) : PS :=
  { s with tab := upd s.tab n v, repass := s.repass || mismatch s.tab n v, eqs := s.eqs ++ [(s.pc, n, e, v)] }

/-- state after a use whose operand had the flag-free value `v` and the size `k` -/
def refDone (s : PS) (e : Expr) (v : Int) (k : Nat) : PS :=
  { s with pc := s.pc + k, out := s.out ++ [(s.pc, e, v)] }

/-- state after a use whose operand mentioned an unknown symbol in the first pass -/
def refUnknown (s : PS) (e : Expr) (v : Int) (k : Nat) : PS :=
  { s with pc := s.pc + k, out := s.out ++ [(s.pc, e, v)], repass := true }

theorem step_ref_unknown (first : Bool) (s : PS) (e : Expr) (size : Int → Nat) (sizeU : Option Nat) (v : Int)
    (h : eval first s.tab s.pc e = some (v, true)) :
    step first s (.ref e size sizeU) = refUnknown s e v (sizeU.getD (size v)) := by
  simp [step, h, refUnknown]

theorem step_equ_entered (first : Bool) (s : PS) (n : Sym) (e : Expr) (v : Int)
    (h : eval first s.tab s.pc e = some (v, false)) : step first s (.equ n e) = equEntered s n e v := by
  simp [step, h, equEntered]

theorem step_ref_done (first : Bool) (s : PS) (e : Expr) (size : Int → Nat) (sizeU : Option Nat) (v : Int)
    (h : eval first s.tab s.pc e = some (v, false)) : step first s (.ref e size sizeU) = refDone s e v (size v) := by
  simp [step, h, refDone]

structure R (T' : Tab) (s s' : PS) : Prop where
  pc : s'.pc = s.pc
  out : s'.out = s.out
  eqs : s'.eqs = s.eqs
  tab : s'.tab = T'
  rep : s'.repass = false
  err : s'.err = false
  agree : Agree s

theorem mismatch_same (T : Tab) (n : Sym) (v : Int) (h : T n = some v) : mismatch T n v = false := by
  simp [mismatch, h]

theorem lockstep (first first' : Bool) (T' : Tab) (post : List Stmt) : ∀ (s s' : PS), R T' s s' →
    (run first s post).repass = false → (run first s post).err = false → (run first s post).tab = T' →
    R T' (run first s post) (run first' s' post) := by
  induction post with
  | nil => intro s s' h _ _ _; simpa [run] using h
  | cons st rest ih =>
    intro s s' h hfin hfe htab
    have hfin' : (run first (step first s st) rest).repass = false := hfin
    have hfe' : (run first (step first s st) rest).err = false := hfe
    have htab' : (run first (step first s st) rest).tab = T' := htab
    have hs1 := repass_false_of_run first rest _ hfin'
    have he1 := err_false_of_run first rest _ hfe'
    have hAg1 : Agree (step first s st) := step_agree first s st h.agree
    have hAgF := run_agree first rest _ hAg1 hfin' hfe'
    rw [htab'] at hAgF
    show R T' (run first (step first s st) rest) (run first' (step first' s' st) rest)
    cases st with
    | skip k =>
      exact ih _ _ ⟨by simp [step, h.pc], by simp [step, h.out], by simp [step, h.eqs], by simp [step, h.tab],
        by simp [step, h.rep], by simp [step, h.err], hAg1⟩ hfin' hfe' htab'
    | label n =>
      obtain ⟨ext, hext⟩ := run_eqs_prefix first rest (step first s (.label n))
      have hmem : (s.pc, n, Expr.pc, (s.pc : Int)) ∈ (run first (step first s (.label n)) rest).eqs := by
        rw [hext]; simp [step]
      have hT : T' n = some (s.pc : Int) := (hAgF.2 _ _ _ _ hmem).1
      refine ih _ _ ⟨by simp [step, h.pc], by simp [step, h.out], by simp [step, h.eqs, h.pc], ?_, ?_,
        by simp [step, h.err], hAg1⟩ hfin' hfe' htab'
      · simp only [step, h.tab, h.pc]; exact upd_same T' n _ hT
      · simp [step, h.tab, h.pc, mismatch_same T' n _ hT, h.rep]
    | equ n e =>
      cases hev : eval first s.tab s.pc e with
      | none =>
        have : (step first s (.equ n e)).err = true := by simp [step, hev]
        rw [this] at he1; cases he1
      | some r =>
        obtain ⟨v, f⟩ := r
        cases f with
        | true =>
          have : (step first s (.equ n e)).repass = true := by simp [step, hev]
          rw [this] at hs1; cases hs1
        | false =>
          have hstep := step_equ_entered first s n e v hev
          obtain ⟨ext, hext⟩ := run_eqs_prefix first rest (step first s (.equ n e))
          have hmem : (s.pc, n, e, v) ∈ (run first (step first s (.equ n e)) rest).eqs := by
            rw [hext, hstep]; simp [equEntered]
          have hT := hAgF.2 _ _ _ _ hmem
          have hev' : eval first' s'.tab s'.pc e = some (v, false) := by
            rw [h.tab, h.pc]; exact eval_noflag false first' _ _ _ _ hT.2
          have hstep' := step_equ_entered first' s' n e v hev'
          rw [hstep']
          refine ih _ _ ⟨by rw [hstep]; simp [equEntered, h.pc], by rw [hstep]; simp [equEntered, h.out],
            by rw [hstep]; simp [equEntered, h.eqs, h.pc], ?_, ?_, by simp [equEntered, h.err], hAg1⟩ hfin' hfe' htab'
          · simp only [equEntered, h.tab]; exact upd_same T' n _ hT.1
          · simp [equEntered, h.tab, mismatch_same T' n _ hT.1, h.rep]
    | ref e size sizeU =>
      cases hev : eval first s.tab s.pc e with
      | none =>
        have : (step first s (.ref e size sizeU)).err = true := by simp [step, hev]
        rw [this] at he1; cases he1
      | some r =>
        obtain ⟨v, f⟩ := r
        cases f with
        | true =>
          have : (step first s (.ref e size sizeU)).repass = true := by simp [step, hev]
          rw [this] at hs1; cases hs1
        | false =>
          have hstep := step_ref_done first s e size sizeU v hev
          obtain ⟨ext, hext⟩ := run_out_prefix first rest (step first s (.ref e size sizeU))
          have hmem : (s.pc, e, v) ∈ (run first (step first s (.ref e size sizeU)) rest).out := by
            rw [hext, hstep]; simp [refDone]
          have hT := hAgF.1 _ _ _ hmem
          have hev' : eval first' s'.tab s'.pc e = some (v, false) := by
            rw [h.tab, h.pc]; exact eval_noflag false first' _ _ _ _ hT
          have hstep' := step_ref_done first' s' e size sizeU v hev'
          rw [hstep']
          refine ih _ _ ⟨by rw [hstep]; simp [refDone, h.pc], by rw [hstep]; simp [refDone, h.out, h.pc],
            by rw [hstep]; simp [refDone, h.eqs], by simp [refDone, h.tab], by simp [refDone, h.rep],
            by simp [refDone, h.err], hAg1⟩ hfin' hfe' htab'

end AslModel.Pass2
