import AslModel.Model.Expr
/-!
# Lemmas for C08: the split scan selects the root operator of a rendered formula

Generalises the calibration proof (DESIGN.md Appendix C) to: `LKlamm`/`RKlamm` counters, the candidate
loop per operator position, unary operators, function calls with comma-separated arguments, and a
priority table that is only known through its properties (`TableOK`).
-/
namespace AslModel.Expr
open AslModel.Formula AslModel.Generated

/-! ## operators, unary and dyadic, under one name -/

inductive OpK where
  | u (x : UnOp)
  | b (x : BinOp)
deriving DecidableEq, Repr

def OpK.rank : OpK → Nat
  | .u x => x.rank
  | .b x => x.rank

def OpK.idx : OpK → Nat
  | .u x => idxU x
  | .b x => idxB x

def OpK.spelling : OpK → List Char
  | .u x => x.spelling
  | .b x => x.spelling

def OpK.all : List OpK := UnOp.all.map .u ++ BinOp.all.map .b

theorem OpK.mem_all (x : OpK) : x ∈ OpK.all := by
  cases x with
  | u x => cases x <;> decide
  | b x => cases x <;> decide

theorem BinOp.mem_all (o : BinOp) : o ∈ BinOp.all := by cases o <;> decide
theorem UnOp.mem_all (u : UnOp) : u ∈ UnOp.all := by cases u <;> decide

theorem OpK.rank_pos (x : OpK) : 0 < x.rank := by
  cases x with
  | u x => cases x <;> decide
  | b x => cases x <;> decide

/-- candidate lists the proof can handle: the entry itself, or one shorter spelling before it whose
priority number is not larger (DESIGN 4.8 `C08_table_longest_match`) -/
def candsGood (prio : Nat → Nat) : List Nat → Nat → Bool
  | [k'], k => k' == k
  | [a, k'], k => k' == k && decide (prio a ≤ prio k)
  | _, _ => false

/-- what the proofs need to know about a priority table -/
structure TableOK (prio : Nat → Nat) : Prop where
  zero : prio 0 = 0
  pos : ∀ x ∈ OpK.all, 0 < prio x.idx
  lt : ∀ x ∈ OpK.all, ∀ y ∈ OpK.all, (x.rank < y.rank ↔ prio x.idx < prio y.idx)
  cands : ∀ x ∈ OpK.all, candsGood prio (candsOf x.spelling) x.idx = true

section Scan
variable (prio : Nat → Nat)

theorem scanG_append (s : S) (a b : List Tok) :
    scanG prio s (a ++ b) = scanG prio (scanG prio s a) b := by
  simp [scanG, List.foldl_append]

theorem scanG_cons (s : S) (t : Tok) (ts : List Tok) :
    scanG prio s (t :: ts) = scanG prio (scanStep prio s t) ts := by
  simp [scanG]

theorem scanG_nil (s : S) : scanG prio s [] = s := rfl

theorem scanG_single (s : S) (t : Tok) : scanG prio s [t] = scanStep prio s t := rfl

/-- effect of the candidate loop + skip on an operator position -/
theorem scanStep_op_good (s : S) (cands : List Nat) (k : Nat) (h : candsGood prio cands k = true) :
    (scanStep prio s (.op cands)).lk = s.lk ∧ (scanStep prio s (.op cands)).rk = s.rk ∧
    (scanStep prio s (.op cands)).idx = s.idx + 1 ∧
    ((s.lk = s.rk ∧ prio s.opMax ≤ prio k) →
        (scanStep prio s (.op cands)).opMax = k ∧ (scanStep prio s (.op cands)).opPos = s.idx) ∧
    (¬ (s.lk = s.rk ∧ prio s.opMax ≤ prio k) →
        (scanStep prio s (.op cands)).opMax = s.opMax ∧ (scanStep prio s (.op cands)).opPos = s.opPos) := by
  match cands, h with
  | [k'], h =>
    have hk : k' = k := by simpa [candsGood] using h
    subst hk
    by_cases hd : s.lk = s.rk
    · by_cases hp : prio s.opMax ≤ prio k'
      · simp [scanStep, hd, candStep, hp]
      · simp [scanStep, hd, candStep, hp]
    · simp [scanStep, hd]
  | [a, k'], h =>
    have h' : k' = k ∧ prio a ≤ prio k := by simpa [candsGood] using h
    obtain ⟨hk, hak⟩ := h'
    subst hk
    by_cases hd : s.lk = s.rk
    · by_cases hp : prio s.opMax ≤ prio k'
      · by_cases hpa : prio s.opMax ≤ prio a
        · simp [scanStep, hd, candStep, hp, hpa, hak]
        · simp [scanStep, hd, candStep, hp, hpa]
      · have hpa : ¬ prio s.opMax ≤ prio a := by omega
        simp [scanStep, hd, candStep, hp, hpa]
    · simp [scanStep, hd]

/-- frame of a bracket-balanced fragment whose outermost operator has priority number `p` -/
structure Fr (s s' : S) (len p : Nat) : Prop where
  bal : s'.lk + s.rk = s.lk + s'.rk
  lkmono : s.lk ≤ s'.lk
  idx : s'.idx = s.idx + len
  deep : s.lk ≠ s.rk → s'.opMax = s.opMax ∧ s'.opPos = s.opPos
  keep : p < prio s.opMax → s'.opMax = s.opMax ∧ s'.opPos = s.opPos
  le : prio s'.opMax ≤ max (prio s.opMax) p
  mono : prio s.opMax ≤ prio s'.opMax

/-- weaker frame, enough inside brackets -/
structure Bal (s s' : S) (len : Nat) : Prop where
  bal : s'.lk + s.rk = s.lk + s'.rk
  lkmono : s.lk ≤ s'.lk
  idx : s'.idx = s.idx + len
  deep : s.lk ≠ s.rk → s'.opMax = s.opMax ∧ s'.opPos = s.opPos

def FrAll (t : List Tok) (p : Nat) : Prop := ∀ s : S, s.rk ≤ s.lk → Fr prio s (scanG prio s t) t.length p
def BalAll (t : List Tok) : Prop := ∀ s : S, s.rk ≤ s.lk → Bal s (scanG prio s t) t.length

theorem FrAll.toBal {t : List Tok} {p : Nat} (h : FrAll prio t p) : BalAll prio t :=
  fun s hs => ⟨(h s hs).bal, (h s hs).lkmono, (h s hs).idx, (h s hs).deep⟩

theorem BalAll.append {a b : List Tok} (ha : BalAll prio a) (hb : BalAll prio b) : BalAll prio (a ++ b) := by
  intro s hs
  rw [scanG_append]
  have h1 := ha s hs
  have hs1 : (scanG prio s a).rk ≤ (scanG prio s a).lk := by have := h1.bal; omega
  have h2 := hb _ hs1
  refine ⟨by have := h1.bal; have := h2.bal; omega, by have := h1.lkmono; have := h2.lkmono; omega,
    by have := h1.idx; have := h2.idx; simp only [List.length_append]; omega, ?_⟩
  intro hd
  have d1 := h1.deep hd
  have hd1 : (scanG prio s a).lk ≠ (scanG prio s a).rk := by have := h1.bal; omega
  have d2 := h2.deep hd1
  exact ⟨by rw [d2.1, d1.1], by rw [d2.2, d1.2]⟩

theorem balAll_plain (t : Tok) (h : ∀ s, scanStep prio s t = { s with idx := s.idx + 1 }) : BalAll prio [t] := by
  intro s _
  rw [scanG_single, h]
  exact ⟨rfl, Nat.le_refl _, rfl, fun _ => ⟨rfl, rfl⟩⟩

theorem balAll_comma : BalAll prio [.comma] := balAll_plain prio _ (fun _ => rfl)
theorem balAll_name (n : List Char) : BalAll prio [.name n] := balAll_plain prio _ (fun _ => rfl)
theorem balAll_atom (v : Val) : BalAll prio [.atom v] := balAll_plain prio _ (fun _ => rfl)

/-- fragments that leave `OpMax`/`OpPos` alone whatever the state: names, bracketed groups -/
structure Same (s s' : S) (len : Nat) : Prop where
  bal : s'.lk + s.rk = s.lk + s'.rk
  lkmono : s.lk ≤ s'.lk
  idx : s'.idx = s.idx + len
  same : s'.opMax = s.opMax ∧ s'.opPos = s.opPos

def SameAll (t : List Tok) : Prop := ∀ s : S, s.rk ≤ s.lk → Same s (scanG prio s t) t.length

theorem SameAll.toFr {t : List Tok} (h : SameAll prio t) : FrAll prio t 0 := fun s hs =>
  ⟨(h s hs).bal, (h s hs).lkmono, (h s hs).idx, fun _ => (h s hs).same, fun _ => (h s hs).same,
    by rw [(h s hs).same.1]; exact Nat.le_max_left _ _, by rw [(h s hs).same.1]; exact Nat.le_refl _⟩

theorem SameAll.append {a b : List Tok} (ha : SameAll prio a) (hb : SameAll prio b) : SameAll prio (a ++ b) := by
  intro s hs
  rw [scanG_append]
  have h1 := ha s hs
  have hs1 : (scanG prio s a).rk ≤ (scanG prio s a).lk := by have := h1.bal; omega
  have h2 := hb _ hs1
  exact ⟨by have := h1.bal; have := h2.bal; omega, by have := h1.lkmono; have := h2.lkmono; omega,
    by have := h1.idx; have := h2.idx; simp only [List.length_append]; omega,
    ⟨by rw [h2.same.1, h1.same.1], by rw [h2.same.2, h1.same.2]⟩⟩

theorem sameAll_name (n : List Char) : SameAll prio [.name n] := by
  intro s _
  exact ⟨rfl, Nat.le_refl _, rfl, ⟨rfl, rfl⟩⟩

/-- `( … )` around a balanced fragment: nothing outside changes -/
theorem sameAll_bracket {t : List Tok} (h : BalAll prio t) : SameAll prio ([.lp] ++ t ++ [.rp]) := by
  intro s hs
  rw [scanG_append, scanG_append]
  have h1 : scanG prio s [.lp] = { s with lk := s.lk + 1, idx := s.idx + 1 } := rfl
  rw [h1]
  have hm := h { s with lk := s.lk + 1, idx := s.idx + 1 } (by simp; omega)
  have hd := hm.deep (by simp; omega)
  have hb := hm.bal
  have hl := hm.lkmono
  have hi := hm.idx
  simp only at hd hb hl hi
  generalize scanG prio { s with lk := s.lk + 1, idx := s.idx + 1 } t = m at hd hb hl hi
  rw [scanG_single]
  have h2 : scanStep prio m .rp = { m with rk := m.rk + 1, idx := m.idx + 1 } := rfl
  rw [h2]
  exact ⟨by first | (simp; omega) | simp | omega, by first | (simp; omega) | simp | omega,
    by first | (simp; omega) | simp | omega, ⟨hd.1, hd.2⟩⟩

theorem frAll_bracket {t : List Tok} (h : BalAll prio t) : FrAll prio ([.lp] ++ t ++ [.rp]) 0 :=
  (sameAll_bracket prio h).toFr

theorem length_wrapT (b : Bool) (t : List Tok) : (wrapT b t).length = t.length + (if b then 2 else 0) := by
  cases b <;> simp [wrapT]

theorem frAll_wrap {t : List Tok} {p : Nat} (h : FrAll prio t p) (b : Bool) :
    FrAll prio (wrapT b t) (if b then 0 else p) := by
  cases b with
  | false => simpa [wrapT] using h
  | true => simpa [wrapT] using frAll_bracket prio (h.toBal)

/-- root priority number of a formula (0 for atoms and calls) -/
def rootIdx : Formula → Nat
  | .un u _ => idxU u
  | .bin o _ _ => idxB o
  | _ => 0

variable (ok : TableOK prio)
include ok

theorem rank_le_iff (x y : OpK) : x.rank ≤ y.rank ↔ prio x.idx ≤ prio y.idx := by
  have := ok.lt y (OpK.mem_all y) x (OpK.mem_all x)
  omega

theorem wrapR_iff (x : OpK) (e : Formula) : (x.rank ≤ e.rootRank) ↔ prio x.idx ≤ prio (rootIdx e) := by
  have hp := ok.pos x (OpK.mem_all x)
  have hr := OpK.rank_pos x
  cases e with
  | un u e => exact rank_le_iff prio ok x (.u u)
  | bin o l r => exact rank_le_iff prio ok x (.b o)
  | lit v => simp [Formula.rootRank, rootIdx, ok.zero]; omega
  | sc dq items => simp [Formula.rootRank, rootIdx, ok.zero]; omega
  | fn1 f a => simp [Formula.rootRank, rootIdx, ok.zero]; omega
  | fn2 f a b => simp [Formula.rootRank, rootIdx, ok.zero]; omega
  | fn3 f a b c => simp [Formula.rootRank, rootIdx, ok.zero]; omega

theorem wrapL_iff (x : OpK) (e : Formula) : (x.rank < e.rootRank) ↔ prio x.idx < prio (rootIdx e) := by
  cases e with
  | un u e => exact ok.lt x (OpK.mem_all x) (.u u) (OpK.mem_all _)
  | bin o l r => exact ok.lt x (OpK.mem_all x) (.b o) (OpK.mem_all _)
  | lit v => simp [Formula.rootRank, rootIdx, ok.zero]
  | sc dq items => simp [Formula.rootRank, rootIdx, ok.zero]
  | fn1 f a => simp [Formula.rootRank, rootIdx, ok.zero]
  | fn2 f a b => simp [Formula.rootRank, rootIdx, ok.zero]
  | fn3 f a b c => simp [Formula.rootRank, rootIdx, ok.zero]

/-- one operator token followed by a fragment whose effective priority is lower (or bracketed):
covers the monadic case and the right half of the dyadic case -/
theorem fr_op_then (x : OpK) {t : List Tok} {pR : Nat} (hR : FrAll prio t pR)
    (hpr : pR < prio x.idx) (s1 : S) (hs1 : s1.rk ≤ s1.lk) (s3 : S)
    (hs3 : s3 = scanG prio (scanStep prio s1 (.op (candsOf x.spelling))) t) :
    s3.lk + s1.rk = s1.lk + s3.rk ∧ s1.lk ≤ s3.lk ∧ s3.idx = s1.idx + 1 + t.length ∧
    ((s1.lk = s1.rk ∧ prio s1.opMax ≤ prio x.idx) → s3.opMax = x.idx ∧ s3.opPos = s1.idx) ∧
    (¬ (s1.lk = s1.rk ∧ prio s1.opMax ≤ prio x.idx) → s3.opMax = s1.opMax ∧ s3.opPos = s1.opPos) := by
  subst hs3
  have hS := scanStep_op_good prio s1 _ _ (ok.cands x (OpK.mem_all x))
  obtain ⟨h2l, h2r, h2i, h2yes, h2no⟩ := hS
  have hR2 := hR (scanStep prio s1 (.op (candsOf x.spelling))) (by omega)
  have hb := hR2.bal; have hl := hR2.lkmono; have hi := hR2.idx
  refine ⟨by omega, by omega, by omega, ?_, ?_⟩
  · intro hc
    have b := h2yes hc
    have c := hR2.keep (by rw [b.1]; exact hpr)
    exact ⟨by rw [c.1, b.1], by rw [c.2, b.2]⟩
  · intro hc
    have b := h2no hc
    by_cases hd : s1.lk = s1.rk
    · have hlt : prio x.idx < prio s1.opMax := by
        have : ¬ prio s1.opMax ≤ prio x.idx := fun h => hc ⟨hd, h⟩
        omega
      have c := hR2.keep (by rw [b.1]; omega)
      exact ⟨by rw [c.1, b.1], by rw [c.2, b.2]⟩
    · have c := hR2.deep (by omega)
      exact ⟨by rw [c.1, b.1], by rw [c.2, b.2]⟩

theorem effR_lt (x : OpK) (e : Formula) :
    (if decide (x.rank ≤ e.rootRank) = true then 0 else prio (rootIdx e)) < prio x.idx := by
  have hp := ok.pos x (OpK.mem_all x)
  by_cases h : x.rank ≤ e.rootRank
  · simp [h]; exact hp
  · simp [h]
    have := (not_congr (wrapR_iff prio ok x e)).mp h
    omega

theorem effL_le (x : OpK) (e : Formula) :
    (if decide (x.rank < e.rootRank) = true then 0 else prio (rootIdx e)) ≤ prio x.idx := by
  by_cases h : x.rank < e.rootRank
  · simp [h]
  · simp [h]
    have := (not_congr (wrapL_iff prio ok x e)).mp h
    omega

/-- **the scan over the tokens of any formula** -/
theorem scan_toks (f : Formula) : FrAll prio (toks f) (prio (rootIdx f)) := by
  induction f with
  | lit v =>
    intro s _
    simp only [toks, scanG_single]
    exact ⟨rfl, Nat.le_refl _, rfl, fun _ => ⟨rfl, rfl⟩, fun _ => ⟨rfl, rfl⟩,
      Nat.le_max_left _ _, Nat.le_refl _⟩
  | sc dq items =>
    intro s _
    simp only [toks, scanG_single]
    exact ⟨rfl, Nat.le_refl _, rfl, fun _ => ⟨rfl, rfl⟩, fun _ => ⟨rfl, rfl⟩,
      Nat.le_max_left _ _, Nat.le_refl _⟩
  | un u e ih =>
    intro s hs
    simp only [toks, rootIdx]
    have hR := frAll_wrap prio ih (decide (u.rank ≤ e.rootRank))
    have hlt : (if decide (u.rank ≤ e.rootRank) = true then 0 else prio (rootIdx e)) < prio (idxU u) :=
      effR_lt prio ok (.u u) e
    rw [scanG_append, scanG_single]
    have h := fr_op_then prio ok (.u u) hR hlt s hs _ rfl
    simp only [OpK.spelling, OpK.idx, OpK.rank] at h
    obtain ⟨hb, hl, hi, hyes, hno⟩ := h
    refine ⟨hb, hl, by simp only [List.length_append, List.length_cons, List.length_nil]; omega, ?_, ?_, ?_, ?_⟩
    · intro hd; exact hno (fun hc => hd hc.1)
    · intro hk; exact hno (fun hc => by omega)
    · by_cases hc : s.lk = s.rk ∧ prio s.opMax ≤ prio (idxU u)
      · rw [(hyes hc).1]; exact Nat.le_max_right _ _
      · rw [(hno hc).1]; exact Nat.le_max_left _ _
    · by_cases hc : s.lk = s.rk ∧ prio s.opMax ≤ prio (idxU u)
      · rw [(hyes hc).1]; exact hc.2
      · rw [(hno hc).1]; exact Nat.le_refl _
  | bin o l r ihl ihr =>
    intro s hs
    simp only [toks, rootIdx]
    have hL := frAll_wrap prio ihl (decide (o.rank < l.rootRank))
    have hR := frAll_wrap prio ihr (decide (o.rank ≤ r.rootRank))
    have hlt : (if decide (o.rank ≤ r.rootRank) = true then 0 else prio (rootIdx r)) < prio (idxB o) :=
      effR_lt prio ok (.b o) r
    have hle : (if decide (o.rank < l.rootRank) = true then 0 else prio (rootIdx l)) ≤ prio (idxB o) :=
      effL_le prio ok (.b o) l
    rw [scanG_append, scanG_append, scanG_single]
    simp only [List.length_append, List.length_cons, List.length_nil]
    have h1 := hL s hs
    have hs1 : (scanG prio s (wrapT (decide (o.rank < l.rootRank)) (toks l))).rk ≤
        (scanG prio s (wrapT (decide (o.rank < l.rootRank)) (toks l))).lk := by have := h1.bal; omega
    have h := fr_op_then prio ok (.b o) hR hlt _ hs1 _ rfl
    simp only [OpK.spelling, OpK.idx] at h
    obtain ⟨hb, hl, hi, hyes, hno⟩ := h
    have b1 := h1.bal; have l1 := h1.lkmono; have i1 := h1.idx; have le1 := h1.le; have mo1 := h1.mono
    generalize (if decide (o.rank < l.rootRank) = true then 0 else prio (rootIdx l)) = pL at h1 hle le1
    generalize (wrapT (decide (o.rank < l.rootRank)) (toks l)).length = nL at *
    generalize scanG prio s (wrapT (decide (o.rank < l.rootRank)) (toks l)) = s1 at *
    generalize (wrapT (decide (o.rank ≤ r.rootRank)) (toks r)).length = nR at *
    generalize scanG prio (scanStep prio s1 (Tok.op (candsOf o.spelling))) (wrapT (decide (o.rank ≤ r.rootRank)) (toks r)) = s3 at *
    refine ⟨by omega, by omega, by omega, ?_, ?_, ?_, ?_⟩
    · intro hd
      have a := h1.deep hd
      have c := hno (fun hc => by omega)
      exact ⟨by rw [c.1, a.1], by rw [c.2, a.2]⟩
    · intro hk
      have a := h1.keep (by omega)
      have c := hno (fun hc => by rw [a.1] at hc; omega)
      exact ⟨by rw [c.1, a.1], by rw [c.2, a.2]⟩
    · by_cases hc : s1.lk = s1.rk ∧ prio s1.opMax ≤ prio (idxB o)
      · rw [(hyes hc).1]; exact Nat.le_max_right _ _
      · rw [(hno hc).1]; omega
    · by_cases hc : s1.lk = s1.rk ∧ prio s1.opMax ≤ prio (idxB o)
      · rw [(hyes hc).1]; omega
      · rw [(hno hc).1]; exact mo1
  | fn1 f a iha =>
    have h : toks (.fn1 f a) = [.name f.name] ++ ([.lp] ++ toks a ++ [.rp]) := by simp [toks]
    have hr : rootIdx (.fn1 f a) = 0 := rfl
    rw [h, hr, ok.zero]
    exact ((sameAll_name prio f.name).append prio (sameAll_bracket prio iha.toBal)).toFr
  | fn2 f a b iha ihb =>
    have h : toks (.fn2 f a b) = [.name f.name] ++ ([.lp] ++ (toks a ++ [.comma] ++ toks b) ++ [.rp]) := by
      simp [toks]
    have hr : rootIdx (.fn2 f a b) = 0 := rfl
    rw [h, hr, ok.zero]
    exact ((sameAll_name prio f.name).append prio (sameAll_bracket prio
      ((iha.toBal.append prio (balAll_comma prio)).append prio ihb.toBal))).toFr
  | fn3 f a b c iha ihb ihc =>
    have h : toks (.fn3 f a b c) =
        [.name f.name] ++ ([.lp] ++ (toks a ++ [.comma] ++ toks b ++ [.comma] ++ toks c) ++ [.rp]) := by
      simp [toks]
    have hr : rootIdx (.fn3 f a b c) = 0 := rfl
    rw [h, hr, ok.zero]
    exact ((sameAll_name prio f.name).append prio (sameAll_bracket prio
      ((((iha.toBal.append prio (balAll_comma prio)).append prio ihb.toBal).append prio
        (balAll_comma prio)).append prio ihc.toBal))).toFr

end Scan

end AslModel.Expr
