import AslModel.Model.PrefixCarry
/-! helper lemmas for the DDIR hand-over (C16): the directive lattice, one statement, empty lines -/
namespace AslModel.PrefixCarry
open AslModel.PrefixSpec

/-- the C enum value that stands for a directive -/
def toPref : Dir → PrefType
  | ⟨.none, .none⟩ => .IN_N
  | ⟨.w, .none⟩ => .IN_W
  | ⟨.w, .ib⟩ => .IB_W
  | ⟨.w, .iw⟩ => .IW_W
  | ⟨.none, .ib⟩ => .IB_N
  | ⟨.lw, .none⟩ => .IN_LW
  | ⟨.lw, .ib⟩ => .IB_LW
  | ⟨.lw, .iw⟩ => .IW_LW
  | ⟨.none, .iw⟩ => .IW_N

theorem extend_toPref (d : Dir) (m : Mode) : extendPrefix (toPref d) m = toPref (d.add m) := by
  rcases d with ⟨s, i⟩
  cases s <;> cases i <;> cases m <;> rfl

theorem code_toPref (d : Dir) (h : d ≠ Dir.nothing) : getPrefixCode (toPref d) = dirCode d := by
  rcases d with ⟨s, i⟩
  cases s <;> cases i <;> first | (exact absurd rfl h) | decide

theorem toPref_inj (a b : Dir) (h : toPref a = toPref b) : a = b := by
  rcases a with ⟨s, i⟩
  rcases b with ⟨s', i'⟩
  cases s <;> cases i <;> cases s' <;> cases i' <;> first | rfl | (exact absurd h (by decide))

theorem toPref_nothing : toPref Dir.nothing = .IN_N := rfl

theorem toPref_eq_INN (d : Dir) : toPref d = .IN_N ↔ d = Dir.nothing := by
  constructor
  · intro h; exact toPref_inj d Dir.nothing (by rw [h]; rfl)
  · intro h; subst h; rfl

theorem foldl_extend (mods : List Mode) (d : Dir) :
    mods.foldl extendPrefix (toPref d) = toPref (mods.foldl Dir.add d) := by
  induction mods generalizing d with
  | nil => rfl
  | cons m ms ih => simp only [List.foldl_cons, extend_toPref, ih]

theorem add_ne_nothing (d : Dir) (m : Mode) : d.add m ≠ Dir.nothing := by
  rcases d with ⟨s, i⟩
  cases m <;> simp [Dir.add, Dir.nothing]

theorem foldl_add_ne_nothing (mods : List Mode) (d : Dir) (h : mods ≠ [] ∨ d ≠ Dir.nothing) :
    mods.foldl Dir.add d ≠ Dir.nothing := by
  induction mods generalizing d with
  | nil =>
    rcases h with h | h
    · exact absurd rfl h
    · exact h
  | cons m ms ih =>
    simp only [List.foldl_cons]
    exact ih _ (Or.inr (add_ne_nothing d m))

theorem dirOf_ne_nothing (mods : List Mode) (h : mods ≠ []) : dirOf mods ≠ Dir.nothing :=
  foldl_add_ne_nothing mods _ (Or.inl h)

theorem dirCode_length (d : Dir) (h : d ≠ Dir.nothing) : (dirCode d).length = 2 := by
  rcases d with ⟨s, i⟩
  cases s <;> cases i <;> first | (exact absurd rfl h) | rfl

/-- the immediate part as a mode name -/
def modeOf : IPart → Mode
  | .iw => .IW
  | _ => .IB

theorem merge_add (d : Dir) (n : IPart) (h : n ≠ .none) : merge d n = d.add (modeOf n) := by
  cases n
  · exact absurd rfl h
  · rfl
  · rfl

theorem merge_ne_nothing (d : Dir) (n : IPart) (h : n ≠ .none) : merge d n ≠ Dir.nothing := by
  rw [merge_add d n h]; exact add_ne_nothing _ _

theorem dropLast2_append (c0 : List UInt8) (x : List UInt8) (h : x.length = 2) :
    (c0 ++ x).dropLast.dropLast = c0 := by
  match x, h with
  | [a, b], _ => simp [List.dropLast_concat, List.dropLast_append_of_ne_nil]

/-! ### one `JP` -/

theorem shr8 (a : Nat) : a >>> 8 = a / 256 := by simp [Nat.shiftRight_eq_div_pow]
theorem shr16 (a : Nat) : a >>> 16 = a / 65536 := by simp [Nat.shiftRight_eq_div_pow]
theorem shr24 (a : Nat) : a >>> 24 = a / 16777216 := by simp [Nat.shiftRight_eq_div_pow]

theorem jpOpc_eq (cond : Option Nat) : jpOpc cond = jpOpcode cond := by
  cases cond with
  | none => rfl
  | some c => simp [jpOpc, jpOpcode, Nat.shiftLeft_eq]; omega

/-- `ChangeDDPrefix` met in a state whose pending directive is `d`, the directive's two bytes being the last ones
written (or `d` = nothing): afterwards code ++ prefix bytes = the earlier code ++ the bytes of the extended directive -/
theorem changeDD_after (d : Dir) (c0 : List UInt8) (curr : PrefType) (m : Mode) :
    ∃ s pre, changeDDPrefix ⟨curr, toPref d, c0 ++ dirCode d⟩ m = some (s, pre) ∧ s.curr = curr ∧
      s.code ++ pre = c0 ++ dirCode (d.add m) := by
  unfold changeDDPrefix
  simp only [extend_toPref]
  by_cases he : toPref d = toPref (d.add m)
  · have hd : d = d.add m := toPref_inj _ _ he
    rw [if_neg (by simpa using he)]
    exact ⟨_, _, rfl, rfl, by rw [← hd]; simp⟩
  · rw [if_pos (by simpa using he)]
    by_cases hd : d = Dir.nothing
    · subst hd
      rw [if_neg (by simp [toPref_nothing])]
      refine ⟨_, _, rfl, rfl, ?_⟩
      rw [code_toPref _ (add_ne_nothing Dir.nothing m)]
      simp [dirCode, Dir.nothing]
    · have hne : toPref d ≠ .IN_N := fun hh => hd ((toPref_eq_INN d).1 hh)
      have hl := dirCode_length d hd
      rw [if_pos (by simpa using hne)]
      have hlen : ¬ (c0 ++ dirCode d).length < 2 := by simp [hl]
      rw [if_neg hlen]
      refine ⟨_, _, rfl, rfl, ?_⟩
      show (c0 ++ dirCode d).dropLast.dropLast ++ getPrefixCode (toPref (d.add m)) = _
      rw [dropLast2_append c0 _ hl, code_toPref _ (add_ne_nothing d m)]

/-- a `JP` met in such a state: the bytes of the merged directive and of the jump replace / follow the directive's -/
theorem decodeJP_after (d : Dir) (c0 : List UInt8) (curr : PrefType) (cond : Option Nat) (a : Nat) :
    ∃ st', decodeJP ⟨curr, toPref d, c0 ++ dirCode d⟩ cond a = some st' ∧ st'.curr = curr ∧
      st'.code = c0 ++ dirCode (merge d (need a)) ++ jpCode cond a := by
  unfold decodeJP
  simp only [jpOpc_eq, shr8, shr16, shr24]
  by_cases h1 : a ≤ 0xffff
  · have hn : need a = .none := by simp [need, h1]
    rw [if_pos h1]
    exact ⟨_, rfl, rfl, by simp [hn, merge, jpCode]⟩
  · rw [if_neg h1]
    by_cases h2 : a ≤ 0xffffff
    · have hn : need a = .ib := by simp [need, h1, h2]
      rw [if_pos h2]
      obtain ⟨s, pre, hc, hcur, hcode⟩ := changeDD_after d c0 curr .IB
      rw [hc]
      refine ⟨_, rfl, hcur, ?_⟩
      have hm : merge d .ib = d.add .IB := merge_add d .ib (by decide)
      simp only [hn, hm, jpCode]
      rw [← hcode]
      simp
    · have hn : need a = .iw := by simp [need, h1, h2]
      rw [if_neg h2]
      obtain ⟨s, pre, hc, hcur, hcode⟩ := changeDD_after d c0 curr .IW
      rw [hc]
      refine ⟨_, rfl, hcur, ?_⟩
      have hm : merge d .iw = d.add .IW := merge_add d .iw (by decide)
      simp only [hn, hm, jpCode]
      rw [← hcode]
      simp

/-! ### lines without an instruction -/

theorem runFrom_filter (st : St) (prog : List Stmt) :
    runFrom st prog = runFrom st (prog.filter (fun s => !s.isEmpty)) := by
  induction prog generalizing st with
  | nil => rfl
  | cons s rest ih =>
    cases s with
    | empty => simp only [List.filter, Stmt.isEmpty, Bool.not_true, runFrom, makeCode]; exact ih st
    | ddir m =>
      simp only [List.filter, Stmt.isEmpty, Bool.not_false, runFrom]
      cases makeCode st (.ddir m) with
      | none => rfl
      | some st' => exact ih st'
    | jp c a =>
      simp only [List.filter, Stmt.isEmpty, Bool.not_false, runFrom]
      cases makeCode st (.jp c a) with
      | none => rfl
      | some st' => exact ih st'

/-! ### a list of statements -/

/-- code still to come while directive `d` is pending (its two bytes being the last ones written) -/
def codeAfter (d : Dir) : List Stmt → List UInt8
  | .jp c a :: rest => dirCode (merge d (need a)) ++ jpCode c a ++ codeOfStmts rest
  | l => dirCode d ++ codeOfStmts l

theorem codeAfter_nothing (l : List Stmt) : codeAfter Dir.nothing l = codeOfStmts l := by
  cases l with
  | nil => rfl
  | cons s rest => cases s <;> rfl

theorem codeOfStmts_ddir (m : List Mode) (rest : List Stmt) :
    codeOfStmts (.ddir m :: rest) = codeAfter (dirOf m) rest := by
  cases rest with
  | nil => rfl
  | cons s r => cases s <;> rfl

theorem runFrom_stmts (l : List Stmt) (hne : ∀ s ∈ l, s.isEmpty = false) (hok : ∀ s ∈ l, s.ok = true)
    (st : St) (d : Dir) (c0 : List UInt8) (hc : st.curr = toPref d) (hcode : st.code = c0 ++ dirCode d) :
    ∃ st', runFrom st l = some st' ∧ st'.code = c0 ++ codeAfter d l := by
  induction l generalizing st d c0 with
  | nil => exact ⟨st, rfl, by simp [codeAfter, codeOfStmts, hcode]⟩
  | cons s rest ih =>
    have hne' : ∀ s ∈ rest, s.isEmpty = false := fun x hx => hne x (List.mem_cons_of_mem _ hx)
    have hok' : ∀ s ∈ rest, s.ok = true := fun x hx => hok x (List.mem_cons_of_mem _ hx)
    cases s with
    | empty => exact absurd (hne _ List.mem_cons_self) (by simp [Stmt.isEmpty])
    | ddir m =>
      have hm : m.length = 1 ∨ m.length = 2 := by
        have := hok _ List.mem_cons_self
        simpa [Stmt.ok] using this
      have hmne : m ≠ [] := by intro h; subst h; simp at hm
      have hlen : ¬ (m.length < 1 ∨ m.length > 2) := by omega
      have hfold : m.foldl extendPrefix .IN_N = toPref (dirOf m) := by
        have := foldl_extend m Dir.nothing
        rwa [toPref_nothing] at this
      obtain ⟨st', hr, hcd⟩ := ih hne' hok'
        { curr := toPref (dirOf m), last := st.curr, code := st.code ++ getPrefixCode (toPref (dirOf m)) }
        (dirOf m) (c0 ++ dirCode d) rfl
        (by rw [hcode, code_toPref _ (dirOf_ne_nothing m hmne)])
      refine ⟨st', ?_, ?_⟩
      · simp only [runFrom, makeCode, Bool.or_eq_true, decide_eq_true_eq, hlen, if_false, hfold]
        exact hr
      · have e1 : codeAfter d (.ddir m :: rest) = dirCode d ++ codeOfStmts (.ddir m :: rest) := rfl
        rw [hcd, e1, codeOfStmts_ddir]
        simp
    | jp c a =>
      have hok1 := hok _ List.mem_cons_self
      have ha : ¬ a ≥ 4294967296 := by
        simp only [Stmt.ok, Bool.and_eq_true, decide_eq_true_eq] at hok1; omega
      obtain ⟨s1, hj, hcur, hcd⟩ := decodeJP_after d c0 .IN_N c a
      obtain ⟨st', hr, hcd'⟩ := ih hne' hok' s1 Dir.nothing (c0 ++ dirCode (merge d (need a)) ++ jpCode c a)
        (by rw [hcur]; rfl) (by rw [hcd]; simp [dirCode, Dir.nothing])
      refine ⟨st', ?_, ?_⟩
      · have hst1 : ({ st with last := st.curr, curr := .IN_N } : St) = ⟨.IN_N, toPref d, c0 ++ dirCode d⟩ := by
          cases st; simp_all
        simp only [runFrom, makeCode, ha, if_false, hst1]
        cases c with
        | none => simp only [hj]; exact hr
        | some cc =>
          have hcc : ¬ cc ≥ 8 := by
            simp only [Stmt.ok, Bool.and_eq_true, decide_eq_true_eq] at hok1; omega
          simp only [hcc, if_false, hj]; exact hr
      · rw [hcd', codeAfter_nothing]
        simp [codeAfter]

end AslModel.PrefixCarry
