import AslModel.Lemmas.IsaAvrArith
import AslModel.Model.Isa.IAvr
/-! Lemmas for C14 / AVR, core: the operand-reader scheme (`OpdD`, `Desc`) every decode handler of codeavr.c is an instance of, its link to the SPEC's operand forms (soundness and acceptance, proved once for the scheme), and `compat` - when a `CPUProps[]` row describes a SPEC device. -/
namespace AslModel.Isa.IAvr
open AslModel.PFile (Byte b b_toNat)
open AslModel.Spec.IAvr
open AslModel.Generated.IsaAvr

/-! ### operand readers -/

inductive OpdD where
  /-- `DecodeArgReg(.., RegMask)`: field = register number -/
  | reg (mask : Nat)
  /-- `EvalStrIntExpression` with a type of range `lo..hi`: field = the value as a `Word` -/
  | int (lo hi : Int)
  /-- `DecodeMem`: field = index of the pointer mode (0..8) -/
  | mem (ok : List Nat)
  /-- the `Y`/`Z` letter of `LDD/STD`: field = 1/0 -/
  | ptr
deriving DecidableEq, Repr

def OpdD.field : OpdD → Int → Option Nat
  | .reg mask, v => if 0 ≤ v ∧ v < 32 ∧ (mask >>> v.toNat) % 2 = 1 then some v.toNat else none
  | .int lo hi, v => if lo ≤ v ∧ v ≤ hi then some (toWord v) else none
  | .mem ok, v => if 0 ≤ v ∧ v.toNat ∈ ok then some v.toNat else none
  | .ptr, v => if v = 0 ∨ v = 1 then some v.toNat else none

/-- every value the field can take -/
def OpdD.dom : OpdD → List Nat
  | .reg mask => (List.range 32).filter fun r => (mask >>> r) % 2 = 1
  | .int lo hi => (List.range (hi - lo + 1).toNat).map fun (i : Nat) => toWord (lo + (i : Int))
  | .mem ok => ok
  | .ptr => [0, 1]

theorem OpdD.field_mem_dom (o : OpdD) (v : Int) (f : Nat) (h : o.field v = some f) : f ∈ o.dom := by
  cases o with
  | reg mask =>
    simp only [OpdD.field] at h
    split at h
    · rename_i hc
      simp only [Option.some.injEq] at h
      subst h
      simp only [OpdD.dom, List.mem_filter, List.mem_range, decide_eq_true_eq]
      exact ⟨by omega, hc.2.2⟩
    · simp at h
  | int lo hi =>
    simp only [OpdD.field] at h
    split at h
    · rename_i hc
      simp only [Option.some.injEq] at h
      subst h
      simp only [OpdD.dom, List.mem_map, List.mem_range]
      refine ⟨(v - lo).toNat, by omega, ?_⟩
      have : lo + ((v - lo).toNat : Int) = v := by omega
      rw [this]
    · simp at h
  | mem ok =>
    simp only [OpdD.field] at h
    split at h
    · rename_i hc
      simp only [Option.some.injEq] at h
      subst h
      exact hc.2
    · simp at h
  | ptr =>
    simp only [OpdD.field] at h
    split at h
    · rename_i hc
      simp only [Option.some.injEq] at h
      subst h
      rcases hc with rfl | rfl <;> simp [OpdD.dom]
    · simp at h

/-- all operands of a statement, or none -/
def fields : List OpdD → List Int → Option (List Nat)
  | [], [] => some []
  | o :: os, v :: vs =>
    match o.field v, fields os vs with
    | some f, some fs => some (f :: fs)
    | _, _ => none
  | _, _ => none

theorem fields_mem_prod (os : List OpdD) (vs : List Int) (fs : List Nat) (h : fields os vs = some fs) :
    fs ∈ prod (os.map OpdD.dom) := by
  induction os generalizing vs fs with
  | nil =>
    cases vs with
    | nil => simp [fields] at h; subst h; simp [prod]
    | cons v vs => simp [fields] at h
  | cons o os ih =>
    cases vs with
    | nil => simp [fields] at h
    | cons v vs =>
      simp only [fields] at h
      cases hf : o.field v with
      | none => simp [hf] at h
      | some f =>
        cases hfs : fields os vs with
        | none => simp [hf, hfs] at h
        | some fs' =>
          simp only [hf, hfs, Option.some.injEq] at h
          subst h
          simp only [List.map_cons, prod, List.mem_flatMap, List.mem_map]
          exact ⟨f, o.field_mem_dom v f hf, fs', ih vs fs' hfs, rfl⟩

/-! ### the scheme -/

structure Desc where
  gate : Bool
  opds : List OpdD
  extra : List Nat → Bool
  comp : List Nat → Nat

def Desc.run (d : Desc) (args : List Int) : Option (List Byte) :=
  if d.gate then
    (fields d.opds args).bind fun fs => if d.extra fs then some (appendCode (d.comp fs)) else none
  else none

theorem fields_cons (o : OpdD) (os : List OpdD) (v : Int) (vs : List Int) :
    fields (o :: os) (v :: vs) = (o.field v).bind fun f => (fields os vs).bind fun fs => some (f :: fs) := by
  simp only [fields]
  cases o.field v <;> cases fields os vs <;> rfl
@[simp] theorem fields_nil : fields [] [] = some [] := rfl
@[simp] theorem fields_nil_cons (v : Int) (vs : List Int) : fields [] (v :: vs) = none := rfl
@[simp] theorem fields_cons_nil (o : OpdD) (os : List OpdD) : fields (o :: os) [] = none := rfl

/-! ### the handlers as instances of the scheme -/

def f0 (fs : List Nat) : Nat := fs.getD 0 0
def f1 (fs : List Nat) : Nat := fs.getD 1 0
def f2 (fs : List Nat) : Nat := fs.getD 2 0

/-- `DecodeMem` on a mode index -/
def memCode : Nat → Nat
  | 0 => 0x1c | 1 => 0x1d | 2 => 0x1e | 3 => 0x08 | 4 => 0x19 | 5 => 0x1a | 6 => 0x00 | 7 => 0x11 | _ => 0x12

def allModes : List Nat := [0, 1, 2, 3, 4, 5, 6, 7, 8]

def noExtra : List Nat → Bool := fun _ => true

/-- the scheme of a handler on a device of core `core` (`bare`: the statement has no operands; only `LPM/ELPM`
have two shapes).  `none`: the handler is treated separately (address operands). -/
def descOf (p : Props) (h : Handler) (bare : Bool) : Option Desc :=
  match h with
  | .fixed code mask => some ⟨chkCoreMask p mask, [], noExtra, fun _ => code⟩
  | .reg1 code mask => some ⟨chkCoreMask p mask, [.reg allRegMask], noExtra, fun fs => code ||| (f0 fs <<< 4)⟩
  | .reg2 code mask => some ⟨chkCoreMask p mask, [.reg allRegMask, .reg allRegMask], noExtra,
      fun fs => code ||| (f1 fs &&& 15) ||| (f0 fs <<< 4) ||| ((f1 fs &&& 16) <<< 5)⟩
  | .reg3 code => some ⟨true, [.reg allRegMask], noExtra,
      fun fs => code ||| (f0 fs &&& 15) ||| (f0 fs <<< 4) ||| ((f0 fs &&& 16) <<< 5)⟩
  | .imm code => some ⟨true, [.reg upperHalfRegMask, .int (-128) 255], noExtra,
      fun fs => code ||| ((f1 fs &&& 0xf0) <<< 4) ||| (f1 fs &&& 0x0f) ||| ((f0 fs &&& 0x0f) <<< 4)⟩
  | .adiw idx => some ⟨chkMinCore p gateAdiw, [.reg upperEightEvenRegMask, .int 0 63], noExtra,
      fun fs => 0x9600 ||| idx ||| ((f0 fs &&& 6) <<< 3) ||| (f1 fs &&& 15) ||| ((f1 fs &&& 0x30) <<< 2)⟩
  | .ldst idx =>
    if idx ≠ 0 then some ⟨true, [.mem allModes, .reg allRegMask], fun fs => !(decide (p.core = gateLdSt1200) && memCode (f0 fs) != 0),
      fun fs => 0x8000 ||| idx ||| (f1 fs <<< 4) ||| (memCode (f0 fs) &&& 0x0f) ||| ((memCode (f0 fs) &&& 0x10) <<< 8)⟩
    else some ⟨true, [.reg allRegMask, .mem allModes], fun fs => !(decide (p.core = gateLdSt1200) && memCode (f1 fs) != 0),
      fun fs => 0x8000 ||| idx ||| (f0 fs <<< 4) ||| (memCode (f1 fs) &&& 0x0f) ||| ((memCode (f1 fs) &&& 0x10) <<< 8)⟩
  | .lddstd idx =>
    if idx ≠ 0 then some ⟨chkMinCore p gateLddStd, [.ptr, .int 0 63, .reg allRegMask], noExtra,
      fun fs => 0x8000 ||| (if f0 fs = 1 then (idx + 8) % 65536 else idx) ||| (f2 fs <<< 4) ||| (f1 fs &&& 7) ||| ((f1 fs &&& 0x18) <<< 7) ||| ((f1 fs &&& 0x20) <<< 8)⟩
    else some ⟨chkMinCore p gateLddStd, [.reg allRegMask, .ptr, .int 0 63], noExtra,
      fun fs => 0x8000 ||| (if f1 fs = 1 then (idx + 8) % 65536 else idx) ||| (f0 fs <<< 4) ||| (f2 fs &&& 7) ||| ((f2 fs &&& 0x18) <<< 7) ||| ((f2 fs &&& 0x20) <<< 8)⟩
  | .inout idx =>
    if idx ≠ 0 then some ⟨true, [.int 0 63, .reg allRegMask], noExtra,
      fun fs => 0xb000 ||| idx ||| (f1 fs <<< 4) ||| (f0 fs &&& 0x0f) ||| ((f0 fs &&& 0xf0) <<< 5)⟩
    else some ⟨true, [.reg allRegMask, .int 0 63], noExtra,
      fun fs => 0xb000 ||| idx ||| (f0 fs <<< 4) ||| (f1 fs &&& 0x0f) ||| ((f1 fs &&& 0xf0) <<< 5)⟩
  | .bclrset idx => some ⟨true, [.int 0 7], noExtra, fun fs => 0x9408 ||| (f0 fs <<< 4) ||| idx⟩
  | .bit code => some ⟨true, [.reg allRegMask, .int 0 7], noExtra, fun fs => code ||| (f0 fs <<< 4) ||| f1 fs⟩
  | .cbr _ => some ⟨true, [.reg upperHalfRegMask, .int (-128) 255], noExtra,
      fun fs => 0x7000 ||| (((f1 fs ^^^ 0xff) &&& 0xf0) <<< 4) ||| ((f1 fs ^^^ 0xff) &&& 0x0f) ||| ((f0 fs &&& 0x0f) <<< 4)⟩
  | .ser _ => some ⟨true, [.reg upperHalfRegMask], noExtra, fun fs => 0xef0f ||| ((f0 fs &&& 0x0f) <<< 4)⟩
  | .muls _ => some ⟨chkMinCore p gateMuls, [.reg upperHalfRegMask, .reg upperHalfRegMask], noExtra,
      fun fs => 0x0200 ||| ((f0 fs &&& 15) <<< 4) ||| (f1 fs &&& 15)⟩
  | .megamul idx => some ⟨chkMinCore p gateMegaMul, [.reg reg16_23Mask, .reg reg16_23Mask], noExtra,
      fun fs => idx ||| ((f0 fs &&& 7) <<< 4) ||| (f1 fs &&& 7)⟩
  | .movw _ => some ⟨chkMinCore p gateMovw, [.reg evenRegMask, .reg evenRegMask], noExtra,
      fun fs => 0x0100 ||| ((f0 fs >>> 1) <<< 4) ||| (f1 fs >>> 1)⟩
  | .lpm _ =>
    if bare then some ⟨chkMinCore p gateLpm0, [], noExtra, fun _ => 0x95c8⟩
    else some ⟨chkMinCore p gateLpm2, [.reg allRegMask, .mem [6, 7]], noExtra,
      fun fs => 0x9004 ||| (f0 fs <<< 4) ||| (memCode (f1 fs) &&& 1)⟩
  | .elpm _ =>
    if bare then some ⟨chkMinCore p gateElpm, [], noExtra, fun _ => 0x95d8⟩
    else some ⟨chkMinCore p gateElpm, [.reg allRegMask, .mem [6, 7]], noExtra,
      fun fs => 0x9006 ||| (f0 fs <<< 4) ||| (memCode (f1 fs) &&& 1)⟩
  | _ => none

/-! #### the operand readers of the model are the `OpdD` readers -/

def toOpt {α : Type} : Except Err α → Option α
  | .ok v => some v
  | .error _ => none

@[simp] theorem toOpt_ok {α : Type} (v : α) : toOpt (.ok v : Except Err α) = some v := rfl
@[simp] theorem toOpt_error {α : Type} (e : Err) : toOpt (.error e : Except Err α) = none := rfl

theorem okBytes_andThen {α : Type} (x : Except Err α) (f : α → Except Err (List Byte)) :
    okBytes (andThen x f) = (toOpt x).bind fun v => okBytes (f v) := by
  cases x <;> rfl

theorem toOpt_andThen {α β : Type} (x : Except Err α) (f : α → Except Err β) :
    toOpt (andThen x f) = (toOpt x).bind fun v => toOpt (f v) := by
  cases x <;> rfl

theorem toOpt_argReg (p : Props) (hp : p.core ≠ cCoreMinTiny) (r : Int) (mask : Nat) :
    toOpt (decodeArgReg p r mask) = (OpdD.reg mask).field r := by
  unfold decodeArgReg decodeReg OpdD.field
  by_cases h1 : 0 ≤ r ∧ r < 32
  · have : (0 ≤ r ∧ r < 32 ∧ (16 ≤ r ∨ p.core ≠ cCoreMinTiny)) := ⟨h1.1, h1.2, Or.inr hp⟩
    simp only [this, and_self, if_true, andThen_ok]
    by_cases h2 : (mask >>> r.toNat) % 2 = 1
    · simp [h1, h2]
    · simp [h1, h2]
  · have : ¬ (0 ≤ r ∧ r < 32 ∧ (16 ≤ r ∨ p.core ≠ cCoreMinTiny)) := by omega
    have h3 : ¬ (0 ≤ r ∧ r < 32 ∧ (mask >>> r.toNat) % 2 = 1) := by omega
    simp [this, h3]

theorem rangeCheck_row (typ : Nat) (nm : String) (sw : Nat) (mn mx : Int) (mk : Nat)
    (hrow : Generated.intTypeDefs[typ]? = some ⟨nm, sw, mn, mx, mk⟩) (hlt : typ < Generated.intTypeNoCheckFrom) (v : Int) :
    rangeCheck v typ = (decide (mn ≤ v) && decide (v ≤ mx)) := by
  unfold rangeCheck
  have : ¬ (typ ≥ Generated.intTypeNoCheckFrom) := by omega
  simp only [this, if_false, hrow]

/-- an `IntType` whose row of the regenerated `IntTypeDefs[]` has the range `lo..hi` -/
def typeHasRange (typ : Nat) (lo hi : Int) : Bool :=
  decide (typ < Generated.intTypeNoCheckFrom) &&
  match Generated.intTypeDefs[typ]? with
  | some d => d.min == lo && d.max == hi
  | none => false

theorem evalInt_range (typ : Nat) (lo hi : Int) (h : typeHasRange typ lo hi = true) (v : Int) :
    evalInt typ v = if lo ≤ v ∧ v ≤ hi then .ok v else .error .overRange := by
  unfold typeHasRange at h
  simp only [Bool.and_eq_true, decide_eq_true_eq] at h
  obtain ⟨hlt, hrow⟩ := h
  cases hd : Generated.intTypeDefs[typ]? with
  | none => simp [hd] at hrow
  | some d =>
    obtain ⟨nm, sw, mn, mx, mk⟩ := d
    simp only [hd, Bool.and_eq_true, beq_iff_eq] at hrow
    obtain ⟨rfl, rfl⟩ := hrow
    unfold evalInt
    rw [rangeCheck_row typ nm sw mn mx mk hd hlt v]
    by_cases h1 : mn ≤ v <;> by_cases h2 : v ≤ mx <;> simp [h1, h2]

theorem toOpt_evalInt (typ : Nat) (lo hi : Int) (h : typeHasRange typ lo hi = true) (v : Int) :
    (toOpt (evalInt typ v)).map toWord = (OpdD.int lo hi).field v := by
  rw [evalInt_range typ lo hi h v]
  unfold OpdD.field
  by_cases hc : lo ≤ v ∧ v ≤ hi <;> simp [hc]

/-- the operand types the handlers use have the ranges of the manual (regenerated enumerators and table) -/
theorem types_ok :
    typeHasRange itImm (-128) 255 = true ∧ typeHasRange itAdiw 0 63 = true ∧ typeHasRange itLddStd 0 63 = true ∧
    typeHasRange itInOut 0 63 = true ∧ typeHasRange itLdsSts 0 65535 = true ∧ typeHasRange itBclrSet 0 7 = true ∧
    typeHasRange itBit 0 7 = true ∧ typeHasRange itCbr (-128) 255 = true ∧ typeHasRange itBrb 0 7 = true ∧
    typeHasRange itPBit 0 7 = true := by decide

theorem decodeMem_eq (v : Int) :
    decodeMem v = if 0 ≤ v ∧ v.toNat ∈ allModes then some (memCode v.toNat) else none := by
  unfold decodeMem
  by_cases h0 : 0 ≤ v
  · simp only [h0, if_true, true_and]
    have : v.toNat < 9 ∨ 9 ≤ v.toNat := by omega
    rcases this with h | h
    · have h9 : v.toNat = 0 ∨ v.toNat = 1 ∨ v.toNat = 2 ∨ v.toNat = 3 ∨ v.toNat = 4 ∨ v.toNat = 5 ∨ v.toNat = 6 ∨ v.toNat = 7 ∨ v.toNat = 8 := by omega
      rcases h9 with h | h | h | h | h | h | h | h | h <;> simp [h, allModes, memCode]
    · have hn : v.toNat ∉ allModes := by
        simp only [allModes, List.mem_cons, List.not_mem_nil, or_false]; omega
      simp only [hn, if_false]
      split <;> first | rfl | omega
  · simp [h0]

theorem evalImm (v : Int) : evalInt itImm v = if -128 ≤ v ∧ v ≤ 255 then .ok v else .error .overRange := evalInt_range _ _ _ types_ok.1 v
theorem evalAdiw (v : Int) : evalInt itAdiw v = if 0 ≤ v ∧ v ≤ 63 then .ok v else .error .overRange := evalInt_range _ _ _ types_ok.2.1 v
theorem evalLddStd (v : Int) : evalInt itLddStd v = if 0 ≤ v ∧ v ≤ 63 then .ok v else .error .overRange := evalInt_range _ _ _ types_ok.2.2.1 v
theorem evalInOut (v : Int) : evalInt itInOut v = if 0 ≤ v ∧ v ≤ 63 then .ok v else .error .overRange := evalInt_range _ _ _ types_ok.2.2.2.1 v
theorem evalLdsSts (v : Int) : evalInt itLdsSts v = if 0 ≤ v ∧ v ≤ 65535 then .ok v else .error .overRange := evalInt_range _ _ _ types_ok.2.2.2.2.1 v
theorem evalBclrSet (v : Int) : evalInt itBclrSet v = if 0 ≤ v ∧ v ≤ 7 then .ok v else .error .overRange := evalInt_range _ _ _ types_ok.2.2.2.2.2.1 v
theorem evalBit (v : Int) : evalInt itBit v = if 0 ≤ v ∧ v ≤ 7 then .ok v else .error .overRange := evalInt_range _ _ _ types_ok.2.2.2.2.2.2.1 v
theorem evalCbr (v : Int) : evalInt itCbr v = if -128 ≤ v ∧ v ≤ 255 then .ok v else .error .overRange := evalInt_range _ _ _ types_ok.2.2.2.2.2.2.2.1 v
theorem evalBrb (v : Int) : evalInt itBrb v = if 0 ≤ v ∧ v ≤ 7 then .ok v else .error .overRange := evalInt_range _ _ _ types_ok.2.2.2.2.2.2.2.2.1 v
theorem evalPBit (v : Int) : evalInt itPBit v = if 0 ≤ v ∧ v ≤ 7 then .ok v else .error .overRange := evalInt_range _ _ _ types_ok.2.2.2.2.2.2.2.2.2 v

theorem okBytes_ite' (c : Prop) [Decidable c] (x y : Except Err (List Byte)) :
    okBytes (if c then x else y) = if c then okBytes x else okBytes y := by split <;> rfl

theorem field_int (lo hi v : Int) : (OpdD.int lo hi).field v = if lo ≤ v ∧ v ≤ hi then some (toWord v) else none := rfl

/-! ### link to the SPEC's operand forms -/

/-- the value the SPEC gives an operand, from the field the handler composes the opcode with -/
def specVal : Opd → Nat → Nat
  | .imm _ _ bits, f => f % 2 ^ bits
  | _, f => f

def specVals : List Opd → List Nat → List Nat
  | o :: os, f :: fs => specVal o f :: specVals os fs
  | _, _ => []

def opdMatch : OpdD → Opd → Bool
  | .reg mask, .reg cls => (List.range 32).all fun r => (decide ((mask >>> r) % 2 = 1)) == cls.ok r
  | .int lo hi, .imm lo' hi' bits => lo == lo' && hi == hi' && decide (bits ≤ 16)
  | .mem _, .mode => true
  | .ptr, .ptr => true
  | _, _ => false

def opdsMatch : List OpdD → List Opd → Bool
  | [], [] => true
  | d :: ds, o :: os => opdMatch d o && opdsMatch ds os
  | _, _ => false

theorem field_value (d : OpdD) (o : Opd) (v : Int) (f : Nat) (hm : opdMatch d o = true) (h : d.field v = some f) :
    o.value v = specVal o f := by
  cases d <;> cases o <;> simp [opdMatch] at hm
  case reg.reg mask cls =>
    simp only [OpdD.field] at h
    split at h <;> simp at h
    subst h; rfl
  case int.imm lo hi lo' hi' bits =>
    simp only [OpdD.field] at h
    split at h <;> simp at h
    subst h
    simp only [Opd.value, specVal]
    exact (toWord_mod v bits hm.2).symm
  case mem.mode ok =>
    simp only [OpdD.field] at h
    split at h <;> simp at h
    subst h; rfl
  case ptr.ptr =>
    simp only [OpdD.field] at h
    split at h <;> simp at h
    subst h; rfl

theorem fields_values (ds : List OpdD) (os : List Opd) (vs : List Int) (fs : List Nat) (hm : opdsMatch ds os = true)
    (h : fields ds vs = some fs) : values os vs = specVals os fs := by
  induction ds generalizing os vs fs with
  | nil =>
    cases os <;> simp [opdsMatch] at hm
    cases vs <;> simp at h
    subst h; rfl
  | cons d ds ih =>
    cases os with
    | nil => simp [opdsMatch] at hm
    | cons o os =>
      simp only [opdsMatch, Bool.and_eq_true] at hm
      cases vs with
      | nil => simp at h
      | cons v vs =>
        rw [fields_cons] at h
        cases hf : d.field v with
        | none => simp [hf] at h
        | some f =>
          cases hfs : fields ds vs with
          | none => simp [hf, hfs] at h
          | some fs' =>
            simp [hf, hfs] at h
            subst h
            simp only [values, specVals, field_value d o v f hm.1 hf, ih os vs fs' hm.2 hfs]

theorem word_bytes (w : Nat) : (b (lo w)).toNat + 256 * (b (hi w)).toNat = w % 65536 := by
  simp only [b_toNat, lo, hi]; omega

theorem decode_append (c : Cpu) (pc w : Nat) (m : Mn) (fs : List Nat) (h1 : decode1 (w % 65536) = some (m, fs, false)) :
    decode c pc (appendCode w) = some (⟨m, absolutise c pc m fs⟩, 2) := by
  simp only [decode, appendCode, word_bytes, h1]

theorem values_nil (os : List Opd) : values os [] = [] := by cases os <;> rfl
theorem specVals_nil (os : List Opd) : specVals os [] = [] := by cases os <;> rfl

theorem appendCode_length (w : Nat) : (appendCode w).length = 2 := rfl

/-- the SPEC decoder on what a scheme emits -/
theorem run_sound (d : Desc) (m : Mn) (c : Cpu) (pc : Nat) (args : List Int) (bs : List Byte)
    (hm : opdsMatch d.opds (form m).opds = true ∨ d.opds = [])
    (hgood : ∀ fs ∈ prod (d.opds.map OpdD.dom),
      decode1 (d.comp fs % 65536) = some ((canon m (specVals (form m).opds fs)).mn, (canon m (specVals (form m).opds fs)).args, false) ∧
      isRel (canon m (specVals (form m).opds fs)).mn = false)
    (h : d.run args = some bs) : decode c pc bs = some (meaning ⟨m, args⟩, bs.length) := by
  unfold Desc.run at h
  split at h
  · cases hf : fields d.opds args with
    | none => simp [hf] at h
    | some fs =>
      simp only [hf, Option.bind_some] at h
      split at h
      · simp only [Option.some.injEq] at h
        subst h
        have hmem := fields_mem_prod _ _ _ hf
        obtain ⟨hdec, hrel⟩ := hgood fs hmem
        have hv : values (form m).opds args = specVals (form m).opds fs := by
          rcases hm with hm | hm
          · exact fields_values _ _ _ _ hm hf
          · rw [hm] at hf
            cases args with
            | nil => simp at hf; subst hf; rw [values_nil, specVals_nil]
            | cons a t => simp at hf
        rw [decode_append c pc _ _ _ hdec, absolutise_notRel c pc _ _ hrel, appendCode_length]
        simp only [meaning, hv]
      · simp at h
  · simp at h

/-! ### kernel-friendly evaluation of the table check (`Nat.rec`/`List.rec` loops, `Nat.beq` comparisons) -/

def pOf (core : Nat) : Props := ⟨"", 0, 0, 0, 0, true, core⟩

/-- the opcode map gives back mnemonic and operand values for every tuple of fields the scheme can produce -/
noncomputable def decodesTo (m : Mn) (d : Desc) : Bool :=
  allProd (d.opds.map OpdD.dom) fun fs =>
    force (d.comp fs % 65536) fun w =>
    (fun (i : Instr) => decBeq (decode1 w) i.mn i.args false && (isRel i.mn).not)
      (canon m (specVals (form m).opds fs))

theorem decodesTo_spec (m : Mn) (d : Desc) (h : decodesTo m d = true) :
    ∀ fs ∈ prod (d.opds.map OpdD.dom),
      decode1 (d.comp fs % 65536) = some ((canon m (specVals (form m).opds fs)).mn, (canon m (specVals (form m).opds fs)).args, false) ∧
      isRel (canon m (specVals (form m).opds fs)).mn = false := by
  intro fs hfs
  have := allProd_spec _ _ h fs hfs
  rw [force_eq] at this
  simp only [Bool.and_eq_true, Bool.not_eq_true'] at this
  exact ⟨decBeq_eq _ _ _ _ this.1, this.2⟩

def bares (m : Mn) : List Bool :=
  if (form m).bare then (if (form m).opds.isEmpty then [true] else [true, false]) else [false]

def shapeOk (m : Mn) (d : Desc) (bare : Bool) : Bool :=
  if bare then d.opds.isEmpty else opdsMatch d.opds (form m).opds

/-! ### acceptance -/

def fullMem : OpdD → Bool
  | .mem ok => ok == allModes
  | _ => true

theorem field_accepts (d : OpdD) (o : Opd) (c : Cpu) (pc : Nat) (v : Int) (hm : opdMatch d o = true) (hf : fullMem d = true) :
    (d.field v).isSome = o.accepts c pc v := by
  cases d <;> cases o <;> simp [opdMatch] at hm
  case reg.reg mask cls =>
    simp only [OpdD.field, Opd.accepts]
    by_cases h0 : 0 ≤ v
    · by_cases h32 : v.toNat < 32
      · have hmm := hm v.toNat h32
        have htb : mask.testBit v.toNat = decide (mask >>> v.toNat % 2 = 1) := by simp
        rw [htb] at hmm
        by_cases hb : (mask >>> v.toNat) % 2 = 1
        · have hc : cls.ok v.toNat = true := by rw [← hmm]; exact decide_eq_true hb
          have h3 : 0 ≤ v ∧ v < 32 ∧ (mask >>> v.toNat) % 2 = 1 := ⟨h0, by omega, hb⟩
          simp only [h3, and_self, if_true, Option.isSome_some, hc, h0, decide_true, Bool.and_self]
        · have hc : cls.ok v.toNat = false := by
            rw [← hmm]; exact decide_eq_false hb
          have h3 : ¬ (0 ≤ v ∧ v < 32 ∧ (mask >>> v.toNat) % 2 = 1) := fun h => hb h.2.2
          simp only [h3, if_false, Option.isSome_none, hc, Bool.and_false]
      · have hc : cls.ok v.toNat = false := by
          cases hh : cls.ok v.toNat
          · rfl
          · exact absurd (cls_ok_lt cls _ hh) h32
        have h3 : ¬ (0 ≤ v ∧ v < 32 ∧ (mask >>> v.toNat) % 2 = 1) := by omega
        simp only [h3, if_false, Option.isSome_none, hc, Bool.and_false]
    · have h3 : ¬ (0 ≤ v ∧ v < 32 ∧ (mask >>> v.toNat) % 2 = 1) := by omega
      simp only [h3, if_false, Option.isSome_none, h0, decide_false, Bool.false_and]
      simp [h0]
  case int.imm lo hi lo' hi' bits =>
    obtain ⟨⟨rfl, rfl⟩, _⟩ := hm
    simp only [OpdD.field, Opd.accepts]
    by_cases h1 : lo ≤ v <;> by_cases h2 : v ≤ hi <;> simp [h1, h2]
  case mem.mode ok =>
    simp only [fullMem, beq_iff_eq] at hf
    subst hf
    simp only [OpdD.field, Opd.accepts]
    by_cases h0 : 0 ≤ v
    · by_cases h9 : v < 9
      · have hin : v.toNat ∈ allModes := by
          simp only [allModes, List.mem_cons, List.not_mem_nil, or_false]; omega
        have h3 : 0 ≤ v ∧ v.toNat ∈ allModes := ⟨h0, hin⟩
        simp only [h3, and_self, if_true, Option.isSome_some, h0, h9, decide_true, Bool.and_self]
      · have hin : v.toNat ∉ allModes := by
          simp only [allModes, List.mem_cons, List.not_mem_nil, or_false]; omega
        have h3 : ¬ (0 ≤ v ∧ v.toNat ∈ allModes) := fun h => hin h.2
        simp only [h3, if_false, Option.isSome_none, h9, decide_false, Bool.and_false]
    · have h3 : ¬ (0 ≤ v ∧ v.toNat ∈ allModes) := fun h => h0 h.1
      simp only [h3, if_false, Option.isSome_none, h0, decide_false, Bool.false_and]
      simp [h0]
  case ptr.ptr =>
    simp only [OpdD.field, Opd.accepts]
    by_cases h : v = 0 ∨ v = 1
    · have : 0 ≤ v ∧ v < 2 := by omega
      simp [h, this]
    · have : ¬ (0 ≤ v ∧ v < 2) := by omega
      have h' : (decide (0 ≤ v) && decide (v < 2)) = false := by simpa using this
      simp [h, h']

theorem fields_accepts (ds : List OpdD) (os : List Opd) (c : Cpu) (pc : Nat) (vs : List Int) (hm : opdsMatch ds os = true)
    (hf : ds.all fullMem = true) : (fields ds vs).isSome = acceptsAll c pc os vs := by
  induction ds generalizing os vs with
  | nil =>
    cases os <;> simp [opdsMatch] at hm
    cases vs <;> simp [acceptsAll]
  | cons d ds ih =>
    cases os with
    | nil => simp [opdsMatch] at hm
    | cons o os =>
      simp only [opdsMatch, Bool.and_eq_true] at hm
      simp only [List.all_cons, Bool.and_eq_true] at hf
      cases vs with
      | nil => simp [acceptsAll]
      | cons v vs =>
        rw [fields_cons]
        simp only [acceptsAll]
        rw [← field_accepts d o c pc v hm.1 hf.1, ← ih os vs hm.2 hf.2]
        cases d.field v <;> cases fields ds vs <;> simp



/-! ### devices: `CPUProps[]` row ↔ SPEC device -/

/-- `tCPUCore` ↦ core of the SPEC -/
def coreLevel (k : Nat) : Nat :=
  if k = cCore90S1200 then 0 else if k = cCoreClassic then 1 else if k = cCoreTiny ∨ k = cCoreTiny16K then 2 else 3

def dataHi (p : Props) : Int :=
  match Generated.intTypeDefs[dataAdrIntType p]? with
  | some d => d.max
  | none => 0

/-- a `CPUProps[]` row describes the SPEC device `c`: same core, program memory of `2^pcBits` words, and the
`IntType`s `SwitchTo_AVR` picks for code and data addresses have the ranges that follow from the sizes -/
def compat (p : Props) (c : Cpu) : Bool :=
  (p.core == cCore90S1200 || p.core == cCoreClassic || p.core == cCoreTiny || p.core == cCoreTiny16K || p.core == cCoreMega) &&
  c.core == coreLevel p.core &&
  (segLimitCode p + 1 == 2 ^ c.pcBits) && decide (1 ≤ c.pcBits) && decide (c.pcBits ≤ 20) &&
  typeHasRange (codeAdrIntType p) 0 ((2 : Int) ^ c.pcBits - 1) &&
  typeHasRange (dataAdrIntType p) 0 (dataHi p) && decide ((segLimitData p : Int) ≤ dataHi p) && decide (31 ≤ segLimitData p)

structure CompatFacts (p : Props) (c : Cpu) : Prop where
  core : p.core = cCore90S1200 ∨ p.core = cCoreClassic ∨ p.core = cCoreTiny ∨ p.core = cCoreTiny16K ∨ p.core = cCoreMega
  level : c.core = coreLevel p.core
  size : segLimitCode p + 1 = 2 ^ c.pcBits
  n1 : 1 ≤ c.pcBits
  n20 : c.pcBits ≤ 20
  codeT : typeHasRange (codeAdrIntType p) 0 ((2 : Int) ^ c.pcBits - 1) = true
  dataT : typeHasRange (dataAdrIntType p) 0 (dataHi p) = true
  dataLe : (segLimitData p : Int) ≤ dataHi p
  data31 : 31 ≤ segLimitData p

theorem compat_facts (p : Props) (c : Cpu) (h : compat p c = true) : CompatFacts p c := by
  simp only [compat, Bool.and_eq_true, Bool.or_eq_true, beq_iff_eq, decide_eq_true_eq] at h
  obtain ⟨⟨⟨⟨⟨⟨⟨⟨h1, h2⟩, h3⟩, h4⟩, h5⟩, h6⟩, h7⟩, h8⟩, h9⟩ := h
  exact ⟨by omega, h2, h3, h4, h5, h6, h7, h8, h9⟩

theorem notMinTiny (p : Props) (c : Cpu) (h : compat p c = true) : p.core ≠ cCoreMinTiny := by
  have := (compat_facts p c h).core
  simp only [cCore90S1200, cCoreClassic, cCoreTiny, cCoreTiny16K, cCoreMega] at this
  simp only [cCoreMinTiny]; omega

/-- `GetWordCodeAddress` -/
theorem codeAddr_eq (p : Props) (c : Cpu) (h : compat p c = true) (a : Int) :
    getWordCodeAddress p a = if 0 ≤ a ∧ a ≤ 2 ^ c.pcBits - 1 then .ok a else .error .overRange :=
  evalInt_range _ _ _ (compat_facts p c h).codeT a

theorem cutAdr_eq (p : Props) (c : Cpu) (h : compat p c = true) (d : Int) :
    cutAdr p d = if d / ((2 : Int) ^ c.pcBits / 2) % 2 ≠ 0 then d % 2 ^ c.pcBits - 2 ^ c.pcBits else d % 2 ^ c.pcBits := by
  have hs := (compat_facts p c h).size
  have : ((segLimitCode p : Nat) : Int) + 1 = 2 ^ c.pcBits := by
    have : ((segLimitCode p + 1 : Nat) : Int) = ((2 ^ c.pcBits : Nat) : Int) := by rw [hs]
    simpa using this
  unfold cutAdr
  simp only [this]

theorem relDist_eq (x : Ctx) (c : Cpu) (h : compat x.p c = true) (hw : x.wrap = c.wrap) (a : Int) :
    relDist x a = if 0 ≤ a ∧ a ≤ 2 ^ c.pcBits - 1 then .ok (distOf (2 ^ c.pcBits) c.wrap x.pc a) else .error .overRange := by
  unfold relDist
  rw [codeAddr_eq x.p c h]
  by_cases hc : 0 ≤ a ∧ a ≤ 2 ^ c.pcBits - 1
  · simp only [hc, and_self, if_true, andThen_ok, getNextCodeAddress, distOf, hw, cutAdr_eq x.p c h]
  · simp only [hc, if_false, andThen_error]



/-- `decode1 (w mod 2^16) = (m, fs, w2)`, kernel-friendly -/
noncomputable def wordIs (w : Nat) (m : Mn) (fs : List Nat) (w2 : Bool) : Bool :=
  force (w % 65536) fun v => decBeq (decode1 v) m fs w2

theorem wordIs_spec (w : Nat) (m : Mn) (fs : List Nat) (w2 : Bool) (h : wordIs w m fs w2 = true) :
    decode1 (w % 65536) = some (m, fs, w2) := by
  unfold wordIs at h; rw [force_eq] at h; exact decBeq_eq _ _ _ _ h

noncomputable def allBelow (n : Nat) (p : Nat → Bool) : Bool := allL (List.range n) p
theorem allBelow_spec (n : Nat) (p : Nat → Bool) (h : allBelow n p = true) (k : Nat) (hk : k < n) : p k = true :=
  allL_spec _ _ h k (List.mem_range.mpr hk)

theorem isOk_okBytes (x : Except Err (List Byte)) : isOk x = (okBytes x).isSome := by cases x <;> rfl

theorem int_field_isSome (lo hi v : Int) : ((OpdD.int lo hi).field v).isSome = (decide (lo ≤ v) && decide (v ≤ hi)) := by
  simp only [OpdD.field]
  by_cases h1 : lo ≤ v <;> by_cases h2 : v ≤ hi <;> simp [h1, h2]

end AslModel.Isa.IAvr
