import AslModel.Model.Expr
import AslModel.Lemmas.ExprEval
/-!
# Helper lemmas for `Props/C08_Lex.lean`: the tokeniser of `Model/Expr.lean` on rendered formulas

* `lexAux_fuel2`: the result of `lexAux` does not depend on the fuel once it exceeds the length of the text (every step
  consumes at least one character: `cands_idLen_pos`, `strEnd_length`); `lexT` is the fuel-free view with one equation per
  branch of the loop (`lexT_nil/_lp/_rp/_comma/_op/_plain`).
* the candidate loop looks at two characters at most (`candsOf_take2`, from the table: every `Id` has one or two characters)
  and finds nothing at a character no spelling starts with (`candsOf_noOpStart`).
* `digits_roundtrip`, `classify_renderInt`: the digit loop of `ConstIntVal` reads the decimal / `$`-hexadecimal digits of
  `renderInt v` back to `v`, for every 64-bit `v`.
* `IntF`: the fragment; `render_head`: the first character of a rendered operand; `follow_operand`: an operator spelling
  followed by a rendered operand is matched as that spelling (longest match does not reach into the operand).
* `lex_render` / `lexW_render`: the round trip.
* `need`, `evalToks_toks_need`, `need_le_length`: the token-level parse theorem with the recursion budget `evalStr` really
  has (`tokens + 2`): the activations needed are bounded by the nesting depth, which the token count bounds.
* `evalStr_render`: the model of `EvalExpression` on the rendered text computes the structural fold.
-/
namespace AslModel.Expr.Lex
open AslModel.Formula AslModel.Generated

/-! table facts -/
theorem candsAux_range (text : List Char) : ∀ (rows : List OpRow) (i l k : Nat), k ∈ candsAux text rows i l → i ≤ k ∧ k < i + rows.length := by
  intro rows
  induction rows with
  | nil => intro i l k h; simp [candsAux] at h
  | cons r rs ih =>
    intro i l k h
    simp only [candsAux] at h
    split at h
    · rcases List.mem_cons.mp h with h | h
      · subst h; simp
      · have := ih _ _ _ h; simp; omega
    · have := ih _ _ _ h; simp; omega

theorem idLen_pos_table : ∀ k, k < operators.length → 1 ≤ k → 1 ≤ (rowOf k).idLen := by decide

theorem cands_idLen_pos (text : List Char) (k : Nat) (h : (candsOf text).getLast? = some k) : 1 ≤ (rowOf k).idLen := by
  have hm : k ∈ candsOf text := List.mem_of_getLast? h
  have := candsAux_range text _ _ _ _ hm
  apply idLen_pos_table k
  · have h2 : (operators.drop 1).length + 1 = operators.length := by decide
    omega
  · omega

theorem strEnd_length (q : Char) : ∀ (rest : List Char) (esc : Bool) (acc raw after : List Char),
    strEnd q rest esc acc = some (raw, after) → after.length ≤ rest.length := by
  intro rest
  induction rest with
  | nil => intro esc acc raw after h; simp [strEnd] at h
  | cons c cs ih =>
    intro esc acc raw after h
    simp only [strEnd] at h
    split at h
    · simp at h; rw [← h.2]; simp
    · have := ih _ _ _ _ h; simp; omega

variable (ev : List Char → Except Err Val)

theorem lexAux_fuel2 : ∀ (f1 f2 : Nat) (text cur : List Char) (acc : List Tok), text.length + 1 ≤ f1 → text.length + 1 ≤ f2 →
    lexAux ev f1 text cur acc = lexAux ev f2 text cur acc := by
  intro f1
  induction f1 with
  | zero => intro f2 text cur acc h; omega
  | succ n ih =>
    intro f2 text cur acc h1 h2
    cases f2 with
    | zero => omega
    | succ m =>
      cases text with
      | nil => simp [lexAux]
      | cons c rest =>
        simp only [List.length_cons] at h1 h2
        have hr : ∀ (cur' : List Char) (acc' : List Tok), lexAux ev n rest cur' acc' = lexAux ev m rest cur' acc' :=
          fun _ _ => ih m rest _ _ (by omega) (by omega)
        have hn : ∀ (cur' : List Char) (acc' : List Tok), lexAux ev n [] cur' acc' = lexAux ev m [] cur' acc' :=
          fun _ _ => ih m [] _ _ (by simp; omega) (by simp; omega)
        rw [lexAux, lexAux]
        simp only [hr, hn]
        repeat' split
        all_goals first
          | rfl
          | (have hl := strEnd_length c rest false [] _ _ (by assumption)
             exact ih m _ _ _ (by omega) (by omega))
          | (have hp := cands_idLen_pos (c :: rest) _ (by assumption)
             exact ih m _ _ _ (by simp only [List.length_drop, List.length_cons]; omega)
               (by simp only [List.length_drop, List.length_cons]; omega))

/-! ## fuel-free view of the tokeniser -/

def flushT (cur : List Char) (acc : List Tok) : List Tok := if cur.isEmpty then acc else classify cur.reverse :: acc

def lexT (text cur : List Char) (acc : List Tok) : List Tok := lexAux ev (text.length + 1) text cur acc

theorem flushT_nil (acc : List Tok) : flushT [] acc = acc := rfl

theorem lexT_nil (cur : List Char) (acc : List Tok) : lexT ev [] cur acc = (flushT cur acc).reverse := by
  simp [lexT, lexAux, flushT]

theorem lexT_lp (r cur : List Char) (acc : List Tok) : lexT ev ('(' :: r) cur acc = lexT ev r [] (.lp :: flushT cur acc) := by
  simp [lexT, lexAux, flushT]

theorem lexT_rp (r cur : List Char) (acc : List Tok) : lexT ev (')' :: r) cur acc = lexT ev r [] (.rp :: flushT cur acc) := by
  simp [lexT, lexAux, flushT]

theorem lexT_comma (r cur : List Char) (acc : List Tok) : lexT ev (',' :: r) cur acc = lexT ev r [] (.comma :: flushT cur acc) := by
  simp [lexT, lexAux, flushT]

/-- not one of the characters the loop treats before the candidate loop -/
def notSpecial (c : Char) : Bool := c != ' ' && c != '\t' && c != '(' && c != ')' && c != ',' && c != '"' && c != '\''

theorem lexT_op (c : Char) (r cur : List Char) (acc : List Tok) (k : Nat) (hc : notSpecial c = true)
    (hk : (candsOf (c :: r)).getLast? = some k) :
    lexT ev (c :: r) cur acc = lexT ev ((c :: r).drop (rowOf k).idLen) [] (.op (candsOf (c :: r)) :: flushT cur acc) := by
  simp only [notSpecial, Bool.and_eq_true, bne_iff_ne, ne_eq] at hc
  obtain ⟨⟨⟨⟨⟨⟨h1, h2⟩, h3⟩, h4⟩, h5⟩, h6⟩, h7⟩ := hc
  have hp := cands_idLen_pos (c :: r) k hk
  unfold lexT
  rw [lexAux]
  simp only [beq_iff_eq, h1, h2, h3, h4, h5, h6, h7, false_or, false_and, if_false, hk, flushT]
  exact lexAux_fuel2 ev _ _ _ _ _ (by simp only [List.length_drop, List.length_cons]; omega) (by omega)

theorem lexT_plain (c : Char) (r cur : List Char) (acc : List Tok) (hc : notSpecial c = true)
    (hk : candsOf (c :: r) = []) :
    lexT ev (c :: r) cur acc = lexT ev r (c :: cur) acc := by
  simp only [notSpecial, Bool.and_eq_true, bne_iff_ne, ne_eq] at hc
  obtain ⟨⟨⟨⟨⟨⟨h1, h2⟩, h3⟩, h4⟩, h5⟩, h6⟩, h7⟩ := hc
  unfold lexT
  rw [lexAux]
  simp only [beq_iff_eq, h1, h2, h3, h4, h5, h6, h7, false_or, false_and, if_false, hk, List.getLast?_nil]
  rfl


/-! ## the candidate loop looks at two characters at most, and at none of a constant's characters -/

def patOf (r : OpRow) : List Char := r.id.take r.idLen

theorem candsAux_congr (t1 t2 : List Char) : ∀ (rows : List OpRow) (i l : Nat),
    (∀ r ∈ rows, (patOf r).isPrefixOf t1 = (patOf r).isPrefixOf t2) → candsAux t1 rows i l = candsAux t2 rows i l := by
  intro rows
  induction rows with
  | nil => intros; rfl
  | cons r rs ih =>
    intro i l h
    have h1 := h r (by simp)
    have h2 : ∀ r ∈ rs, (patOf r).isPrefixOf t1 = (patOf r).isPrefixOf t2 := fun x hx => h x (by simp [hx])
    simp only [patOf] at h1
    simp only [candsAux, h1, ih _ _ h2]

theorem pat_len_table : ∀ r ∈ operators.drop 1, 1 ≤ (patOf r).length ∧ (patOf r).length ≤ 2 := by decide

theorem isPrefixOf_take2 (p t : List Char) (h : p.length ≤ 2) : p.isPrefixOf t = p.isPrefixOf (t.take 2) := by
  match p, h with
  | [], _ => simp
  | [a], _ => cases t with
    | nil => rfl
    | cons x t' => cases t' <;> simp [List.isPrefixOf]
  | [a, b], _ => cases t with
    | nil => rfl
    | cons x t' => cases t' with
      | nil => rfl
      | cons y t'' => simp [List.isPrefixOf]

theorem candsOf_take2 (t : List Char) : candsOf t = candsOf (t.take 2) :=
  candsAux_congr _ _ _ _ _ (fun r hr => isPrefixOf_take2 _ _ (pat_len_table r hr).2)

/-- no operator spelling starts with `c` -/
def noOpStart (c : Char) : Bool := (operators.drop 1).all fun r => (patOf r).head? != some c

theorem candsAux_none (t : List Char) : ∀ (rows : List OpRow) (i l : Nat),
    (∀ r ∈ rows, (patOf r).isPrefixOf t = false) → candsAux t rows i l = [] := by
  intro rows
  induction rows with
  | nil => intros; rfl
  | cons r rs ih =>
    intro i l h
    have h1 := h r (by simp)
    simp only [patOf] at h1
    simp only [candsAux, h1, Bool.false_eq_true, false_and, if_false]
    exact ih _ _ (fun x hx => h x (by simp [hx]))

theorem candsOf_noOpStart (c : Char) (r : List Char) (h : noOpStart c = true) : candsOf (c :: r) = [] := by
  apply candsAux_none
  intro row hrow
  have hl := (pat_len_table row hrow).1
  have hh := (List.all_eq_true.mp h) row hrow
  cases hp : patOf row with
  | nil => rw [hp] at hl; simp at hl
  | cons a p' =>
    rw [hp] at hh
    simp at hh
    simp [List.isPrefixOf, hh]

/-- a plain character of a constant or a name: it is accumulated into the current word -/
def plainC (c : Char) : Bool := notSpecial c && noOpStart c

theorem lexT_run (w : List Char) (hw : ∀ c ∈ w, plainC c = true) (rest cur : List Char) (acc : List Tok) :
    lexT ev (w ++ rest) cur acc = lexT ev rest (w.reverse ++ cur) acc := by
  induction w generalizing cur with
  | nil => rfl
  | cons c w ih =>
    have hc := hw c (by simp)
    simp only [plainC, Bool.and_eq_true] at hc
    rw [List.cons_append, lexT_plain ev c _ _ _ hc.1 (candsOf_noOpStart c _ hc.2), ih (fun x hx => hw x (by simp [hx]))]
    simp


/-! ## decimal / hexadecimal digits of `renderInt` are read back by `ConstIntVal` -/

theorem digitsVal_append (b : Nat) : ∀ (xs ys : List Char) (acc : W),
    digitsVal b (xs ++ ys) acc = (digitsVal b xs acc).bind (fun a => digitsVal b ys a) := by
  intro xs
  induction xs with
  | nil => intros; rfl
  | cons x xs ih =>
    intro ys acc
    simp only [List.cons_append, digitsVal]
    cases digitVal x b with
    | none => rfl
    | some d => exact ih _ _

theorem digitVal_hex10 : ∀ d, d < 10 → digitVal (hexDigit d) 10 = some d := by decide
theorem digitVal_hex16 : ∀ d, d < 16 → digitVal (hexDigit d) 16 = some d := by decide

theorem digits_roundtrip (base : Nat) (hb : 2 ≤ base) (hd : ∀ d, d < base → digitVal (hexDigit d) base = some d) :
    ∀ (fuel n : Nat), n < base ^ fuel → digitsVal base (natDigits base fuel n) 0 = some (BitVec.ofNat 64 n) := by
  intro fuel
  induction fuel with
  | zero => intro n h; simp at h; subst h; rfl
  | succ f ih =>
    intro n h
    simp only [natDigits]
    split
    · rename_i hlt
      simp [digitsVal, hd n hlt]
    · rename_i hge
      have hq : n / base < base ^ f := by
        rw [Nat.div_lt_iff_lt_mul (by omega)]; rw [Nat.pow_succ] at h; exact h
      rw [digitsVal_append, ih _ hq]
      simp only [Option.bind, digitsVal, hd _ (Nat.mod_lt n (by omega))]
      rw [← BitVec.ofNat_mul, ← BitVec.ofNat_add, Nat.div_add_mod']

theorem natDigits_mem (base : Nat) (hb : 1 ≤ base) : ∀ (fuel n : Nat) (c : Char), c ∈ natDigits base fuel n → ∃ d, d < base ∧ c = hexDigit d := by
  intro fuel
  induction fuel with
  | zero => intro n c h; simp [natDigits] at h
  | succ f ih =>
    intro n c h
    simp only [natDigits] at h
    split at h
    · simp at h; exact ⟨n, by assumption, h⟩
    · rcases List.mem_append.mp h with h | h
      · exact ih _ _ h
      · simp at h; exact ⟨n % base, Nat.mod_lt n (by omega), h⟩

theorem natDigits_ne_nil (base f n : Nat) : natDigits base (f + 1) n ≠ [] := by
  simp only [natDigits]; split <;> simp

def decChars : List Char := ['0', '1', '2', '3', '4', '5', '6', '7', '8', '9']
def hexChars : List Char := ['0', '1', '2', '3', '4', '5', '6', '7', '8', '9', 'A', 'B', 'C', 'D', 'E', 'F']

theorem hexDigit_dec : ∀ d, d < 10 → hexDigit d ∈ decChars := by decide
theorem hexDigit_hex : ∀ d, d < 16 → hexDigit d ∈ hexChars := by decide

theorem constIntMoto_dec (d : Char) (hd : d ∈ decChars) (w : List Char) : constIntMoto (d :: w) = digitsVal 10 (d :: w) 0 := by
  simp only [decChars, List.mem_cons, List.mem_nil_iff, or_false] at hd
  rcases hd with rfl | rfl | rfl | rfl | rfl | rfl | rfl | rfl | rfl | rfl <;> rfl

theorem pow63_lt : (2 : Nat) ^ 64 ≤ 10 ^ 64 ∧ (2 : Nat) ^ 64 ≤ 16 ^ 64 := by decide

theorem classify_renderInt (v : W) : classify (renderInt v) = .atom (.int v) := by
  have hv : v.toNat < 2 ^ 64 := v.isLt
  unfold renderInt
  split
  · have hne := natDigits_ne_nil 10 63 v.toNat
    cases hw : natDigits 10 64 v.toNat with
    | nil => exact absurd hw hne
    | cons d w =>
      have hmem : d ∈ natDigits 10 64 v.toNat := by rw [hw]; simp
      obtain ⟨k, hk, rfl⟩ := natDigits_mem 10 (by omega) _ _ _ hmem
      have hr := digits_roundtrip 10 (by omega) digitVal_hex10 64 v.toNat (Nat.lt_of_lt_of_le hv pow63_lt.1)
      rw [hw] at hr
      simp only [classify, constIntMoto_dec _ (hexDigit_dec k hk), hr, BitVec.ofNat_toNat, BitVec.setWidth_eq]
  · have hne := natDigits_ne_nil 16 63 v.toNat
    have hr := digits_roundtrip 16 (by omega) digitVal_hex16 64 v.toNat (Nat.lt_of_lt_of_le hv pow63_lt.2)
    cases hw : natDigits 16 64 v.toNat with
    | nil => exact absurd hw hne
    | cons d w =>
      rw [hw] at hr
      simp only [classify, constIntMoto, List.isEmpty_cons, Bool.false_eq_true, if_false, hr, BitVec.ofNat_toNat, BitVec.setWidth_eq]


/-! ## the formula fragment and the characters an operand starts with -/

/-- the fragment of `Spec/Formula` the round trip is proved for: integer literals (any 64-bit value, in the notation `render`
writes: decimal below 2^63, `$` + hexadecimal above), sign / complement / logical not, all dyadic operators, calls of the
functions with one to three arguments; minimal parentheses, no blanks (exactly the text `render` writes).  Outside:
float literals and string / character constants. -/
def IntF : Formula → Prop
  | .lit (.int _) => True
  | .lit _ => False
  | .sc _ _ => False
  | .un _ e => IntF e
  | .bin _ l r => IntF l ∧ IntF r
  | .fn1 _ a => IntF a
  | .fn2 _ a b => IntF a ∧ IntF b
  | .fn3 _ a b c => IntF a ∧ IntF b ∧ IntF c

/-- first characters of a rendered operand other than `-` and `~` -/
def startNot : List Char :=
  ['(', '$', '0', '1', '2', '3', '4', '5', '6', '7', '8', '9', 'A', 'B', 'C', 'D', 'E', 'F', 'G', 'H', 'I', 'J', 'K', 'L', 'M',
   'N', 'O', 'P', 'Q', 'R', 'S', 'T', 'U', 'V', 'W', 'X', 'Y', 'Z']
def startChars : List Char := '-' :: '~' :: startNot

/-- the candidate loop at the spelling `sp` followed by the character `h` finds what it finds at `sp` alone -/
def sepOK (sp : List Char) (h : Char) : Bool := candsOf (sp ++ [h]) == candsOf sp

/-- the spelling is matched as a whole: it does not start with a character treated earlier in the loop, and the last candidate
(the one whose `IdLen` advances the scan) has the spelling's length -/
def opInfo (sp : List Char) : Bool :=
  (match sp.head? with | some c => notSpecial c | none => false) &&
  (match (candsOf sp).getLast? with | some k => (rowOf k).idLen == sp.length | none => false) &&
  (sp.length == 1 || sp.length == 2)

def sepFor (sp : List Char) : List Char := if sp = ['~'] then startNot else startChars

theorem opInfo_bin (o : BinOp) : opInfo o.spelling = true := by cases o <;> decide
theorem opInfo_un (u : UnOp) : opInfo u.spelling = true := by cases u <;> decide
theorem sep_bin (o : BinOp) : (sepFor o.spelling).all (sepOK o.spelling) = true := by cases o <;> decide
theorem sep_un (u : UnOp) : (sepFor u.spelling).all (sepOK u.spelling) = true := by cases u <;> decide

theorem follow_cons (sp : List Char) (h : Char) (Y : List Char) (hi : opInfo sp = true) (hs : sepOK sp h = true) :
    candsOf (sp ++ h :: Y) = candsOf sp := by
  simp only [opInfo, Bool.and_eq_true, Bool.or_eq_true, beq_iff_eq] at hi
  have hlen := hi.2
  simp only [sepOK, beq_iff_eq] at hs
  rw [← hs, candsOf_take2 (sp ++ h :: Y), candsOf_take2 (sp ++ [h])]
  congr 1
  match sp, hlen with
  | [a], _ => rfl
  | [a, b], _ => rfl

theorem op_step (sp Y cur : List Char) (acc : List Tok) (hi : opInfo sp = true) (hf : candsOf (sp ++ Y) = candsOf sp) :
    lexT ev (sp ++ Y) cur acc = lexT ev Y [] (.op (candsOf sp) :: flushT cur acc) := by
  simp only [opInfo, Bool.and_eq_true] at hi
  obtain ⟨⟨h1, h2⟩, _⟩ := hi
  cases sp with
  | nil => simp at h1
  | cons c sp' =>
    simp only [List.head?_cons] at h1
    cases hk : (candsOf (c :: sp')).getLast? with
    | none => rw [hk] at h2; simp at h2
    | some k =>
      rw [hk] at h2
      simp only [beq_iff_eq] at h2
      have hk' : (candsOf (c :: (sp' ++ Y))).getLast? = some k := by rw [← List.cons_append, hf, hk]
      rw [List.cons_append, lexT_op ev c _ cur acc k h1 hk', ← List.cons_append, hf, h2, List.drop_left]

theorem renderInt_head (v : W) : ∃ h t, renderInt v = h :: t ∧ h ∈ startNot := by
  unfold renderInt
  split
  · have hne := natDigits_ne_nil 10 63 v.toNat
    cases hw : natDigits 10 64 v.toNat with
    | nil => exact absurd hw hne
    | cons d w =>
      have hmem : d ∈ natDigits 10 64 v.toNat := by rw [hw]; simp
      obtain ⟨k, hk, rfl⟩ := natDigits_mem 10 (by omega) _ _ _ hmem
      refine ⟨_, _, rfl, ?_⟩
      have : ∀ k, k < 10 → hexDigit k ∈ startNot := by decide
      exact this k hk
  · exact ⟨_, _, rfl, by decide⟩

theorem fn_head (f : Fn) : ∃ h t, f.name = h :: t ∧ h ∈ startNot := by
  cases f <;> exact ⟨_, _, rfl, by decide⟩

theorem un_head (u : UnOp) : ∃ h t, u.spelling = h :: t ∧ h ∈ startChars := by
  cases u <;> exact ⟨_, _, rfl, by decide⟩

theorem startNot_sub {h : Char} (hh : h ∈ startNot) : h ∈ startChars := by
  simp only [startChars, List.mem_cons]; exact Or.inr (Or.inr hh)

theorem render_head (f : Formula) (hf : IntF f) :
    ∃ h t, render f = h :: t ∧ h ∈ startChars ∧ (f.rootRank = 0 → h ∈ startNot) := by
  induction f with
  | lit v =>
    cases v with
    | int v => obtain ⟨h, t, e, hm⟩ := renderInt_head v; exact ⟨h, t, e, startNot_sub hm, fun _ => hm⟩
    | flt x => exact absurd hf (by simp [IntF])
    | str s => exact absurd hf (by simp [IntF])
  | sc dq items => exact absurd hf (by simp [IntF])
  | un u e ih =>
    obtain ⟨h, t, e', hm⟩ := un_head u
    refine ⟨h, t ++ paren (u.rank ≤ e.rootRank) (render e), by simp [render, e'], hm, ?_⟩
    intro h0; cases u <;> simp [Formula.rootRank, UnOp.rank] at h0
  | bin o l r ihl ihr =>
    simp only [IntF] at hf
    refine ?_
    by_cases hb : o.rank < l.rootRank
    · exact ⟨'(', _, by simp [render, paren, hb]; rfl, by decide, fun h0 => by cases o <;> simp [Formula.rootRank, BinOp.rank] at h0⟩
    · obtain ⟨h, t, e', hm, _⟩ := ihl hf.1
      exact ⟨h, _, by simp [render, paren, hb, e']; rfl, hm, fun h0 => by cases o <;> simp [Formula.rootRank, BinOp.rank] at h0⟩
  | fn1 f a _ =>
    obtain ⟨h, t, e', hm⟩ := fn_head f
    exact ⟨h, _, by simp [render, e']; rfl, startNot_sub hm, fun _ => hm⟩
  | fn2 f a b _ _ =>
    obtain ⟨h, t, e', hm⟩ := fn_head f
    exact ⟨h, _, by simp [render, e']; rfl, startNot_sub hm, fun _ => hm⟩
  | fn3 f a b c _ _ _ =>
    obtain ⟨h, t, e', hm⟩ := fn_head f
    exact ⟨h, _, by simp [render, e']; rfl, startNot_sub hm, fun _ => hm⟩


/-! ## the round trip -/

/-- a text in front of which the current word is closed: the tokeniser flushes the word first -/
def Brk (rest : List Char) : Prop := ∀ cur acc, lexT ev rest cur acc = lexT ev rest [] (flushT cur acc)

theorem brk_nil : Brk ev [] := by intro cur acc; simp [lexT_nil, flushT_nil]
theorem brk_rp (r : List Char) : Brk ev (')' :: r) := by intro cur acc; simp [lexT_rp, flushT_nil]
theorem brk_comma (r : List Char) : Brk ev (',' :: r) := by intro cur acc; simp [lexT_comma, flushT_nil]
theorem brk_op (sp Y : List Char) (hi : opInfo sp = true) (hf : candsOf (sp ++ Y) = candsOf sp) : Brk ev (sp ++ Y) := by
  intro cur acc; rw [op_step ev _ _ _ _ hi hf, op_step ev _ _ _ _ hi hf]; simp [flushT_nil]

theorem follow_operand (sp : List Char) (hi : opInfo sp = true) (hsep : (sepFor sp).all (sepOK sp) = true)
    (e : Formula) (he : IntF e) (b : Bool) (hb : sp = ['~'] → b = true ∨ e.rootRank = 0) (rest : List Char) :
    candsOf (sp ++ (paren b (render e) ++ rest)) = candsOf sp := by
  have key : ∃ h t, paren b (render e) ++ rest = h :: t ∧ h ∈ sepFor sp := by
    obtain ⟨h, t, e', hm, hn⟩ := render_head e he
    cases b with
    | true =>
      refine ⟨'(', _, by simp [paren]; rfl, ?_⟩
      unfold sepFor; split <;> decide
    | false =>
      refine ⟨h, t ++ rest, by simp [paren, e'], ?_⟩
      unfold sepFor; split
      · rename_i hsp
        rcases hb hsp with h1 | h1
        · exact absurd h1 (by simp)
        · exact hn h1
      · exact hm
  obtain ⟨h, t, e', hm⟩ := key
  rw [e']
  exact follow_cons sp h t hi (List.all_eq_true.mp hsep h hm)

theorem lex_paren (e : Formula)
    (ih : ∀ rest acc, Brk ev rest → lexT ev (render e ++ rest) [] acc = lexT ev rest [] ((toks e).reverse ++ acc))
    (b : Bool) (rest : List Char) (acc : List Tok) (hr : Brk ev rest) :
    lexT ev (paren b (render e) ++ rest) [] acc = lexT ev rest [] ((wrapT b (toks e)).reverse ++ acc) := by
  cases b with
  | false => simpa [paren, wrapT] using ih rest acc hr
  | true =>
    have h1 : paren true (render e) ++ rest = '(' :: (render e ++ ')' :: rest) := by simp [paren]
    rw [h1, lexT_lp, ih _ _ (brk_rp ev rest), lexT_rp]
    simp [wrapT, flushT_nil]

theorem hexDigit_plain : ∀ d, d < 16 → plainC (hexDigit d) = true := by decide

theorem renderInt_plain (v : W) : ∀ c ∈ renderInt v, plainC c = true := by
  intro c hc
  unfold renderInt at hc
  split at hc
  · obtain ⟨k, hk, rfl⟩ := natDigits_mem 10 (by omega) _ _ _ hc
    exact hexDigit_plain k (by omega)
  · rcases List.mem_cons.mp hc with rfl | hc
    · decide
    · obtain ⟨k, hk, rfl⟩ := natDigits_mem 16 (by omega) _ _ _ hc
      exact hexDigit_plain k hk

theorem renderInt_ne_nil (v : W) : renderInt v ≠ [] := by
  obtain ⟨h, t, e, _⟩ := renderInt_head v; rw [e]; simp

theorem flushT_word (w : List Char) (hw : w ≠ []) (acc : List Tok) : flushT w.reverse acc = classify w :: acc := by
  simp [flushT, hw]

def upperChars : List Char :=
  ['A', 'B', 'C', 'D', 'E', 'F', 'G', 'H', 'I', 'J', 'K', 'L', 'M', 'N', 'O', 'P', 'Q', 'R', 'S', 'T', 'U', 'V', 'W', 'X', 'Y', 'Z']
theorem upper_plain : ∀ c ∈ upperChars, plainC c = true := by decide
theorem fn_upper (f : Fn) : ∀ c ∈ f.name, c ∈ upperChars := by cases f <;> decide
theorem fn_plain (f : Fn) : ∀ c ∈ f.name, plainC c = true := fun c hc => upper_plain c (fn_upper f c hc)
theorem fn_ne_nil (f : Fn) : f.name ≠ [] := by
  obtain ⟨h, t, e, _⟩ := fn_head f; rw [e]; simp
theorem classify_fn (f : Fn) : classify f.name = .name f.name := by cases f <;> rfl

theorem lex_name (f : Fn) (Y : List Char) (acc : List Tok) :
    lexT ev (f.name ++ '(' :: Y) [] acc = lexT ev Y [] (.lp :: .name f.name :: acc) := by
  rw [lexT_run ev _ (fn_plain f), lexT_lp, List.append_nil, flushT_word _ (fn_ne_nil f), classify_fn]

theorem lex_render (f : Formula) (hf : IntF f) :
    ∀ rest acc, Brk ev rest → lexT ev (render f ++ rest) [] acc = lexT ev rest [] ((toks f).reverse ++ acc) := by
  induction f with
  | lit v =>
    cases v with
    | int v =>
      intro rest acc hr
      simp only [render, renderVal, toks]
      rw [lexT_run ev _ (renderInt_plain v), hr, List.append_nil, flushT_word _ (renderInt_ne_nil v), classify_renderInt]
      rfl
    | flt x => exact absurd hf (by simp [IntF])
    | str s => exact absurd hf (by simp [IntF])
  | sc dq items => exact absurd hf (by simp [IntF])
  | un u e ih =>
    intro rest acc hr
    simp only [IntF] at hf
    have hfo := follow_operand u.spelling (opInfo_un u) (sep_un u) e hf (decide (u.rank ≤ e.rootRank))
      (by
        cases u with
        | neg => intro h; simp [UnOp.spelling] at h
        | lnot => intro h; simp [UnOp.spelling] at h
        | not =>
          intro _
          by_cases h0 : e.rootRank = 0
          · exact Or.inr h0
          · exact Or.inl (decide_eq_true (by show 1 ≤ e.rootRank; omega))) rest
    simp only [render, toks, List.append_assoc]
    rw [op_step ev _ _ _ _ (opInfo_un u) hfo, lex_paren ev e (ih hf) _ rest _ hr]
    simp [flushT_nil]
  | bin o l r ihl ihr =>
    intro rest acc hr
    simp only [IntF] at hf
    have hfo := follow_operand o.spelling (opInfo_bin o) (sep_bin o) r hf.2 (decide (o.rank ≤ r.rootRank))
      (by cases o <;> simp [BinOp.spelling]) rest
    simp only [render, toks, List.append_assoc]
    rw [lex_paren ev l (ihl hf.1) _ _ _ (brk_op ev _ _ (opInfo_bin o) hfo),
      op_step ev _ _ _ _ (opInfo_bin o) hfo, lex_paren ev r (ihr hf.2) _ rest _ hr]
    simp [flushT_nil]
  | fn1 f a iha =>
    intro rest acc hr
    simp only [IntF] at hf
    simp only [render, toks, List.append_assoc, List.cons_append, List.nil_append]
    rw [lex_name, iha hf _ _ (brk_rp ev rest), lexT_rp]
    simp [flushT_nil]
  | fn2 f a b iha ihb =>
    intro rest acc hr
    simp only [IntF] at hf
    simp only [render, toks, List.append_assoc, List.cons_append, List.nil_append]
    rw [lex_name, iha hf.1 _ _ (brk_comma ev _), lexT_comma, ihb hf.2 _ _ (brk_rp ev rest), lexT_rp]
    simp [flushT_nil]
  | fn3 f a b c iha ihb ihc =>
    intro rest acc hr
    simp only [IntF] at hf
    simp only [render, toks, List.append_assoc, List.cons_append, List.nil_append]
    rw [lex_name, iha hf.1 _ _ (brk_comma ev _), lexT_comma, ihb hf.2.1 _ _ (brk_comma ev _), lexT_comma,
      ihc hf.2.2 _ _ (brk_rp ev rest), lexT_rp]
    simp [flushT_nil]

/-- **tokeniser round trip** -/
theorem lexW_render (f : Formula) (hf : IntF f) : lexW ev (render f) = toks f := by
  have h := lex_render ev f hf [] [] (brk_nil ev)
  simp only [List.append_nil] at h
  show lexT ev (render f) [] [] = toks f
  rw [h, lexT_nil]; simp [flushT_nil]


/-! ## the parse theorem with the budget of `evalStr` -/

/-- one more activation for a pair of brackets -/
def wb (b : Bool) : Nat := if b then 1 else 0

/-- activations of `EvalStrExpression` the tokens of `f` need (nesting depth, brackets counted) -/
def need : Formula → Nat
  | .lit _ => 1
  | .sc _ _ => 1
  | .un u e => 1 + (wb (decide (u.rank ≤ e.rootRank)) + need e)
  | .bin o l r => 1 + max (wb (decide (o.rank < l.rootRank)) + need l) (wb (decide (o.rank ≤ r.rootRank)) + need r)
  | .fn1 _ a => 1 + need a
  | .fn2 _ a b => 1 + max (need a) (need b)
  | .fn3 _ a b c => 1 + max (need a) (max (need b) (need c))

section Main
variable (M : MSem) (ok : TableOK prioOf) (rows : RowsOK)
include ok

theorem evalToks_wrap_need (f : Formula)
    (ih : ∀ n, need f ≤ n → evalToks M n (toks f) = evalWith (semOf M) f) (b : Bool) (m : Nat)
    (hm : wb b + need f ≤ m) : evalToks M m (wrapT b (toks f)) = evalWith (semOf M) f := by
  cases b with
  | false => simpa [wrapT] using ih m (by simp [wb] at hm; omega)
  | true =>
    simp only [wb, if_true] at hm
    match m, hm with
    | 0, hk => omega
    | k + 1, hk =>
      show evalStep M (evalToks M k) ([Tok.lp] ++ toks f ++ [Tok.rp]) = _
      rw [evalStep_paren M _ (scan_toks prioOf ok f).toBal]
      exact ih k (by omega)

include rows

theorem evalToks_toks_need (f : Formula) :
    ∀ n, need f ≤ n → evalToks M n (toks f) = evalWith (semOf M) f := by
  induction f with
  | lit v =>
    intro n hn
    simp only [need] at hn
    match n, hn with
    | 0, h => omega
    | k + 1, _ => rfl
  | sc dq items =>
    intro n hn
    simp only [need] at hn
    match n, hn with
    | 0, h => omega
    | k + 1, _ => rfl
  | un u e ih =>
    intro n hn
    simp only [need] at hn
    match n, hn with
    | 0, h => omega
    | k + 1, hk =>
      show evalStep M (evalToks M k) (toks (.un u e)) = _
      have hs := scan_root_un ok u e
      have ha : isAtom (toks (.un u e)) = none :=
        isAtom_none_of_length (by have := wrapT_length_pos (decide (u.rank ≤ e.rootRank)) e; simp [toks]; omega)
      unfold evalStep
      rw [ha]
      simp only []
      rw [if_neg (fun h => h hs.1), if_pos (by rw [hs.2.1]; exact idx_ne_zero ok (.u u)), hs.2.1, hs.2.2]
      simp only [toks]
      rw [evalOp_monadic M _ _ _ _ (wrapT_length_pos _ e) (rows.unDy u (UnOp.mem_all u)),
        evalToks_wrap_need M ok e ih _ k (by omega)]
      simp only [evalWith]
      generalize evalWith (semOf M) e = re
      cases re <;> rfl
  | bin o l r ihl ihr =>
    intro n hn
    simp only [need] at hn
    match n, hn with
    | 0, h => omega
    | k + 1, hk =>
      show evalStep M (evalToks M k) (toks (.bin o l r)) = _
      have hs := scan_root_bin ok o l r
      have ha : isAtom (toks (.bin o l r)) = none :=
        isAtom_none_of_length (by
          have := wrapT_length_pos (decide (o.rank ≤ r.rootRank)) r
          simp [toks]; omega)
      unfold evalStep
      rw [ha]
      simp only []
      rw [if_neg (fun h => h hs.1), if_pos (by rw [hs.2.1]; exact idx_ne_zero ok (.b o)), hs.2.1, hs.2.2]
      simp only [toks]
      rw [evalOp_dyadic M _ _ _ _ _ (wrapT_length_pos _ l) (wrapT_length_pos _ r) (rows.binDy o (BinOp.mem_all o)),
        evalToks_wrap_need M ok r ihr _ k (by omega), evalToks_wrap_need M ok l ihl _ k (by omega)]
      simp only [evalWith]
      generalize evalWith (semOf M) r = rr
      generalize evalWith (semOf M) l = rl
      cases rr <;> cases rl <;> rfl
  | fn1 f a iha =>
    intro n hn
    simp only [need] at hn
    match n, hn with
    | 0, h => omega
    | k + 1, hk =>
      show evalStep M (evalToks M k) (toks (.fn1 f a)) = _
      have h : toks (.fn1 f a) = [.name f.name] ++ ([.lp] ++ toks a ++ [.rp]) := by simp [toks]
      rw [h, evalStep_call M _ _ (scan_toks prioOf ok a).toBal, upName_fn]
      simp only [evalArgs, splitComma_arg_last, iha k (by omega), evalWith]
      generalize evalWith (semOf M) a = ra
      cases ra <;> rfl
  | fn2 f a b iha ihb =>
    intro n hn
    simp only [need] at hn
    match n, hn with
    | 0, h => omega
    | k + 1, hk =>
      show evalStep M (evalToks M k) (toks (.fn2 f a b)) = _
      have h : toks (.fn2 f a b) = [.name f.name] ++ ([.lp] ++ (toks a ++ [.comma] ++ toks b) ++ [.rp]) := by
        simp [toks]
      have hbal : BalAll prioOf (toks a ++ [.comma] ++ toks b) :=
        ((scan_toks prioOf ok a).toBal.append prioOf (balAll_comma prioOf)).append prioOf (scan_toks prioOf ok b).toBal
      rw [h, evalStep_call M _ _ hbal, upName_fn]
      simp only [evalArgs, splitComma_arg_more, splitComma_arg_last, iha k (by omega), ihb k (by omega), evalWith]
      generalize evalWith (semOf M) a = ra
      generalize evalWith (semOf M) b = rb
      cases ra <;> cases rb <;> rfl
  | fn3 f a b c iha ihb ihc =>
    intro n hn
    simp only [need] at hn
    match n, hn with
    | 0, h => omega
    | k + 1, hk =>
      show evalStep M (evalToks M k) (toks (.fn3 f a b c)) = _
      have h : toks (.fn3 f a b c) =
          [.name f.name] ++ ([.lp] ++ (toks a ++ [.comma] ++ (toks b ++ [.comma] ++ toks c)) ++ [.rp]) := by
        simp [toks]
      have hbal : BalAll prioOf (toks a ++ [.comma] ++ (toks b ++ [.comma] ++ toks c)) :=
        ((scan_toks prioOf ok a).toBal.append prioOf (balAll_comma prioOf)).append prioOf
          (((scan_toks prioOf ok b).toBal.append prioOf (balAll_comma prioOf)).append prioOf (scan_toks prioOf ok c).toBal)
      rw [h, evalStep_call M _ _ hbal, upName_fn]
      simp only [evalArgs, splitComma_arg_more, splitComma_arg_last, iha k (by omega), ihb k (by omega),
        ihc k (by omega), evalWith]
      generalize evalWith (semOf M) a = ra
      generalize evalWith (semOf M) b = rb
      generalize evalWith (semOf M) c = rc
      cases ra <;> cases rb <;> cases rc <;> rfl

end Main

theorem need_le_length (f : Formula) : need f ≤ (toks f).length := by
  induction f with
  | lit v => simp [need, toks]
  | sc dq items => simp [need, toks]
  | un u e ih => cases hb : decide (u.rank ≤ e.rootRank) <;> simp [need, toks, wrapT, wb, hb] <;> omega
  | bin o l r ihl ihr =>
    cases hb : decide (o.rank < l.rootRank) <;> cases hc : decide (o.rank ≤ r.rootRank) <;>
      simp [need, toks, wrapT, wb, hb, hc] <;> omega
  | fn1 f a iha => simp [need, toks]; omega
  | fn2 f a b iha ihb => simp [need, toks]; omega
  | fn3 f a b c iha ihb ihc => simp [need, toks]; omega


/-- **the model of `EvalExpression` on the rendered text** -/
theorem evalStr_render (ok : TableOK prioOf) (rows : RowsOK) (q : Quirks) (f : Formula) (hf : IntF f) :
    evalStr q (render f) = evalWith (semOf (modelM q)) f := by
  show evalToks (modelM q) ((lexW (evalStrN q 3) (render f)).length + 2) (lexW (evalStrN q 3) (render f)) = _
  rw [lexW_render _ f hf]
  exact evalToks_toks_need (modelM q) ok rows f _ (by have := need_le_length f; omega)

end AslModel.Expr.Lex
