import AslModel.Model.CodePage
/-! Helper lemmas for `Props/C09_Pages.lean`: `strcmp` is a strict total order on byte strings, the sorted chain
of `CodeCODEPAGE` behaves like a finite map, `CodeCHARSET` computes the manual's table. -/
namespace AslModel.CodePageLemmas
open AslModel.PFile (Byte b)
open AslModel.Data AslModel.DataX AslModel.DataXModel AslModel.CodePage AslModel.CodePageModel

/-! ## strcmp -/

theorem strcmp_refl (a : Name) : strcmp a a = .eq := by
  induction a with
  | nil => rfl
  | cons x xs ih => simp [strcmp, ih]

theorem strcmp_eq_iff (a c : Name) : strcmp a c = .eq ↔ a = c := by
  induction a generalizing c with
  | nil => cases c <;> simp [strcmp]
  | cons x xs ih =>
    cases c with
    | nil => simp [strcmp]
    | cons y ys =>
      simp only [strcmp]
      by_cases h1 : x < y
      · simp [h1]; omega
      · by_cases h2 : y < x
        · simp [h1, h2]; omega
        · have : x = y := by omega
          simp [ih, this]

theorem strcmp_gt_iff (a c : Name) : strcmp a c = .gt ↔ strcmp c a = .lt := by
  induction a generalizing c with
  | nil => cases c <;> simp [strcmp]
  | cons x xs ih =>
    cases c with
    | nil => simp [strcmp]
    | cons y ys =>
      simp only [strcmp]
      by_cases h1 : x < y
      · have h2 : ¬ y < x := by omega
        simp [h1, h2]
      · by_cases h2 : y < x
        · simp [h1, h2]
        · simp [h1, h2, ih]

theorem strcmp_lt_trans (a c d : Name) (h1 : strcmp a c = .lt) (h2 : strcmp c d = .lt) : strcmp a d = .lt := by
  induction a generalizing c d with
  | nil =>
    cases c with
    | nil => simp [strcmp] at h1
    | cons y ys => cases d with
      | nil => simp [strcmp] at h2
      | cons z zs => simp [strcmp]
  | cons x xs ih =>
    cases c with
    | nil => simp [strcmp] at h1
    | cons y ys =>
      cases d with
      | nil => simp [strcmp] at h2
      | cons z zs =>
        simp only [strcmp] at h1 h2 ⊢
        by_cases hxy : x < y
        · by_cases hyz : y < z
          · have : x < z := by omega
            simp [this]
          · by_cases hzy : z < y
            · simp [hyz, hzy] at h2
            · have : y = z := by omega
              subst this
              simp [hxy]
        · by_cases hyx : y < x
          · simp [hxy, hyx] at h1
          · have hxy' : x = y := by omega
            subst hxy'
            simp only [hxy, ite_false] at h1
            by_cases hyz : x < z
            · simp [hyz]
            · by_cases hzy : z < x
              · simp [hyz, hzy] at h2
              · simp only [hyz, hzy, ite_false] at h2 ⊢
                exact ih ys zs h1 h2

theorem strcmp_lt_irrefl (a : Name) : strcmp a a ≠ .lt := by
  rw [strcmp_refl]; decide

/-! ## the chain as a finite map -/

/-- `n` sorts in front of every name of the chain -/
def Below (n : Name) : List TransTable → Prop
  | [] => True
  | r :: rest => strcmp n r.name = .lt ∧ Below n rest

/-- strictly ascending names -/
def Sorted : List TransTable → Prop
  | [] => True
  | r :: rest => Below r.name rest ∧ Sorted rest

theorem below_trans (m n : Name) (ts : List TransTable) (h : strcmp m n = .lt) (hb : Below n ts) : Below m ts := by
  induction ts with
  | nil => trivial
  | cons r rest ih => exact ⟨strcmp_lt_trans m n r.name h hb.1, ih hb.2⟩

theorem find_below (n : Name) (ts : List TransTable) (hb : Below n ts) : findTable ts n = none := by
  induction ts with
  | nil => rfl
  | cons r rest ih =>
    have hne : strcmp r.name n ≠ .eq := by
      intro he
      have := (strcmp_eq_iff _ _).1 he
      have h1 := hb.1
      rw [this] at h1
      exact strcmp_lt_irrefl n h1
    simp [findTable, hne, ih hb.2]

theorem find_name (ts : List TransTable) (n : Name) (r : TransTable) (h : findTable ts n = some r) : r.name = n := by
  induction ts with
  | nil => simp [findTable] at h
  | cons x rest ih =>
    simp only [findTable] at h
    by_cases he : strcmp x.name n = .eq
    · simp only [he, ite_true, Option.some.injEq] at h
      rw [← h]; exact (strcmp_eq_iff _ _).1 he
    · simp only [he, ite_false] at h
      exact ih h

/-- what `CodeCODEPAGE`'s search-and-link loop does to the map -/
theorem find_link (name : Name) (src : List Byte) (ts : List TransTable) (hs : Sorted ts) (k : Name) :
    findTable (linkTable name src ts) k =
      if k = name then (match findTable ts name with | some r => some r | none => some ⟨name, src⟩)
      else findTable ts k := by
  induction ts with
  | nil =>
    by_cases hk : k = name
    · subst hk; simp [linkTable, findTable, strcmp_refl]
    · have : strcmp name k ≠ .eq := fun he => hk ((strcmp_eq_iff _ _).1 he).symm
      simp [linkTable, findTable, hk, this]
  | cons r rest ih =>
    simp only [linkTable]
    cases hc : strcmp name r.name with
    | lt =>
      -- `name` sorts in front of the whole chain: it is not in it
      have hb : Below name (r :: rest) := ⟨hc, below_trans name r.name rest hc hs.1⟩
      have hnone := find_below name (r :: rest) hb
      by_cases hk : k = name
      · subst hk; rw [hnone]; simp [findTable, strcmp_refl]
      · have : strcmp name k ≠ .eq := fun he => hk ((strcmp_eq_iff _ _).1 he).symm
        simp [findTable, hk, this]
    | eq =>
      have hn : name = r.name := (strcmp_eq_iff _ _).1 hc
      by_cases hk : k = name
      · subst hk
        have : strcmp r.name k = .eq := by rw [hn]; exact strcmp_refl _
        simp [findTable, this]
      · simp [hk]
    | gt =>
      have hne : strcmp r.name name ≠ .eq := by
        intro he
        have := (strcmp_eq_iff _ _).1 he
        rw [this, strcmp_refl] at hc
        cases hc
      by_cases hk : k = name
      · subst hk
        simp only [findTable, hne, ite_false, ite_true]
        rw [ih hs.2]; simp
      · simp only [findTable, hk, ite_false]
        by_cases hr : strcmp r.name k = .eq
        · simp [hr]
        · simp only [hr, ite_false]
          rw [ih hs.2]; simp [hk]

theorem below_link (m name : Name) (src : List Byte) (ts : List TransTable) (hm : strcmp m name = .lt) (hb : Below m ts) :
    Below m (linkTable name src ts) := by
  induction ts with
  | nil => exact ⟨hm, trivial⟩
  | cons r rest ih =>
    simp only [linkTable]
    cases hc : strcmp name r.name with
    | lt => exact ⟨hm, hb⟩
    | eq => exact hb
    | gt => exact ⟨hb.1, ih hb.2⟩

theorem sorted_link (name : Name) (src : List Byte) (ts : List TransTable) (hs : Sorted ts) : Sorted (linkTable name src ts) := by
  induction ts with
  | nil => exact ⟨trivial, trivial⟩
  | cons r rest ih =>
    simp only [linkTable]
    cases hc : strcmp name r.name with
    | lt => exact ⟨⟨hc, below_trans name r.name rest hc hs.1⟩, hs⟩
    | eq => exact hs
    | gt =>
      have : strcmp r.name name = .lt := (strcmp_gt_iff _ _).1 hc
      exact ⟨below_link r.name name src rest this hs.1, ih hs.2⟩

/-- what an assignment through `CharTransTable` does to the map -/
theorem find_store (n : Name) (t : List Byte) (ts : List TransTable) (k : Name) :
    findTable (storeTable n t ts) k =
      if k = n then (findTable ts n).map (fun r => { r with table := t }) else findTable ts k := by
  induction ts with
  | nil => simp [storeTable, findTable]
  | cons r rest ih =>
    simp only [storeTable]
    by_cases hr : strcmp r.name n = .eq
    · have hn : r.name = n := (strcmp_eq_iff _ _).1 hr
      by_cases hk : k = n
      · subst hk; simp [findTable, hr]
      · have : strcmp r.name k ≠ .eq := fun he => hk (by rw [← (strcmp_eq_iff _ _).1 he, hn])
        simp [findTable, hr, hk, this]
    · simp only [hr, ite_false, findTable]
      by_cases hk : k = n
      · subst hk; simp only [hr, ite_false, ite_true]; rw [ih]; simp
      · by_cases hrk : strcmp r.name k = .eq
        · simp [hrk, hk]
        · simp only [hrk, ite_false, hk]; rw [ih]; simp [hk]

theorem below_store (m n : Name) (t : List Byte) (ts : List TransTable) (hb : Below m ts) : Below m (storeTable n t ts) := by
  induction ts with
  | nil => trivial
  | cons r rest ih =>
    simp only [storeTable]
    by_cases hr : strcmp r.name n = .eq
    · simp only [hr, ite_true]; exact ⟨hb.1, hb.2⟩
    · simp only [hr, ite_false]; exact ⟨hb.1, ih hb.2⟩

theorem sorted_store (n : Name) (t : List Byte) (ts : List TransTable) (hs : Sorted ts) : Sorted (storeTable n t ts) := by
  induction ts with
  | nil => trivial
  | cons r rest ih =>
    simp only [storeTable]
    by_cases hr : strcmp r.name n = .eq
    · simp only [hr, ite_true]; exact ⟨hs.1, hs.2⟩
    · simp only [hr, ite_false]; exact ⟨below_store r.name n t rest hs.1, ih hs.2⟩

/-! ## CodeCHARSET computes the manual's table -/

theorem upString_eq_fold (n : Name) : upString n = foldName false n := rfl

theorem tableInit_eq : tableInit = identityMap := rfl

/-- a counting loop of assignments `T[s + k] = f k`, `k < n` -/
theorem loop_get (f : Nat → Byte) (s n : Nat) (t : List Byte) (i : Nat) :
    ((List.range n).foldl (fun t k => t.set (s + k) (f k)) t)[i]? =
      if s ≤ i ∧ i < s + n ∧ i < t.length then some (f (i - s)) else t[i]? := by
  induction n with
  | zero =>
    have : ¬ (s ≤ i ∧ i < s + 0 ∧ i < t.length) := by omega
    simp only [List.range_zero, List.foldl_nil]
    rw [if_neg this]
  | succ n ih =>
    have hlen : ((List.range n).foldl (fun t k => t.set (s + k) (f k)) t).length = t.length := by
      clear ih
      induction n with
      | zero => rfl
      | succ m ihm => rw [List.range_succ, List.foldl_append]; simp [ihm]
    rw [List.range_succ, List.foldl_append]
    simp only [List.foldl_cons, List.foldl_nil]
    rw [List.getElem?_set, hlen, ih]
    by_cases h1 : s + n = i
    · subst h1
      by_cases h2 : s + n < t.length
      · rw [if_pos rfl, if_pos h2, if_pos (by omega), Nat.add_sub_cancel_left]
      · rw [if_pos rfl, if_neg h2, if_neg (by omega)]
        exact (List.getElem?_eq_none (by omega)).symm
    · rw [if_neg h1]
      by_cases h2 : s ≤ i ∧ i < s + n ∧ i < t.length
      · rw [if_pos h2, if_pos (by omega)]
      · rw [if_neg h2, if_neg (by omega)]

theorem map_range_get (g : Nat → Byte) (i : Nat) : ((List.range 256).map g)[i]? = if i < 256 then some (g i) else none := by
  by_cases h : i < 256
  · simp [h]
  · simp [h]

theorem getD_of_len (t : List Byte) (hl : t.length = 256) (i : Nat) (hi : i < 256) (d : Byte) : some (t.getD i d) = t[i]? := by
  have : i < t.length := by omega
  simp [List.getD, List.getElem?_eq_getElem this]

/-- a statement the real assembler accepts: the string form needs room for the string -/
def validCs : CsOp → Prop
  | .str i cs => i + cs.length ≤ 256
  | _ => True

/-- `CodeCHARSET` = the table the manual describes, for every 256-entry table and every accepted statement -/
theorem modelCharset_eq_spec (t : List Byte) (hl : t.length = 256) (o : CsOp) (hv : validCs o) :
    modelCharset t o = specCharset t o := by
  apply List.ext_getElem?
  intro i
  cases o with
  | reset =>
    simp only [modelCharset, specCharset, identityMap]
    have := loop_get (fun z => b z) 0 256 t i
    simp only [Nat.zero_add] at this
    rw [this, map_range_get]
    by_cases hi : i < 256
    · have : 0 ≤ i ∧ i < 256 ∧ i < t.length := by omega
      simp [hi, this]
    · have : ¬ (0 ≤ i ∧ i < 256 ∧ i < t.length) := by omega
      simp only [hi, ite_false]
      exact List.getElem?_eq_none (by omega)
  | range start stop tstart =>
    simp only [modelCharset, specCharset]
    rw [loop_get (fun k => b (tstart + k)) start (stop + 1 - start) t i, map_range_get]
    by_cases hi : i < 256
    · by_cases hr : start ≤ i ∧ i ≤ stop
      · have : start ≤ i ∧ i < start + (stop + 1 - start) ∧ i < t.length := by omega
        simp [hi, hr, this]
      · have : ¬ (start ≤ i ∧ i < start + (stop + 1 - start) ∧ i < t.length) := by omega
        simp only [hi, hr, this, ite_false, ite_true]
        exact (getD_of_len t hl i hi _).symm
    · have : ¬ (start ≤ i ∧ i < start + (stop + 1 - start) ∧ i < t.length) := by omega
      simp only [hi, this, ite_false]
      exact List.getElem?_eq_none (by omega)
  | one start v =>
    simp only [modelCharset, specCharset]
    rw [List.getElem?_set, map_range_get]
    by_cases hi : i < 256
    · by_cases he : start = i
      · subst he
        have : start < t.length := by omega
        simp [hi, this]
      · have he' : ¬ i = start := fun h => he h.symm
        simp only [he, he', hi, ite_false, ite_true]
        exact (getD_of_len t hl i hi _).symm
    · have he : ¬ start = i ∨ ¬ start < t.length := by omega
      simp only [hi, ite_false]
      by_cases h1 : start = i
      · subst h1
        have : ¬ start < t.length := by omega
        simp [this]
      · simp only [h1, ite_false]
        exact List.getElem?_eq_none (by omega)
  | str start cs =>
    have hv' : start + cs.length ≤ 256 := hv
    have hnot : ¬ start + cs.length > 256 := by omega
    simp only [modelCharset, specCharset, hnot, ite_false]
    rw [loop_get (fun z => cs.getD z 0) start cs.length t i, map_range_get]
    by_cases hi : i < 256
    · by_cases hr : start ≤ i ∧ i < start + cs.length
      · have : start ≤ i ∧ i < start + cs.length ∧ i < t.length := by omega
        simp [hi, hr, this]
      · have : ¬ (start ≤ i ∧ i < start + cs.length ∧ i < t.length) := by omega
        simp only [hi, hr, this, ite_false, ite_true]
        exact (getD_of_len t hl i hi _).symm
    · have : ¬ (start ≤ i ∧ i < start + cs.length ∧ i < t.length) := by omega
      simp only [hi, this, ite_false]
      exact List.getElem?_eq_none (by omega)

theorem specCharset_length (t : CharMap) (o : CsOp) : (specCharset t o).length = 256 := by
  cases o <;> simp [specCharset, identityMap]

/-! ## histories -/

theorem run_append (cs : Bool) (h1 h2 : List Op) (ps : Pages) :
    run cs ps (h1 ++ h2) = run cs ps h1 ++ run cs (runState cs ps h1) h2 := by
  induction h1 generalizing ps with
  | nil => rfl
  | cons o r ih => simp [run, runState, ih]

/-! ## the chain of the C code denotes the specification's state -/

/-- the statement of the specification that corresponds to a statement of the model (same names, same `CHARSET`
arguments; `f` says which documented configuration a data slot's target has) -/
def specOf (f : MSlot → Slot) : MOp → Op
  | .page n s => .page n s
  | .charset o => .charset o
  | .save => .save
  | .restore => .restore
  | .data s => .data (f s)

def validOp : MOp → Prop
  | .charset o => validCs o
  | _ => True

/-- the chain of tables and the pointers of the C code denote the specification's state -/
structure Rel (st : St) (ps : Pages) : Prop where
  tabs : ∀ n, (findTable st.transTables n).map (·.table) = ps.tab n
  curr : st.curr = ps.active
  saves : st.saves = ps.saved
  sorted : Sorted st.transTables
  len : ∀ n t, ps.tab n = some t → t.length = 256
  act : ∃ t, ps.tab ps.active = some t
  sav : ∀ n, n ∈ ps.saved → ∃ t, ps.tab n = some t

theorem rel_init : Rel initPass Pages.start := by
  refine ⟨?_, rfl, rfl, ⟨trivial, trivial⟩, ?_, ⟨identityMap, by simp [Pages.start]⟩, by simp [Pages.start]⟩
  · intro n
    by_cases h : n = standard
    · subst h; simp [initPass, findTable, strcmp_refl, Pages.start, tableInit_eq]
    · have : strcmp standard n ≠ .eq := fun he => h ((strcmp_eq_iff _ _).1 he).symm
      simp [initPass, findTable, this, Pages.start, h]
  · intro n t ht
    simp only [Pages.start] at ht
    split at ht
    · cases ht; simp [identityMap]
    · cases ht

theorem rel_cur (st : St) (ps : Pages) (r : Rel st ps) : charTransTable st = ps.cur := by
  have h := r.tabs st.curr
  rw [r.curr] at h
  unfold charTransTable Pages.cur
  rw [r.curr]
  cases hf : findTable st.transTables ps.active with
  | none => rw [hf] at h; simp at h; rw [← h]; rfl
  | some x => rw [hf] at h; simp at h; rw [← h]; rfl

def eraseM : MObs → Obs
  | .accepted => .accepted
  | .rejected => .rejected
  | .slot _ => .cells none

def eraseS : Obs → Obs
  | .cells _ => .cells none
  | o => o

theorem foldArg_eq (cs : Bool) (n : Name) : foldArg cs n = foldName cs n := by
  cases cs <;> rfl

theorem foldArg_opt (cs : Bool) (n : Option Name) : n.map (foldArg cs) = n.map (foldName cs) := by
  cases n <;> simp [foldArg_eq]

theorem rel_source (st : St) (ps : Pages) (r : Rel st ps) (a : Option Name) :
    (sourceTable st a).map TransTable.table = sourceTab ps a := by
  cases a with
  | none => simpa [sourceTable, sourceTab, r.curr] using r.tabs st.curr
  | some s => simpa [sourceTable, sourceTab] using r.tabs s

/-- one statement keeps the relation, and the model rejects exactly what the specification rejects -/
theorem rel_step (cs : Bool) (f : MSlot → Slot) (st : St) (ps : Pages) (r : Rel st ps) (op : MOp) (hv : validOp op) :
    Rel (mstep cs st op).1 (step cs ps (specOf f op)).1 ∧ eraseM (mstep cs st op).2 = eraseS (step cs ps (specOf f op)).2 := by
  cases op with
  | page n src =>
    simp only [mstep, specOf, step, codeCODEPAGE, foldArg_eq, foldArg_opt]
    have hsrc := rel_source st ps r (src.map (foldName cs))
    cases hm : sourceTable st (src.map (foldName cs)) with
    | none =>
      rw [hm] at hsrc
      have hs : stepPage ps (foldName cs n) (src.map (foldName cs)) = none := by
        simp only [stepPage, ← hsrc, Option.map_none]
      simp only [hs]
      exact ⟨r, rfl⟩
    | some sr =>
      rw [hm] at hsrc
      simp only [Option.map_some] at hsrc
      have hn := r.tabs (foldName cs n)
      cases hex : ps.tab (foldName cs n) with
      | some told =>
        have hs : stepPage ps (foldName cs n) (src.map (foldName cs)) = some { ps with active := foldName cs n } := by
          simp only [stepPage, ← hsrc, hex]
        simp only [hs]
        refine ⟨⟨?_, rfl, r.saves, sorted_link _ _ _ r.sorted, r.len, ⟨told, hex⟩, r.sav⟩, rfl⟩
        intro k
        simp only
        rw [find_link _ _ _ r.sorted]
        by_cases hk : k = foldName cs n
        · subst hk
          rw [hex] at hn
          cases hf : findTable st.transTables (foldName cs n) with
          | none => rw [hf] at hn; cases hn
          | some x => rw [hf] at hn; simpa [hex] using hn
        · simp [hk, r.tabs k]
      | none =>
        have hs : stepPage ps (foldName cs n) (src.map (foldName cs)) =
            some { (ps.set (foldName cs n) sr.table) with active := foldName cs n } := by
          simp only [stepPage, ← hsrc, hex]
        simp only [hs]
        have hlen : sr.table.length = 256 := by
          cases hsm : src.map (foldName cs) with
          | none => rw [hsm] at hsrc; exact r.len _ _ hsrc.symm
          | some s => rw [hsm] at hsrc; exact r.len _ _ hsrc.symm
        refine ⟨⟨?_, rfl, r.saves, sorted_link _ _ _ r.sorted, ?_, ⟨sr.table, by simp [Pages.set]⟩, ?_⟩, rfl⟩
        · intro k
          simp only
          rw [find_link _ _ _ r.sorted]
          by_cases hk : k = foldName cs n
          · subst hk
            rw [hex] at hn
            cases hf : findTable st.transTables (foldName cs n) with
            | none => simp [Pages.set]
            | some x => rw [hf] at hn; cases hn
          · simp [hk, r.tabs k, Pages.set]
        · intro k t ht
          simp only [Pages.set] at ht
          by_cases hk : k = foldName cs n
          · simp only [hk, ite_true, Option.some.injEq] at ht; rw [← ht]; exact hlen
          · simp only [hk, ite_false] at ht; exact r.len k t ht
        · intro k hk
          obtain ⟨t, ht⟩ := r.sav k hk
          by_cases hkn : k = foldName cs n
          · exact ⟨sr.table, by simp [Pages.set, hkn]⟩
          · exact ⟨t, by simp [Pages.set, hkn, ht]⟩
  | charset o =>
    simp only [mstep, specOf, step, codeCHARSET, stepCharset]
    obtain ⟨ta, hta⟩ := r.act
    have hcur := rel_cur st ps r
    have hcl : ps.cur.length = 256 := by
      unfold Pages.cur; rw [hta]; exact r.len _ _ hta
    have hmc : modelCharset (charTransTable st) o = specCharset ps.cur o := by
      rw [hcur]; exact modelCharset_eq_spec _ hcl o hv
    refine ⟨⟨?_, r.curr, r.saves, sorted_store _ _ _ r.sorted, ?_, ⟨specCharset ps.cur o, by simp [Pages.set]⟩, ?_⟩, rfl⟩
    · intro k
      simp only
      rw [find_store, hmc, r.curr]
      by_cases hk : k = ps.active
      · subst hk
        have hn := r.tabs ps.active
        rw [hta] at hn
        cases hf : findTable st.transTables ps.active with
        | none => rw [hf] at hn; cases hn
        | some x => simp [Pages.set]
      · simp [hk, r.tabs k, Pages.set]
    · intro k t ht
      simp only [Pages.set] at ht
      by_cases hk : k = ps.active
      · simp only [hk, ite_true, Option.some.injEq] at ht; rw [← ht]; exact specCharset_length _ _
      · simp only [hk, ite_false] at ht; exact r.len k t ht
    · intro k hk
      obtain ⟨t, ht⟩ := r.sav k hk
      by_cases hkn : k = ps.active
      · exact ⟨specCharset ps.cur o, by simp [Pages.set, hkn]⟩
      · exact ⟨t, by simp [Pages.set, hkn, ht]⟩
  | save =>
    simp only [mstep, specOf, step, codeSAVE]
    refine ⟨⟨r.tabs, r.curr, by simp [r.curr, r.saves], r.sorted, r.len, r.act, ?_⟩, rfl⟩
    intro k hk
    simp only [List.mem_cons] at hk
    cases hk with
    | inl h => rw [h]; exact r.act
    | inr h => exact r.sav k h
  | restore =>
    simp only [mstep, specOf, step, codeRESTORE]
    have hsv := r.saves
    cases hs : ps.saved with
    | nil =>
      rw [hs] at hsv
      simp only [hsv]
      exact ⟨r, rfl⟩
    | cons x rest =>
      rw [hs] at hsv
      simp only [hsv]
      refine ⟨⟨r.tabs, rfl, rfl, r.sorted, r.len, ?_, ?_⟩, rfl⟩
      · exact r.sav x (by rw [hs]; exact List.mem_cons_self)
      · intro k hk
        exact r.sav k (by rw [hs]; exact List.mem_cons_of_mem _ hk)
  | data s =>
    simp only [mstep, specOf, step]
    exact ⟨r, rfl⟩

end AslModel.CodePageLemmas
