import AslModel.Model.Dis.M87C
import AslModel.Lemmas.DisRetrieve
/-! Helper lemmas for the TLCS-870 part of C15 (`Model/Dis/M87C.lean`): operand-count facts decided over the complete case tables
(`form1` over all 256 first bytes, `formMem` over all 256 second bytes, `formReg` over 8 registers × 256 second bytes), bytes
returned by `RetrieveData`, and the length `raw` reports in terms of the two opcode bytes (`lenOf`). -/
namespace AslModel.Dis.M87C
open AslModel.Dis

/-! ### the case tables -/

def form1Ok (op : Nat) : Bool :=
  match form1 op with
  | .plain f => decide (f.n ≤ 3) && (f.jump != .vec || f.n == 0)
  | .mem n _ => decide (n ≤ 1)
  | .reg src => decide (src < 8)
  | .unknown => true

def formMemOk (op : Nat) : Bool :=
  match formMem op with
  | some f => decide (f.n ≤ 1)
  | none => true

def formRegOk (src op : Nat) : Bool :=
  match formReg src op with
  | .ok f => decide (f.n ≤ 2)
  | _ => true

theorem form1_ok : ∀ op, op < 256 → form1Ok op = true := by decide +kernel
theorem formMem_ok : ∀ op, op < 256 → formMemOk op = true := by decide +kernel
theorem formReg_ok : ∀ src, src < 8 → ∀ op, op < 256 → formRegOk src op = true := by decide +kernel

/-- the length the two opcode bytes decide is at most 4 -/
theorem lenOf_le (op op2 : Nat) (h1 : op < 256) (h2 : op2 < 256) : lenOf op op2 ≤ 4 := by
  have a := form1_ok op h1
  have b := formMem_ok op2 h2
  unfold lenOf
  unfold form1Ok at a
  unfold formMemOk at b
  cases hf : form1 op with
  | unknown => simp
  | plain f => simp [hf] at a ⊢; omega
  | mem n k =>
    simp [hf] at a
    cases hm : formMem op2 with
    | none => simp; omega
    | some f => simp [hm] at b ⊢; omega
  | reg src =>
    simp [hf] at a
    have c := formReg_ok src a op2 h2
    unfold formRegOk at c
    cases hr : formReg src op2 with
    | ok f => simp [hr] at c ⊢; omega
    | unknown => simp [hr]

/-! ### `RetrieveData` -/

/-- a request that `RetrieveData` answers ends inside the address space, was answered by `RetrieveCodeFromChunkList` with exactly
these bytes, and no message was written (since the repair of deco87c800.c: no continuation at address 0 behind 0FFFFh) -/
theorem retrieveData_some (img : Image) (lower : Bool) (a count : Nat) (ds : List Nat) (e : List String)
    (h : retrieveData img lower a count = (some ds, e)) :
    a + count ≤ 0x10000 ∧ e = [] ∧ ∃ bs, retrieve img a count = some bs ∧ ds = bs.map UInt8.toNat := by
  unfold retrieveData at h
  by_cases hb : a + count > 0x10000
  · simp [hb] at h
  · simp only [hb, if_false] at h
    cases hr : retrieve img a count with
    | none => simp [hr] at h
    | some bs =>
      simp only [hr, Prod.mk.injEq, Option.some.injEq] at h
      exact ⟨by omega, h.2.symm, bs, rfl, h.1.symm⟩

theorem retrieveData_lt (img : Image) (lower : Bool) (a count : Nat) (bs : List Nat) (e : List String)
    (h : retrieveData img lower a count = (some bs, e)) : ∀ b ∈ bs, b < 256 := by
  obtain ⟨_, _, us, _, rfl⟩ := retrieveData_some img lower a count bs e h
  intro b hb
  obtain ⟨u, _, rfl⟩ := List.mem_map.mp hb
  exact u.toNat_lt

theorem getD_lt (bs : List Nat) (h : ∀ b ∈ bs, b < 256) (i : Nat) : bs.getD i 0 < 256 := by
  rw [List.getD_eq_getElem?_getD]
  cases hg : bs[i]? with
  | none => simp
  | some x => simp; exact h x (List.mem_of_getElem? hg)

/-- a request that reaches beyond the end of the 64K address space fails with the message, whatever the image holds -/
theorem retrieveData_beyond (img : Image) (lower : Bool) (a count : Nat) (h : a + count > 0x10000) :
    retrieveData img lower a count = (none, ["cannot retrieve code @ 0x" ++ hexString lower a 0]) := by
  simp [retrieveData, h]

/-- one byte below the end of the address space: `RetrieveData` is `RetrieveCodeFromChunkList` (for `a ≥ 0x10000` the result is the
failure message: `retrieveData_beyond`) -/
theorem retrieveData_one (img : Image) (lower : Bool) (a : Nat) (ha : a < 0x10000) :
    retrieveData img lower a 1 =
      match retrieve img a 1 with
      | none => (none, ["cannot retrieve code @ 0x" ++ hexString lower a 0])
      | some bs => (some (bs.map UInt8.toNat), []) := by
  have : ¬ (a + 1 > 0x10000) := by omega
  simp only [retrieveData, this, if_false]
  cases retrieve img a 1 <;> rfl

/-- one byte at 0x10000 (where the loop of the former `RetrieveData` continued at address 0) is not fetched, whatever lies at
address 0 -/
theorem retrieveData_no_wrap (img : Image) (lower : Bool) : (retrieveData img lower 0x10000 1).1 = none := by
  rw [retrieveData_beyond img lower 0x10000 1 (by omega)]

/-- the bytes of a request `RetrieveData` answers are bytes of the loaded image and addresses of the 64K address space - for every
image (the former hypothesis "the byte lies below 0x10000, or address 0 is not loaded" is gone with the wrap) -/
theorem retrieveData_inImage (img : Image) (lower : Bool) (y n : Nat) (ds : List Nat) (e : List String)
    (h : retrieveData img lower y n = (some ds, e)) :
    ∀ k, k < n → inImage img (y + k) ∧ y + k < 0x10000 := by
  intro k hk
  obtain ⟨hle, _, bs, hr, _⟩ := retrieveData_some img lower y n ds e h
  exact ⟨(retrieve_some img y n bs hr).2 k hk, by omega⟩

end AslModel.Dis.M87C

namespace AslModel.Dis.M87C
open AslModel.Dis

/-! ### the length `raw` reports -/

/-- a failed request writes a message (exactly one line, with the first address of the request) -/
theorem retrieveData_none_msg' (img : Image) (lower : Bool) (a count : Nat) (e : List String)
    (h : retrieveData img lower a count = (none, e)) : e = ["cannot retrieve code @ 0x" ++ hexString lower a 0] := by
  unfold retrieveData at h
  by_cases hb : a + count > 0x10000
  · simp only [hb, if_true, Prod.mk.injEq, true_and] at h; exact h.symm
  · simp only [hb, if_false] at h
    cases hr : retrieve img a count with
    | none => simp only [hr, Prod.mk.injEq, true_and] at h; exact h.symm
    | some bs => simp [hr] at h

theorem retrieveData_none_msg (img : Image) (lower : Bool) (a count : Nat) (e : List String)
    (h : retrieveData img lower a count = (none, e)) : e ≠ [] := by
  rw [retrieveData_none_msg' img lower a count e h]; simp

theorem finish_len (lower : Bool) (syms : Syms) (a op pl : Nat) (f : Form) (data : List Nat) (pfx : String) (v : Option Nat) :
    (finish lower syms a op pl f data pfx v).1.len = pl + f.n := by
  unfold finish
  simp only

/-- selector result → length -/
def selLen (pl : Nat) : RegSel → Nat
  | .ok f => pl + 1 + f.n
  | .unknown => pl + 1

theorem prefixed_len (img : Image) (lower : Bool) (syms : Syms) (a op pl nData : Nat) (pfx what : String) (sel : Nat → RegSel) :
    ((prefixed img lower syms a op pl nData pfx what sel).info.len = 0 ∧
      (prefixed img lower syms a op pl nData pfx what sel).msgs ≠ []) ∨
    ∃ o2 e2, retrieveData img lower (a + pl) 1 = (some o2, e2) ∧
      (prefixed img lower syms a op pl nData pfx what sel).info.len = selLen pl (sel (o2.getD 0 0)) ∧
      ((prefixed img lower syms a op pl nData pfx what sel).msgs = [] →
        (prefixed img lower syms a op pl nData pfx what sel).nData = nData + (selLen pl (sel (o2.getD 0 0)) - pl)) := by
  unfold prefixed
  cases h2 : retrieveData img lower (a + pl) 1 with
  | mk o e =>
    cases o with
    | none => left; exact ⟨rfl, retrieveData_none_msg img lower _ 1 e h2⟩
    | some o2 =>
      simp only
      cases hs : sel (o2.getD 0 0) with
      | unknown =>
        right
        refine ⟨o2, e, rfl, ?_, ?_⟩
        · unfold unknownPrefixed
          simp only [selLen, hs]
          split <;> rfl
        · unfold unknownPrefixed
          simp only [hs]
          split <;> simp
      | ok f =>
        simp only
        cases h3 : retrieveData img lower (a + pl + 1) f.n with
        | mk o3 e3 =>
          cases o3 with
          | none => left; exact ⟨rfl, retrieveData_none_msg img lower _ f.n e3 h3⟩
          | some data =>
            right
            refine ⟨o2, e, rfl, ?_, ?_⟩
            · simp only [selLen, finish_len, hs]
            · intro _
              simp only [selLen, hs]
              omega

end AslModel.Dis.M87C

namespace AslModel.Dis.M87C
open AslModel.Dis

/-- no byte wanted, at or below the end of the address space: success without a fetch -/
theorem retrieveData_zero (img : Image) (lower : Bool) (a : Nat) (ha : a ≤ 0x10000) : retrieveData img lower a 0 = (some [], []) := by
  simp [retrieveData, retrieve, retrieveF]
  exact ha

/-- What `raw` reports for an instruction line (`AsData` false, `DataSize` -1): length 0 (nothing decoded), or the length the two
opcode bytes decide (length 0 only together with a message) – the first one fetched at `a`, the second one (if the first is a prefix) fetched at `a + prefixLen`; and if
no message was written (no failed fetch, no `unknown … opcode`), the byte counter `nData` equals that length. -/
theorem raw_spec (img : Image) (lower : Bool) (syms : Syms) (a : Nat) :
    ((raw img lower syms a false (-1)).info.len = 0 ∧ (raw img lower syms a false (-1)).msgs ≠ []) ∨
    ∃ ops e op, retrieveData img lower a 1 = (some ops, e) ∧ op = ops.getD 0 0 ∧
      (∃ op2, op2 < 256 ∧ (prefixLen op = 0 ∨
          ∃ o2 e2, retrieveData img lower (a + prefixLen op) 1 = (some o2, e2) ∧ op2 = o2.getD 0 0) ∧
        (raw img lower syms a false (-1)).info.len = lenOf op op2) ∧
      ((raw img lower syms a false (-1)).info.len ≠ 0 → (raw img lower syms a false (-1)).msgs = [] →
        (raw img lower syms a false (-1)).nData = (raw img lower syms a false (-1)).info.len) := by
  unfold raw
  cases h1 : retrieveData img lower a 1 with
  | mk o e =>
    cases o with
    | none => left; exact ⟨rfl, retrieveData_none_msg img lower a 1 e h1⟩
    | some ops =>
      have hop : ops.getD 0 0 < 256 := getD_lt ops (retrieveData_lt img lower a 1 ops e h1) 0
      simp only [Bool.false_eq_true, if_false]
      generalize hopd : ops.getD 0 0 = op at hop ⊢
      have hok := form1_ok op hop
      unfold form1Ok at hok
      cases hf : form1 op with
      | unknown =>
        right
        have hz := retrieveData_zero img lower (a + 1) (by have := (retrieveData_some img lower a 1 ops e h1).1; omega)
        refine ⟨ops, e, op, rfl, hopd.symm, ⟨0, by omega, Or.inl (by simp [prefixLen, hf]), ?_⟩, ?_⟩
        · simp [dataPart, hz, lenOf, hf]
        · simp [dataPart, hz]
      | plain f =>
        simp only [hf, Bool.and_eq_true, decide_eq_true_eq, Bool.or_eq_true, bne_iff_ne, ne_eq, beq_iff_eq] at hok
        simp only
        by_cases hv : f.jump = .vec
        · have hn : f.n = 0 := by
            rcases hok.2 with h | h
            · exact absurd hv h
            · exact h
          simp only [hv, if_true]
          cases h2 : retrieveData img lower (0xffc0 + 2 * (op % 16)) 2 with
          | mk o2 e2 =>
            cases o2 with
            | some w =>
              right
              refine ⟨ops, e, op, rfl, hopd.symm, ⟨0, by omega, Or.inl (by simp [prefixLen, hf]), ?_⟩, ?_⟩
              · simp [finish_len, lenOf, hf]
              · simp [finish_len, hn]
            | none =>
              right
              refine ⟨ops, e, op, rfl, hopd.symm, ⟨0, by omega, Or.inl (by simp [prefixLen, hf]), ?_⟩, ?_⟩
              · simp [finish_len, lenOf, hf]
              · intro _ hm
                exact absurd hm (retrieveData_none_msg img lower _ 2 e2 h2)
        · simp only [hv, if_false]
          cases h2 : retrieveData img lower (a + 1) f.n with
          | mk o2 e2 =>
            cases o2 with
            | none => left; exact ⟨rfl, retrieveData_none_msg img lower _ f.n e2 h2⟩
            | some data =>
              right
              refine ⟨ops, e, op, rfl, hopd.symm, ⟨0, by omega, Or.inl (by simp [prefixLen, hf]), ?_⟩, ?_⟩
              · simp [finish_len, lenOf, hf]
              · simp [finish_len]
      | mem n k =>
        simp only
        cases h2 : retrieveData img lower (a + 1) n with
        | mk o2 e2 =>
          cases o2 with
          | none => left; exact ⟨rfl, retrieveData_none_msg img lower _ n e2 h2⟩
          | some pd =>
            simp only
            have hp := prefixed_len img lower syms a op (1 + n) (1 + n) (prefixString lower k pd) "mem" memSel
            rcases hp with hp | ⟨o3, e3, hr, hl, hnd⟩
            · left; exact hp
            · right
              have hpl : prefixLen op = 1 + n := by simp [prefixLen, hf]
              refine ⟨ops, e, op, rfl, hopd.symm, ⟨o3.getD 0 0, getD_lt o3 (retrieveData_lt img lower _ 1 o3 e3 hr) 0, Or.inr ⟨o3, e3, by rw [hpl]; exact hr, rfl⟩, ?_⟩, ?_⟩
              · rw [hl]
                simp only [lenOf, hf, memSel]
                cases formMem (o3.getD 0 0) <;> simp [selLen] <;> omega
              · intro h0 hm
                rw [hnd hm, hl]
                rw [hl] at h0
                revert h0
                simp only [memSel]
                cases formMem (o3.getD 0 0) <;> simp [selLen] <;> omega
      | reg src =>
        simp only
        have hp := prefixed_len img lower syms a op 1 1 "" "reg prefix" (formReg src)
        rcases hp with hp | ⟨o3, e3, hr, hl, hnd⟩
        · left; exact hp
        · right
          have hpl : prefixLen op = 1 := by simp [prefixLen, hf]
          refine ⟨ops, e, op, rfl, hopd.symm, ⟨o3.getD 0 0, getD_lt o3 (retrieveData_lt img lower _ 1 o3 e3 hr) 0, Or.inr ⟨o3, e3, by rw [hpl]; exact hr, rfl⟩, ?_⟩, ?_⟩
          · rw [hl]
            simp only [lenOf, hf]
            cases formReg src (o3.getD 0 0) <;> simp [selLen] <;> omega
          · intro h0 hm
            rw [hnd hm, hl]
            rw [hl] at h0
            revert h0
            cases formReg src (o3.getD 0 0) <;> simp [selLen] <;> omega

end AslModel.Dis.M87C

namespace AslModel.Dis.M87C
open AslModel.Dis

/-! ### every byte of a reported instruction was fetched -/

/-- address `x` was part of a request `RetrieveData` answered -/
def FetchedAt (img : Image) (lower : Bool) (x : Nat) : Prop :=
  ∃ y n ds e, retrieveData img lower y n = (some ds, e) ∧ y ≤ x ∧ x < y + n

theorem prefixed_covered (img : Image) (lower : Bool) (syms : Syms) (a op pl nData : Nat) (pfx what : String) (sel : Nat → RegSel)
    (hpre : ∀ x, a ≤ x → x < a + pl → FetchedAt img lower x) :
    ∀ x, a ≤ x → x < a + (prefixed img lower syms a op pl nData pfx what sel).info.len → FetchedAt img lower x := by
  intro x hx1 hx2
  unfold prefixed at hx2
  cases h2 : retrieveData img lower (a + pl) 1 with
  | mk o e =>
    cases o with
    | none => simp only [h2] at hx2; exact absurd hx2 (by simp; omega)
    | some o2 =>
      simp only [h2] at hx2
      cases hs : sel (o2.getD 0 0) with
      | unknown =>
        simp only [hs] at hx2
        have hl : (unknownPrefixed img lower syms a pl (o2.getD 0 0) (nData + 1) what).info.len = pl + 1 := by
          unfold unknownPrefixed
          simp only
          split <;> rfl
        rw [hl] at hx2
        by_cases hxp : x < a + pl
        · exact hpre x hx1 hxp
        · exact ⟨a + pl, 1, o2, e, h2, by omega, by omega⟩
      | ok f =>
        simp only [hs] at hx2
        cases h3 : retrieveData img lower (a + pl + 1) f.n with
        | mk o3 e3 =>
          cases o3 with
          | none => simp only [h3] at hx2; exact absurd hx2 (by simp; omega)
          | some data =>
            simp only [h3, finish_len] at hx2
            by_cases hxp : x < a + pl
            · exact hpre x hx1 hxp
            · by_cases hx0 : x = a + pl
              · exact ⟨a + pl, 1, o2, e, h2, by omega, by omega⟩
              · exact ⟨a + pl + 1, f.n, data, e3, h3, by omega, by omega⟩

/-- every byte of the length `raw` reports for an instruction line lies in a request `RetrieveData` answered -/
theorem raw_covered (img : Image) (lower : Bool) (syms : Syms) (a : Nat) :
    ∀ x, a ≤ x → x < a + (raw img lower syms a false (-1)).info.len → FetchedAt img lower x := by
  intro x hx1 hx2
  unfold raw at hx2
  cases h1 : retrieveData img lower a 1 with
  | mk o e =>
    cases o with
    | none => simp only [h1] at hx2; exact absurd hx2 (by simp; omega)
    | some ops =>
      have hfirst : ∀ x, a ≤ x → x < a + 1 → FetchedAt img lower x := fun x p q => ⟨a, 1, ops, e, h1, p, q⟩
      have hop : ops.getD 0 0 < 256 := getD_lt ops (retrieveData_lt img lower a 1 ops e h1) 0
      simp only [h1, Bool.false_eq_true, if_false] at hx2
      generalize ops.getD 0 0 = op at hop hx2
      have hok := form1_ok op hop
      unfold form1Ok at hok
      cases hf : form1 op with
      | unknown =>
        simp only [hf] at hx2
        have hz := retrieveData_zero img lower (a + 1) (by have := (retrieveData_some img lower a 1 ops e h1).1; omega)
        have hl : (dataPart img lower syms a op false (-1)).info.len = 1 := by
          simp [dataPart, hz]
        rw [hl] at hx2
        exact hfirst x hx1 hx2
      | plain f =>
        simp only [hf, Bool.and_eq_true, decide_eq_true_eq, Bool.or_eq_true, bne_iff_ne, ne_eq, beq_iff_eq] at hok hx2
        by_cases hv : f.jump = .vec
        · have hn : f.n = 0 := by
            rcases hok.2 with h | h
            · exact absurd hv h
            · exact h
          simp only [hv, if_true] at hx2
          have hl : x < a + 1 := by
            cases h2 : retrieveData img lower (0xffc0 + 2 * (op % 16)) 2 with
            | mk o2 e2 =>
              cases o2 <;> (simp only [h2, finish_len] at hx2; omega)
          exact hfirst x hx1 hl
        · simp only [hv, if_false] at hx2
          cases h2 : retrieveData img lower (a + 1) f.n with
          | mk o2 e2 =>
            cases o2 with
            | none => simp only [h2] at hx2; exact absurd hx2 (by simp; omega)
            | some data =>
              simp only [h2, finish_len] at hx2
              by_cases hx0 : x = a
              · exact hfirst x hx1 (by omega)
              · exact ⟨a + 1, f.n, data, e2, h2, by omega, by omega⟩
      | mem n k =>
        simp only [hf] at hx2
        cases h2 : retrieveData img lower (a + 1) n with
        | mk o2 e2 =>
          cases o2 with
          | none => simp only [h2] at hx2; exact absurd hx2 (by simp; omega)
          | some pd =>
            simp only [h2] at hx2
            refine prefixed_covered img lower syms a op (1 + n) (1 + n) _ "mem" memSel ?_ x hx1 hx2
            intro z hz1 hz2
            by_cases hz0 : z = a
            · exact hfirst z hz1 (by omega)
            · exact ⟨a + 1, n, pd, e2, h2, by omega, by omega⟩
      | reg src =>
        simp only [hf] at hx2
        exact prefixed_covered img lower syms a op 1 1 "" "reg prefix" (formReg src) hfirst x hx1 hx2

end AslModel.Dis.M87C
