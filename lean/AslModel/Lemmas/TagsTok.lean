import AslModel.Lemmas.Macro
import AslModel.Model.Tags
/-! Lemmas for C11 (processor layer), part 3: the token layer as the tag machine uses it.
* `Clean` texts (no control characters, no backslash) stay clean under whole-name substitution;
* a text in which no run is a parameter name is left alone (`substWhole_stable`);
* IRP/IRPN/IRPC: store + deliver of a clean line is `substWhole` (`irp_line`);
* macro call: `deliverLine ∘ storeLine` with the implicit parameters ARGCOUNT / ALLARGS is `substWhole` with the
  two names appended (`macro_line_full`). -/
namespace AslModel.Tags
open AslModel.MacroSpec AslModel.Macro AslModel.Generated

def Clean (l : Line) : Prop := ∀ x ∈ l, 32 ≤ x.toNat ∧ x ≠ 92

theorem clean_nil : Clean [] := by intro x hx; cases hx

theorem clean_append {a b : Line} (ha : Clean a) (hb : Clean b) : Clean (a ++ b) := by
  intro x hx
  rcases List.mem_append.mp hx with h | h
  · exact ha x h
  · exact hb x h

theorem clean_cons {c : Ch} {l : Line} (hc : 32 ≤ c.toNat ∧ c ≠ 92) (hl : Clean l) : Clean (c :: l) := by
  intro x hx
  rcases List.mem_cons.mp hx with rfl | h
  · exact hc
  · exact hl x h

theorem clean_of_alnum (l : Line) (h : ∀ x ∈ l, isAlnum x = true) : Clean l := by
  intro x hx
  have ha := h x hx
  refine ⟨by have := alnum_ge x ha; omega, ?_⟩
  intro e
  have := alnum_ne92 x ha
  rw [e] at this
  exact absurd this (by decide)

theorem killCtrl_id : ∀ (l : Line) (col : Nat), (∀ x ∈ l, 32 ≤ x.toNat) → killCtrl col l = l
  | [], _, _ => rfl
  | c :: rest, col, h => by
    have hc : 32 ≤ c.toNat := h c (by simp)
    have h9 : (c == 9) = false := by
      cases hh : c == 9 with
      | false => rfl
      | true =>
        have : c = 9 := by simpa using hh
        rw [this] at hc; exact absurd hc (by decide)
    have hlt : ¬ c.toNat < 32 := by omega
    rw [killCtrl]
    simp only [h9, Bool.false_eq_true, if_false, hlt]
    rw [killCtrl_id rest _ (fun x hx => h x (by simp [hx]))]

/-! ### runs of a line -/

theorem segs_ok (l : Line) (h : Clean l) : WFS (segs l) ∧ flatSegs (segs l) = l := by
  have := segsGo_ok l [] (by simp) h
  simpa [segs] using this

theorem lookup_mem (cs : Bool) : ∀ (params args : List Line) (r a : Line), lookup cs params args r = some a → a ∈ args
  | [], _, _, _, h => by simp [lookup] at h
  | _ :: _, [], _, _, h => by simp [lookup] at h
  | p :: ps, b :: bs, r, a, h => by
    simp only [lookup] at h
    split at h
    · simp only [Option.some.injEq] at h; simp [h]
    · have := lookup_mem cs ps bs r a h; simp [this]

theorem flatSegs_cons (sg : Seg) (s : List Seg) :
    flatSegs (sg :: s) = (match sg with | .run r => r | .oth c => [c]) ++ flatSegs s := by
  cases sg <;> simp [flatSegs]

theorem mem_subst_segs (cs : Bool) (params args : List Line) : ∀ (s : List Seg) (x : Ch),
    x ∈ s.flatMap (substSeg cs params args) → x ∈ flatSegs s ∨ ∃ a ∈ args, x ∈ a
  | [], x, h => by simp at h
  | sg :: s, x, h => by
    rw [List.flatMap_cons] at h
    rcases List.mem_append.mp h with h1 | h1
    · cases sg with
      | oth c =>
        left; rw [flatSegs_cons]; simp only [substSeg] at h1
        have : x = c := by simpa using h1
        simp [this]
      | run r =>
        simp only [substSeg] at h1
        cases hl : lookup cs params args r with
        | none =>
          rw [hl] at h1
          left; rw [flatSegs_cons]; simp only [Option.getD_none] at h1; simp [h1]
        | some a =>
          rw [hl] at h1
          right; exact ⟨a, lookup_mem cs params args r a hl, by simpa using h1⟩
    · rcases mem_subst_segs cs params args s x h1 with h2 | h2
      · left; rw [flatSegs_cons]; simp [h2]
      · right; exact h2

/-- whole-name substitution with clean arguments keeps a clean line clean -/
theorem substWhole_clean (cs : Bool) (params args : List Line) (l : Line) (hl : Clean l)
    (ha : ∀ a ∈ args, Clean a) : Clean (substWhole cs params args l) := by
  intro x hx
  rcases mem_subst_segs cs params args (segs l) x hx with h | ⟨a, h1, h2⟩
  · rw [(segs_ok l hl).2] at h; exact hl x h
  · exact ha a h1 x h2

theorem subst_segs_stable (cs : Bool) (params args : List Line) : ∀ (s : List Seg),
    (∀ r, Seg.run r ∈ s → lookup cs params args r = none) → s.flatMap (substSeg cs params args) = flatSegs s
  | [], _ => rfl
  | sg :: s, h => by
    rw [List.flatMap_cons, flatSegs_cons, subst_segs_stable cs params args s (fun r hr => h r (by simp [hr]))]
    congr 1
    cases sg with
    | oth c => rfl
    | run r => simp [substSeg, h r (by simp)]

/-- a clean text none of whose runs is a parameter name is not changed -/
theorem substWhole_stable (cs : Bool) (params args : List Line) (l : Line) (hl : Clean l)
    (h : ∀ r, Seg.run r ∈ segs l → lookup cs params args r = none) : substWhole cs params args l = l := by
  unfold substWhole
  rw [subst_segs_stable cs params args _ h, (segs_ok l hl).2]

theorem substWhole_noparams (cs : Bool) (l : Line) (hl : Clean l) : substWhole cs [] [] l = l :=
  substWhole_stable cs [] [] l hl (fun _ _ => rfl)

theorem lookup_none_of_names (cs : Bool) : ∀ (params args : List Line) (r : Line),
    (∀ n ∈ params, eqLine cs n r = false) → lookup cs params args r = none
  | [], _, _, _ => by simp [lookup]
  | _ :: _, [], _, _ => by simp [lookup]
  | p :: ps, a :: as, r, h => by
    simp only [lookup, h p (by simp), Bool.false_eq_true, if_false]
    exact lookup_none_of_names cs ps as r (fun n hn => h n (by simp [hn]))

theorem segsGo_alnum : ∀ (v acc : Line), (∀ x ∈ v, isAlnum x = true) → segsGo acc v = flushSeg (acc ++ v)
  | [], acc, _ => by simp [segsGo]
  | c :: v, acc, h => by
    have hc : isAlnum c = true := h c (by simp)
    rw [segsGo]
    simp only [hc, if_true]
    rw [segsGo_alnum v (acc ++ [c]) (fun x hx => h x (by simp [hx]))]
    simp

/-- a name (letters/digits) that is no parameter name is not changed -/
theorem substWhole_name (cs : Bool) (params args : List Line) (v : Line) (hv : NameOK v)
    (h : ∀ n ∈ params, eqLine cs n v = false) : substWhole cs params args v = v := by
  apply substWhole_stable cs params args v (clean_of_alnum v hv.2)
  intro r hr
  have : segs v = [Seg.run v] := by
    unfold segs
    rw [segsGo_alnum v [] hv.2]
    simp only [List.nil_append, flushSeg]
    cases v with
    | nil => exact absurd rfl hv.1
    | cons _ _ => rfl
  rw [this] at hr
  have : r = v := by simpa using hr
  rw [this]
  exact lookup_none_of_names cs params args v h

/-! ### arguments: no blanks -/

/-- an argument text: no control characters, no blanks, no backslash -/
def Tidy (l : Line) : Prop := ∀ x ∈ l, 33 ≤ x.toNat ∧ x ≠ 92

theorem tidy_clean {l : Line} (h : Tidy l) : Clean l := fun x hx => ⟨by have := (h x hx).1; omega, (h x hx).2⟩

theorem tidy_nil : Tidy [] := by intro x hx; cases hx

theorem tidy_append {a b : Line} (ha : Tidy a) (hb : Tidy b) : Tidy (a ++ b) := by
  intro x hx
  rcases List.mem_append.mp hx with h | h
  · exact ha x h
  · exact hb x h

theorem tidy_cons {c : Ch} {l : Line} (hc : 33 ≤ c.toNat ∧ c ≠ 92) (hl : Tidy l) : Tidy (c :: l) := by
  intro x hx
  rcases List.mem_cons.mp hx with rfl | h
  · exact hc
  · exact hl x h

theorem tidy_of_alnum (l : Line) (h : ∀ x ∈ l, isAlnum x = true) : Tidy l := by
  intro x hx
  have ha := h x hx
  refine ⟨by have := alnum_ge x ha; omega, ?_⟩
  intro e
  have := alnum_ne92 x ha
  rw [e] at this
  exact absurd this (by decide)

theorem substWhole_tidy (cs : Bool) (params args : List Line) (l : Line) (hl : Tidy l)
    (ha : ∀ a ∈ args, Tidy a) : Tidy (substWhole cs params args l) := by
  intro x hx
  rcases mem_subst_segs cs params args (segs l) x hx with h | ⟨a, h1, h2⟩
  · rw [(segs_ok l (tidy_clean hl)).2] at h; exact hl x h
  · exact ha a h1 x h2

theorem isSpace_false (c : Ch) (h : 33 ≤ c.toNat) : isSpace c = false := by
  have h1 : (c == 32) = false := by
    cases hh : c == 32 with
    | false => rfl
    | true =>
      have : c = 32 := by simpa using hh
      rw [this] at h; exact absurd h (by decide)
  have h2 : ¬ (9 ≤ c.toNat ∧ c.toNat ≤ 13) := by omega
  simp only [isSpace, h1, Bool.false_or, Bool.and_eq_true, decide_eq_true_eq]
  simpa using h2

theorem dropWhile_tidy : ∀ (l : Line), Tidy l → l.dropWhile isSpace = l
  | [], _ => rfl
  | c :: l, h => by simp [List.dropWhile, isSpace_false c (h c (by simp)).1]

/-- `SplitLine`'s trimming does not touch an argument without blanks -/
theorem trim_tidy (l : Line) (h : Tidy l) : trimArg l = l := by
  unfold trimArg
  rw [dropWhile_tidy l h, dropWhile_tidy l.reverse (fun x hx => h x (List.mem_reverse.mp hx)), List.reverse_reverse]

theorem map_trim_tidy : ∀ (l : List Line), (∀ a ∈ l, Tidy a) → l.map trimArg = l
  | [], _ => rfl
  | a :: l, h => by
    rw [List.map_cons, trim_tidy a (h a (by simp)), map_trim_tidy l (fun x hx => h x (by simp [hx]))]

/-! ### digits -/

theorem clean_natDigits (n : Nat) : Clean (natDigits n) := by
  intro x hx
  unfold natDigits at hx
  obtain ⟨c, hc, rfl⟩ := List.mem_map.mp hx
  have hl : (toString n).toList = Nat.toDigits 10 n := by simp [toString, Nat.repr]
  rw [hl] at hc
  have hd := Nat.isDigit_of_mem_toDigits (by decide) (by decide) hc
  simp only [Char.isDigit, Bool.and_eq_true, decide_eq_true_eq] at hd
  have a1 : (48 : UInt32) ≤ c.val := hd.1
  have b1 : c.val ≤ (57 : UInt32) := hd.2
  rw [UInt32.le_iff_toNat_le] at a1 b1
  have h1 : 48 ≤ c.toNat := a1
  have h2 : c.toNat ≤ 57 := b1
  have e : (UInt8.ofNat c.toNat).toNat = c.toNat := by simp only [UInt8.toNat_ofNat']; omega
  refine ⟨by omega, ?_⟩
  intro h92
  have := congrArg UInt8.toNat h92
  rw [e] at this
  have h' : (92 : UInt8).toNat = 92 := rfl
  omega

theorem tidy_natDigits (n : Nat) : Tidy (natDigits n) := by
  intro x hx
  unfold natDigits at hx
  obtain ⟨c, hc, rfl⟩ := List.mem_map.mp hx
  have hl : (toString n).toList = Nat.toDigits 10 n := by simp [toString, Nat.repr]
  rw [hl] at hc
  have hd := Nat.isDigit_of_mem_toDigits (by decide) (by decide) hc
  simp only [Char.isDigit, Bool.and_eq_true, decide_eq_true_eq] at hd
  have a1 : (48 : UInt32) ≤ c.val := hd.1
  have b1 : c.val ≤ (57 : UInt32) := hd.2
  rw [UInt32.le_iff_toNat_le] at a1 b1
  have h1 : 48 ≤ c.toNat := a1
  have h2 : c.toNat ≤ 57 := b1
  have e : (UInt8.ofNat c.toNat).toNat = c.toNat := by simp only [UInt8.toNat_ofNat']; omega
  refine ⟨by omega, ?_⟩
  intro h92
  have := congrArg UInt8.toNat h92
  rw [e] at this
  have h' : (92 : UInt8).toNat = 92 := rfl
  omega

theorem tidy_joinComma : ∀ (l : List Line), (∀ a ∈ l, Tidy a) → Tidy (joinComma l)
  | [], _ => tidy_nil
  | [a], h => by simpa [joinComma] using h a (by simp)
  | a :: b :: rest, h => by
    show Tidy (a ++ 44 :: joinComma (b :: rest))
    exact tidy_append (h a (by simp)) (tidy_cons (by decide) (tidy_joinComma (b :: rest) (fun x hx => h x (by simp [hx]))))

theorem clean_joinComma : ∀ (l : List Line), (∀ a ∈ l, Clean a) → Clean (joinComma l)
  | [], _ => clean_nil
  | [a], h => by simpa [joinComma] using h a (by simp)
  | a :: b :: rest, h => by
    show Clean (a ++ 44 :: joinComma (b :: rest))
    exact clean_append (h a (by simp)) (clean_cons (by decide) (clean_joinComma (b :: rest) (fun x hx => h x (by simp [hx]))))

/-! ### IRP / IRPN / IRPC lines -/

theorem nameOK_of_chk (v : Line) (h : chkMacSymbName v = true) : NameOK v := by
  cases v with
  | nil => simp [chkMacSymbName] at h
  | cons c r =>
    simp only [chkMacSymbName, Bool.and_eq_true, List.all_eq_true] at h
    refine ⟨by simp, ?_⟩
    intro x hx
    rcases List.mem_cons.mp hx with rfl | hx
    · have := h.1
      simp only [isLetter, Bool.or_eq_true, Bool.and_eq_true, decide_eq_true_eq] at this
      simp only [isAlnum, Bool.or_eq_true, Bool.and_eq_true, decide_eq_true_eq]
      omega
    · exact h.2 x hx

/-- what an IRP/IRPN/IRPC iteration delivers for a stored clean body line -/
theorem irp_line (cs : Bool) (names g : List Line) (l : Line) (hl : Clean l)
    (hn : ∀ p ∈ names, NameOK p) (hg : ∀ a ∈ g, Clean a) (hlen : names.length ≤ g.length) (hz : g.length ≤ 495) :
    expandAll 1 g (irpStore cs names l) = substWhole cs names g l := by
  have h1 : expandAll 1 g (irpStore cs names l) = macroLine cs names g l := rfl
  have hk : killCtrl 0 l = l := killCtrl_id l 0 (fun x hx => (hl x hx).1)
  rw [h1]
  unfold macroLine
  rw [hk]
  exact (by
    have hline : ∀ x ∈ l, 32 ≤ x.toNat := fun x hx => (hl x hx).1
    have hbs : ∀ x ∈ l, x ≠ 92 := fun x hx => (hl x hx).2
    obtain ⟨hw, hf⟩ := segsGo_ok l [] (by simp) (fun x hx => ⟨hline x hx, hbs x hx⟩)
    have hl' : l = flat ((segs l).map ofSeg) := by
      rw [flat_ofSeg]; simpa [segs] using hf.symm
    have hc := compressAll_pieces cs names 1 ((segs l).map ofSeg) hn (by omega) (WF_ofSeg _ hw)
    have he := expandAll_pieces g 1 _ (fun a ha x hx => (hg a ha x hx).1) (by omega) (WF_mono _ hc.2)
    conv => lhs; rw [hl']
    rw [hc.1, he, List.map_map]
    have hp : ∀ x ∈ (segs l).map ofSeg,
        (eAllP 1 g ∘ cAllP cs 1 names) x = finalP cs names g x := by
      intro x hx
      obtain ⟨sg, _, rfl⟩ := List.mem_map.mp hx
      cases sg with
      | oth c => simp [ofSeg, cAllP_oth, eAllP_oth, finalP]
      | run r => simpa [ofSeg] using run_through cs r names g 1 hlen
    rw [List.map_congr_left hp, flat_final]
    rfl)

/-! ### macro lines with the implicit parameters -/

theorem implicit_names : allArgName = allArgsName ∧ argCName = argCountName := by decide

theorem allArgName_ok : ∀ x ∈ allArgName, isAlnum x = true := by decide
theorem argCName_ok : ∀ x ∈ argCName, isAlnum x = true := by decide

theorem WF_eAllP : ∀ (args : List Line) (z : Nat) (s : List Piece),
    (∀ a ∈ args, ∀ x ∈ a, 32 ≤ x.toNat) → WF true s → WF true (s.map (eAllP z args))
  | [], z, s, _, h => by
    have : s.map (eAllP z []) = s := by
      induction s with
      | nil => rfl
      | cons a s ih => simp [eAllP]
    rw [this]; exact h
  | a :: as, z, s, ha, h => by
    have ih := WF_eAllP as (z + 1) (s.map (eStep z a)) (fun b hb => ha b (by simp [hb]))
      (WF_eStep z a (ha a (by simp)) s h)
    simpa [List.map_map, Function.comp_def, eAllP] using ih

/-- a run that is bound to a parameter becomes one of the tokens `z .. z + n - 1` -/
theorem cAllP_run_bound (cs : Bool) (r : Line) : ∀ ps z,
    cAllP cs z ps (.run r) = .run r ∨ ∃ k, z ≤ k ∧ k < z + ps.length ∧ cAllP cs z ps (.run r) = .tok k
  | [], _ => Or.inl rfl
  | p :: ps, z => by
    simp only [cAllP, cStep]
    split
    · exact Or.inr ⟨z, Nat.le_refl z, by simp, cAllP_tok cs z ps (z + 1)⟩
    · cases cAllP_run_bound cs r ps (z + 1) with
      | inl h => exact Or.inl h
      | inr h =>
        obtain ⟨k, hk, hk2, e⟩ := h
        exact Or.inr ⟨k, by omega, by simp; omega, e⟩

theorem cAllP_run_none (cs : Bool) (r : Line) : ∀ (ps as : List Line) (z : Nat), ps.length ≤ as.length →
    lookup cs ps as r = none → cAllP cs z ps (.run r) = .run r
  | [], _, _, _, _ => rfl
  | _ :: _, [], _, h, _ => by simp at h
  | p :: ps, a :: as, z, h, hl => by
    simp only [lookup] at hl
    split at hl
    · cases hl
    · rename_i hne
      simp only [cAllP, cStep, hne, Bool.false_eq_true, if_false]
      exact cAllP_run_none cs r ps as (z + 1) (by simpa using h) hl

theorem eAllP_tok_out (k : Nat) : ∀ (as : List Line) (z : Nat), z + as.length ≤ k → eAllP z as (.tok k) = .tok k
  | [], _, _ => rfl
  | a :: as, z, h => by
    have : k ≠ z := by simp at h; omega
    simp only [eAllP, eStep, this, if_false]
    exact eAllP_tok_out k as (z + 1) (by simp at h; omega)

theorem lookup_append (cs : Bool) (r : Line) : ∀ (ps as qs bs : List Line), ps.length ≤ as.length →
    lookup cs (ps ++ qs) (as.take ps.length ++ bs) r =
      match lookup cs ps as r with
      | some a => some a
      | none => lookup cs qs bs r
  | [], as, qs, bs, _ => by simp [lookup]
  | _ :: _, [], _, _, h => by simp at h
  | p :: ps, a :: as, qs, bs, h => by
    simp only [List.cons_append, List.length_cons, List.take_succ_cons, lookup]
    split
    · rfl
    · exact lookup_append cs r ps as qs bs (by simpa using h)

/-- condition on one run of a macro body line: the implicit names are matched by the assembler without regard to
    case, by the SPEC with the current case mode; and ARGCOUNT has the manual's value where it is used -/
def ImplOK (cs : Bool) (numA numS : Line) (r : Line) : Prop :=
  eqLine cs allArgsName r = eqLine false allArgsName r ∧ eqLine cs argCountName r = eqLine false argCountName r ∧
  (eqLine false argCountName r = true → numA = numS)

def ImplLineOK (cs : Bool) (numA numS : Line) (l : Line) : Prop := ∀ r, Seg.run r ∈ segs l → ImplOK cs numA numS r

theorem not_both_implicit (r : Line) (h1 : eqLine false allArgsName r = true) (h2 : eqLine false argCountName r = true) :
    False := by
  have a := eqLine_length false _ _ h1
  have b := eqLine_length false _ _ h2
  simp [allArgsName, argCountName] at a b
  omega

/-- what a macro call delivers for a stored clean body line: whole-name substitution of the parameters and of the
    two implicit parameters ALLARGS and ARGCOUNT -/
theorem macro_line_full (cs : Bool) (params args : List Line) (numA numS allA : Line) (l : Line)
    (hl : Clean l) (hn : ∀ p ∈ params, NameOK p) (hg : ∀ a ∈ args, Clean a)
    (hnum : Clean numA)
    (hlen : args.length = params.length) (hmax : params.length ≤ argCntMax)
    (himp : ImplLineOK cs numA numS l) :
    deliverLine args numA allA (storeLine cs params l) =
      substWhole cs (params ++ [allArgsName, argCountName]) (args ++ [allA, numS]) l := by
  have hk : killCtrl 0 l = l := killCtrl_id l 0 (fun x hx => (hl x hx).1)
  have hacm : argCntMax + 4 < 496 := by decide
  obtain ⟨hw, hf⟩ := segs_ok l hl
  have hl' : l = flat ((segs l).map ofSeg) := by rw [flat_ofSeg]; exact hf.symm
  -- storing
  have hc := compressAll_pieces cs params 1 ((segs l).map ofSeg) hn (by omega) (WF_ofSeg _ hw)
  have hz2 : argCntMax + 2 < 496 := by omega
  have hz3 : argCntMax + 3 < 496 := by omega
  obtain ⟨n2, ns2, e2⟩ : ∃ n ns, argCName = n :: ns := ⟨_, _, rfl⟩
  obtain ⟨n3, ns3, e3⟩ : ∃ n ns, allArgName = n :: ns := ⟨_, _, rfl⟩
  have s2 : ∀ s, WF false s → compressLine false argCName (argCntMax + 2) (flat s)
      = flat (s.map (cStep false argCName (argCntMax + 2))) := by
    intro s hs
    rw [e2]
    exact compress_pieces false n2 ns2 _ hz2 (by rw [← e2]; exact argCName_ok) s hs false (fun e => by cases e)
  have s3 : ∀ s, WF false s → compressLine false allArgName (argCntMax + 3) (flat s)
      = flat (s.map (cStep false allArgName (argCntMax + 3))) := by
    intro s hs
    rw [e3]
    exact compress_pieces false n3 ns3 _ hz3 (by rw [← e3]; exact allArgName_ok) s hs false (fun e => by cases e)
  have w2 := WF_cStep false argCName (argCntMax + 2) hz2 _ hc.2
  have w3 := WF_cStep false allArgName (argCntMax + 3) hz3 _ w2
  have hstore : storeLine cs params l = flat ((((segs l).map ofSeg).map (cAllP cs 1 params)).map
      (cStep false argCName (argCntMax + 2)) |>.map (cStep false allArgName (argCntMax + 3))) := by
    unfold storeLine
    rw [hk]
    conv => lhs; rw [hl']
    simp only []
    rw [hc.1, s2 _ hc.2, s3 _ w2]
  -- delivering
  have hga : ∀ a ∈ args, ∀ x ∈ a, 32 ≤ x.toNat := fun a ha x hx => (hg a ha x hx).1
  have he1 := expandAll_pieces args 1 _ hga (by omega) (WF_mono _ w3)
  have we1 := WF_eAllP args 1 _ hga (WF_mono _ w3)
  have he2 := expand_pieces (argCntMax + 2) hz2 numA _ we1
  have we2 := WF_eStep (argCntMax + 2) numA (fun x hx => (hnum x hx).1) _ we1
  have he3 := expand_pieces (argCntMax + 3) hz3 allA _ we2
  unfold deliverLine
  simp only []
  rw [hstore, he1, he2, he3]
  simp only [List.map_map]
  -- piece by piece
  unfold substWhole
  rw [← flat_final]
  simp only [List.map_map]
  congr 1
  apply List.map_congr_left
  intro sg hsg
  cases sg with
  | oth c => simp [ofSeg, cAllP_oth, eAllP_oth, finalP, cStep, eStep]
  | run r =>
    have himpr := himp r hsg
    simp only [Function.comp_apply, ofSeg, finalP]
    have hla := lookup_append cs r params args [allArgsName, argCountName] [allA, numS] (by omega)
    rw [List.take_of_length_le (by omega)] at hla
    rw [hla]
    cases hlk : lookup cs params args r with
    | some a =>
      -- bound to an explicit parameter
      have hrt := run_through cs r params args 1 (by omega)
      simp only [finalP, hlk] at hrt
      rcases cAllP_run_bound cs r params 1 with h | ⟨k, hk1, hk2, h⟩
      · rw [h, eAllP_run] at hrt; cases hrt
      · rw [h] at hrt ⊢
        simp only [cStep, hrt, eStep]
    | none =>
      have hx0 := cAllP_run_none cs r params args 1 (by omega) hlk
      rw [hx0]
      simp only [lookup]
      unfold ImplOK at himpr
      rw [← implicit_names.1, ← implicit_names.2] at himpr ⊢
      obtain ⟨i1, i2, i3⟩ := himpr
      by_cases hc2 : eqLine false argCName r = true
      · have hc3 : eqLine false allArgName r = false := by
          cases h : eqLine false allArgName r with
          | false => rfl
          | true =>
            rw [implicit_names.1] at h
            rw [implicit_names.2] at hc2
            exact (not_both_implicit r h hc2).elim
        have ht : eAllP 1 args (.tok (argCntMax + 2)) = .tok (argCntMax + 2) := eAllP_tok_out _ args 1 (by omega)
        simp only [cStep, hc2, if_true, ht, eStep, i1, i2, hc3, Bool.false_eq_true, if_false, i3 hc2]
      · have hc2' : eqLine false argCName r = false := by simpa using hc2
        by_cases hc3 : eqLine false allArgName r = true
        · have ht : eAllP 1 args (.tok (argCntMax + 3)) = .tok (argCntMax + 3) := eAllP_tok_out _ args 1 (by omega)
          have hne : argCntMax + 3 ≠ argCntMax + 2 := by omega
          simp only [cStep, hc2', hc3, if_true, Bool.false_eq_true, if_false, ht, eStep, hne, i1]
        · have hc3' : eqLine false allArgName r = false := by simpa using hc3
          simp only [cStep, hc2', hc3', Bool.false_eq_true, if_false, eAllP_run, eStep, i1, i2]

end AslModel.Tags
