import AslModel.Model.Expr
/-!
# Lemmas for C08: operator bodies on `BitVec 64` against the `Int`-with-wrap specification
-/
namespace AslModel.Expr
open AslModel.Formula

theorem add_spec (a b : W) : a + b = wrap (a.toInt + b.toInt) := by
  simp [wrap, BitVec.ofInt_add]

theorem mul_spec (a b : W) : a * b = wrap (a.toInt * b.toInt) := by
  simp [wrap, BitVec.ofInt_mul]

theorem sub_spec (a b : W) : a - b = wrap (a.toInt - b.toInt) := by
  apply BitVec.eq_of_toInt_eq
  simp [wrap, BitVec.toInt_sub, BitVec.toInt_ofInt]

theorem neg_spec (b : W) : (0 : W) - b = wrap (- b.toInt) := by
  rw [sub_spec]; simp

theorem neg_spec' (b : W) : -b = wrap (- b.toInt) := by
  rw [← neg_spec]; simp

theorem sdiv_spec (a b : W) : a.sdiv b = wrap (Int.tdiv a.toInt b.toInt) := by
  apply BitVec.eq_of_toInt_eq
  simp [wrap, BitVec.toInt_sdiv, BitVec.toInt_ofInt]

theorem srem_spec (a b : W) : a.srem b = wrap (Int.tmod a.toInt b.toInt) := by
  have h := BitVec.toInt_srem a b
  unfold wrap
  rw [← h, BitVec.ofInt_toInt]

theorem slt_spec (a b : W) : a.slt b = decide (a.toInt < b.toInt) := BitVec.slt_eq_decide

theorem sle_spec (a b : W) : a.sle b = decide (a.toInt ≤ b.toInt) := by
  simp [BitVec.sle]

/-- where the C code runs into undefined behaviour -/
def UBPoint (o : BinOp) (a b : W) : Prop :=
  match o with
  | .div | .mod => a = intMin ∧ b = -1
  | .shl | .shr => 64 ≤ b.toNat
  | _ => False

/-! ## `PotOp`, integer branch: square-and-multiply computes the power -/

theorem npow_add (a : W) (m n : Nat) : npow a (m + n) = npow a m * npow a n := by
  induction n with
  | zero => simp [npow]
  | succ n ih => rw [← Nat.add_assoc, npow, npow, ih, BitVec.mul_assoc]

theorem npow_one (a : W) : npow a 1 = a := by simp [npow]

theorem npow_sq (a : W) (k : Nat) : npow (a * a) k = npow a (2 * k) := by
  induction k with
  | zero => simp [npow]
  | succ k ih =>
    have : 2 * (k + 1) = 2 * k + 1 + 1 := by omega
    rw [this, npow, npow, npow, ih, BitVec.mul_assoc]

theorem toInt_of_small (r : W) (hr : r.toNat < 2 ^ 63) : r.toInt = r.toNat := by
  rw [BitVec.toInt_eq_toNat_cond]
  have : 2 * r.toNat < 2 ^ 64 := by omega
  simp [this]

theorem oddW_iff (r : W) : oddW r = decide (r.toNat % 2 = 1) := by
  simp [oddW, BitVec.getLsbD, Nat.testBit_zero]

theorem sshr1_small (r : W) (hr : r.toNat < 2 ^ 63) :
    r.sshiftRight 1 = r >>> 1 ∧ (r >>> 1).toNat = r.toNat / 2 := by
  have hm : r.msb = false := by
    rw [BitVec.msb_eq_false_iff_two_mul_lt]; omega
  refine ⟨BitVec.sshiftRight_eq_of_msb_false hm, ?_⟩
  simp [BitVec.toNat_ushiftRight, Nat.shiftRight_eq_div_pow]

theorem potLoop_spec : ∀ (f : Nat) (l r h : W), r.toNat < 2 ^ 63 → r.toNat < 2 ^ f →
    potLoop f l r h = h * npow l r.toNat := by
  intro f
  induction f with
  | zero =>
    intro l r h _ hr
    have : r.toNat = 0 := by omega
    simp [potLoop, this, npow]
  | succ f ih =>
    intro l r h hr63 hr
    have hti := toInt_of_small r hr63
    obtain ⟨hs, hsn⟩ := sshr1_small r hr63
    unfold potLoop
    by_cases hpos : 0 < r.toNat
    · have hp' : (0 : Int) < r.toInt := by rw [hti]; exact_mod_cast hpos
      simp only [hp', if_true, hs]
      have hlt : (r >>> 1).toNat < 2 ^ f := by rw [hsn]; omega
      have hdecomp : r.toNat = 2 * (r.toNat / 2) + r.toNat % 2 := by omega
      by_cases hz : r >>> 1 = 0
      · have hz' : r.toNat / 2 = 0 := by rw [← hsn, hz]; rfl
        have hr1 : r.toNat = 1 := by omega
        have hodd : oddW r = true := by rw [oddW_iff]; simp [hr1]
        simp only [hz, ne_eq, not_true_eq_false, if_false, hodd, if_true]
        rw [ih l 0 (h * l) (by simp) (by simpa using Nat.two_pow_pos f)]
        simp [hr1, npow]
      · simp only [hz, ne_eq, not_false_eq_true, if_true]
        rw [ih (l * l) (r >>> 1) _ (by rw [hsn]; omega) hlt, hsn, npow_sq]
        by_cases hodd : r.toNat % 2 = 1
        · have ho : oddW r = true := by rw [oddW_iff]; simp [hodd]
          simp only [ho, if_true]
          have e : npow l r.toNat = npow l (2 * (r.toNat / 2)) * l := by
            conv => lhs; rw [hdecomp, hodd]
            rw [npow_add, npow_one]
          rw [e]
          ac_rfl
        · have ho : oddW r = false := by rw [oddW_iff]; simp [hodd]
          have he : r.toNat % 2 = 0 := by omega
          simp only [ho, Bool.false_eq_true, if_false]
          have e : npow l r.toNat = npow l (2 * (r.toNat / 2)) := by
            conv => lhs; rw [hdecomp, he, Nat.add_zero]
          rw [e]
    · have h0 : r.toNat = 0 := by omega
      have hp' : ¬ (0 : Int) < r.toInt := by rw [hti, h0]; simp
      simp [hp', h0, npow]

/-- `PotOp` on integers = the power, for every base and every non-negative exponent -/
theorem mPow_spec (a b : W) (hb : 0 ≤ b.toInt) : mPow a b = npow a b.toNat := by
  have hb63 : b.toNat < 2 ^ 63 := by
    rw [BitVec.toInt_eq_toNat_cond] at hb
    by_cases h : 2 * b.toNat < 2 ^ 64
    · omega
    · simp [h] at hb; omega
  have hlt : ¬ b.toInt < 0 := by omega
  simp only [mPow, hlt, if_false]
  rw [potLoop_spec 64 a b 1 hb63 (by omega)]
  simp

end AslModel.Expr
