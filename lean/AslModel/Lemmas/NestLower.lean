import AslModel.Lemmas.NestTop
/-! The other direction of "enough fuel exists iff the expansion is finite" (Props/C11_Nest.lean,
`C11_nest_pass_ends_iff`): with the limit switched off (NESTMAX 0), if the SPEC's expansion does not end within fuel `F`
the machine makes at least `F` rounds. -/
namespace AslModel.NestModel
open AslModel.NestSpec

theorem good_of_ok {p : Prog} (h0 : p.nestMax = 0) {r : SSt} (h : r.ok = true) : Good p r := ⟨h, Or.inl h0⟩

theorem lines_nil_not_ok {p : Prog} {F : Nat} {c : Ctx} {s : SSt} (hs : s.ok = true) (h : (lines p F c [] s).ok = false) :
    F = 0 := by
  cases F with
  | zero => rfl
  | succ F => rw [lines_nil, hs] at h; cases h

theorem steps_le_of_done {p : Prog} {q : Quirks} {k : Nat} {s s' : St} (h : Steps p q k s s') :
    ∀ fuel, (runPass p q fuel s).stack = [] → k ≤ fuel := by
  induction h with
  | refl => intro fuel _; exact Nat.zero_le _
  | @cons k s s1 s2 hs _ ih =>
    intro fuel hdone
    cases fuel with
    | zero =>
      have : step p q s = none := by
        have hst : s.stack = [] := hdone
        unfold step; rw [hst]
      rw [this] at hs; cases hs
    | succ fuel =>
      have : runPass p q (fuel + 1) s = runPass p q fuel s1 := by
        show (match step p q s with | none => s | some s' => runPass p q fuel s') = _
        rw [hs]
      rw [this] at hdone
      have := ih fuel hdone
      omega

/-- the lines of a tag whose expansion does not end within the SPEC's fuel `F` keep the machine busy for `F` rounds -/
def LBStmt (p : Prog) (q : Quirks) (ρ : Int → Nat) (F : Nat) : Prop :=
  ∀ (c : Ctx) (ls : List BLine) (s : SSt) (w : Walk) (f : Frame) (below : List Frame) (ms : St),
    s.ok = true → (lines p F c ls s).ok = false → Agree ρ (walk p F c.arg ls w).log →
    ls ≠ [] → f.rest = ls → f.isEmpty = false → f.arg = c.arg → ms.stack = f :: below →
    Data ρ s (handleOps f ms) → CtxRel ρ c (handleOps f ms) →
    (handleOps f ms).cnt = w.log.length → s.nextScope = w.ns →
    ∃ k ms', F ≤ k ∧ Steps p q k ms ms'

theorem lb_call {p : Prog} {q : Quirks} {ρ : Int → Nat} (h0 : p.nestMax = 0) (F : Nat) (ih : LBStmt p q ρ F)
    (c : Ctx) (s : SSt) (w : Walk) (st : List Frame) (mh : St) (m a : Nat) (hs : s.ok = true)
    (hnok : (callM p F c s m a).ok = false) (hag : Agree ρ (callW p F w m a).log) (hst : mh.stack = st)
    (hd : Data ρ s mh) (hc : CtxRel ρ c mh) (hcnt : mh.cnt = w.log.length) (hns : s.nextScope = w.ns) :
    ∃ k ms', F ≤ k ∧ Steps p q k (expandMacro p mh m a) ms' := by
  rw [expandMacro_ok p mh m a (by omega)]
  have hs2 : ({ (enter s c (getDef p m).gs).1 with
      maxOpen := max (enter s c (getDef p m).gs).1.maxOpen (countOpen c m + 1) } : SSt).ok = true := by
    show (enter s c (getDef p m).gs).1.ok = true
    rw [enter_ok]; exact hs
  by_cases hb : (getDef p m).body = []
  · have : F = 0 := by
      unfold callM at hnok
      rw [hb] at hnok
      exact lines_nil_not_ok hs2 hnok
    subst this
    exact ⟨0, _, Nat.le_refl _, Steps.refl _⟩
  · have hfe : (macroFrame p m a).isEmpty = false := by
      cases hbb : (getDef p m).body with
      | nil => exact absurd hbb hb
      | cons _ _ => simp [macroFrame, hbb]
    have hme : (entered mh m (macroFrame p m a :: mh.stack)).stack = macroFrame p m a :: st := by rw [← hst]; rfl
    have eb := enter_bumped s c (getDef p m).gs (countOpen c m + 1)
    obtain ⟨hd2, hch2, hok2, hcnt2, hns2, _, _⟩ := enter_rel (c := c) (s := bumped s (countOpen c m + 1))
      (x := entered mh m (macroFrame p m a :: mh.stack))
      (w := w.tick) (getDef p m).gs (getDef p m).body hb (entered_data hd m (countOpen c m) (hc.use m) _) hc.chain hc.hok hcnt hns
      (Agree.of_prefix (walk_ext p F a _ _).1 hag)
    rw [← eb.1] at hd2 hns2
    rw [← eb.2] at hch2
    have hcx : CtxRel ρ { chain := (enter s c (getDef p m).gs).2, arg := a, opened := m :: c.opened }
        (handleOps (macroFrame p m a) (entered mh m (macroFrame p m a :: mh.stack))) := by
      rw [handleOps_macroFrame]
      refine ⟨hch2, hok2, fun x => ?_⟩
      rw [opened_use, countOpen_cons, ← hc.use x]
      show setUse mh.use m (mh.use m + 1) x = _
      unfold setUse
      by_cases hx : x = m
      · subst hx; simp; omega
      · have : ¬ m = x := fun h => hx h.symm
        simp [hx, this]
    exact ih { chain := (enter s c (getDef p m).gs).2, arg := a, opened := m :: c.opened }
      (getDef p m).body
      { (enter s c (getDef p m).gs).1 with maxOpen := max (enter s c (getDef p m).gs).1.maxOpen (countOpen c m + 1) }
      (w.tick.enter (getDef p m).gs (getDef p m).body) (macroFrame p m a) st (entered mh m (macroFrame p m a :: mh.stack))
      hs2 hnok hag hb rfl hfe rfl hme
      (by rw [handleOps_macroFrame]; exact hd2) hcx
      (by rw [handleOps_macroFrame]; exact hcnt2) hns2


theorem loop_setup {ρ : Int → Nat} {p : Prog} (F : Nat) (c : Ctx) (b : Def) (hb : b.body ≠ []) (j : Nat) (f : Frame) (s : SSt)
    (w : Walk) (ms : St) (hf : LoopF b c.arg j f) (hag : Agree ρ (iterW p F c.arg b w).log) (hd : Data ρ s ms)
    (hc : CtxRel ρ c (base f ms)) (hcnt : ms.cnt = w.log.length) (hns : s.nextScope = w.ns) :
    Data ρ (enter s c b.gs).1 (handleOps f ms) ∧ CtxRel ρ { c with chain := (enter s c b.gs).2 } (handleOps f ms) ∧
      (handleOps f ms).cnt = (w.enter b.gs b.body).log.length ∧ (enter s c b.gs).1.nextScope = (w.enter b.gs b.body).ns := by
  obtain ⟨hd2, hch2, hok2, hcnt2, hns2, _, _⟩ := enter_rel (c := c) (x := base f ms) (w := w) b.gs b.body hb
    (Data.of_deq (base_deq f ms) hd) hc.chain hc.hok ((base_cnt f ms).trans hcnt) hns
    (Agree.of_prefix (walk_ext p F c.arg _ _).1 hag)
  rw [handleOps_loop hf ms]
  refine ⟨hd2, ⟨hch2, hok2, fun x => ?_⟩, hcnt2, hns2⟩
  rw [opened_use]
  exact hc.use x

theorem lb_iter {p : Prog} {q : Quirks} {ρ : Int → Nat} (hq : q.emptyPops = false) (hρ : RhoOK ρ) (h0 : p.nestMax = 0)
    (F : Nat) (ih : LBStmt p q ρ F) (c : Ctx) (b : Def) (hb : b.body ≠ []) (st : List Frame) (j : Nat) :
    ∀ (f : Frame) (s : SSt) (w : Walk) (ms : St), LoopF b c.arg j f → ms.stack = f :: st → s.ok = true →
      (iter (iterBody p F c b) (j + 1) s).ok = false → Agree ρ (iter (iterW p F c.arg b) (j + 1) w).log →
      Data ρ s ms → CtxRel ρ c (base f ms) → ms.cnt = w.log.length → s.nextScope = w.ns →
      ∃ k ms', F ≤ k ∧ Steps p q k ms ms' := by
  induction j with
  | zero =>
    intro f s w ms hf hst hs hnok hag hd hc hcnt hns
    have hnok' : (iterBody p F c b s).ok = false := hnok
    obtain ⟨h1, h2, h3, h4⟩ := loop_setup F c b hb 0 f s w ms hf hag hd hc hcnt hns
    exact ih { c with chain := (enter s c b.gs).2 } b.body (enter s c b.gs).1 (w.enter b.gs b.body) f st ms
      (by rw [enter_ok]; exact hs) hnok' hag hb hf.rest hf.isEmpty hf.arg hst h1 h2 h3 h4
  | succ j ihj =>
    intro f s w ms hf hst hs hnok hag hd hc hcnt hns
    have hag' : Agree ρ (iterW p F c.arg b w).log := Agree.of_prefix (iter_wext p F c.arg b (j + 1) _).1 hag
    cases hok1 : (iterBody p F c b s).ok with
    | false =>
      obtain ⟨h1, h2, h3, h4⟩ := loop_setup F c b hb (j + 1) f s w ms hf hag' hd hc hcnt hns
      exact ih { c with chain := (enter s c b.gs).2 } b.body (enter s c b.gs).1 (w.enter b.gs b.body) f st ms
        (by rw [enter_ok]; exact hs) hok1 hag' hb hf.rest hf.isEmpty hf.arg hst h1 h2 h3 h4
    | true =>
      obtain ⟨k, ms2, hsteps, _, hst2, hd2, hu2, hg1, hg2, hcnt2, hns2⟩ :=
        loop_once F (run_sim hq hρ F) c b hb st (j + 1) f s w ms hf hst (good_of_ok h0 hok1) hag' hd hc hcnt hns
      obtain ⟨hf', hfirst⟩ := loopF_next hf
      have hbase : (base (nextFrame f []) ms2).mom = (base f ms).mom ∧ (base (nextFrame f []) ms2).hstack = (base f ms).hstack := by
        unfold base at *
        rw [hf'.gs, hfirst]
        cases hbg : b.gs with
        | true => exact hg1 hbg
        | false =>
          have := hg2 hbg
          simp only [Bool.not_false, Bool.and_self, if_true]
          unfold popLoc
          rw [this]; exact ⟨rfl, rfl⟩
      have hc' : CtxRel ρ c (base (nextFrame f []) ms2) := by
        refine ⟨?_, ?_, fun x => ?_⟩
        · rw [hbase.1, hbase.2]; exact hc.chain
        · rw [hbase.1, hbase.2]; exact hc.hok
        · rw [base_use]; exact hu2 x
      obtain ⟨k2, ms3, hk2, hsteps2⟩ := ihj (nextFrame f []) (iterBody p F c b s) (iterW p F c.arg b w) ms2 hf' hst2 hok1 hnok hag
        hd2 hc' hcnt2 hns2
      exact ⟨k + k2, ms3, by omega, Steps.trans hsteps hsteps2⟩


theorem lb_loop {p : Prog} {q : Quirks} {ρ : Int → Nat} (hq : q.emptyPops = false) (hρ : RhoOK ρ) (h0 : p.nestMax = 0)
    (F : Nat) (ih : LBStmt p q ρ F) (c : Ctx) (s : SSt) (w : Walk) (st : List Frame) (mh : St) (d n : Nat) (k : LKind)
    (hs : s.ok = true) (hnok : (iter (iterBody p F c (getDef p d)) n s).ok = false)
    (hag : Agree ρ (iter (iterW p F c.arg (getDef p d)) n w.tick).tick.log) (hst : mh.stack = st)
    (hd : Data ρ s mh) (hc : CtxRel ρ c mh) (hcnt : mh.cnt = w.log.length) (hns : s.nextScope = w.ns) :
    ∃ k' ms', F ≤ k' ∧ Steps p q k' (startLoop p mh c.arg d n k) ms' := by
  cases F with
  | zero => exact ⟨0, _, Nat.le_refl _, Steps.refl _⟩
  | succ F =>
    cases n with
    | zero => rw [show iter (iterBody p (F + 1) c (getDef p d)) 0 s = s from rfl, hs] at hnok; cases hnok
    | succ j =>
      by_cases hb : (getDef p d).body = []
      · have : (iter (iterBody p (F + 1) c (getDef p d)) (j + 1) s).ok = true := by
          refine iter_inv (fun s' : SSt => s'.ok = true) _ (fun s' hs' => ?_) (j + 1) s hs
          show (iterBody p (F + 1) c (getDef p d) s').ok = true
          unfold iterBody
          rw [hb, lines_nil, enter_ok]; exact hs'
        rw [this] at hnok; cases hnok
      · rw [startLoop_push p mh c.arg d (j + 1) k (fun h => by omega)]
        have hbe : (getDef p d).body.isEmpty = false := by
          cases hbb : (getDef p d).body with
          | nil => exact absurd hbb hb
          | cons _ _ => rfl
        have hf : LoopF (getDef p d) c.arg j (loopFrame p c.arg d (j + 1)) :=
          ⟨rfl, rfl, rfl, rfl, by simp [loopFrame, hbe], rfl, rfl, rfl, fun _ => rfl, fun h => Bool.noConfusion h⟩
        have hbase : base (loopFrame p c.arg d (j + 1)) { mh with stack := loopFrame p c.arg d (j + 1) :: mh.stack } =
            { mh with stack := loopFrame p c.arg d (j + 1) :: mh.stack } := by
          unfold base; simp [loopFrame]
        exact lb_iter hq hρ h0 (F + 1) ih c (getDef p d) hb st j (loopFrame p c.arg d (j + 1)) s w.tick
          { mh with stack := loopFrame p c.arg d (j + 1) :: mh.stack } hf (by rw [← hst]) hs hnok hag
          (Data.of_deq (a := mh) ⟨rfl, rfl, rfl, rfl, rfl, rfl, rfl, rfl, rfl⟩ hd)
          (by rw [hbase]; exact CtxRel.of_eq (a := mh) rfl rfl (fun _ => rfl) hc) hcnt hns

theorem lb_line {p : Prog} {q : Quirks} {ρ : Int → Nat} (hq : q.emptyPops = false) (hρ : RhoOK ρ) (h0 : p.nestMax = 0)
    (F : Nat) (ih : LBStmt p q ρ F) (c : Ctx) (l : BLine) (s : SSt) (w : Walk) (st : List Frame) (mh : St)
    (hs : s.ok = true) (hnok : (lineStep p F c l s).ok = false) (hag : Agree ρ (walkLine p F c.arg l w).log)
    (hst : mh.stack = st) (hd : Data ρ s mh) (hc : CtxRel ρ c mh) (hcnt : mh.cnt = w.log.length)
    (hns : s.nextScope = w.ns) : ∃ k ms', F ≤ k ∧ Steps p q k (exec p c.arg l mh) ms' := by
  have huse : ∀ lab, (NestSpec.useLabel s c lab).ok = s.ok := fun lab => by
    unfold NestSpec.useLabel; split <;> rfl
  cases l with
  | emit k => rw [show (lineStep p F c (.emit k) s).ok = s.ok from rfl, hs] at hnok; cases hnok
  | deflab lab => rw [show (lineStep p F c (.deflab lab) s).ok = s.ok from rfl, hs] at hnok; cases hnok
  | reflab lab => rw [show (lineStep p F c (.reflab lab) s).ok = s.ok from huse lab, hs] at hnok; cases hnok
  | defArg => rw [show (lineStep p F c .defArg s).ok = s.ok from rfl, hs] at hnok; cases hnok
  | refArg => rw [show (lineStep p F c .refArg s).ok = s.ok from huse _, hs] at hnok; cases hnok
  | call m a => exact lb_call h0 F ih c s w st mh m a hs hnok hag hst hd hc hcnt hns
  | callDec m =>
    by_cases ha : c.arg > 0
    · have e1 : lineStep p F c (.callDec m) s = callM p F c s m (c.arg - 1) := by
        show (if c.arg > 0 then _ else _) = _
        rw [if_pos ha]
      have e2 : walkLine p F c.arg (.callDec m) w = callW p F w m (c.arg - 1) := by
        show (if c.arg > 0 then _ else _) = _
        rw [if_pos ha]
      have e3 : exec p c.arg (.callDec m) mh = expandMacro p mh m (c.arg - 1) := by
        show (if c.arg > 0 then _ else _) = _
        rw [if_pos ha]
      rw [e1] at hnok; rw [e2] at hag; rw [e3]
      exact lb_call h0 F ih c s w st mh m _ hs hnok hag hst hd hc hcnt hns
    · have e1 : lineStep p F c (.callDec m) s = s := by
        show (if c.arg > 0 then _ else _) = _
        rw [if_neg ha]
      rw [e1, hs] at hnok; cases hnok
  | loop d n k => exact lb_loop hq hρ h0 F ih c s w st mh d n k hs hnok hag hst hd hc hcnt hns

theorem lb_run {p : Prog} {q : Quirks} {ρ : Int → Nat} (hq : q.emptyPops = false) (hρ : RhoOK ρ) (h0 : p.nestMax = 0)
    (F : Nat) : LBStmt p q ρ F := by
  induction F with
  | zero => intro c ls s w f below ms _ _ _ _ _ _ _ _ _ _ _ _; exact ⟨0, ms, Nat.le_refl _, Steps.refl ms⟩
  | succ F ih =>
    intro c ls s w f below ms hs hnok hag hne hrest hfe harg hst hd hc hcnt hns
    cases ls with
    | nil => exact absurd rfl hne
    | cons l ls =>
      rw [lines_cons] at hnok
      rw [walk_cons] at hag
      have hag1 : Agree ρ (walkLine p F c.arg l w).log := Agree.of_prefix (walk_ext p F c.arg ls _).1 hag
      have hstep := step_deliver (p := p) (q := q) hst hfe hrest
      rw [nextFrame_arg, harg] at hstep
      have hd' : Data ρ s { handleOps f ms with stack := nextFrame f ls :: below } :=
        Data.of_deq (a := handleOps f ms) ⟨rfl, rfl, rfl, rfl, rfl, rfl, rfl, rfl, rfl⟩ hd
      have hc' : CtxRel ρ c { handleOps f ms with stack := nextFrame f ls :: below } :=
        CtxRel.of_eq (a := handleOps f ms) rfl rfl (fun _ => rfl) hc
      cases hok1 : (lineStep p F c l s).ok with
      | false =>
        obtain ⟨k1, ms1, hk1, hsteps1⟩ := lb_line hq hρ h0 F ih c l s w (nextFrame f ls :: below)
          { handleOps f ms with stack := nextFrame f ls :: below } hs hok1 hag1 rfl hd' hc' hcnt hns
        exact ⟨1 + k1, ms1, by omega, Steps.trans (Steps.one hstep) hsteps1⟩
      | true =>
        obtain ⟨k1, ms1, hsteps1, ho1⟩ := line_sim hq hρ F (run_sim hq hρ F) c l s w (nextFrame f ls :: below)
          { handleOps f ms with stack := nextFrame f ls :: below } (good_of_ok h0 hok1) hag1 rfl hd' hc' hcnt hns
        by_cases hls : ls = []
        · subst hls
          have : F = 0 := lines_nil_not_ok hok1 hnok
          exact ⟨1 + k1, ms1, by omega, Steps.trans (Steps.one hstep) hsteps1⟩
        · have hms1 : handleOps (nextFrame f ls) ms1 = ms1 := handleOps_nextFrame f ls hls ms1
          obtain ⟨k2, ms2, hk2, hsteps2⟩ := ih c ls (lineStep p F c l s) (walkLine p F c.arg l w) (nextFrame f ls) below ms1
            hok1 hnok hag hls (nextFrame_rest f ls hls) (nextFrame_isEmpty f ls hls hfe) ((nextFrame_arg f ls).trans harg)
            ho1.stack (by rw [hms1]; exact ho1.data) (by rw [hms1]; exact ho1.ctx) (by rw [hms1]; exact ho1.cnt) ho1.ns
          exact ⟨1 + k1 + k2, ms2, by omega, Steps.trans (Steps.trans (Steps.one hstep) hsteps1) hsteps2⟩

/-- With the limit switched off: if the SPEC's expansion of the program does not end within fuel `F`, the machine's pass
    makes at least `F` rounds. -/
theorem pass_runs_long {p : Prog} {q : Quirks} (hq : q.emptyPops = false) (h0 : p.nestMax = 0) (F : Nat)
    (hnok : (first p F).ok = false) : ∃ k ms', F ≤ k ∧ Steps p q k (startPass p {} 1) ms' := by
  have hρ := rhoOf_ok _ ((walk_ext p F 0 p.top {}).2 winv_init)
  have hag := rhoOf_agree (walk p F 0 p.top {}).log (walk p F 0 p.top {}).ns
  by_cases htop : p.top = []
  · have : F = 0 := by
      unfold first at hnok
      rw [htop] at hnok
      exact lines_nil_not_ok rfl hnok
    subst this
    exact ⟨0, _, Nat.le_refl _, Steps.refl _⟩
  · have hfe : (srcFrame p).isEmpty = false := by
      cases htt : p.top with
      | nil => exact absurd htt htop
      | cons _ _ => simp [srcFrame, htt]
    exact lb_run hq hρ h0 F topCtx p.top {} {} (srcFrame p) [] (startPass p {} 1) rfl hnok hag htop rfl hfe rfl rfl
      ⟨rfl, rfl, rfl, rfl, fun _ => rfl, fun _ => rfl, rfl, rfl, (fun _ h => nomatch h), rfl, rfl⟩
      ⟨by show [0] = [rhoOf _ _ (-1)]; rw [hρ.base], ⟨[], rfl, (fun _ h => nomatch h)⟩, fun _ => rfl⟩ rfl rfl

end AslModel.NestModel
