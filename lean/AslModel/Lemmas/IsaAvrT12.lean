import AslModel.Lemmas.IsaAvrBase
/-! C14 / AVR: table check (`Good`) of a group of `InstTable` entries, decided over the complete field domains.
Split over several modules so that they are checked in parallel. -/
namespace AslModel.Isa.IAvr
open AslModel.Spec.IAvr
set_option maxRecDepth 100000

theorem good_T12_0 : goodAll [.BRCC, .BRCS, .BREQ, .BRGE, .BRSH, .BRID, .BRIE, .BRLO, .BRLT] = true := by decide +kernel
theorem good_T12_1 : goodAll [.BRMI, .BRNE, .BRHC, .BRHS, .BRPL, .BRTC, .BRTS, .BRVC, .BRVS] = true := by decide +kernel

end AslModel.Isa.IAvr
