import AslModel.Model.Dis.Core
/-! `RetrieveCodeFromChunkList` (codechunks.c, model `Dis.retrieve`) since the repair that advances `Start`: a request succeeds
exactly when every address of it is a byte of the loaded image, and then it has the requested length.  (Before the repair a
request that ran past the end of a chunk was completed by copying the chunk again; the lemmas about instructions that are
"whole" existed because of that.) -/
namespace AslModel.Dis

/-- one round: the part comes from a chunk that holds `start`, it is not empty, not longer than the request, and all its addresses
are bytes of the image -/
theorem overlapPart_some (start count : Nat) (hc : 0 < count) : ∀ (img : Image) (p : List UInt8),
    overlapPart start count img = some p →
    0 < p.length ∧ p.length ≤ count ∧ ∀ k, k < p.length → inImage img (start + k) := by
  intro img
  induction img with
  | nil => intro p h; simp [overlapPart] at h
  | cons c cs ih =>
    intro p h
    unfold overlapPart at h
    simp only at h
    split at h
    · rename_i hcond
      obtain ⟨h1, h2, h3⟩ := hcond
      simp only [Option.some.injEq] at h
      subst h
      have hlen : ((c.data.drop (max c.start start - c.start)).take
          (min (c.start + c.data.length - 1) (start + count - 1) - max c.start start + 1)).length =
          min (c.start + c.data.length - 1) (start + count - 1) - max c.start start + 1 := by
        rw [List.length_take, List.length_drop]
        omega
      rw [hlen]
      refine ⟨by omega, by omega, ?_⟩
      intro k hk
      exact ⟨c, List.mem_cons_self, by omega, by omega⟩
    · obtain ⟨a1, a2, a3⟩ := ih p h
      refine ⟨a1, a2, ?_⟩
      intro k hk
      obtain ⟨d, hd, hx⟩ := a3 k hk
      exact ⟨d, List.mem_cons_of_mem _ hd, hx⟩

/-- one round finds nothing only if the first missing address is no byte of the image -/
theorem overlapPart_none (start count : Nat) (hc : 0 < count) : ∀ (img : Image),
    overlapPart start count img = none → ¬ inImage img start := by
  intro img
  induction img with
  | nil => intro _ h; obtain ⟨c, hc, _⟩ := h; cases hc
  | cons c cs ih =>
    intro h hin
    unfold overlapPart at h
    simp only at h
    split at h
    · cases h
    · rename_i hcond
      obtain ⟨d, hd, h1, h2⟩ := hin
      rcases List.mem_cons.mp hd with rfl | hd
      · apply hcond
        refine ⟨by omega, by omega, by omega⟩
      · exact ih h ⟨d, hd, h1, h2⟩

theorem retrieveF_some (img : Image) : ∀ (fuel start count : Nat) (bs : List UInt8),
    retrieveF img start fuel count = some bs → bs.length = count ∧ ∀ k, k < count → inImage img (start + k) := by
  intro fuel
  induction fuel with
  | zero =>
    intro start count bs h
    cases count with
    | zero => simp [retrieveF] at h; subst h; exact ⟨rfl, fun k hk => absurd hk (Nat.not_lt_zero k)⟩
    | succ n => simp [retrieveF] at h
  | succ f ih =>
    intro start count bs h
    cases count with
    | zero => simp [retrieveF] at h; subst h; exact ⟨rfl, fun k hk => absurd hk (Nat.not_lt_zero k)⟩
    | succ n =>
      unfold retrieveF at h
      cases hov : overlapPart start (n + 1) img with
      | none => simp [hov] at h
      | some part =>
        obtain ⟨p1, p2, p3⟩ := overlapPart_some start (n + 1) (by omega) img part hov
        simp only [hov] at h
        have hne : ¬ part.length = 0 := by omega
        simp only [hne, if_false] at h
        obtain ⟨rest, hrest, hbs⟩ := Option.map_eq_some_iff.mp h
        obtain ⟨r1, r2⟩ := ih (start + part.length) (n + 1 - part.length) rest hrest
        subst hbs
        refine ⟨by rw [List.length_append, r1]; omega, ?_⟩
        intro k hk
        by_cases hkp : k < part.length
        · exact p3 k hkp
        · have := r2 (k - part.length) (by omega)
          have he : start + part.length + (k - part.length) = start + k := by omega
          rw [he] at this; exact this

/-- a request that succeeds has the requested length and lies inside the loaded image -/
theorem retrieve_some (img : Image) (start count : Nat) (bs : List UInt8) (h : retrieve img start count = some bs) :
    bs.length = count ∧ ∀ k, k < count → inImage img (start + k) :=
  retrieveF_some img count start count bs h

theorem retrieveF_complete (img : Image) : ∀ (fuel start count : Nat), count ≤ fuel →
    (∀ k, k < count → inImage img (start + k)) → (retrieveF img start fuel count).isSome = true := by
  intro fuel
  induction fuel with
  | zero =>
    intro start count hc _
    have : count = 0 := by omega
    subst this
    simp [retrieveF]
  | succ f ih =>
    intro start count hc hall
    cases count with
    | zero => simp [retrieveF]
    | succ n =>
      unfold retrieveF
      cases hov : overlapPart start (n + 1) img with
      | none =>
        exact absurd (by simpa using hall 0 (by omega)) (overlapPart_none start (n + 1) (by omega) img hov)
      | some part =>
        obtain ⟨p1, p2, _⟩ := overlapPart_some start (n + 1) (by omega) img part hov
        have hne : ¬ part.length = 0 := by omega
        simp only [hov, hne, if_false, Option.isSome_map]
        apply ih (start + part.length) (n + 1 - part.length) (by omega)
        intro k hk
        have := hall (part.length + k) (by omega)
        have he : start + (part.length + k) = start + part.length + k := by omega
        rw [he] at this; exact this

/-- `RetrieveCodeFromChunkList` succeeds exactly on the requests that lie inside the loaded image -/
theorem retrieve_isSome_iff (img : Image) (start count : Nat) :
    (retrieve img start count).isSome = true ↔ ∀ k, k < count → inImage img (start + k) := by
  constructor
  · intro h
    cases hr : retrieve img start count with
    | none => rw [hr] at h; cases h
    | some bs => exact (retrieve_some img start count bs hr).2
  · exact retrieveF_complete img count start count (Nat.le_refl _)

theorem retrieve_one_inImage (img : Image) (a : Nat) (bs : List UInt8) (h : retrieve img a 1 = some bs) : inImage img a := by
  simpa using (retrieve_some img a 1 bs h).2 0 (by omega)

theorem retrieve_none_of_not_inImage (img : Image) (a count : Nat) (hc : 0 < count) (h : ¬ inImage img a) :
    retrieve img a count = none := by
  cases hr : retrieve img a count with
  | none => rfl
  | some bs => exact absurd (by simpa using (retrieve_some img a count bs hr).2 0 hc) h

/-! ### the bytes a request returns -/

/-- one round copies, from one chunk that holds `start`, the bytes that chunk stores at `start`, `start+1`, … -/
theorem overlapPart_bytes (start count : Nat) : ∀ (img : Image) (p : List UInt8),
    overlapPart start count img = some p →
    ∃ c ∈ img, c.start ≤ start ∧ ∀ k, k < p.length → p[k]? = c.data[start + k - c.start]? := by
  intro img
  induction img with
  | nil => intro p h; simp [overlapPart] at h
  | cons c cs ih =>
    intro p h
    unfold overlapPart at h
    simp only at h
    split at h
    · rename_i hcond
      obtain ⟨h1, h2, h3⟩ := hcond
      simp only [Option.some.injEq] at h
      subst h
      refine ⟨c, List.mem_cons_self, by omega, ?_⟩
      intro k hk
      rw [List.length_take] at hk
      rw [List.getElem?_take, if_pos (by omega), List.getElem?_drop]
      congr 1
      omega
    · obtain ⟨d, hd, hx⟩ := ih p h
      exact ⟨d, List.mem_cons_of_mem _ hd, hx⟩

theorem retrieveF_bytes (img : Image) : ∀ (fuel start count : Nat) (bs : List UInt8),
    retrieveF img start fuel count = some bs →
    ∀ k, k < count → ∃ c ∈ img, c.start ≤ start + k ∧ bs[k]? = c.data[start + k - c.start]? := by
  intro fuel
  induction fuel with
  | zero =>
    intro start count bs h k hk
    cases count with
    | zero => omega
    | succ n => simp [retrieveF] at h
  | succ f ih =>
    intro start count bs h k hk
    cases count with
    | zero => omega
    | succ n =>
      unfold retrieveF at h
      cases hov : overlapPart start (n + 1) img with
      | none => simp [hov] at h
      | some part =>
        obtain ⟨p1, p2, _⟩ := overlapPart_some start (n + 1) (by omega) img part hov
        obtain ⟨c, hc, hcs, hcb⟩ := overlapPart_bytes start (n + 1) img part hov
        simp only [hov] at h
        have hne : ¬ part.length = 0 := by omega
        simp only [hne, if_false] at h
        obtain ⟨rest, hrest, hbs⟩ := Option.map_eq_some_iff.mp h
        subst hbs
        by_cases hkp : k < part.length
        · refine ⟨c, hc, by omega, ?_⟩
          rw [List.getElem?_append_left hkp]
          exact hcb k hkp
        · obtain ⟨d, hd, hds, hdb⟩ := ih (start + part.length) (n + 1 - part.length) rest hrest (k - part.length) (by omega)
          have he : start + part.length + (k - part.length) = start + k := by omega
          rw [he] at hds hdb
          refine ⟨d, hd, hds, ?_⟩
          rw [List.getElem?_append_right (by omega)]
          exact hdb

/-- every byte of an answered request is the byte some chunk of the image stores at that address -/
theorem retrieve_bytes (img : Image) (start count : Nat) (bs : List UInt8) (h : retrieve img start count = some bs) :
    ∀ k, k < count → ∃ b, bs[k]? = some b ∧ ∃ c ∈ img, c.start ≤ start + k ∧ c.data[start + k - c.start]? = some b := by
  intro k hk
  have hlen := (retrieve_some img start count bs h).1
  obtain ⟨c, hc, h1, h2⟩ := retrieveF_bytes img count start count bs h k hk
  have hb : bs[k]? = some (bs[k]'(by omega)) := List.getElem?_eq_getElem (by omega)
  exact ⟨_, hb, c, hc, h1, by rw [← h2, hb]⟩

end AslModel.Dis
