import AslModel.Lemmas.TagsRefine
/-! Lemmas for C11 (processor layer), part 7: the definition phase (the macro definitions of a tree fill the macro
table), the whole program on the abstract machine, and the transfer to the concrete machine. -/
namespace AslModel.Tags
open AslModel.MacroSpec AslModel.Macro AslModel.Generated

variable (q : Quirks) (cs : Bool)

/-! ### macro records and ids of a tree -/

mutual
def recsI (cs : Bool) : Item → List MacroRec
  | .line _ => []
  | .exitm => []
  | .rept _ _ _ body => recsB cs body
  | .irp _ _ _ _ body => recsB cs body
  | .irpn _ _ _ _ body => recsB cs body
  | .irpc _ _ _ _ body => recsB cs body
  | .call id ps ds _ body _ => recsB cs body ++ [recOf cs id ps ds body]
def recsB (cs : Bool) : Body → List MacroRec
  | .nil => []
  | .cons i rest => recsI cs i ++ recsB cs rest
end

mutual
/-- the ids of the call nodes (every call node carries its own macro) -/
def callIdsI : Item → List Nat
  | .line _ => []
  | .exitm => []
  | .rept _ _ _ body => callIdsB body
  | .irp _ _ _ _ body => callIdsB body
  | .irpn _ _ _ _ body => callIdsB body
  | .irpc _ _ _ _ body => callIdsB body
  | .call id _ _ _ body _ => callIdsB body ++ [id]
def callIdsB : Body → List Nat
  | .nil => []
  | .cons i rest => callIdsI i ++ callIdsB rest
end

mutual
theorem recsI_ids (cs : Bool) : ∀ (i : Item), (recsI cs i).map (·.id) = callIdsI i
  | .line _ => rfl
  | .exitm => rfl
  | .rept _ _ _ body => by simp [recsI, callIdsI, recsB_ids cs body]
  | .irp _ _ _ _ body => by simp [recsI, callIdsI, recsB_ids cs body]
  | .irpn _ _ _ _ body => by simp [recsI, callIdsI, recsB_ids cs body]
  | .irpc _ _ _ _ body => by simp [recsI, callIdsI, recsB_ids cs body]
  | .call id ps ds _ body _ => by simp [recsI, callIdsI, recsB_ids cs body, recOf]
theorem recsB_ids (cs : Bool) : ∀ (b : Body), (recsB cs b).map (·.id) = callIdsB b
  | .nil => rfl
  | .cons i rest => by simp [recsB, callIdsB, recsI_ids cs i, recsB_ids cs rest]
end

def addAll (tbl : List MacroRec) (recs : List MacroRec) : List MacroRec := recs.foldl addMacro tbl

theorem addAll_append (tbl a b : List MacroRec) : addAll tbl (a ++ b) = addAll (addAll tbl a) b := by
  simp [addAll, List.foldl_append]

theorem findMacro_none_of_not_mem : ∀ (l : List MacroRec) (id : Nat), id ∉ l.map (·.id) → findMacro l id = none
  | [], _, _ => rfl
  | m :: l, id, h => by
    simp only [List.map_cons, List.mem_cons, not_or] at h
    have : m.id ≠ id := fun e => h.1 e.symm
    simp only [findMacro, this, if_false]
    exact findMacro_none_of_not_mem l id h.2

theorem addAll_nodup : ∀ (recs tbl : List MacroRec), (tbl.map (·.id) ++ recs.map (·.id)).Nodup →
    addAll tbl recs = tbl ++ recs
  | [], tbl, _ => by simp [addAll]
  | r :: recs, tbl, h => by
    have hnot : r.id ∉ tbl.map (·.id) := by
      intro hm
      have := List.nodup_append.mp h
      exact this.2.2 _ hm _ (by simp) rfl
    have h1 : addMacro tbl r = tbl ++ [r] := by
      simp [addMacro, findMacro_none_of_not_mem tbl r.id hnot]
    have : addAll tbl (r :: recs) = addAll (tbl ++ [r]) recs := by simp [addAll, h1]
    rw [this, addAll_nodup recs (tbl ++ [r]) (by simpa [List.append_assoc] using h)]
    simp

theorem findMacro_mem : ∀ (l : List MacroRec) (r : MacroRec), (l.map (·.id)).Nodup → r ∈ l → findMacro l r.id = some r
  | [], _, _, h => by cases h
  | m :: l, r, hn, h => by
    simp only [List.map_cons, List.nodup_cons] at hn
    rcases List.mem_cons.mp h with rfl | h
    · simp [findMacro]
    · have hne : m.id ≠ r.id := by
        intro e
        apply hn.1
        rw [e]
        exact List.mem_map.mpr ⟨r, h, rfl⟩
      simp only [findMacro, hne, if_false]
      exact findMacro_mem l r hn.2 h

mutual
theorem tblI_of_mem (cs : Bool) (tbl : List MacroRec) : ∀ (i : Item),
    (∀ r ∈ recsI cs i, findMacro tbl r.id = some r) → TblI cs tbl i
  | .line _, _ => trivial
  | .exitm, _ => trivial
  | .rept _ _ _ body, h => by simp only [TblI]; exact tblB_of_mem cs tbl body (by simpa [recsI] using h)
  | .irp _ _ _ _ body, h => by simp only [TblI]; exact tblB_of_mem cs tbl body (by simpa [recsI] using h)
  | .irpn _ _ _ _ body, h => by simp only [TblI]; exact tblB_of_mem cs tbl body (by simpa [recsI] using h)
  | .irpc _ _ _ _ body, h => by simp only [TblI]; exact tblB_of_mem cs tbl body (by simpa [recsI] using h)
  | .call id ps ds _ body _, h => by
    simp only [TblI]
    refine ⟨?_, tblB_of_mem cs tbl body (fun r hr => h r (by simp [recsI, hr]))⟩
    have := h (recOf cs id ps ds body) (by simp [recsI])
    simpa [recOf] using this
theorem tblB_of_mem (cs : Bool) (tbl : List MacroRec) : ∀ (b : Body),
    (∀ r ∈ recsB cs b, findMacro tbl r.id = some r) → TblB cs tbl b
  | .nil, _ => trivial
  | .cons i rest, h => by
    simp only [TblB]
    exact ⟨tblI_of_mem cs tbl i (fun r hr => h r (by simp [recsB, hr])),
           tblB_of_mem cs tbl rest (fun r hr => h r (by simp [recsB, hr]))⟩
end

/-! ### the definition phase -/

theorem run_def (tbl : List MacroRec) (id : Nat) (ps ds : List Line) (body : Body)
    (hps : ∀ p ∈ ps, chkMacSymbName p = true)
    (junk : List ATag) (hj : AllE junk) (k0 : TKind) (R : List SLine) (rest : List ATag) (out : List Line) :
    Go q cs (cfg (junk ++ ⟨k0, (SLine.macroDef id ps ds :: (flatBody body ++ [.endm])) ++ R⟩ :: rest) none tbl out)
      (cfg (⟨k0, R⟩ :: rest) none (addMacro tbl (recOf cs id ps ds body)) out) := by
  have hx : ∀ s : St ATag, execute aops q cs (.macroDef id ps ds) s = startColl s (.mac id ps ds) := by
    intro s
    have : ps.all chkMacSymbName = true := List.all_eq_true.mpr hps
    have t : ps.map trimArg = ps :=
      map_trim_tidy ps (fun p hp => tidy_of_alnum p (nameOK_of_chk p (hps p hp)).2)
    simp only [execute, t, this, if_true]
  have g := gather q cs (.macroDef id ps ds) (.mac id ps ds) (by simp) hx (flatBody body) (collectsB q cs _)
    junk hj k0 R rest tbl out
  exact g

mutual
theorem defsI (tbl : List MacroRec) : ∀ (i : Item) (scope : List Line) (ex : Bool), WFI q cs scope ex i →
    ∀ (junk : List ATag), AllE junk → ∀ (k0 : TKind) (R : List SLine) (rest : List ATag) (out : List Line),
    ∃ junk', AllE junk' ∧
      Go q cs (cfg (junk ++ ⟨k0, defsItem i ++ R⟩ :: rest) none tbl out)
        (cfg (junk' ++ ⟨k0, R⟩ :: rest) none (addAll tbl (recsI cs i)) out)
  | .line _, _, _, _, junk, hj, k0, R, rest, out => ⟨junk, hj, by simpa [defsItem, recsI, addAll] using Go.refl q cs _⟩
  | .exitm, _, _, _, junk, hj, k0, R, rest, out => ⟨junk, hj, by simpa [defsItem, recsI, addAll] using Go.refl q cs _⟩
  | .rept _ _ _ body, scope, ex, h, junk, hj, k0, R, rest, out => by
    simp only [WFI] at h
    simpa [defsItem, recsI] using defsB tbl body scope true h.2 junk hj k0 R rest out
  | .irp _ var _ _ body, scope, ex, h, junk, hj, k0, R, rest, out => by
    simp only [WFI] at h
    simpa [defsItem, recsI] using defsB tbl body _ _ h.2.2.2.2.2 junk hj k0 R rest out
  | .irpn _ vars _ _ body, scope, ex, h, junk, hj, k0, R, rest, out => by
    simp only [WFI] at h
    simpa [defsItem, recsI] using defsB tbl body _ _ h.2.2.2.2.2.2 junk hj k0 R rest out
  | .irpc _ var _ _ body, scope, ex, h, junk, hj, k0, R, rest, out => by
    simp only [WFI] at h
    simpa [defsItem, recsI] using defsB tbl body _ _ h.2.2.2.2.2 junk hj k0 R rest out
  | .call id ps ds _ body _, scope, ex, h, junk, hj, k0, R, rest, out => by
    simp only [WFI] at h
    obtain ⟨j1, hj1, g1⟩ := defsB tbl body _ _ h.2.2.2.2.2.2.2.2 junk hj k0
      ((SLine.macroDef id ps ds :: (flatBody body ++ [.endm])) ++ R) rest out
    have g2 := run_def q cs (addAll tbl (recsB cs body)) id ps ds body h.2.1 j1 hj1 k0 R rest out
    refine ⟨[], allE_nil, ?_⟩
    have := Go.trans q cs g1 g2
    simpa [defsItem, recsI, addAll_append, addAll, List.append_assoc] using this
theorem defsB (tbl : List MacroRec) : ∀ (b : Body) (scope : List Line) (ex : Bool), WFB q cs scope ex b →
    ∀ (junk : List ATag), AllE junk → ∀ (k0 : TKind) (R : List SLine) (rest : List ATag) (out : List Line),
    ∃ junk', AllE junk' ∧
      Go q cs (cfg (junk ++ ⟨k0, defsBody b ++ R⟩ :: rest) none tbl out)
        (cfg (junk' ++ ⟨k0, R⟩ :: rest) none (addAll tbl (recsB cs b)) out)
  | .nil, _, _, _, junk, hj, k0, R, rest, out => ⟨junk, hj, by simpa [defsBody, recsB, addAll] using Go.refl q cs _⟩
  | .cons i b, scope, ex, h, junk, hj, k0, R, rest, out => by
    simp only [WFB] at h
    obtain ⟨j1, hj1, g1⟩ := defsI tbl i scope ex h.1 junk hj k0 (defsBody b ++ R) rest out
    obtain ⟨j2, hj2, g2⟩ := defsB (addAll tbl (recsI cs i)) b scope ex h.2 j1 hj1 k0 R rest out
    refine ⟨j2, hj2, ?_⟩
    have := Go.trans q cs g1 g2
    simpa [defsBody, recsB, addAll_append, List.append_assoc] using this
end

/-! ### end of input -/

theorem popEmpty_allE : ∀ (junk : List ATag), AllE junk → popEmpty aops junk = []
  | [], _ => rfl
  | t :: junk, h => by
    have ht : t.rem = [] := h t (by simp)
    have : aops.isEmpty t = true := by simp [aops, ht]
    simp only [popEmpty, this, if_true]
    exact popEmpty_allE junk (fun x hx => h x (by simp [hx]))

theorem step_final (tbl : List MacroRec) (out : List Line) : step aops q cs (cfg [] none tbl out) = none := by
  simp [step, cfg, fetch, popEmpty]

/-- when only exhausted tags are left the next round pops them all and the input has ended -/
theorem go_end (junk : List ATag) (hj : AllE junk) (tbl : List MacroRec) (out : List Line) :
    Go q cs (cfg junk none tbl out) (cfg [] none tbl out) := by
  cases junk with
  | nil => exact Go.refl q cs _
  | cons t junk =>
    apply Go.step
    simp [step, cfg, fetch, popEmpty_allE (t :: junk) hj]

theorem stable_of_go {s : St ATag} (tbl : List MacroRec) (out : List Line) (h : Go q cs s (cfg [] none tbl out)) :
    ∃ k, ∀ n, k ≤ n → run aops q cs n s = cfg [] none tbl out := by
  obtain ⟨k, hk⟩ := h
  refine ⟨k, fun n hn => ?_⟩
  have : n = k + (n - k) := by omega
  rw [this, run_add, hk, run_stuck aops q cs _ (step_final q cs tbl out)]

theorem rem_mkFile (src : List SLine) : rem (mkFile src) = src := by
  cases src with
  | nil => rfl
  | cons a b => simp [rem, mkFile, blankTag]

/-- transfer to the concrete machine -/
theorem concrete_of_go (src : List SLine) (tbl : List MacroRec) (out : List Line)
    (h : Go q cs (cfg [⟨.file, src⟩] none [] []) (cfg [] none tbl out)) :
    ∃ k, ∀ n, k ≤ n →
      (runFile q cs n src).out = out ∧ (runFile q cs n src).inp = [] ∧ (runFile q cs n src).coll = none ∧
      (runFile q cs n src).crashed = false ∧ (runFile q cs n src).macros = tbl := by
  have hinit : initSt (abs (mkFile src)) = cfg [⟨.file, src⟩] none [] [] := by
    have : abs (mkFile src) = ⟨.file, src⟩ := by simp only [abs, rem_mkFile]; rfl
    rw [this]; rfl
  obtain ⟨k, hk⟩ := stable_of_go q cs tbl out h
  refine ⟨k, fun n hn => ?_⟩
  have hr := hk n hn
  have := run_of_abstract q cs n src (by rw [hinit, hr]; rfl)
  rw [hinit, hr] at this
  have e1 := congrArg St.out this
  have e2 := congrArg St.inp this
  have e3 := congrArg St.coll this
  have e4 := congrArg St.crashed this
  have e5 := congrArg St.macros this
  simp only [mapSt, cfg] at e1 e2 e3 e4 e5
  refine ⟨e1, ?_, e3, e4, e5⟩
  exact List.map_eq_nil_iff.mp e2

/-! ### the whole program -/

theorem program_go (prog : Body) (hwf : WFB q cs [] false prog) (hid : (callIdsB prog).Nodup) :
    Go q cs (cfg [⟨.file, flatten prog⟩] none [] []) (cfg [] none (recsB cs prog) (expand cs prog)) := by
  -- definitions
  obtain ⟨j1, hj1, g1⟩ := defsB q cs [] prog [] false hwf [] allE_nil .file (flatBody prog) [] []
  have htbl : addAll [] (recsB cs prog) = recsB cs prog := by
    rw [addAll_nodup (recsB cs prog) [] (by simpa [recsB_ids] using hid)]; rfl
  rw [htbl] at g1
  have hT : TblB cs (recsB cs prog) prog :=
    tblB_of_mem cs _ prog (fun r hr => findMacro_mem _ r (by simpa [recsB_ids] using hid) hr)
  -- the top-level body
  obtain ⟨j2, hj2, g2⟩ := runB q cs (recsB cs prog) prog [] [] false (by intro pa h; cases h) (by intro pa h; cases h)
    hwf hT [] j1 hj1 .file (by intro h; cases h) [] [] []
  rw [substEB_nil] at g2
  simp only [List.append_nil, List.nil_append] at g1 g2
  have hj3 : AllE (j2 ++ [⟨.file, if (expandBody cs [] [] prog).2 = true then [] else []⟩]) := by
    have : (if (expandBody cs [] [] prog).2 = true then ([] : List SLine) else []) = [] := by simp
    rw [this]; exact allE_snoc hj2 .file
  have g3 := go_end q cs _ hj3 (recsB cs prog) (expandBody cs [] [] prog).1
  exact Go.trans q cs (Go.trans q cs g1 g2) g3

end AslModel.Tags
