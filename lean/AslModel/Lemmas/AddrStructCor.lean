import AslModel.Lemmas.AddrStruct
/-! Corollaries of the C10 refinement about complete STRUCT/UNION bodies (helper lemmas for `Props/C10.lean`). -/
namespace AslModel.Addr
open AslModel.Generated
open AslModel.AddrSpec (SFrame)

/-- the spec machine stays inside a structure body after every statement of the list -/
def InBody (segs : Nat → Nat → AddrSpec.SegInfo) : AddrSpec.A → List Stmt → Prop
  | _, [] => True
  | a, st :: rest =>
      match AddrSpec.step segs a st with
      | .ok a' _ => a'.frames ≠ [] ∧ InBody segs a' rest
      | _ => False

def inBodyB (segs : Nat → Nat → AddrSpec.SegInfo) : AddrSpec.A → List Stmt → Bool
  | _, [] => true
  | a, st :: rest =>
      match AddrSpec.step segs a st with
      | .ok a' _ => !a'.frames.isEmpty && inBodyB segs a' rest
      | _ => false

theorem inBodyB_sound (segs) : ∀ (sts : List Stmt) (a : AddrSpec.A), inBodyB segs a sts = true → InBody segs a sts := by
  intro sts
  induction sts with
  | nil => intro a _; trivial
  | cons st rest ih =>
    intro a h
    simp only [inBodyB] at h
    simp only [InBody]
    cases hs : AddrSpec.step segs a st with
    | ok a' d =>
      rw [hs] at h
      simp only [Bool.and_eq_true, Bool.not_eq_true', List.isEmpty_eq_false_iff] at h
      exact ⟨h.1, ih a' h.2⟩
    | reject => rw [hs] at h; exact absurd h (by simp)
    | unspecified => rw [hs] at h; exact absurd h (by simp)

/-- a statement met inside a body, or one that opens a body, leaves the segment counters of the spec machine alone -/
theorem spec_keeps (segs) (a : AddrSpec.A) (st : Stmt) (a' : AddrSpec.A) (d : List (Sym × Int))
    (hs : AddrSpec.step segs a st = .ok a' d) (hne : a.frames ≠ [] ∨ a'.frames ≠ []) :
    a'.pc = a.pc ∧ a'.seg = a.seg ∧ a'.started = a.started := by
  obtain ⟨lab, op⟩ := st
  rw [spec_step_label] at hs
  cases hs0 : AddrSpec.step segs a ⟨none, op⟩ with
  | reject => rw [hs0] at hs; simp [addDefs] at hs
  | unspecified => rw [hs0] at hs; simp [addDefs] at hs
  | ok a0 d0 =>
    rw [hs0] at hs
    simp only [addDefs, AddrSpec.Res.ok.injEq] at hs
    obtain ⟨rfl, _⟩ := hs
    cases hf : a.frames with
    | nil =>
      -- only STRUCT opens a body
      have hne' : a0.frames ≠ [] := by rcases hne with h | h; exact absurd hf h; exact h
      cases op <;> simp only [AddrSpec.step, hf, AddrSpec.reserve, AddrSpec.advance, AddrSpec.selectSeg, labelDefs_none] at hs0
      all_goals (try (splits_at hs0 <;> simp only [AddrSpec.Res.ok.injEq, reduceCtorEq] at hs0 <;> obtain ⟨rfl, _⟩ := hs0 <;> simp_all))
    | cons g gs =>
      cases op <;> simp only [AddrSpec.step, hf, AddrSpec.reserve, AddrSpec.advance, AddrSpec.selectSeg, labelDefs_none] at hs0
      all_goals (try (splits_at hs0 <;> simp only [AddrSpec.Res.ok.injEq, reduceCtorEq] at hs0 <;> obtain ⟨rfl, _⟩ := hs0 <;> simp_all))

theorem writeCode_ev_struct (d : Dec) (h : d.s.actPC = structSeg) : (writeCode d).2.ev = .none := by
  unfold writeCode
  splits <;> simp_all

/-- a statement that starts and ends inside a body hands nothing to the code file -/
theorem step_in_body_ev (cfg : Cfg) (s : St) (st : Stmt) (h2 : (step cfg s st).1.actPC = structSeg) :
    (step cfg s st).2.ev = .none := by
  have ha : (step cfg s st).1.actPC = (decode cfg (labelPart s st).1 st.op).s.actPC := by
    simp [step, writeCode_actPC]
  rw [ha] at h2
  simp only [step]
  exact writeCode_ev_struct _ h2

theorem Rin_pcs {s : St} {a : AddrSpec.A} (h : Rin s a) (t : Nat) (ht : a.started t = true) : s.pcs t = wrap64 (a.pc t) :=
  h.out.pcs t ht

theorem R_pcs {s : St} {a : AddrSpec.A} (h : R s a) (t : Nat) (ht : a.started t = true) : s.pcs t = wrap64 (a.pc t) := by
  rcases h with h | h
  · exact h.pcs t ht
  · exact Rin_pcs h t ht

/-- the segment the body is embedded in, seen from the model -/
theorem Rin_seg {s : St} {a : AddrSpec.A} (h : Rin s a) : s.structSaveSeg = a.seg := h.out.seg

/-- run of statements that all end inside a body, started inside a body -/
theorem body_run (cfg : Cfg) (segs) (hag : Agree segs) : ∀ (sts : List Stmt) (s : St) (a : AddrSpec.A), Rin s a →
    RunPre cfg segs a sts → InBody segs a sts → ∀ a' ds, AddrSpec.run segs a sts = some (a', ds) →
    Rin (run cfg s sts).1 a' ∧ (∀ o ∈ (run cfg s sts).2, o.ev = .none ∧ o.errs = [] ∧ o.crash = false) ∧
    (∀ t, t ≠ structSeg → (run cfg s sts).1.pcs t = s.pcs t) ∧
    a'.pc = a.pc ∧ a'.seg = a.seg ∧ a'.started = a.started := by
  intro sts
  induction sts with
  | nil =>
    intro s a h _ _ a' ds hr
    simp [AddrSpec.run] at hr
    obtain ⟨rfl, rfl⟩ := hr
    simp [run, h]
  | cons st rest ih =>
    intro s a h hp hib a' ds hr
    have hsim := refine_step cfg segs hag (Or.inr h) st hp.1
    have hp2 := hp.2
    unfold Sim at hsim
    simp only [AddrSpec.run] at hr
    simp only [InBody] at hib
    cases hst : AddrSpec.step segs a st with
    | reject => simp [hst] at hr
    | unspecified => simp [hst] at hr
    | ok a1 d =>
      rw [hst] at hsim hr hp2 hib
      simp only [Option.map_eq_some_iff] at hr
      obtain ⟨⟨a2, ds2⟩, hr2, heq⟩ := hr
      simp only [Prod.mk.injEq] at heq
      obtain ⟨rfl, rfl⟩ := heq
      obtain ⟨hR1, he1, hc1, hd1⟩ := hsim
      have h1 : Rin (step cfg s st).1 a1 := R_frames_ne hR1 hib.1
      obtain ⟨k1, k2, k3⟩ := spec_keeps segs a st a1 d hst (Or.inl h.ne)
      obtain ⟨i1, i2, i3, i4, i5, i6⟩ := ih (step cfg s st).1 a1 h1 hp2 hib.2 a2 ds2 hr2
      simp only [run, hc1, Bool.false_eq_true, if_false]
      refine ⟨i1, ?_, ?_, i4.trans k1, i5.trans k2, i6.trans k3⟩
      · intro o ho
        simp only [List.mem_cons] at ho
        rcases ho with rfl | ho
        · exact ⟨step_in_body_ev cfg s st h1.act, he1, hc1⟩
        · exact i2 o ho
      · intro t ht
        rw [i3 t ht]
        exact (step_same cfg s st t (by rw [h.act]; exact ht) (by rw [h1.act]; exact ht)).1

/-- the ENDSTRUCT that leaves the outermost body: back in the enclosing segment, only a record restart at its unchanged counter -/
theorem end_outer_ev (cfg : Cfg) {s : St} {a : AddrSpec.A} (h : Rin s a) (g : SFrame) (hg : a.frames = [g]) (lab : Option Nat) :
    (step cfg s ⟨lab, .endstruct⟩).2.ev = .jump (s.pcs s.structSaveSeg) ∧ (step cfg s ⟨lab, .endstruct⟩).1.actPC = s.structSaveSeg ∧
    (∀ t, t ≠ structSeg → (step cfg s ⟨lab, .endstruct⟩).1.pcs t = s.pcs t) := by
  obtain ⟨f, fs, hf, hk0, hr⟩ := Rin_top_eq h hg
  have hfs : fs = [] := FR_nil_right hr
  subst hfs
  have hstep : step cfg s ⟨lab, .endstruct⟩ = writeCode (codeENDSTRUCT s) := by
    simp [step, labelPart_structop s ⟨lab, .endstruct⟩ rfl, decode]
  have hns : s.structSaveSeg ≠ structSeg := Rin_saveSeg h
  have hpc : s.pcs s.structSaveSeg = wrap64 (a.pc a.seg) := by
    have := h.out.pcs a.seg (R_started h.out)
    rw [← Rin_seg h] at this ⊢
    exact this
  have hw : wrap64 (s.pcs s.structSaveSeg + 0) = s.pcs s.structSaveSeg := by
    rw [hpc]; simp only [wrap64_def]; omega
  rw [hstep, codeENDSTRUCT_eq s f [] hf h.act]
  simp only [List.isEmpty_nil, if_true]
  rw [writeCode_ok _ hns rfl (Or.inr rfl)]
  simp only [pc, upd, hns, if_false, if_true, hw]
  refine ⟨trivial, trivial, ?_⟩
  intro t ht
  by_cases h2 : t = s.structSaveSeg
  · subst h2; simp [ht, hw]
  · simp [h2, ht]

/-- the only statement that leaves the last open body is the ENDSTRUCT of the outermost structure -/
theorem spec_leaves (segs) (a : AddrSpec.A) (st : Stmt) (a' : AddrSpec.A) (d : List (Sym × Int))
    (hs : AddrSpec.step segs a st = .ok a' d) (hne : a.frames ≠ []) (he : a'.frames = []) :
    st.op = .endstruct ∧ ∃ g, a.frames = [g] := by
  obtain ⟨lab, op⟩ := st
  rw [spec_step_label] at hs
  cases hs0 : AddrSpec.step segs a ⟨none, op⟩ with
  | reject => rw [hs0] at hs; simp [addDefs] at hs
  | unspecified => rw [hs0] at hs; simp [addDefs] at hs
  | ok a0 d0 =>
    rw [hs0] at hs
    simp only [addDefs, AddrSpec.Res.ok.injEq] at hs
    obtain ⟨rfl, _⟩ := hs
    cases hf : a.frames with
    | nil => exact absurd hf hne
    | cons g gs =>
      cases op <;> simp only [AddrSpec.step, hf, AddrSpec.reserve, AddrSpec.advance, AddrSpec.selectSeg, labelDefs_none] at hs0
      all_goals (try (splits_at hs0 <;> simp only [AddrSpec.Res.ok.injEq, reduceCtorEq] at hs0 <;> obtain ⟨rfl, _⟩ := hs0 <;> simp_all))

/-- a body from somewhere inside to the ENDSTRUCT that leaves the outermost structure -/
theorem body_then_end (cfg : Cfg) (segs) (hag : Agree segs) (tl : Stmt) : ∀ (body : List Stmt) (s : St) (a : AddrSpec.A), Rin s a →
    RunPre cfg segs a (body ++ [tl]) → InBody segs a body → ∀ a' ds, AddrSpec.run segs a (body ++ [tl]) = some (a', ds) →
    a'.frames = [] →
    (∃ outs last, (run cfg s (body ++ [tl])).2 = outs ++ [last] ∧ (∀ o ∈ outs, o.ev = .none ∧ o.errs = [] ∧ o.crash = false) ∧
       last.ev = .jump (s.pcs s.structSaveSeg) ∧ last.errs = [] ∧ last.crash = false) ∧
    (run cfg s (body ++ [tl])).1.actPC = s.structSaveSeg ∧
    (∀ t, t ≠ structSeg → (run cfg s (body ++ [tl])).1.pcs t = s.pcs t) ∧
    R (run cfg s (body ++ [tl])).1 a' ∧ a'.pc = a.pc ∧ a'.seg = a.seg := by
  intro body
  induction body with
  | nil =>
    intro s a h hp _ a' ds hr he
    simp only [List.nil_append, AddrSpec.run] at hr
    have hsim := refine_step cfg segs hag (Or.inr h) tl hp.1
    unfold Sim at hsim
    cases hst : AddrSpec.step segs a tl with
    | reject => simp [hst] at hr
    | unspecified => simp [hst] at hr
    | ok a1 d =>
      rw [hst] at hsim hr
      simp only [Option.map_some, Option.some.injEq, Prod.mk.injEq] at hr
      obtain ⟨rfl, _⟩ := hr
      obtain ⟨hR1, he1, hc1, hd1⟩ := hsim
      obtain ⟨hop, g, hg⟩ := spec_leaves segs a tl a1 d hst h.ne he
      obtain ⟨k1, k2, k3⟩ := spec_keeps segs a tl a1 d hst (Or.inl h.ne)
      obtain ⟨lab, op⟩ := tl
      simp only at hop
      subst hop
      obtain ⟨e1, e2, e3⟩ := end_outer_ev cfg h g hg lab
      simp only [List.nil_append, run, hc1, Bool.false_eq_true, if_false]
      exact ⟨⟨[], _, rfl, by simp, e1, he1, hc1⟩, e2, e3, hR1, k1, k2⟩
  | cons st rest ih =>
    intro s a h hp hib a' ds hr he
    have hsim := refine_step cfg segs hag (Or.inr h) st hp.1
    have hp2 := hp.2
    unfold Sim at hsim
    simp only [List.cons_append, AddrSpec.run] at hr
    simp only [InBody] at hib
    cases hst : AddrSpec.step segs a st with
    | reject => simp [hst] at hr
    | unspecified => simp [hst] at hr
    | ok a1 d =>
      rw [hst] at hsim hr hp2 hib
      simp only [Option.map_eq_some_iff] at hr
      obtain ⟨⟨a2, ds2⟩, hr2, heq⟩ := hr
      simp only [Prod.mk.injEq] at heq
      obtain ⟨rfl, rfl⟩ := heq
      obtain ⟨hR1, he1, hc1, hd1⟩ := hsim
      have h1 : Rin (step cfg s st).1 a1 := R_frames_ne hR1 hib.1
      obtain ⟨k1, k2, k3⟩ := spec_keeps segs a st a1 d hst (Or.inl h.ne)
      obtain ⟨⟨outs, last, j1, j2, j3, j4, j5⟩, i2, i3, i4, i5, i6⟩ := ih (step cfg s st).1 a1 h1 hp2 hib.2 a2 ds2 hr2 he
      have hsame := fun t (ht : t ≠ structSeg) => (step_same cfg s st t (by rw [h.act]; exact ht) (by rw [h1.act]; exact ht)).1
      have hseg : (step cfg s st).1.structSaveSeg = s.structSaveSeg := by rw [Rin_seg h1, Rin_seg h, k2]
      simp only [List.cons_append, run, hc1, Bool.false_eq_true, if_false]
      refine ⟨⟨(step cfg s st).2 :: outs, last, by rw [j1]; rfl, ?_, ?_, j4, j5⟩, by rw [i2, hseg], ?_, i4, i5.trans k1, i6.trans k2⟩
      · intro o ho
        simp only [List.mem_cons] at ho
        rcases ho with rfl | ho
        · exact ⟨step_in_body_ev cfg s st h1.act, he1, hc1⟩
        · exact j2 o ho
      · rw [j3, hseg, hsame _ (Rin_saveSeg h)]
      · intro t ht
        rw [i3 t ht]
        exact hsame t ht

/-! ## Runs of the spec machine: concatenation -/

theorem spec_run_append (segs) : ∀ (xs ys : List Stmt) (a a1 a2 : AddrSpec.A) (d1 d2 : List (List (Sym × Int))),
    AddrSpec.run segs a xs = some (a1, d1) → AddrSpec.run segs a1 ys = some (a2, d2) →
    AddrSpec.run segs a (xs ++ ys) = some (a2, d1 ++ d2) := by
  intro xs
  induction xs with
  | nil =>
    intro ys a a1 a2 d1 d2 h1 h2
    simp only [AddrSpec.run, Option.some.injEq, Prod.mk.injEq] at h1
    obtain ⟨rfl, rfl⟩ := h1
    simpa using h2
  | cons x xs ih =>
    intro ys a a1 a2 d1 d2 h1 h2
    simp only [AddrSpec.run, List.cons_append] at h1 ⊢
    cases hs : AddrSpec.step segs a x with
    | reject => simp [hs] at h1
    | unspecified => simp [hs] at h1
    | ok a' d =>
      rw [hs] at h1
      simp only [Option.map_eq_some_iff] at h1
      obtain ⟨⟨a3, d3⟩, hr, heq⟩ := h1
      simp only [Prod.mk.injEq] at heq
      obtain ⟨rfl, rfl⟩ := heq
      simp only []
      rw [ih ys a' a3 a2 d3 d2 hr h2]
      rfl

theorem RunPre_append (cfg : Cfg) (segs) : ∀ (xs ys : List Stmt) (a a1 : AddrSpec.A) (d1 : List (List (Sym × Int))),
    RunPre cfg segs a xs → AddrSpec.run segs a xs = some (a1, d1) → RunPre cfg segs a1 ys → RunPre cfg segs a (xs ++ ys) := by
  intro xs
  induction xs with
  | nil =>
    intro ys a a1 d1 _ h1 h2
    simp only [AddrSpec.run, Option.some.injEq, Prod.mk.injEq] at h1
    obtain ⟨rfl, rfl⟩ := h1
    simpa using h2
  | cons x xs ih =>
    intro ys a a1 d1 hp h1 h2
    simp only [AddrSpec.run] at h1
    simp only [List.cons_append, RunPre] at hp ⊢
    refine ⟨hp.1, ?_⟩
    cases hs : AddrSpec.step segs a x with
    | reject => trivial
    | unspecified => trivial
    | ok a' d =>
      rw [hs] at h1 hp
      simp only [Option.map_eq_some_iff] at h1
      obtain ⟨⟨a3, d3⟩, hr, heq⟩ := h1
      simp only [Prod.mk.injEq] at heq
      obtain ⟨rfl, rfl⟩ := heq
      exact ih ys a' a3 d3 hp.2 hr h2

/-! ## A union that is not embedded: members and length -/

def unionBody (ms : List (Nat × Int)) : List Stmt := ms.map (fun m => ⟨some m.1, .res m.2⟩)

/-- maximum of `m0` and the member lengths -/
def maxLen (m0 : Int) (ms : List (Nat × Int)) : Int := ms.foldl (fun acc m => max acc m.2) m0

theorem maxLen_cons (m0 : Int) (m : Nat × Int) (ms : List (Nat × Int)) : maxLen m0 (m :: ms) = maxLen (max m0 m.2) ms := rfl

theorem maxLen_ge : ∀ (ms : List (Nat × Int)) (m0 : Int), m0 ≤ maxLen m0 ms ∧ (∀ m ∈ ms, m.2 ≤ maxLen m0 ms)
  | [], m0 => ⟨Int.le_refl _, fun _ h => absurd h (by simp)⟩
  | m :: ms, m0 => by
    obtain ⟨i1, i2⟩ := maxLen_ge ms (max m0 m.2)
    rw [maxLen_cons]
    refine ⟨by omega, ?_⟩
    intro x hx
    simp only [List.mem_cons] at hx
    rcases hx with rfl | hx
    · omega
    · exact i2 x hx

theorem maxLen_attained : ∀ (ms : List (Nat × Int)) (m0 : Int), maxLen m0 ms = m0 ∨ ∃ m ∈ ms, maxLen m0 ms = m.2
  | [], _ => Or.inl rfl
  | m :: ms, m0 => by
    rw [maxLen_cons]
    rcases maxLen_attained ms (max m0 m.2) with h | ⟨x, hx, h⟩
    · by_cases hc : m0 ≤ m.2
      · right; exact ⟨m, by simp, by rw [h]; omega⟩
      · left; rw [h]; omega
    · right; exact ⟨x, by simp [hx], h⟩

theorem maxLen_lt (B : Int) : ∀ (ms : List (Nat × Int)) (m0 : Int), m0 < B → (∀ m ∈ ms, m.2 < B) → maxLen m0 ms < B
  | [], _, h, _ => h
  | m :: ms, m0, h, hm => by
    rw [maxLen_cons]
    have := hm m (by simp)
    exact maxLen_lt B ms _ (by omega) (fun x hx => hm x (by simp [hx]))

/-- inside a union that is not embedded: every member is defined as offset 0 … and the recorded length becomes the maximum -/
theorem spec_union_body (cfg : Cfg) (segs) : ∀ (ms : List (Nat × Int)) (a : AddrSpec.A) (g : SFrame), a.frames = [g] → g.isUnion = true →
    0 ≤ g.len → g.len < 2147483648 → (∀ m ∈ ms, 0 < m.2 ∧ m.2 < 2147483648) →
    AddrSpec.run segs a (unionBody ms) =
      some ({ a with frames := [{ g with len := maxLen g.len ms }] },
            ms.map (fun m => [(⟨AddrSpec.namedPath [g], some m.1⟩, g.cur)])) ∧
    RunPre cfg segs a (unionBody ms) := by
  intro ms
  induction ms with
  | nil =>
    intro a g hg _ _ _ _
    simp only [unionBody, List.map_nil, AddrSpec.run, maxLen, List.foldl_nil, RunPre, and_true]
    rw [A_frames_eq a [g] hg]
  | cons m ms ih =>
    intro a g hg hu h0 h1 hm
    obtain ⟨hm1, hm2⟩ := hm m (by simp)
    have hk : ¬ m.2 ≤ 0 := by omega
    have hstep : AddrSpec.step segs a ⟨some m.1, .res m.2⟩ =
        .ok { a with frames := [{ g with len := max g.len m.2 }] } [(⟨AddrSpec.namedPath [g], some m.1⟩, g.cur)] := by
      simp [AddrSpec.step, hk, AddrSpec.reserve, AddrSpec.advance, hg, hu, AddrSpec.labelDefs, AddrSpec.labelDef, AddrSpec.dollar, AddrSpec.baseSum]
    obtain ⟨i1, i2⟩ := ih { a with frames := [{ g with len := max g.len m.2 }] } { g with len := max g.len m.2 } rfl hu
      (by show 0 ≤ max g.len m.2; omega) (by show max g.len m.2 < 2147483648; omega) (fun x hx => hm x (by simp [hx]))
    have hnp : AddrSpec.namedPath [{ g with len := max g.len m.2 }] = AddrSpec.namedPath [g] := namedPath_congr _ g [] rfl
    constructor
    · simp only [unionBody, List.map_cons, AddrSpec.run] at i1 ⊢
      rw [hstep]
      dsimp only
      rw [i1, hnp]
      rfl
    · simp only [unionBody, List.map_cons, RunPre] at i2 ⊢
      unfold Pre
      rw [hstep]
      dsimp only
      refine ⟨⟨?_, ?_⟩, i2⟩
      · rw [hg]; exact hm2
      · simp only [lbOut, lbUnder, hu, if_true]; omega

/-- `nm UNION`, members `l: DS k`, `ENDUNION` -/
def unionProg (nm : Nat) (ms : List (Nat × Int)) : List Stmt :=
  ⟨none, .struct (some nm) true⟩ :: (unionBody ms ++ [⟨none, .endstruct⟩])

theorem spec_union_prog (cfg : Cfg) (segs) (a : AddrSpec.A) (hf : a.frames = []) (nm : Nat) (ms : List (Nat × Int))
    (hm : ∀ m ∈ ms, 0 < m.2 ∧ m.2 < 2147483648) :
    AddrSpec.run segs a (unionProg nm ms) =
      some (a, [] :: (ms.map (fun m => [(⟨[nm], some m.1⟩, 0)]) ++ [[(⟨[nm], none⟩, maxLen 0 ms)]])) ∧
    RunPre cfg segs a (unionProg nm ms) := by
  let g0 : SFrame := { name := some nm, isUnion := true, base := AddrSpec.dollar a, cur := 0, len := 0 }
  have hs1 : AddrSpec.step segs a ⟨none, .struct (some nm) true⟩ = .ok { a with frames := [g0] } [] := by
    simp [AddrSpec.step, hf, g0]
  obtain ⟨b1, b2⟩ := spec_union_body cfg segs ms { a with frames := [g0] } g0 rfl rfl (Int.le_refl _) (by show (0 : Int) < 2147483648; decide) hm
  have hnp : AddrSpec.namedPath [g0] = [nm] := by simp [AddrSpec.namedPath, g0]
  have hs3 : AddrSpec.step segs { a with frames := [{ g0 with len := maxLen g0.len ms }] } ⟨none, .endstruct⟩ =
      .ok a [(⟨[nm], none⟩, maxLen 0 ms)] := by
    rw [spec_end_outer segs _ _ rfl]
    have : ({ a with frames := [] } : AddrSpec.A) = a := A_frames_eq a [] hf
    simp only [lenDefs, topLen, g0]
    rw [this]
    simp [AddrSpec.namedPath]
  have hr3 : AddrSpec.run segs { a with frames := [{ g0 with len := maxLen g0.len ms }] } [⟨none, .endstruct⟩] =
      some (a, [[(⟨[nm], none⟩, maxLen 0 ms)]]) := by
    simp only [AddrSpec.run, hs3, Option.map_some]
  have hp3 : RunPre cfg segs { a with frames := [{ g0 with len := maxLen g0.len ms }] } [⟨none, .endstruct⟩] := by
    simp only [RunPre, Pre, hs3, hf, PreIn, lbOut]
    decide
  have hr23 := spec_run_append segs _ _ _ _ _ _ _ b1 hr3
  have hp23 := RunPre_append cfg segs _ _ _ _ _ b2 b1 hp3
  constructor
  · simp only [unionProg, AddrSpec.run, hs1]
    rw [hr23]
    simp [hnp, g0]
  · simp only [unionProg, RunPre, Pre, hs1, hf, isStructOp, lbOut, lbUnder, g0]
    exact ⟨⟨by first | exact Or.inl rfl | exact Or.inl trivial | trivial, by decide⟩, hp23⟩

end AslModel.Addr
