import AslModel.Lemmas.MacroLabelsRun
/-! C11 labels, step 3 of the whole-program refinement: the chains of the list of executed statements of every program are
consistent (`flat_wf`): handles and copy numbers are handed out from counters that only grow, so each names one copy; the
labels of a copy's body text (`labelsOf`) are exactly the label statements executed with the copy as innermost chain element. -/
namespace AslModel.MacroLabels
open AslModel.MacroLabelsSpec

def Bnd (fr : List Fr) (c : Cs) : Prop := ∀ f ∈ fr, f.h < c.cnt ∧ f.id < c.next

/-- `X` was produced inside the chain `fr` while the counters went from `c` to `c'` -/
structure Seg (fr : List Fr) (c : Cs) (X : List Xe) (c' : Cs) : Prop where
  le : c.cnt ≤ c'.cnt ∧ c.next ≤ c'.next
  shape : ∀ x ∈ X, ∃ new, x.fr = new ++ fr ∧
    ∀ f ∈ new, c.cnt ≤ f.h ∧ f.h < c'.cnt ∧ c.next ≤ f.id ∧ f.id < c'.next
  inj_h : ∀ f ∈ framesOf X, ∀ g ∈ framesOf X, c.cnt ≤ f.h → f.h = g.h → f = g
  inj_id : ∀ f ∈ framesOf X, ∀ g ∈ framesOf X, c.next ≤ f.id → f.id = g.id → f = g
  names : ∀ f ∈ framesOf X, c.cnt ≤ f.h → ∀ k, f.names.contains k = defined X k (some f.h)

def atLvl (k : Nat) (fr : List Fr) (y : Xe) : Bool := y.isDef && y.name == k && decide (y.fr = fr)

/-- the label statements of `X` executed directly in the chain `fr` are those of the label list `L` -/
def LabAt (fr : List Fr) (L : List Nat) (X : List Xe) : Prop := ∀ k, X.any (atLvl k fr) = L.contains k

theorem framesOf_append (A B : List Xe) : framesOf (A ++ B) = framesOf A ++ framesOf B := by
  simp [framesOf, List.flatMap_append]

theorem Seg.frames {fr : List Fr} {c c' : Cs} {X : List Xe} (s : Seg fr c X c') (f : Fr) (hf : f ∈ framesOf X) :
    f ∈ fr ∨ (c.cnt ≤ f.h ∧ f.h < c'.cnt ∧ c.next ≤ f.id ∧ f.id < c'.next) := by
  unfold framesOf at hf
  obtain ⟨x, hx, hfx⟩ := List.mem_flatMap.mp hf
  obtain ⟨new, h1, h2⟩ := s.shape x hx
  rw [h1] at hfx
  rcases List.mem_append.mp hfx with h | h
  · exact Or.inr (h2 f h)
  · exact Or.inl h

theorem Seg.mono {fr : List Fr} {c c' c'' : Cs} {X : List Xe} (s : Seg fr c X c') (h1 : c'.cnt ≤ c''.cnt)
    (h2 : c'.next ≤ c''.next) : Seg fr c X c'' := by
  have hle := s.le
  refine ⟨⟨by omega, by omega⟩, ?_, s.inj_h, s.inj_id, s.names⟩
  intro x hx
  obtain ⟨new, e, hn⟩ := s.shape x hx
  exact ⟨new, e, fun f hf => by have := hn f hf; omega⟩

theorem defined_false_of_tops (Y : List Xe) (k h : Nat) (hY : ∀ g ∈ framesOf Y, g.h ≠ h) : defined Y k (some h) = false := by
  cases hd : defined Y k (some h) with
  | false => rfl
  | true =>
    exfalso
    simp only [defined, List.any_eq_true, Bool.and_eq_true, beq_iff_eq] at hd
    obtain ⟨y, hy, _, ht⟩ := hd
    unfold topH at ht
    cases hq : y.fr.head? with
    | none => rw [hq] at ht; cases ht
    | some g =>
      rw [hq] at ht
      simp only [Option.map_some, Option.some.injEq] at ht
      exact hY g (mem_framesOf hy (List.mem_of_mem_head? hq)) ht

theorem Seg.append {fr : List Fr} {c c1 c2 : Cs} {A B : List Xe} (hb : Bnd fr c) (sa : Seg fr c A c1) (sb : Seg fr c1 B c2) :
    Seg fr c (A ++ B) c2 := by
  have la := sa.le
  have lb := sb.le
  have hfa := sa.frames
  have hfb := sb.frames
  refine ⟨⟨by omega, by omega⟩, ?_, ?_, ?_, ?_⟩
  · intro x hx
    rcases List.mem_append.mp hx with h | h
    · obtain ⟨new, e, hn⟩ := sa.shape x h
      exact ⟨new, e, fun f hf => by have := hn f hf; omega⟩
    · obtain ⟨new, e, hn⟩ := sb.shape x h
      exact ⟨new, e, fun f hf => by have := hn f hf; omega⟩
  · intro f hf g hg hc e
    rw [framesOf_append] at hf hg
    rcases List.mem_append.mp hf with hf | hf <;> rcases List.mem_append.mp hg with hg | hg
    · exact sa.inj_h f hf g hg hc e
    · exfalso
      rcases hfa f hf with h | h
      · have := hb f h; omega
      · rcases hfb g hg with h' | h'
        · have := hb g h'; omega
        · omega
    · exfalso
      rcases hfb f hf with h | h
      · have := hb f h; omega
      · rcases hfa g hg with h' | h'
        · have := hb g h'; omega
        · omega
    · rcases hfb f hf with h | h
      · have := hb f h; omega
      · exact sb.inj_h f hf g hg h.1 e
  · intro f hf g hg hc e
    rw [framesOf_append] at hf hg
    rcases List.mem_append.mp hf with hf | hf <;> rcases List.mem_append.mp hg with hg | hg
    · exact sa.inj_id f hf g hg hc e
    · exfalso
      rcases hfa f hf with h | h
      · have := hb f h; omega
      · rcases hfb g hg with h' | h'
        · have := hb g h'; omega
        · omega
    · exfalso
      rcases hfb f hf with h | h
      · have := hb f h; omega
      · rcases hfa g hg with h' | h'
        · have := hb g h'; omega
        · omega
    · rcases hfb f hf with h | h
      · have := hb f h; omega
      · exact sb.inj_id f hf g hg h.2.2.1 e
  · intro f hf hc k
    rw [framesOf_append] at hf
    rw [defined_append]
    rcases List.mem_append.mp hf with hf | hf
    · rcases hfa f hf with h | h
      · have := hb f h; omega
      · rw [sa.names f hf hc k, defined_false_of_tops B k f.h, Bool.or_false]
        intro g hg
        rcases hfb g hg with h' | h'
        · have := hb g h'; omega
        · omega
    · rcases hfb f hf with h | h
      · have := hb f h; omega
      · rw [sb.names f hf h.1 k, defined_false_of_tops A k f.h, Bool.false_or]
        intro g hg
        rcases hfa g hg with h' | h'
        · have := hb g h'; omega
        · omega

theorem Seg.empty (fr : List Fr) (c : Cs) : Seg fr c [] c := by
  refine ⟨⟨Nat.le_refl _, Nat.le_refl _⟩, ?_, ?_, ?_, ?_⟩
  · intro x hx; cases hx
  · intro f hf; simp [framesOf] at hf
  · intro f hf; simp [framesOf] at hf
  · intro f hf; simp [framesOf] at hf

theorem Seg.leaf (fr : List Fr) (c : Cs) (hb : Bnd fr c) (d : Bool) (k : Nat) : Seg fr c [⟨d, k, fr⟩] c := by
  have hfr : ∀ f ∈ framesOf [(⟨d, k, fr⟩ : Xe)], f ∈ fr := by intro f hf; simpa [framesOf] using hf
  refine ⟨⟨Nat.le_refl _, Nat.le_refl _⟩, ?_, ?_, ?_, ?_⟩
  · intro x hx
    simp only [List.mem_singleton] at hx
    subst hx
    exact ⟨[], rfl, by intro f hf; cases hf⟩
  · intro f hf g _ hc _; have := hb f (hfr f hf); omega
  · intro f hf g _ hc _; have := hb f (hfr f hf); omega
  · intro f hf hc; have := hb f (hfr f hf); omega

theorem any_congr_mem {α : Type} (X : List α) (p q : α → Bool) (h : ∀ y ∈ X, p y = q y) : X.any p = X.any q := by
  induction X with
  | nil => rfl
  | cons y r ih =>
    simp only [List.any_cons, h y List.mem_cons_self]
    rw [ih (fun z hz => h z (List.mem_cons_of_mem _ hz))]

theorem cons_append_ne (g : Fr) (new l : List Fr) : (g :: new) ++ l ≠ l := by
  intro h
  have := congrArg List.length h
  simp at this
  omega

theorem ne_append_cons (new : List Fr) (f0 : Fr) (fr : List Fr) : new ++ f0 :: fr ≠ fr := by
  intro h
  have := congrArg List.length h
  simp at this
  omega

/-- one copy of a body without GLOBALSYMBOLS, seen from outside -/
theorem Seg.wrap {fr : List Fr} {c c' : Cs} {X : List Xe} (names : List Nat) (hb : Bnd fr c)
    (s : Seg (⟨c.cnt, names, c.next⟩ :: fr) ⟨c.cnt + 1, c.next + 1⟩ X c')
    (hl : LabAt (⟨c.cnt, names, c.next⟩ :: fr) names X) : Seg fr c X c' ∧ LabAt fr [] X := by
  have le := s.le
  simp only at le
  have hfs := s.frames
  constructor
  · refine ⟨⟨by omega, by omega⟩, ?_, ?_, ?_, ?_⟩
    · intro x hx
      obtain ⟨new, e, hn⟩ := s.shape x hx
      refine ⟨new ++ [⟨c.cnt, names, c.next⟩], by rw [e]; simp, ?_⟩
      intro f hf
      rcases List.mem_append.mp hf with h | h
      · have := hn f h; simp only at this; omega
      · simp only [List.mem_singleton] at h; subst h; simp only; omega
    · intro f hf g hg hc e
      rcases hfs f hf with h | h
      · rcases List.mem_cons.mp h with h | h
        · rcases hfs g hg with h' | h'
          · rcases List.mem_cons.mp h' with h' | h'
            · rw [h, h']
            · have := hb g h'; subst h; simp only at e; omega
          · subst h; simp only at e h'; omega
        · have := hb f h; omega
      · exact s.inj_h f hf g hg h.1 e
    · intro f hf g hg hc e
      rcases hfs f hf with h | h
      · rcases List.mem_cons.mp h with h | h
        · rcases hfs g hg with h' | h'
          · rcases List.mem_cons.mp h' with h' | h'
            · rw [h, h']
            · have := hb g h'; subst h; simp only at e; omega
          · subst h; simp only at e h'; omega
        · have := hb f h; omega
      · exact s.inj_id f hf g hg h.2.2.1 e
    · intro f hf hc k
      rcases hfs f hf with h | h
      · rcases List.mem_cons.mp h with h | h
        · subst h
          simp only
          rw [← hl k]
          apply any_congr_mem
          intro y hy
          obtain ⟨new, e, hn⟩ := s.shape y hy
          simp only [atLvl, topH, e]
          cases new with
          | nil => simp
          | cons g new' =>
            have hg := hn g List.mem_cons_self
            simp only at hg
            have h2 : (g.h == c.cnt) = false := by simp; omega
            have h3 : decide ((g :: new') ++ ⟨c.cnt, names, c.next⟩ :: fr = ⟨c.cnt, names, c.next⟩ :: fr) = false :=
              decide_eq_false (cons_append_ne _ _ _)
            rw [h3]
            simp [h2]
        · have := hb f h; omega
      · exact s.names f hf h.1 k
  · intro k
    simp only [List.contains_nil, List.any_eq_false]
    intro y hy
    obtain ⟨new, e, _⟩ := s.shape y hy
    simp [atLvl, e, ne_append_cons]

/-! ### the loop -/

theorem labAt_append {fr : List Fr} {L1 L2 : List Nat} {A B : List Xe} (ha : LabAt fr L1 A) (hb : LabAt fr L2 B) :
    LabAt fr (L1 ++ L2) (A ++ B) := by
  intro k
  rw [List.any_append, ha k, hb k]
  simp [List.contains_eq_mem, List.mem_append]

theorem iterF_seg (glob : Bool) (fr : List Fr) (names : List Nat) (bodyF : List Fr → Cs → List Xe × Cs)
    (hbody : ∀ fr' c, Bnd fr' c → Seg fr' c (bodyF fr' c).1 (bodyF fr' c).2 ∧ LabAt fr' names (bodyF fr' c).1)
    (c : Cs) (hb : Bnd fr c) :
    Seg fr c (iterF glob fr names bodyF c).1 (iterF glob fr names bodyF c).2 ∧
      LabAt fr (if glob then names else []) (iterF glob fr names bodyF c).1 := by
  unfold iterF
  cases glob with
  | true => simpa using hbody fr c hb
  | false =>
    simp only [Bool.false_eq_true, if_false]
    have hb' : Bnd (⟨c.cnt, names, c.next⟩ :: fr) ⟨c.cnt + 1, c.next + 1⟩ := by
      intro f hf
      rcases List.mem_cons.mp hf with h | h
      · subst h; simp
      · have := hb f h; simp only; omega
    have := hbody _ _ hb'
    exact Seg.wrap names hb this.1 this.2

theorem Bnd.mono {fr : List Fr} {c c' : Cs} (hb : Bnd fr c) (h1 : c.cnt ≤ c'.cnt) (h2 : c.next ≤ c'.next) : Bnd fr c' := by
  intro f hf; have := hb f hf; omega

theorem loopF_seg (glob : Bool) (fr : List Fr) (names : List Nat) (bodyF : List Fr → Cs → List Xe × Cs)
    (hbody : ∀ fr' c, Bnd fr' c → Seg fr' c (bodyF fr' c).1 (bodyF fr' c).2 ∧ LabAt fr' names (bodyF fr' c).1) :
    ∀ (n : Nat) (c : Cs), Bnd fr c →
      Seg fr c (loopF glob fr names bodyF n c).1 (loopF glob fr names bodyF n c).2 ∧
        LabAt fr (if glob ∧ n > 0 then names else []) (loopF glob fr names bodyF n c).1 := by
  intro n
  induction n with
  | zero =>
    intro c _
    simp only [loopF]
    exact ⟨Seg.empty fr c, by intro k; simp⟩
  | succ n ih =>
    intro c hb
    simp only [loopF]
    have h1 := iterF_seg glob fr names bodyF hbody c hb
    have h2 := ih (iterF glob fr names bodyF c).2 (hb.mono h1.1.le.1 h1.1.le.2)
    refine ⟨Seg.append hb h1.1 h2.1, ?_⟩
    have := labAt_append h1.2 h2.2
    intro k
    rw [this k]
    cases glob <;> by_cases hn : n > 0 <;> simp [hn, List.contains_eq_mem]

def labelsOfItem : Item → List Nat
  | .lab k => [k]
  | .ref _ => []
  | .con _ glob n body => if glob ∧ n > 0 then labelsOf body else []

theorem labelsOf_cons (i : Item) (r : Items) : labelsOf (.cons i r) = labelsOfItem i ++ labelsOf r := by
  cases i <;> simp [labelsOf, labelsOfItem]

mutual
theorem flatItem_seg : ∀ (i : Item) (fr : List Fr) (c : Cs), Bnd fr c →
    Seg fr c (flatItem fr i c).1 (flatItem fr i c).2 ∧ LabAt fr (labelsOfItem i) (flatItem fr i c).1
  | .lab k, fr, c, hb => by
    refine ⟨by simpa [flatItem] using Seg.leaf fr c hb true k, ?_⟩
    intro j
    simp only [flatItem, labelsOfItem, List.any_cons, List.any_nil, atLvl, Bool.or_false]
    by_cases h : k = j
    · subst h; simp
    · have h' : ¬ j = k := fun e => h e.symm
      simp
      rw [decide_eq_false h', beq_eq_false_iff_ne.mpr h]
  | .ref k, fr, c, hb => by
    refine ⟨by simpa [flatItem] using Seg.leaf fr c hb false k, ?_⟩
    intro j
    simp [flatItem, labelsOfItem, atLvl]
  | .con wh glob n body, fr, c, hb => by
    have h := loopF_seg glob fr (labelsOf body) (fun fr c => flatItems fr body c)
      (fun fr' c' hb' => flatItems_seg body fr' c' hb') n c hb
    simp only [flatItem, finishF_fst, labelsOfItem]
    refine ⟨h.1.mono ?_ ?_, h.2⟩
    · rw [finishF_cnt]; omega
    · rw [finishF_next]; exact Nat.le_refl _
theorem flatItems_seg : ∀ (is : Items) (fr : List Fr) (c : Cs), Bnd fr c →
    Seg fr c (flatItems fr is c).1 (flatItems fr is c).2 ∧ LabAt fr (labelsOf is) (flatItems fr is c).1
  | .nil, fr, c, _ => by
    simp only [flatItems, labelsOf]
    exact ⟨Seg.empty fr c, by intro k; simp⟩
  | .cons i r, fr, c, hb => by
    have h1 := flatItem_seg i fr c hb
    have h2 := flatItems_seg r fr (flatItem fr i c).2 (hb.mono h1.1.le.1 h1.1.le.2)
    simp only [flatItems, labelsOf_cons]
    exact ⟨Seg.append hb h1.1 h2.1, labAt_append h1.2 h2.2⟩
end

/-- **the chains of the executed statements of every program are consistent** -/
theorem flat_wf (prog : Items) : WF (flat prog) := by
  have s := (flatItems_seg prog [] ⟨0, 0⟩ (by intro f hf; cases hf)).1
  exact ⟨fun f hf g hg e => s.inj_h f hf g hg (Nat.zero_le _) e, fun f hf g hg e => s.inj_id f hf g hg (Nat.zero_le _) e,
    fun f hf k => s.names f hf (Nat.zero_le _) k⟩

/-- the bytes of the hand expansion, statement by statement -/
theorem spec_bytes_flat (prog : Items) : MacroLabelsSpec.bytesOf prog = (flat prog).map (specVal (flat prog)) := by
  unfold MacroLabelsSpec.bytesOf
  rw [expand_flat, image_specVal (flat_wf prog)]

end AslModel.MacroLabels
