import AslModel.Model.Dis.A6800
import AslModel.Model.Dis.M6800
import AslModel.Lemmas.Dis4004
import AslModel.Lemmas.DisRetrieve
/-! Helper lemmas for the 6800 part of C15: hex print/parse round trip (`HexString` ↔ Motorola `$` constants), what the text
`MakeSymbolic` renders means to the assembler (`GoodAtom`), statement splitting, `DecodeAdr` on the three operand shapes, and the
facts tying deco68.c's `OpcodeList` to code68.c's `InitFields` list, decided over all 256 opcodes. -/
namespace AslModel.Dis.A6800
open AslModel.Dis AslModel.Generated

theorem length_two {α : Type} (l : List α) (h : l.length = 2) : ∃ a b, l = [a, b] :=
  match l, h with
  | [a, b], _ => ⟨a, b, rfl⟩

/-! ### characters -/

theorem hexDigit_val : ∀ (lower : Bool) (d : Nat), d < 16 → hexDigitVal (hexDigitChar lower d) = some d := by decide
theorem hexDigit_name : ∀ (lower : Bool) (d : Nat), d < 16 → isNameChar (hexDigitChar lower d) = true := by decide
theorem hexDigit_plain : ∀ (lower : Bool) (d : Nat), d < 16 →
    hexDigitChar lower d ≠ ',' ∧ isBlank (hexDigitChar lower d) = false := by decide

theorem nameChar_plain (c : Char) (h : isNameChar c = true) : c ≠ ',' ∧ isBlank c = false := by
  refine ⟨?_, ?_⟩
  · intro e; subst e; revert h; decide
  · cases hb : isBlank c with
    | false => rfl
    | true =>
      have : c = ' ' ∨ c = '\t' := by simpa [isBlank] using hb
      rcases this with e | e <;> (subst e; revert h; decide)

theorem nameStart_plain (c : Char) (h : isNameStart c = true) :
    c ≠ ',' ∧ isBlank c = false ∧ c ≠ '#' ∧ c ≠ '<' ∧ c ≠ '>' ∧ c ≠ '$' := by
  refine ⟨?_, ?_, ?_, ?_, ?_, ?_⟩
  · intro e; subst e; revert h; decide
  · cases hb : isBlank c with
    | false => rfl
    | true =>
      have : c = ' ' ∨ c = '\t' := by simpa [isBlank] using hb
      rcases this with e | e <;> (subst e; revert h; decide)
  all_goals (intro e; subst e; revert h; decide)

/-! ### `HexString` read back as a number -/

theorem hexStep_none (ds : List Char) : ds.foldl hexStep none = none := by
  induction ds with
  | nil => rfl
  | cons c cs ih => simpa [List.foldl, hexStep] using ih

/-- the digits `HexString` produces for `n` (without padding), prepended to `acc` -/
theorem hexDigitsF_spec (lower : Bool) : ∀ (fuel n : Nat) (acc : List Char), n < 16 ^ fuel → 0 < fuel →
    ∃ ds, hexDigitsF lower fuel n acc = ds ++ acc ∧ ds ≠ [] ∧ (∀ c ∈ ds, ∃ d, d < 16 ∧ c = hexDigitChar lower d) ∧
      ∀ v, ds.foldl hexStep (some v) = some (v * 16 ^ ds.length + n) := by
  intro fuel
  induction fuel with
  | zero => intro n acc _ h; omega
  | succ k ih =>
    intro n acc hn _
    unfold hexDigitsF
    simp only
    by_cases h0 : n / 16 = 0
    · simp only [h0, if_true]
      have hn16 : n < 16 := by omega
      refine ⟨[hexDigitChar lower (n % 16)], rfl, by simp, ?_, ?_⟩
      · intro c hc
        exact ⟨n % 16, Nat.mod_lt _ (by decide), by simpa using hc⟩
      · intro v
        simp only [List.foldl, hexStep, hexDigit_val lower (n % 16) (Nat.mod_lt _ (by decide)), List.length_singleton, Nat.pow_one]
        congr 1
        omega
    · simp only [h0, if_false]
      have hk : 0 < k := by
        rcases Nat.eq_zero_or_pos k with e | e
        · subst e; simp at hn; omega
        · exact e
      have hq : n / 16 < 16 ^ k := by
        rw [Nat.pow_succ] at hn
        omega
      obtain ⟨ds, h1, h2, h3, h4⟩ := ih (n / 16) (hexDigitChar lower (n % 16) :: acc) hq hk
      refine ⟨ds ++ [hexDigitChar lower (n % 16)], by rw [h1]; simp, by simp, ?_, ?_⟩
      · intro c hc
        rcases List.mem_append.mp hc with hc | hc
        · exact h3 c hc
        · exact ⟨n % 16, Nat.mod_lt _ (by decide), by simpa using hc⟩
      · intro v
        rw [List.foldl_append, h4 v]
        simp only [List.foldl, hexStep, hexDigit_val lower (n % 16) (Nat.mod_lt _ (by decide)), List.length_append,
          List.length_singleton, Nat.pow_succ]
        congr 1
        have : (v * 16 ^ ds.length + n / 16) * 16 = v * (16 ^ ds.length * 16) + (n / 16) * 16 := by
          rw [Nat.add_mul, Nat.mul_assoc]
        omega

theorem hexVal_zeros (k : Nat) (ds : List Char) : (List.replicate k '0' ++ ds).foldl hexStep (some 0) = ds.foldl hexStep (some 0) := by
  induction k with
  | zero => rfl
  | succ k ih =>
    rw [List.replicate_succ, List.cons_append, List.foldl_cons]
    have : hexStep (some 0) '0' = some 0 := by decide
    rw [this]; exact ih

/-- `HexString(buf, n, digits)` is a non-empty string of hex digits that reads back as `n` -/
theorem hexChars_spec (lower : Bool) (n digits : Nat) (hn : n < 16 ^ 17) :
    hexVal (hexChars lower n digits) = some n ∧ hexChars lower n digits ≠ [] ∧
    ∀ c ∈ hexChars lower n digits, isNameChar c = true := by
  obtain ⟨ds, h1, h2, h3, h4⟩ := hexDigitsF_spec lower 17 n [] hn (by decide)
  rw [List.append_nil] at h1
  unfold hexChars hexVal
  simp only [h1]
  refine ⟨?_, ?_, ?_⟩
  · rw [hexVal_zeros, h4 0]; simp
  · intro e
    have := List.append_eq_nil_iff.mp e
    exact h2 this.2
  · intro c hc
    rcases List.mem_append.mp hc with hc | hc
    · have : c = '0' := (List.mem_replicate.mp hc).2
      subst this; decide
    · obtain ⟨d, hd, rfl⟩ := h3 c hc
      exact hexDigit_name lower d hd

/-! ### operand text the assembler understands as the value `v` -/

/-- what the round trip needs from a printed operand `s` standing for the value `v` -/
structure GoodAtom (env : Env) (s : List Char) (v : Nat) : Prop where
  eval : evalAtom env s = some v
  noComma : ',' ∉ s
  noBlank : ∀ c ∈ s, isBlank c = false
  len2 : 2 ≤ s.length
  head : ∀ c, s.head? = some c → c ≠ '#' ∧ c ≠ '<' ∧ c ≠ '>'

theorem goodAtom_hex (env : Env) (ds : List Char) (v : Nat) (h1 : hexVal ds = some v) (h2 : ds ≠ [])
    (h3 : ∀ c ∈ ds, isNameChar c = true) : GoodAtom env ('$' :: ds) v := by
  refine ⟨?_, ?_, ?_, ?_, ?_⟩
  · simp [evalAtom, h2, h1]
  · intro hc
    rcases List.mem_cons.mp hc with e | e
    · revert e; decide
    · exact (nameChar_plain _ (h3 _ e)).1 rfl
  · intro c hc
    rcases List.mem_cons.mp hc with e | e
    · subst e; decide
    · exact (nameChar_plain _ (h3 _ e)).2
  · cases ds with
    | nil => exact absurd rfl h2
    | cons d ds => simp
  · intro c hc
    simp at hc
    subst hc
    decide

theorem goodAtom_label (env : Env) (s : List Char) (v : Nat) (h1 : plainLabel s = true) (h2 : env s = some v) :
    GoodAtom env s v := by
  match s, h1 with
  | c :: d :: rest, h1 =>
    simp only [plainLabel, Bool.and_eq_true, List.all_eq_true] at h1
    obtain ⟨⟨hc, hd⟩, hr⟩ := h1
    have hcp := nameStart_plain c hc
    refine ⟨?_, ?_, ?_, ?_, ?_⟩
    · have hne : c ≠ '$' := hcp.2.2.2.2.2
      have hpl : plainLabel (c :: d :: rest) = true := by
        simp [plainLabel, hc, hd]; exact hr
      unfold evalAtom
      split
      · rename_i ds heq
        exact absurd (List.cons.inj heq).1 hne
      · simp [hpl, h2]
    · intro hm
      rcases List.mem_cons.mp hm with e | hm
      · exact hcp.1 e.symm
      · rcases List.mem_cons.mp hm with e | hm
        · exact (nameChar_plain d hd).1 e.symm
        · exact (nameChar_plain _ (hr _ hm)).1 rfl
    · intro x hm
      rcases List.mem_cons.mp hm with e | hm
      · subst e; exact hcp.2.1
      · rcases List.mem_cons.mp hm with e | hm
        · subst e; exact (nameChar_plain _ hd).2
        · exact (nameChar_plain _ (hr _ hm)).2
    · simp
    · intro x hx
      simp at hx
      subst hx
      exact ⟨hcp.2.2.1, hcp.2.2.2.1, hcp.2.2.2.2.1⟩

/-! ### statement splitting -/

theorem splitComma_noComma (s : List Char) (h : ',' ∉ s) : splitComma s = [s] := by
  induction s with
  | nil => rfl
  | cons c cs ih =>
    have hc : c ≠ ',' := by intro e; apply h; simp [e]
    have hcs : ',' ∉ cs := by intro e; apply h; simp [e]
    simp [splitComma, hc, ih hcs]

theorem splitComma_append (s t : List Char) (h : ',' ∉ s) : splitComma (s ++ ',' :: t) = s :: splitComma t := by
  induction s with
  | nil => simp [splitComma]
  | cons c cs ih =>
    have hc : c ≠ ',' := by intro e; apply h; simp [e]
    have hcs : ',' ∉ cs := by intro e; apply h; simp [e]
    simp [splitComma, hc, ih hcs]

theorem takeWhile_nonblank (m rest : List Char) (hm : ∀ c ∈ m, isBlank c = false) :
    (m ++ '\t' :: rest).takeWhile (fun c => !isBlank c) = m ∧
    (m ++ '\t' :: rest).dropWhile (fun c => !isBlank c) = '\t' :: rest := by
  induction m with
  | nil => constructor <;> simp [isBlank]
  | cons c cs ih =>
    have hc : isBlank c = false := hm c (by simp)
    have := ih (fun x hx => hm x (by simp [hx]))
    constructor
    · simp [hc, this.1]
    · simp [hc, this.2]

theorem takeWhile_all (m : List Char) (hm : ∀ c ∈ m, isBlank c = false) :
    m.takeWhile (fun c => !isBlank c) = m ∧ m.dropWhile (fun c => !isBlank c) = [] := by
  induction m with
  | nil => exact ⟨rfl, rfl⟩
  | cons c cs ih =>
    have hc : isBlank c = false := hm c (by simp)
    have := ih (fun x hx => hm x (by simp [hx]))
    constructor
    · simp [hc, this.1]
    · simp [hc, this.2]

theorem splitStmt_plain (m : List Char) (hm : ∀ c ∈ m, isBlank c = false) : splitStmt m = (m, []) := by
  have h := takeWhile_all m hm
  simp [splitStmt, h.1, h.2]

theorem splitStmt_operand (m body : List Char) (hm : ∀ c ∈ m, isBlank c = false) (hb : ∀ c ∈ body, isBlank c = false)
    (hne : body ≠ []) : splitStmt (m ++ '\t' :: body) = (m, splitComma body) := by
  have h := takeWhile_nonblank m body hm
  have h3 : ('\t' :: body).dropWhile isBlank = body := by
    cases body with
    | nil => exact absurd rfl hne
    | cons b bs =>
      have hbb : isBlank b = false := hb b (by simp)
      have : isBlank '\t' = true := by decide
      simp [List.dropWhile, this, hbb]
  simp [splitStmt, h.1, h.2, h3, hne]

/-! ### `DecodeAdr` on the operand shapes dasl prints -/

theorem decodeAcc_long (s : List Char) (h : 2 ≤ s.length) : decodeAcc s = none := by
  match s, h with
  | _ :: _ :: _, _ => rfl

theorem evalMax_good {env : Env} {s : List Char} {v : Nat} (g : GoodAtom env s v) (max : Nat) (h : v ≤ max) :
    evalMax env s max = some v := by
  simp [evalMax, g.eval, h]

theorem absPrefix_plain (s : List Char) (h1 : s.head? ≠ some '<') (h2 : s.head? ≠ some '>') : absPrefix s = (0, s) := by
  unfold absPrefix
  split <;> simp_all

theorem immRest_plain (s : List Char) (h1 : s.head? ≠ some '#') : immRest s = none := by
  unfold immRest
  split <;> simp_all

theorem immRest_hash (s : List Char) : immRest ('#' :: s) = some s := rfl

theorem goodAtom_head {env : Env} {s : List Char} {v : Nat} (g : GoodAtom env s v) :
    s.head? ≠ some '#' ∧ s.head? ≠ some '<' ∧ s.head? ≠ some '>' :=
  ⟨fun e => (g.head _ e).1 rfl, fun e => (g.head _ e).2.1 rfl, fun e => (g.head _ e).2.2 rfl⟩

theorem decodeAbs_good {env : Env} {s : List Char} {v : Nat} (g : GoodAtom env s v) (erl : Erl) (hv : v ≤ 65535) :
    decodeAbs env erl s =
      if erl.dir = true ∧ (erl.ext = false ∨ v / 256 = 0) then
        (if v / 256 ≠ 0 then none else some ⟨.dir, 1, [v % 256]⟩)
      else if erl.ext = true then some ⟨.ext, 3, [v / 256 % 256, v % 256]⟩ else none := by
  have hh := goodAtom_head g
  simp [decodeAbs, absPrefix_plain s hh.2.1 hh.2.2, evalMax_good g 65535 hv]

theorem decodeAdr_abs {env : Env} {s : List Char} {v : Nat} (g : GoodAtom env s v) (sz : Bool) (erl : Erl) :
    decodeAdr env sz erl [s] = decodeAbs env erl s := by
  simp [decodeAdr, decodeAcc_long s g.len2, immRest_plain s (goodAtom_head g).1]

theorem decodeAdr_dir {env : Env} {s : List Char} {v : Nat} (g : GoodAtom env s v) (sz : Bool) (erl : Erl)
    (hd : erl.dir = true) (hv : v < 256) : decodeAdr env sz erl [s] = some ⟨.dir, 1, [v]⟩ := by
  rw [decodeAdr_abs g, decodeAbs_good g erl (by omega)]
  have h0 : v / 256 = 0 := by omega
  have h1 : v % 256 = v := by omega
  simp [hd, h0, h1]

theorem decodeAdr_ext {env : Env} {s : List Char} {v : Nat} (g : GoodAtom env s v) (sz : Bool) (erl : Erl)
    (he : erl.ext = true) (hv : v < 65536) (hsel : erl.dir = false ∨ 256 ≤ v) :
    decodeAdr env sz erl [s] = some ⟨.ext, 3, [v / 256, v % 256]⟩ := by
  rw [decodeAdr_abs g, decodeAbs_good g erl (by omega)]
  have h1 : v / 256 % 256 = v / 256 := by omega
  rcases hsel with h | h
  · simp [he, h, h1]
  · have h0 : v / 256 ≠ 0 := by omega
    simp [he, h0, h1]

/-- `>` in front of the operand forces the extended mode (`Bit8 = 1`), also for an address in page 0 -/
theorem decodeAdr_extF {env : Env} {s : List Char} {v : Nat} (g : GoodAtom env s v) (sz : Bool) (erl : Erl)
    (he : erl.ext = true) (hv : v < 65536) :
    decodeAdr env sz erl [('>' :: s)] = some ⟨.ext, 3, [v / 256, v % 256]⟩ := by
  have hl : decodeAcc ('>' :: s) = none := decodeAcc_long _ (by have := g.len2; simp; omega)
  have h1 : v / 256 % 256 = v / 256 := by omega
  have hi : immRest ('>' :: s) = none := immRest_plain _ (by simp)
  have hp : absPrefix ('>' :: s) = (1, s) := rfl
  simp [decodeAdr, hl, hi, decodeAbs, hp, evalMax_good g 65535 (by omega), he, h1]

theorem decodeAdr_ind {env : Env} {s : List Char} {v : Nat} (g : GoodAtom env s v) (sz : Bool) (erl : Erl)
    (hi : erl.ind = true) (hv : v < 256) : decodeAdr env sz erl [s, ['x']] = some ⟨.ind, 2, [v]⟩ := by
  have hx : upper ['x'] = ['X'] := by decide
  have h1 : v % 256 = v := by omega
  simp [decodeAdr, hx, hi, evalMax_good g 255 (by omega), h1]

theorem decodeAdr_imm8 {env : Env} {s : List Char} {v : Nat} (g : GoodAtom env s v) (erl : Erl)
    (hi : erl.imm = true) (hv : v < 256) : decodeAdr env false erl [('#' :: s)] = some ⟨.imm, 0, [v]⟩ := by
  have hne : s ≠ [] := by intro e; have := g.len2; rw [e] at this; simp at this
  have hl : decodeAcc ('#' :: s) = none := decodeAcc_long _ (by have := g.len2; simp; omega)
  have h1 : v % 256 = v := by omega
  simp [decodeAdr, hl, immRest_hash, hne, hi, evalMax_good g 255 (by omega), h1]

theorem decodeAdr_imm16 {env : Env} {s : List Char} {v : Nat} (g : GoodAtom env s v) (erl : Erl)
    (hi : erl.imm = true) (hv : v < 65536) : decodeAdr env true erl [('#' :: s)] = some ⟨.imm, 0, [v / 256, v % 256]⟩ := by
  have hne : s ≠ [] := by intro e; have := g.len2; rw [e] at this; simp at this
  have hl : decodeAcc ('#' :: s) = none := decodeAcc_long _ (by have := g.len2; simp; omega)
  have h1 : v / 256 % 256 = v / 256 := by omega
  simp [decodeAdr, hl, immRest_hash, hne, hi, evalMax_good g 65535 (by omega), h1]

/-- `#<operand>` is rejected by a decoder that does not allow the immediate mode -/
theorem decodeAdr_imm_rejected {env : Env} {s : List Char} {v : Nat} (g : GoodAtom env s v) (sz : Bool) (erl : Erl)
    (hi : erl.imm = false) : decodeAdr env sz erl [('#' :: s)] = none := by
  have hne : s ≠ [] := by intro e; have := g.len2; rw [e] at this; simp at this
  have hl : decodeAcc ('#' :: s) = none := decodeAcc_long _ (by have := g.len2; simp; omega)
  simp [decodeAdr, hl, immRest_hash, hne, hi]

/-! ### what `MakeSymbolic` renders -/

theorem syms_add_lookup (s : Syms) (name : String) (a : Nat) (h : s.lookup a = none) : (s.add name a).lookup a = some name := by
  unfold Syms.lookup at h ⊢
  have hf : s.tab.find? (fun p => p.1 == a) = none := by
    cases hx : s.tab.find? (fun p => p.1 == a) with
    | none => rfl
    | some y => rw [hx] at h; simp at h
  have hany : s.tab.any (fun p => p.1 == a) = false := by
    rw [List.any_eq_false]
    intro x hx
    have := List.find?_eq_none.mp hf x hx
    simpa using this
  simp [Syms.add, hany, List.find?_append, hf]

open M6800 in
/-- the operand text `MakeSymbolic` returns for the value `oa` is understood by the assembler as `oa`, provided every name of the
(updated) inverse symbol table is a plain label that the assembler's symbol table maps back to its address -/
theorem makeSymbolic_good (env : Env) (lower : Bool) (syms : Syms) (oa addrLen : Nat) (pfx : Option String)
    (hoa : oa < 65536)
    (hsym : ∀ x n, (makeSymbolic lower syms oa addrLen pfx).2.lookup x = some n → plainLabel n.toList = true ∧ env n.toList = some x) :
    GoodAtom env (makeSymbolic lower syms oa addrLen pfx).1.toList oa := by
  have hhex := hexChars_spec lower oa (addrLen * 2) (by omega)
  unfold makeSymbolic at hsym ⊢
  cases hl : syms.lookup oa with
  | some n =>
    simp only [hl] at hsym ⊢
    have := hsym oa n hl
    exact goodAtom_label env _ oa this.1 this.2
  | none =>
    simp only [hl] at hsym ⊢
    cases pfx with
    | none =>
      simp only [String.toList_append, hexString, String.toList_ofList]
      have : ("$" : String).toList = ['$'] := rfl
      rw [this]
      exact goodAtom_hex env _ oa hhex.1 hhex.2.1 hhex.2.2
    | some p =>
      simp only at hsym ⊢
      have hx := hsym oa _ (syms_add_lookup syms _ oa hl)
      exact goodAtom_label env _ oa hx.1 hx.2

/-- the names `MakeSymbolic` invents are plain labels -/
theorem genLabel_plain (lower : Bool) (a digits : Nat) (ha : a < 65536) (p : String) (hp : p = "sub_" ∨ p = "lab_") :
    plainLabel (p ++ hexString lower a digits).toList = true := by
  have hhex := hexChars_spec lower a digits (by omega)
  have h1 : ("sub_" : String).toList = ['s', 'u', 'b', '_'] := rfl
  have h2 : ("lab_" : String).toList = ['l', 'a', 'b', '_'] := rfl
  rcases hp with rfl | rfl
  · simp only [String.toList_append, hexString, String.toList_ofList, h1]
    simp only [List.cons_append, List.nil_append, plainLabel, List.all_cons, Bool.and_eq_true, List.all_eq_true]
    exact ⟨⟨by decide, by decide⟩, by decide, by decide, hhex.2.2⟩
  · simp only [String.toList_append, hexString, String.toList_ofList, h2]
    simp only [List.cons_append, List.nil_append, plainLabel, List.all_cons, Bool.and_eq_true, List.all_eq_true]
    exact ⟨⟨by decide, by decide⟩, by decide, by decide, hhex.2.2⟩

/-! ### the two generated tables against each other -/

open M6800 in
/-- what the round trip needs from `OpcodeList[op]` (deco68.c) and the `InstTable` entry of its mnemonic (code68.c):
the mnemonic is one word; it is registered with a decoder that allows the addressing mode and whose opcode arithmetic gives
`op` back; the operand width of the immediate forms agrees.  No row is exempt (the rows `$14` = `nba`, `$34` = `dess` and
`$C7` = `stab #` of earlier versions of deco68.c have been repaired). -/
def tableOK (op : Nat) : Bool :=
  let r := row op
  r.memo.all (fun c => !isBlank c) &&
  match r.typ with
  | .eUnknown => true
  | .eImplicit =>
    (match lookup r.memo with
     | some (.fixed c mn mx) => c == op && decide (mn ≤ cpu) && decide (cpu ≤ mx)
     | some (.sing8acc c) => c % 256 == op
     | _ => false)
  | .eDirect =>
    (match lookup r.memo with
     | some (.alu8 w) => w / 256 % 4 == 1 && alu8Op w 1 (w / 0x4000 % 2) == op
     | some (.alu16 _ mn sh c) => decide (mn ≤ cpu) && sh != 1 && sh != 3 && alu16Op c 1 == op
     | _ => false)
  | .eIndexed =>
    (match lookup r.memo with
     | some (.alu8 w) => w / 256 % 4 == 1 && alu8Op w 2 (w / 0x4000 % 2) == op
     | some (.alu16 _ mn sh c) => decide (mn ≤ cpu) && sh != 1 && sh != 3 && alu16Op c 2 == op
     | some (.sing8 c) => sing8Op c 2 == op
     | some .jmp => jmpOp 0x4e 2 == op
     | some .jsr => jmpOp 0x8d 2 == op
     | _ => false)
  | .eExtended =>
    (match lookup r.memo with
     | some (.alu8 w) => w / 256 % 4 == 1 && alu8Op w 3 (w / 0x4000 % 2) == op && decide (0xb0 ≤ op) && op != 0xbd
     | some (.alu16 _ mn sh c) => decide (mn ≤ cpu) && sh != 1 && sh != 3 && alu16Op c 3 == op && decide (0xb0 ≤ op) && op != 0xbd
     | some (.sing8 c) => sing8Op c 3 == op && decide (op < 0xb0)
     | some .jmp => jmpOp 0x4e 3 == op && decide (op < 0xb0)
     | some .jsr => jmpOp 0x8d 3 == op && op == 0xbd
     | _ => false)
  | .eImmediate =>
    (match lookup r.memo with
     | some (.alu8 w) => w / 256 % 4 == 1 && w / 0x8000 % 2 == 1 && alu8Op w 0 (w / 0x4000 % 2) == op && r.opSize == 0
     | some (.alu16 mayImm mn sh c) => mayImm && decide (mn ≤ cpu) && sh != 1 && sh != 3 && alu16Op c 0 == op && r.opSize == 1
     | _ => false)
  | .eRelative =>
    (match lookup r.memo with
     | some (.rel c mn) => c % 256 == op && decide (mn ≤ cpu)
     | _ => false)

theorem table_ok_0 : ∀ op, op < 64 → tableOK op = true := by decide +kernel
theorem table_ok_1 : ∀ op, op < 64 → tableOK (op + 64) = true := by decide +kernel
theorem table_ok_2 : ∀ op, op < 64 → tableOK (op + 128) = true := by decide +kernel
theorem table_ok_3 : ∀ op, op < 64 → tableOK (op + 192) = true := by decide +kernel

/-- the complete 256-entry table (decided in four quarters) -/
theorem table_ok (op : Nat) (h : op < 256) : tableOK op = true := by
  by_cases h0 : op < 64
  · exact table_ok_0 op h0
  by_cases h1 : op < 128
  · have := table_ok_1 (op - 64) (by omega)
    rwa [show op - 64 + 64 = op by omega] at this
  by_cases h2 : op < 192
  · have := table_ok_2 (op - 128) (by omega)
    rwa [show op - 128 + 128 = op by omega] at this
  · have := table_ok_3 (op - 192) (by omega)
    rwa [show op - 192 + 192 = op by omega] at this

/-- `DecodeJSR` allows the direct mode only from the 6801 on -/
theorem jsr_no_direct : decide (DisIsa6800.cpu6801 ≤ cpu) = false := by decide

/-! ### the decoders of code68.c on the operand shapes dasl prints -/

section
variable {env : Env} {s : List Char} {v : Nat}

theorem encode_alu8_dir (g : GoodAtom env s v) (pc w : Nat) (memo : List Char) (hv : v < 256) (hw : w / 256 % 4 = 1) :
    encode env pc (.alu8 w) memo [s] = some [alu8Op w 1 (w / 0x4000 % 2), v] := by
  have hD := fun erl hd => decodeAdr_dir g false erl hd hv
  simp [encode, hw, hD]

theorem encode_alu8_ext (g : GoodAtom env s v) (pc w : Nat) (memo : List Char) (hv : v < 65536) (h2 : 256 ≤ v) (hw : w / 256 % 4 = 1) :
    encode env pc (.alu8 w) memo [s] = some [alu8Op w 3 (w / 0x4000 % 2), v / 256, v % 256] := by
  have hD := fun erl hd => decodeAdr_ext g false erl hd hv (Or.inr h2)
  simp [encode, hw, hD]

theorem encode_alu8_ind (g : GoodAtom env s v) (pc w : Nat) (memo : List Char) (hv : v < 256) (hw : w / 256 % 4 = 1) :
    encode env pc (.alu8 w) memo [s, ['x']] = some [alu8Op w 2 (w / 0x4000 % 2), v] := by
  have hD := fun erl hd => decodeAdr_ind g false erl hd hv
  simp [encode, hw, hD]

theorem encode_alu8_imm (g : GoodAtom env s v) (pc w : Nat) (memo : List Char) (hv : v < 256) (hw : w / 256 % 4 = 1)
    (hi : w / 0x8000 % 2 = 1) :
    encode env pc (.alu8 w) memo [('#' :: s)] = some [alu8Op w 0 (w / 0x4000 % 2), v] := by
  have hD := fun erl hd => decodeAdr_imm8 g erl hd hv
  simp [encode, hw, hD, hi]

theorem encode_alu8_imm_rejected (g : GoodAtom env s v) (pc w : Nat) (memo : List Char) (hw : w / 256 % 4 = 1)
    (hi : w / 0x8000 % 2 = 0) :
    encode env pc (.alu8 w) memo [('#' :: s)] = none := by
  have hD := fun erl hd => decodeAdr_imm_rejected g false erl hd
  simp [encode, hw, hD, hi]

theorem encode_alu16_dir (g : GoodAtom env s v) (pc mn sh c : Nat) (mi : Bool) (memo : List Char) (hv : v < 256)
    (hmn : mn ≤ cpu) (h1 : sh ≠ 1) (h3 : sh ≠ 3) :
    encode env pc (.alu16 mi mn sh c) memo [s] = some [alu16Op c 1, v] := by
  have hD := fun erl hd => decodeAdr_dir g true erl hd hv
  simp [encode, hmn, hD, alu16Prefix, h1, h3]

theorem encode_alu16_ext (g : GoodAtom env s v) (pc mn sh c : Nat) (mi : Bool) (memo : List Char) (hv : v < 65536) (h2 : 256 ≤ v)
    (hmn : mn ≤ cpu) (h1 : sh ≠ 1) (h3 : sh ≠ 3) :
    encode env pc (.alu16 mi mn sh c) memo [s] = some [alu16Op c 3, v / 256, v % 256] := by
  have hD := fun erl hd => decodeAdr_ext g true erl hd hv (Or.inr h2)
  simp [encode, hmn, hD, alu16Prefix, h1, h3]

theorem encode_alu16_ind (g : GoodAtom env s v) (pc mn sh c : Nat) (mi : Bool) (memo : List Char) (hv : v < 256)
    (hmn : mn ≤ cpu) (h1 : sh ≠ 1) (h3 : sh ≠ 3) :
    encode env pc (.alu16 mi mn sh c) memo [s, ['x']] = some [alu16Op c 2, v] := by
  have hD := fun erl hd => decodeAdr_ind g true erl hd hv
  simp [encode, hmn, hD, alu16Prefix, h1, h3]

theorem encode_alu16_imm (g : GoodAtom env s v) (pc mn sh c : Nat) (memo : List Char) (hv : v < 65536)
    (hmn : mn ≤ cpu) (h1 : sh ≠ 1) (h3 : sh ≠ 3) :
    encode env pc (.alu16 true mn sh c) memo [('#' :: s)] = some [alu16Op c 0, v / 256, v % 256] := by
  have hD := fun erl hd => decodeAdr_imm16 g erl hd hv
  simp [encode, hmn, hD, alu16Prefix, h1, h3]

theorem encode_sing8_ext (g : GoodAtom env s v) (pc c : Nat) (memo : List Char) (hv : v < 65536) :
    encode env pc (.sing8 c) memo [s] = some [sing8Op c 3, v / 256, v % 256] := by
  have hD := fun erl he hdir => decodeAdr_ext g false erl he hv (Or.inl hdir)
  simp [encode, hD]

theorem encode_sing8_ind (g : GoodAtom env s v) (pc c : Nat) (memo : List Char) (hv : v < 256) :
    encode env pc (.sing8 c) memo [s, ['x']] = some [sing8Op c 2, v] := by
  have hD := fun erl hd => decodeAdr_ind g false erl hd hv
  simp [encode, hD]

theorem encode_jmp_ext (g : GoodAtom env s v) (pc : Nat) (memo : List Char) (hv : v < 65536) :
    encode env pc .jmp memo [s] = some [jmpOp 0x4e 3, v / 256, v % 256] := by
  have hD := fun erl he hdir => decodeAdr_ext g false erl he hv (Or.inl hdir)
  simp [encode, hD]

theorem encode_jmp_ind (g : GoodAtom env s v) (pc : Nat) (memo : List Char) (hv : v < 256) :
    encode env pc .jmp memo [s, ['x']] = some [jmpOp 0x4e 2, v] := by
  have hD := fun erl hd => decodeAdr_ind g false erl hd hv
  simp [encode, hD]

theorem encode_jsr_ext (g : GoodAtom env s v) (pc : Nat) (memo : List Char) (hv : v < 65536) :
    encode env pc .jsr memo [s] = some [jmpOp 0x8d 3, v / 256, v % 256] := by
  have hD := fun erl he hdir => decodeAdr_ext g false erl he hv (Or.inl hdir)
  simp [encode, hD, jsr_no_direct]

theorem encode_jsr_ind (g : GoodAtom env s v) (pc : Nat) (memo : List Char) (hv : v < 256) :
    encode env pc .jsr memo [s, ['x']] = some [jmpOp 0x8d 2, v] := by
  have hD := fun erl hd => decodeAdr_ind g false erl hd hv
  simp [encode, hD]


theorem encode_alu8_extF (g : GoodAtom env s v) (pc w : Nat) (memo : List Char) (hv : v < 65536) (hw : w / 256 % 4 = 1) :
    encode env pc (.alu8 w) memo [('>' :: s)] = some [alu8Op w 3 (w / 0x4000 % 2), v / 256, v % 256] := by
  have hD := fun erl hd => decodeAdr_extF g false erl hd hv
  simp [encode, hw, hD]

theorem encode_alu16_extF (g : GoodAtom env s v) (pc mn sh c : Nat) (mi : Bool) (memo : List Char) (hv : v < 65536)
    (hmn : mn ≤ cpu) (h1 : sh ≠ 1) (h3 : sh ≠ 3) :
    encode env pc (.alu16 mi mn sh c) memo [('>' :: s)] = some [alu16Op c 3, v / 256, v % 256] := by
  have hD := fun erl hd => decodeAdr_extF g true erl hd hv
  simp [encode, hmn, hD, alu16Prefix, h1, h3]

theorem encode_sing8_extF (g : GoodAtom env s v) (pc c : Nat) (memo : List Char) (hv : v < 65536) :
    encode env pc (.sing8 c) memo [('>' :: s)] = some [sing8Op c 3, v / 256, v % 256] := by
  have hD := fun erl he => decodeAdr_extF g false erl he hv
  simp [encode, hD]

theorem encode_jmp_extF (g : GoodAtom env s v) (pc : Nat) (memo : List Char) (hv : v < 65536) :
    encode env pc .jmp memo [('>' :: s)] = some [jmpOp 0x4e 3, v / 256, v % 256] := by
  have hD := fun erl he => decodeAdr_extF g false erl he hv
  simp [encode, hD]

theorem encode_jsr_extF (g : GoodAtom env s v) (pc : Nat) (memo : List Char) (hv : v < 65536) :
    encode env pc .jsr memo [('>' :: s)] = some [jmpOp 0x8d 3, v / 256, v % 256] := by
  have hD := fun erl he => decodeAdr_extF g false erl he hv
  simp [encode, hD]

theorem relDist_spec (pc d0 : Nat) (hd0 : d0 < 256) :
    let v := (pc + 2 + d0 + (if d0 ≥ 128 then 65536 - 256 else 0)) % 65536
    (relDist v pc ≤ 127 ∨ 65536 - 128 ≤ relDist v pc) ∧ relDist v pc % 256 = d0 := by
  simp only [relDist]
  by_cases h : d0 ≥ 128
  · simp only [h, if_true]; omega
  · simp only [h, if_false]; omega

theorem encode_rel (g : GoodAtom env s v) (pc c mn d0 : Nat) (memo : List Char) (hmn : mn ≤ cpu) (hd0 : d0 < 256)
    (hv : v = (pc + 2 + d0 + (if d0 ≥ 128 then 65536 - 256 else 0)) % 65536) :
    encode env pc (.rel c mn) memo [s] = some [c % 256, d0] := by
  have hr := relDist_spec pc d0 hd0
  simp only at hr
  rw [← hv] at hr
  have hv2 : v ≤ 65535 := by rw [hv]; omega
  simp [encode, hmn, evalMax_good g 65535 hv2, hr.1, hr.2]

theorem encode_fixed (pc c mn mx : Nat) (memo : List Char) (hmn : mn ≤ cpu) (hmx : cpu ≤ mx) (hc : c < 256) :
    encode env pc (.fixed c mn mx) memo [] = some [c] := by
  have h1 : c / 256 % 256 = 0 := by omega
  have h2 : c % 256 = c := by omega
  simp [encode, hmn, hmx, h1, h2]

theorem encode_sing8acc (pc c : Nat) (memo : List Char) : encode env pc (.sing8acc c) memo [] = some [c % 256] := by
  simp [encode]

theorem assemble_plain (env : Env) (pc : Nat) (memo : List Char) (hd : Handler) (bs : List Nat)
    (hm : ∀ c ∈ memo, isBlank c = false) (hl : lookup memo = some hd) (he : encode env pc hd memo [] = some bs)
    (hpc : pc + bs.length ≤ 0x10000) : assemble env pc memo = some bs := by
  simp [assemble, splitStmt_plain memo hm, hl, he, addrSpace, hpc]

theorem assemble_operand (env : Env) (pc : Nat) (memo body : List Char) (hd : Handler) (bs : List Nat)
    (hm : ∀ c ∈ memo, isBlank c = false) (hb : ∀ c ∈ body, isBlank c = false) (hne : body ≠ [])
    (hl : lookup memo = some hd) (he : encode env pc hd memo (splitComma body) = some bs)
    (hpc : pc + bs.length ≤ 0x10000) : assemble env pc (memo ++ '\t' :: body) = some bs := by
  simp [assemble, splitStmt_operand memo body hm hb hne, hl, he, addrSpace, hpc]


end

/-! ### whole statements of the three printed shapes -/

section
variable {env : Env} {atom : List Char} {v : Nat}

theorem goodAtom_ne_nil (g : GoodAtom env atom v) : atom ≠ [] := by
  intro e; have := g.len2; rw [e] at this; simp at this

theorem asm_one (g : GoodAtom env atom v) (pc : Nat) (memo : List Char) (hd : Handler) (bs : List Nat)
    (hm : ∀ c ∈ memo, isBlank c = false) (hl : lookup memo = some hd) (he : encode env pc hd memo [atom] = some bs)
    (hpc : pc + bs.length ≤ 0x10000) : assemble env pc (memo ++ '\t' :: atom) = some bs :=
  assemble_operand env pc memo atom hd bs hm g.noBlank (goodAtom_ne_nil g) hl (by rw [splitComma_noComma atom g.noComma]; exact he) hpc

theorem asm_idx (g : GoodAtom env atom v) (pc : Nat) (memo : List Char) (hd : Handler) (bs : List Nat)
    (hm : ∀ c ∈ memo, isBlank c = false) (hl : lookup memo = some hd) (he : encode env pc hd memo [atom, ['x']] = some bs)
    (hpc : pc + bs.length ≤ 0x10000) : assemble env pc (memo ++ '\t' :: (atom ++ [',', 'x'])) = some bs := by
  refine assemble_operand env pc memo (atom ++ [',', 'x']) hd bs hm ?_ (by simp) hl ?_ hpc
  · intro c hc
    rcases List.mem_append.mp hc with h | h
    · exact g.noBlank c h
    · simp at h; rcases h with rfl | rfl <;> decide
  · rw [splitComma_append atom ['x'] g.noComma]
    have : splitComma ['x'] = [['x']] := by decide
    rw [this]; exact he

theorem asm_imm (g : GoodAtom env atom v) (pc : Nat) (memo : List Char) (hd : Handler) (bs : List Nat)
    (hm : ∀ c ∈ memo, isBlank c = false) (hl : lookup memo = some hd) (he : encode env pc hd memo [('#' :: atom)] = some bs)
    (hpc : pc + bs.length ≤ 0x10000) : assemble env pc (memo ++ '\t' :: '#' :: atom) = some bs := by
  refine assemble_operand env pc memo ('#' :: atom) hd bs hm ?_ (by simp) hl ?_ hpc
  · intro c hc
    rcases List.mem_cons.mp hc with rfl | h
    · decide
    · exact g.noBlank c h
  · have hn : ',' ∉ ('#' :: atom) := by
      intro h
      rcases List.mem_cons.mp h with e | h
      · revert e; decide
      · exact g.noComma h
    rw [splitComma_noComma _ hn]; exact he

theorem asm_gt (g : GoodAtom env atom v) (pc : Nat) (memo : List Char) (hd : Handler) (bs : List Nat)
    (hm : ∀ c ∈ memo, isBlank c = false) (hl : lookup memo = some hd) (he : encode env pc hd memo [('>' :: atom)] = some bs)
    (hpc : pc + bs.length ≤ 0x10000) : assemble env pc (memo ++ '\t' :: '>' :: atom) = some bs := by
  refine assemble_operand env pc memo ('>' :: atom) hd bs hm ?_ (by simp) hl ?_ hpc
  · intro c hc
    rcases List.mem_cons.mp hc with rfl | h
    · decide
    · exact g.noBlank c h
  · have hn : ',' ∉ ('>' :: atom) := by
      intro h
      rcases List.mem_cons.mp h with e | h
      · revert e; decide
      · exact g.noComma h
    rw [splitComma_noComma _ hn]; exact he

end

end AslModel.Dis.A6800

namespace AslModel.Dis

/-! ### `RetrieveData` of deco68.c (since the repair bdcaec7: no continuation at address 0 behind $FFFF) -/

/-- a request that reaches beyond the end of the 64K address space fails with the message, whatever the image holds -/
theorem M6800.retrieveData_beyond (img : Image) (lower : Bool) (a count : Nat) (h : a + count > 0x10000) :
    M6800.retrieveData img lower a count = (none, ["cannot retrieve instruction arg @ 0x" ++ hexString lower a 0]) := by
  simp [M6800.retrieveData, h]

/-- one byte below the end of the address space: `RetrieveData` is `RetrieveCodeFromChunkList` (for `a ≥ 0x10000` the result is the
failure message: `retrieveData_beyond`) -/
theorem M6800.retrieveData_one (img : Image) (lower : Bool) (a : Nat) (ha : a < 0x10000) :
    M6800.retrieveData img lower a 1 =
      match retrieve img a 1 with
      | none => (none, ["cannot retrieve instruction arg @ 0x" ++ hexString lower a 0])
      | some bs => (some (bs.map UInt8.toNat), []) := by
  have : ¬ (a + 1 > 0x10000) := by omega
  simp only [M6800.retrieveData, this, if_false]
  cases retrieve img a 1 <;> rfl

/-- no byte wanted, at or below the end of the address space: success without a fetch (the C code does not call `RetrieveData` at
all for the implicit forms; for a data line of size 1 it calls it with `Count` 0) -/
theorem M6800.retrieveData_zero (img : Image) (lower : Bool) (a : Nat) (ha : a ≤ 0x10000) :
    M6800.retrieveData img lower a 0 = (some [], []) := by
  simp [M6800.retrieveData, retrieve, retrieveF]
  exact ha

/-- a request that `RetrieveData` answers ends inside the address space, was answered by `RetrieveCodeFromChunkList` with exactly
these bytes, and no message was written -/
theorem M6800.retrieveData_some (img : Image) (lower : Bool) (a count : Nat) (ds : List Nat) (e : List String)
    (h : M6800.retrieveData img lower a count = (some ds, e)) :
    a + count ≤ 0x10000 ∧ e = [] ∧ ∃ bs, retrieve img a count = some bs ∧ ds = bs.map UInt8.toNat := by
  unfold M6800.retrieveData at h
  by_cases hb : a + count > 0x10000
  · simp [hb] at h
  · simp only [hb, if_false] at h
    cases hr : retrieve img a count with
    | none => simp [hr] at h
    | some bs =>
      simp only [hr, Prod.mk.injEq, Option.some.injEq] at h
      exact ⟨by omega, h.2.symm, bs, rfl, h.1.symm⟩

/-- a failed request writes exactly one message line -/
theorem M6800.retrieveData_none_msg (img : Image) (lower : Bool) (a count : Nat) (e : List String)
    (h : M6800.retrieveData img lower a count = (none, e)) :
    e = ["cannot retrieve instruction arg @ 0x" ++ hexString lower a 0] := by
  unfold M6800.retrieveData at h
  by_cases hb : a + count > 0x10000
  · simp only [hb, if_true, Prod.mk.injEq, true_and] at h; exact h.symm
  · simp only [hb, if_false] at h
    cases hr : retrieve img a count with
    | none => simp only [hr, Prod.mk.injEq, true_and] at h; exact h.symm
    | some bs => simp [hr] at h

/-- a request that `RetrieveData` answers lies inside the loaded image and inside the 64K address space - for every image (the
former hypothesis "the request does not run through $FFFF, or address 0 is not loaded" is gone with the wrap) -/
theorem M6800.retrieveData_inImage (img : Image) (lower : Bool) (a count : Nat) (ds : List Nat) (e : List String)
    (h : M6800.retrieveData img lower a count = (some ds, e)) :
    ∀ k, k < count → inImage img (a + k) ∧ a + k < 0x10000 := by
  intro k hk
  obtain ⟨hle, _, bs, hr, _⟩ := M6800.retrieveData_some img lower a count ds e h
  exact ⟨(retrieve_some img a count bs hr).2 k hk, by omega⟩

end AslModel.Dis
