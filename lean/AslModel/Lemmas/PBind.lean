import AslModel.Lemmas.PFile
import AslModel.Model.PBind
/-! Helper lemmas for C07: bytes, mixed-form reader round trip, ReadRecordHeader/WriteRecordHeader,
the pbind loop. -/
namespace AslModel.Tools
open AslModel.PFile

/-! ## bytes -/

theorem b_of_toNat (x : Byte) : b x.toNat = x := by
  apply UInt8.toNat_inj.mp
  simp only [b_toNat]
  have := x.toNat_lt
  omega

theorem eq_b_of_toNat {x : Byte} {n : Nat} (h : x.toNat = n) : x = b n := by
  rw [← h, b_of_toNat]

theorem ne_of_toNat_ne {x y : Byte} (h : x.toNat ≠ y.toNat) : x ≠ y := fun e => h (by rw [e])

theorem le32_rd32 (a0 a1 a2 a3 : Byte) : le32 (rd32 a0 a1 a2 a3) = [a0, a1, a2, a3] := by
  have h0 := a0.toNat_lt; have h1 := a1.toNat_lt; have h2 := a2.toNat_lt; have h3 := a3.toNat_lt
  simp only [le32, rd32]
  have e0 : b (a0.toNat + 256 * a1.toNat + 65536 * a2.toNat + 16777216 * a3.toNat) = a0 := by
    apply UInt8.toNat_inj.mp; simp only [b_toNat]; omega
  have e1 : b ((a0.toNat + 256 * a1.toNat + 65536 * a2.toNat + 16777216 * a3.toNat) / 256) = a1 := by
    apply UInt8.toNat_inj.mp; simp only [b_toNat]; omega
  have e2 : b ((a0.toNat + 256 * a1.toNat + 65536 * a2.toNat + 16777216 * a3.toNat) / 65536) = a2 := by
    apply UInt8.toNat_inj.mp; simp only [b_toNat]; omega
  have e3 : b ((a0.toNat + 256 * a1.toNat + 65536 * a2.toNat + 16777216 * a3.toNat) / 16777216) = a3 := by
    apply UInt8.toNat_inj.mp; simp only [b_toNat]; omega
  rw [e0, e1, e2, e3]

/-! ## the documented reader accepts any mix of header forms -/

theorem shortOK_iff (r : Rec) : r.shortOK = true ↔
    r.seg = segCode ∧ r.gran = granOf r.cpu segCode ∧ r.cpu.toNat < 0x80 ∧ r.cpu.toNat ≠ 0 := by
  simp [Rec.shortOK, and_assoc]

def consItem (i : Item) (p : List Item × List Byte) : List Item × List Byte := (i :: p.1, p.2)

theorem parseItems_short (f : Nat) (r : Rec) (hs : r.shortOK = true) (hwf : r.WF) (tl : List Byte) :
    parseItems (f + 1) (serShort r ++ tl) = (parseItems f tl).map (consItem (.data r)) := by
  obtain ⟨h1, h2, h3, h4⟩ := (shortOK_iff r).mp hs
  have n0 : r.cpu ≠ 0x00 := ne_of_toNat_ne (by simpa using h4)
  have n1 : r.cpu ≠ 0x80 := ne_of_toNat_ne (by simp; omega)
  have n2 : r.cpu ≠ 0x81 := ne_of_toNat_ne (by simp; omega)
  simp only [Rec.WF] at hwf
  simp only [serShort, le32, le16, List.cons_append, List.nil_append, parseItems, n0, n1, n2,
    if_false, h3, if_true]
  rw [rd16_le16 _ hwf.2, rd32_le32 _ hwf.1]
  have hlen : ¬ (r.data ++ tl).length < r.data.length := by simp
  simp only [hlen, if_false, List.drop_left, List.take_left]
  cases r with
  | mk cpu seg gran start data =>
    simp only at h1 h2
    subst h1; subst h2
    cases h : parseItems f tl with
    | none => rfl
    | some p => rfl

theorem parseItems_long (f : Nat) (r : Rec) (hwf : r.WF) (tl : List Byte) :
    parseItems (f + 1) (serLong r ++ tl) = (parseItems f tl).map (consItem (.data r)) := by
  simp only [Rec.WF] at hwf
  simp only [serLong, le32, le16, List.cons_append, List.nil_append, parseItems]
  rw [rd16_le16 _ hwf.2, rd32_le32 _ hwf.1]
  have hlen : ¬ (r.data ++ tl).length < r.data.length := by simp
  simp only [hlen, if_false, List.drop_left, List.take_left]
  cases h : parseItems f tl with
  | none => rfl
  | some p => rfl

theorem parseItems_entry (f : Nat) (a : Nat) (ha : a < 4294967296) (tl : List Byte) :
    parseItems (f + 1) ([0x80] ++ le32 a ++ tl) = (parseItems f tl).map (consItem (.entry a)) := by
  simp only [le32, List.cons_append, List.nil_append, parseItems]
  rw [rd32_le32 _ ha]
  cases h : parseItems f tl with
  | none => rfl
  | some p => rfl

theorem parseItems_form (items : List (Item × Bool)) (creator : List Byte) (hwf : ∀ i ∈ items, i.1.WF)
    (fuel : Nat) (hf : items.length < fuel) :
    parseItems fuel ((items.map serItemForm).flatten ++ [0x00] ++ creator) = some (items.map (·.1), creator) := by
  induction items generalizing fuel with
  | nil =>
    cases fuel with
    | zero => omega
    | succ f => simp [parseItems]
  | cons i is ih =>
    cases fuel with
    | zero => omega
    | succ f =>
      have hi := hwf i (by simp)
      have ih' := ih (fun r' h => hwf r' (by simp [h])) f (by simp at hf; omega)
      obtain ⟨it, sh⟩ := i
      simp only [List.map_cons, List.flatten_cons, List.append_assoc]
      simp only [List.append_assoc] at ih'
      cases it with
      | entry a =>
        have := parseItems_entry f a hi ((List.map serItemForm is).flatten ++ ([0x00] ++ creator))
        simp only [serItemForm, List.append_assoc] at this ⊢
        rw [this, ih']
        rfl
      | data r =>
        cases sh with
        | false =>
          simp only [serItemForm]
          rw [parseItems_long f r hi, ih']
          rfl
        | true =>
          simp only [serItemForm, serAuto]
          cases hs : r.shortOK with
          | true =>
            simp only [if_true]
            rw [parseItems_short f r hs hi, ih']
            rfl
          | false =>
            simp only [Bool.false_eq_true, if_false]
            rw [parseItems_long f r hi, ih']
            rfl

theorem serItemForm_len (i : Item × Bool) : 1 ≤ (serItemForm i).length := by
  obtain ⟨it, sh⟩ := i
  cases it with
  | entry a => simp [serItemForm]
  | data r =>
    cases sh <;> simp only [serItemForm, serAuto, serLong, serShort] <;> (try split) <;> simp

theorem len_le_form (items : List (Item × Bool)) : items.length ≤ ((items.map serItemForm).flatten).length := by
  induction items with
  | nil => simp
  | cons i is ih =>
    have := serItemForm_len i
    simp only [List.map_cons, List.flatten_cons, List.length_append, List.length_cons]
    omega

theorem parseFile_serFileForm (items : List (Item × Bool)) (creator : List Byte) (hwf : ∀ i ∈ items, i.1.WF) :
    parseFile (serFileForm items creator) = some (items.map (·.1), creator) := by
  simp only [serFileForm, magic, parseFile, List.cons_append, List.nil_append, List.append_assoc]
  have h := parseItems_form items creator hwf
    (((items.map serItemForm).flatten ++ ([0x00] ++ creator)).length + 1) (by
      have := len_le_form items
      simp only [List.length_append]; omega)
  simpa [List.append_assoc] using h

theorem serFileAuto_eq (items : List Item) (creator : List Byte) :
    serFileAuto items creator = serFileForm (items.map (fun i => (i, true))) creator := by
  have : ∀ l : List Item, l.map serItemAuto = (l.map (fun i => (i, true))).map serItemForm := by
    intro l
    induction l with
    | nil => rfl
    | cons i is ih =>
      cases i <;> simp [serItemAuto, serItemForm, ih]
  simp [serFileAuto, serFileForm, this]

theorem parseFile_serFileAuto (items : List Item) (creator : List Byte) (hwf : ∀ i ∈ items, i.WF) :
    parseFile (serFileAuto items creator) = some (items, creator) := by
  rw [serFileAuto_eq, parseFile_serFileForm]
  · simp [Function.comp_def]
  · intro i hi
    simp only [List.mem_map] at hi
    obtain ⟨j, hj, rfl⟩ := hi
    exact hwf j hj

/-! ## ReadRecordHeader / WriteRecordHeader -/

theorem consts : hEnd = 0 ∧ hStart = 128 ∧ hData = 129 ∧ hRData = 130 ∧ hReloc = 131 ∧ hRReloc = 132 ∧
    hRelocInfo = 133 ∧ segCodeN = 1 := by decide

theorem read_end (prev : Hdr) (tl : List Byte) :
    readRecordHeader prev (0x00 :: tl) = some ({ prev with hdr := 0x00 }, tl) := by
  simp [readRecordHeader, consts]

theorem read_entry (prev : Hdr) (tl : List Byte) :
    readRecordHeader prev (0x80 :: tl) = some ({ prev with hdr := 0x80 }, tl) := by
  simp [readRecordHeader, consts]

theorem read_long (prev : Hdr) (c s g : Byte) (tl : List Byte) :
    readRecordHeader prev (0x81 :: c :: s :: g :: tl) = some (⟨0x81, c, s, g⟩, tl) := by
  simp [readRecordHeader, consts]

theorem read_short (prev : Hdr) (c : Byte) (h1 : c.toNat < 0x80) (h0 : c.toNat ≠ 0) (tl : List Byte) :
    readRecordHeader prev (c :: tl) = some (⟨0x81, c, segCode, granOf c segCode⟩, tl) := by
  have e1 : ¬ (c.toNat = hEnd ∨ c.toNat = hStart) := by simp only [consts]; omega
  have e2 : ¬ (c.toNat = hData ∨ c.toNat = hRData ∨ c.toNat = hReloc ∨ c.toNat = hRReloc) := by
    simp only [consts]; omega
  have e3 : c.toNat ≤ 0x7f := by omega
  simp only [readRecordHeader, e1, e2, e3, if_false, if_true]
  rfl

/-- the header bytes `WriteRecordHeader` chooses for a data record -/
def hdrBytes (h : Hdr) : List Byte :=
  if h.seg.toNat ≠ segCodeN ∨ h.gran.toNat ≠ Generated.granularity h.cpu.toNat h.seg.toNat ∨ h.cpu.toNat ≥ 0x80
  then [h.hdr, h.cpu, h.seg, h.gran] else [h.cpu]

/-- the stale-errno defect cannot strike: errno is clean or no branch calls ChkIO after success -/
def ChkHarmless (cfg : Cfg) (errno : Nat) : Prop := errno = 0 ∨ cfg = Cfg.intended

theorem putChk_ok (cfg : Cfg) (errno : Nat) (hc : ChkHarmless cfg errno) (out : List Byte) (x : Byte) :
    putChk cfg.chkStart errno out x = .ok (out ++ [x]) ∧ putChk cfg.chkLong errno out x = .ok (out ++ [x]) ∧
    putChk cfg.chkShort errno out x = .ok (out ++ [x]) := by
  rcases hc with h | h
  · subst h; simp [putChk]
  · subst h; simp [putChk, Cfg.intended]

theorem write_data (cfg : Cfg) (errno : Nat) (hc : ChkHarmless cfg errno) (out : List Byte) (h : Hdr)
    (hk : h.hdr.toNat = hData) : writeRecordHeader cfg errno out h = .ok (out ++ hdrBytes h) := by
  have e1 : ¬ (h.hdr.toNat = hEnd ∨ h.hdr.toNat = hStart) := by rw [hk]; simp [consts]
  have e2 : h.hdr.toNat = hData ∨ h.hdr.toNat = hRData := Or.inl hk
  simp only [writeRecordHeader, e1, e2, if_false, if_true, hdrBytes]
  split
  · simp only [(putChk_ok cfg errno hc _ _).2.1, Res.ok_bind, List.append_assoc, List.cons_append, List.nil_append]
  · exact (putChk_ok cfg errno hc _ _).2.2

theorem write_entry (cfg : Cfg) (errno : Nat) (hc : ChkHarmless cfg errno) (out : List Byte) (h : Hdr)
    (hk : h.hdr.toNat = hStart) : writeRecordHeader cfg errno out h = .ok (out ++ [h.hdr]) := by
  have e1 : h.hdr.toNat = hEnd ∨ h.hdr.toNat = hStart := Or.inr hk
  simp only [writeRecordHeader, e1, if_true]
  exact (putChk_ok cfg errno hc _ _).1

/-- reading back what `WriteRecordHeader` wrote for a data record -/
theorem read_hdrBytes (prev h : Hdr) (hk : h.hdr.toNat = hData) (h0 : h.cpu.toNat ≠ 0) (tl : List Byte) :
    readRecordHeader prev (hdrBytes h ++ tl) = some (h, tl) := by
  have hh : h.hdr = 0x81 := by
    have := eq_b_of_toNat hk
    rw [this]; rfl
  unfold hdrBytes
  split
  · simp only [List.cons_append, List.nil_append, hh]
    rw [read_long]
    cases h; simp_all
  · rename_i hn
    have hs : h.seg.toNat = segCodeN := by omega
    have hg : h.gran.toNat = Generated.granularity h.cpu.toNat h.seg.toNat := by omega
    have hc : h.cpu.toNat < 0x80 := by omega
    simp only [List.cons_append, List.nil_append]
    rw [read_short prev h.cpu hc h0]
    have es : h.seg = segCode := by
      have := eq_b_of_toNat hs
      rw [this]; rfl
    have eg : h.gran = granOf h.cpu segCode := by
      have := eq_b_of_toNat hg
      rw [this, es]; rfl
    cases h; simp_all

/-- for a record of the spec, `hdrBytes` is the `serAuto` choice -/
theorem hdrBytes_rec (r : Rec) (h0 : r.cpu.toNat ≠ 0) :
    hdrBytes ⟨0x81, r.cpu, r.seg, r.gran⟩ ++ le32 r.start ++ le16 r.data.length ++ r.data = serAuto r := by
  unfold hdrBytes serAuto
  cases hs : r.shortOK with
  | true =>
    obtain ⟨h1, h2, h3, _⟩ := (shortOK_iff r).mp hs
    have c1 : r.seg.toNat = segCodeN := by rw [h1]; decide
    have c2 : r.gran.toNat = Generated.granularity r.cpu.toNat r.seg.toNat := by
      rw [h2, h1]
      simp only [granOf, b_toNat]
      have : Generated.granularity r.cpu.toNat segCode.toNat < 256 := by
        unfold Generated.granularity; split <;> (try split) <;> omega
      omega
    have : ¬ (r.seg.toNat ≠ segCodeN ∨ r.gran.toNat ≠ Generated.granularity r.cpu.toNat r.seg.toNat ∨ r.cpu.toNat ≥ 0x80) := by
      omega
    simp only [this, if_false, if_true, serShort]
  | false =>
    have : (r.seg.toNat ≠ segCodeN ∨ r.gran.toNat ≠ Generated.granularity r.cpu.toNat r.seg.toNat ∨ r.cpu.toNat ≥ 0x80) := by
      by_cases c1 : r.seg.toNat = segCodeN
      · by_cases c2 : r.gran.toNat = Generated.granularity r.cpu.toNat r.seg.toNat
        · by_cases c3 : r.cpu.toNat ≥ 0x80
          · exact Or.inr (Or.inr c3)
          · exfalso
            have e1 : r.seg = segCode := by
              have := eq_b_of_toNat c1
              rw [this]; rfl
            have e2 : r.gran = granOf r.cpu segCode := by
              have := eq_b_of_toNat c2
              rw [this, e1]; rfl
            have : r.shortOK = true := (shortOK_iff r).mpr ⟨e1, e2, by omega, h0⟩
            rw [hs] at this
            exact Bool.false_ne_true this
        · exact Or.inr (Or.inl c2)
      · exact Or.inl c1
    simp only [this, if_true, Bool.false_eq_true, if_false, serLong]

/-- `ReadRecordHeader` on a data record written in either form -/
theorem read_dataForm (prev : Hdr) (r : Rec) (sh : Bool) (tl : List Byte) :
    readRecordHeader prev (serItemForm (.data r, sh) ++ tl) =
      some (⟨0x81, r.cpu, r.seg, r.gran⟩, le32 r.start ++ le16 r.data.length ++ r.data ++ tl) := by
  have long : readRecordHeader prev (serLong r ++ tl) =
      some (⟨0x81, r.cpu, r.seg, r.gran⟩, le32 r.start ++ le16 r.data.length ++ r.data ++ tl) := by
    simp only [serLong, List.cons_append, List.nil_append, List.append_assoc]
    rw [read_long]
  cases sh with
  | false => exact long
  | true =>
    simp only [serItemForm, serAuto]
    cases hs : r.shortOK with
    | false => simpa using long
    | true =>
      obtain ⟨h1, h2, h3, h4⟩ := (shortOK_iff r).mp hs
      simp only [if_true, serShort, List.cons_append, List.nil_append, List.append_assoc]
      rw [read_short prev r.cpu h3 h4, h2, h1]

/-! ## filter -/

theorem filterOK_keep (flt : FilterSt) (r : Rec) : filterOK flt r.cpu = keepItem (filterSpec flt) (.data r) := by
  unfold filterOK filterSpec keepItem
  cases h : flt.isEmpty <;> simp

/-! ## copy loop -/

theorem copyLoop_eq (bufSize : Nat) (hb : 0 < bufSize) (fuel len : Nat) (src out : List Byte)
    (hl : len ≤ src.length) (hf : len < fuel) :
    copyLoop bufSize fuel len src out = some (src.drop len, out ++ src.take len) := by
  induction fuel generalizing len src out with
  | zero => omega
  | succ f ih =>
    unfold copyLoop
    by_cases h0 : len = 0
    · subst h0; simp
    · simp only [h0, if_false]
      have ht : min bufSize len ≤ len := Nat.min_le_right _ _
      have hpos : 0 < min bufSize len := by
        rw [Nat.lt_min]; omega
      have hnl : ¬ src.length < min bufSize len := by omega
      simp only [hnl, if_false]
      rw [ih (len - min bufSize len) (src.drop (min bufSize len)) (out ++ src.take (min bufSize len))
        (by simp only [List.length_drop]; omega) (by omega)]
      have e1 : List.drop (len - min bufSize len) (List.drop (min bufSize len) src) = List.drop len src := by
        rw [List.drop_drop]; congr 1; omega
      have e2 : src.take (min bufSize len) ++ (src.drop (min bufSize len)).take (len - min bufSize len) = src.take len := by
        have := List.take_add (l := src) (i := min bufSize len) (j := len - min bufSize len)
        rw [show min bufSize len + (len - min bufSize len) = len by omega] at this
        exact this.symm
      rw [e1, List.append_assoc, e2]

/-! ## the record loop of pbind's ProcessFile, one record at a time -/

theorem loop_end (env : Env) (errno n fuel : Nat) (prev : Hdr) (sum : Nat) (creator out : List Byte) :
    pbindLoop env errno n (fuel + 1) prev sum (0x00 :: creator) out = .ok (out, sum) := by
  rw [pbindLoop, read_end]
  simp [consts, skipRecord]

theorem loop_entry (env : Env) (errno n fuel : Nat) (prev : Hdr) (sum a : Nat) (tl out : List Byte)
    (ha : a < 4294967296) (hc : ChkHarmless env.cfg errno) :
    pbindLoop env errno n (fuel + 1) prev sum ([0x80] ++ le32 a ++ tl) out =
      pbindLoop env errno n fuel { prev with hdr := 0x80 } sum tl (out ++ ([0x80] ++ le32 a)) := by
  rw [pbindLoop]
  simp only [List.cons_append, List.nil_append, read_entry]
  have e1 : (0x80 : Byte).toNat = hStart := by decide
  simp only [e1, if_true, le32, List.cons_append, List.nil_append]
  rw [write_entry env.cfg errno hc out _ e1]
  simp only [Res.ok_bind]
  have := rd32_le32 a ha
  simp only [this, le32, List.append_assoc, List.cons_append, List.nil_append]

theorem loop_data (env : Env) (errno n fuel : Nat) (prev : Hdr) (sum : Nat) (r : Rec) (sh : Bool)
    (tl out : List Byte) (hwf : r.WF) (h0 : r.cpu.toNat ≠ 0) (htl : env.lenSlack + 1 ≤ tl.length)
    (hn : r.data.length + tl.length ≤ n) (hb : 0 < env.bufSize) (hc : ChkHarmless env.cfg errno) :
    pbindLoop env errno n (fuel + 1) prev sum (serItemForm (.data r, sh) ++ tl) out =
      if keepItem (filterSpec env.flt) (.data r) = true then
        pbindLoop env errno n fuel ⟨0x81, r.cpu, r.seg, r.gran⟩ (sum + r.data.length) tl (out ++ serAuto r)
      else pbindLoop env errno n fuel ⟨0x81, r.cpu, r.seg, r.gran⟩ sum tl out := by
  rw [pbindLoop, read_dataForm]
  have e1 : ¬ (hData = hStart) := by decide
  have e2 : (0x81 : Byte).toNat = hData := by decide
  simp only [Rec.WF] at hwf
  simp only [e1, e2, if_false, if_true, le32, le16, List.cons_append, List.nil_append]
  rw [rd16_le16 _ hwf.2, rd32_le32 _ hwf.1]
  have hchk : ¬ (n - (r.data ++ tl).length + r.data.length ≥ n - env.lenSlack) := by
    simp only [List.length_append]; omega
  simp only [hchk, if_false, filterOK_keep]
  split
  · rw [write_data env.cfg errno hc out _ e2]
    simp only [Res.ok_bind]
    rw [copyLoop_eq env.bufSize hb _ _ _ _ (by simp) (by omega)]
    simp only [List.drop_left, List.take_left]
    have := hdrBytes_rec r h0
    simp only [le32, le16, List.append_assoc, List.cons_append, List.nil_append] at this
    simp only [← this, List.append_assoc, List.cons_append, List.nil_append]
  · simp only [List.drop_left]

/-! ## the whole loop -/

def keptItems (flt : FilterSt) (items : List (Item × Bool)) : List Item :=
  (items.map (·.1)).filter (keepItem (filterSpec flt))

/-- `SumLen`: bytes of the copied data records -/
def sumLen (l : List Item) : Nat := ((dataRecs l).map (fun r => r.data.length)).sum

theorem kept_entry (flt : FilterSt) (a : Nat) (sh : Bool) (is : List (Item × Bool)) :
    keptItems flt ((.entry a, sh) :: is) = .entry a :: keptItems flt is := by
  have : keepItem (filterSpec flt) (.entry a) = true := rfl
  simp [keptItems, this]

theorem kept_data_yes (flt : FilterSt) (r : Rec) (sh : Bool) (is : List (Item × Bool))
    (hk : keepItem (filterSpec flt) (.data r) = true) :
    keptItems flt ((.data r, sh) :: is) = .data r :: keptItems flt is := by
  simp [keptItems, hk]

theorem kept_data_no (flt : FilterSt) (r : Rec) (sh : Bool) (is : List (Item × Bool))
    (hk : ¬ keepItem (filterSpec flt) (.data r) = true) :
    keptItems flt ((.data r, sh) :: is) = keptItems flt is := by
  simp [keptItems, hk]

theorem sumLen_entry (a : Nat) (l : List Item) : sumLen (.entry a :: l) = sumLen l := by
  simp [sumLen, dataRecs]

theorem sumLen_data (r : Rec) (l : List Item) : sumLen (.data r :: l) = r.data.length + sumLen l := by
  simp [sumLen, dataRecs]

theorem serItemForm_len5 (i : Item × Bool) : 5 ≤ (serItemForm i).length := by
  obtain ⟨it, sh⟩ := i
  cases it with
  | entry a => simp [serItemForm, le32]
  | data r =>
    cases sh <;> simp only [serItemForm, serAuto, serLong, serShort] <;> (try split) <;> simp [le32, le16] <;> omega

theorem loop_items (env : Env) (errno n : Nat) (hb : 0 < env.bufSize) (hc : ChkHarmless env.cfg errno)
    (items : List (Item × Bool)) (creator : List Byte) (hcr : env.lenSlack ≤ creator.length)
    (hwf : ∀ i ∈ items, i.1.WF) (h0 : ∀ i ∈ items, ∀ r, i.1 = .data r → r.cpu.toNat ≠ 0)
    (fuel : Nat) (hf : items.length < fuel) (prev : Hdr) (sum : Nat) (out : List Byte)
    (hn : ((items.map serItemForm).flatten ++ 0x00 :: creator).length ≤ n) :
    pbindLoop env errno n fuel prev sum ((items.map serItemForm).flatten ++ 0x00 :: creator) out =
      .ok (out ++ ((keptItems env.flt items).map serItemAuto).flatten, sum + sumLen (keptItems env.flt items)) := by
  induction items generalizing fuel prev sum out with
  | nil =>
    cases fuel with
    | zero => omega
    | succ f => simp [loop_end, keptItems, sumLen, dataRecs]
  | cons i is ih =>
    cases fuel with
    | zero => omega
    | succ f =>
      have hwi := hwf i (by simp)
      have htl : env.lenSlack + 1 ≤ ((is.map serItemForm).flatten ++ 0x00 :: creator).length := by
        simp only [List.length_append, List.length_cons]; omega
      have hn' : ((is.map serItemForm).flatten ++ 0x00 :: creator).length ≤ n := by
        simp only [List.map_cons, List.flatten_cons, List.length_append] at hn ⊢; omega
      have ih' := ih (fun j hj => hwf j (by simp [hj])) (fun j hj => h0 j (by simp [hj])) f
        (by simp at hf; omega)
      obtain ⟨it, sh⟩ := i
      simp only [List.map_cons, List.flatten_cons, List.append_assoc]
      cases it with
      | entry a =>
        have := loop_entry env errno n f prev sum a ((is.map serItemForm).flatten ++ 0x00 :: creator) out hwi hc
        simp only [serItemForm, List.append_assoc] at this ⊢
        rw [this, ih' _ _ _ hn', kept_entry, sumLen_entry]
        simp [serItemAuto]
      | data r =>
        have hr0 := h0 (.data r, sh) (by simp) r rfl
        have hlen : r.data.length + ((is.map serItemForm).flatten ++ 0x00 :: creator).length ≤ n := by
          have h5 : r.data.length ≤ (serItemForm (.data r, sh)).length := by
            cases sh <;> simp only [serItemForm, serAuto, serLong, serShort] <;> (try split) <;> simp <;> omega
          simp only [List.map_cons, List.flatten_cons, List.length_append] at hn ⊢; omega
        rw [loop_data env errno n f prev sum r sh _ out hwi hr0 htl hlen hb hc]
        by_cases hk : keepItem (filterSpec env.flt) (.data r) = true
        · rw [if_pos hk, ih' _ _ _ hn', kept_data_yes _ _ _ _ hk, sumLen_data]
          simp [serItemAuto, Nat.add_assoc]
        · rw [if_neg hk, ih' _ _ _ hn', kept_data_no _ _ _ _ hk]

/-! ## ProcessFile, all files, main -/

def effErrno (quiet : Bool) (e : Nat) : Nat := if quiet then e else 0

theorem effErrno_idem (quiet : Bool) (e : Nat) : effErrno quiet (effErrno quiet e) = effErrno quiet e := by
  cases quiet <;> rfl

/-- hypotheses on one source file: well-formed items, no family 0, and a creator string of at least
`slack` bytes (`slack` = `Env.lenSlack`: 1 on the pinned tree = non-empty creator; 0 = no condition) -/
def SrcOK (slack : Nat) (f : List (Item × Bool) × List Byte) : Prop :=
  (∀ i ∈ f.1, i.1.WF) ∧ (∀ i ∈ f.1, ∀ r, i.1 = .data r → r.cpu.toNat ≠ 0) ∧ slack ≤ f.2.length

theorem processFile_ok (env : Env) (quiet : Bool) (st : St) (hb : 0 < env.bufSize)
    (hc : ChkHarmless env.cfg (effErrno quiet st.errno)) (f : List (Item × Bool) × List Byte) (hf : SrcOK env.lenSlack f) :
    processFile env quiet st (serFileForm f.1 f.2) =
      .ok ⟨st.out ++ ((keptItems env.flt f.1).map serItemAuto).flatten, effErrno quiet st.errno,
           st.sums ++ [sumLen (keptItems env.flt f.1)]⟩ := by
  obtain ⟨h1, h2, h3⟩ := hf
  have hm : rd16 (0x89 : Byte) (0x14 : Byte) = Generated.fileMagic := by decide
  simp only [serFileForm, magic, List.cons_append, List.nil_append, List.append_assoc, processFile, hm,
    ne_eq, not_true_eq_false, if_false]
  have := loop_items env (effErrno quiet st.errno)
    ((0x89 : Byte) :: 0x14 :: ((f.1.map serItemForm).flatten ++ (0x00 :: f.2))).length hb hc f.1 f.2 h3 h1 h2
    (((0x89 : Byte) :: 0x14 :: ((f.1.map serItemForm).flatten ++ (0x00 :: f.2))).length + 1)
    (by have := len_le_form f.1; simp only [List.length_cons, List.length_append]; omega)
    default 0 st.out (by simp only [List.length_cons, List.length_append]; omega)
  unfold effErrno at this ⊢
  rw [this]
  simp

theorem processFiles_ok (env : Env) (quiet : Bool) (hb : 0 < env.bufSize)
    (inputs : List (List (Item × Bool) × List Byte)) (hin : ∀ f ∈ inputs, SrcOK env.lenSlack f) (st : St)
    (hc : ChkHarmless env.cfg (effErrno quiet st.errno)) :
    ∃ e, processFiles env quiet st (inputs.map (fun f => serFileForm f.1 f.2)) =
      .ok ⟨st.out ++ ((inputs.map (fun f => keptItems env.flt f.1)).flatten.map serItemAuto).flatten, e,
           st.sums ++ inputs.map (fun f => sumLen (keptItems env.flt f.1))⟩ := by
  induction inputs generalizing st with
  | nil => exact ⟨st.errno, by simp [processFiles]⟩
  | cons f fs ih =>
    have h1 := processFile_ok env quiet st hb hc f (hin f (by simp))
    simp only [List.map_cons, processFiles, h1, Res.ok_bind]
    obtain ⟨e, he⟩ := ih (fun g hg => hin g (by simp [hg]))
      ⟨st.out ++ ((keptItems env.flt f.1).map serItemAuto).flatten, effErrno quiet st.errno,
       st.sums ++ [sumLen (keptItems env.flt f.1)]⟩ (by simpa [effErrno_idem] using hc)
    exact ⟨e, by rw [he]; simp⟩

/-- what BIND has to produce: the items of all sources, in order, that pass the filter -/
def expected (flt : FilterSt) (inputs : List (List (Item × Bool) × List Byte)) : List Item :=
  ((inputs.map (fun f => f.1.map (·.1))).flatten).filter (keepItem (filterSpec flt))

theorem expected_eq (flt : FilterSt) (inputs : List (List (Item × Bool) × List Byte)) :
    (inputs.map (fun f => keptItems flt f.1)).flatten = expected flt inputs := by
  simp [expected, keptItems, List.filter_flatten, Function.comp_def]


end AslModel.Tools
