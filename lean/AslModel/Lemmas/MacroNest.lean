import AslModel.Model.MacroNest
/-! Helper definitions and lemmas for Props/C11_Nest.lean: the invariants of the expansion bookkeeping machine
(Model/MacroNest.lean) and their preservation by the single operations. -/
namespace AslModel.NestModel
open AslModel.NestSpec



/-- the counters agree with the input stack -/
def Inv (s : St) : Prop := ∀ m, s.use m = openCount s.stack m

theorem openCount_cons (f : Frame) (st : List Frame) (m : Nat) :
    openCount (f :: st) m = (if isOpen m f then 1 else 0) + openCount st m := by
  unfold openCount
  by_cases h : isOpen m f = true
  · simp [h]; omega
  · simp [h]

theorem isOpen_of_kind_ne (m : Nat) (f : Frame) (h : f.kind ≠ .macroExp) : isOpen m f = false := by
  unfold isOpen
  cases hk : f.kind <;> simp_all

theorem isOpen_macro (m : Nat) (f : Frame) (h : f.kind = .macroExp) : isOpen m f = (f.mac == m) := by
  unfold isOpen
  simp [h]

theorem isOpen_congr (m : Nat) (f g : Frame) (hk : g.kind = f.kind) (hm : g.mac = f.mac) : isOpen m g = isOpen m f := by
  unfold isOpen
  rw [hk, hm]

/-! ### the handle operations and label operations do not touch counters or the input stack -/

@[simp] theorem pushLoc_use (s : St) : (pushLoc s).use = s.use := rfl

@[simp] theorem pushLoc_stack (s : St) : (pushLoc s).stack = s.stack := rfl

@[simp] theorem popLoc_use (s : St) : (popLoc s).use = s.use := by
  unfold popLoc; split <;> rfl

@[simp] theorem popLoc_stack (s : St) : (popLoc s).stack = s.stack := by
  unfold popLoc; split <;> rfl

@[simp] theorem defLabel_use (s : St) (l : Nat) : (defLabel s l).use = s.use := rfl

@[simp] theorem defLabel_stack (s : St) (l : Nat) : (defLabel s l).stack = s.stack := rfl

@[simp] theorem useLabel_use (s : St) (l : Nat) : (useLabel s l).use = s.use := by
  unfold useLabel; split
  · rfl
  · split <;> rfl

@[simp] theorem useLabel_stack (s : St) (l : Nat) : (useLabel s l).stack = s.stack := by
  unfold useLabel; split
  · rfl
  · split <;> rfl

/-! ### `ExpandMacro` -/

/-- a call is refused iff the limit is on and the counter is above it -/
theorem expandMacro_refused (p : Prog) (s : St) (m a : Nat) :
    (expandMacro p s m a).refused = s.refused + 1 ↔ (p.nestMax > 0 ∧ s.use m > p.nestMax) := by
  unfold expandMacro
  by_cases h : p.nestMax > 0 ∧ s.use m > p.nestMax
  · simp [h]
  · simp [h]

theorem expandMacro_inv (p : Prog) (s : St) (m a : Nat) (h : Inv s) : Inv (expandMacro p s m a) := by
  unfold expandMacro
  by_cases hr : p.nestMax > 0 ∧ s.use m > p.nestMax
  · simp only [hr, and_self, if_true]
    exact h
  · simp only [hr, if_false]
    intro x
    simp only [setUse]
    rw [openCount_cons]
    by_cases hx : x = m
    · subst hx
      simp [isOpen, h x]; omega
    · have : (m == x) = false := by simp; omega
      simp [isOpen, hx, this, h x]

theorem startLoop_inv (p : Prog) (s : St) (arg d n : Nat) (k : LKind) (h : Inv s) : Inv (startLoop p s arg d n k) := by
  unfold startLoop
  intro x
  cases k <;> simp only
  · split
    · show s.use x = openCount (_ :: s.stack) x
      rw [openCount_cons, isOpen_of_kind_ne _ _ (by simp)]; simp [h x]
    · exact h x
  · show s.use x = openCount (_ :: s.stack) x
    rw [openCount_cons, isOpen_of_kind_ne _ _ (by simp)]; simp [h x]
  · show s.use x = openCount (_ :: s.stack) x
    rw [openCount_cons, isOpen_of_kind_ne _ _ (by simp)]; simp [h x]

theorem exec_inv (p : Prog) (arg : Nat) (l : BLine) (s : St) (h : Inv s) : Inv (exec p arg l s) := by
  cases l with
  | emit k => exact h
  | deflab l => exact h
  | reflab l => intro x; simp [exec, h x]
  | defArg => exact h
  | refArg => intro x; simp [exec, h x]
  | call m a => exact expandMacro_inv p s m a h
  | callDec m =>
    simp only [exec]
    split
    · exact expandMacro_inv p s m _ h
    · exact h
  | loop d n k => exact startLoop_inv p s arg d n k h

/-! ### the Restorer and the Processors -/

@[simp] theorem restorerLoc_use (q : Quirks) (f : Frame) (s : St) : (restorerLoc q f s).use = s.use := by
  unfold restorerLoc; split <;> simp

@[simp] theorem restorerLoc_stack (q : Quirks) (f : Frame) (s : St) : (restorerLoc q f s).stack = s.stack := by
  unfold restorerLoc; split <;> simp

@[simp] theorem restorerUse_stack (f : Frame) (s : St) : (restorerUse f s).stack = s.stack := by
  unfold restorerUse; split <;> rfl

theorem restorerUse_use (f : Frame) (s : St) (x : Nat) :
    (restorerUse f s).use x = if f.kind = .macroExp ∧ x = f.mac then s.use x - 1 else s.use x := by
  unfold restorerUse
  by_cases hk : f.kind = .macroExp
  · by_cases hp : s.use f.mac > 0
    · simp only [hk, hp, and_self, if_true, setUse, true_and]
      by_cases hx : x = f.mac
      · subst hx; simp
      · simp [hx]
    · simp only [hk, hp, and_false, if_false, true_and]
      by_cases hx : x = f.mac
      · subst hx; simp; omega
      · simp [hx]
  · simp [hk]

theorem restorer_inv (q : Quirks) (f : Frame) (s : St) (below : List Frame) (hst : s.stack = f :: below) (h : Inv s) :
    Inv (restorer q f { s with stack := below }) := by
  intro x
  have hc : s.use x = (if isOpen x f then 1 else 0) + openCount below x := by
    rw [h x, hst, openCount_cons]
  unfold restorer
  rw [restorerUse_use, restorerUse_stack, restorerLoc_stack, restorerLoc_use]
  show (if f.kind = .macroExp ∧ x = f.mac then s.use x - 1 else s.use x) = openCount below x
  by_cases hk : f.kind = .macroExp
  · rw [isOpen_macro _ _ hk] at hc
    by_cases hx : x = f.mac
    · subst hx
      simp only [hk, and_self, if_true]
      simp at hc
      omega
    · have : (f.mac == x) = false := by simp; omega
      simp only [hk, hx, and_false, if_false]
      simp [this] at hc
      exact hc
  · rw [isOpen_of_kind_ne _ _ hk] at hc
    simp [hk]
    simpa using hc

@[simp] theorem nextFrame_kind (f : Frame) (ls : List BLine) : (nextFrame f ls).kind = f.kind := by
  unfold nextFrame
  cases h : f.kind <;> simp only
  split <;> simp

@[simp] theorem nextFrame_mac (f : Frame) (ls : List BLine) : (nextFrame f ls).mac = f.mac := by
  unfold nextFrame
  cases h : f.kind <;> simp only
  split <;> rfl

@[simp] theorem handleOps_use (f : Frame) (s : St) : (handleOps f s).use = s.use := by
  unfold handleOps
  cases f.kind <;> simp only
  · split <;> simp
  · split
    · split <;> simp
    · rfl

theorem deliver_same (f : Frame) (s : St) (l : BLine) (f' : Frame) (s' : St) (h : deliver f s = some (l, f', s')) :
    f'.kind = f.kind ∧ f'.mac = f.mac ∧ s'.use = s.use := by
  unfold deliver at h
  split at h
  · cases h
  · cases h
    exact ⟨nextFrame_kind _ _, nextFrame_mac _ _, handleOps_use _ _⟩

/-- states the machine can reach: the rounds of the main loop, and a new pass once the input is used up -/
inductive Reach (p : Prog) (q : Quirks) : St → Prop where
  | init : Reach p q (startPass p {} 1)
  | step {s s' : St} : Reach p q s → step p q s = some s' → Reach p q s'
  | pass {s : St} (n : Nat) : Reach p q s → s.stack = [] → Reach p q (startPass p s n)

theorem startPass_inv (p : Prog) (s : St) (n : Nat) (h : ∀ m, s.use m = 0) : Inv (startPass p s n) := by
  intro x
  show s.use x = openCount [_] x
  rw [openCount_cons, isOpen_of_kind_ne _ _ (by simp)]
  simp [h x, openCount]

/-! ### local-symbol handles: balanced when the Restorer pops only what the tag has pushed -/

/-- what a tag knows about its own handle -/
def FOK (f : Frame) : Prop :=
  match f.kind with
  | .srcFile => f.pushed = false
  | .macroExp => f.pushed = (!f.atFirst && !f.gs)
  | .loopExp => f.pushed = (!f.first && !f.gs) ∧ (f.atFirst = false → f.first = false)

/-- the handle stack is exactly as deep as there are tags that have pushed a handle -/
def HInv (s : St) : Prop := s.hstack.length = pushedCount s.stack ∧ ∀ f ∈ s.stack, FOK f

theorem pushedCount_cons (f : Frame) (st : List Frame) :
    pushedCount (f :: st) = (if f.pushed then 1 else 0) + pushedCount st := by
  unfold pushedCount
  by_cases h : f.pushed = true
  · simp [h]; omega
  · simp [h]

@[simp] theorem pushLoc_hlen (s : St) : (pushLoc s).hstack.length = s.hstack.length + 1 := rfl

theorem popLoc_hlen (s : St) : (popLoc s).hstack.length = s.hstack.length - 1 := by
  unfold popLoc; split <;> simp_all

@[simp] theorem defLabel_hstack (s : St) (l : Nat) : (defLabel s l).hstack = s.hstack := rfl

@[simp] theorem useLabel_hstack (s : St) (l : Nat) : (useLabel s l).hstack = s.hstack := by
  unfold useLabel; split
  · rfl
  · split <;> rfl

@[simp] theorem restorerUse_hstack (f : Frame) (s : St) : (restorerUse f s).hstack = s.hstack := by
  unfold restorerUse; split <;> rfl

theorem FOK_pushed (f : Frame) (h : FOK f) (hp : f.pushed = true) : (f.kind != .srcFile && !f.gs) = true := by
  unfold FOK at h
  cases hk : f.kind <;> simp [hk] at h ⊢
  · simp [h] at hp
  · rw [h] at hp; simp at hp; simp [hp.2]
  · rw [h.1] at hp; simp at hp; simp [hp.2]

theorem expandMacro_hinv (p : Prog) (s : St) (m a : Nat) (h : HInv s) : HInv (expandMacro p s m a) := by
  unfold expandMacro
  split
  · exact h
  · refine ⟨?_, ?_⟩
    · show s.hstack.length = pushedCount (_ :: s.stack)
      rw [pushedCount_cons]; simp [h.1]
    · intro f hf
      simp only [List.mem_cons] at hf
      rcases hf with rfl | hf
      · simp [FOK]
      · exact h.2 f hf

theorem startLoop_hinv (p : Prog) (s : St) (arg d n : Nat) (k : LKind) (h : HInv s) : HInv (startLoop p s arg d n k) := by
  have key : ∀ f : Frame, f.kind = .loopExp → f.pushed = false → f.first = true → f.atFirst = true →
      HInv { s with stack := f :: s.stack } := by
    intro f hk hp hf ha
    refine ⟨?_, ?_⟩
    · show s.hstack.length = pushedCount (f :: s.stack)
      rw [pushedCount_cons]; simp [h.1, hp]
    · intro g hg
      simp only [List.mem_cons] at hg
      rcases hg with rfl | hg
      · simp [FOK, hk, hp, hf, ha]
      · exact h.2 g hg
  unfold startLoop
  cases k <;> simp only
  · split
    · exact key _ rfl rfl rfl rfl
    · exact h
  · exact key _ rfl rfl rfl rfl
  · exact key _ rfl rfl rfl rfl

theorem exec_hinv (p : Prog) (arg : Nat) (l : BLine) (s : St) (h : HInv s) : HInv (exec p arg l s) := by
  cases l with
  | emit k => exact h
  | deflab l => exact h
  | reflab l => exact ⟨by simp [exec, h.1], by simpa [exec] using h.2⟩
  | defArg => exact h
  | refArg => exact ⟨by simp [exec, h.1], by simpa [exec] using h.2⟩
  | call m a => exact expandMacro_hinv p s m a h
  | callDec m =>
    simp only [exec]
    split
    · exact expandMacro_hinv p s m _ h
    · exact h
  | loop d n k => exact startLoop_hinv p s arg d n k h

@[simp] theorem handleOps_stack (f : Frame) (s : St) : (handleOps f s).stack = s.stack := by
  unfold handleOps
  cases f.kind <;> simp only
  · split <;> simp
  · split
    · split <;> simp
    · rfl

/-- the Processor's handle operations and the tag's own record move together -/
theorem deliver_hlen (f : Frame) (ls : List BLine) (s : St) (hf : FOK f) (hpos : f.pushed = true → 0 < s.hstack.length) :
    FOK (nextFrame f ls) ∧
    (handleOps f s).hstack.length + (if f.pushed then 1 else 0) = s.hstack.length + (if (nextFrame f ls).pushed then 1 else 0) := by
  unfold FOK at hf
  cases hk : f.kind with
  | srcFile =>
    simp only [hk] at hf
    simp [FOK, nextFrame, handleOps, hk, hf]
  | macroExp =>
    simp only [hk] at hf
    cases ha : f.atFirst <;> cases hg : f.gs <;> simp [ha, hg] at hf <;>
      simp [FOK, nextFrame, handleOps, hk, ha, hg, hf]
  | loopExp =>
    simp only [hk] at hf
    obtain ⟨hp, hfirst⟩ := hf
    cases ha : f.atFirst <;> cases hg : f.gs <;> cases h1 : f.first <;>
      simp [ha, hg, h1] at hp hfirst <;>
      by_cases hl : ls.isEmpty = true <;>
      simp [FOK, nextFrame, handleOps, hk, ha, hg, h1, hp, hl, popLoc_hlen]
    all_goals (have := hpos hp; omega)

theorem startPass_hinv (p : Prog) (s : St) (n : Nat) : HInv (startPass p s n) := by
  refine ⟨?_, ?_⟩
  · show ([] : List Int).length = pushedCount [_]
    rw [pushedCount_cons]; simp [pushedCount]
  · intro f hf
    simp only [startPass, List.mem_singleton] at hf
    subst hf
    simp [FOK]

end AslModel.NestModel
