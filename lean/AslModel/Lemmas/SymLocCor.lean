import AslModel.Lemmas.SymLocMacro
/-! helper lemmas for the corollaries of `C13_loc_refines` (`Props/C13_Loc.lean`): the observation of a reference is what
`FindLocNode` does; handles of the stack are old handles. -/
namespace AslModel.SymLoc
open AslModel.Sym AslModel.Generated.Sym
open AslModel.LocScope hiding Name

theorem walkConts_walkSpace (ltab : Tab) (name : Name) (l : List Int) :
    walkConts ltab name l = (walkSpace ltab name l).bind (fun h => tfind ltab (name, h)) := by
  induction l with
  | nil => rfl
  | cons c r ih =>
    simp only [walkConts, walkSpace]
    split
    · rfl
    · cases hq : tfind ltab (name, c) with
      | some e => simp [hq]
      | none => simpa using ih

theorem findLocNode_refSpace (st : LSt) (ref : Name) :
    findLocNode st ((chkTmp1 st.g ((chkTmp2Ref st.g ref).getD ref)).getD ((chkTmp2Ref st.g ref).getD ref)) =
      (refSpace st ref).bind (fun h => tfind st.ltab (refName st ref, h)) := by
  unfold findLocNode refSpace refName
  simp only
  split
  · rfl
  · cases hq : tfind st.ltab (fold st.g.cs (chkTmp3Ref st.g
        ((chkTmp1 st.g ((chkTmp2Ref st.g ref).getD ref)).getD ((chkTmp2Ref st.g ref).getD ref))), st.mom) with
    | some e => simp [hq]
    | none => simpa using walkConts_walkSpace _ _ _

theorem walkSpace_mem (ltab : Tab) (name : Name) (l : List Int) (h : Int) (hw : walkSpace ltab name l = some h) :
    h ∈ l ∧ hasKey ltab (name, h) = true := by
  induction l with
  | nil => simp [walkSpace] at hw
  | cons c r ih =>
    simp only [walkSpace] at hw
    split at hw
    · cases hw
    · cases hq : tfind ltab (name, c) with
      | some e =>
        rw [hq] at hw
        simp only [Option.some.injEq] at hw
        subst hw
        exact ⟨by simp, by simp [hasKey, hq]⟩
      | none =>
        rw [hq] at hw
        have := ih hw
        exact ⟨List.mem_cons_of_mem _ this.1, this.2⟩

theorem refKey_mem (st : LSt) (r : Name) (key : Key) (h : refKey st r = some key) :
    key.2 ∈ st.mom :: st.conts ∧ hasKey st.ltab key = true ∧ key.1 = refName st r := by
  unfold refKey at h
  cases hs : refSpace st r with
  | none => rw [hs] at h; cases h
  | some hd =>
    rw [hs] at h
    simp only [Option.map_some, Option.some.injEq] at h
    subst h
    rw [refSpace_eq_walk] at hs
    have := walkSpace_mem _ _ _ _ hs
    exact ⟨this.1, this.2, rfl⟩

/-- every handle on the stack was given out before -/
def StackBelow (st : LSt) : Prop := ∀ h ∈ st.mom :: st.conts, h < (st.cnt : Int)

theorem StackBelow.wf {st : LSt} (h : StackBelow st) : WF st := h st.mom (by simp)

theorem popLoc_below {st : LSt} (h : StackBelow st) : StackBelow (popLoc st) := by
  unfold popLoc
  split
  · exact h
  · rename_i c r hc
    intro x hx
    apply h x
    rw [hc]
    simp only [List.mem_cons] at hx ⊢
    rcases hx with hx | hx
    · exact Or.inr (Or.inl hx)
    · exact Or.inr (Or.inr hx)

theorem pushFresh_below {st : LSt} (h : StackBelow st) : StackBelow (pushFresh st) := by
  intro x hx
  simp only [pushFresh, pushLoc, List.mem_cons] at hx ⊢
  rcases hx with hx | hx | hx
  · subst hx; omega
  · subst hx; have := h st.mom (by simp); omega
  · have := h x (by simp [hx]); omega

theorem iterOpen_below {st : LSt} (h : StackBelow st) (glob first : Bool) : StackBelow (iterOpen glob first st) := by
  unfold iterOpen
  split
  · exact h
  · split
    · exact pushFresh_below h
    · exact pushFresh_below (popLoc_below h)

theorem restorer_below {st : LSt} (h : StackBelow st) (glob first : Bool) : StackBelow (restorer glob first st) := by
  unfold restorer
  split
  · exact popLoc_below h
  · exact h

theorem stepL_below {st : LSt} (h : StackBelow st) (o : Op) : StackBelow (stepL st o) := by
  unfold StackBelow
  rw [(stepL_frame st o).mom, (stepL_frame st o).conts, stepL_cnt]
  exact h

theorem execItems_below (q : Items) (st : LSt) (h : StackBelow st) : StackBelow (execItems q st) :=
  execItems_preserves StackBelow (fun _ o h => stepL_below h o) (fun g f _ h => iterOpen_below h g f)
    (fun g f _ h => restorer_below h g f) q st h

theorem execItem_below (i : Item) (st : LSt) (h : StackBelow st) : StackBelow (execItem i st) :=
  execItem_preserves StackBelow (fun _ o h => stepL_below h o) (fun g f _ h => iterOpen_below h g f)
    (fun g f _ h => restorer_below h g f) i st h

theorem initPassL_below (st : LSt) (line0 : Nat) (hc : st.conts = []) : StackBelow (initPassL st line0) := by
  intro x hx
  simp only [initPassL, hc, List.mem_cons, List.not_mem_nil, or_false] at hx ⊢
  subst hx
  omega

/-! ### every handle a statement uses was opened for an iteration -/

/-- the handles of the keys of an event -/
def evHandles (e : Ev) : List Int := (e.dkey.map (·.2)).toList ++ (e.rkey.map (·.2)).toList

/-- every handle on the stack is `-1` or one of `S` -/
def HIn (S : List Int) (st : LSt) : Prop := ∀ h ∈ st.mom :: st.conts, h = -1 ∨ h ∈ S

theorem HIn.of_frame {S : List Int} {st st' : LSt} (h : HIn S st) (hf : Frame st st') : HIn S st' := by
  unfold HIn
  rw [hf.mom, hf.conts]
  exact h

theorem HIn.mono {S S' : List Int} {st : LSt} (h : HIn S st) (hs : ∀ x ∈ S, x ∈ S') : HIn S' st :=
  fun x hx => (h x hx).imp id (hs x)

theorem walkSpace_ne (ltab : Tab) (name : Name) (l : List Int) (h : Int) (hw : walkSpace ltab name l = some h) : h ≠ -1 := by
  induction l with
  | nil => simp [walkSpace] at hw
  | cons c r ih =>
    simp only [walkSpace] at hw
    split at hw
    · cases hw
    · rename_i hc
      cases hq : tfind ltab (name, c) with
      | some e => rw [hq] at hw; simp only [Option.some.injEq] at hw; subst hw; exact hc
      | none => rw [hq] at hw; exact ih hw

theorem refKey_handle {S : List Int} {st : LSt} (h : HIn S st) (r : Name) (key : Key) (hk : refKey st r = some key) :
    key.2 ∈ S := by
  have hm := (refKey_mem st r key hk).1
  unfold refKey at hk
  cases hs : refSpace st r with
  | none => rw [hs] at hk; cases hk
  | some hd =>
    rw [hs] at hk
    simp only [Option.map_some, Option.some.injEq] at hk
    subst hk
    rw [refSpace_eq_walk] at hs
    have hne := walkSpace_ne _ _ _ _ hs
    cases h _ hm with
    | inl e => exact absurd e hne
    | inr e => exact e

theorem defKey_handle {S : List Int} {st : LSt} (h : HIn S st) (n : Name) (key : Key) (hk : defKey st n = some key) :
    key.2 ∈ S := by
  unfold defKey at hk
  split at hk
  · split at hk
    · cases hk
    · rename_i hne
      simp only [Option.some.injEq] at hk
      subst hk
      cases h st.mom (by simp) with
      | inl e => exact absurd e hne
      | inr e => exact e
  · cases hk

theorem evOf_handles {S : List Int} {st : LSt} (h : HIn S st) (o : Op) : ∀ x ∈ evHandles (evOf st o), x ∈ S := by
  have hb : HIn S (bumpLine st) := h
  intro x hx
  unfold evHandles at hx
  cases o <;> simp only [evOf] at hx
  case label n =>
    cases hd : defKey (bumpLine st) n with
    | none => simp [hd] at hx
    | some key => simp [hd] at hx; subst hx; exact defKey_handle hb n key hd
  case labelOnly n =>
    cases hd : defKey (bumpLine st) n with
    | none => simp [hd] at hx
    | some key => simp [hd] at hx; subst hx; exact defKey_handle hb n key hd
  case labelWord n r =>
    have h2 : HIn S (defineLabelL (bumpLine st) n (bumpLine st).g.pc) := hb.of_frame (defineLabelL_frame _ _ _)
    cases List.mem_append.mp hx with
    | inl h1 =>
      cases hd : defKey (bumpLine st) n with
      | none => simp [hd] at h1
      | some key => simp [hd] at h1; subst h1; exact defKey_handle hb n key hd
    | inr h1 =>
      cases hd : refKey (defineLabelL (bumpLine st) n (bumpLine st).g.pc) r with
      | none => simp [hd] at h1
      | some key => simp [hd] at h1; subst h1; exact refKey_handle h2 r key hd
  case use r =>
    cases hd : refKey (bumpLine st) r with
    | none => simp [hd] at hx
    | some key => simp [hd] at hx; subst hx; exact refKey_handle hb r key hd
  all_goals simp at hx

/-- the stack between the iterations of a construct, as far as membership goes: after the space of the previous iteration
is popped the handles are old ones -/
def LoopHIn (S : List Int) (glob first : Bool) (st : LSt) : Prop :=
  HIn S (if glob ∨ first then st else popLoc st)

theorem pushFresh_hin {S : List Int} {st : LSt} (h : HIn S st) : HIn (S ++ [(pushFresh st).mom]) (pushFresh st) := by
  intro x hx
  simp only [pushFresh, pushLoc, List.mem_cons] at hx ⊢
  rcases hx with e | e | e
  · right; rw [e]; simp
  · exact (h x (by simp [e])).imp id (fun m => List.mem_append_left _ m)
  · exact (h x (by simp [e])).imp id (fun m => List.mem_append_left _ m)

theorem iterOpen_hin (S : List Int) (first : Bool) (st : LSt) (h : LoopHIn S false first st) :
    HIn (S ++ [(iterOpen false first st).mom]) (iterOpen false first st) := by
  unfold LoopHIn at h
  unfold iterOpen
  cases first
  · simpa using pushFresh_hin (by simpa using h)
  · simpa using pushFresh_hin (by simpa using h)

/-- after the body of an iteration the stack is the one at its first line; popping its space gives the old handles -/
theorem popLoc_after_iter (S : List Int) (first : Bool) (st s' : LSt) (h : LoopHIn S false first st)
    (hf : Frame (iterOpen false first st) s') : HIn S (popLoc s') := by
  unfold LoopHIn at h
  have hc : s'.conts = (iterOpen false first st).conts := hf.conts
  unfold popLoc
  cases first
  · simp only [Bool.false_eq_true, or_self, if_false] at h
    simp only [iterOpen, Bool.false_eq_true, if_false, pushFresh, pushLoc] at hc
    rw [hc]
    exact h
  · simp only [or_true, if_true] at h
    simp only [iterOpen, Bool.false_eq_true, if_false, if_true, pushFresh, pushLoc] at hc
    rw [hc]
    exact h

theorem loop_handles (S0 : List Int) (glob : Bool) (body : Items)
    (hb : ∀ S s, HIn S s → ∀ e ∈ traceItems body s, ∀ x ∈ evHandles e, x ∈ S ++ openedItems body s) :
    ∀ (n : Nat) (first : Bool) (st : LSt) (S : List Int), (∀ x ∈ S0, x ∈ S) → LoopHIn S glob first st →
      ∀ e ∈ obsLoop glob (execItems body) (traceItems body) (fun _ => []) n first st, ∀ x ∈ evHandles e,
        x ∈ S ++ obsLoop glob (execItems body) (openedItems body) (fun s => if glob then [] else [s.mom]) n first st := by
  intro n
  induction n with
  | zero => intro first st S _ _ e he; simp [obsLoop] at he
  | succ k ih =>
    intro first st S hS h e he x hx
    simp only [obsLoop, List.nil_append, List.mem_append] at he ⊢
    cases glob with
    | true =>
      simp only [iterOpen_stack_glob, if_true] at he ⊢
      have hst : HIn S st := by simpa [LoopHIn] using h
      cases he with
      | inl h1 =>
        have := hb S st hst e h1 x hx
        cases List.mem_append.mp this with
        | inl m => exact Or.inl m
        | inr m => exact Or.inr (Or.inl (Or.inr m))
      | inr h1 =>
        have h' : LoopHIn S true false (execItems body st) := by
          simpa [LoopHIn] using hst.of_frame (execItems_frame body st)
        have := ih false _ S hS h' e h1 x hx
        cases List.mem_append.mp this with
        | inl m => exact Or.inl m
        | inr m => exact Or.inr (Or.inr m)
    | false =>
      simp only [Bool.false_eq_true, if_false] at he ⊢
      have hs := iterOpen_hin S first st h
      cases he with
      | inl h1 =>
        have := hb _ _ hs e h1 x hx
        simp only [List.mem_append, List.mem_singleton] at this ⊢
        rcases this with (m | m) | m
        · exact Or.inl m
        · exact Or.inr (Or.inl (Or.inl (by simp [m])))
        · exact Or.inr (Or.inl (Or.inr m))
      | inr h1 =>
        have h' : LoopHIn S false false (execItems body (iterOpen false first st)) := by
          simpa [LoopHIn] using popLoc_after_iter S first st _ h (execItems_frame body _)
        have := ih false _ S hS h' e h1 x hx
        cases List.mem_append.mp this with
        | inl m => exact Or.inl m
        | inr m => exact Or.inr (Or.inr m)

mutual
theorem traceItem_handles : ∀ (i : Item) (S : List Int) (st : LSt), HIn S st →
    ∀ e ∈ traceItem i st, ∀ x ∈ evHandles e, x ∈ S ++ openedItem i st
  | .op o, S, st, h, e, he, x, hx => by
    simp only [traceItem, List.mem_singleton] at he
    subst he
    simpa [openedItem] using evOf_handles h o x hx
  | .con wh glob n body, S, st, h, e, he, x, hx => by
    simp only [traceItem, openedItem] at he ⊢
    exact loop_handles S glob body (fun S' s hs => traceItems_handles body S' s hs) n true st S (fun _ m => m)
      (by simpa [LoopHIn] using h) e he x hx
theorem traceItems_handles : ∀ (q : Items) (S : List Int) (st : LSt), HIn S st →
    ∀ e ∈ traceItems q st, ∀ x ∈ evHandles e, x ∈ S ++ openedItems q st
  | .nil, _, _, _, e, he, _, _ => by simp [traceItems] at he
  | .cons i r, S, st, h, e, he, x, hx => by
    simp only [traceItems, openedItems, List.mem_append] at he ⊢
    cases he with
    | inl h1 =>
      have := traceItem_handles i S st h e h1 x hx
      cases List.mem_append.mp this with
      | inl m => exact Or.inl m
      | inr m => exact Or.inr (Or.inl m)
    | inr h1 =>
      have := traceItems_handles r S (execItem i st) (h.of_frame (execItem_frame i st)) e h1 x hx
      cases List.mem_append.mp this with
      | inl m => exact Or.inl m
      | inr m => exact Or.inr (Or.inr m)
end

end AslModel.SymLoc
