import AslModel.Model.DataWord
import AslModel.Lemmas.DataExt
/-! Helper lemmas for `Props/C09_Data.lean`: the character loop of `DecodeDATA` only appends to what earlier
arguments stored (because `bpos` starts at 0 for every string), packing of two characters per word. -/
namespace AslModel.DataWLemmas
open AslModel.PFile (Byte b)
open AslModel.Data AslModel.DataModel AslModel.DataX AslModel.DataXModel AslModel.DataXLemmas
open AslModel.DataW AslModel.DataWModel

theorem orLast_append (pre x : List Nat) (y : Nat) (hx : x ≠ []) : orLast (pre ++ x) y = pre ++ orLast x y := by
  induction pre with
  | nil => rfl
  | cons a pre ih =>
    cases hp : pre ++ x with
    | nil => simp at hp; exact absurd hp.2 hx
    | cons c r =>
      have : (a :: pre) ++ x = a :: c :: r := by simp [hp]
      rw [this]
      simp only [orLast]
      rw [← hp, ih]
      rfl

theorem orLast_ne_nil (x : List Nat) (y : Nat) (hx : x ≠ []) : orLast x y ≠ [] := by
  match x, hx with
  | [l], _ => simp [orLast]
  | a :: c :: r, _ => simp [orLast]

/-- a pending half-filled cell (`bpos ≠ 0`) exists inside the part of the buffer written by this string -/
def Inv (x : List Nat) (bpos : Nat) : Prop := bpos ≠ 0 → x ≠ []

theorem step_local (mask : Nat) (pre x : List Nat) (bpos tc : Nat) (h : Inv x bpos) :
    stringStep mask (pre ++ x, bpos) tc = (pre ++ (stringStep mask (x, bpos) tc).1, (stringStep mask (x, bpos) tc).2) ∧
    Inv (stringStep mask (x, bpos) tc).1 (stringStep mask (x, bpos) tc).2 := by
  unfold stringStep Inv
  simp only
  by_cases h0 : bpos = 0
  · subst h0
    simp only [if_true, List.append_assoc]
    split <;> (try split) <;> (try split) <;> (try split) <;> (try split) <;> simp
  · have hx : x ≠ [] := h h0
    simp only [h0, if_false]
    split
    · split <;> simp [orLast_append _ _ _ hx, orLast_ne_nil _ _ hx]
    · split
      · simp [orLast_append _ _ _ hx, orLast_ne_nil _ _ hx]
      · split
        · simp [orLast_append _ _ _ hx, orLast_ne_nil _ _ hx]
        · split <;> (try split) <;> simp [hx]

theorem fold_local (mask : Nat) (f : Byte → Nat) (pre : List Nat) (cs : List Byte) (x : List Nat) (bpos : Nat) (h : Inv x bpos) :
    cs.foldl (fun st c => stringStep mask st (f c)) (pre ++ x, bpos) =
      (pre ++ (cs.foldl (fun st c => stringStep mask st (f c)) (x, bpos)).1,
       (cs.foldl (fun st c => stringStep mask st (f c)) (x, bpos)).2) := by
  induction cs generalizing x bpos with
  | nil => rfl
  | cons c cs ih =>
    simp only [List.foldl_cons]
    have hs := step_local mask pre x bpos (f c) h
    rw [hs.1]
    have := ih (stringStep mask (x, bpos) (f c)).1 (stringStep mask (x, bpos) (f c)).2 hs.2
    rw [this]

/-- **a string argument only appends**: whatever earlier arguments stored stays as it is -/
theorem dataString_append (mask : Nat) (t : List Byte) (buf : List Nat) (cs : List Byte) :
    dataString mask t buf cs = buf ++ dataString mask t [] cs := by
  unfold dataString
  have := fold_local mask (fun c => (ctt t c).toNat) buf cs [] 0 (by intro h; exact absurd rfl h)
  simp only [List.append_nil] at this
  rw [this]

theorem dataInt_append (d : DCtx) (buf : List Nat) (v : Int) :
    dataInt d buf v = (dataInt d [] v).map (buf ++ ·) := by
  unfold dataInt
  dsimp only
  split <;> simp

theorem dataArg_append (d : DCtx) (buf : List Nat) (a : WArg) :
    dataArg d buf a = (dataArg d [] a).map (buf ++ ·) := by
  cases a with
  | int v => exact dataInt_append d buf v
  | str cs => simp [dataArg, dataString_append d.mask d.t buf cs]
  | chr cs =>
    simp only [dataArg]
    split
    · exact dataInt_append d buf _
    · simp [dataString_append d.mask d.t buf cs]
  | flt x => simp [dataArg]

theorem dataArgs_append (d : DCtx) (buf : List Nat) (as : List WArg) :
    dataArgs d buf as = (dataArgs d [] as).map (buf ++ ·) := by
  induction as generalizing buf with
  | nil => simp [dataArgs]
  | cons a as ih =>
    simp only [dataArgs]
    rw [dataArg_append d buf a]
    cases h : dataArg d [] a with
    | none => simp
    | some w =>
      simp only [Option.map_some]
      rw [ih (buf ++ w), ih w]
      cases dataArgs d [] as <;> simp

theorem decode_single (d : DCtx) (a : WArg) : decodeDATA d [a] = dataArg d [] a := by
  unfold decodeDATA
  simp only [dataArgs]
  cases dataArg d [] a <;> rfl

theorem dataArgs_cons (d : DCtx) (a : WArg) (as : List WArg) :
    dataArgs d [] (a :: as) =
      match dataArg d [] a with
      | none => none
      | some w => (dataArgs d [] as).map (w ++ ·) := by
  simp only [dataArgs]
  cases h : dataArg d [] a with
  | none => rfl
  | some w => exact dataArgs_append d w as

theorem decode_join (d : DCtx) (as : List WArg) :
    decodeDATA d as = joinArgs (as.map fun a => decodeDATA d [a]) := by
  have hm : (as.map fun a => decodeDATA d [a]) = as.map (dataArg d []) := by
    apply List.map_congr_left
    intro a _
    exact decode_single d a
  rw [hm]
  clear hm
  unfold decodeDATA
  induction as with
  | nil => rfl
  | cons a as ih =>
    rw [dataArgs_cons, List.map_cons]
    cases h : dataArg d [] a with
    | none => simp [joinArgs]
    | some w =>
      simp only [joinArgs]
      rw [ih]
      cases joinArgs (as.map (dataArg d [])) <;> simp

theorem spec_single (c : WCfg) (a : WArg) : specData c [a] = specArg c a := by
  simp only [specData]
  cases specArg c a <;> simp

theorem spec_join (c : WCfg) (as : List WArg) : specData c as = joinArgs (as.map fun a => specData c [a]) := by
  induction as with
  | nil => rfl
  | cons a as ih =>
    simp only [List.map_cons, spec_single]
    rw [specData]
    cases h : specArg c a with
    | none => simp [joinArgs]
    | some w =>
      simp only [joinArgs]
      rw [ih]
      simp only [spec_single]
      cases joinArgs (as.map fun a => specArg c a) <;> simp

theorem joinArgs_append (l1 l2 : List (Option (List Nat))) :
    joinArgs (l1 ++ l2) = match joinArgs l1, joinArgs l2 with
      | some x, some y => some (x ++ y)
      | _, _ => none := by
  induction l1 with
  | nil => cases h : joinArgs l2 <;> simp [joinArgs, h]
  | cons o l1 ih =>
    cases o with
    | none => simp [joinArgs]
    | some x =>
      simp only [List.cons_append, joinArgs, ih]
      cases joinArgs l1 <;> cases joinArgs l2 <;> simp

/-! ## what a string lays down, per packing regime -/

theorem or_shift8 (c0 c1 : Nat) (h : c0 < 256) : c0 ||| (c1 <<< 8) = c0 + 256 * c1 := by
  have h8 : c0 < 2 ^ 8 := by simpa using h
  rw [Nat.or_comm, ← Nat.shiftLeft_add_eq_or_of_lt h8 c1, Nat.shiftLeft_eq]
  omega

theorem dataString16_cons2 (t : List Byte) (c0 c1 : Byte) (rest : List Byte) :
    dataString 0xffff t [] (c0 :: c1 :: rest) =
      ((ctt t c0).toNat + 256 * (ctt t c1).toNat) :: dataString 0xffff t [] rest := by
  have h0 : stringStep 0xffff ([], 0) (ctt t c0).toNat = ([(ctt t c0).toNat], 1) := by simp [stringStep]
  have h1 : stringStep 0xffff ([(ctt t c0).toNat], 1) (ctt t c1).toNat
      = ([(ctt t c0).toNat ||| ((ctt t c1).toNat <<< 8)], 0) := by simp [stringStep, orLast]
  unfold dataString
  simp only [List.foldl_cons, h0, h1]
  have := fold_local 0xffff (fun c => (ctt t c).toNat) [(ctt t c0).toNat ||| ((ctt t c1).toNat <<< 8)] rest [] 0
    (by intro h; exact absurd rfl h)
  simp only [List.append_nil] at this
  rw [this, or_shift8 _ _ (UInt8.toNat_lt _)]
  rfl

/-- 16-bit words: two characters per word, first one in the low byte -/
theorem dataString16 (t : List Byte) (cs : List Byte) :
    dataString 0xffff t [] cs = packPairs (cs.map (ctt t)) := by
  induction cs using packPairs.induct with
  | case1 c0 c1 rest ih => rw [dataString16_cons2, ih]; simp [packPairs]
  | case2 c => simp [dataString, stringStep, packPairs]
  | case3 => simp [dataString, packPairs]

/-- a regime without shared cells: every character appends `g` of its code -/
theorem dataString_each (mask : Nat) (g : Nat → List Nat) (hstep : ∀ buf bpos tc, stringStep mask (buf, bpos) tc = (buf ++ g tc, bpos))
    (t : List Byte) (buf : List Nat) (cs : List Byte) :
    dataString mask t buf cs = buf ++ (cs.map fun c => g (ctt t c).toNat).flatten := by
  unfold dataString
  suffices h : ∀ (buf : List Nat) (bpos : Nat),
      cs.foldl (fun st c => stringStep mask st (ctt t c).toNat) (buf, bpos) = (buf ++ (cs.map fun c => g (ctt t c).toNat).flatten, bpos) by
    rw [h]
  induction cs with
  | nil => intro buf bpos; simp
  | cons c cs ih =>
    intro buf bpos
    rw [List.foldl_cons, hstep, ih]
    simp only [List.map_cons, List.flatten_cons, List.append_assoc]

/-- 8..15-bit words: one cell per character -/
theorem dataString_perWord (mask : Nat) (h1 : 0xff ≤ mask) (h2 : mask < 0xffff) (t : List Byte) (cs : List Byte) :
    dataString mask t [] cs = (cs.map (ctt t)).map (·.toNat) := by
  have hstep : ∀ buf bpos tc, stringStep mask (buf, bpos) tc = (buf ++ [tc], bpos) := by
    intro buf bpos tc
    unfold stringStep
    simp only
    have a1 : ¬ mask ≥ 0xffffff := by omega
    have a2 : ¬ mask > 0xffff := by omega
    have a3 : ¬ mask = 0xffff := by omega
    simp only [a1, a2, a3, if_false]
    split
    · rfl
    · split
      · rfl
      · omega
  rw [dataString_each mask (fun tc => [tc]) hstep]
  simp [List.map_map]
  induction cs with
  | nil => rfl
  | cons c cs ih => simp [ih]

theorem nib_split (x : Nat) : x >>> 4 = x / 16 ∧ x &&& 15 = x % 16 := by
  constructor
  · rw [Nat.shiftRight_eq_div_pow]
  · exact Nat.and_two_pow_sub_one_eq_mod x 4

/-- 4..7-bit words: upper nibble, lower nibble -/
theorem dataString_nibbles (mask : Nat) (h : mask < 0xff) (t : List Byte) (cs : List Byte) :
    dataString mask t [] cs = ((cs.map (ctt t)).map fun c => [c.toNat / 16, c.toNat % 16]).flatten := by
  have hstep : ∀ buf bpos tc, stringStep mask (buf, bpos) tc = (buf ++ [tc / 16, tc % 16], bpos) := by
    intro buf bpos tc
    unfold stringStep
    simp only
    have a1 : ¬ mask ≥ 0xffffff := by omega
    have a2 : ¬ mask > 0xffff := by omega
    have a3 : ¬ mask = 0xffff := by omega
    have a4 : ¬ mask > 0xff := by omega
    have a5 : ¬ mask = 0xff := by omega
    simp only [a1, a2, a3, a4, a5, if_false, (nib_split tc).1, (nib_split tc).2]
  rw [dataString_each mask (fun tc => [tc / 16, tc % 16]) hstep]
  simp [List.map_map, Function.comp_def]

/-! ## integers and character constants -/

/-- arguments the equality is stated for: integers the 64-bit evaluator can deliver (non-negative where the target's
type is unsigned); single-quoted strings that are not empty and whose length is not between ⌊w/8⌋ and ⌈w/8⌉ -/
def ArgOK (w : Nat) (nonneg : Bool) : WArg → Prop
  | .int v => -(2 : Int) ^ 63 ≤ v ∧ v < (2 : Int) ^ 63 ∧ (nonneg = true → 0 ≤ v)
  | .chr cs => 1 ≤ cs.length ∧ ¬ (w / 8 < cs.length ∧ cs.length ≤ (w + 7) / 8)
  | _ => True

theorem argOKb_ok (w : Nat) (nn : Bool) (a : WArg) (h : argOKb w nn a = true) : ArgOK w nn a := by
  cases a with
  | int v =>
    simp only [argOKb, decide_eq_true_eq] at h
    exact h
  | chr cs =>
    simp only [argOKb, decide_eq_true_eq] at h
    exact h
  | str cs => trivial
  | flt x => trivial

theorem largeInt_id (v : Int) (h : -(2 : Int) ^ 63 ≤ v ∧ v < (2 : Int) ^ 63) : largeInt v = v := by
  unfold largeInt
  simp only [Int.reducePow] at h ⊢
  omega

theorem ctx_of (typ w : Nat) (pk : Packing) (nn : Bool) (h : (typ, w, pk, nn) ∈ dataCfgs) (t : List Byte) :
    mkCtx typ t = some ⟨typ, 2 ^ w - 1, (w + 7) / 8, t⟩ := by
  simp only [dataCfgs, List.mem_cons, Prod.mk.injEq, List.mem_nil_iff, or_false] at h
  rcases h with ⟨rfl, rfl, _, _⟩ | ⟨rfl, rfl, _, _⟩ | ⟨rfl, rfl, _, _⟩ | ⟨rfl, rfl, _, _⟩ | ⟨rfl, rfl, _, _⟩ | ⟨rfl, rfl, _, _⟩ | ⟨rfl, rfl, _, _⟩ <;> rfl

theorem rangeCheck_cfg (typ w : Nat) (pk : Packing) (nn : Bool) (h : (typ, w, pk, nn) ∈ dataCfgs) (v : Int)
    (hnn : nn = true → 0 ≤ v) : rangeCheck v typ = inRange w v := by
  simp only [dataCfgs, List.mem_cons, Prod.mk.injEq, List.mem_nil_iff, or_false] at h
  rcases h with ⟨rfl, rfl, _, rfl⟩ | ⟨rfl, rfl, _, rfl⟩ | ⟨rfl, rfl, _, rfl⟩ | ⟨rfl, rfl, _, rfl⟩ | ⟨rfl, rfl, _, rfl⟩ | ⟨rfl, rfl, _, rfl⟩ | ⟨rfl, rfl, _, rfl⟩
  · unfold rangeCheck inRange
    simp only [show ¬ (Generated.itInt16 ≥ Generated.intTypeNoCheckFrom) from by decide, if_false]
    rw [show Generated.intTypeDefs[Generated.itInt16]? = some ⟨"Int16", 0xc010, -32768, 65535, 65535⟩ from by decide]
    simp only [Int.reducePow, Nat.reduceSub, Int.reduceNeg]
    by_cases h1 : -32768 ≤ v <;> by_cases h2 : v ≤ 65535 <;> simp [h1, h2] <;> omega
  · unfold rangeCheck inRange
    simp only [show ¬ (Generated.itInt8 ≥ Generated.intTypeNoCheckFrom) from by decide, if_false]
    rw [show Generated.intTypeDefs[Generated.itInt8]? = some ⟨"Int8", 0xc008, -128, 255, 255⟩ from by decide]
    simp only [Int.reducePow, Nat.reduceSub, Int.reduceNeg]
    by_cases h1 : -128 ≤ v <;> by_cases h2 : v ≤ 255 <;> simp [h1, h2] <;> omega
  · unfold rangeCheck inRange
    simp only [show ¬ (Generated.itInt14 ≥ Generated.intTypeNoCheckFrom) from by decide, if_false]
    rw [show Generated.intTypeDefs[Generated.itInt14]? = some ⟨"Int14", 0xc00e, -8192, 16383, 16383⟩ from by decide]
    simp only [Int.reducePow, Nat.reduceSub, Int.reduceNeg]
    by_cases h1 : -8192 ≤ v <;> by_cases h2 : v ≤ 16383 <;> simp [h1, h2] <;> omega
  · unfold rangeCheck inRange
    simp only [show ¬ (Generated.itInt12 ≥ Generated.intTypeNoCheckFrom) from by decide, if_false]
    rw [show Generated.intTypeDefs[Generated.itInt12]? = some ⟨"Int12", 0xc00c, -2048, 4095, 4095⟩ from by decide]
    simp only [Int.reducePow, Nat.reduceSub, Int.reduceNeg]
    by_cases h1 : -2048 ≤ v <;> by_cases h2 : v ≤ 4095 <;> simp [h1, h2] <;> omega
  · unfold rangeCheck inRange
    simp only [show ¬ (Generated.itInt10 ≥ Generated.intTypeNoCheckFrom) from by decide, if_false]
    rw [show Generated.intTypeDefs[Generated.itInt10]? = some ⟨"Int10", 0xc00a, -512, 1023, 1023⟩ from by decide]
    simp only [Int.reducePow, Nat.reduceSub, Int.reduceNeg]
    by_cases h1 : -512 ≤ v <;> by_cases h2 : v ≤ 1023 <;> simp [h1, h2] <;> omega
  · unfold rangeCheck inRange
    simp only [show ¬ (Generated.itInt4 ≥ Generated.intTypeNoCheckFrom) from by decide, if_false]
    rw [show Generated.intTypeDefs[Generated.itInt4]? = some ⟨"Int4", 0xc004, -8, 15, 15⟩ from by decide]
    simp only [Int.reducePow, Nat.reduceSub, Int.reduceNeg]
    by_cases h1 : -8 ≤ v <;> by_cases h2 : v ≤ 15 <;> simp [h1, h2] <;> omega
  · unfold rangeCheck inRange
    simp only [show ¬ (Generated.itUInt16 ≥ Generated.intTypeNoCheckFrom) from by decide, if_false]
    rw [show Generated.intTypeDefs[Generated.itUInt16]? = some ⟨"UInt16", 0x0010, 0, 65535, 65535⟩ from by decide]
    have h0 := hnn rfl
    simp only [Int.reducePow, Nat.reduceSub, Int.reduceNeg]
    by_cases h1 : 0 ≤ v <;> by_cases h2 : v ≤ 65535 <;> simp [h1, h2] <;> omega

theorem word_cfg (w : Nat) (hw : w = 16 ∨ w = 8 ∨ w = 14 ∨ w = 12 ∨ w = 10 ∨ w = 4) (v : Int) :
    largeWord v &&& (2 ^ w - 1) = twos w v := by
  rw [Nat.and_two_pow_sub_one_eq_mod]
  rcases hw with rfl | rfl | rfl | rfl | rfl | rfl <;> simp only [largeWord, twos, Int.reducePow, Nat.reducePow] <;> omega

theorem width_cfg (typ w : Nat) (pk : Packing) (nn : Bool) (h : (typ, w, pk, nn) ∈ dataCfgs) :
    w = 16 ∨ w = 8 ∨ w = 14 ∨ w = 12 ∨ w = 10 ∨ w = 4 := by
  simp only [dataCfgs, List.mem_cons, Prod.mk.injEq, List.mem_nil_iff, or_false] at h
  rcases h with ⟨_, rfl, _, _⟩ | ⟨_, rfl, _, _⟩ | ⟨_, rfl, _, _⟩ | ⟨_, rfl, _, _⟩ | ⟨_, rfl, _, _⟩ | ⟨_, rfl, _, _⟩ | ⟨_, rfl, _, _⟩ <;> simp

theorem dataInt_cfg (typ w : Nat) (pk : Packing) (nn : Bool) (h : (typ, w, pk, nn) ∈ dataCfgs) (t : List Byte) (v : Int)
    (hv : -(2 : Int) ^ 63 ≤ v ∧ v < (2 : Int) ^ 63) (hnn : nn = true → 0 ≤ v) :
    dataInt ⟨typ, 2 ^ w - 1, (w + 7) / 8, t⟩ [] v = specWord w v := by
  unfold dataInt specWord
  simp only [largeInt_id v hv, rangeCheck_cfg typ w pk nn h v hnn, word_cfg w (width_cfg typ w pk nn h) v, List.nil_append]
  cases inRange w v <;> simp

theorem string_cfg (typ w : Nat) (pk : Packing) (nn : Bool) (h : (typ, w, pk, nn) ∈ dataCfgs) (t : List Byte) (ht : t.length = 256)
    (cs : List Byte) : dataString (2 ^ w - 1) t [] cs = specString pk (cs.map (CharMap.ap t)) := by
  have hmap : cs.map (ctt t) = cs.map (CharMap.ap t) := List.map_congr_left fun c _ => ctt_eq_ap t ht c
  simp only [dataCfgs, List.mem_cons, Prod.mk.injEq, List.mem_nil_iff, or_false] at h
  rcases h with ⟨_, rfl, rfl, _⟩ | ⟨_, rfl, rfl, _⟩ | ⟨_, rfl, rfl, _⟩ | ⟨_, rfl, rfl, _⟩ | ⟨_, rfl, rfl, _⟩ | ⟨_, rfl, rfl, _⟩ | ⟨_, rfl, rfl, _⟩
  · rw [← hmap]; exact dataString16 t cs
  · rw [← hmap]; exact dataString_perWord _ (by decide) (by decide) t cs
  · rw [← hmap]; exact dataString_perWord _ (by decide) (by decide) t cs
  · rw [← hmap]; exact dataString_perWord _ (by decide) (by decide) t cs
  · rw [← hmap]; exact dataString_perWord _ (by decide) (by decide) t cs
  · rw [← hmap]; exact dataString_nibbles _ (by decide) t cs
  · rw [← hmap]; exact dataString16 t cs

theorem fold_char (t : List Byte) (ht : t.length = 256) (cs : List Byte) :
    ((cs.foldl (fun r c => r * 256 + (ctt t c).toNat) 0 : Nat) : Int) = charConst t cs := by
  unfold charConst
  have : (fun (r : Nat) (c : Byte) => r * 256 + (ctt t c).toNat) = fun r c => r * 256 + (CharMap.ap t c).toNat := by
    funext r c; rw [ctt_eq_ap t ht]
  rw [this]

theorem multiChar_some (t : List Byte) (ht : t.length = 256) (maxLen : Nat) (cs : List Byte) (h : cs.length ≤ maxLen) :
    multiCharToInt true t maxLen cs = some (charConst t cs) := by
  unfold multiCharToInt nonZString2Int
  simp only [h, if_true]
  by_cases hc : 0 < cs.length ∧ cs.length ≤ 4 <;> simp [hc, fold_char t ht cs]

theorem multiChar_none (t : List Byte) (maxLen : Nat) (cs : List Byte) (h : ¬ cs.length ≤ maxLen) :
    multiCharToInt true t maxLen cs = none := by
  unfold multiCharToInt
  simp [h]

theorem charConst_bounds (t : List Byte) (cs : List Byte) (h : cs.length ≤ 2) :
    -(2 : Int) ^ 63 ≤ charConst t cs ∧ charConst t cs < (2 : Int) ^ 63 ∧ 0 ≤ charConst t cs := by
  unfold charConst
  match cs, h with
  | [], _ => simp
  | [c], _ =>
    have := UInt8.toNat_lt (CharMap.ap t c)
    simp only [List.foldl_cons, List.foldl_nil, Int.reducePow]
    omega
  | [c0, c1], _ =>
    have := UInt8.toNat_lt (CharMap.ap t c0)
    have := UInt8.toNat_lt (CharMap.ap t c1)
    simp only [List.foldl_cons, List.foldl_nil, Int.reducePow]
    omega

/-- **one argument: the transcription of `DecodeDATA` lays what the manual prescribes** -/
theorem arg_cfg (typ w : Nat) (pk : Packing) (nn : Bool) (h : (typ, w, pk, nn) ∈ dataCfgs) (t : List Byte) (ht : t.length = 256)
    (a : WArg) (ha : ArgOK w nn a) :
    dataArg ⟨typ, 2 ^ w - 1, (w + 7) / 8, t⟩ [] a = specArg ⟨w, pk, t⟩ a := by
  cases a with
  | int v => exact dataInt_cfg typ w pk nn h t v ⟨ha.1, ha.2.1⟩ ha.2.2
  | str cs => simp only [dataArg, DataW.specArg]; rw [string_cfg typ w pk nn h t ht cs]
  | flt x => rfl
  | chr cs =>
    obtain ⟨h1, h2⟩ := ha
    have hw := width_cfg typ w pk nn h
    simp only [dataArg, DataW.specArg]
    by_cases hl : cs.length ≤ w / 8
    · have hm : cs.length ≤ (w + 7) / 8 := by omega
      have h2' : cs.length ≤ 2 := by rcases hw with rfl | rfl | rfl | rfl | rfl | rfl <;> omega
      have hb := charConst_bounds t cs h2'
      rw [multiChar_some t ht _ cs hm]
      simp only [h1, hl, and_self, if_true]
      exact dataInt_cfg typ w pk nn h t _ ⟨hb.1, hb.2.1⟩ (fun _ => hb.2.2)
    · have hm : ¬ cs.length ≤ (w + 7) / 8 := by omega
      rw [multiChar_none t _ cs hm]
      simp only [hl, and_false, if_false]
      rw [string_cfg typ w pk nn h t ht cs]

/-! ## the slot: cells as bytes of the code file -/

/-- the two bytes of a 16-bit unit in code-file order (`swap` = `DreheCodes` applies) -/
def unitPair (swap : Bool) (w : Nat) : List Byte := if swap then [b (w / 256), b w] else [b w, b (w / 256)]

/-- (unit offset, unit value) cells as (byte offset, byte) cells -/
def unitCells (swap : Bool) : WCells → Cells
  | [] => []
  | (a, w) :: r => cellsAt (a * 2) (unitPair swap w) ++ unitCells swap r

theorem unitCells_append (swap : Bool) (x y : WCells) : unitCells swap (x ++ y) = unitCells swap x ++ unitCells swap y := by
  induction x with
  | nil => rfl
  | cons p x ih => obtain ⟨a, w⟩ := p; simp only [List.cons_append, unitCells, ih, List.append_assoc]

theorem encLE2 (w : Nat) : encLE 2 w = [b w, b (w / 256)] := rfl

theorem raw_length (cells : List Nat) : ((cells.map fun w => encLE 2 w).flatten).length = cells.length * 2 := by
  induction cells with
  | nil => rfl
  | cons w cells ih =>
    simp only [List.map_cons, List.flatten_cons, List.length_append, ih]
    rw [encLE2 w]
    simp only [List.length_cons, List.length_nil]
    omega

theorem swap_raw (cells : List Nat) :
    swapPairs ((cells.map fun w => encLE 2 w).flatten) = (cells.map (unitPair true)).flatten := by
  induction cells with
  | nil => rfl
  | cons w cells ih =>
    simp only [List.map_cons, List.flatten_cons]
    rw [encLE2 w]
    simp only [List.cons_append, List.nil_append, swapPairs, ih, unitPair, if_true]

theorem noswap_raw (cells : List Nat) :
    (cells.map fun w => encLE 2 w).flatten = (cells.map (unitPair false)).flatten := by
  induction cells with
  | nil => rfl
  | cons w cells ih =>
    simp only [List.map_cons, List.flatten_cons, ih]
    rfl

/-- the cells of a statement as bytes: every 16-bit cell gives its two bytes, in the order `WriteBytes` leaves them -/
theorem dataBytes16 (mask : Nat) (h1 : 0xff < mask) (h2 : mask ≤ 0xffff) (lg : Nat) (turn : Bool) (cells : List Nat) :
    dataBytes mask 2 lg turn cells = (cells.map (unitPair (swapOf lg turn))).flatten := by
  have hc : cellBytes mask = 2 := by
    unfold cellBytes
    rw [if_neg (by omega), if_pos h2]
  unfold dataBytes
  simp only [hc]
  have hl := raw_length cells
  rw [List.take_of_length_le (by omega)]
  rw [hl, Nat.sub_self]
  simp only [List.replicate_zero, List.append_nil]
  unfold swapOf
  by_cases hs : turn ≠ Generated.hostBigEndian ∧ lg = 2
  · rw [if_pos hs, decide_eq_true hs]; exact swap_raw cells
  · rw [if_neg hs, decide_eq_false hs]; exact noswap_raw cells

theorem cells_units (swap : Bool) (pc : Nat) (ws : List Nat) :
    cellsAt (pc * 2) ((ws.map (unitPair swap)).flatten) = unitCells swap (wcellsAt pc ws) := by
  induction ws generalizing pc with
  | nil => rfl
  | cons w ws ih =>
    simp only [List.map_cons, List.flatten_cons, wcellsAt, unitCells]
    have hp : (unitPair swap w).length = 2 := by unfold unitPair; split <;> rfl
    have happ : ∀ (xs ys : List Byte) (p : Nat), cellsAt p (xs ++ ys) = cellsAt p xs ++ cellsAt (p + xs.length) ys := by
      intro xs
      induction xs with
      | nil => intro ys p; rfl
      | cons x xs ihx =>
        intro ys p
        simp only [List.cons_append, cellsAt, ihx, List.length_cons, List.cons.injEq, true_and]
        congr 2
        omega
    rw [happ, hp, ← ih (pc + 1)]
    congr 2
    omega


/-- one cell per unit (segments of byte-sized address units: 8-bit and 4-bit words) -/
def byteCells : WCells → Cells
  | [] => []
  | (a, w) :: r => (a, b w) :: byteCells r

theorem byteCells_append (x y : WCells) : byteCells (x ++ y) = byteCells x ++ byteCells y := by
  induction x with
  | nil => rfl
  | cons p x ih => obtain ⟨a, w⟩ := p; simp only [List.cons_append, byteCells, ih]

theorem raw1 (cells : List Nat) : (cells.map fun w => encLE 1 w).flatten = cells.map b := by
  induction cells with
  | nil => rfl
  | cons w cells ih =>
    simp only [List.map_cons, List.flatten_cons, ih]
    rfl

theorem dataBytes8 (mask : Nat) (h : mask ≤ 0xff) (lg : Nat) (turn : Bool) (hs : swapOf lg turn = false) (cells : List Nat) :
    dataBytes mask 1 lg turn cells = cells.map b := by
  have hc : cellBytes mask = 1 := by unfold cellBytes; rw [if_pos h]
  unfold dataBytes
  simp only [hc, raw1, Nat.mul_one]
  rw [List.take_of_length_le (by simp)]
  simp only [List.length_map, Nat.sub_self, List.replicate_zero, List.append_nil]
  unfold swapOf at hs
  rw [if_neg (by simpa using hs)]

theorem cells_bytes (pc : Nat) (ws : List Nat) : cellsAt (pc * 1) (ws.map b) = byteCells (wcellsAt pc ws) := by
  induction ws generalizing pc with
  | nil => rfl
  | cons w ws ih =>
    simp only [List.map_cons, cellsAt, wcellsAt, byteCells, Nat.mul_one]
    have := ih (pc + 1)
    rw [Nat.mul_one] at this
    rw [this]

/-- **the slot, 16-bit cells** (word widths 9…16, address units of two bytes) -/
theorem runW_units (d : DCtx) (h1 : 0xff < d.mask) (h2 : d.mask ≤ 0xffff) (c : WCfg) (lg : Nat) (turn : Bool)
    (stmts : List (List WArg)) (h : ∀ st ∈ stmts, decodeDATA d st = specData c st) (pc : Nat) :
    modelRunW d 2 lg turn pc stmts = (specRunW c pc stmts).map fun r => (unitCells (swapOf lg turn) r.1, r.2) := by
  induction stmts generalizing pc with
  | nil => rfl
  | cons st rest ih =>
    have hst := h st (by simp)
    have hrest : ∀ s ∈ rest, decodeDATA d s = specData c s := fun s hs => h s (by simp [hs])
    simp only [modelRunW, specRunW, hst]
    cases hs : specData c st with
    | none => rfl
    | some ws =>
      simp only [ih hrest (pc + ws.length)]
      rw [dataBytes16 d.mask h1 h2, cells_units]
      cases specRunW c (pc + ws.length) rest with
      | none => rfl
      | some r => simp only [Option.map_some, unitCells_append]

/-- **the slot, byte cells** (word widths up to 8, address units of one byte) -/
theorem runW_bytes (d : DCtx) (h1 : d.mask ≤ 0xff) (c : WCfg) (lg : Nat) (turn : Bool) (hsw : swapOf lg turn = false)
    (stmts : List (List WArg)) (h : ∀ st ∈ stmts, decodeDATA d st = specData c st) (pc : Nat) :
    modelRunW d 1 lg turn pc stmts = (specRunW c pc stmts).map fun r => (byteCells r.1, r.2) := by
  induction stmts generalizing pc with
  | nil => rfl
  | cons st rest ih =>
    have hst := h st (by simp)
    have hrest : ∀ s ∈ rest, decodeDATA d s = specData c s := fun s hs => h s (by simp [hs])
    simp only [modelRunW, specRunW, hst]
    cases hs : specData c st with
    | none => rfl
    | some ws =>
      simp only [ih hrest (pc + ws.length)]
      rw [dataBytes8 d.mask h1 lg turn hsw, cells_bytes]
      cases specRunW c (pc + ws.length) rest with
      | none => rfl
      | some r => simp only [Option.map_some, byteCells_append]

/-- whole statement, the seven configurations -/
theorem data_cfg_eq_spec (typ w : Nat) (pk : Packing) (nn : Bool) (h : (typ, w, pk, nn) ∈ dataCfgs)
    (t : List Byte) (ht : t.length = 256) (as : List WArg) (ha : ∀ a ∈ as, ArgOK w nn a) :
    decodeDATA ⟨typ, 2 ^ w - 1, (w + 7) / 8, t⟩ as = specData ⟨w, pk, t⟩ as := by
  rw [decode_join, spec_join]
  congr 1
  apply List.map_congr_left
  intro a hmem
  rw [decode_single, spec_single]
  exact arg_cfg typ w pk nn h t ht a (ha a hmem)

end AslModel.DataWLemmas
