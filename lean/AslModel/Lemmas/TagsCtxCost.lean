import AslModel.Lemmas.TagsCtx
/-! Counted version of the big-step lemma of Lemmas/TagsCtx.lean, for `C11_ctx_refines_cost` (Props/C11_Ctx.lean): the
number of rounds the tag machine needs for the hand expansion is computed by `expandCost` (one round per statement, one
per delivery of a body that ends, one per included file that ends). -/
namespace AslModel.Ctx
open AslModel.CtxSpec

inductive StepsN (fs : FS) : Nat → St → St → Prop
  | refl (s : St) : StepsN fs 0 s s
  | cons {k : Nat} {s s1 s2 : St} : step fs s = some s1 → StepsN fs k s1 s2 → StepsN fs (k + 1) s s2

theorem StepsN.cast {fs : FS} {k k' : Nat} {a b : St} (h : k = k') (s : StepsN fs k a b) : StepsN fs k' a b := h ▸ s

theorem StepsN.trans {fs : FS} {k1 k2 : Nat} {a b c : St} (h1 : StepsN fs k1 a b) (h2 : StepsN fs k2 b c) :
    StepsN fs (k1 + k2) a c := by
  induction h1 with
  | refl => exact (h2.cast (by omega))
  | @cons k s s1 s2 hs _ ih => exact (StepsN.cons hs (ih h2)).cast (by omega)

theorem StepsN.one {fs : FS} {a b : St} (h : step fs a = some b) : StepsN fs 1 a b := .cons h (.refl b)

theorem run_of_stepsN {fs : FS} {k : Nat} {a b : St} (h : StepsN fs k a b) (hb : step fs b = none) :
    ∀ fuel, k ≤ fuel → run fs fuel a = b := by
  induction h with
  | refl s => exact fun n _ => run_halt fs s hb n
  | cons hs _ ih =>
    intro fuel hf
    obtain ⟨m, rfl⟩ : ∃ m, fuel = m + 1 := ⟨fuel - 1, by omega⟩
    simp only [run, hs]
    exact ih hb m (by omega)

mutual
/-- rounds of the main loop after the statement has been fetched; `incC`: the rounds for the text of an included file -/
def costItem (incC : Path → Body → Nat) (fs : FS) (file : Path) : Item → Nat
  | .stmt _ _ _ => 0
  | .bincl _ _ => 0
  | .incl _ f =>
    match search fs file f with
    | none => 0
    | some p =>
      match fs.files.lookup p with
      | some (.text b) => incC p b + 1
      | _ => 0
  | .loop _ _ n body => n * (costBody incC fs file body + 1)
def costBody (incC : Path → Body → Nat) (fs : FS) (file : Path) : Body → Nat
  | .nil => 0
  | .cons i r => 1 + costItem incC fs file i + costBody incC fs file r
end

def expandCost (fs : FS) : Nat → Path → Body → Nat
  | 0, _, _ => 0
  | d + 1, file, b => costBody (fun p b' => expandCost fs d p b') fs file b

/-- rounds of the main loop for the whole program: its text, and the end of the main file -/
def ctxCost (fs : FS) (d : Nat) (main : Path) (prog : Body) : Nat := expandCost fs d main prog + 1

def IncOKN (fs : FS) (inc : Path → Body → Option (List Flat)) (incC : Path → Body → Nat) : Prop :=
  ∀ p b o, inc p b = some o → ∀ (t : Tag) (r : Body) (rest : List Tag) (evs : List Ev),
    ∃ evs', StepsN fs (incC p b) ⟨p, t.setCur (bapp b r) :: rest, evs, false⟩ ⟨p, t.setCur r :: rest, evs ++ evs', false⟩ ∧
      evs'.flatMap hand = o

theorem loop_iterN (fs : FS) (file : Path) (body : Body) (ob : List Flat) (cb : Nat)
    (hb : ∀ (t : Tag) (r : Body) (rest : List Tag) (evs : List Ev),
      ∃ evs', StepsN fs cb ⟨file, t.setCur (bapp body r) :: rest, evs, false⟩ ⟨file, t.setCur r :: rest, evs ++ evs', false⟩ ∧
        evs'.flatMap hand = ob) :
    ∀ (m : Nat) (stack : List Tag) (evs : List Ev),
      ∃ evs', StepsN fs ((m + 1) * (cb + 1)) ⟨file, .body body m body :: stack, evs, false⟩ ⟨file, stack, evs ++ evs', false⟩ ∧
        evs'.flatMap hand = (List.replicate (m + 1) ob).flatten := by
  intro m
  induction m with
  | zero =>
    intro stack evs
    obtain ⟨e1, h1, ho⟩ := hb (.body body 0 body) .nil stack evs
    simp only [Tag.setCur, bapp_nil] at h1
    have hs : step fs ⟨file, .body body 0 .nil :: stack, evs ++ e1, false⟩ = some ⟨file, stack, evs ++ e1, false⟩ := rfl
    refine ⟨e1, (h1.trans (StepsN.one hs)).cast (by omega), ?_⟩
    simp [ho]
  | succ m ih =>
    intro stack evs
    obtain ⟨e1, h1, ho⟩ := hb (.body body (m + 1) body) .nil stack evs
    simp only [Tag.setCur, bapp_nil] at h1
    obtain ⟨e2, h2, ho2⟩ := ih stack (evs ++ e1)
    have hs : step fs ⟨file, .body body (m + 1) .nil :: stack, evs ++ e1, false⟩ =
        some ⟨file, .body body m body :: stack, evs ++ e1, false⟩ := rfl
    refine ⟨e1 ++ e2, ?_, ?_⟩
    · rw [← List.append_assoc]
      refine (h1.trans ((StepsN.one hs).trans h2)).cast ?_
      rw [Nat.succ_mul (m + 1)]; omega
    · rw [List.flatMap_append, ho, ho2, List.replicate_succ (n := m + 1)]
      simp

mutual
theorem exec_itemN (fs : FS) (inc : Path → Body → Option (List Flat)) (incC : Path → Body → Nat) (hinc : IncOKN fs inc incC) :
    ∀ (i : Item) (file : Path) (o : List Flat), expItem inc fs file i = some o →
    ∀ (stack : List Tag) (evs : List Ev),
      ∃ evs', StepsN fs (costItem incC fs file i) (exec fs ⟨file, stack, evs, false⟩ i) ⟨file, stack, evs ++ evs', false⟩ ∧
        evs'.flatMap hand = o
  | .stmt id lab op, file, o, h, stack, evs => by
    simp only [expItem, Option.some.injEq] at h
    exact ⟨[.line id lab op], .refl _, by simp [hand, h]⟩
  | .bincl lab f, file, o, h, stack, evs => by
    simp only [expItem] at h
    split at h
    · cases h
    · rename_i p hp
      have hf := search_fsearch fs file f p hp
      split at h
      · rename_i d hd
        simp only [Option.some.injEq] at h
        refine ⟨[.bin lab d], ?_, by simp [hand, h]⟩
        simp only [exec, hf, hd, costItem]
        exact .refl _
      · cases h
  | .incl lab f, file, o, h, stack, evs => by
    simp only [expItem] at h
    split at h
    · cases h
    · rename_i p hp
      have hf := search_fsearch fs file f p hp
      split at h
      · rename_i b hb
        cases hi : inc p b with
        | none => simp [hi] at h
        | some o' =>
          simp only [hi, Option.map_some, Option.some.injEq] at h
          obtain ⟨e, he, ho⟩ := hinc p b o' hi (.file p file b) .nil stack (evs ++ [.included lab])
          simp only [Tag.setCur, bapp_nil] at he
          have hs : step fs ⟨p, .file p file .nil :: stack, evs ++ [.included lab] ++ e, false⟩ =
              some ⟨file, stack, evs ++ [.included lab] ++ e, false⟩ := rfl
          refine ⟨[.included lab] ++ e, ?_, ?_⟩
          · simp only [exec, hf, hb, costItem, hp]
            rw [← List.append_assoc]
            exact he.trans (StepsN.one hs)
          · rw [List.flatMap_append, ho, ← h]
            simp [hand]
      · cases h
  | .loop k lab n body, file, o, h, stack, evs => by
    simp only [expItem] at h
    cases hb : expBody inc fs file body with
    | none => simp [hb] at h
    | some ob =>
      simp only [hb, Option.map_some, Option.some.injEq] at h
      cases n with
      | zero =>
        refine ⟨[.opened k lab], ?_, ?_⟩
        · simp only [exec, if_true, costItem, Nat.zero_mul]
          exact .refl _
        · simp [hand, ← h]
      | succ m =>
        obtain ⟨e, he, ho⟩ := loop_iterN fs file body ob (costBody incC fs file body)
          (fun t r rest evs => exec_bodyN fs inc incC hinc body file ob hb t r rest evs) m stack (evs ++ [.opened k lab])
        refine ⟨[.opened k lab] ++ e, ?_, ?_⟩
        · have : exec fs ⟨file, stack, evs, false⟩ (.loop k lab (m + 1) body) =
              ⟨file, .body body m body :: stack, evs ++ [.opened k lab], false⟩ := by
            simp [exec]
          rw [this, ← List.append_assoc]
          simp only [costItem]
          exact he
        · rw [List.flatMap_append, ho, ← h]
          simp [hand]
theorem exec_bodyN (fs : FS) (inc : Path → Body → Option (List Flat)) (incC : Path → Body → Nat) (hinc : IncOKN fs inc incC) :
    ∀ (b : Body) (file : Path) (o : List Flat), expBody inc fs file b = some o →
    ∀ (t : Tag) (r : Body) (rest : List Tag) (evs : List Ev),
      ∃ evs', StepsN fs (costBody incC fs file b) ⟨file, t.setCur (bapp b r) :: rest, evs, false⟩
          ⟨file, t.setCur r :: rest, evs ++ evs', false⟩ ∧
        evs'.flatMap hand = o
  | .nil, file, o, h, t, r, rest, evs => by
    simp only [expBody, Option.some.injEq] at h
    exact ⟨[], by simpa [bapp, costBody] using StepsN.refl _, by simp [h]⟩
  | .cons i b, file, o, h, t, r, rest, evs => by
    simp only [expBody] at h
    cases hi : expItem inc fs file i with
    | none => simp [hi] at h
    | some oa =>
      cases hb : expBody inc fs file b with
      | none => simp [hi, hb] at h
      | some ob =>
        simp only [hi, hb, Option.some.injEq] at h
        obtain ⟨e1, h1, ho1⟩ := exec_itemN fs inc incC hinc i file oa hi (t.setCur (bapp b r) :: rest) evs
        obtain ⟨e2, h2, ho2⟩ := exec_bodyN fs inc incC hinc b file ob hb t r rest (evs ++ e1)
        refine ⟨e1 ++ e2, ?_, ?_⟩
        · rw [← List.append_assoc]
          simp only [bapp, costBody]
          exact ((StepsN.one (step_cons fs file t i (bapp b r) rest evs)).trans (h1.trans h2)).cast (by omega)
        · rw [List.flatMap_append, ho1, ho2, h]
end

theorem incOKN_expand (fs : FS) : ∀ d, IncOKN fs (fun p b => expand fs d p b) (fun p b => expandCost fs d p b)
  | 0 => by
    intro p b o h
    simp [expand] at h
  | d + 1 => by
    intro p b o h t r rest evs
    simp only [expand] at h
    exact exec_bodyN fs _ _ (incOKN_expand fs d) b p o h t r rest evs

end AslModel.Ctx
