import AslModel.Lemmas.TagsRem
import AslModel.Lemmas.TagsTree
/-! Lemmas for C11 (processor layer), part 5: the machine on abstract tags (`aops`) carries out a well-formed
construct tree exactly as the SPEC's `expandBody` says (`runB`), by induction over the tree. -/
namespace AslModel.Tags
open AslModel.MacroSpec AslModel.Macro AslModel.Generated

/-! ### runs -/

section generic
variable {τ : Type} (o : TagOps τ) (q : Quirks) (cs : Bool)

theorem run_stuck (s : St τ) (h : step o q cs s = none) : ∀ n, run o q cs n s = s
  | 0 => rfl
  | n + 1 => by simp [run, h]

theorem run_add : ∀ (n m : Nat) (s : St τ), run o q cs (n + m) s = run o q cs m (run o q cs n s)
  | 0, m, s => by simp [run]
  | n + 1, m, s => by
    have e : n + 1 + m = (n + m) + 1 := by omega
    rw [e]
    simp only [run]
    cases h : step o q cs s with
    | none => simp only []; exact (run_stuck o q cs s h m).symm
    | some s' => simp only []; exact run_add n m s'

end generic

variable (q : Quirks) (cs : Bool)

/-- the abstract machine gets from `s` to `s'` -/
def Go (s s' : St ATag) : Prop := ∃ k, run aops q cs k s = s'

theorem Go.refl (s : St ATag) : Go q cs s s := ⟨0, rfl⟩

theorem Go.trans {a b c : St ATag} (h1 : Go q cs a b) (h2 : Go q cs b c) : Go q cs a c := by
  obtain ⟨n, hn⟩ := h1
  obtain ⟨m, hm⟩ := h2
  exact ⟨n + m, by rw [run_add, hn, hm]⟩

theorem Go.step {a b : St ATag} (h : step aops q cs a = some b) : Go q cs a b := ⟨1, by simp [run, h]⟩

def cfg (inp : List ATag) (coll : Option Coll) (tbl : List MacroRec) (out : List Line) : St ATag :=
  ⟨inp, coll, tbl, out, false, false⟩

def AllE (junk : List ATag) : Prop := ∀ t ∈ junk, t.rem = []

theorem allE_nil : AllE [] := by intro t h; cases h

theorem allE_snoc {junk : List ATag} (h : AllE junk) (k : TKind) : AllE (junk ++ [⟨k, []⟩]) := by
  intro t ht
  rcases List.mem_append.mp ht with h1 | h1
  · exact h t h1
  · have : t = ⟨k, []⟩ := by simpa using h1
    rw [this]

theorem popEmpty_junk : ∀ (junk : List ATag), AllE junk → ∀ (k : TKind) (l : SLine) (r : List SLine) (rest : List ATag),
    popEmpty aops (junk ++ ⟨k, l :: r⟩ :: rest) = ⟨k, l :: r⟩ :: rest
  | [], _, k, l, r, rest => by simp [popEmpty, aops]
  | t :: junk, h, k, l, r, rest => by
    have ht : t.rem = [] := h t (by simp)
    have : aops.isEmpty t = true := by simp [aops, ht]
    simp only [List.cons_append, popEmpty, this, if_true]
    exact popEmpty_junk junk (fun x hx => h x (by simp [hx])) k l r rest

theorem step_line (junk : List ATag) (hj : AllE junk) (k : TKind) (l : SLine) (r : List SLine) (rest : List ATag)
    (coll : Option Coll) (tbl : List MacroRec) (out : List Line) :
    step aops q cs (cfg (junk ++ ⟨k, l :: r⟩ :: rest) coll tbl out) =
      some (dispatch aops q cs l (cfg (⟨k, r⟩ :: rest) coll tbl out)) := by
  simp only [step, cfg, Bool.false_eq_true, if_false, fetch, popEmpty_junk junk hj]
  rfl

/-! ### collecting a body -/

theorem keepLine_nonwait {τ} (kind : CKind) (hk : kind ≠ .wait) (d : Nat) (acc : List SLine) (l : SLine) (n : Nat) (s : St τ) :
    keepLine cs ⟨kind, d, acc⟩ l n s = { s with coll := some ⟨kind, n, acc ++ [kind.store cs l]⟩ } := by
  unfold keepLine
  cases kind <;> first | rfl | exact absurd rfl hk

/-- a line that neither opens nor closes a construct is appended -/
theorem collect_plain (kind : CKind) (hk : kind ≠ .wait) (l : SLine) (h1 : l.isStart = false) (h2 : l.isEnd = false)
    (junk : List ATag) (hj : AllE junk) (k0 : TKind) (R : List SLine) (rest : List ATag) (d : Nat) (acc : List SLine)
    (tbl : List MacroRec) (out : List Line) :
    Go q cs (cfg (junk ++ ⟨k0, l :: R⟩ :: rest) (some ⟨kind, d, acc⟩) tbl out)
      (cfg (⟨k0, R⟩ :: rest) (some ⟨kind, d, acc ++ [kind.store cs l]⟩) tbl out) := by
  apply Go.step
  rw [step_line q cs junk hj]
  simp only [dispatch, cfg, collect, h1, h2, Bool.false_eq_true, if_false, keepLine_nonwait cs kind hk]

theorem collect_start (kind : CKind) (hk : kind ≠ .wait) (l : SLine) (h1 : l.isStart = true)
    (junk : List ATag) (hj : AllE junk) (k0 : TKind) (R : List SLine) (rest : List ATag) (d : Nat) (acc : List SLine)
    (tbl : List MacroRec) (out : List Line) :
    Go q cs (cfg (junk ++ ⟨k0, l :: R⟩ :: rest) (some ⟨kind, d, acc⟩) tbl out)
      (cfg (⟨k0, R⟩ :: rest) (some ⟨kind, d + 1, acc ++ [kind.store cs l]⟩) tbl out) := by
  apply Go.step
  rw [step_line q cs junk hj]
  simp only [dispatch, cfg, collect, h1, if_true, keepLine_nonwait cs kind hk]

/-- an ENDM that closes a nested construct is appended like any other line -/
theorem collect_inner_end (kind : CKind) (hk : kind ≠ .wait)
    (junk : List ATag) (hj : AllE junk) (k0 : TKind) (R : List SLine) (rest : List ATag) (d : Nat) (acc : List SLine)
    (tbl : List MacroRec) (out : List Line) :
    Go q cs (cfg (junk ++ ⟨k0, SLine.endm :: R⟩ :: rest) (some ⟨kind, d + 1, acc⟩) tbl out)
      (cfg (⟨k0, R⟩ :: rest) (some ⟨kind, d, acc ++ [kind.store cs .endm]⟩) tbl out) := by
  apply Go.step
  rw [step_line q cs junk hj]
  simp only [dispatch, cfg, collect, SLine.isStart, SLine.isEnd, Bool.false_eq_true, if_false, if_true,
    Nat.add_one_ne_zero, Nat.add_sub_cancel, keepLine_nonwait cs kind hk]

/-- statement of the collection lemma for a list of lines `ls` -/
def Collects (ls : List SLine) : Prop :=
  ∀ (kind : CKind), kind ≠ .wait → ∀ (d : Nat) (acc : List SLine) (junk : List ATag), AllE junk →
  ∀ (k0 : TKind) (R : List SLine) (rest : List ATag) (tbl : List MacroRec) (out : List Line),
  ∃ junk', AllE junk' ∧
    Go q cs (cfg (junk ++ ⟨k0, ls ++ R⟩ :: rest) (some ⟨kind, d, acc⟩) tbl out)
      (cfg (junk' ++ ⟨k0, R⟩ :: rest) (some ⟨kind, d, acc ++ ls.map (kind.store cs)⟩) tbl out)

theorem collects_nil : Collects q cs [] := by
  intro kind _ d acc junk hj k0 R rest tbl out
  exact ⟨junk, hj, by simpa using Go.refl q cs _⟩

theorem collects_append {a b : List SLine} (ha : Collects q cs a) (hb : Collects q cs b) : Collects q cs (a ++ b) := by
  intro kind hk d acc junk hj k0 R rest tbl out
  obtain ⟨j1, hj1, g1⟩ := ha kind hk d acc junk hj k0 (b ++ R) rest tbl out
  obtain ⟨j2, hj2, g2⟩ := hb kind hk d (acc ++ a.map (kind.store cs)) j1 hj1 k0 R rest tbl out
  refine ⟨j2, hj2, ?_⟩
  have := Go.trans q cs g1 g2
  simpa [List.append_assoc] using this

theorem collects_single (l : SLine) (h1 : l.isStart = false) (h2 : l.isEnd = false) : Collects q cs [l] := by
  intro kind hk d acc junk hj k0 R rest tbl out
  exact ⟨[], allE_nil, by simpa using collect_plain q cs kind hk l h1 h2 junk hj k0 R rest d acc tbl out⟩

/-- a whole nested construct: start line, balanced inside, its own ENDM -/
theorem collects_construct (hdr : SLine) (hs : hdr.isStart = true) (ls : List SLine) (h : Collects q cs ls) :
    Collects q cs (hdr :: (ls ++ [.endm])) := by
  intro kind hk d acc junk hj k0 R rest tbl out
  have g1 := collect_start q cs kind hk hdr hs junk hj k0 (ls ++ [.endm] ++ R) rest d acc tbl out
  obtain ⟨j2, hj2, g2⟩ := h kind hk (d + 1) (acc ++ [kind.store cs hdr]) [] allE_nil k0 (.endm :: R) rest tbl out
  have g3 := collect_inner_end q cs kind hk j2 hj2 k0 R rest d
    (acc ++ [kind.store cs hdr] ++ ls.map (kind.store cs)) tbl out
  refine ⟨[], allE_nil, ?_⟩
  have e1 : hdr :: (ls ++ [SLine.endm]) ++ R = hdr :: (ls ++ [.endm] ++ R) := by simp
  have e2 : ls ++ [SLine.endm] ++ R = ls ++ SLine.endm :: R := by simp
  rw [e1]
  rw [e2] at g1
  simp only [List.nil_append] at g2 ⊢
  have := Go.trans q cs (Go.trans q cs g1 g2) g3
  simpa [List.append_assoc] using this

mutual
theorem collectsI : ∀ (i : Item), Collects q cs (flatItem i)
  | .line l => collects_single q cs _ rfl rfl
  | .exitm => collects_single q cs _ rfl rfl
  | .rept _ n _ body => collects_construct q cs _ rfl _ (collectsB body)
  | .irp _ var args _ body => collects_construct q cs _ rfl _ (collectsB body)
  | .irpn _ vars args _ body => collects_construct q cs _ rfl _ (collectsB body)
  | .irpc _ var chars _ body => collects_construct q cs _ rfl _ (collectsB body)
  | .call id _ _ _ _ args => collects_single q cs _ rfl rfl
theorem collectsB : ∀ (b : Body), Collects q cs (flatBody b)
  | .nil => collects_nil q cs
  | .cons i rest => collects_append q cs (collectsI i) (collectsB rest)
end

/-! ### executing statements -/

theorem exec_plain (t : Line) (junk : List ATag) (hj : AllE junk) (k0 : TKind) (R : List SLine) (rest : List ATag)
    (tbl : List MacroRec) (out : List Line) :
    Go q cs (cfg (junk ++ ⟨k0, .plain t :: R⟩ :: rest) none tbl out) (cfg (⟨k0, R⟩ :: rest) none tbl (out ++ [t])) := by
  apply Go.step
  rw [step_line q cs junk hj]
  rfl

def ExitOK (k : TKind) : Prop := k ≠ .file ∧ (k = .irp → q.exitmIrpCrash = false)

theorem exec_exitm (junk : List ATag) (hj : AllE junk) (k0 : TKind) (hk : ExitOK q k0) (R : List SLine)
    (rest : List ATag) (tbl : List MacroRec) (out : List Line) :
    Go q cs (cfg (junk ++ ⟨k0, .exitm :: R⟩ :: rest) none tbl out) (cfg (⟨k0, []⟩ :: rest) none tbl out) := by
  apply Go.step
  rw [step_line q cs junk hj]
  have h1 : k0 ≠ .file := hk.1
  have h2 : (decide (k0 = TKind.irp) && q.exitmIrpCrash) = false := by
    by_cases h : k0 = .irp
    · simp [hk.2 h]
    · simp [h]
  simp only [dispatch, cfg, execute]
  show some (if k0 = .file then _ else if (decide (k0 = TKind.irp) && q.exitmIrpCrash) = true then _ else _) = _
  rw [if_neg h1, h2]
  rfl

/-- a start line whose statement opens a collection of kind `kind` -/
theorem exec_start (hdr : SLine) (kind : CKind)
    (hx : ∀ s : St ATag, execute aops q cs hdr s = startColl s kind)
    (junk : List ATag) (hj : AllE junk) (k0 : TKind) (R : List SLine) (rest : List ATag)
    (tbl : List MacroRec) (out : List Line) :
    Go q cs (cfg (junk ++ ⟨k0, hdr :: R⟩ :: rest) none tbl out) (cfg (⟨k0, R⟩ :: rest) (some ⟨kind, 0, []⟩) tbl out) := by
  apply Go.step
  rw [step_line q cs junk hj]
  simp only [dispatch, cfg, hx]
  rfl

/-- the ENDM that closes the collection -/
theorem exec_close (c : Coll) (hn : c.nest = 0)
    (junk : List ATag) (hj : AllE junk) (k0 : TKind) (R : List SLine) (rest : List ATag)
    (tbl : List MacroRec) (out : List Line) :
    Go q cs (cfg (junk ++ ⟨k0, .endm :: R⟩ :: rest) (some c) tbl out)
      (finishColl aops q c (cfg (⟨k0, R⟩ :: rest) (some c) tbl out)) := by
  apply Go.step
  rw [step_line q cs junk hj]
  simp only [dispatch, cfg, collect, SLine.isStart, SLine.isEnd, Bool.false_eq_true, if_false, if_true, hn]

/-- header, body, ENDM of a construct of kind `kind` (not a macro definition is needed here): collected as a whole -/
theorem gather (hdr : SLine) (kind : CKind) (hk : kind ≠ .wait)
    (hx : ∀ s : St ATag, execute aops q cs hdr s = startColl s kind) (ls : List SLine) (hc : Collects q cs ls)
    (junk : List ATag) (hj : AllE junk) (k0 : TKind) (R : List SLine) (rest : List ATag)
    (tbl : List MacroRec) (out : List Line) :
    Go q cs (cfg (junk ++ ⟨k0, hdr :: (ls ++ [.endm]) ++ R⟩ :: rest) none tbl out)
      (finishColl aops q ⟨kind, 0, ls.map (kind.store cs)⟩
        (cfg (⟨k0, R⟩ :: rest) (some ⟨kind, 0, ls.map (kind.store cs)⟩) tbl out)) := by
  have e1 : hdr :: (ls ++ [SLine.endm]) ++ R = hdr :: (ls ++ SLine.endm :: R) := by simp
  rw [e1]
  have g1 := exec_start q cs hdr kind hx junk hj k0 (ls ++ .endm :: R) rest tbl out
  obtain ⟨j2, hj2, g2⟩ := hc kind hk 0 [] [] allE_nil k0 (.endm :: R) rest tbl out
  have g3 := exec_close q cs ⟨kind, 0, [] ++ ls.map (kind.store cs)⟩ rfl j2 hj2 k0 R rest tbl out
  simp only [List.nil_append] at g2 g3
  exact Go.trans q cs (Go.trans q cs g1 g2) g3

/-! ### iterations -/

/-- what a body does under one environment -/
def BodyRuns (tbl : List MacroRec) (kX : TKind) (body : Body) (env : Env) : Prop :=
  ∀ (sfx : Line) (junk : List ATag), AllE junk → ∀ (R : List SLine) (rest : List ATag) (out : List Line),
  ∃ junk', AllE junk' ∧
    Go q cs (cfg (junk ++ ⟨kX, flatBody (substEB cs env body) ++ R⟩ :: rest) none tbl out)
      (cfg (junk' ++ ⟨kX, if (expandBody cs env sfx body).2 then [] else R⟩ :: rest) none tbl
        (out ++ (expandBody cs env sfx body).1))

theorem iterations {α : Type} (tbl : List MacroRec) (kX : TKind) (body : Body) (envOf : α → Env) (sfxOf : Nat → Line)
    (f : Nat → α → List Line × Bool) (hf : ∀ i x, f i x = expandBody cs (envOf x) (sfxOf i) body) :
    ∀ (xs : List α), (∀ x ∈ xs, BodyRuns q cs tbl kX body (envOf x)) →
    ∀ (i : Nat) (junk : List ATag), AllE junk → ∀ (rest : List ATag) (out : List Line),
    ∃ junk', AllE junk' ∧
      Go q cs (cfg (junk ++ ⟨kX, xs.flatMap (fun x => flatBody (substEB cs (envOf x) body))⟩ :: rest) none tbl out)
        (cfg (junk' ++ ⟨kX, []⟩ :: rest) none tbl (out ++ runIters f i xs))
  | [], _, i, junk, hj, rest, out => ⟨junk, hj, by simpa [runIters] using Go.refl q cs _⟩
  | x :: xs, H, i, junk, hj, rest, out => by
    obtain ⟨j1, hj1, g1⟩ := H x (by simp) (sfxOf i) junk hj
      (xs.flatMap (fun x => flatBody (substEB cs (envOf x) body))) rest out
    rw [List.flatMap_cons]
    by_cases hfl : (expandBody cs (envOf x) (sfxOf i) body).2 = true
    · refine ⟨j1, hj1, ?_⟩
      simp only [hfl, if_true] at g1
      simpa [runIters, hf, hfl] using g1
    · simp only [hfl, if_false] at g1
      obtain ⟨j2, hj2, g2⟩ := iterations tbl kX body envOf sfxOf f hf xs (fun y hy => H y (by simp [hy])) (i + 1) j1 hj1
        rest (out ++ (expandBody cs (envOf x) (sfxOf i) body).1)
      refine ⟨j2, hj2, ?_⟩
      have := Go.trans q cs g1 g2
      simpa [runIters, hf, hfl, List.append_assoc] using this

/-- a freshly pushed repetition tag runs all its iterations and is left exhausted on top of the tag below -/
theorem pushed {α : Type} (tbl : List MacroRec) (kX : TKind) (body : Body) (envOf : α → Env) (sfxOf : Nat → Line)
    (f : Nat → α → List Line × Bool) (hf : ∀ i x, f i x = expandBody cs (envOf x) (sfxOf i) body)
    (xs : List α) (H : ∀ x ∈ xs, BodyRuns q cs tbl kX body (envOf x))
    (rem : List SLine) (hrem : rem = xs.flatMap (fun x => flatBody (substEB cs (envOf x) body)))
    (k0 : TKind) (R : List SLine) (rest : List ATag) (out : List Line) :
    ∃ junk', AllE junk' ∧
      Go q cs (cfg (⟨kX, rem⟩ :: ⟨k0, R⟩ :: rest) none tbl out)
        (cfg (junk' ++ ⟨k0, R⟩ :: rest) none tbl (out ++ runIters f 0 xs)) := by
  obtain ⟨j, hj, g⟩ := iterations q cs tbl kX body envOf sfxOf f hf xs H 0 [] allE_nil (⟨k0, R⟩ :: rest) out
  refine ⟨j ++ [⟨kX, []⟩], allE_snoc hj kX, ?_⟩
  rw [hrem]
  simpa [List.append_assoc] using g

end AslModel.Tags
