import AslModel.Lemmas.Split
/-! helper lemmas for Props/C16_Long.lean: the component buffers of SplitLine (`Model/Split.lean` `adjustCopyComp`,
`splitArgsBuf`, `splitBuf`) and lines with a widened gap -/
namespace AslModel.Split
open AslModel.SrcLine

theorem roundupLen_gt (n : Nat) : n + 1 ≤ roundupLen n := by
  unfold roundupLen; omega

theorem strmemcpy_exact (cap : Nat) (src : List Char) (h : src.length + 1 ≤ cap) : strmemcpy cap src = src := by
  unfold strmemcpy
  split
  · omega
  · rfl

/-- `adjust_copy_comp` stores the text exactly, whatever the capacity was -/
theorem adjustCopyComp_exact (cap : Nat) (src : List Char) : (adjustCopyComp cap src).2 = src := by
  unfold adjustCopyComp
  by_cases hc : src.length + 1 > cap
  · simp only [hc, if_true]
    exact strmemcpy_exact _ _ (roundupLen_gt src.length)
  · simp only [hc, if_false]
    exact strmemcpy_exact _ _ (by omega)

theorem splitArgsBufAux_snd (p : Params) (n : Nat) (run : List Char) (forced : Bool) (caps : List Nat) :
    (splitArgsBufAux p n run forced caps).2 = splitArgsAux p n run forced := by
  induction n generalizing run forced caps with
  | zero => rfl
  | succ n ih =>
    unfold splitArgsBufAux splitArgsAux
    by_cases h : (run.isEmpty && !forced) = true
    · simp [h]
    · simp only [h, if_false, Bool.false_eq_true]
      rw [adjustCopyComp_exact, ih]

theorem splitArgsBuf_snd (p : Params) (ap : List Char) (caps : List Nat) :
    (splitArgsBuf p ap caps).2 = splitArgs p ap := by
  unfold splitArgsBuf splitArgs
  by_cases h : (trimRight ap).isEmpty = true
  · simp [h]
  · simp only [h, if_false, Bool.false_eq_true]
    exact splitArgsBufAux_snd _ _ _ _ _

theorem allBlank_append_replicate (g : List Char) (k : Nat) (h : allBlank g) : allBlank (g ++ List.replicate k ' ') := by
  intro c hc
  rcases List.mem_append.mp hc with hc | hc
  · exact h c hc
  · have : c = ' ' := (List.mem_replicate.mp hc).2
    subst this; rfl

/-- widening the gap between mnemonic and parameter field keeps a line well formed -/
theorem WF_widen_gap2 (p : Params) (l : Line) (h : WF p l) (ha : l.args ≠ []) (k : Nat) :
    WF p { l with gap2 := l.gap2 ++ List.replicate k ' ' } :=
  ⟨h.1, h.2, h.3, h.4, allBlank_append_replicate _ _ h.5, h.6, h.7,
   fun ho => absurd (h.noOp ho).2.1 ha,
   fun _ => by
     intro he
     exact h.argGap ha (List.append_eq_nil_iff.mp he).1,
   h.10⟩

end AslModel.Split
