import AslModel.Lemmas.Split
/-! helper lemmas for the second-level split of prefix-style statements (C16): strchr, FirstBlank, the split at a gap -/
namespace AslModel.Split
open AslModel.SrcLine

theorem strchr_skip (ch : Char) (w x : List Char) (hw : ∀ c ∈ w, c ≠ ch) :
    strchr ch (w ++ x) = (strchr ch x).map (· + w.length) := by
  induction w with
  | nil => cases h : strchr ch x <;> simp [h]
  | cons c cs ih =>
    have hc : (c == ch) = false := by simpa using hw c List.mem_cons_self
    have := ih (fun d hd => hw d (List.mem_cons_of_mem _ hd))
    simp only [List.cons_append, strchr, hc, this]
    cases strchr ch x <;> simp [Nat.add_assoc]

theorem strchr_head (ch : Char) (r : List Char) : strchr ch (ch :: r) = some 0 := by simp [strchr]

theorem strchr_ge (ch : Char) (w x : List Char) (hw : ∀ c ∈ w, c ≠ ch) (k : Nat)
    (h : strchr ch (w ++ x) = some k) : w.length ≤ k := by
  rw [strchr_skip ch w x hw] at h
  cases hx : strchr ch x with
  | none => simp [hx] at h
  | some j => simp [hx] at h; omega

/-- a gap between two components: starts with a blank or TAB (what `FirstBlank` looks for), continues with white space -/
def Gap (G : List Char) : Prop := ∃ g gs, G = g :: gs ∧ (g = ' ' ∨ g = '\t') ∧ allBlank gs

instance (G : List Char) : Decidable (Gap G) :=
  match G with
  | [] => isFalse (by rintro ⟨g, gs, h, _⟩; cases h)
  | g :: gs =>
    if h : (g = ' ' ∨ g = '\t') ∧ allBlank gs then isTrue ⟨g, gs, rfl, h.1, h.2⟩
    else isFalse (by rintro ⟨g', gs', he, h1, h2⟩; cases he; exact h ⟨h1, h2⟩)

theorem nonspace_not_blank (w : List Char) (hw : ∀ c ∈ w, isSpace c = false) : ∀ c ∈ w, c ≠ ' ' ∧ c ≠ '\t' := by
  intro c hc
  have := hw c hc
  constructor <;> (intro h; subst h; simp [isSpace] at this)

/-- `FirstBlank` returns the first blank or TAB, whichever of the two comes first -/
theorem firstBlank_at (w r : List Char) (g : Char) (hw : ∀ c ∈ w, c ≠ ' ' ∧ c ≠ '\t') (hg : g = ' ' ∨ g = '\t') :
    firstBlank (w ++ g :: r) = some w.length := by
  have hs : ∀ c ∈ w, c ≠ ' ' := fun c hc => (hw c hc).1
  have ht : ∀ c ∈ w, c ≠ '\t' := fun c hc => (hw c hc).2
  unfold firstBlank
  rcases hg with rfl | rfl
  · have e1 : strchr ' ' (w ++ ' ' :: r) = some w.length := by
      rw [strchr_skip ' ' w _ hs, strchr_head]; simp
    simp only [e1]
    cases e2 : strchr '\t' (w ++ ' ' :: r) with
    | none => rfl
    | some k =>
      have := strchr_ge '\t' w _ ht k e2
      have hk : ¬ k < w.length := by omega
      simp [hk]
  · have e2 : strchr '\t' (w ++ '\t' :: r) = some w.length := by
      rw [strchr_skip '\t' w _ ht, strchr_head]; simp
    simp only [e2]
    cases e1 : strchr ' ' (w ++ '\t' :: r) with
    | none => rfl
    | some k =>
      have hge := strchr_ge ' ' w _ hs k e1
      simp only []
      by_cases hk : w.length < k
      · simp [hk]
      · have : k = w.length := by omega
        simp [this]

/-- the split at the first gap: word before it, text after it – whatever blanks and tabs the gap consists of -/
theorem splitAtBlank_gap (w G t : List Char) (hw : ∀ c ∈ w, isSpace c = false) (hG : Gap G)
    (ht : stopsAt isSpace t) : splitAtBlank (w ++ G ++ t) = some (w, t) := by
  obtain ⟨g, gs, rfl, hg, hgs⟩ := hG
  unfold splitAtBlank
  have e : w ++ g :: gs ++ t = w ++ g :: (gs ++ t) := by simp
  rw [e, firstBlank_at w (gs ++ t) g (nonspace_not_blank w hw) hg]
  simp only [Option.map_some, List.take_left']
  have : (w ++ g :: (gs ++ t)).drop (w.length + 1) = gs ++ t := by
    rw [drop_len_succ]; simp
  rw [this, trimLeft, dropWhile_prefix isSpace gs t hgs ht]

/-- no blank, no TAB: no split -/
theorem splitAtBlank_none (w : List Char) (hw : ∀ c ∈ w, isSpace c = false) : splitAtBlank w = none := by
  have hb := nonspace_not_blank w hw
  have e1 : strchr ' ' w = none := by
    have := strchr_skip ' ' w [] (fun c hc => (hb c hc).1)
    simpa [strchr] using this
  have e2 : strchr '\t' w = none := by
    have := strchr_skip '\t' w [] (fun c hc => (hb c hc).2)
    simpa [strchr] using this
  simp [splitAtBlank, firstBlank, e1, e2]

theorem reiterate_gap (lab op attr w G G' t : List Char) (rest : List (List Char))
    (hw : ∀ c ∈ w, isSpace c = false) (hG : Gap G) (hG' : Gap G') (ht : stopsAt isSpace t) :
    reiterateOpPart ⟨lab, op, attr, (w ++ G' ++ t) :: rest⟩ = reiterateOpPart ⟨lab, op, attr, (w ++ G ++ t) :: rest⟩ := by
  simp only [reiterateOpPart, splitAtBlank_gap w G t hw hG ht, splitAtBlank_gap w G' t hw hG' ht]

end AslModel.Split
