import AslModel.Model.Data
/-! Helper lemmas for C09 (data-definition statements). -/
namespace AslModel.DataLemmas
open AslModel.PFile AslModel.Data AslModel.DataModel


theorem rneDiv_core (h q t m : Nat) (hpos : 0 < h) (hm : 2 * h * q + t = m) (ht : t < 2 * h) :
    let r := if t > h ∨ (t = h ∧ q % 2 = 1) then q + 1 else q
    (2 * (2 * h * r) ≤ 2 * m + 2 * h) ∧ (2 * m ≤ 2 * (2 * h * r) + 2 * h) ∧
    ((2 * m = 2 * (2 * h * r) + 2 * h ∨ 2 * (2 * h * r) = 2 * m + 2 * h) → r % 2 = 0) := by
  have e1 : 2 * h * (q + 1) = 2 * h * q + 2 * h := Nat.mul_succ _ _
  by_cases hc : t > h ∨ (t = h ∧ q % 2 = 1)
  · simp only [hc, if_true]
    rw [e1]
    generalize 2 * h * q = P at *
    rcases hc with hc | ⟨hc1, hc2⟩ <;> refine ⟨by omega, by omega, fun hh => by omega⟩
  · simp only [hc, if_false]
    generalize 2 * h * q = P at *
    have h1 : ¬ (t > h) := fun x => hc (Or.inl x)
    have h2 : t = h → ¬ (q % 2 = 1) := fun a x => hc (Or.inr ⟨a, x⟩)
    refine ⟨by omega, by omega, fun hh => ?_⟩
    have : t = h := by omega
    have := h2 this
    omega

/-- `rneDiv m k` is the multiple of `2^k` nearest to `m`, ties going to the even quotient -/
theorem rneDiv_spec (m k : Nat) (hk : 0 < k) :
    (2 * (2 ^ k * rneDiv m k) ≤ 2 * m + 2 ^ k) ∧ (2 * m ≤ 2 * (2 ^ k * rneDiv m k) + 2 ^ k) ∧
    ((2 * m = 2 * (2 ^ k * rneDiv m k) + 2 ^ k ∨ 2 * (2 ^ k * rneDiv m k) = 2 * m + 2 ^ k) → rneDiv m k % 2 = 0) := by
  obtain ⟨j, rfl⟩ : ∃ j, k = j + 1 := ⟨k - 1, by omega⟩
  have hp : 2 ^ (j + 1) = 2 * 2 ^ j := by rw [Nat.pow_succ, Nat.mul_comm]
  have hpos : 0 < 2 ^ j := Nat.pow_pos (by omega)
  have hdm : 2 * 2 ^ j * (m / (2 * 2 ^ j)) + m % (2 * 2 ^ j) = m := Nat.div_add_mod m _
  have hlt : m % (2 * 2 ^ j) < 2 * 2 ^ j := Nat.mod_lt m (by omega)
  have := rneDiv_core (2 ^ j) (m / (2 * 2 ^ j)) (m % (2 * 2 ^ j)) m hpos hdm hlt
  unfold rneDiv
  simp only [Nat.add_sub_cancel, show j + 1 ≠ 0 by omega, if_false, hp]
  exact this

theorem denormLoop_ge (f : Nat) (e : Int) (m : Nat) (h : -15 ≤ e) : denormLoop f e m = (e, m) := by
  cases f with
  | zero => rfl
  | succ f => simp [denormLoop]; intro h'; omega

def halfWord (r : Nat × Nat) : Nat := r.1 * 256 + r.2

/-- RoundUp decision = the round-to-nearest-even condition on the 42 discarded bits -/
theorem h2RoundUp_eq (m : Nat) (hm : m < 2 ^ 52) :
    h2RoundUp (m / 2 ^ 24 + 0x10000000) (m % 2 ^ 24) =
      decide ((2 ^ 52 + m) % 2 ^ 42 > 2 ^ 41 ∨ ((2 ^ 52 + m) % 2 ^ 42 = 2 ^ 41 ∧ (2 ^ 52 + m) / 2 ^ 42 % 2 = 1)) := by
  unfold h2RoundUp
  by_cases h1 : (m / 2 ^ 24 + 0x10000000) / 0x20000 % 2 = 1
  · simp only [h1, if_true]
    by_cases h2 : (m / 2 ^ 24 + 0x10000000) % 0x20000 ≠ 0 ∨ m % 2 ^ 24 ≠ 0
    · simp only [h2, if_true]
      symm; rw [decide_eq_true_iff]; left; omega
    · simp only [h2, if_false]
      apply decide_eq_decide.mpr
      constructor
      · intro h3; right; omega
      · intro h3; omega
  · simp only [h1, if_false]
    symm; rw [decide_eq_false_iff_not]; omega

theorem h2Pack_normal (s mant : Nat) (x : Int) (hs : s < 2) (hx1 : -14 ≤ x) (hx2 : x ≤ 15) (hm1 : mant < 536870912) :
    (h2Pack s mant x).map halfWord = some (s * 32768 + (x + 15).toNat * 1024 + mant / 262144 % 1024) := by
  unfold h2Pack
  have h0 : ¬ (x > 15) := by omega
  simp only [h0, if_false]
  rw [denormLoop_ge _ _ _ (by omega)]
  have h1 : ¬ (x < -15) := by omega
  have h2 : ¬ (x = -15) := by omega
  simp only [h1, h2, if_false, Option.map_some, halfWord, Nat.reducePow]
  refine congrArg some ?_
  generalize hn : (x + 15).toNat = n
  have : n ≤ 30 := by omega
  omega

theorem h2Pack_over (s mant : Nat) (x : Int) (hx : 15 < x) : h2Pack s mant x = none := by
  unfold h2Pack
  simp [hx]

theorem half_normal (s e m : Nat) (hs : s < 2) (he1 : 1009 ≤ e) (he2 : e ≤ 1038) (hm : m < 2 ^ 52) :
    (double2ieee2 (s * 2 ^ 63 + e * 2 ^ 52 + m)).map halfWord = narrow fmtHalf (s * 2 ^ 63 + e * 2 ^ 52 + m) := by
  have hS : (s * 2 ^ 63 + e * 2 ^ 52 + m) / 2 ^ 63 % 2 = s := by omega
  have hE : (s * 2 ^ 63 + e * 2 ^ 52 + m) / 2 ^ 52 % 2048 = e := by omega
  have hM : (s * 2 ^ 63 + e * 2 ^ 52 + m) % 2 ^ 52 = m := by omega
  have hM0 : (s * 2 ^ 63 + e * 2 ^ 52 + m) / 2 ^ 24 % 2 ^ 28 = m / 2 ^ 24 := by omega
  have hF : (s * 2 ^ 63 + e * 2 ^ 52 + m) % 2 ^ 24 = m % 2 ^ 24 := by omega
  have hx1 : ¬ ((e : Int) - 1023 = 1024) := by omega
  have hx2 : ((e : Int) - 1023 ≠ -1023) := by omega
  have he0 : ¬ (e = 2047) := by omega
  have he00 : ¬ (e = 0) := by omega
  have het : e ≥ 1009 := by omega
  unfold double2ieee2 narrow
  simp only [dSign, dExp, dMant, hS, hE, hM, hM0, hF, fmtHalf, hx1, hx2, he0, he00, if_true, if_false, ne_eq, not_false_eq_true]
  unfold h2Rounded rneDiv
  rw [h2RoundUp_eq m hm]
  simp only [Nat.reducePow, Nat.reduceSub, Nat.reduceMul, het, if_true, show (42 : Nat) ≠ 0 by omega, if_false]
  by_cases hr : (4503599627370496 + m) % 4398046511104 > 2199023255552 ∨
      (4503599627370496 + m) % 4398046511104 = 2199023255552 ∧ (4503599627370496 + m) / 4398046511104 % 2 = 1
  · simp only [hr, decide_true, if_true]
    by_cases hc : (m / 16777216 + 268435456 + (262144 - (m / 16777216 + 268435456) % 262144)) / 536870912 % 2 = 1
    · simp only [hc, if_true]
      by_cases ho : e = 1038
      · rw [h2Pack_over _ _ _ (by omega)]
        have : (e - 1009) * 1024 + ((4503599627370496 + m) / 4398046511104 + 1) ≥ 31744 := by omega
        simp only [this, if_true, Option.map_none]
      · rw [h2Pack_normal _ _ _ hs (by omega) (by omega) (by omega)]
        have : ¬ ((e - 1009) * 1024 + ((4503599627370496 + m) / 4398046511104 + 1) ≥ 31744) := by omega
        simp only [this, if_false, Nat.reducePow, Nat.reduceAdd]
        refine congrArg some ?_
        have : ((e : Int) - 1023 + 1 + 15).toNat = e - 1007 := by omega
        rw [this]
        omega
    · simp only [hc, if_false]
      rw [h2Pack_normal _ _ _ hs (by omega) (by omega) (by omega)]
      have : ¬ ((e - 1009) * 1024 + ((4503599627370496 + m) / 4398046511104 + 1) ≥ 31744) := by omega
      simp only [this, if_false, Nat.reducePow, Nat.reduceAdd]
      refine congrArg some ?_
      have : ((e : Int) - 1023 + 15).toNat = e - 1008 := by omega
      rw [this]
      omega
  · simp only [hr, decide_false, if_false, Bool.false_eq_true]
    rw [h2Pack_normal _ _ _ hs (by omega) (by omega) (by omega)]
    have : ¬ ((e - 1009) * 1024 + ((4503599627370496 + m) / 4398046511104) ≥ 31744) := by omega
    simp only [this, if_false, Nat.reducePow, Nat.reduceAdd]
    refine congrArg some ?_
    have : ((e : Int) - 1023 + 15).toNat = e - 1008 := by omega
    rw [this]
    omega

theorem b_congr {x y : Nat} (h : x % 256 = y % 256) : b x = b y := by
  simp [b, h]

/-- the generated table: the `Int` types used by the data statements accept exactly the manual's range -/
theorem inttypes_table :
    Generated.intTypeDefs[Generated.itInt8]? = some ⟨"Int8", 0xc008, -128, 255, 255⟩ ∧
    Generated.intTypeDefs[Generated.itInt16]? = some ⟨"Int16", 0xc010, -32768, 65535, 65535⟩ ∧
    Generated.intTypeDefs[Generated.itInt32]? = some ⟨"Int32", 0xc020, -2147483648, 4294967295, 4294967295⟩ ∧
    Generated.itInt8 < Generated.intTypeNoCheckFrom ∧ Generated.itInt16 < Generated.intTypeNoCheckFrom ∧
    Generated.itInt32 < Generated.intTypeNoCheckFrom ∧ Generated.intTypeNoCheckFrom ≤ Generated.itInt64 := by
  decide

theorem rangeCheck_8 (v : Int) : rangeCheck v (intTypeOfBytes 1) = inRange 8 v := by
  have h := inttypes_table
  unfold rangeCheck intTypeOfBytes inRange
  have : ¬ (Generated.itInt8 ≥ Generated.intTypeNoCheckFrom) := by omega
  simp only [this, if_false, h.1]
  simp only [Int.reducePow, Nat.reduceSub, Int.reduceNeg]
  by_cases h1 : -128 ≤ v <;> by_cases h2 : v ≤ 255 <;> simp [h1, h2] <;> omega

theorem hostLE : Generated.hostBigEndian = false := by decide

/-- every `Enter*` integer helper followed by `WriteBytes` lays the big-endian bytes, for both listing granularities -/
theorem enterInt_spec (c : MCfg) (hc : (c.lg = 1 ∧ c.turnWords = false) ∨ (c.lg = 2 ∧ c.turnWords = true))
    (n : Nat) (hn : n = 1 ∨ n = 2 ∨ n = 4 ∨ n = 8) (u : Nat) :
    writeBytes c (enterInt c.lg n [] u) = encNat n true u := by
  rcases hc with ⟨h1, h2⟩ | ⟨h1, h2⟩ <;> rcases hn with rfl | rfl | rfl | rfl <;>
    simp [writeBytes, enterInt, enterByte, enterWord, enterLWord, enterQWord, storeWord, swapPairs, encNat, encLE, h1, h2, hostLE] <;>
    (repeat' constructor) <;> apply b_congr <;> omega

theorem putMapped_spec (n : Nat) (hn : n = 1 ∨ n = 2 ∨ n = 4 ∨ n = 8) (big : Bool) (u : Nat) :
    putMapped n (if big then n - 1 else 0) u = encNat n big u := by
  rcases hn with rfl | rfl | rfl | rfl <;> cases big <;>
    simp [putMapped, encNat, encLE, List.range, List.range.loop] <;>
    (repeat' constructor) <;> apply b_congr <;> omega

theorem putByte_putADR_spec (c : MCfg) (h : c.lg = 1) (u : Nat) :
    writeBytes c (putByte c [] u) = encNat 1 c.mturn u ∧ writeBytes c (putADR c [] u) = encNat 2 c.mturn u := by
  cases hm : c.mturn <;> simp [writeBytes, putByte, putADR, encNat, encLE, h, hm] <;> (try (apply b_congr; omega))

/-- two's complement: the `LargeWord` the C code holds has the same low `w` bits as the value -/
theorem largeWord_mod (v : Int) (w : Nat) (hw : w = 8 ∨ w = 16 ∨ w = 32 ∨ w = 64) :
    largeWord (largeInt v) % 2 ^ w = twos w v := by
  rcases hw with rfl | rfl | rfl | rfl <;> simp only [largeWord, largeInt, twos, Int.reducePow, Nat.reducePow] <;> omega

theorem encLE_mod (n u : Nat) : encLE n (u % 256 ^ n) = encLE n u := by
  induction n generalizing u with
  | zero => simp [encLE]
  | succ k ih =>
    simp only [encLE]
    congr 1
    · apply b_congr
      rw [Nat.pow_succ, Nat.mul_comm, Nat.mod_mul_right_mod]
    · rw [← ih (u / 256), ← ih (u % 256 ^ (k + 1) / 256)]
      congr 1
      rw [Nat.pow_succ, Nat.mul_comm, Nat.mod_mul_right_div_self, Nat.mod_mod]

theorem encNat_mod (n : Nat) (big : Bool) (u : Nat) : encNat n big (u % 256 ^ n) = encNat n big u := by
  unfold encNat; rw [encLE_mod]

theorem rangeCheck_16 (v : Int) : rangeCheck v (intTypeOfBytes 2) = inRange 16 v := by
  have h := inttypes_table
  unfold rangeCheck intTypeOfBytes inRange
  have : ¬ (Generated.itInt16 ≥ Generated.intTypeNoCheckFrom) := by omega
  simp only [this, if_false, h.2.1]
  simp only [Int.reducePow, Nat.reduceSub, Int.reduceNeg]
  by_cases h1 : -32768 ≤ v <;> by_cases h2 : v ≤ 65535 <;> simp [h1, h2] <;> omega

theorem rangeCheck_32 (v : Int) : rangeCheck v (intTypeOfBytes 4) = inRange 32 v := by
  have h := inttypes_table
  unfold rangeCheck intTypeOfBytes inRange
  have : ¬ (Generated.itInt32 ≥ Generated.intTypeNoCheckFrom) := by omega
  simp only [this, if_false, h.2.2.1]
  simp only [Int.reducePow, Nat.reduceSub, Int.reduceNeg]
  by_cases h1 : -2147483648 ≤ v <;> by_cases h2 : v ≤ 4294967295 <;> simp [h1, h2] <;> omega

theorem rangeCheck_64 (v : Int) : rangeCheck v (intTypeOfBytes 8) = true := by
  have h := inttypes_table
  unfold rangeCheck intTypeOfBytes
  have : (Generated.itInt64 ≥ Generated.intTypeNoCheckFrom) := by omega
  simp only [this, if_true]

/-- `RangeCheck` on the wrapped value decides the manual's range for every value the 64-bit
expression evaluator can deliver (and for 64-bit fields: for every value up to 2^64-1) -/
theorem rangeCheck_spec (n : Nat) (hn : n = 1 ∨ n = 2 ∨ n = 4 ∨ n = 8) (v : Int)
    (hv : -(2 : Int) ^ 63 ≤ v ∧ v < (2 : Int) ^ 64 ∧ (n ≠ 8 → v < (2 : Int) ^ 63)) :
    rangeCheck (largeInt v) (intTypeOfBytes n) = inRange (8 * n) v := by
  rcases hn with rfl | rfl | rfl | rfl
  · rw [rangeCheck_8]; have : largeInt v = v := by unfold largeInt; simp only [Int.reducePow] at *; omega
    rw [this]
  · rw [rangeCheck_16]; have : largeInt v = v := by unfold largeInt; simp only [Int.reducePow] at *; omega
    rw [this]
  · rw [rangeCheck_32]; have : largeInt v = v := by unfold largeInt; simp only [Int.reducePow] at *; omega
    rw [this]
  · rw [rangeCheck_64]; unfold inRange; simp only [Int.reducePow, Nat.reduceMul, Nat.reduceSub] at *
    symm; rw [decide_eq_true_iff]; omega

theorem enc_bytes_ne_nil (n : Nat) (hn : n = 1 ∨ n = 2 ∨ n = 4 ∨ n = 8) (big : Bool) (u : Nat) :
    (encNat n big u).isEmpty = false := by
  rcases hn with rfl | rfl | rfl | rfl <;> cases big <;> simp [encNat, encLE]

theorem int_bytes (n : Nat) (hn : n = 1 ∨ n = 2 ∨ n = 4 ∨ n = 8) (big : Bool) (v : Int) :
    encNat n big (largeWord (largeInt v)) = encNat n big (twos (8 * n) v) := by
  rw [← encNat_mod n big (largeWord (largeInt v))]
  have : (256 : Nat) ^ n = 2 ^ (8 * n) := by
    rw [show (256 : Nat) = 2 ^ 8 by rfl, ← Nat.pow_mul]
  rw [this, largeWord_mod v (8 * n) (by omega)]

/-- DC.B/W/L/Q with one integer argument -/
theorem int_moto (c : MCfg) (hc : (c.lg = 1 ∧ c.turnWords = false) ∨ (c.lg = 2 ∧ c.turnWords = true))
    (n : Nat) (hn : n = 1 ∨ n = 2 ∨ n = 4 ∨ n = 8) (pc : Nat) (v : Int)
    (hv : -(2 : Int) ^ 63 ≤ v ∧ v < (2 : Int) ^ 64 ∧ (n ≠ 8 → v < (2 : Int) ^ 63)) :
    decodeMotoDC c pc ⟨n, true, none⟩ (.cons (.int v) .nil) =
      (encInt (8 * n) true v).map fun bs =>
        ⟨if pc % 2 == 1 && c.padding && decide (n ≠ 1) then some false else none, .data bs, []⟩ := by
  unfold decodeMotoDC
  simp only []
  generalize (pc % 2 == 1 && c.padding && decide (n ≠ 1)) = p
  unfold motoDCArgs motoDCArg cutRep encInt
  simp only [rangeCheck_spec n hn v hv]
  have h8 : 8 * n / 8 = n := by omega
  have hw : writeBytes c (enterInt c.lg n [] (largeWord (largeInt v))) = encNat n true (twos (8 * n) v) := by
    rw [enterInt_spec c hc n hn, int_bytes n hn]
  have hne := enc_bytes_ne_nil n hn true (twos (8 * n) v)
  cases hr : inRange (8 * n) v
  · simp [motoDCArgs]
  · cases p <;> simp [motoDCArgs, doPad, iterate, h8, mkOut, hw, hne]

theorem replicate_flatten_succ {α : Type} (k : Nat) (l : List α) :
    (List.replicate (k + 1) l).flatten = (List.replicate k l).flatten ++ l := by
  rw [List.replicate_succ', List.flatten_append]
  simp

theorem iterate_succ' {α : Type} (f : α → α) (n : Nat) (a : α) : iterate f (n + 1) a = f (iterate f n a) := by
  induction n generalizing a with
  | zero => rfl
  | succ i ih => 
    show iterate f (i + 1) (f a) = f (iterate f (i + 1) a)
    rw [ih (f a)]
    rfl

/-- `k` calls of `Replicate8ToN_To_8(start, end)` append `k` further copies of the DUP body -/
theorem replicate8_iterate (pre body : List Byte) (ds : DS) (k : Nat) :
    iterate (fun s => replicate8 s pre.length (pre.length + body.length)) k
        ⟨pre ++ body, pre.length + body.length, ds⟩ =
      ⟨pre ++ (List.replicate (k + 1) body).flatten, pre.length + (k + 1) * body.length, ds⟩ := by
  induction k with
  | zero => simp [iterate]
  | succ j ih =>
    rw [iterate_succ', ih]
    unfold replicate8 iPut
    have hdrop : (List.drop pre.length (pre ++ (List.replicate (j + 1) body).flatten)) = (List.replicate (j + 1) body).flatten := by
      simp
    have htake : List.take (pre.length + body.length - pre.length) ((List.replicate (j + 1) body).flatten) = body := by
      have : List.replicate (j + 1) body = body :: List.replicate j body := rfl
      rw [this, List.flatten_cons]
      simp
    simp only [hdrop, htake]
    congr 1
    · rw [List.append_assoc, ← replicate_flatten_succ]
    · rw [Nat.add_mul (j + 1) 1 body.length]; omega


/-- DUP in constant mode: `n DUP (body)` lays `n` copies of whatever the body laid (any body, any nesting) -/
theorem dup_const (c : MCfg) (e : Elem) (n : Int) (as : Args) (st st' : ISt) (body : List Byte)
    (hn : 1 ≤ n) (hrun : layoutMultL c e as st = .ok st') (hds : st'.ds = .const)
    (hfill : st.fill = st.buf.length) (hb : st'.buf = st.buf ++ body) (hf : st'.fill = st.fill + body.length) :
    layoutMult c e (.dup n as) st =
      .ok ⟨st.buf ++ (List.replicate n.toNat body).flatten, st.fill + n.toNat * body.length, .const⟩ := by
  unfold layoutMult
  have h0 : ¬ (n ≤ 0) := by omega
  simp only [h0, if_false, hrun, hds]
  obtain ⟨buf', fill', ds'⟩ := st'
  simp only at hds hb hf
  subst hds hb hf
  rw [hfill]
  have := replicate8_iterate st.buf body .const (n.toNat - 1)
  have hk : n.toNat - 1 + 1 = n.toNat := by omega
  rw [hk] at this
  rw [this]

/-- DUP in reservation mode: the address advances by `n` times the body's advance -/
theorem dup_space (c : MCfg) (e : Elem) (n : Int) (as : Args) (st st' : ISt) (d : Nat)
    (hn : 1 ≤ n) (hrun : layoutMultL c e as st = .ok st') (hds : st'.ds = .space) (hf : st'.fill = st.fill + d) :
    layoutMult c e (.dup n as) st = .ok { st' with fill := st.fill + n.toNat * d } := by
  unfold layoutMult
  have h0 : ¬ (n ≤ 0) := by omega
  simp only [h0, if_false, hrun, hds]
  congr 2
  rw [hf]
  obtain ⟨k, hk⟩ : ∃ k, n.toNat = k + 1 := ⟨n.toNat - 1, by omega⟩
  rw [hk, Nat.add_sub_cancel, Nat.add_sub_cancel_left, Nat.succ_mul, Nat.mul_comm]
  omega


/-- DB/DW/DD/DQ with one integer argument -/
theorem int_intel (c : MCfg) (n : Nat) (hn : n = 1 ∨ n = 2 ∨ n = 4 ∨ n = 8) (fk : Option FKind) (v : Int)
    (hv : -(2 : Int) ^ 63 ≤ v ∧ v < (2 : Int) ^ 64 ∧ (n ≠ 8 → v < (2 : Int) ^ 63)) :
    decodeIntelDx c ⟨n, true, fk⟩ (.cons (.int v) .nil) =
      (encInt (8 * n) c.ibig v).map fun bs => ⟨none, .data bs, []⟩ := by
  unfold decodeIntelDx layoutMultL layoutMult setDS layoutLeaf encInt
  simp only [rangeCheck_spec n hn v hv]
  have h8 : 8 * n / 8 = n := by omega
  have hne := enc_bytes_ne_nil n hn c.ibig (twos (8 * n) v)
  cases hr : inRange (8 * n) v
  · simp [LR.ofOption]
  · simp [LR.ofOption, layoutMultL, iPut, mkOut, putMapped_spec n hn, int_bytes n hn, h8, hne]

/-- BYT/FCB and ADR/FDB with one integer argument -/
theorem int_moto8 (c : MCfg) (hlg : c.lg = 1) (wide : Bool) (v : Int)
    (hv : -(2 : Int) ^ 63 ≤ v ∧ v < (2 : Int) ^ 63) :
    decodeMoto8 c wide false (.cons (.int v) .nil) =
      (encInt (if wide then 16 else 8) c.mturn v).map fun bs => ⟨none, .data bs, []⟩ := by
  have hv' : ∀ n, -(2 : Int) ^ 63 ≤ v ∧ v < (2 : Int) ^ 64 ∧ (n ≠ 8 → v < (2 : Int) ^ 63) := by
    intro n; simp only [Int.reducePow] at *; omega
  have hp := putByte_putADR_spec c hlg (largeWord (largeInt v))
  cases wide
  · have hr := rangeCheck_spec 1 (by omega) v (hv' 1)
    simp only [intTypeOfBytes, Nat.mul_one] at hr
    unfold decodeMoto8 moto8Args moto8Arg cutRep encInt
    have hne := enc_bytes_ne_nil 1 (by omega) c.mturn (twos 8 v)
    cases hi : inRange 8 v
    · simp [hr, hi]
    · simp [hr, hi, moto8Args, iterate, mkOut, hp.1, int_bytes 1 (by omega), hne]
  · have hr := rangeCheck_spec 2 (by omega) v (hv' 2)
    simp only [intTypeOfBytes, Nat.reduceMul] at hr
    unfold decodeMoto8 moto8Args moto8Arg cutRep encInt
    have hne := enc_bytes_ne_nil 2 (by omega) c.mturn (twos 16 v)
    cases hi : inRange 16 v
    · simp [hr, hi]
    · simp [hr, hi, moto8Args, iterate, mkOut, hp.2, int_bytes 2 (by omega), hne]

/-- `[n]?` in DC.x: nothing is emitted, the address advances by `n` elements, after a *reserved* pad byte when PADDING asks for one -/
theorem reserve_moto (c : MCfg) (e : Elem) (pc : Nat) (n : Nat) (hn : 0 < n * e.bytes) :
    decodeMotoDC c pc e (.cons (.rep n .q) .nil) =
      some ⟨if pc % 2 == 1 && c.padding && decide (e.bytes ≠ 1) then some true else none, .space (n * e.bytes), []⟩ := by
  unfold decodeMotoDC
  generalize (pc % 2 == 1 && c.padding && decide (e.bytes ≠ 1)) = p
  unfold motoDCArgs motoDCArg cutRep
  have h1 : ¬ (((n : Int) * (e.bytes : Int)) ≤ 0) := by
    have : (0 : Int) < ((n * e.bytes : Nat) : Int) := by omega
    rw [Int.natCast_mul] at this; omega
  have h2 : ((n : Int) * (e.bytes : Int)).toNat = n * e.bytes := by
    rw [← Int.natCast_mul]; exact Int.toNat_natCast _
  cases p <;> simp [motoDCArgs, doPad, mkOut, h1, h2]


end AslModel.DataLemmas
