import AslModel.Lemmas.TagsTok
/-! Lemmas for C11 (processor layer), part 4: construct trees.
* `substEB env body`: the tree with the substitutions of the enclosing constructs carried out on every text the
  enclosing tag delivers (body lines, arguments - not the placeholder names);
* `WFB`: the well-formedness conditions of `C11_tags_refine`;
* `flat_subst`: substituting the delivered lines of a body is substituting in the tree;
* `bound_eq`: the argument binding of `ExpandMacro` is the SPEC's `bindArgs`. -/
namespace AslModel.Tags
open AslModel.MacroSpec AslModel.Macro AslModel.Generated

/-! ### text fields of a line -/

def SLine.All (P : Line → Prop) : SLine → Prop
  | .plain t => P t
  | .macroDef _ ps ds => (∀ p ∈ ps, P p) ∧ (∀ d ∈ ds, P d)
  | .rept _ => True
  | .irp v as => P v ∧ ∀ a ∈ as, P a
  | .irpn _ r => ∀ a ∈ r, P a
  | .irpc v c => P v ∧ P c
  | .endm => True
  | .exitm => True
  | .shift => True
  | .call _ as => ∀ a ∈ as, P a.val ∧ ∀ k, a.key = some k → P k

theorem mapArg_congr (f g : Line → Line) (a : CallArg) (hv : f a.val = g a.val)
    (hk : ∀ k, a.key = some k → f k = g k) : mapArg f a = mapArg g a := by
  cases a with
  | mk key val =>
    cases key with
    | none => simp only [mapArg, Option.map_none] at *; rw [hv]
    | some k => simp only [mapArg, Option.map_some] at *; rw [hv, hk k rfl]

theorem SLine.map_congr (f g : Line → Line) (sl : SLine) (h : sl.All (fun l => f l = g l)) : sl.map f = sl.map g := by
  cases sl with
  | plain t => simp only [SLine.map]; rw [show f t = g t from h]
  | macroDef id ps ds =>
    simp only [SLine.map]
    rw [List.map_congr_left h.1, List.map_congr_left h.2]
  | rept n => rfl
  | irp v as => simp only [SLine.map]; rw [h.1, List.map_congr_left h.2]
  | irpn k r => simp only [SLine.map]; rw [List.map_congr_left h]
  | irpc v c => simp only [SLine.map]; rw [h.1, h.2]
  | endm => rfl
  | exitm => rfl
  | shift => rfl
  | call id as =>
    simp only [SLine.map]
    congr 1
    apply List.map_congr_left
    intro a ha
    exact mapArg_congr f g a (h a ha).1 (h a ha).2

theorem mapArg_mapArg (f g : Line → Line) (a : CallArg) : mapArg g (mapArg f a) = mapArg (g ∘ f) a := by
  cases a with
  | mk key val => cases key <;> rfl

theorem SLine.map_map (f g : Line → Line) (sl : SLine) : (sl.map f).map g = sl.map (g ∘ f) := by
  cases sl <;> simp [SLine.map, mapArg_mapArg]

theorem SLine.All_mono (P Q : Line → Prop) (h : ∀ l, P l → Q l) (sl : SLine) (hp : sl.All P) : sl.All Q := by
  cases sl with
  | plain t => exact h t hp
  | macroDef id ps ds => exact ⟨fun p hp' => h p (hp.1 p hp'), fun d hd => h d (hp.2 d hd)⟩
  | rept n => trivial
  | irp v as => exact ⟨h v hp.1, fun a ha => h a (hp.2 a ha)⟩
  | irpn k r => exact fun a ha => h a (hp a ha)
  | irpc v c => exact ⟨h v hp.1, h c hp.2⟩
  | endm => trivial
  | exitm => trivial
  | shift => trivial
  | call id as => exact fun a ha => ⟨h _ (hp a ha).1, fun k hk => h k ((hp a ha).2 k hk)⟩

theorem SLine.All_and (P Q : Line → Prop) (sl : SLine) (hp : sl.All P) (hq : sl.All Q) :
    sl.All (fun l => P l ∧ Q l) := by
  cases sl with
  | plain t => exact ⟨hp, hq⟩
  | macroDef id ps ds => exact ⟨fun p h => ⟨hp.1 p h, hq.1 p h⟩, fun d h => ⟨hp.2 d h, hq.2 d h⟩⟩
  | rept n => trivial
  | irp v as => exact ⟨⟨hp.1, hq.1⟩, fun a h => ⟨hp.2 a h, hq.2 a h⟩⟩
  | irpn k r => exact fun a h => ⟨hp a h, hq a h⟩
  | irpc v c => exact ⟨⟨hp.1, hq.1⟩, ⟨hp.2, hq.2⟩⟩
  | endm => trivial
  | exitm => trivial
  | shift => trivial
  | call id as => exact fun a h => ⟨⟨(hp a h).1, (hq a h).1⟩, fun k hk => ⟨(hp a h).2 k hk, (hq a h).2 k hk⟩⟩

/-! ### substitution environments -/

theorem applyEnv_snoc (cs : Bool) (env : Env) (pa : List Line × List Line) (l : Line) :
    applyEnv cs (env ++ [pa]) l = substWhole cs pa.1 pa.2 (applyEnv cs env l) := by
  simp [applyEnv, List.foldl_append]

theorem applyEnv_nil (cs : Bool) (l : Line) : applyEnv cs [] l = l := rfl

theorem map_applyEnv_nil (cs : Bool) : ∀ (args : List Line), args.map (applyEnv cs []) = args
  | [] => rfl
  | a :: args => by rw [List.map_cons, map_applyEnv_nil cs args]; rfl

/-- the substituted values are argument texts (no blanks) -/
def EnvClean (env : Env) : Prop := ∀ pa ∈ env, ∀ a ∈ pa.2, Tidy a

def EnvIn (env : Env) (scope : List Line) : Prop := ∀ pa ∈ env, ∀ n ∈ pa.1, n ∈ scope

theorem applyEnv_clean (cs : Bool) : ∀ (env : Env) (l : Line), EnvClean env → Clean l → Clean (applyEnv cs env l)
  | [], _, _, hl => hl
  | pa :: env, l, he, hl => by
    have : applyEnv cs (pa :: env) l = applyEnv cs env (substWhole cs pa.1 pa.2 l) := rfl
    rw [this]
    exact applyEnv_clean cs env _ (fun p hp => he p (by simp [hp]))
      (substWhole_clean cs pa.1 pa.2 l hl (fun a ha => tidy_clean (he pa (by simp) a ha)))

theorem applyEnv_tidy (cs : Bool) : ∀ (env : Env) (l : Line), EnvClean env → Tidy l → Tidy (applyEnv cs env l)
  | [], _, _, hl => hl
  | pa :: env, l, he, hl => by
    have : applyEnv cs (pa :: env) l = applyEnv cs env (substWhole cs pa.1 pa.2 l) := rfl
    rw [this]
    exact applyEnv_tidy cs env _ (fun p hp => he p (by simp [hp]))
      (substWhole_tidy cs pa.1 pa.2 l hl (he pa (by simp)))

theorem envClean_snoc {env : Env} {pa : List Line × List Line} (he : EnvClean env) (hp : ∀ a ∈ pa.2, Tidy a) :
    EnvClean (env ++ [pa]) := by
  intro p hp'
  rcases List.mem_append.mp hp' with h | h
  · exact he p h
  · have : p = pa := by simpa using h
    rw [this]; exact hp

theorem envIn_snoc {env : Env} {scope : List Line} {pa : List Line × List Line} (he : EnvIn env scope) :
    EnvIn (env ++ [pa]) (scope ++ pa.1) := by
  intro p hp n hn
  rcases List.mem_append.mp hp with h | h
  · exact List.mem_append_left _ (he p h n hn)
  · have : p = pa := by simpa using h
    rw [this] at hn; exact List.mem_append_right _ hn

/-- a text none of whose runs is a name of the scope -/
def StableIn (cs : Bool) (scope : List Line) (l : Line) : Prop :=
  ∀ r, Seg.run r ∈ segs l → ∀ n ∈ scope, eqLine cs n r = false

theorem applyEnv_stable (cs : Bool) (scope : List Line) (l : Line) (hl : Clean l) (hs : StableIn cs scope l) :
    ∀ (env : Env), EnvIn env scope → applyEnv cs env l = l
  | [], _ => rfl
  | pa :: env, he => by
    have : applyEnv cs (pa :: env) l = applyEnv cs env (substWhole cs pa.1 pa.2 l) := rfl
    rw [this, substWhole_stable cs pa.1 pa.2 l hl
      (fun r hr => lookup_none_of_names cs pa.1 pa.2 r (fun n hn => hs r hr n (he pa (by simp) n hn)))]
    exact applyEnv_stable cs scope l hl hs env (fun p hp => he p (by simp [hp]))

/-! ### the tree as the enclosing tag delivers it -/

def substArg (cs : Bool) (env : Env) (a : CallArg) : CallArg :=
  { key := a.key.map (applyEnv cs env), val := applyEnv cs env a.val }

mutual
def substEI (cs : Bool) (env : Env) : Item → Item
  | .line l => .line (applyEnv cs env l)
  | .exitm => .exitm
  | .rept id n locals body => .rept id n locals (substEB cs env body)
  | .irp id var args locals body => .irp id var (args.map (applyEnv cs env)) locals (substEB cs env body)
  | .irpn id vars args locals body => .irpn id vars (args.map (applyEnv cs env)) locals (substEB cs env body)
  | .irpc id var chars locals body => .irpc id var (applyEnv cs env chars) locals (substEB cs env body)
  | .call id ps ds locals body args => .call id ps ds locals body (args.map (substArg cs env))
def substEB (cs : Bool) (env : Env) : Body → Body
  | .nil => .nil
  | .cons i rest => .cons (substEI cs env i) (substEB cs env rest)
end

/-! ### well-formed trees -/

/-- a placeholder name: accepted by `ChkMacSymbName`, and no name of an enclosing construct -/
def Binder (cs : Bool) (scope : List Line) (v : Line) : Prop :=
  chkMacSymbName v = true ∧ ∀ n ∈ scope, eqLine cs n v = false

/-- no positional argument after the first keyword argument -/
def posThenKey : List CallArg → Prop
  | [] => True
  | a :: rest => if a.key.isNone then posThenKey rest else ∀ b ∈ rest, b.key.isSome = true

/-- length of the bound argument list: the formal parameters plus the excess positional arguments -/
def bindLen (np : Nat) (args : List CallArg) : Nat := np + ((args.filter (fun a => a.key.isNone)).length - np)

def CleanArg (a : CallArg) : Prop := Tidy a.val ∧ ∀ k, a.key = some k → Tidy k

mutual
/-- `ex`: EXITM is allowed directly in this body -/
def WFI (q : Quirks) (cs : Bool) (scope : List Line) (ex : Bool) : Item → Prop
  | .line l => Clean l
  | .exitm => ex = true
  | .rept _ _ locals body => locals = [] ∧ WFB q cs scope true body
  | .irp _ var args locals body =>
    locals = [] ∧ Binder cs scope var ∧ args ≠ [] ∧ args.length + 1 ≤ argCntMax ∧ (∀ a ∈ args, Tidy a) ∧
      WFB q cs (scope ++ [var]) (!q.exitmIrpCrash) body
  | .irpn _ vars args locals body =>
    locals = [] ∧ vars ≠ [] ∧ (∀ v ∈ vars, Binder cs scope v) ∧ vars.length ≤ args.length ∧
      vars.length + args.length + 1 ≤ argCntMax ∧ (∀ a ∈ args, Tidy a) ∧
      WFB q cs (scope ++ vars) (!q.exitmIrpCrash) body
  | .irpc _ var chars locals body =>
    locals = [] ∧ Binder cs scope var ∧ chars ≠ [] ∧ Tidy chars ∧ StableIn cs scope chars ∧
      WFB q cs (scope ++ [var]) true body
  | .call _ params defaults locals body args =>
    locals = [] ∧ (∀ p ∈ params, chkMacSymbName p = true) ∧ defaults.length = params.length ∧
      params.length ≤ argCntMax ∧ (∀ d ∈ defaults, Tidy d) ∧ (∀ a ∈ args, CleanArg a) ∧ posThenKey args ∧
      (∀ sl ∈ flatBody body, sl.All (ImplLineOK cs
        (natDigits (if q.argCountWritten then args.length else bindLen params.length args))
        (natDigits (bindLen params.length args)))) ∧
      WFB q cs (params ++ [allArgsName, argCountName]) true body
def WFB (q : Quirks) (cs : Bool) (scope : List Line) (ex : Bool) : Body → Prop
  | .nil => True
  | .cons i rest => WFI q cs scope ex i ∧ WFB q cs scope ex rest
end

theorem binder_subst (cs : Bool) (scope : List Line) (v : Line) (hb : Binder cs scope v)
    (pa : List Line × List Line) (hp : ∀ n ∈ pa.1, n ∈ scope) : substWhole cs pa.1 pa.2 v = v :=
  substWhole_name cs pa.1 pa.2 v (nameOK_of_chk v hb.1) (fun n hn => hb.2 n (hp n hn))

theorem binder_clean (cs : Bool) (scope : List Line) (v : Line) (hb : Binder cs scope v) : Clean v :=
  clean_of_alnum v (nameOK_of_chk v hb.1).2

theorem binder_tidy (cs : Bool) (scope : List Line) (v : Line) (hb : Binder cs scope v) : Tidy v :=
  tidy_of_alnum v (nameOK_of_chk v hb.1).2

theorem mapArg_substArg (cs : Bool) (env : Env) (pa : List Line × List Line) (a : CallArg) :
    mapArg (substWhole cs pa.1 pa.2) (substArg cs env a) = substArg cs (env ++ [pa]) a := by
  cases a with
  | mk key val =>
    cases key with
    | none => simp [mapArg, substArg, applyEnv_snoc]
    | some k => simp [mapArg, substArg, applyEnv_snoc]

theorem map_fixed {α} (f : α → α) : ∀ (l : List α), (∀ x ∈ l, f x = x) → l.map f = l
  | [], _ => rfl
  | a :: l, h => by
    rw [List.map_cons, h a (by simp), map_fixed f l (fun x hx => h x (by simp [hx]))]

mutual
/-- substituting the lines a tag delivers for a body is substituting in the tree -/
theorem flat_substI (q : Quirks) (cs : Bool) (env : Env) (pa : List Line × List Line) :
    ∀ (i : Item) (scope : List Line) (ex : Bool), WFI q cs scope ex i → (∀ n ∈ pa.1, n ∈ scope) →
    (flatItem (substEI cs env i)).map (SLine.map (substWhole cs pa.1 pa.2)) = flatItem (substEI cs (env ++ [pa]) i)
  | .line l, _, _, _, _ => by simp [substEI, flatItem, SLine.map, applyEnv_snoc]
  | .exitm, _, _, _, _ => by simp [substEI, flatItem, SLine.map]
  | .rept id n locals body, scope, ex, h, hp => by
    simp only [WFI] at h
    have ih := flat_substB q cs env pa body scope true h.2 hp
    simp [substEI, flatItem, SLine.map, ih]
  | .irp id var args locals body, scope, ex, h, hp => by
    simp only [WFI] at h
    have ih := flat_substB q cs env pa body (scope ++ [var]) _ h.2.2.2.2.2
      (fun n hn => List.mem_append_left _ (hp n hn))
    have hv := binder_subst cs scope var h.2.1 pa hp
    simp [substEI, flatItem, SLine.map, ih, hv, applyEnv_snoc]
  | .irpn id vars args locals body, scope, ex, h, hp => by
    simp only [WFI] at h
    have ih := flat_substB q cs env pa body (scope ++ vars) _ h.2.2.2.2.2.2
      (fun n hn => List.mem_append_left _ (hp n hn))
    have hv : vars.map (substWhole cs pa.1 pa.2) = vars :=
      map_fixed _ vars (fun v hv => binder_subst cs scope v (h.2.2.1 v hv) pa hp)
    simp [substEI, flatItem, SLine.map, ih, hv, applyEnv_snoc]
  | .irpc id var chars locals body, scope, ex, h, hp => by
    simp only [WFI] at h
    have ih := flat_substB q cs env pa body (scope ++ [var]) _ h.2.2.2.2.2
      (fun n hn => List.mem_append_left _ (hp n hn))
    have hv := binder_subst cs scope var h.2.1 pa hp
    simp [substEI, flatItem, SLine.map, ih, hv, applyEnv_snoc]
  | .call id ps ds locals body args, _, _, _, _ => by
    simp [substEI, flatItem, SLine.map, mapArg_substArg]
theorem flat_substB (q : Quirks) (cs : Bool) (env : Env) (pa : List Line × List Line) :
    ∀ (b : Body) (scope : List Line) (ex : Bool), WFB q cs scope ex b → (∀ n ∈ pa.1, n ∈ scope) →
    (flatBody (substEB cs env b)).map (SLine.map (substWhole cs pa.1 pa.2)) = flatBody (substEB cs (env ++ [pa]) b)
  | .nil, _, _, _, _ => rfl
  | .cons i rest, scope, ex, h, hp => by
    simp only [WFB] at h
    simp only [substEB, flatBody, List.map_append]
    rw [flat_substI q cs env pa i scope ex h.1 hp, flat_substB q cs env pa rest scope ex h.2 hp]
end

theorem substArg_clean (cs : Bool) (env : Env) (he : EnvClean env) (a : CallArg) (ha : CleanArg a) :
    CleanArg (substArg cs env a) := by
  refine ⟨applyEnv_tidy cs env _ he ha.1, ?_⟩
  intro k hk
  cases a with
  | mk key val =>
    cases key with
    | none => simp [substArg] at hk
    | some k0 =>
      simp only [substArg, Option.map_some, Option.some.injEq] at hk
      rw [← hk]
      exact applyEnv_tidy cs env _ he (ha.2 k0 rfl)

mutual
/-- every text field the enclosing tag delivers for a well-formed body is clean -/
theorem flat_cleanI (q : Quirks) (cs : Bool) (env : Env) (he : EnvClean env) :
    ∀ (i : Item) (scope : List Line) (ex : Bool), WFI q cs scope ex i →
    ∀ sl ∈ flatItem (substEI cs env i), sl.All Clean
  | .line l, _, _, h, sl, hsl => by
    simp only [WFI] at h
    simp only [substEI, flatItem, List.mem_singleton] at hsl
    rw [hsl]; exact applyEnv_clean cs env l he h
  | .exitm, _, _, _, sl, hsl => by
    simp only [substEI, flatItem, List.mem_singleton] at hsl
    rw [hsl]; trivial
  | .rept id n locals body, scope, ex, h, sl, hsl => by
    simp only [WFI] at h
    simp only [substEI, flatItem, List.mem_cons, List.mem_append, List.mem_singleton, List.not_mem_nil, or_false] at hsl
    rcases hsl with rfl | hsl | rfl
    · trivial
    · exact flat_cleanB q cs env he body scope true h.2 sl hsl
    · trivial
  | .irp id var args locals body, scope, ex, h, sl, hsl => by
    simp only [WFI] at h
    simp only [substEI, flatItem, List.mem_cons, List.mem_append, List.mem_singleton, List.not_mem_nil, or_false] at hsl
    rcases hsl with rfl | hsl | rfl
    · refine ⟨binder_clean cs scope var h.2.1, ?_⟩
      intro a ha
      obtain ⟨a0, ha0, rfl⟩ := List.mem_map.mp ha
      exact applyEnv_clean cs env a0 he (tidy_clean (h.2.2.2.2.1 a0 ha0))
    · exact flat_cleanB q cs env he body _ _ h.2.2.2.2.2 sl hsl
    · trivial
  | .irpn id vars args locals body, scope, ex, h, sl, hsl => by
    simp only [WFI] at h
    simp only [substEI, flatItem, List.mem_cons, List.mem_append, List.mem_singleton, List.not_mem_nil, or_false] at hsl
    rcases hsl with rfl | hsl | rfl
    · intro a ha
      rcases List.mem_append.mp ha with ha | ha
      · exact binder_clean cs scope a (h.2.2.1 a ha)
      · obtain ⟨a0, ha0, rfl⟩ := List.mem_map.mp ha
        exact applyEnv_clean cs env a0 he (tidy_clean (h.2.2.2.2.2.1 a0 ha0))
    · exact flat_cleanB q cs env he body _ _ h.2.2.2.2.2.2 sl hsl
    · trivial
  | .irpc id var chars locals body, scope, ex, h, sl, hsl => by
    simp only [WFI] at h
    simp only [substEI, flatItem, List.mem_cons, List.mem_append, List.mem_singleton, List.not_mem_nil, or_false] at hsl
    rcases hsl with rfl | hsl | rfl
    · exact ⟨binder_clean cs scope var h.2.1, applyEnv_clean cs env chars he (tidy_clean h.2.2.2.1)⟩
    · exact flat_cleanB q cs env he body _ _ h.2.2.2.2.2 sl hsl
    · trivial
  | .call id ps ds locals body args, scope, ex, h, sl, hsl => by
    simp only [WFI] at h
    simp only [substEI, flatItem, List.mem_singleton] at hsl
    rw [hsl]
    intro a ha
    obtain ⟨a0, ha0, rfl⟩ := List.mem_map.mp ha
    have := substArg_clean cs env he a0 (h.2.2.2.2.2.1 a0 ha0)
    exact ⟨tidy_clean this.1, fun k hk => tidy_clean (this.2 k hk)⟩
theorem flat_cleanB (q : Quirks) (cs : Bool) (env : Env) (he : EnvClean env) :
    ∀ (b : Body) (scope : List Line) (ex : Bool), WFB q cs scope ex b →
    ∀ sl ∈ flatBody (substEB cs env b), sl.All Clean
  | .nil, _, _, _, sl, hsl => by simp [substEB, flatBody] at hsl
  | .cons i rest, scope, ex, h, sl, hsl => by
    simp only [WFB] at h
    simp only [substEB, flatBody, List.mem_append] at hsl
    rcases hsl with hsl | hsl
    · exact flat_cleanI q cs env he i scope ex h.1 sl hsl
    · exact flat_cleanB q cs env he rest scope ex h.2 sl hsl
end

mutual
theorem substEI_nil (cs : Bool) : ∀ (i : Item), substEI cs [] i = i
  | .line l => rfl
  | .exitm => rfl
  | .rept id n locals body => by simp [substEI, substEB_nil cs body]
  | .irp id var args locals body => by simp [substEI, substEB_nil cs body, map_applyEnv_nil]
  | .irpn id vars args locals body => by simp [substEI, substEB_nil cs body, map_applyEnv_nil]
  | .irpc id var chars locals body => by simp [substEI, substEB_nil cs body, applyEnv_nil]
  | .call id ps ds locals body args => by
    simp only [substEI]
    congr 1
    apply map_fixed
    intro a _
    cases a with
    | mk key val => cases key <;> rfl
theorem substEB_nil (cs : Bool) : ∀ (b : Body), substEB cs [] b = b
  | .nil => rfl
  | .cons i rest => by simp [substEB, substEI_nil cs i, substEB_nil cs rest]
end

/-! ### argument binding: `ExpandMacro` = `bindArgs` -/

theorem setNamed_eq_bindKey (cs : Bool) : ∀ (ps : List Line) (ss : List (Option Line)) (k v : Line),
    setNamed cs ps ss k v = bindKey cs ps ss k v
  | [], _, _, _ => by simp [setNamed, bindKey]
  | _ :: _, [], _, _ => by simp [setNamed, bindKey]
  | p :: ps, s :: ss, k, v => by
    simp only [setNamed, bindKey]
    rw [setNamed_eq_bindKey cs ps ss k v]

theorem setSlot_append : ∀ (done : List (Option Line)) (s : Option Line) (todo : List (Option Line)) (v : Line),
    setSlot done.length v (done ++ s :: todo) = done ++ some v :: todo
  | [], _, _, _ => rfl
  | d :: done, s, todo, v => by
    simp only [List.length_cons, List.cons_append, setSlot]
    rw [setSlot_append done s todo v]

def AllPos (l : List CallArg) : Prop := ∀ a ∈ l, a.key = none
def AllKey (l : List CallArg) : Prop := ∀ a ∈ l, a.key.isSome = true

theorem bindLoop_append (cs : Bool) (names : List Line) : ∀ (p k : List CallArg) (z1 : Nat) (b : BindSt),
    bindLoop cs names z1 (p ++ k) b = bindLoop cs names (z1 + p.length) k (bindLoop cs names z1 p b)
  | [], k, z1, b => by simp [bindLoop]
  | a :: p, k, z1, b => by
    simp only [List.cons_append, bindLoop, List.length_cons]
    rw [bindLoop_append cs names p k (z1 + 1) _]
    congr 1; omega

/-- the excess positional arguments -/
theorem bindLoop_excess (cs : Bool) (names : List Line) : ∀ (p : List CallArg) (z1 : Nat) (slots : List (Option Line))
    (extra : List Line), AllPos p → z1 > names.length →
    bindLoop cs names z1 p ⟨slots, extra, false⟩ = ⟨slots, extra ++ p.map (·.val), false⟩
  | [], _, _, _, _, _ => by simp [bindLoop]
  | a :: p, z1, slots, extra, hp, hz => by
    have ha : a.key = none := hp a (by simp)
    have h1 : ¬ (z1 ≤ names.length ∧ a.val ≠ []) := by omega
    simp only [bindLoop, bindStep, ha, Bool.false_eq_true, if_false, h1, hz, if_true]
    rw [bindLoop_excess cs names p (z1 + 1) slots _ (fun x hx => hp x (by simp [hx])) (by omega)]
    simp

theorem bindLoop_pos (cs : Bool) (names : List Line) : ∀ (p : List CallArg) (done todo : List (Option Line))
    (extra : List Line), AllPos p → (done ++ todo).length = names.length →
    bindLoop cs names (done.length + 1) p ⟨done ++ todo, extra, false⟩ =
      ⟨done ++ (bindPos todo (p.map (·.val))).1, extra ++ (bindPos todo (p.map (·.val))).2, false⟩
  | [], done, todo, extra, _, _ => by simp [bindLoop, bindPos]
  | a :: p, done, [], extra, hp, hl => by
    have hz : done.length + 1 > names.length := by simp at hl; omega
    rw [bindLoop_excess cs names (a :: p) _ _ _ hp hz]
    simp [bindPos]
  | a :: p, done, s :: todo, extra, hp, hl => by
    have ha : a.key = none := hp a (by simp)
    have hz : done.length + 1 ≤ names.length := by simp at hl; omega
    have hz' : ¬ done.length + 1 > names.length := by omega
    have ih := bindLoop_pos cs names p (done ++ [if a.val.isEmpty then s else some a.val]) todo extra
      (fun x hx => hp x (by simp [hx])) (by simp at hl ⊢; omega)
    simp only [List.length_append, List.length_cons, List.length_nil, List.append_assoc, List.cons_append,
      List.nil_append, Nat.zero_add] at ih
    simp only [bindLoop, bindStep, ha, Bool.false_eq_true, if_false, Nat.add_sub_cancel, List.map_cons, bindPos]
    by_cases he : a.val = []
    · have h1 : ¬ (done.length + 1 ≤ names.length ∧ a.val ≠ []) := by simp [he]
      rw [if_neg h1, if_neg hz']
      simp only [he, List.isEmpty_nil, if_true] at ih
      rw [ih]
      simp [he]
    · have h1 : (done.length + 1 ≤ names.length ∧ a.val ≠ []) := ⟨hz, he⟩
      rw [if_pos h1, setSlot_append]
      have hne : a.val.isEmpty = false := by
        cases hv : a.val with
        | nil => exact absurd hv he
        | cons _ _ => rfl
      simp only [hne, Bool.false_eq_true, if_false] at ih
      rw [ih]
      simp [hne]

theorem bindLoop_key (cs : Bool) (names : List Line) : ∀ (k : List CallArg) (z1 : Nat) (b : BindSt), AllKey k →
    (bindLoop cs names z1 k b).slots = k.foldl (fun ss a => bindKey cs names ss (a.key.getD []) a.val) b.slots ∧
    (bindLoop cs names z1 k b).extra = b.extra
  | [], _, _, _ => by simp [bindLoop]
  | a :: k, z1, b, hk => by
    have ha := hk a (by simp)
    obtain ⟨kk, hkk⟩ : ∃ kk, a.key = some kk := by
      cases h : a.key with
      | none => rw [h] at ha; cases ha
      | some kk => exact ⟨kk, rfl⟩
    have ih := bindLoop_key cs names k (z1 + 1) (bindStep cs names b z1 a) (fun x hx => hk x (by simp [hx]))
    simp only [bindLoop, List.foldl_cons]
    rw [ih.1, ih.2]
    simp [bindStep, hkk, setNamed_eq_bindKey]

theorem fillDefaults_eq : ∀ (ss : List (Option Line)) (ds : List Line),
    fillDefaults ss ds = (ss.zip ds).map (fun (x : Option Line × Line) => x.1.getD x.2)
  | [], _ => by simp [fillDefaults]
  | _ :: _, [] => by simp [fillDefaults]
  | s :: ss, d :: ds => by simp [fillDefaults, fillDefaults_eq ss ds]

theorem posThenKey_split : ∀ (args : List CallArg), posThenKey args →
    ∃ p k, args = p ++ k ∧ AllPos p ∧ AllKey k
  | [], _ => ⟨[], [], rfl, (by intro a h; cases h), (by intro a h; cases h)⟩
  | a :: rest, h => by
    simp only [posThenKey] at h
    by_cases hn : a.key.isNone = true
    · simp only [hn, if_true] at h
      obtain ⟨p, k, e, hp, hk⟩ := posThenKey_split rest h
      refine ⟨a :: p, k, by simp [e], ?_, hk⟩
      intro x hx
      rcases List.mem_cons.mp hx with rfl | hx
      · simpa using hn
      · exact hp x hx
    · simp only [hn, if_false] at h
      refine ⟨[], a :: rest, rfl, (by intro x hx; cases hx), ?_⟩
      intro x hx
      rcases List.mem_cons.mp hx with rfl | hx
      · cases hk : x.key with
        | none => simp [hk] at hn
        | some _ => rfl
      · exact h x hx

theorem filter_pos (p k : List CallArg) (hp : AllPos p) (hk : AllKey k) :
    (p ++ k).filter (fun a => a.key.isNone) = p ∧ (p ++ k).filter (fun a => a.key.isSome) = k := by
  have h1 : p.filter (fun a => a.key.isNone) = p := List.filter_eq_self.mpr (fun a ha => by simp [hp a ha])
  have h2 : k.filter (fun a => a.key.isNone) = [] := List.filter_eq_nil_iff.mpr (fun a ha => by
    have := hk a ha
    cases h : a.key with
    | none => rw [h] at this; cases this
    | some _ => simp)
  have h3 : p.filter (fun a => a.key.isSome) = [] := List.filter_eq_nil_iff.mpr (fun a ha => by simp [hp a ha])
  have h4 : k.filter (fun a => a.key.isSome) = k := List.filter_eq_self.mpr (fun a ha => hk a ha)
  simp [List.filter_append, h1, h2, h3, h4]

/-- the argument list `ExpandMacro` builds is the SPEC's `bindArgs` -/
theorem bound_eq (cs : Bool) (m : MacroRec) (args : List CallArg) (hpk : posThenKey args) :
    boundParams cs m args = bindArgs cs m.params m.defaults args := by
  obtain ⟨p, k, e, hp, hk⟩ := posThenKey_split args hpk
  obtain ⟨f1, f2⟩ := filter_pos p k hp hk
  unfold boundParams bindArgs
  rw [e, f1, f2, bindLoop_append]
  have hrep : List.replicate m.params.length (none : Option Line) = m.params.map (fun _ => none) := by
    induction m.params with
    | nil => rfl
    | cons a l ih => simp [List.replicate_succ, ih]
  have h1 := bindLoop_pos cs m.params p [] (m.params.map fun _ => none) [] hp (by simp)
  simp only [List.length_nil, Nat.zero_add, List.nil_append] at h1
  rw [hrep, h1]
  have h2 := bindLoop_key cs m.params k (1 + p.length)
    ⟨(bindPos (m.params.map fun _ => none) (p.map (·.val))).1, (bindPos (m.params.map fun _ => none) (p.map (·.val))).2, false⟩ hk
  simp only []
  rw [h2.1, h2.2, fillDefaults_eq]

/-! ### length of the bound list -/

theorem bindPos_len : ∀ (slots : List (Option Line)) (pos : List Line),
    (bindPos slots pos).1.length = slots.length ∧ (bindPos slots pos).2.length = pos.length - slots.length
  | slots, [] => by simp [bindPos]
  | [], a :: pos => by simp [bindPos]
  | s :: slots, a :: pos => by
    have ih := bindPos_len slots pos
    simp only [bindPos, List.length_cons]
    exact ⟨by rw [ih.1], by rw [ih.2]; omega⟩

theorem bindKey_len (cs : Bool) : ∀ (ps : List Line) (ss : List (Option Line)) (k v : Line),
    (bindKey cs ps ss k v).length = ss.length
  | [], _, _, _ => by simp [bindKey]
  | _ :: _, [], _, _ => by simp [bindKey]
  | p :: ps, s :: ss, k, v => by
    simp only [bindKey]
    split
    · simp
    · simp [bindKey_len cs ps ss k v]

theorem foldl_bindKey_len (cs : Bool) (ps : List Line) : ∀ (ks : List CallArg) (ss : List (Option Line)),
    (ks.foldl (fun ss a => bindKey cs ps ss (a.key.getD []) a.val) ss).length = ss.length
  | [], _ => rfl
  | a :: ks, ss => by
    simp only [List.foldl_cons]
    rw [foldl_bindKey_len cs ps ks _, bindKey_len]

theorem bindArgs_length (cs : Bool) (params defaults : List Line) (call : List CallArg)
    (hd : defaults.length = params.length) : (bindArgs cs params defaults call).length = bindLen params.length call := by
  unfold bindArgs bindLen
  have h1 := bindPos_len (params.map fun _ => none) ((call.filter (fun a => a.key.isNone)).map (·.val))
  simp only [List.length_append, List.length_map, List.length_zip, foldl_bindKey_len, h1.1, h1.2, hd]
  simp

theorem filter_isNone_substArg (cs : Bool) (env : Env) : ∀ (args : List CallArg),
    ((args.map (substArg cs env)).filter (fun a => a.key.isNone)).length = (args.filter (fun a => a.key.isNone)).length
  | [] => rfl
  | a :: args => by
    have ih := filter_isNone_substArg cs env args
    cases a with
    | mk key val =>
      cases key with
      | none => simp [List.filter_cons, substArg, ih]
      | some k => simp [List.filter_cons, substArg, ih]

theorem bindLen_substArg (cs : Bool) (env : Env) (np : Nat) (args : List CallArg) :
    bindLen np (args.map (substArg cs env)) = bindLen np args := by
  unfold bindLen; rw [filter_isNone_substArg]

theorem posThenKey_substArg (cs : Bool) (env : Env) : ∀ (args : List CallArg), posThenKey args →
    posThenKey (args.map (substArg cs env))
  | [], _ => trivial
  | a :: args, h => by
    simp only [posThenKey, List.map_cons] at h ⊢
    have hk : (substArg cs env a).key.isNone = a.key.isNone := by
      cases a with
      | mk key val => cases key <;> rfl
    rw [hk]
    by_cases hn : a.key.isNone = true
    · simp only [hn, if_true] at h ⊢
      exact posThenKey_substArg cs env args h
    · simp only [hn, if_false] at h ⊢
      intro b hb
      obtain ⟨b0, hb0, rfl⟩ := List.mem_map.mp hb
      have := h b0 hb0
      cases b0 with
      | mk key val =>
        cases key with
        | none => simp at this
        | some _ => rfl

end AslModel.Tags
