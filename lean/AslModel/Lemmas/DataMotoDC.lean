import AslModel.Lemmas.DataMoto
/-! Helper lemmas for `Props/C09.lean`: the whole argument list of `DecodeMotoDC` (DC.B/W/L/Q with integers, strings
and `?`, each with an optional `[n]`) against `specArgs`, for both listing granularities (`Enter*` helpers followed by
`WriteBytes`). -/
namespace AslModel.DataLemmas
open AslModel.PFile AslModel.Data AslModel.DataModel

/-! ## the `Enter*` helpers append, seen through `WriteBytes` -/

theorem swapPairs_append_even (p x : List Byte) (h : p.length % 2 = 0) : swapPairs (p ++ x) = swapPairs p ++ swapPairs x := by
  induction p using swapPairs.induct with
  | case1 a b' rest ih =>
    simp only [List.cons_append, swapPairs]
    rw [ih (by simp only [List.length_cons] at h; omega)]
  | case2 l hne =>
    match l, hne with
    | [], _ => rfl
    | [a], _ => simp at h
    | a :: b' :: r, hne => exact absurd rfl (hne a b' r)

/-- buffers the element size allows: bytes anywhere, wider elements at even offsets -/
def EvenOK (n : Nat) (buf : List Byte) : Prop := n = 1 ∨ buf.length % 2 = 0

/-- `f` appends `x`, seen through `WriteBytes` -/
def Appends (c : MCfg) (n : Nat) (f : List Byte → List Byte) (x : List Byte) : Prop :=
  ∀ buf, EvenOK n buf → writeBytes c (f buf) = writeBytes c buf ++ x ∧ EvenOK n (f buf)

theorem appends_iterate (c : MCfg) (n : Nat) (f : List Byte → List Byte) (x : List Byte) (h : Appends c n f x) (k : Nat) :
    Appends c n (iterate f k) ((List.replicate k x).flatten) := by
  induction k with
  | zero => intro buf hb; simp [iterate, hb]
  | succ k ih =>
    intro buf hb
    have h1 := h buf hb
    have h2 := ih (f buf) h1.2
    simp only [iterate]
    refine ⟨?_, h2.2⟩
    rw [h2.1, h1.1, List.replicate_succ, List.flatten_cons, List.append_assoc]

theorem appends_foldl (c : MCfg) (n : Nat) (g : List Byte → Byte → List Byte) (hx : Byte → List Byte)
    (h : ∀ ch, Appends c n (fun bf => g bf ch) (hx ch)) (cs : List Byte) :
    Appends c n (fun bf => cs.foldl g bf) ((cs.map hx).flatten) := by
  induction cs with
  | nil => intro buf hb; simp [hb]
  | cons ch cs ih =>
    intro buf hb
    have h1 := h ch buf hb
    have h2 := ih (g buf ch) h1.2
    simp only [List.foldl_cons]
    refine ⟨?_, h2.2⟩
    rw [h2.1, h1.1, List.map_cons, List.flatten_cons, List.append_assoc]

theorem odd_split (buf : List Byte) (h : buf.length % 2 = 1) :
    ∃ p l, buf = p ++ [l] ∧ p.length % 2 = 0 ∧ buf.getLast? = some l ∧ buf.dropLast = p := by
  have hne : buf ≠ [] := by intro h0; subst h0; simp at h
  refine ⟨buf.dropLast, buf.getLast hne, (List.dropLast_concat_getLast hne).symm, ?_, List.getLast?_eq_some_getLast hne, rfl⟩
  rw [List.length_dropLast]
  have : 0 < buf.length := List.length_pos_iff.mpr hne
  omega

/-- **every integer `Enter*` helper appends the big-endian image** — for any buffer the element size allows -/
theorem enterInt_appends (c : MCfg) (hc : (c.lg = 1 ∧ c.turnWords = false) ∨ (c.lg = 2 ∧ c.turnWords = true))
    (n : Nat) (hn : n = 1 ∨ n = 2 ∨ n = 4 ∨ n = 8) (u : Nat) :
    Appends c n (fun bf => enterInt c.lg n bf u) (encNat n true u) := by
  intro buf hb
  rcases hc with ⟨h1, h2⟩ | ⟨h1, h2⟩
  · -- byte listing: nothing is turned
    have hw : ∀ bs, writeBytes c bs = bs := by
      intro bs; unfold writeBytes; rw [if_neg (by rw [h1]; simp)]
    rw [hw, hw]
    rcases hn with rfl | rfl | rfl | rfl
    · refine ⟨?_, Or.inl rfl⟩
      simp [enterInt, enterByte, h1, encNat, encLE]
    · refine ⟨?_, Or.inr ?_⟩
      · simp [enterInt, enterWord, h1, encNat, encLE]
      · have := hb.resolve_left (by decide)
        simp [enterInt, enterWord, h1]; omega
    · refine ⟨?_, Or.inr ?_⟩
      · simp [enterInt, enterLWord, h1, encNat, encLE]
        (repeat' constructor) <;> apply b_congr <;> omega
      · have := hb.resolve_left (by decide)
        simp [enterInt, enterLWord, h1]; omega
    · refine ⟨?_, Or.inr ?_⟩
      · simp [enterInt, enterQWord, h1, encNat, encLE]
        (repeat' constructor) <;> apply b_congr <;> omega
      · have := hb.resolve_left (by decide)
        simp [enterInt, enterQWord, h1]; omega
  · -- word listing with TurnWords: `DreheCodes`
    have hw : ∀ bs, writeBytes c bs = swapPairs bs := by
      intro bs; unfold writeBytes; rw [if_pos (by rw [h1, h2, hostLE]; simp)]
    rw [hw, hw]
    rcases hn with rfl | rfl | rfl | rfl
    · refine ⟨?_, Or.inl rfl⟩
      by_cases ho : buf.length % 2 = 1
      · obtain ⟨p, l, hbuf, hp, hlast, hdrop⟩ := odd_split buf ho
        simp only [enterInt, enterByte, ho, h1, true_and, hlast, hdrop]
        rw [if_pos (by decide), hbuf, swapPairs_append_even p _ hp, swapPairs_append_even p _ hp]
        simp [swapPairs, encNat, encLE]
      · have he : buf.length % 2 = 0 := by omega
        simp only [enterInt, enterByte, ho, false_and, if_false]
        rw [swapPairs_append_even buf _ he]
        simp [swapPairs, encNat, encLE]
    · have he := hb.resolve_left (by decide)
      refine ⟨?_, Or.inr ?_⟩
      · simp only [enterInt, enterWord, h1, show (2 : Nat) ≠ 1 from by decide, if_false]
        rw [swapPairs_append_even buf _ he]
        simp [swapPairs, storeWord, encNat, encLE]
      · simp [enterInt, enterWord, h1, storeWord]; omega
    · have he := hb.resolve_left (by decide)
      refine ⟨?_, Or.inr ?_⟩
      · simp only [enterInt, enterLWord, h1, show (2 : Nat) ≠ 1 from by decide, if_false, List.append_assoc]
        rw [swapPairs_append_even buf _ he]
        simp [swapPairs, storeWord, encNat, encLE]
        (repeat' constructor) <;> apply b_congr <;> omega
      · simp [enterInt, enterLWord, h1, storeWord]; omega
    · have he := hb.resolve_left (by decide)
      refine ⟨?_, Or.inr ?_⟩
      · simp only [enterInt, enterQWord, h1, show (2 : Nat) ≠ 1 from by decide, if_false, List.append_assoc]
        rw [swapPairs_append_even buf _ he]
        simp [swapPairs, storeWord, encNat, encLE]
        (repeat' constructor) <;> apply b_congr <;> omega
      · simp [enterInt, enterQWord, h1, storeWord]; omega

/-! ## the argument loop -/

/-- model state `m` and its image `a` through `WriteBytes` -/
def RelD (c : MCfg) (n : Nat) (m a : MSt) : Prop :=
  a = { m with buf := writeBytes c m.buf } ∧ EvenOK n m.buf

/-- what `Out` does to the (image of the) state of the argument loop of `DecodeMotoDC`; the first argument decides
whether the pad byte asked for by `PadBeforeStart` is emitted or reserved -/
def applyOutD (a : MSt) : Out → Option MSt
  | .empty => some a
  | .data bs =>
    if a.space = 1 then none
    else some { doPad { a with space := 0 } false with buf := a.buf ++ bs }
  | .space k =>
    if a.space = 0 then none
    else some { doPad a true with space := 1, res := a.res + k }

def optRel (c : MCfg) (n : Nat) : Option MSt → Option MSt → Prop
  | none, none => True
  | some m, some a => RelD c n m a
  | _, _ => False

theorem applyOutD_add (a : MSt) (x y : Out) :
    (Out.add x y).bind (applyOutD a) = (applyOutD a x).bind fun s => applyOutD s y := by
  obtain ⟨buf, res, space, pad, pp, wild⟩ := a
  cases x <;> cases y <;> simp only [Out.add, applyOutD, Option.bind_some, Option.bind_none] <;>
    (by_cases h1 : space = 1 <;> by_cases h0 : space = 0 <;> cases pp <;> simp_all [doPad, List.append_assoc] <;> try omega)

theorem doPad_buf (st : MSt) (r : Bool) : (doPad st r).buf = st.buf := by
  unfold doPad; split <;> rfl

theorem doPad_image (c : MCfg) (m : MSt) (r : Bool) (B : List Byte) :
    { doPad m r with buf := B } = doPad { m with buf := B } r := by
  unfold doPad; split <;> rfl

theorem dc_core (c : MCfg) (hc : (c.lg = 1 ∧ c.turnWords = false) ∨ (c.lg = 2 ∧ c.turnWords = true))
    (n : Nat) (hn : n = 1 ∨ n = 2 ∨ n = 4 ∨ n = 8) (fk : Option FKind) (m a : MSt) (hr : RelD c n m a)
    (rep : Int) (hrep : 0 ≤ rep) (x : Arg) (hok : dcOK1 n x = true) :
    optRel c n (motoDCArg c ⟨n, true, fk⟩ m (.rep rep x))
      (((specArg ⟨n, true, fk⟩ true x).map (Out.times rep)).bind (applyOutD a)) := by
  obtain ⟨ha, hev⟩ := hr
  obtain ⟨buf, res, space, pad, pp, wild⟩ := m
  simp only at hev
  subst ha
  have h8 : 8 * n / 8 = n := by omega
  cases x with
  | rep k y => simp [dcOK1] at hok
  | dup k as => simp [dcOK1] at hok
  | flt y => simp [dcOK1] at hok
  | q =>
    have hk : ((rep.toNat * n : Nat) : Int) = rep * (n : Int) := by
      rw [Int.natCast_mul, Int.toNat_of_nonneg hrep]
    simp only [motoDCArg, cutRep, specArg, Option.map_some, Out.times, Option.bind_some, applyOutD, hk]
    by_cases hs : space = 0
    · simp [hs, optRel]
    · cases pp <;> simp [hs, optRel, RelD, doPad, hev]
  | int v =>
    simp only [dcOK1, decide_eq_true_eq] at hok
    have hrc := rangeCheck_spec n hn v hok
    have happ := appends_iterate c n _ _ (enterInt_appends c hc n hn (largeWord (largeInt v))) rep.toNat buf hev
    rw [int_bytes n hn] at happ
    simp only [motoDCArg, cutRep, hrc, if_true, specArg, specInt, encInt, h8]
    by_cases hs : space = 1
    · cases inRange (8 * n) v <;> simp [hs, optRel, applyOutD, Out.times]
    · cases hi : inRange (8 * n) v
      · simp [hs, optRel]
      · cases pp <;> simp [hs, optRel, RelD, doPad, applyOutD, Out.times, happ.1, happ.2]
  | str cs =>
    have hch : ∀ ch : Byte, Appends c n (fun bf => enterInt c.lg n bf ch.toNat) (encNat n true ch.toNat) :=
      fun ch => enterInt_appends c hc n hn ch.toNat
    have hf := appends_foldl c n (fun bf ch => enterInt c.lg n bf ch.toNat) (fun ch => encNat n true ch.toNat) hch cs
    have happ := appends_iterate c n _ _ hf rep.toNat buf hev
    simp only [motoDCArg, cutRep, if_true, specArg, specChars_eq n hn fk true cs, Option.map_some, Out.times, Option.bind_some,
      applyOutD, charBytes]
    by_cases hs : space = 1
    · simp [hs, optRel]
    · cases pp <;> simp [hs, optRel, RelD, doPad, happ.1, happ.2]

theorem dc_arg (c : MCfg) (hc : (c.lg = 1 ∧ c.turnWords = false) ∨ (c.lg = 2 ∧ c.turnWords = true))
    (n : Nat) (hn : n = 1 ∨ n = 2 ∨ n = 4 ∨ n = 8) (fk : Option FKind) (m a : MSt) (hr : RelD c n m a)
    (x : Arg) (hok : dcOK n x = true) :
    optRel c n (motoDCArg c ⟨n, true, fk⟩ m x) ((specArg ⟨n, true, fk⟩ true x).bind (applyOutD a)) := by
  have times1 : ∀ o : Option Out, o.map (Out.times 1) = o := by
    intro o
    cases o with
    | none => rfl
    | some o => cases o <;> simp [Out.times]
  cases x with
  | rep k y =>
    simp only [dcOK, Bool.and_eq_true, decide_eq_true_eq] at hok
    have := dc_core c hc n hn fk m a hr k hok.1 y hok.2
    rw [specArg]
    exact this
  | int v =>
    have := dc_core c hc n hn fk m a hr 1 (by decide) (.int v) hok
    rw [times1] at this
    have h1 : motoDCArg c ⟨n, true, fk⟩ m (.rep 1 (.int v)) = motoDCArg c ⟨n, true, fk⟩ m (.int v) := by
      simp only [motoDCArg, cutRep]
    rw [← h1]; exact this
  | str cs =>
    have := dc_core c hc n hn fk m a hr 1 (by decide) (.str cs) hok
    rw [times1] at this
    have h1 : motoDCArg c ⟨n, true, fk⟩ m (.rep 1 (.str cs)) = motoDCArg c ⟨n, true, fk⟩ m (.str cs) := by
      simp only [motoDCArg, cutRep]
    rw [← h1]; exact this
  | q =>
    have := dc_core c hc n hn fk m a hr 1 (by decide) .q hok
    rw [times1] at this
    have h1 : motoDCArg c ⟨n, true, fk⟩ m (.rep 1 .q) = motoDCArg c ⟨n, true, fk⟩ m .q := by
      simp only [motoDCArg, cutRep]
    rw [← h1]; exact this
  | flt y => simp [dcOK, dcOK1] at hok
  | dup k as => simp [dcOK, dcOK1] at hok

theorem dc_args (c : MCfg) (hc : (c.lg = 1 ∧ c.turnWords = false) ∨ (c.lg = 2 ∧ c.turnWords = true))
    (n : Nat) (hn : n = 1 ∨ n = 2 ∨ n = 4 ∨ n = 8) (fk : Option FKind) :
    (as : Args) → (m a : MSt) → RelD c n m a → dcOKs n as = true →
      optRel c n (motoDCArgs c ⟨n, true, fk⟩ as m) ((specArgs ⟨n, true, fk⟩ true as).bind (applyOutD a))
  | .nil, m, a, hr, _ => by
    simp only [motoDCArgs, specArgs, Option.bind_some, applyOutD, optRel]
    exact hr
  | .cons x as, m, a, hr, hok => by
    simp only [dcOKs, Bool.and_eq_true] at hok
    have hx := dc_arg c hc n hn fk m a hr x hok.1
    simp only [motoDCArgs, specArgs]
    cases hm : motoDCArg c ⟨n, true, fk⟩ m x with
    | none =>
      rw [hm] at hx
      cases hsx : specArg ⟨n, true, fk⟩ true x with
      | none => simp [optRel]
      | some ox =>
        rw [hsx] at hx
        simp only [Option.bind_some] at hx
        cases hax : applyOutD a ox with
        | some s => rw [hax] at hx; exact absurd hx (by simp [optRel])
        | none =>
          cases hy : specArgs ⟨n, true, fk⟩ true as with
          | none => simp [optRel]
          | some oy =>
            have := applyOutD_add a ox oy
            rw [hax] at this
            simp only [Option.bind_none] at this
            simp only [this, optRel]
    | some m' =>
      rw [hm] at hx
      cases hsx : specArg ⟨n, true, fk⟩ true x with
      | none => rw [hsx] at hx; exact absurd hx (by simp [optRel])
      | some ox =>
        rw [hsx] at hx
        simp only [Option.bind_some] at hx
        cases hax : applyOutD a ox with
        | none => rw [hax] at hx; exact absurd hx (by simp [optRel])
        | some a' =>
          rw [hax] at hx
          have ih := dc_args c hc n hn fk as m' a' hx hok.2
          cases hy : specArgs ⟨n, true, fk⟩ true as with
          | none => rw [hy] at ih; simpa using ih
          | some oy =>
            rw [hy] at ih
            have := applyOutD_add a ox oy
            rw [hax] at this
            simp only [Option.bind_some] at this ih ⊢
            rw [this]
            exact ih

/-- the pad byte `PadBeforeStart` asks for: emitted (`some false`) in front of constants, reserved (`some true`) in front
of a reservation -/
def padOfD (p : Bool) : Out → Option Bool
  | .empty => none
  | .data _ => if p then some false else none
  | .space _ => if p then some true else none

/-- **DC.B/W/L/Q: the whole statement** -/
theorem dc_stmt (c : MCfg) (hc : (c.lg = 1 ∧ c.turnWords = false) ∨ (c.lg = 2 ∧ c.turnWords = true))
    (n : Nat) (hn : n = 1 ∨ n = 2 ∨ n = 4 ∨ n = 8) (fk : Option FKind) (pc : Nat) (as : Args) (hok : dcOKs n as = true) :
    decodeMotoDC c pc ⟨n, true, fk⟩ as =
      (specArgs ⟨n, true, fk⟩ true as).map fun o =>
        ⟨padOfD (pc % 2 == 1 && c.padding && decide (n ≠ 1)) o, Out.norm o, []⟩ := by
  unfold decodeMotoDC
  simp only
  generalize (pc % 2 == 1 && c.padding && decide (n ≠ 1)) = p
  have hw0 : writeBytes c [] = [] := by unfold writeBytes; split <;> rfl
  have hr0 : RelD c n { padPending := p } { padPending := p } := by
    refine ⟨?_, Or.inr rfl⟩
    simp only [hw0]
  have h := dc_args c hc n hn fk as _ _ hr0 hok
  cases hs : specArgs ⟨n, true, fk⟩ true as with
  | none =>
    rw [hs] at h
    cases hm : motoDCArgs c ⟨n, true, fk⟩ as { padPending := p } with
    | none => rfl
    | some m' => rw [hm] at h; exact absurd h (by simp [optRel])
  | some o =>
    rw [hs] at h
    simp only [Option.bind_some] at h
    cases hm : motoDCArgs c ⟨n, true, fk⟩ as { padPending := p } with
    | none =>
      rw [hm] at h
      cases o <;> simp [applyOutD, optRel] at h
    | some m' =>
      rw [hm] at h
      simp only [Option.map_some]
      cases o with
      | empty =>
        simp only [applyOutD, optRel, RelD] at h
        obtain ⟨buf, res, space, pad, pp, wild⟩ := m'
        simp only [MSt.mk.injEq] at h
        obtain ⟨⟨hb, rfl, rfl, rfl, rfl, rfl⟩, _⟩ := h
        simp [mkOut, ← hb, padOfD, Out.norm]
      | data bs =>
        simp only [applyOutD, optRel, RelD] at h
        obtain ⟨buf, res, space, pad, pp, wild⟩ := m'
        cases p <;> simp [doPad] at h <;> obtain ⟨⟨hb, rfl, rfl, rfl, rfl, rfl⟩, _⟩ := h <;>
          cases bs <;> simp [mkOut, ← hb, padOfD, Out.norm]
      | space k =>
        simp only [applyOutD, optRel, RelD] at h
        obtain ⟨buf, res, space, pad, pp, wild⟩ := m'
        cases p <;> simp [doPad] at h <;> obtain ⟨⟨hb, rfl, rfl, rfl, rfl, rfl⟩, _⟩ := h <;>
          cases k <;> simp [mkOut, padOfD, Out.norm]

end AslModel.DataLemmas
