import AslModel.Model.Pass
/-! Helper lemmas for the multipass model. -/
namespace AslModel.Pass

theorem run_append (s : PS) (a b : List Stmt) : run s (a ++ b) = run (run s a) b := by
  simp [run, List.foldl_append]

theorem step_repass_mono (s : PS) (st : Stmt) (h : s.repass = true) : (step s st).repass = true := by
  cases st with
  | label n => simp [step, h]
  | ref n size sizeU => simp only [step]; split <;> simp [h]
  | skip k => simp [step, h]
  | align2 => simp [step, h]
  | padLabel n c => simp [step, h]

theorem run_repass_mono (p : List Stmt) (s : PS) (h : s.repass = true) : (run s p).repass = true := by
  induction p generalizing s with
  | nil => simpa [run]
  | cons st p ih => exact ih _ (step_repass_mono s st h)

theorem step_out_prefix (s : PS) (st : Stmt) : ∃ ext, (step s st).out = s.out ++ ext := by
  cases st with
  | label n => exact ⟨[], by simp [step]⟩
  | ref n size sizeU => simp only [step]; split <;> exact ⟨_, rfl⟩
  | skip k => exact ⟨[], by simp [step]⟩
  | align2 => exact ⟨[], by simp [step]⟩
  | padLabel n c => exact ⟨[], by simp [step]⟩

theorem run_out_prefix (p : List Stmt) (s : PS) : ∃ ext, (run s p).out = s.out ++ ext := by
  induction p generalizing s with
  | nil => exact ⟨[], by simp [run]⟩
  | cons st p ih =>
    obtain ⟨e1, h1⟩ := step_out_prefix s st
    obtain ⟨e2, h2⟩ := ih (step s st)
    exact ⟨e1 ++ e2, by show (run (step s st) p).out = _; rw [h2, h1, List.append_assoc]⟩

/-- A: while no repass has been requested, every recorded reference agrees with the table -/
def Agree (s : PS) : Prop := s.repass = false → ∀ a n v, (a, n, v) ∈ s.out → s.tab n = some v

/-- no label of the statement is patched *after* its comparison (`padLabel _ true`) -/
def CleanStmt : Stmt → Prop
  | .padLabel _ true => False
  | _ => True

def Clean (p : List Stmt) : Prop := ∀ st ∈ p, CleanStmt st

theorem step_agree (s : PS) (st : Stmt) (hc : CleanStmt st) (h : Agree s) : Agree (step s st) := by
  intro hr a n v hm
  have hs : s.repass = false := by
    cases hsr : s.repass with
    | false => rfl
    | true => have := step_repass_mono s st hsr; rw [this] at hr; cases hr
  cases st with
  | skip k => exact h hs a n v (by simpa [step] using hm)
  | align2 => exact h hs a n v (by simpa [step] using hm)
  | padLabel m c =>
    cases c with
    | true => exact absurd hc (by simp [CleanStmt])
    | false =>
      simp only [step] at hr hm ⊢
      have hold := h hs a n v hm
      by_cases hnm : n = m
      · subst hnm
        rw [hold] at hr
        simp [hs] at hr
        simp [upd, hr]
      · simp [upd, hnm, hold]
  | label m =>
    simp only [step] at hr hm ⊢
    have hold := h hs a n v hm
    by_cases hnm : n = m
    · subst hnm
      rw [hold] at hr
      simp [hs] at hr
      simp [upd, hold, hr]
    · simp [upd, hnm, hold]
  | ref m size sizeU =>
    simp only [step] at hr hm ⊢
    split at hr <;> rename_i htab
    · split at hm <;> rename_i htab'
      · rw [htab] at htab'; cases htab'
        simp only [List.mem_append, List.mem_singleton, Prod.mk.injEq] at hm
        rcases hm with hm | ⟨_, rfl, rfl⟩
        · simp [htab]; exact h hs a n v hm
        · simp [htab]
      · rw [htab] at htab'; cases htab'
    · cases hr

theorem run_agree (p : List Stmt) (s : PS) (hc : Clean p) (h : Agree s) : Agree (run s p) := by
  induction p generalizing s with
  | nil => simpa [run]
  | cons st p ih =>
    exact ih _ (fun x hx => hc x (by simp [hx])) (step_agree s st (hc st (by simp)) h)

def labels : List Stmt → List Sym
  | [] => []
  | .label n :: p => n :: labels p
  | .padLabel n _ :: p => n :: labels p
  | _ :: p => labels p

theorem step_tab_other (s : PS) (st : Stmt) (n : Sym) (h : ∀ m, st = .label m → m ≠ n)
    (h2 : ∀ m c, st = .padLabel m c → m ≠ n) :
    (step s st).tab n = s.tab n := by
  cases st with
  | label m => have := h m rfl; simp [step, upd, Ne.symm this]
  | ref m size sizeU => simp only [step]; split <;> rfl
  | skip k => rfl
  | align2 => rfl
  | padLabel m c => have := h2 m c rfl; simp [step, upd, Ne.symm this]

theorem run_tab_other (p : List Stmt) (s : PS) (n : Sym) (h : n ∉ labels p) :
    (run s p).tab n = s.tab n := by
  induction p generalizing s with
  | nil => rfl
  | cons st p ih =>
    show (run (step s st) p).tab n = s.tab n
    cases st with
    | label m =>
      simp only [labels, List.mem_cons, not_or] at h
      rw [ih _ h.2]; exact step_tab_other s _ n (by intro m' hm'; cases hm'; exact Ne.symm h.1) (by intro m' c hm'; cases hm')
    | padLabel m c =>
      simp only [labels, List.mem_cons, not_or] at h
      rw [ih _ h.2]; exact step_tab_other s _ n (by intro m' hm'; cases hm') (by intro m' c' hm'; cases hm'; exact Ne.symm h.1)
    | ref m size sizeU => rw [ih _ (by simpa [labels] using h)]; exact step_tab_other s _ n (by intro m' hm'; cases hm') (by intro m' c hm'; cases hm')
    | skip k => rw [ih _ (by simpa [labels] using h)]; rfl
    | align2 => rw [ih _ (by simpa [labels] using h)]; rfl

theorem upd_same (t : Tab) (n : Sym) (v : Int) (h : t n = some v) : upd t n v = t := by
  funext m; simp only [upd]; split
  · rename_i hm; rw [hm, h]
  · rfl

/-- lockstep relation between the converged pass (from T) and the extra pass (from T') -/
structure R (T' : Tab) (s s' : PS) : Prop where
  pc : s'.pc = s.pc
  out : s'.out = s.out
  tab : s'.tab = T'
  rep : s'.repass = false
  agree : Agree s

theorem lockstep (T' : Tab) (post : List Stmt) : ∀ (s s' : PS), R T' s s' → Clean post →
    (run s post).repass = false → (run s post).tab = T' → (labels post).Nodup →
    R T' (run s post) (run s' post) := by
  induction post with
  | nil => intro s s' h _ _ _ _; simpa [run] using h
  | cons st rest ih =>
    intro s s' h hcl hfin htab hnd
    have hcs : CleanStmt st := hcl st (by simp)
    have hcr : Clean rest := fun x hx => hcl x (by simp [hx])
    have hs : s.repass = false := by
      cases hsr : s.repass with
      | false => rfl
      | true => have := run_repass_mono (st :: rest) s hsr; rw [this] at hfin; cases hfin
    have hfin' : (run (step s st) rest).repass = false := hfin
    have htab' : (run (step s st) rest).tab = T' := htab
    have hAg : Agree (run (step s st) rest) := run_agree rest _ hcr (step_agree s st hcs h.agree)
    show R T' (run (step s st) rest) (run (step s' st) rest)
    cases st with
    | skip k =>
      exact ih _ _ ⟨by simp [step, h.pc], by simp [step, h.out], by simp [step, h.tab], by simp [step, h.rep],
        step_agree s _ hcs h.agree⟩ hcr hfin' htab' (by simpa [labels] using hnd)
    | align2 =>
      exact ih _ _ ⟨by simp [step, h.pc], by simp [step, h.out], by simp [step, h.tab], by simp [step, h.rep],
        step_agree s _ hcs h.agree⟩ hcr hfin' htab' (by simpa [labels] using hnd)
    | padLabel n c =>
      cases c with
      | true => exact absurd hcs (by simp [CleanStmt])
      | false =>
        simp only [labels, List.nodup_cons] at hnd
        have hT : T' n = some ((s.pc + s.pc % 2 : Nat) : Int) := by
          rw [← htab', run_tab_other rest _ n hnd.1]; simp [step, upd]
        refine ih _ _ ⟨by simp [step, h.pc], by simp [step, h.out], ?_, ?_, step_agree s _ hcs h.agree⟩ hcr hfin' htab' hnd.2
        · simp only [step, h.tab, h.pc]; exact upd_same T' n _ hT
        · simp [step, h.tab, h.pc, hT, h.rep]
    | label n =>
      simp only [labels, List.nodup_cons] at hnd
      -- the value defined here is the final one
      have hT : T' n = some (s.pc : Int) := by
        rw [← htab', run_tab_other rest _ n hnd.1]; simp [step, upd]
      refine ih _ _ ⟨by simp [step, h.pc], by simp [step, h.out], ?_, ?_, step_agree s _ hcs h.agree⟩ hcr hfin' htab' hnd.2
      · simp only [step, h.tab, h.pc]; exact upd_same T' n _ hT
      · simp [step, h.tab, h.pc, hT, h.rep]
    | ref n size sizeU =>
      -- pass 1 found the symbol (else Repass would be set), and read its final value
      cases hrd : s.tab n with
      | none =>
        have : (step s (.ref n size sizeU)).repass = true := by simp [step, hrd]
        have := run_repass_mono rest _ this; rw [this] at hfin'; cases hfin'
      | some v =>
        have hstep : step s (.ref n size sizeU) = { s with pc := s.pc + size v, out := s.out ++ [(s.pc, n, v)] } := by
          simp [step, hrd]
        obtain ⟨ext, hext⟩ := run_out_prefix rest (step s (.ref n size sizeU))
        have hmem : (s.pc, n, v) ∈ (run (step s (.ref n size sizeU)) rest).out := by
          rw [hext, hstep]; simp
        have hT : T' n = some v := by rw [← htab']; exact hAg hfin' _ _ _ hmem
        have hstep' : step s' (.ref n size sizeU) = { s' with pc := s'.pc + size v, out := s'.out ++ [(s'.pc, n, v)] } := by
          simp [step, h.tab, hT]
        rw [hstep'] 
        refine ih _ _ ⟨?_, ?_, ?_, ?_, step_agree s _ hcs h.agree⟩ hcr hfin' htab' (by simpa [labels] using hnd)
        · rw [hstep]; simp [h.pc]
        · rw [hstep]; simp [h.out, h.pc]
        · simp [h.tab]
        · simp [h.rep]


end AslModel.Pass
