import AslModel.Lemmas.Pass2Term
/-! Concrete program families for C01 (forward `EQU` chains, the oscillating program), the loop-exit lemma and the
simulation of `Model/Pass.lean` by `Model/Pass2.lean`. -/
namespace AslModel.Pass2
open AslModel.Pass (Sym Tab upd emptyTab)
open AslModel.Spec.Pass2 (value known stmtKnown defAfter firstPassDefs backward accepted noForward)

/-- the pass loop only returns the state of a pass that ended with an error or without Repass -/
theorem assemble2_some (p : List Stmt) (fuel : Nat) (T : Tab) (k n : Nat) (s : PS)
    (h : assemble p fuel T k = some (n, s)) :
    ∃ T', s = pass (isFirst (n - 1)) T' p ∧ (s.err = true ∨ s.repass = false) ∧ k < n := by
  induction fuel generalizing T k with
  | zero => simp [assemble] at h
  | succ f ih =>
    simp only [assemble] at h
    split at h
    · rename_i herr
      simp only [Option.some.injEq, Prod.mk.injEq] at h
      obtain ⟨rfl, rfl⟩ := h
      exact ⟨T, by simp, Or.inl herr, by omega⟩
    · split at h
      · obtain ⟨T', h1, h2, h3⟩ := ih _ _ h
        exact ⟨T', h1, h2, by omega⟩
      · rename_i hr
        simp only [Option.some.injEq, Prod.mk.injEq] at h
        obtain ⟨rfl, rfl⟩ := h
        exact ⟨T, by simp, Or.inr (by simpa using hr), by omega⟩

/-- a first pass that requests no further pass met no unknown symbol: the program has no forward reference -/
theorem run_true_norepass (q : List Stmt) : ∀ (s : PS) (D : List Sym), DomIs s.tab D →
    (run true s q).repass = false → backward D q = true := by
  induction q with
  | nil => intro _ _ _ _; rfl
  | cons st rest ih =>
    intro s D hD hrr
    have hrr' : (run true (step true s st) rest).repass = false := hrr
    have hs := repass_false_of_run true rest _ hrr'
    simp only [backward, Bool.and_eq_true]
    cases st with
    | skip k => exact ⟨rfl, ih _ D (by simpa [step] using hD) hrr'⟩
    | label n => exact ⟨rfl, ih _ (n :: D) (by simpa [step] using domIs_upd _ _ n _ hD) hrr'⟩
    | ref e size sizeU =>
      obtain ⟨v, hev⟩ := eval_true_flag s.tab D hD s.pc e
      cases hk : known D e with
      | false => rw [hk] at hev; simp [step, hev] at hs
      | true =>
        rw [hk] at hev
        refine ⟨hk, ih _ D ?_ hrr'⟩
        rw [step_ref_done true s e size sizeU v (by simpa using hev)]; simpa [refDone] using hD
    | equ n e =>
      obtain ⟨v, hev⟩ := eval_true_flag s.tab D hD s.pc e
      cases hk : known D e with
      | false => rw [hk] at hev; simp [step, hev] at hs
      | true =>
        rw [hk] at hev
        refine ⟨hk, ih _ (n :: D) ?_ hrr'⟩
        rw [step_equ_entered true s n e v (by simpa using hev)]
        simpa [equEntered] using domIs_upd _ _ n v hD

/-- the first pass requests another one exactly when the program has a forward reference -/
theorem first_pass_repass (p : List Stmt) (hnd : (defs p).Nodup) :
    (pass true emptyTab p).repass = !noForward p := by
  cases hb : noForward p with
  | true =>
    have := run_backward true p { tab := emptyTab } [] domIs_empty (by simp) hnd hb rfl rfl
    simpa [pass] using this.1
  | false =>
    cases hr : (pass true emptyTab p).repass with
    | true => rfl
    | false =>
      have := run_true_norepass p { tab := emptyTab } [] domIs_empty hr
      simp [noForward, this] at hb

/-! ## the forward chain `s0 equ s1 / s1 equ s2 / … / sn equ 5` -/

def links : Nat → Nat → List Stmt
  | i, 0 => [.equ i (.const 5)]
  | i, k + 1 => .equ i (.sym (i + 1)) :: links (i + 1) k

/-- `n` forward links followed by the constant -/
def chain (n : Nat) : List Stmt := links 0 n

theorem links_constSizes (i k : Nat) : ConstSizes (links i k) := by
  induction k generalizing i with
  | zero => intro st hst; simp [links] at hst; subst hst; trivial
  | succ k ih =>
    intro st hst
    simp only [links, List.mem_cons] at hst
    rcases hst with rfl | hst
    · trivial
    · exact ih (i + 1) st hst

theorem links_defs_ge (i k : Nat) : ∀ m : Nat, m ∈ defs (links i k) → i ≤ m := by
  induction k generalizing i with
  | zero => intro m hm; simp [links, defs] at hm; subst hm; exact Nat.le_refl _
  | succ k ih =>
    intro m hm
    simp only [links, defs, List.mem_cons] at hm
    rcases hm with rfl | hm
    · omega
    · have := ih (i + 1) m hm; omega

theorem links_nodup (i k : Nat) : (defs (links i k)).Nodup := by
  induction k generalizing i with
  | zero => simp [links, defs]
  | succ k ih =>
    simp only [links, defs, List.nodup_cons]
    exact ⟨fun hm => by have := links_defs_ge (i + 1) k i hm; omega, ih (i + 1)⟩

theorem links_firstPassDefs (i k : Nat) (D : List Sym) (hD : ∀ m : Nat, m ∈ D → m ≤ i) :
    firstPassDefs D (links i k) = (i + k) :: D := by
  induction k generalizing i with
  | zero => simp [links, firstPassDefs, known]
  | succ k ih =>
    have hn : D.contains (i + 1) = false := by
      cases hc : D.contains (i + 1) with
      | false => rfl
      | true => have h' : i + 1 ≤ i := hD _ (by simpa using hc); omega
    simp only [links, firstPassDefs, known, hn, Bool.false_eq_true, if_false]
    rw [ih (i + 1) (fun m hm => Nat.le_succ_of_le (hD m hm))]
    congr 1; omega

theorem chain_accepted (n : Nat) : accepted (chain n) = decide (n ≤ 1) := by
  simp only [accepted, chain]
  rw [links_firstPassDefs 0 n [] (by simp)]
  match n with
  | 0 => simp [links, backward, stmtKnown, known]
  | 1 => simp [links, backward, stmtKnown, known]
  | k + 2 => simp [links, backward, stmtKnown, known]

theorem chain_noForward (n : Nat) : noForward (chain n) = decide (n = 0) := by
  match n with
  | 0 => simp [noForward, chain, links, backward, stmtKnown, known]
  | k + 1 => simp [noForward, chain, links, backward, stmtKnown, known]

/-- the same symbols, every link written *after* the link it depends on: `s(n-1) equ sn / … / s0 equ s1 / sn equ 5` -/
def down : Nat → List Stmt
  | 0 => []
  | k + 1 => .equ k (.sym (k + 1)) :: down k

def stair (n : Nat) : List Stmt := down n ++ [.equ n (.const 5)]

theorem defs_append (a b : List Stmt) : defs (a ++ b) = defs a ++ defs b := by
  induction a with
  | nil => rfl
  | cons st a ih => cases st <;> simp [defs, ih]

theorem down_defs_lt (k : Nat) : ∀ m : Nat, m ∈ defs (down k) → m < k := by
  induction k with
  | zero => intro m hm; simp [down, defs] at hm
  | succ k ih =>
    intro m hm
    simp only [down, defs, List.mem_cons] at hm
    rcases hm with rfl | hm
    · exact Nat.lt_succ_self _
    · exact Nat.lt_succ_of_lt (ih m hm)

theorem down_nodup (k : Nat) : (defs (down k)).Nodup := by
  induction k with
  | zero => simp [down, defs]
  | succ k ih =>
    simp only [down, defs, List.nodup_cons]
    exact ⟨fun hm => absurd (down_defs_lt k k hm) (Nat.lt_irrefl _), ih⟩

theorem stair_nodup (n : Nat) : (defs (stair n)).Nodup := by
  simp only [stair, defs_append, defs]
  rw [List.nodup_append]
  refine ⟨down_nodup n, by simp, ?_⟩
  intro a ha b hb
  simp at hb
  rw [hb]
  exact Nat.ne_of_lt (down_defs_lt n a ha)

theorem stair_constSizes (n : Nat) : ConstSizes (stair n) := by
  intro st hst
  simp only [stair, List.mem_append, List.mem_singleton] at hst
  rcases hst with hst | rfl
  · have : ∀ k, ∀ st ∈ down k, ConstSize st := by
      intro k
      induction k with
      | zero => intro st h; simp [down] at h
      | succ k ih =>
        intro st h
        simp only [down, List.mem_cons] at h
        rcases h with rfl | h
        · trivial
        · exact ih st h
    exact this n st hst
  · trivial

theorem down_firstPassDefs (k : Nat) (rest : List Stmt) (D : List Sym) (hD : ∀ m : Nat, m ∈ D → m = 0 ∨ k < m) :
    firstPassDefs D (down k ++ rest) = firstPassDefs D rest := by
  induction k with
  | zero => rfl
  | succ k ih =>
    have hn : D.contains (k + 1) = false := by
      cases hc : D.contains (k + 1) with
      | false => rfl
      | true => have h' : k + 1 = 0 ∨ k + 1 < k + 1 := hD _ (by simpa using hc); omega
    simp only [down, List.cons_append, firstPassDefs, known, hn, Bool.false_eq_true, if_false]
    exact ih (fun m hm => (hD m hm).imp id (fun h => Nat.lt_of_succ_lt h))

theorem down_backward (k : Nat) (rest : List Stmt) (hrest : ∀ D, backward D rest = true) :
    ∀ D : List Sym, (k = 0 ∨ k ∈ D) → backward D (down k ++ rest) = true := by
  induction k with
  | zero => intro D _; exact hrest D
  | succ k ih =>
    intro D hk
    have hin : D.contains (k + 1) = true := by
      rcases hk with h | h
      · omega
      · simpa using h
    simp only [down, List.cons_append, backward, stmtKnown, known, hin, Bool.true_and, defAfter]
    exact ih (k :: D) (Or.inr (by simp))

/-- 6502 `lda <expr>`: zero-page form (2 bytes) when the operand value is in 0..255, absolute form (3 bytes) otherwise -/
def zpSize (v : Int) : Nat := if 0 ≤ v ∧ v < 256 then 2 else 3

/-- `cpu 6502` / `lda 258-lab` / `lab:` -/
def oscProg : List Stmt := [.ref (.sub (.const 258) (.sym 1)) zpSize none, .label 1]

theorem osc_pass (T : Tab) (h : T 1 = some 2 ∨ T 1 = some 3) :
    (pass false T oscProg).repass = true ∧ (pass false T oscProg).err = false ∧
    ((pass false T oscProg).tab 1 = some 2 ∨ (pass false T oscProg).tab 1 = some 3) := by
  rcases h with h | h <;> simp [pass, run, step, oscProg, eval, h, zpSize, upd, mismatch]

theorem osc_loop (fuel : Nat) (T : Tab) (k : Nat) (h : T 1 = some 2 ∨ T 1 = some 3) :
    assemble oscProg fuel T (k + 1) = none := by
  induction fuel generalizing T k with
  | zero => rfl
  | succ f ih =>
    have hp := osc_pass T h
    simp only [assemble, isFirst_succ, hp.1, hp.2.1, Bool.false_eq_true, if_false, if_true]
    exact ih _ _ hp.2.2

/-- translation of the label/reference/filler fragment of `Model/Pass.lean` -/
def liftStmt : AslModel.Pass.Stmt → Option Stmt
  | .label n => some (.label n)
  | .ref n size sizeU => some (.ref (.sym n) size sizeU)
  | .skip k => some (.skip k)
  | _ => none

def liftProg : List AslModel.Pass.Stmt → Option (List Stmt)
  | [] => some []
  | st :: p =>
    match liftStmt st, liftProg p with
    | some a, some q => some (a :: q)
    | _, _ => none

structure Sim (s : AslModel.Pass.PS) (s' : PS) : Prop where
  pc : s'.pc = s.pc
  tab : s'.tab = s.tab
  rep : s'.repass = s.repass
  err : s'.err = false
  out : s'.out = s.out.map fun x => (x.1, Expr.sym x.2.1, x.2.2)

theorem sim_run (p : List AslModel.Pass.Stmt) : ∀ (q : List Stmt) (s : AslModel.Pass.PS) (s' : PS),
    liftProg p = some q → Sim s s' → Sim (AslModel.Pass.run s p) (run true s' q) := by
  induction p with
  | nil =>
    intro q s s' hq h
    simp only [liftProg, Option.some.injEq] at hq
    subst hq
    simpa [AslModel.Pass.run, run] using h
  | cons st rest ih =>
    intro q s s' hq h
    simp only [liftProg] at hq
    cases hst : liftStmt st with
    | none => simp [hst] at hq
    | some a =>
      cases hrest : liftProg rest with
      | none => simp [hst, hrest] at hq
      | some q' =>
        simp only [hst, hrest, Option.some.injEq] at hq
        subst hq
        show Sim (AslModel.Pass.run (AslModel.Pass.step s st) rest) (run true (step true s' a) q')
        refine ih q' _ _ hrest ?_
        cases st with
        | align2 => simp [liftStmt] at hst
        | padLabel n c => simp [liftStmt] at hst
        | skip k =>
          simp only [liftStmt, Option.some.injEq] at hst
          subst hst
          exact ⟨by simp [step, AslModel.Pass.step, h.pc], by simp [step, AslModel.Pass.step, h.tab],
            by simp [step, AslModel.Pass.step, h.rep], by simp [step, h.err], by simp [step, AslModel.Pass.step, h.out]⟩
        | label n =>
          simp only [liftStmt, Option.some.injEq] at hst
          subst hst
          refine ⟨by simp [step, AslModel.Pass.step, h.pc], by simp [step, AslModel.Pass.step, h.tab, h.pc], ?_,
            by simp [step, h.err], by simp [step, AslModel.Pass.step, h.out]⟩
          simp only [step, AslModel.Pass.step, h.tab, h.pc, h.rep, mismatch]
          rfl
        | ref n size sizeU =>
          simp only [liftStmt, Option.some.injEq] at hst
          subst hst
          cases hT : s.tab n with
          | some v =>
            have hev : eval true s'.tab s'.pc (.sym n) = some (v, false) := by simp [eval, h.tab, hT]
            rw [step_ref_done true s' _ size sizeU v hev]
            exact ⟨by simp [refDone, AslModel.Pass.step, hT, h.pc], by simp [refDone, AslModel.Pass.step, hT, h.tab],
              by simp [refDone, AslModel.Pass.step, hT, h.rep], by simp [refDone, h.err],
              by simp [refDone, AslModel.Pass.step, hT, h.out, h.pc]⟩
          | none =>
            have hev : eval true s'.tab s'.pc (.sym n) = some ((s'.pc : Int), true) := by simp [eval, h.tab, hT]
            rw [step_ref_unknown true s' _ size sizeU _ hev]
            exact ⟨by simp [refUnknown, AslModel.Pass.step, hT, h.pc], by simp [refUnknown, AslModel.Pass.step, hT, h.tab],
              by simp [refUnknown, AslModel.Pass.step, hT], by simp [refUnknown, h.err],
              by simp [refUnknown, AslModel.Pass.step, hT, h.out, h.pc]⟩

end AslModel.Pass2
