import AslModel.Lemmas.Expr
/-!
# Lemmas for C08: the recursion of `EvalStrExpression` on the tokens of a rendered formula
-/
namespace AslModel.Expr
open AslModel.Formula AslModel.Generated

/-- facts about `Operators[]` rows the evaluation needs (decided over the generated table) -/
structure RowsOK : Prop where
  binDy : ∀ o ∈ BinOp.all, (rowOf (idxB o)).dyadic = true
  unDy : ∀ u ∈ UnOp.all,
    (if (rowOf (idxU u)).id == ['-'] then minusMonadic.dyadic else (rowOf (idxU u)).dyadic) = false

theorem toks_length_pos (f : Formula) : 0 < (toks f).length := by
  cases f <;> simp [toks] <;> omega

theorem wrapT_length_pos (b : Bool) (f : Formula) : 0 < (wrapT b (toks f)).length := by
  have := toks_length_pos f
  rw [length_wrapT]; omega

theorem upName_fn (f : Fn) : upName f.name = f.name := by cases f <;> decide

/-! ## `splitComma` on rendered arguments -/

/-- scanning for the argument separator passes over `t` at every nesting depth ≥ `lo` -/
def SplitsThrough (lo : Int) (t : List Tok) : Prop :=
  ∀ (d : Int) (tail : List Tok), lo ≤ d →
    splitComma (t ++ tail) d = (t ++ (splitComma tail d).1, (splitComma tail d).2)

theorem SplitsThrough.mono {t : List Tok} (h : SplitsThrough 0 t) : SplitsThrough 1 t :=
  fun d tail hd => h d tail (by omega)

theorem SplitsThrough.append {lo : Int} {a b : List Tok} (ha : SplitsThrough lo a) (hb : SplitsThrough lo b) :
    SplitsThrough lo (a ++ b) := by
  intro d tail hd
  rw [List.append_assoc, ha d _ hd, hb d _ hd]
  simp

theorem splitsThrough_comma : SplitsThrough 1 [.comma] := by
  intro d tail hd
  have : d ≠ 0 := by omega
  simp [splitComma, this]

theorem splitsThrough_name (lo : Int) (n : List Char) : SplitsThrough lo [.name n] := by
  intro d tail _; simp [splitComma]

theorem splitsThrough_atom (lo : Int) (v : Val) : SplitsThrough lo [.atom v] := by
  intro d tail _; simp [splitComma]

theorem splitsThrough_op (lo : Int) (c : List Nat) : SplitsThrough lo [.op c] := by
  intro d tail _; simp [splitComma]

theorem splitsThrough_bracket {t : List Tok} (h : SplitsThrough 1 t) :
    SplitsThrough 0 ([.lp] ++ t ++ [.rp]) := by
  intro d tail hd
  have e : [Tok.lp] ++ t ++ [Tok.rp] ++ tail = Tok.lp :: (t ++ (Tok.rp :: tail)) := by simp
  rw [e, splitComma, h (d + 1) _ (by omega), splitComma]
  have : d + 1 - 1 = d := by omega
  simp [this]

theorem splitsThrough_wrap {t : List Tok} (h : SplitsThrough 0 t) (b : Bool) : SplitsThrough 0 (wrapT b t) := by
  cases b with
  | false => simpa [wrapT] using h
  | true => simpa [wrapT] using splitsThrough_bracket h.mono

theorem splitsThrough_toks (f : Formula) : SplitsThrough 0 (toks f) := by
  induction f with
  | lit v => exact splitsThrough_atom 0 v
  | sc dq items => exact splitsThrough_atom 0 _
  | un u e ih =>
    simp only [toks]
    exact (splitsThrough_op 0 _).append (splitsThrough_wrap ih _)
  | bin o l r ihl ihr =>
    simp only [toks]
    exact ((splitsThrough_wrap ihl _).append (splitsThrough_op 0 _)).append (splitsThrough_wrap ihr _)
  | fn1 f a iha =>
    have h : toks (.fn1 f a) = [.name f.name] ++ ([.lp] ++ toks a ++ [.rp]) := by simp [toks]
    rw [h]
    exact (splitsThrough_name 0 _).append (splitsThrough_bracket iha.mono)
  | fn2 f a b iha ihb =>
    have h : toks (.fn2 f a b) = [.name f.name] ++ ([.lp] ++ (toks a ++ [.comma] ++ toks b) ++ [.rp]) := by
      simp [toks]
    rw [h]
    exact (splitsThrough_name 0 _).append
      (splitsThrough_bracket ((iha.mono.append splitsThrough_comma).append ihb.mono))
  | fn3 f a b c iha ihb ihc =>
    have h : toks (.fn3 f a b c) =
        [.name f.name] ++ ([.lp] ++ (toks a ++ [.comma] ++ toks b ++ [.comma] ++ toks c) ++ [.rp]) := by
      simp [toks]
    rw [h]
    exact (splitsThrough_name 0 _).append
      (splitsThrough_bracket ((((iha.mono.append splitsThrough_comma).append ihb.mono).append
        splitsThrough_comma).append ihc.mono))

/-- an argument followed by a separator: `QuotPos` stops exactly behind the argument -/
theorem splitComma_arg_more (f : Formula) (rest : List Tok) :
    splitComma (toks f ++ [.comma] ++ rest) 0 = (toks f, some rest) := by
  have := splitsThrough_toks f 0 (Tok.comma :: rest) (by omega)
  simp [splitComma] at this ⊢
  simpa using this

/-- the last argument: no separator -/
theorem splitComma_arg_last (f : Formula) : splitComma (toks f) 0 = (toks f, none) := by
  have := splitsThrough_toks f 0 [] (by omega)
  simpa [splitComma] using this

/-! ## what the scan reports for a whole rendered formula -/

section Root
variable (ok : TableOK prioOf)
include ok

theorem scan_root_bin (o : BinOp) (l r : Formula) :
    (scan (toks (.bin o l r))).lk = (scan (toks (.bin o l r))).rk ∧
    (scan (toks (.bin o l r))).opMax = idxB o ∧
    (scan (toks (.bin o l r))).opPos = (wrapT (decide (o.rank < l.rootRank)) (toks l)).length := by
  simp only [scan, toks]
  rw [scanG_append, scanG_append, scanG_single]
  have hL := frAll_wrap prioOf (scan_toks prioOf ok l) (decide (o.rank < l.rootRank)) {} (by simp)
  have hR := frAll_wrap prioOf (scan_toks prioOf ok r) (decide (o.rank ≤ r.rootRank))
  have hlt : (if decide (o.rank ≤ r.rootRank) = true then 0 else prioOf (rootIdx r)) < prioOf (idxB o) :=
    effR_lt prioOf ok (.b o) r
  have hle : (if decide (o.rank < l.rootRank) = true then 0 else prioOf (rootIdx l)) ≤ prioOf (idxB o) :=
    effL_le prioOf ok (.b o) l
  have b1 := hL.bal; have i1 := hL.idx; have le1 := hL.le
  have z : prioOf ({} : S).opMax = 0 := ok.zero
  rw [z] at le1
  simp only at b1 i1
  have hs1 : (scanG prioOf {} (wrapT (decide (o.rank < l.rootRank)) (toks l))).rk ≤
      (scanG prioOf {} (wrapT (decide (o.rank < l.rootRank)) (toks l))).lk := by omega
  have h := fr_op_then prioOf ok (.b o) hR hlt _ hs1 _ rfl
  simp only [OpK.spelling, OpK.idx] at h
  obtain ⟨hb, _, _, hyes, _⟩ := h
  have y := hyes ⟨by omega, by omega⟩
  exact ⟨by omega, y.1, by rw [y.2]; omega⟩

theorem scan_root_un (u : UnOp) (e : Formula) :
    (scan (toks (.un u e))).lk = (scan (toks (.un u e))).rk ∧
    (scan (toks (.un u e))).opMax = idxU u ∧ (scan (toks (.un u e))).opPos = 0 := by
  simp only [scan, toks]
  rw [scanG_append, scanG_single]
  have hR := frAll_wrap prioOf (scan_toks prioOf ok e) (decide (u.rank ≤ e.rootRank))
  have hlt : (if decide (u.rank ≤ e.rootRank) = true then 0 else prioOf (rootIdx e)) < prioOf (idxU u) :=
    effR_lt prioOf ok (.u u) e
  have h := fr_op_then prioOf ok (.u u) hR hlt {} (by simp) _ rfl
  simp only [OpK.spelling, OpK.idx] at h
  obtain ⟨hb, _, _, hyes, _⟩ := h
  have z : prioOf ({} : S).opMax = 0 := ok.zero
  have y := hyes ⟨by simp, by rw [z]; exact Nat.zero_le _⟩
  have hb' : (scanG prioOf (scanStep prioOf {} (Tok.op (candsOf u.spelling)))
      (wrapT (decide (u.rank ≤ e.rootRank)) (toks e))).lk + 0 = 0 + (scanG prioOf (scanStep prioOf {} (Tok.op (candsOf u.spelling)))
      (wrapT (decide (u.rank ≤ e.rootRank)) (toks e))).rk := hb
  exact ⟨by omega, y.1, y.2⟩

omit ok in
theorem scan_bracket_from (s0 : S) (h0 : s0.lk = 0 ∧ s0.rk = 0 ∧ s0.opMax = 0) {t : List Tok}
    (hb : BalAll prioOf t) :
    (scanG prioOf s0 ([.lp] ++ t ++ [.rp])).lk = (scanG prioOf s0 ([.lp] ++ t ++ [.rp])).rk ∧
    (scanG prioOf s0 ([.lp] ++ t ++ [.rp])).lk ≠ 0 ∧ (scanG prioOf s0 ([.lp] ++ t ++ [.rp])).opMax = 0 := by
  rw [scanG_append, scanG_append]
  have h1 : scanG prioOf s0 [.lp] = { s0 with lk := s0.lk + 1, idx := s0.idx + 1 } := rfl
  rw [h1]
  have hm := hb { s0 with lk := s0.lk + 1, idx := s0.idx + 1 } (by simp; omega)
  have hd := hm.deep (by simp; omega)
  have hbal := hm.bal
  have hl := hm.lkmono
  simp only at hd hbal hl
  generalize scanG prioOf { s0 with lk := s0.lk + 1, idx := s0.idx + 1 } t = m at hd hbal hl
  have h2 : scanG prioOf m [.rp] = { m with rk := m.rk + 1, idx := m.idx + 1 } := rfl
  rw [h2]
  refine ⟨?_, ?_, ?_⟩
  · show m.lk = m.rk + 1; omega
  · show m.lk ≠ 0; omega
  · show m.opMax = 0; rw [hd.1]; exact h0.2.2

end Root

/-! ## one activation on the three shapes of token lists -/

theorem isAtom_none_of_length {ts : List Tok} (h : 2 ≤ ts.length) : isAtom ts = none := by
  match ts, h with
  | a :: _ :: _, _ => cases a <;> rfl

theorem evalStep_atom (M : MSem) (rec : List Tok → Except Err Val) (v : Val) :
    evalStep M rec [.atom v] = .ok v := rfl

theorem evalStep_paren (M : MSem) (rec : List Tok → Except Err Val) {t : List Tok} (hb : BalAll prioOf t) :
    evalStep M rec ([.lp] ++ t ++ [.rp]) = rec t := by
  have hs : (scan ([Tok.lp] ++ t ++ [Tok.rp])).lk = (scan ([Tok.lp] ++ t ++ [Tok.rp])).rk ∧
      (scan ([Tok.lp] ++ t ++ [Tok.rp])).lk ≠ 0 ∧ (scan ([Tok.lp] ++ t ++ [Tok.rp])).opMax = 0 :=
    scan_bracket_from {} ⟨rfl, rfl, rfl⟩ hb
  have ha : isAtom ([Tok.lp] ++ t ++ [Tok.rp]) = none := isAtom_none_of_length (by simp)
  unfold evalStep
  rw [ha]
  simp only []
  rw [if_neg (fun h => h hs.1), if_neg (fun h => h hs.2.2), if_pos hs.2.1]
  have e2 : [Tok.lp] ++ t ++ [Tok.rp] = Tok.lp :: (t ++ [Tok.rp]) := by simp
  rw [e2]
  simp [evalNoOp]

theorem evalOp_dyadic (M : MSem) (rec : List Tok → Except Err Val) (L R : List Tok) (c : List Nat) (i : Nat)
    (hL : 0 < L.length) (hR : 0 < R.length) (hdy : (rowOf i).dyadic = true) :
    evalOp M rec (L ++ [.op c] ++ R) i L.length =
      (match rec R, rec L with
        | .error e, _ => .error e
        | .ok _, .error e => .error e
        | .ok b, .ok a => M.bin i a b) := by
  have hlen : (L ++ [Tok.op c] ++ R).length = L.length + 1 + R.length := by simp; omega
  have hmm : ((rowOf i).id == ['-'] && L.length == 0) = false := by
    have : (L.length == 0) = false := by
      cases L with
      | nil => simp at hL
      | cons a l => rfl
    rw [this, Bool.and_false]
  have hdrop : (L ++ [Tok.op c] ++ R).drop (L.length + 1) = R :=
    List.drop_left' (by simp)
  have htake : (L ++ [Tok.op c] ++ R).take L.length = L := by
    rw [List.append_assoc]; exact List.take_left' rfl
  have h1 : ¬ (L ++ [Tok.op c] ++ R).length ≤ 1 := by omega
  have h2 : ¬ (L.length = 0 ∨ L.length = (L ++ [Tok.op c] ++ R).length - 1) := by omega
  unfold evalOp
  simp only [hmm, hdy, hdrop, htake, h1, h2, if_false, if_true, Bool.false_eq_true, ne_eq, not_true_eq_false]
  cases rec R <;> cases rec L <;> rfl

theorem evalOp_monadic (M : MSem) (rec : List Tok → Except Err Val) (R : List Tok) (c : List Nat) (i : Nat)
    (hR : 0 < R.length)
    (hun : (if (rowOf i).id == ['-'] then minusMonadic.dyadic else (rowOf i).dyadic) = false) :
    evalOp M rec ([.op c] ++ R) i 0 =
      (match rec R with
        | .error e => .error e
        | .ok b => M.un i b) := by
  have hlen : ([Tok.op c] ++ R).length = 1 + R.length := by simp; omega
  have h1 : ¬ ([Tok.op c] ++ R).length ≤ 1 := by omega
  have hdrop : ([Tok.op c] ++ R).drop (0 + 1) = R := by simp
  unfold evalOp
  simp only [beq_self_eq_true, Bool.and_true, hun, hdrop, h1, if_false, if_true, true_or,
    Bool.false_eq_true, ne_eq, not_true_eq_false]
  cases rec R <;> rfl

theorem evalStep_call (M : MSem) (rec : List Tok → Except Err Val) (n : List Char) {inner : List Tok}
    (hb : BalAll prioOf inner) :
    evalStep M rec ([.name n] ++ ([.lp] ++ inner ++ [.rp])) =
      (match evalArgs rec 3 inner [] with
        | .error e => .error e
        | .ok vs => M.fn (upName n) vs) := by
  have hs : (scan ([Tok.name n] ++ ([Tok.lp] ++ inner ++ [Tok.rp]))).lk = (scan ([Tok.name n] ++ ([Tok.lp] ++ inner ++ [Tok.rp]))).rk ∧
      (scan ([Tok.name n] ++ ([Tok.lp] ++ inner ++ [Tok.rp]))).lk ≠ 0 ∧
      (scan ([Tok.name n] ++ ([Tok.lp] ++ inner ++ [Tok.rp]))).opMax = 0 :=
    scan_bracket_from { idx := 1 } ⟨rfl, rfl, rfl⟩ hb
  have ha : isAtom ([Tok.name n] ++ ([Tok.lp] ++ inner ++ [Tok.rp])) = none := isAtom_none_of_length (by simp)
  unfold evalStep
  rw [ha]
  simp only []
  rw [if_neg (fun h => h hs.1), if_neg (fun h => h hs.2.2), if_pos hs.2.1]
  have e2 : [Tok.name n] ++ ([Tok.lp] ++ inner ++ [Tok.rp]) = Tok.name n :: Tok.lp :: (inner ++ [Tok.rp]) := by simp
  rw [e2]
  simp only [evalNoOp, List.dropLast_concat]
  cases evalArgs rec 3 inner [] <;> rfl

/-! ## the recursion -/

section Main
variable (M : MSem) (ok : TableOK prioOf) (rows : RowsOK)
include ok

theorem evalToks_wrap (f : Formula)
    (ih : ∀ n, 2 * Formula.size f ≤ n → evalToks M n (toks f) = evalWith (semOf M) f) (b : Bool) (m : Nat)
    (hm : 2 * Formula.size f + 1 ≤ m) : evalToks M m (wrapT b (toks f)) = evalWith (semOf M) f := by
  cases b with
  | false => simpa [wrapT] using ih m (by omega)
  | true =>
    match m, hm with
    | k + 1, hk =>
      show evalStep M (evalToks M k) ([Tok.lp] ++ toks f ++ [Tok.rp]) = _
      rw [evalStep_paren M _ (scan_toks prioOf ok f).toBal]
      exact ih k (by omega)

theorem idx_ne_zero (x : OpK) : x.idx ≠ 0 := by
  intro h
  have := ok.pos x (OpK.mem_all x)
  rw [h, ok.zero] at this
  exact Nat.lt_irrefl _ this

include rows

/-- **token-level parse theorem**: the model's recursion on the tokens of a rendered formula computes
the structural fold of the formula, for every formula and every operator/function semantics -/
theorem evalToks_toks (f : Formula) :
    ∀ n, 2 * Formula.size f ≤ n → evalToks M n (toks f) = evalWith (semOf M) f := by
  induction f with
  | lit v =>
    intro n hn
    simp only [Formula.size] at hn
    match n, hn with
    | 0, h => omega
    | k + 1, _ => rfl
  | sc dq items =>
    intro n hn
    simp only [Formula.size] at hn
    match n, hn with
    | 0, h => omega
    | k + 1, _ => rfl
  | un u e ih =>
    intro n hn
    simp only [Formula.size] at hn
    match n, hn with
    | 0, h => omega
    | k + 1, hk =>
      show evalStep M (evalToks M k) (toks (.un u e)) = _
      have hs := scan_root_un ok u e
      have ha : isAtom (toks (.un u e)) = none :=
        isAtom_none_of_length (by have := wrapT_length_pos (decide (u.rank ≤ e.rootRank)) e; simp [toks]; omega)
      unfold evalStep
      rw [ha]
      simp only []
      rw [if_neg (fun h => h hs.1), if_pos (by rw [hs.2.1]; exact idx_ne_zero ok (.u u)), hs.2.1, hs.2.2]
      simp only [toks]
      rw [evalOp_monadic M _ _ _ _ (wrapT_length_pos _ e) (rows.unDy u (UnOp.mem_all u)),
        evalToks_wrap M ok e ih _ k (by omega)]
      simp only [evalWith]
      generalize evalWith (semOf M) e = re
      cases re <;> rfl
  | bin o l r ihl ihr =>
    intro n hn
    simp only [Formula.size] at hn
    match n, hn with
    | 0, h => omega
    | k + 1, hk =>
      show evalStep M (evalToks M k) (toks (.bin o l r)) = _
      have hs := scan_root_bin ok o l r
      have ha : isAtom (toks (.bin o l r)) = none :=
        isAtom_none_of_length (by
          have := wrapT_length_pos (decide (o.rank ≤ r.rootRank)) r
          simp [toks]; omega)
      unfold evalStep
      rw [ha]
      simp only []
      rw [if_neg (fun h => h hs.1), if_pos (by rw [hs.2.1]; exact idx_ne_zero ok (.b o)), hs.2.1, hs.2.2]
      simp only [toks]
      have sl : 1 ≤ Formula.size l := by cases l <;> simp [Formula.size] <;> omega
      have sr : 1 ≤ Formula.size r := by cases r <;> simp [Formula.size] <;> omega
      rw [evalOp_dyadic M _ _ _ _ _ (wrapT_length_pos _ l) (wrapT_length_pos _ r) (rows.binDy o (BinOp.mem_all o)),
        evalToks_wrap M ok r ihr _ k (by omega), evalToks_wrap M ok l ihl _ k (by omega)]
      simp only [evalWith]
      generalize evalWith (semOf M) r = rr
      generalize evalWith (semOf M) l = rl
      cases rr <;> cases rl <;> rfl
  | fn1 f a iha =>
    intro n hn
    simp only [Formula.size] at hn
    match n, hn with
    | 0, h => omega
    | k + 1, hk =>
      show evalStep M (evalToks M k) (toks (.fn1 f a)) = _
      have h : toks (.fn1 f a) = [.name f.name] ++ ([.lp] ++ toks a ++ [.rp]) := by simp [toks]
      rw [h, evalStep_call M _ _ (scan_toks prioOf ok a).toBal, upName_fn]
      simp only [evalArgs, splitComma_arg_last, iha k (by omega), evalWith]
      generalize evalWith (semOf M) a = ra
      cases ra <;> rfl
  | fn2 f a b iha ihb =>
    intro n hn
    simp only [Formula.size] at hn
    match n, hn with
    | 0, h => omega
    | k + 1, hk =>
      show evalStep M (evalToks M k) (toks (.fn2 f a b)) = _
      have h : toks (.fn2 f a b) = [.name f.name] ++ ([.lp] ++ (toks a ++ [.comma] ++ toks b) ++ [.rp]) := by
        simp [toks]
      have hbal : BalAll prioOf (toks a ++ [.comma] ++ toks b) :=
        ((scan_toks prioOf ok a).toBal.append prioOf (balAll_comma prioOf)).append prioOf (scan_toks prioOf ok b).toBal
      rw [h, evalStep_call M _ _ hbal, upName_fn]
      simp only [evalArgs, splitComma_arg_more, splitComma_arg_last, iha k (by omega), ihb k (by omega), evalWith]
      generalize evalWith (semOf M) a = ra
      generalize evalWith (semOf M) b = rb
      cases ra <;> cases rb <;> rfl
  | fn3 f a b c iha ihb ihc =>
    intro n hn
    simp only [Formula.size] at hn
    match n, hn with
    | 0, h => omega
    | k + 1, hk =>
      show evalStep M (evalToks M k) (toks (.fn3 f a b c)) = _
      have h : toks (.fn3 f a b c) =
          [.name f.name] ++ ([.lp] ++ (toks a ++ [.comma] ++ (toks b ++ [.comma] ++ toks c)) ++ [.rp]) := by
        simp [toks]
      have hbal : BalAll prioOf (toks a ++ [.comma] ++ (toks b ++ [.comma] ++ toks c)) :=
        ((scan_toks prioOf ok a).toBal.append prioOf (balAll_comma prioOf)).append prioOf
          (((scan_toks prioOf ok b).toBal.append prioOf (balAll_comma prioOf)).append prioOf (scan_toks prioOf ok c).toBal)
      rw [h, evalStep_call M _ _ hbal, upName_fn]
      simp only [evalArgs, splitComma_arg_more, splitComma_arg_last, iha k (by omega), ihb k (by omega),
        ihc k (by omega), evalWith]
      generalize evalWith (semOf M) a = ra
      generalize evalWith (semOf M) b = rb
      generalize evalWith (semOf M) c = rc
      cases ra <;> cases rb <;> cases rc <;> rfl

end Main

end AslModel.Expr
