import AslModel.Model.Pos
/-!
# C20 helper lemmas: the tag-chain machine of `Model/Pos.lean` refines the structural positions of `Spec/Pos.lean`
-/
namespace AslModel.Pos

/-- the configuration with the repaired `IRP_GetPos` -/
def cfgFixed : Cfg := ⟨true⟩
/-- the configuration of the pinned tree -/
def cfgPinned : Cfg := ⟨false⟩

/-! ## arithmetic of IRPN batches -/

theorem irpStep_pos (k : Nat) : 0 < irpStep k := by
  unfold irpStep; split <;> omega

theorem padArgs_length_mod (k : Nat) (args : List String) : (padArgs k args).length % irpStep k = 0 := by
  have hs := irpStep_pos k
  simp only [padArgs, List.length_append, List.length_replicate]
  generalize irpStep k = s at *
  generalize args.length = n
  rw [Nat.add_mod]
  by_cases hr : n % s = 0
  · simp [hr]
  · have hlt : n % s < s := Nat.mod_lt _ hs
    have h1 : (s - n % s) % s = s - n % s := Nat.mod_eq_of_lt (by omega)
    rw [Nat.mod_mod, h1]
    have : n % s + (s - n % s) = s := by omega
    rw [this, Nat.mod_self]

theorem mkIrp_params (k : Nat) (args : List String) (L : Nat) : (mkIrp k args L).params = padArgs k args := by
  unfold mkIrp padArgs irpStep
  by_cases hk : k = 0
  · subst hk; simp [Nat.mod_one]
  · simp [hk]

theorem tagIrpIters_mkIrp (k : Nat) (args : List String) (L : Nat) :
    tagIrpIters (mkIrp k args L) = irpIters k args := by
  have hp := mkIrp_params k args L
  have hs := irpStep_pos k
  have hm := padArgs_length_mod k args
  have hcnt : (mkIrp k args L).parCnt = ((padArgs k args).length : Int) := by
    rw [← hp]; simp [mkIrp, genProc]
  have hit : (mkIrp k args L).parIter = (k : Int) := by simp [mkIrp, genProc]
  unfold tagIrpIters irpIters
  rw [hcnt, hit]
  simp only [Int.toNat_natCast]
  have hstep : (if (k : Int) = 0 then 1 else k) = irpStep k := by
    unfold irpStep
    by_cases hk : k = 0
    · subst hk; simp
    · simp [hk]
  rw [hstep]
  generalize irpStep k = s at *
  generalize (padArgs k args).length = n at *
  have hn : n = (n / s) * s := by
    have := Nat.div_add_mod n s
    rw [hm, Nat.add_zero, Nat.mul_comm] at this
    exact this.symm
  have : n + s - 1 = (s - 1) + (n / s) * s := by omega
  rw [this, Nat.add_mul_div_right _ _ hs, Nat.div_eq_of_lt (by omega)]
  simp

/-! ## GNU loop -/

/-- the include chain of a tag stack, innermost first -/
def chainOf : List Tag → List (String × Nat)
  | [] => []
  | t :: rest => if t.kind = .incl then (t.specName, t.lineZ.toNat) :: chainOf rest else chainOf rest

def gnuStepStr (acc : String) (p : String × Nat) : String := acc ++ ",\n" ++ gnuMsgN ++ " " ++ fmtFileGnu p.1 p.2

theorem getPos_gnu_incl (cfg : Cfg) (t : Tag) (h : t.kind = .incl) :
    (getPos cfg true t).1 = fmtFileGnu t.specName t.lineZ.toNat := by
  simp [getPos, h]

theorem gnuLoop_some_some (cfg : Cfg) (tags : List Tag) (t0 : Tag) (s : String) :
    gnuLoop cfg tags (some t0) (some s) = (some t0, some ((chainOf tags).foldl gnuStepStr s)) := by
  induction tags generalizing s with
  | nil => rfl
  | cons t rest ih =>
    by_cases h : t.kind = .incl
    · simp [gnuLoop, chainOf, h, ih, gnuStepStr, getPos_gnu_incl cfg t h]
    · simp [gnuLoop, chainOf, h, ih]

theorem gnuLoop_some_none (cfg : Cfg) (tags : List Tag) (t0 : Tag) :
    gnuLoop cfg tags (some t0) none =
      (some t0, match chainOf tags with
        | [] => none
        | o :: os => some (os.foldl gnuStepStr (gnuMsg1 ++ " " ++ fmtFileGnu o.1 o.2))) := by
  induction tags with
  | nil => rfl
  | cons t rest ih =>
    by_cases h : t.kind = .incl
    · simp [gnuLoop, chainOf, h, gnuLoop_some_some, getPos_gnu_incl cfg t h]
    · simp [gnuLoop, chainOf, h, ih]

theorem getErrorPosGNU_eq (cfg : Cfg) (tags : List Tag) : getErrorPosGNU cfg tags = renderChain (chainOf tags) := by
  induction tags with
  | nil => rfl
  | cons t rest ih =>
    by_cases h : t.kind = .incl
    · unfold getErrorPosGNU
      simp only [gnuLoop, h, if_true, gnuLoop_some_none, chainOf, renderChain]
      cases hc : chainOf rest with
      | nil => simp [gnuOuters, getPos_gnu_incl cfg t h]
      | cons o os =>
        simp [gnuOuters, getPos_gnu_incl cfg t h]
        rfl
    · have : getErrorPosGNU cfg (t :: rest) = getErrorPosGNU cfg rest := by
        unfold getErrorPosGNU; simp [gnuLoop, h]
      rw [this, ih]; simp [chainOf, h]

/-! ## the counter invariant -/

/-- `c` lines of the current pass through an `L`-line body have been delivered; `p` = `ParZ` of this pass -/
def Cnt (L c : Nat) (lineZ parZ p step : Int) : Prop :=
  (c < L ∧ lineZ = c + 1 ∧ parZ = p) ∨ (c = L ∧ lineZ = 1 ∧ parZ = p + step)

/-- the supplying tag `t` (and `MomLineCounter`) after `c` lines of one pass of level `lv` -/
def AtLine (lv : Level) (L c : Nat) (mom : Int) (t : Tag) : Prop :=
  match lv with
  | .file name => t.kind = .incl ∧ t.specName = name ∧ t.lineZ = c ∧ mom = c
  | .macro name => t.kind = .macro ∧ t.specName = name ∧ t.lineZ = c + 1
  | .rept i => t.kind = .rept ∧ t.lineCnt = L ∧ Cnt L c t.lineZ t.parZ i 1
  | .irp k args i => t.kind = .irp ∧ t.lineCnt = L ∧ t.parIter = k ∧ t.params = padArgs k args ∧ t.saveAttr = "" ∧
      Cnt L c t.lineZ t.parZ ((i * irpStep k : Nat) + 1) (irpStep k)
  | .irpc s i => t.kind = .irpc ∧ t.lineCnt = L ∧ t.parIter = 0 ∧ t.specChars = s ∧ Cnt L c t.lineZ t.parZ (i + 1) 1
  | .while_ i => t.kind = .while_ ∧ t.lineCnt = L ∧ Cnt L c t.lineZ t.parZ i 1

theorem Cnt_step {L c : Nat} {lz pz p step : Int} (h : Cnt L c lz pz p step) (hc : c + 1 ≤ L) :
    Cnt L (c + 1) (if lz + 1 > (L : Int) then 1 else lz + 1) (if lz + 1 > (L : Int) then pz + step else pz) p step := by
  rcases h with ⟨h1, h2, h3⟩ | ⟨h1, _, _⟩
  · subst h2 h3
    by_cases hl : c + 1 = L
    · right
      have : (c : Int) + 1 + 1 > (L : Int) := by omega
      simp [this, hl]
    · left
      have : ¬ ((c : Int) + 1 + 1 > (L : Int)) := by omega
      simp only [this, if_false]
      exact ⟨by omega, by omega, trivial⟩
  · omega

theorem countProc_Cnt {L c : Nat} {t : Tag} {p : Int} (hL : t.lineCnt = L) (h : Cnt L c t.lineZ t.parZ p 1)
    (hc : c + 1 ≤ L) : Cnt L (c + 1) (countProc t).lineZ (countProc t).parZ p 1 := by
  have := Cnt_step h hc
  unfold countProc
  rw [hL]
  by_cases hl : t.lineZ + 1 > (L : Int)
  · simp only [hl, if_true] at this ⊢; exact this
  · simp only [hl, if_false] at this ⊢; exact this

theorem whileProc_Cnt {L c : Nat} {t : Tag} {p : Int} (hL : t.lineCnt = L) (h : Cnt L c t.lineZ t.parZ p 1)
    (hc : c + 1 ≤ L) : Cnt L (c + 1) (whileProc t).lineZ (whileProc t).parZ p 1 := by
  have := Cnt_step h hc
  unfold whileProc
  rw [hL]
  by_cases hl : t.lineZ + 1 > (L : Int)
  · simp only [hl, if_true] at this ⊢; exact this
  · simp only [hl, if_false] at this ⊢; exact this

theorem irpProc_Cnt {L c k : Nat} {t : Tag} {p : Int} (hL : t.lineCnt = L) (hk : t.parIter = k)
    (h : Cnt L c t.lineZ t.parZ p (irpStep k)) (hc : c + 1 ≤ L) :
    Cnt L (c + 1) (irpProc t).lineZ (irpProc t).parZ p (irpStep k) := by
  have := Cnt_step h hc
  have hstep : (if t.parIter = 0 then (1 : Int) else t.parIter) = (irpStep k : Int) := by
    rw [hk]; unfold irpStep
    by_cases h0 : k = 0
    · subst h0; simp
    · simp [h0]
  unfold irpProc
  rw [hL, hstep]
  by_cases hl : t.lineZ + 1 > (L : Int)
  · simp only [hl, if_true] at this ⊢; exact this
  · simp only [hl, if_false] at this ⊢; exact this

/-- what one delivered line adds to the line number of a level -/
def adv (isFile : Bool) (p : Nat) : Nat := if isFile then p else 1

theorem proc_AtLine {lv : Level} {L c : Nat} {mom : Int} {t : Tag} (p : Nat) (h : AtLine lv L c mom t)
    (hc : lv.isFile = false → c + 1 ≤ L) :
    AtLine lv L (c + adv lv.isFile p) (proc mom t p).1 (proc mom t p).2 ∧
    (lv.isFile = false → (proc mom t p).1 = mom) := by
  cases lv with
  | file name =>
    obtain ⟨hk, hn, hz, hm⟩ := h
    simp only [proc, hk, includeProc, AtLine, Level.isFile, adv, if_true]
    refine ⟨⟨trivial, hn, ?_, ?_⟩, by simp⟩ <;> (subst hm; simp [Int.natCast_add])
  | «macro» name =>
    obtain ⟨hk, hn, hz⟩ := h
    simp only [proc, hk, macroProc, AtLine, Level.isFile, adv]
    refine ⟨⟨trivial, hn, ?_⟩, by simp⟩
    simp [hz, Int.natCast_add]
  | rept i =>
    obtain ⟨hk, hL, hcnt⟩ := h
    have hc' := hc rfl
    simp only [proc, hk, AtLine, Level.isFile, adv]
    refine ⟨⟨?_, ?_, countProc_Cnt hL hcnt hc'⟩, by simp⟩
    · unfold countProc; split <;> exact hk
    · unfold countProc; split <;> exact hL
  | irp k args i =>
    obtain ⟨hk, hL, hpi, hpa, hsa, hcnt⟩ := h
    have hc' := hc rfl
    simp only [proc, hk, AtLine, Level.isFile, adv]
    refine ⟨⟨?_, ?_, ?_, ?_, ?_, irpProc_Cnt hL hpi hcnt hc'⟩, by simp⟩
    all_goals (unfold irpProc; split <;> assumption)
  | irpc s i =>
    obtain ⟨hk, hL, hpi, hsc, hcnt⟩ := h
    have hc' := hc rfl
    simp only [proc, hk, AtLine, Level.isFile, adv]
    refine ⟨⟨?_, ?_, ?_, ?_, countProc_Cnt hL hcnt hc'⟩, by simp⟩
    all_goals (unfold countProc; split <;> assumption)
  | while_ i =>
    obtain ⟨hk, hL, hcnt⟩ := h
    have hc' := hc rfl
    simp only [proc, hk, AtLine, Level.isFile, adv]
    refine ⟨⟨?_, ?_, whileProc_Cnt hL hcnt hc'⟩, by simp⟩
    all_goals (unfold whileProc; split <;> assumption)

/-- size of a list of delivered lines at a level -/
def advL (isFile : Bool) (ps : List Nat) : Nat := if isFile then sumL ps else ps.length

theorem advL_cons (isFile : Bool) (p : Nat) (ps : List Nat) : advL isFile (p :: ps) = adv isFile p + advL isFile ps := by
  cases isFile <;> simp [advL, adv, sumL, Nat.add_comm]

theorem advL_append (isFile : Bool) (a b : List Nat) : advL isFile (a ++ b) = advL isFile a + advL isFile b := by
  induction a with
  | nil => cases isFile <;> simp [advL, sumL]
  | cons x a ih => simp only [List.cons_append, advL_cons, ih]; omega

theorem consume_AtLine {lv : Level} {L : Nat} (ps : List Nat) : ∀ {c : Nat} {mom : Int} {t : Tag},
    AtLine lv L c mom t → (lv.isFile = false → c + ps.length ≤ L) →
    AtLine lv L (c + advL lv.isFile ps) (consume mom t ps).1 (consume mom t ps).2 ∧
    (lv.isFile = false → (consume mom t ps).1 = mom) := by
  induction ps with
  | nil => intro c mom t h _; cases hf : lv.isFile <;> simp [consume, advL, sumL, h]
  | cons p ps ih =>
    intro c mom t h hc
    have h1 := proc_AtLine p h (fun hf => by have := hc hf; simp at this; omega)
    have h2 := ih h1.1 (fun hf => by
      have := hc hf; simp only [List.length_cons] at this
      simp only [adv, hf]; simp; omega)
    simp only [consume, advL_cons]
    refine ⟨by rw [← Nat.add_assoc]; exact h2.1, fun hf => by rw [h2.2 hf, h1.2 hf]⟩

/-! ## `GetPos` names the level's frame -/

theorem irpVal_eq (l : List String) (s : Nat) (hs : 0 < s) :
    irpVal l (s : Int) = ",".intercalate (l.take s) := by
  have h1 : ((s : Int) - 1).toNat = s - 1 := by omega
  unfold irpVal
  rw [h1]
  cases l with
  | nil => simp
  | cons a r =>
    have : s = (s - 1) + 1 := by omega
    simp only []
    conv => rhs; rw [this, List.take_succ_cons]

theorem irpcVal_eq (s : List Char) (i : Nat) (hi : i < s.length) :
    irpcVal s i = "'" ++ String.singleton (s.getD i ' ') ++ "'" := by
  unfold irpcVal
  simp [List.getD, List.getElem?_eq_getElem hi]

/-- side condition of a level: IRPC iterations stay inside the string -/
def LvOK : Level → Prop
  | .irpc s i => i < s.length
  | _ => True

theorem frame_isFile (lv : Level) (c : Nat) : (lv.frame c).isFile = lv.isFile := by
  cases lv <;> rfl

theorem getPos_AtLine {lv : Level} {L c : Nat} {mom : Int} {t : Tag} (h : AtLine lv L c mom t) (hok : LvOK lv)
    (hc : lv.isFile = false → 1 ≤ c ∧ c ≤ L) :
    getPos cfgFixed false t = ((lv.frame c).render, lv.isFile) := by
  cases lv with
  | file name =>
    obtain ⟨hk, hn, hz, _⟩ := h
    simp [getPos, hk, hn, hz, Level.frame, Frame.render, Level.isFile]
  | «macro» name =>
    obtain ⟨hk, hn, hz⟩ := h
    simp [getPos, hk, hn, hz, Level.frame, Frame.render, Level.isFile]
  | rept i =>
    obtain ⟨hk, hL, hcnt⟩ := h
    obtain ⟨h1, h2⟩ := hc rfl
    simp only [getPos, hk, Level.frame, Frame.render, Level.isFile]
    rcases hcnt with ⟨_, hz, hp⟩ | ⟨hcl, hz, hp⟩
    · have hb : decide (t.lineZ - 1 ≤ 0) = false := by simp; omega
      have e1 : t.parZ.toNat = i := by omega
      have e2 : (t.lineZ - 1).toNat = c := by omega
      simp only [hb, Bool.false_eq_true, if_false, e1, e2]
    · have hb : decide (t.lineZ - 1 ≤ 0) = true := by simp; omega
      have e1 : (t.parZ - 1).toNat = i := by omega
      have e2 : t.lineCnt.toNat = c := by omega
      simp only [hb, if_true, e1, e2]
  | irp k args i =>
    obtain ⟨hk, hL, hpi, hpa, hsa, hcnt⟩ := h
    obtain ⟨h1, h2⟩ := hc rfl
    have hs := irpStep_pos k
    have hstep : getPosParIter cfgFixed t = (irpStep k : Int) := by
      simp only [getPosParIter, cfgFixed, if_true, hpi]
      unfold irpStep
      by_cases h0 : k = 0
      · subst h0; simp
      · have : ¬ ((k : Int) = 0) := by omega
        simp [h0]
    have htyp : (if t.parIter = 0 then "IRP" else "IRPN") = (if k = 0 then "IRP" else "IRPN") := by
      rw [hpi]
      by_cases h0 : k = 0
      · subst h0; simp
      · have : ¬ ((k : Int) = 0) := by omega
        simp [h0]
    simp only [getPos, hk, irpGetPos, hstep, htyp, hsa, Level.frame, Frame.render, Level.isFile, ne_eq, not_true_eq_false,
      if_false, if_true]
    rcases hcnt with ⟨_, hz, hp⟩ | ⟨hcl, hz, hp⟩
    · have hb : decide (t.lineZ - 1 ≤ 0) = false := by simp; omega
      have e1 : (t.parZ - 1).toNat = i * irpStep k := by omega
      have e2 : (t.lineZ - 1).toNat = c := by omega
      simp only [hb, Bool.false_eq_true, if_false, e1, e2, hpa, irpVal_eq _ _ hs]
      rfl
    · have hb : decide (t.lineZ - 1 ≤ 0) = true := by simp; omega
      have e1 : (t.parZ - (irpStep k : Int) - 1).toNat = i * irpStep k := by omega
      have e2 : t.lineCnt.toNat = c := by omega
      simp only [hb, if_true, e1, e2, hpa, irpVal_eq _ _ hs]
      rfl
  | irpc s i =>
    obtain ⟨hk, hL, hpi, hsc, hcnt⟩ := h
    obtain ⟨h1, h2⟩ := hc rfl
    have hi : i < s.length := hok
    have hstep : getPosParIter cfgFixed t = 1 := by simp [getPosParIter, cfgFixed, hpi]
    have hne : ¬ (t.kind = Kind.irp) := by rw [hk]; decide
    simp only [getPos, hk, irpGetPos, hstep, Level.frame, Frame.render, Level.isFile, hsc]
    rcases hcnt with ⟨_, hz, hp⟩ | ⟨hcl, hz, hp⟩
    · have hb : decide (t.lineZ - 1 ≤ 0) = false := by simp; omega
      have e1 : (t.parZ - 1).toNat = i := by omega
      have e2 : (t.lineZ - 1).toNat = c := by omega
      simp only [hb, Bool.false_eq_true, if_false, e1, e2, irpcVal_eq _ _ hi]
      simp
    · have hb : decide (t.lineZ - 1 ≤ 0) = true := by simp; omega
      have e1 : (t.parZ - 1 - 1).toNat = i := by omega
      have e2 : t.lineCnt.toNat = c := by omega
      simp only [hb, if_true, e1, e2, irpcVal_eq _ _ hi]
      simp
  | while_ i =>
    obtain ⟨hk, hL, hcnt⟩ := h
    obtain ⟨h1, h2⟩ := hc rfl
    simp only [getPos, hk, Level.frame, Frame.render, Level.isFile]
    rcases hcnt with ⟨_, hz, hp⟩ | ⟨hcl, hz, hp⟩
    · have hb : decide (t.lineZ - 1 ≤ 0) = false := by simp; omega
      have e1 : t.parZ.toNat = i := by omega
      have e2 : (t.lineZ - 1).toNat = c := by omega
      simp only [hb, Bool.false_eq_true, if_false, e1, e2]
    · have hb : decide (t.lineZ - 1 ≤ 0) = true := by simp; omega
      have e1 : (t.parZ - 1).toNat = i := by omega
      have e2 : t.lineCnt.toNat = c := by omega
      simp only [hb, if_true, e1, e2]

/-! ## the rest of the chain prints the enclosing path -/

structure Good (rest : List Tag) (outer : List Frame) : Prop where
  as : getErrorPosAS cfgFixed rest = renderAS outer
  gnu : chainOf rest = gnuChain outer

theorem Good_nil : Good [] [] := ⟨rfl, rfl⟩

theorem AtLine_kind_incl {lv : Level} {L c : Nat} {mom : Int} {t : Tag} (h : AtLine lv L c mom t) :
    (t.kind = .incl) = (lv.isFile = true) := by
  cases lv <;> simp only [AtLine] at h <;> simp [h.1, Level.isFile]

theorem Good_push {rest : List Tag} {outer : List Frame} {lv : Level} {L c : Nat} {mom : Int} {t : Tag}
    (hg : Good rest outer) (h : AtLine lv L c mom t) (hok : LvOK lv) (hc : lv.isFile = false → 1 ≤ c ∧ c ≤ L) :
    Good (t :: rest) (lv.frame c :: outer) := by
  have hp := getPos_AtLine h hok hc
  constructor
  · simp only [getErrorPosAS, renderAS, hp, frame_isFile, hg.as]
  · cases lv with
    | file name =>
      obtain ⟨hk, hn, hz, _⟩ := h
      simp [chainOf, hk, hn, hz, Level.frame, gnuChain, hg.gnu]
    | «macro» name => simp [chainOf, h.1, Level.frame, gnuChain, hg.gnu]
    | rept i => simp [chainOf, h.1, Level.frame, gnuChain, hg.gnu]
    | irp k args i => simp [chainOf, h.1, Level.frame, gnuChain, hg.gnu]
    | irpc s i => simp [chainOf, h.1, Level.frame, gnuChain, hg.gnu]
    | while_ i => simp [chainOf, h.1, Level.frame, gnuChain, hg.gnu]

/-- what the model reports for a path -/
def ren (x : Nat × List Frame) : Out := (x.1, renderAS x.2, renderGNU x.2)

theorem emit_eq {rest : List Tag} {outer : List Frame} (t : Tag) (hg : Good (t :: rest) outer) (id : Nat) :
    (id, getErrorPos cfgFixed false (t :: rest), getErrorPos cfgFixed true (t :: rest)) = ren (id, outer) := by
  simp only [getErrorPos, List.isEmpty_cons, Bool.false_eq_true, if_false, if_true, ren, hg.as,
    getErrorPosGNU_eq, hg.gnu, renderGNU]

/-! ## lines of items -/

theorem Item.lines_ne_nil (it : Item) : it.lines ≠ [] := by
  cases it <;> simp [Item.lines]

theorem Item.lines_length_pos (it : Item) : 0 < it.lines.length := by
  have := Item.lines_ne_nil it
  cases h : it.lines with
  | nil => exact absurd h this
  | cons a l => simp

theorem Body.eq_nil_of_lines (b : Body) (h : b.lines.length = 0) : b = .nil := by
  cases b with
  | nil => rfl
  | cons it b =>
    have h1 := Item.lines_length_pos it
    have h2 : (Body.cons it b).lines.length = it.lines.length + b.lines.length := by simp [Body.lines]
    omega

theorem adv_pos_of_nonfile (it : Item) : 1 ≤ advL false it.lines := by
  have := Item.lines_length_pos it
  simp [advL]; omega

/-! ## loops -/

theorem itersFrom_nil {α : Type} (i n : Nat) : itersFrom (fun _ => ([] : List α)) i n = [] := by
  induction n generalizing i with
  | zero => rfl
  | succ n ih => simp [itersFrom, ih]

theorem map_itersFrom {α β : Type} (f : α → β) (g : Nat → List α) (i n : Nat) :
    (itersFrom g i n).map f = itersFrom (fun j => (g j).map f) i n := by
  induction n generalizing i with
  | zero => rfl
  | succ n ih => simp [itersFrom, ih]

theorem loopN_spec {σ : Type} (f : σ → σ × List Out) (g : Nat → List Out) (P : Nat → σ → Prop) (N : Nat)
    (hstep : ∀ i s, i < N → P i s → P (i + 1) (f s).1 ∧ (f s).2 = g i) :
    ∀ n i s, i + n ≤ N → P i s → P (i + n) (loopN f n s).1 ∧ (loopN f n s).2 = itersFrom g i n := by
  intro n
  induction n with
  | zero => intro i s _ h; exact ⟨h, rfl⟩
  | succ n ih =>
    intro i s hb h
    have h1 := hstep i s (by omega) h
    have h2 := ih (i + 1) (f s).1 (by omega) h1.1
    simp only [loopN, itersFrom]
    refine ⟨?_, by rw [h1.2, h2.2]⟩
    have : i + (n + 1) = i + 1 + n := by omega
    rw [this]; exact h2.1

/-! ## end of one pass through a body = start of the next -/

theorem wrap_rept {L : Nat} {mom : Int} {t : Tag} {i : Nat} (hL : 0 < L) (h : AtLine (.rept i) L L mom t) :
    AtLine (.rept (i + 1)) L 0 mom t := by
  obtain ⟨hk, hl, hc⟩ := h
  refine ⟨hk, hl, ?_⟩
  rcases hc with ⟨h1, _, _⟩ | ⟨_, hz, hp⟩
  · omega
  · left; exact ⟨hL, by simp [hz], by simp [hp, Int.natCast_add]⟩

theorem wrap_while {L : Nat} {mom : Int} {t : Tag} {i : Nat} (hL : 0 < L) (h : AtLine (.while_ i) L L mom t) :
    AtLine (.while_ (i + 1)) L 0 mom t := by
  obtain ⟨hk, hl, hc⟩ := h
  refine ⟨hk, hl, ?_⟩
  rcases hc with ⟨h1, _, _⟩ | ⟨_, hz, hp⟩
  · omega
  · left; exact ⟨hL, by simp [hz], by simp [hp, Int.natCast_add]⟩

theorem wrap_irpc {L : Nat} {mom : Int} {t : Tag} {s : List Char} {i : Nat} (hL : 0 < L) (h : AtLine (.irpc s i) L L mom t) :
    AtLine (.irpc s (i + 1)) L 0 mom t := by
  obtain ⟨hk, hl, hpi, hsc, hc⟩ := h
  refine ⟨hk, hl, hpi, hsc, ?_⟩
  rcases hc with ⟨h1, _, _⟩ | ⟨_, hz, hp⟩
  · omega
  · left; exact ⟨hL, by simp [hz], by simp [hp, Int.natCast_add]⟩

theorem wrap_irp {L : Nat} {mom : Int} {t : Tag} {k : Nat} {args : List String} {i : Nat} (hL : 0 < L)
    (h : AtLine (.irp k args i) L L mom t) : AtLine (.irp k args (i + 1)) L 0 mom t := by
  obtain ⟨hk, hl, hpi, hpa, hsa, hc⟩ := h
  refine ⟨hk, hl, hpi, hpa, hsa, ?_⟩
  rcases hc with ⟨h1, _, _⟩ | ⟨_, hz, hp⟩
  · omega
  · left
    refine ⟨hL, by simp [hz], ?_⟩
    rw [hp, Nat.succ_mul, Int.natCast_add]; omega

/-! ## the refinement, by mutual structural induction over the tree -/

/-- result of running part of a body at level `lv`: the supplying tag is `c'` lines into the pass, `MomLineCounter` is
untouched inside expansions, and the messages are the structural positions -/
structure Res (lv : Level) (L c' : Nat) (mom : Int) (r : (Int × Tag) × List Out)
    (expected : List (Nat × List Frame)) : Prop where
  at_ : AtLine lv L c' r.1.1 r.1.2
  mom : lv.isFile = false → r.1.1 = mom
  out : r.2 = expected.map ren

theorem Item.size_eq (f : Bool) (it : Item) : it.size f = advL f it.lines := rfl

theorem advL_single (f : Bool) (p : Nat) : advL f [p] = adv f p := by
  cases f <;> simp [advL, adv, sumL]

theorem advL_nil (f : Bool) : advL f [] = 0 := by cases f <;> rfl

theorem advL_false (ps : List Nat) : advL false ps = ps.length := rfl

mutual
theorem runItem_spec (it : Item) (lv : Level) (L c : Nat) (mom : Int) (top : Tag) (rest : List Tag)
    (outer : List Frame) (hg : Good rest outer) (hok : LvOK lv) (h : AtLine lv L c mom top)
    (hb : lv.isFile = false → c + it.lines.length ≤ L) :
    Res lv L (c + advL lv.isFile it.lines) mom (runItem cfgFixed mom top rest it)
      (posItem outer lv (c + advL lv.isFile it.lines) it) := by
  cases it with
  | plain p =>
    have h1 := proc_AtLine p h (fun hf => by have := hb hf; simp [Item.lines] at this; omega)
    simp only [Item.lines, advL_single, runItem, posItem]
    exact ⟨h1.1, h1.2, rfl⟩
  | fault p id =>
    have h1 := proc_AtLine p h (fun hf => by have := hb hf; simp [Item.lines] at this; omega)
    have hg' := Good_push hg h1.1 hok (fun hf => by
      have := hb hf; simp [Item.lines] at this; simp [adv, hf]; omega)
    simp only [Item.lines, advL_single, runItem, posItem]
    exact ⟨h1.1, h1.2, by simp only [List.map]; rw [emit_eq _ hg']⟩
  | call name b =>
    have h1 := proc_AtLine 1 h (fun hf => by have := hb hf; simp [Item.lines] at this; omega)
    have hg' := Good_push hg h1.1 hok (fun hf => by
      have := hb hf; simp [Item.lines] at this; simp [adv, hf]; omega)
    simp only [Item.lines, advL_single, runItem, posItem]
    by_cases hz : b.lines.length = 0
    · have hbn := Body.eq_nil_of_lines b hz
      subst hbn
      simp only [Body.lines, List.length_nil, if_true, posBody]
      exact ⟨h1.1, h1.2, rfl⟩
    · simp only [hz, if_false]
      have hat : AtLine (.macro name) b.lines.length 0 (proc mom top 1).1 (mkMacro name b.lines.length) :=
        ⟨rfl, rfl, by simp [mkMacro, genProc]⟩
      have ih := runBody_spec b (.macro name) b.lines.length 0 (proc mom top 1).1 (mkMacro name b.lines.length)
        ((proc mom top 1).2 :: rest) _ hg' trivial hat (fun _ => by omega)
      have hm := ih.mom rfl
      refine ⟨?_, ?_, ih.out⟩
      · simp only [hm]; exact h1.1
      · intro hf; simp only [hm]; exact h1.2 hf
  | rept n b =>
    have hl : (Item.rept n b).lines = 1 :: (b.lines ++ [1]) := by simp [Item.lines]
    have h1 := consume_AtLine (1 :: (b.lines ++ [1])) h (fun hf => by have := hb hf; rw [hl] at this; exact this)
    have hg' := Good_push hg h1.1 hok (fun hf => by
      have := hb hf; rw [hl] at this; simp only [hf, advL_false]; simp at this ⊢; omega)
    simp only [hl, runItem, posItem]
    by_cases hz : b.lines.length = 0
    · have hbn := Body.eq_nil_of_lines b hz
      subst hbn
      simp only [Body.lines, List.length_nil, if_true, posBody, itersFrom_nil]
      exact ⟨h1.1, h1.2, rfl⟩
    · simp only [hz, if_false]
      have hL : 0 < b.lines.length := by omega
      have loop := loopN_spec
        (fun s => runBody cfgFixed s.1 s.2 ((consume mom top (1 :: (b.lines ++ [1]))).2 :: rest) b)
        (fun i => (posBody (lv.frame (c + advL lv.isFile (1 :: (b.lines ++ [1]))) :: outer) (.rept (i + 1)) 0 b).map ren)
        (fun i s => AtLine (.rept (i + 1)) b.lines.length 0 s.1 s.2 ∧ s.1 = (consume mom top (1 :: (b.lines ++ [1]))).1) n
        (fun i s _ hP => by
          have ih := runBody_spec b (.rept (i + 1)) b.lines.length 0 s.1 s.2 _ _ hg' trivial hP.1 (fun _ => by omega)
          have hw := wrap_rept hL (by have := ih.at_; simpa [Level.isFile, advL_false] using this)
          exact ⟨⟨hw, by rw [ih.mom rfl]; exact hP.2⟩, ih.out⟩)
        n 0 ((consume mom top (1 :: (b.lines ++ [1]))).1, mkRept n b.lines.length) (by omega)
        ⟨⟨rfl, rfl, Or.inl ⟨hL, by simp [mkRept, genProc], by simp [mkRept, genProc]⟩⟩, rfl⟩
      refine ⟨?_, ?_, ?_⟩
      · simp only [loop.1.2]; exact h1.1
      · intro hf; simp only [loop.1.2]; exact h1.2 hf
      · simp only [loop.2, map_itersFrom]
  | irp k args b =>
    have hl : (Item.irp k args b).lines = 1 :: (b.lines ++ [1]) := by simp [Item.lines]
    have h1 := consume_AtLine (1 :: (b.lines ++ [1])) h (fun hf => by have := hb hf; rw [hl] at this; exact this)
    have hg' := Good_push hg h1.1 hok (fun hf => by
      have := hb hf; rw [hl] at this; simp only [hf, advL_false]; simp at this ⊢; omega)
    simp only [hl, runItem, posItem]
    by_cases hz : b.lines.length = 0
    · have hbn := Body.eq_nil_of_lines b hz
      subst hbn
      simp only [Body.lines, List.length_nil, if_true, posBody, itersFrom_nil]
      exact ⟨h1.1, h1.2, rfl⟩
    · simp only [hz, if_false, tagIrpIters_mkIrp]
      have hL : 0 < b.lines.length := by omega
      have loop := loopN_spec
        (fun s => runBody cfgFixed s.1 s.2 ((consume mom top (1 :: (b.lines ++ [1]))).2 :: rest) b)
        (fun i => (posBody (lv.frame (c + advL lv.isFile (1 :: (b.lines ++ [1]))) :: outer) (.irp k args i) 0 b).map ren)
        (fun i s => AtLine (.irp k args i) b.lines.length 0 s.1 s.2 ∧ s.1 = (consume mom top (1 :: (b.lines ++ [1]))).1)
        (irpIters k args)
        (fun i s _ hP => by
          have ih := runBody_spec b (.irp k args i) b.lines.length 0 s.1 s.2 _ _ hg' trivial hP.1 (fun _ => by omega)
          have hw := wrap_irp hL (by have := ih.at_; simpa [Level.isFile, advL_false] using this)
          exact ⟨⟨hw, by rw [ih.mom rfl]; exact hP.2⟩, ih.out⟩)
        (irpIters k args) 0 ((consume mom top (1 :: (b.lines ++ [1]))).1, mkIrp k args b.lines.length) (by omega)
        ⟨⟨rfl, rfl, by simp [mkIrp, genProc], mkIrp_params k args _, rfl,
          Or.inl ⟨hL, by simp [mkIrp, genProc], by simp [mkIrp, genProc]⟩⟩, rfl⟩
      refine ⟨?_, ?_, ?_⟩
      · simp only [loop.1.2]; exact h1.1
      · intro hf; simp only [loop.1.2]; exact h1.2 hf
      · simp only [loop.2, map_itersFrom]
  | irpc s b =>
    have hl : (Item.irpc s b).lines = 1 :: (b.lines ++ [1]) := by simp [Item.lines]
    have h1 := consume_AtLine (1 :: (b.lines ++ [1])) h (fun hf => by have := hb hf; rw [hl] at this; exact this)
    have hg' := Good_push hg h1.1 hok (fun hf => by
      have := hb hf; rw [hl] at this; simp only [hf, advL_false]; simp at this ⊢; omega)
    simp only [hl, runItem, posItem]
    by_cases hz : b.lines.length = 0
    · have hbn := Body.eq_nil_of_lines b hz
      subst hbn
      simp only [Body.lines, List.length_nil, if_true, posBody, itersFrom_nil]
      exact ⟨h1.1, h1.2, rfl⟩
    · simp only [hz, if_false]
      have hL : 0 < b.lines.length := by omega
      have loop := loopN_spec
        (fun st => runBody cfgFixed st.1 st.2 ((consume mom top (1 :: (b.lines ++ [1]))).2 :: rest) b)
        (fun i => (posBody (lv.frame (c + advL lv.isFile (1 :: (b.lines ++ [1]))) :: outer) (.irpc s i) 0 b).map ren)
        (fun i st => AtLine (.irpc s i) b.lines.length 0 st.1 st.2 ∧ st.1 = (consume mom top (1 :: (b.lines ++ [1]))).1)
        s.length
        (fun i st hi hP => by
          have ih := runBody_spec b (.irpc s i) b.lines.length 0 st.1 st.2 _ _ hg' hi hP.1 (fun _ => by omega)
          have hw := wrap_irpc hL (by have := ih.at_; simpa [Level.isFile, advL_false] using this)
          exact ⟨⟨hw, by rw [ih.mom rfl]; exact hP.2⟩, ih.out⟩)
        s.length 0 ((consume mom top (1 :: (b.lines ++ [1]))).1, mkIrpc s b.lines.length) (by omega)
        ⟨⟨rfl, rfl, rfl, rfl, Or.inl ⟨hL, by simp [mkIrpc, genProc], by simp [mkIrpc, genProc]⟩⟩, rfl⟩
      refine ⟨?_, ?_, ?_⟩
      · simp only [loop.1.2]; exact h1.1
      · intro hf; simp only [loop.1.2]; exact h1.2 hf
      · simp only [loop.2, map_itersFrom]
  | while_ n b =>
    have hl : (Item.while_ n b).lines = 1 :: (b.lines ++ [1]) := by simp [Item.lines]
    have h1 := consume_AtLine (1 :: (b.lines ++ [1])) h (fun hf => by have := hb hf; rw [hl] at this; exact this)
    have hg' := Good_push hg h1.1 hok (fun hf => by
      have := hb hf; rw [hl] at this; simp only [hf, advL_false]; simp at this ⊢; omega)
    simp only [hl, runItem, posItem]
    by_cases hz : b.lines.length = 0
    · have hbn := Body.eq_nil_of_lines b hz
      subst hbn
      simp only [Body.lines, List.length_nil, if_true, posBody, itersFrom_nil]
      exact ⟨h1.1, h1.2, rfl⟩
    · simp only [hz, if_false]
      have hL : 0 < b.lines.length := by omega
      have loop := loopN_spec
        (fun s => runBody cfgFixed s.1 s.2 ((consume mom top (1 :: (b.lines ++ [1]))).2 :: rest) b)
        (fun i => (posBody (lv.frame (c + advL lv.isFile (1 :: (b.lines ++ [1]))) :: outer) (.while_ (i + 1)) 0 b).map ren)
        (fun i s => AtLine (.while_ (i + 1)) b.lines.length 0 s.1 s.2 ∧ s.1 = (consume mom top (1 :: (b.lines ++ [1]))).1) n
        (fun i s _ hP => by
          have ih := runBody_spec b (.while_ (i + 1)) b.lines.length 0 s.1 s.2 _ _ hg' trivial hP.1 (fun _ => by omega)
          have hw := wrap_while hL (by have := ih.at_; simpa [Level.isFile, advL_false] using this)
          exact ⟨⟨hw, by rw [ih.mom rfl]; exact hP.2⟩, ih.out⟩)
        n 0 ((consume mom top (1 :: (b.lines ++ [1]))).1, mkWhile b.lines.length) (by omega)
        ⟨⟨rfl, rfl, Or.inl ⟨hL, by simp [mkWhile, genProc], by simp [mkWhile, genProc]⟩⟩, rfl⟩
      refine ⟨?_, ?_, ?_⟩
      · simp only [loop.1.2]; exact h1.1
      · intro hf; simp only [loop.1.2]; exact h1.2 hf
      · simp only [loop.2, map_itersFrom]
  | incl file b =>
    have h1 := proc_AtLine 1 h (fun hf => by have := hb hf; simp [Item.lines] at this; omega)
    have hg' := Good_push hg h1.1 hok (fun hf => by
      have := hb hf; simp [Item.lines] at this; simp [adv, hf]; omega)
    simp only [Item.lines, advL_single, runItem, posItem]
    have hat : AtLine (.file file) 0 0 0 (mkIncl file (proc mom top 1).1) :=
      ⟨rfl, rfl, by simp [mkIncl, genProc], rfl⟩
    have ih := runBody_spec b (.file file) 0 0 0 (mkIncl file (proc mom top 1).1)
      ((proc mom top 1).2 :: rest) _ hg' trivial hat (fun hf => by simp [Level.isFile] at hf)
    have hs : (mkIncl file (proc mom top 1).1).startLine = (proc mom top 1).1 := by simp [mkIncl, genProc]
    refine ⟨?_, ?_, ih.out⟩
    · simp only [hs]; exact h1.1
    · intro hf; simp only [hs]; exact h1.2 hf
theorem runBody_spec (b : Body) (lv : Level) (L c : Nat) (mom : Int) (top : Tag) (rest : List Tag)
    (outer : List Frame) (hg : Good rest outer) (hok : LvOK lv) (h : AtLine lv L c mom top)
    (hb : lv.isFile = false → c + b.lines.length ≤ L) :
    Res lv L (c + advL lv.isFile b.lines) mom (runBody cfgFixed mom top rest b) (posBody outer lv c b) := by
  cases b with
  | nil =>
    simp only [Body.lines, advL_nil, Nat.add_zero, runBody, posBody]
    exact ⟨h, fun _ => rfl, rfl⟩
  | cons it b =>
    have hlen : (Body.cons it b).lines.length = it.lines.length + b.lines.length := by simp [Body.lines]
    have h1 := runItem_spec it lv L c mom top rest outer hg hok h (fun hf => by have := hb hf; omega)
    have h2 := runBody_spec b lv L (c + advL lv.isFile it.lines) (runItem cfgFixed mom top rest it).1.1
      (runItem cfgFixed mom top rest it).1.2 rest outer hg hok h1.at_ (fun hf => by
        have := hb hf; simp only [hf, advL_false]; omega)
    simp only [Body.lines, advL_append, runBody, posBody, Item.size_eq]
    refine ⟨by rw [← Nat.add_assoc]; exact h2.at_, fun hf => by rw [h2.mom hf, h1.mom hf], by rw [h1.out, h2.out]; simp⟩
end

theorem gnuChain_filter (path : List Frame) : gnuChain (path.filter Frame.isFile) = gnuChain path := by
  induction path with
  | nil => rfl
  | cons f p ih => cases f <;> simp [List.filter, Frame.isFile, gnuChain, ih]

/-! ## error-free programs -/

mutual
theorem posItem_clean (it : Item) (h : it.faultFree = true) (outer : List Frame) (lv : Level) (c : Nat) :
    posItem outer lv c it = [] := by
  cases it with
  | plain p => rfl
  | fault p id => simp [Item.faultFree] at h
  | call name b => simp only [posItem]; exact posBody_clean b (by simpa [Item.faultFree] using h) _ _ _
  | rept n b =>
    simp only [posItem, posBody_clean b (by simpa [Item.faultFree] using h), itersFrom_nil]
  | irp k args b =>
    simp only [posItem, posBody_clean b (by simpa [Item.faultFree] using h), itersFrom_nil]
  | irpc s b =>
    simp only [posItem, posBody_clean b (by simpa [Item.faultFree] using h), itersFrom_nil]
  | while_ n b =>
    simp only [posItem, posBody_clean b (by simpa [Item.faultFree] using h), itersFrom_nil]
  | incl file b => simp only [posItem]; exact posBody_clean b (by simpa [Item.faultFree] using h) _ _ _
theorem posBody_clean (b : Body) (h : b.faultFree = true) (outer : List Frame) (lv : Level) (c : Nat) :
    posBody outer lv c b = [] := by
  cases b with
  | nil => rfl
  | cons it b =>
    simp only [Body.faultFree, Bool.and_eq_true] at h
    simp only [posBody, posItem_clean it h.1, posBody_clean b h.2, List.append_nil]
end

/-! ## `ReadLnCont` -/

theorem readLnContAux_cont (pre : List (List Char)) : ∀ (acc : List Char) (cnt : Nat) (last : List Char)
    (rest : List (List Char)), (∀ l ∈ pre, l.getLast? = some '\\') → last ≠ [] → last.getLast? ≠ some '\\' →
    readLnContAux acc cnt (pre ++ last :: rest) =
      (acc ++ (pre.map List.dropLast).flatten ++ last, cnt + pre.length + 1, rest) := by
  induction pre with
  | nil =>
    intro acc cnt last rest _ hne hl
    have h1 : (acc ++ last).getLast? = last.getLast? := by
      rw [List.getLast?_append]
      cases hlast : last.getLast? with
      | none => simp [List.getLast?_eq_none_iff] at hlast; exact absurd hlast hne
      | some x => rfl
    simp [readLnContAux, h1, hl]
  | cons l pre ih =>
    intro acc cnt last rest hpre hne hl
    have hll : l.getLast? = some '\\' := hpre l (by simp)
    have hlne : l ≠ [] := by intro h; subst h; simp at hll
    have h1 : (acc ++ l).getLast? = some '\\' := by rw [List.getLast?_append, hll]; rfl
    have h2 : (acc ++ l).dropLast = acc ++ l.dropLast := List.dropLast_append_of_ne_nil hlne
    have := ih (acc ++ l.dropLast) (cnt + 1) last rest (fun x hx => hpre x (by simp [hx])) hne hl
    simp only [List.cons_append, readLnContAux, h1, if_true, h2, this, List.map_cons, List.flatten_cons, List.length_cons]
    simp only [List.append_assoc]
    congr 2
    omega

/-! ## EXPECT / ENDEXPECT -/
namespace Exp

theorem findAndTake_eq (n : Nat) (l : List Nat) : findAndTake n l = if n ∈ l then some (l.erase n) else none := by
  induction l with
  | nil => rfl
  | cons a l ih =>
    by_cases h : n = a
    · subst h; simp [findAndTake]
    · have h' : ¬ (a = n) := fun e => h e.symm
      by_cases hm : n ∈ l
      · simp [findAndTake, h, h', ih, hm]
      · simp [findAndTake, h, ih, hm]

/-- occurrences against a pending list: what stays pending, what is reported -/
def occRun : List Nat → List Nat → List Nat × List Nat
  | P, [] => (P, [])
  | P, n :: O => if n ∈ P then occRun (P.erase n) O else ((occRun P O).1, n :: (occRun P O).2)

theorem runEvs_occ (nums : Nums) (e : Bool) (O : List Nat) : ∀ P : List Nat,
    runEvs nums ⟨e, P⟩ (O.map Ev.occur) = (⟨e, (occRun P O).1⟩, (occRun P O).2.map Msg.msg) := by
  induction O with
  | nil => intro P; rfl
  | cons n O ih =>
    intro P
    by_cases hm : n ∈ P
    · simp [runEvs, step, wrX, findAndTake_eq, hm, occRun, ih]
    · simp [runEvs, step, wrX, findAndTake_eq, hm, occRun, ih]

theorem occRun_counts (O : List Nat) : ∀ (P : List Nat) (n : Nat),
    (occRun P O).1.count n = P.count n - O.count n ∧ (occRun P O).2.count n = O.count n - P.count n := by
  induction O with
  | nil => intro P n; simp [occRun]
  | cons m O ih =>
    intro P n
    by_cases hm : m ∈ P
    · have hpos : 0 < P.count m := List.count_pos_iff.mpr hm
      have := ih (P.erase m) n
      simp only [occRun, hm, if_true, List.count_cons]
      by_cases hn : m = n
      · subst hn
        rw [List.count_erase_self] at this
        simp only [beq_self_eq_true, if_true]
        omega
      · have h' : (m == n) = false := by simp [hn]
        rw [List.count_erase_of_ne (fun e => hn e.symm)] at this
        simp only [h', Bool.false_eq_true, if_false]
        omega
    · have hz : P.count m = 0 := List.count_eq_zero.mpr hm
      have := ih P n
      simp only [occRun, hm, if_false, List.count_cons]
      by_cases hn : m = n
      · subst hn
        simp only [beq_self_eq_true, if_true]
        omega
      · have h' : (m == n) = false := by simp [hn]
        simp only [h', Bool.false_eq_true, if_false]
        omega

theorem occRun_sublist (O : List Nat) : ∀ P : List Nat, (occRun P O).2.Sublist O := by
  induction O with
  | nil => intro P; simp [occRun]
  | cons m O ih =>
    intro P
    by_cases hm : m ∈ P
    · simp only [occRun, hm, if_true]; exact List.Sublist.cons _ (ih _)
    · simp only [occRun, hm, if_false]; exact List.Sublist.cons_cons _ (ih _)

theorem drain_all (nums : Nums) (e : Bool) : ∀ (P : List Nat) (fuel : Nat), P.length ≤ fuel → nums.expectedError ∉ P →
    drain nums fuel ⟨e, P⟩ = (⟨e, []⟩, P.map Msg.missing) := by
  intro P
  induction P with
  | nil => intro fuel _ _; cases fuel <;> rfl
  | cons a P ih =>
    intro fuel hf hE
    cases fuel with
    | zero => simp at hf
    | succ fuel =>
      have hE' : nums.expectedError ∉ P := fun h => hE (by simp [h])
      have := ih fuel (by simpa using hf) hE'
      simp [drain, wrX, findAndTake_eq, hE', this]

theorem foldl_prepend (A acc : List Nat) : A.foldl (fun acc n => n :: acc) acc = A.reverse ++ acc := by
  induction A generalizing acc with
  | nil => rfl
  | cons a A ih => simp [ih]

theorem runEvs_append (nums : Nums) (e1 e2 : List Ev) : ∀ s : St,
    runEvs nums s (e1 ++ e2) = ((runEvs nums (runEvs nums s e1).1 e2).1, (runEvs nums s e1).2 ++ (runEvs nums (runEvs nums s e1).1 e2).2) := by
  induction e1 with
  | nil => intro s; simp [runEvs]
  | cons e e1 ih => intro s; simp [runEvs, ih, List.append_assoc]

/-- a well-formed block -/
def block (A O : List Nat) : List Ev := Ev.expect A :: (O.map Ev.occur ++ [Ev.endexpect])

theorem run_block (nums : Nums) (A O : List Nat) (hE : nums.expectedError ∉ A) :
    runEvs nums init (block A O) =
      (init, (occRun A.reverse O).2.map Msg.msg ++ (occRun A.reverse O).1.map Msg.missing) := by
  have hpend : A.foldl (fun acc n => n :: acc) [] = A.reverse := by rw [foldl_prepend]; simp
  have hcnt : (occRun A.reverse O).1.count nums.expectedError = 0 := by
    rw [(occRun_counts O A.reverse nums.expectedError).1, List.count_reverse, List.count_eq_zero.mpr hE]; simp
  have hnot : nums.expectedError ∉ (occRun A.reverse O).1 := List.count_eq_zero.mp hcnt
  unfold block
  rw [runEvs]
  simp only [step, init, Bool.false_eq_true, if_false, hpend, List.nil_append]
  rw [runEvs_append, runEvs_occ]
  simp only [runEvs, step, Bool.not_true, Bool.false_eq_true, if_false,
    drain_all nums true _ _ (Nat.le_refl _) hnot, List.append_nil]

/-! ### hiding options only filter the channel -/

/-- what is left of a channel under the options -/
def shown (h : Hide) (nums : Nums) (ms : List Msg) : List Msg := ms.filter (fun m => !h.hides (m.num nums))

theorem wrXH_eq (h : Hide) (nums : Nums) (s : St) (n : Nat) (m : Msg) (hm : m.num nums = n) :
    wrXH h s n m = ((wrX s n m).1, shown h nums (wrX s n m).2) := by
  unfold wrXH wrX shown
  cases findAndTake n s.pending with
  | some p => rfl
  | none =>
    by_cases hh : h.hides n = true
    · simp [hh, hm]
    · simp [hh, hm]

theorem shown_append (h : Hide) (nums : Nums) (a b : List Msg) : shown h nums (a ++ b) = shown h nums a ++ shown h nums b := by
  simp [shown]

theorem drainH_eq (h : Hide) (nums : Nums) : ∀ (fuel : Nat) (s : St),
    drainH h nums fuel s = ((drain nums fuel s).1, shown h nums (drain nums fuel s).2) := by
  intro fuel
  induction fuel with
  | zero => intro s; rfl
  | succ fuel ih =>
    intro s
    cases hp : s.pending with
    | nil => simp [drainH, drain, hp, shown]
    | cons a l =>
      simp only [drainH, drain, hp]
      have hw := wrXH_eq h nums { inExpect := s.inExpect, pending := l } nums.expectedError (.missing a) rfl
      rw [hw, ih]
      simp only [shown_append]

theorem stepH_eq (h : Hide) (nums : Nums) (s : St) (e : Ev) :
    stepH h nums s e = ((step nums s e).1, shown h nums (step nums s e).2) := by
  cases e with
  | occur n => simp only [stepH, step]; exact wrXH_eq h nums s n _ rfl
  | expect ns =>
    simp only [stepH, step]
    by_cases hi : s.inExpect = true
    · simp only [hi, if_true]; exact wrXH_eq h nums s _ _ rfl
    · simp [hi, shown]
  | endexpect =>
    simp only [stepH, step]
    by_cases hi : s.inExpect = true
    · simp only [hi, Bool.not_true, Bool.false_eq_true, if_false]
      rw [drainH_eq]
    · have hi' : s.inExpect = false := by cases hh : s.inExpect <;> simp_all
      simp only [hi', Bool.not_false, if_true]
      exact wrXH_eq h nums s _ _ rfl

theorem runEvsH_eq (h : Hide) (nums : Nums) (evs : List Ev) : ∀ s : St,
    runEvsH h nums s evs = ((runEvs nums s evs).1, shown h nums (runEvs nums s evs).2) := by
  induction evs with
  | nil => intro s; rfl
  | cons e es ih =>
    intro s
    simp only [runEvsH, runEvs]
    rw [stepH_eq, ih]
    simp only [shown_append]

theorem passExitH_eq (h : Hide) (nums : Nums) (s : St) : passExitH h nums s = shown h nums (passExit nums s) := by
  unfold passExitH passExit
  by_cases hi : s.inExpect = true
  · simp only [hi, if_true]
    rw [wrXH_eq h nums s nums.missingEndExpect (.msg nums.missingEndExpect) rfl]
  · simp [hi, shown]

theorem runPassH_eq (h : Hide) (nums : Nums) (evs : List Ev) : runPassH h nums evs = shown h nums (runPass nums evs) := by
  unfold runPassH runPass
  simp only [runEvsH_eq, passExitH_eq, shown_append]

end Exp

end AslModel.Pos
