import AslModel.Lemmas.PBind
import AslModel.Model.P2HexRead
/-! Helper lemmas for `Props/C06_Short.lean`: one round of p2hex's record loop (`Model/P2HexRead.lean`) on an end record, an
entry record, a long-header and a short-header data record; induction over a file written with any mix of header forms. -/
namespace AslModel.P2HexReadLemmas
open AslModel.PFile AslModel.Tools AslModel.P2Hex

theorem e81 : (0x81 : Byte).toNat = 129 := by decide
theorem e80 : (0x80 : Byte).toNat = 128 := by decide

theorem readLoop_end (f : Nat) (prev : Hdr) (creator : List Byte) :
    readLoop (f + 1) prev (0x00 :: creator) = some [] := by
  simp [readLoop, read_end, consts, skipRecord]

theorem readLoop_entry (f : Nat) (prev : Hdr) (a : Nat) (ha : a < 4294967296) (tl : List Byte) :
    readLoop (f + 1) prev ([0x80] ++ le32 a ++ tl) =
      (readLoop f { prev with hdr := 0x80 } tl).map (List.cons (.entry a)) := by
  simp only [le32, List.cons_append, List.nil_append, readLoop, read_entry, consts, e80, if_true]
  rw [rd32_le32 _ ha]

theorem readLoop_long (f : Nat) (prev : Hdr) (r : Rec) (hwf : r.WF) (tl : List Byte) :
    readLoop (f + 1) prev (serLong r ++ tl) =
      (readLoop f ⟨0x81, r.cpu, r.seg, r.gran⟩ tl).map (List.cons (.data r)) := by
  simp only [Rec.WF] at hwf
  have n : ¬ (129 = 128) := by omega
  simp only [serLong, le32, le16, List.cons_append, List.nil_append, readLoop, read_long, consts, e81, n, if_false, if_true]
  rw [rd16_le16 _ hwf.2, rd32_le32 _ hwf.1]
  have hlen : ¬ (r.data ++ tl).length < r.data.length := by simp
  simp only [hlen, if_false, List.drop_left, List.take_left]

theorem readLoop_short (f : Nat) (prev : Hdr) (r : Rec) (hs : r.shortOK = true) (hwf : r.WF) (tl : List Byte) :
    readLoop (f + 1) prev (serShort r ++ tl) =
      (readLoop f ⟨0x81, r.cpu, segCode, granOf r.cpu segCode⟩ tl).map (List.cons (.data r)) := by
  obtain ⟨h1, h2, h3, h4⟩ := (shortOK_iff r).mp hs
  simp only [Rec.WF] at hwf
  have n : ¬ (129 = 128) := by omega
  simp only [serShort, le32, le16, List.cons_append, List.nil_append, readLoop, read_short prev r.cpu h3 h4, consts, e81, n,
    if_false, if_true]
  rw [rd16_le16 _ hwf.2, rd32_le32 _ hwf.1]
  have hlen : ¬ (r.data ++ tl).length < r.data.length := by simp
  simp only [hlen, if_false, List.drop_left, List.take_left]
  cases r with
  | mk cpu seg gran start data =>
    simp only at h1 h2
    subst h1; subst h2
    rfl

theorem readLoop_form (items : List (Item × Bool)) (creator : List Byte) (hwf : ∀ i ∈ items, i.1.WF)
    (fuel : Nat) (hf : items.length < fuel) (prev : Hdr) :
    readLoop fuel prev ((items.map serItemForm).flatten ++ [0x00] ++ creator) = some (items.map (·.1)) := by
  induction items generalizing fuel prev with
  | nil =>
    cases fuel with
    | zero => omega
    | succ f => simpa using readLoop_end f prev creator
  | cons i is ih =>
    cases fuel with
    | zero => omega
    | succ f =>
      have hi := hwf i (by simp)
      have ih' := fun p => ih (fun r' h => hwf r' (by simp [h])) f (by simp at hf; omega) p
      obtain ⟨it, sh⟩ := i
      simp only [List.map_cons, List.flatten_cons, List.append_assoc]
      simp only [List.append_assoc] at ih'
      cases it with
      | entry a =>
        have := readLoop_entry f prev a hi ((List.map serItemForm is).flatten ++ ([0x00] ++ creator))
        simp only [serItemForm, List.append_assoc] at this ⊢
        rw [this, ih']
        rfl
      | data r =>
        cases sh with
        | false =>
          simp only [serItemForm]
          rw [readLoop_long f prev r hi, ih']
          rfl
        | true =>
          simp only [serItemForm, serAuto]
          cases hs : r.shortOK with
          | true =>
            simp only [if_true]
            rw [readLoop_short f prev r hs hi, ih']
            rfl
          | false =>
            simp only [Bool.false_eq_true, if_false]
            rw [readLoop_long f prev r hi, ih']
            rfl

end AslModel.P2HexReadLemmas
