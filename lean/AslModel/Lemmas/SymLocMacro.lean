import AslModel.Lemmas.SymLocPass
/-! helper lemmas for `C13_loc_refines`, SPEC side only: where the SPEC reports nothing as left open by the manual (no
reference in a macro expansion to a label of the body the macro was called from), the expansion is the one that reads
macro expansions as loops of one iteration. -/
namespace AslModel.SymLoc
open AslModel.Sym AslModel.Generated.Sym
open AslModel.LocScope hiding Name

/-- the environment without the macro-call boundaries -/
def strip : List Bind → List Bind
  | [] => []
  | .callBoundary :: r => strip r
  | .name k u :: r => .name k u :: strip r

theorem strip_append (a b : List Bind) : strip (a ++ b) = strip a ++ strip b := by
  induction a with
  | nil => rfl
  | cons x r ih => cases x <;> simp [strip, ih]

theorem strip_names (ns : List LocScope.Name) (f : LocScope.Name → LocScope.Name) :
    strip (ns.map (fun k => Bind.name k (f k))) = ns.map (fun k => Bind.name k (f k)) := by
  induction ns with
  | nil => rfl
  | cons x r ih => simp [strip, ih]

theorem resolveLabel_strip (k : LocScope.Name) (env : List Bind) : resolveLabel k (strip env) = resolveLabel k env := by
  induction env with
  | nil => rfl
  | cons x r ih =>
    cases x with
    | callBoundary => simpa [strip, resolveLabel] using ih
    | name k' u => simp [strip, resolveLabel, ih]

def isDyn : Res → Bool
  | .dynamic => true
  | _ => false

theorem resolve_true (k : LocScope.Name) (env : List Bind) :
    resolve k env true = match resolveLabel k env with | some _ => .dynamic | none => .plain := by
  induction env with
  | nil => rfl
  | cons x r ih =>
    cases x with
    | callBoundary => simpa [resolve, resolveLabel] using ih
    | name k' u =>
      simp only [resolve, resolveLabel]
      split
      · rfl
      · exact ih

theorem resolve_plain_of_none (k : LocScope.Name) (env : List Bind) (c : Bool) (h : resolveLabel k env = none) :
    resolve k env c = .plain := by
  induction env generalizing c with
  | nil => rfl
  | cons x r ih =>
    cases x with
    | callBoundary => simp only [resolve]; exact ih true (by simpa [resolveLabel] using h)
    | name k' u =>
      simp only [resolve, resolveLabel] at h ⊢
      split at h
      · cases h
      · rename_i hne; simp only [hne, if_false]; exact ih c h

theorem resolve_strip (k : LocScope.Name) (env : List Bind) (h : isDyn (resolve k env false) = false) :
    resolve k (strip env) false = resolve k env false := by
  induction env with
  | nil => rfl
  | cons x r ih =>
    cases x with
    | callBoundary =>
      simp only [resolve, strip] at h ⊢
      rw [resolve_true] at h ⊢
      cases hr : resolveLabel k r with
      | some u => rw [hr] at h; simp [isDyn] at h
      | none => simp only []; exact resolve_plain_of_none _ _ _ (by rw [resolveLabel_strip]; exact hr)
    | name k' u =>
      simp only [resolve, strip] at h ⊢
      split
      · rfl
      · rename_i hne; simp only [hne, if_false] at h; exact ih h

/-! ### statements -/

/-- the space the label of a statement belongs to -/
def labLocOf (key : LocScope.Name → LocScope.Name) (env : List Bind) (lab : Option LocScope.Name) : Option LocScope.Name :=
  match lab with
  | some l => resolveLabel (key l) env
  | none => none

def refResOf (key : LocScope.Name → LocScope.Name) (env : List Bind) (ref : Option LocScope.Name) : Res :=
  match ref with
  | some x => resolve (key x) env false
  | none => .plain

/-- the unique names defined after the label of the statement -/
def defAfter (labLoc : Option LocScope.Name) (d : List LocScope.Name) : List LocScope.Name :=
  match labLoc with
  | some u => u :: d
  | none => d

def fwdFlag (r : Res) (defined : List LocScope.Name) : Bool :=
  match r with
  | .loc u => !defined.contains u
  | _ => false

def expStmtCore (labLoc : Option LocScope.Name) (r : Res) (s : Stmt Op) (a : Acc Op) : Acc Op :=
  let lab := match labLoc with | some u => some u | none => s.label
  let ref := match s.ref, r with
    | some _, .loc u => some u
    | x, _ => x
  let dyn := match r with | .dynamic => true | _ => false
  { a with out := ({ s with label := lab, ref := ref }, fwdFlag r (defAfter labLoc a.defined)) :: a.out,
           defined := defAfter labLoc a.defined, dynamic := a.dynamic || dyn }

theorem expStmt_core (key : LocScope.Name → LocScope.Name) (env : List Bind) (s : Stmt Op) (a : Acc Op) :
    expStmt key env s a = expStmtCore (labLocOf key env s.label) (refResOf key env s.ref) s a := rfl

theorem expStmtCore_dynamic (labLoc : Option LocScope.Name) (r : Res) (s : Stmt Op) (a : Acc Op) :
    (expStmtCore labLoc r s a).dynamic = (a.dynamic || isDyn r) := by
  cases r <;> rfl

theorem expStmt_strip (key : LocScope.Name → LocScope.Name) (env : List Bind) (s : Stmt Op) (a : Acc Op)
    (h : (expStmt key env s a).dynamic = false) : expStmt key (strip env) s a = expStmt key env s a := by
  rw [expStmt_core, expStmt_core] at *
  rw [expStmtCore_dynamic] at h
  have hd : isDyn (refResOf key env s.ref) = false := by
    cases hh : isDyn (refResOf key env s.ref) with
    | false => rfl
    | true => rw [hh] at h; simp at h
  congr 1
  · unfold labLocOf
    cases s.label with
    | none => rfl
    | some l => exact resolveLabel_strip _ _
  · unfold refResOf at hd ⊢
    cases hs : s.ref with
    | none => rfl
    | some x => rw [hs] at hd; exact resolve_strip _ _ hd

/-! ### `dynamic` only ever switches on -/

theorem repeatN_dyn {F : Acc Op → Acc Op} (hF : ∀ a, a.dynamic = true → (F a).dynamic = true) :
    ∀ (n : Nat) (a : Acc Op), a.dynamic = true → (repeatN F n a).dynamic = true := by
  intro n
  induction n with
  | zero => intro a h; exact h
  | succ k ih => intro a h; exact ih _ (hF a h)

theorem openSpace_dyn (key : LocScope.Name → LocScope.Name) (im glob : Bool) (body : LocScope.Items Op) (env : List Bind)
    (a : Acc Op) : (openSpace key im glob body env a).2.dynamic = a.dynamic := by
  unfold openSpace
  cases glob <;> cases im <;> rfl

mutual
theorem expItem_dyn (key : LocScope.Name → LocScope.Name) : ∀ (i : LocScope.Item Op) (env : List Bind) (a : Acc Op),
    a.dynamic = true → (expItem key env i a).dynamic = true
  | .stmt s, env, a, h => by
    simp only [expItem, expStmt_core, expStmtCore_dynamic, h, Bool.true_or]
  | .con im glob n body, env, a, h => by
    simp only [expItem]
    exact repeatN_dyn (fun a' h' => expItems_dyn key body _ _ (by rw [openSpace_dyn]; exact h')) n a h
theorem expItems_dyn (key : LocScope.Name → LocScope.Name) : ∀ (q : LocScope.Items Op) (env : List Bind) (a : Acc Op),
    a.dynamic = true → (expItems key env q a).dynamic = true
  | .nil, _, a, h => by simpa [expItems] using h
  | .cons i r, env, a, h => by
    simp only [expItems]
    exact expItems_dyn key r env _ (expItem_dyn key i env a h)
end

theorem dyn_false_of {x : Bool} (f : x = true → False) : x = false := by
  cases x
  · rfl
  · exact absurd rfl f

/-! ### the program tree -/

mutual
theorem labelsOf_keep_item (key : LocScope.Name → LocScope.Name) : ∀ (i : PItem) (b : Bool),
    labelsOf key (.cons (i.toSpec b) .nil) = labelsOf key (.cons (i.toSpec false) .nil)
  | .op o, b => rfl
  | .con m wh glob n body, b => by
    simp only [PItem.toSpec, labelsOf, labelsOf_keep key body b]
theorem labelsOf_keep (key : LocScope.Name → LocScope.Name) : ∀ (q : PItems) (b : Bool),
    labelsOf key (q.toSpec b) = labelsOf key (q.toSpec false)
  | .nil, b => rfl
  | .cons i r, b => by
    have h1 := labelsOf_keep_item key i b
    have h2 := labelsOf_keep key r b
    cases i with
    | op o => simp only [PItems.toSpec, PItem.toSpec, labelsOf, h2]
    | con m wh glob n body =>
      simp only [PItems.toSpec, PItem.toSpec, labelsOf, List.append_nil] at h1 ⊢
      rw [h1, h2]
end

theorem openSpace_strip (key : LocScope.Name → LocScope.Name) (im glob : Bool) (body : PItems) (env : List Bind) (a : Acc Op) :
    openSpace key false glob (body.toSpec false) (strip env) a =
      (strip (openSpace key im glob (body.toSpec true) env a).1, (openSpace key im glob (body.toSpec true) env a).2) := by
  unfold openSpace
  rw [labelsOf_keep key body true]
  cases glob <;> cases im <;> simp [strip_append, strip_names, strip]

def ItemsErase (key : LocScope.Name → LocScope.Name) (q : PItems) : Prop :=
  ∀ (env : List Bind) (a : Acc Op), (expItems key env (q.toSpec true) a).dynamic = false →
    expItems key (strip env) (q.toSpec false) a = expItems key env (q.toSpec true) a

theorem repeat_erase (key : LocScope.Name → LocScope.Name) (im glob : Bool) (body : PItems) (hb : ItemsErase key body)
    (env : List Bind) : ∀ (n : Nat) (a : Acc Op),
      (repeatN (fun a => expItems key (openSpace key im glob (body.toSpec true) env a).1 (body.toSpec true)
        (openSpace key im glob (body.toSpec true) env a).2) n a).dynamic = false →
      repeatN (fun a => expItems key (openSpace key false glob (body.toSpec false) (strip env) a).1 (body.toSpec false)
        (openSpace key false glob (body.toSpec false) (strip env) a).2) n a =
      repeatN (fun a => expItems key (openSpace key im glob (body.toSpec true) env a).1 (body.toSpec true)
        (openSpace key im glob (body.toSpec true) env a).2) n a := by
  intro n
  induction n with
  | zero => intro a _; rfl
  | succ k ih =>
    intro a h
    simp only [repeatN] at h ⊢
    have h1 : (expItems key (openSpace key im glob (body.toSpec true) env a).1 (body.toSpec true)
        (openSpace key im glob (body.toSpec true) env a).2).dynamic = false := by
      apply dyn_false_of
      intro ht
      have := repeatN_dyn (F := fun a => expItems key (openSpace key im glob (body.toSpec true) env a).1 (body.toSpec true)
        (openSpace key im glob (body.toSpec true) env a).2)
        (fun a' h' => expItems_dyn key _ _ _ (by rw [openSpace_dyn]; exact h')) k _ ht
      rw [this] at h
      cases h
    have h2 := hb _ _ h1
    rw [openSpace_strip key im glob body env a]
    simp only
    rw [h2]
    exact ih _ h

mutual
theorem item_erase (key : LocScope.Name → LocScope.Name) : ∀ (i : PItem) (env : List Bind) (a : Acc Op),
    (expItem key env (i.toSpec true) a).dynamic = false →
      expItem key (strip env) (i.toSpec false) a = expItem key env (i.toSpec true) a
  | .op o, env, a, h => by
    simp only [PItem.toSpec, expItem] at h ⊢
    exact expStmt_strip key env _ a h
  | .con m wh glob n body, env, a, h => by
    simp only [PItem.toSpec, expItem, Bool.false_and] at h ⊢
    exact repeat_erase key (true && m) glob body (items_erase key body) env n a h
theorem items_erase (key : LocScope.Name → LocScope.Name) : ∀ (q : PItems), ItemsErase key q
  | .nil => by intro env a _; rfl
  | .cons i r => by
    intro env a h
    simp only [PItems.toSpec, expItems] at h ⊢
    have h1 : (expItem key env (i.toSpec true) a).dynamic = false := by
      apply dyn_false_of
      intro ht
      rw [expItems_dyn key _ _ _ ht] at h
      cases h
    rw [item_erase key i env a h1]
    exact items_erase key r env _ h
end

/-- **no reference left open ⇒ macro expansions may be read as loops of one iteration** -/
theorem expand_erase (key : LocScope.Name → LocScope.Name) (p : PItems) (h : (expand key (p.toSpec true)).2 = false) :
    (expand key (p.toSpec false)).1 = (expand key (p.toSpec true)).1 := by
  simp only [expand] at h ⊢
  have := items_erase key p [] {} h
  simp only [strip] at this
  rw [this]

end AslModel.SymLoc
