import AslModel.Model.DataTI
import AslModel.Lemmas.DataWord
/-! Helper lemmas for `Props/C09_TI.lean`: the byte callbacks of `pseudo_store` keep the invariant
"cells = the packed image of the bytes stored so far, `adr` = their number". -/
namespace AslModel.DataTILemmas
open AslModel.PFile (Byte b)
open AslModel.Data AslModel.DataModel AslModel.DataX AslModel.DataXModel AslModel.DataXLemmas
open AslModel.DataW AslModel.DataWModel AslModel.DataWLemmas AslModel.DataTI AslModel.DataTIModel

theorem longInt_id (v : Int) (h : -(2 : Int) ^ 31 ≤ v ∧ v < (2 : Int) ^ 31) : longInt v = v := by
  unfold longInt
  simp only [Int.reducePow] at h ⊢
  omega

theorem rc8 (v : Int) : rangeCheck v Generated.itInt8 = inRange 8 v :=
  rangeCheck_cfg Generated.itInt8 8 .perWord false (by decide) v (by intro h; cases h)

theorem rc16 (v : Int) : rangeCheck v Generated.itInt16 = inRange 16 v :=
  rangeCheck_cfg Generated.itInt16 16 .twoPerWord false (by decide) v (by intro h; cases h)

theorem twos8_lt (v : Int) : twos 8 v < 256 := by
  unfold twos
  simp only [Int.reducePow]
  omega

theorem low8 (v : Int) : largeWord v &&& 0xff = twos 8 v := by
  have := word_cfg 8 (by simp) v
  simpa using this

theorem low16 (v : Int) : largeWord v % 65536 = twos 16 v := by
  simp only [largeWord, twos, Int.reducePow]
  omega

theorem shl8 (v : Int) : (largeWord v <<< 8) % 65536 = 256 * twos 8 v := by
  rw [Nat.shiftLeft_eq]
  simp only [largeWord, twos, Int.reducePow, Nat.reducePow]
  omega

/-- a byte into the empty lower half -/
theorem or_low (h x : Nat) (hx : x < 256) : (256 * h) ||| x = 256 * h + x := by
  have := or_shift8 x h hx
  rw [Nat.or_comm, show 256 * h = h <<< 8 from by rw [Nat.shiftLeft_eq]; omega]
  omega

/-- a byte into the empty upper half -/
theorem or_high (l x : Nat) (hl : l < 256) : l ||| (256 * x) = l + 256 * x := by
  have := or_shift8 l x hl
  rw [show 256 * x = x <<< 8 from by rw [Nat.shiftLeft_eq]; omega]
  omega

theorem packHiLo_ne_nil (bs : List Nat) (h : bs ≠ []) : packHiLo bs ≠ [] := by
  match bs, h with
  | [_], _ => simp [packHiLo]
  | _ :: _ :: _, _ => simp [packHiLo]

theorem packLoHi_ne_nil (bs : List Nat) (h : bs ≠ []) : packLoHi bs ≠ [] := by
  match bs, h with
  | [_], _ => simp [packLoHi]
  | _ :: _ :: _, _ => simp [packLoHi]

/-- STRING: the next byte goes to a new word's upper half (even count) or into the last word's lower half (odd count) -/
theorem packHiLo_snoc (bs : List Nat) (x : Nat) (hx : x < 256) :
    packHiLo (bs ++ [x]) = if bs.length % 2 = 1 then orLast (packHiLo bs) x else packHiLo bs ++ [256 * x] := by
  induction bs using packHiLo.induct with
  | case1 b0 b1 r ih =>
    have e : (b0 :: b1 :: r).length % 2 = r.length % 2 := by simp only [List.length_cons]; omega
    simp only [List.cons_append, packHiLo, ih, e]
    split
    · rename_i hodd
      have hr : r ≠ [] := by intro h; subst h; simp at hodd
      have := orLast_append [256 * b0 + b1] (packHiLo r) x (packHiLo_ne_nil r hr)
      simpa using this.symm
    · rfl
  | case2 b0 => simp [packHiLo, orLast, or_low b0 x hx]
  | case3 => simp [packHiLo]

/-- RSTRING: the next byte goes to a new word's lower half (even count) or into the last word's upper half (odd count) -/
theorem packLoHi_snoc (bs : List Nat) (hb : ∀ y ∈ bs, y < 256) (x : Nat) :
    packLoHi (bs ++ [x]) = if bs.length % 2 = 1 then orLast (packLoHi bs) (256 * x) else packLoHi bs ++ [x] := by
  induction bs using packLoHi.induct with
  | case1 b0 b1 r ih =>
    have e : (b0 :: b1 :: r).length % 2 = r.length % 2 := by simp only [List.length_cons]; omega
    have hr' : ∀ y ∈ r, y < 256 := fun y hy => hb y (by simp [hy])
    simp only [List.cons_append, packLoHi, ih hr', e]
    split
    · rename_i hodd
      have hr : r ≠ [] := by intro h; subst h; simp at hodd
      have := orLast_append [b0 + 256 * b1] (packLoHi r) (256 * x) (packLoHi_ne_nil r hr)
      simpa using this.symm
    · rfl
  | case2 b0 =>
    have h0 : b0 < 256 := hb b0 (by simp)
    simp [packLoHi, orLast, or_high b0 x h0]
  | case3 => simp [packLoHi]

/-- element width 8 or 16, one cell or half a cell per element -/
def Packed : TIOp → Prop
  | .long => False
  | _ => True

/-- **the callback's step**: with the cells holding the image of the elements `es` stored so far and `adr` their
number, a value in the element's range adds exactly its own element; any other value is refused. -/
theorem callback_step (o : TIOp) (ho : Packed o) (es : List Nat) (hes : ∀ y ∈ es, y < 256 ∨ o = .word) (v : Int) :
    callback o (layout o es, es.length) v =
      if inRange o.bits v then some (layout o (es ++ [twos o.bits v]), es.length + 1) else none := by
  cases o with
  | long => exact absurd ho (by simp [Packed])
  | string =>
    simp only [callback, rc8, TIOp.bits, layout, low8, shl8, packHiLo_snoc es _ (twos8_lt v)]
    cases inRange 8 v <;> simp
    split <;> simp_all
  | rstring =>
    have hb : ∀ y ∈ es, y < 256 := fun y hy => (hes y hy).resolve_right (by simp)
    simp only [callback, rc8, TIOp.bits, layout, low8, shl8, packLoHi_snoc es hb]
    cases inRange 8 v <;> simp
    split <;> simp_all
  | byte =>
    simp only [callback, rc8, TIOp.bits, layout, low8]
    by_cases h : inRange 8 v = true <;> simp [h]
  | word =>
    simp only [callback, rc16, TIOp.bits, layout, low16]
    by_cases h : inRange 16 v = true <;> simp [h]

end AslModel.DataTILemmas
